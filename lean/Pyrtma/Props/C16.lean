import Pyrtma.Props.EmitTables
import Pyrtma.Gen.CorePy
import Pyrtma.Proofs.Combined
import Pyrtma.Proofs.Paths
/-!
# C16 — deterministic compilation; combined-YAML round trip; the shipped core definitions are current

Proof-level content
* `core_py_current` — both sides regenerated from the working tree on every run, compared by kernel evaluation;
* the combined YAML (`Model/Combined.lean` = the writer `YAMLCompiler.generate` over `Parser.yaml_dict`, and the order in
  which `parse_text` reads the sections back; proofs in `Proofs/Combined.lean`):
  `combined_yaml_roundtrip(_gen)` — **full strength**: every closure (any number of files, imports flattened, reserved
  ids / ranges as expanded ids, constants and lengths as already-expanded values, alias chains, field-list reuse) that
  parses, has distinct names and no forward reference re-parses from its combined file to the same registry
  (`Sim`: everything equal in order, messages / message ids up to the position of the merged `_RESERVED_` block, core
  marks cleared); `combined_yaml_same_signatures` spells that out as ids / hashes / sizes / field lists;
  `forward_ref_never_reparses` and `reparse_fails_iff_forward_ref` — `noFwdRef` (decidable) is *exactly* the class
  outside the open finding C16-F2.
* determinism (`Model/Paths.lean` = the path arithmetic of `Parser.parse / parse_file / trim_root` and the one place
  where the environment reaches the outputs: `src` → `type_source` and the `core_defs` mark; proofs in `Proofs/Paths.lean`):
  `compile_deterministic` — the outputs of `compileRun` do not depend on the working directory, on how the root path is
  spelled, or on the output directory; `source_independent_of_cwd`; `outputs_ignore_location` — the Python / JavaScript /
  MATLAB programs and the combined YAML are functions of the ordered items only (registries are insertion-ordered
  lists); a kernel-checked counterexample shows the statement fails for the variant that stores `root_path` unresolved
  (the seeded change `seeded/C16c`).  No clock is an input of the model: the outputs carry a version string, no time.
Decided on the implementation every run: that the real combined file is the model's (`CORR combined.yaml`: canonical
lines of the real file, read with ruamel, against `combinedSections`), that the real re-parse gives what
`elaborate (combine fs)` gives (`CORR combined.reparse`, registries line by line, errors included), that the `core` marks
and every `type_source` of the real Python output are what the path model derives from the resolved file paths in each
of the three environments the compiler is really run in (`CORR paths.core / paths.source`), and the byte comparison
of those three compiles (another working directory, relative spellings, another output directory).
-/
namespace Pyrtma.C16
open Pyrtma.Emit Pyrtma.Emit.Inst Pyrtma.Gen

/-- the Python emission of the model for the three shipped YAML files (read by the parser-independent YAML-subset
reader, hashes = sha256 of the definition text computed by the translator) against what `core_defs.py` declares
(read by `ast`): constants, string constants, aliases, host / module / message ids, and for every struct and
message class its id, 32-bit hash prefix, `type_size`, and the descriptors (kind, element type, length) in order -/
def corePyCheck : Bool :=
  match elaborate tables true CoreYaml.items {} with
  | .ok R => emitPy tables R == CorePy.stmts
  | .error _ => false

/-- **`core_py_current`.**  The shipped `core_defs.py` is exactly what the compiler model produces from the shipped
`core_defs.yaml` / `data_logger.yaml` / `quick_logger.yaml`. -/
theorem core_py_current : corePyCheck = true := by decide +kernel

/-! ### the combined YAML (`Model/Combined.lean`: writer = `combinedSections`, reader = `readSections`)

`combine fs = readSections (combinedSections fs)` is the item sequence a re-parse of `<name>_combined.yaml` elaborates:
the files' sections merged per kind, read back in the parser's fixed order, the `_RESERVED_` blocks of all files
merged where the first one stood, nothing marked as core.  Hypotheses: the closure parses; the alias / struct / message
names are pairwise distinct (enforced by `Parser.check_duplicate_name`, property C12 — not part of M9, hence a
hypothesis here; the driver evaluates it on every case); `noFwdRef` (decidable, `Spec/Emit.lean`). -/

theorem tables_ct : TablesCt tables := by unfold TablesCt; decide +kernel

/-- **`combined_yaml_roundtrip`** (full strength, any tables whose parser ctypes map is total).  If the closure `fs`
(any number of files, imports flattened in parse order, any mix of sections per file, reserved ids anywhere in
`message_defs`) parses to `R`, has distinct names and no forward reference, then its combined file parses, to a registry
`R'` with `Sim R.unc R'`: the same constants, string constants, aliases, host ids, module ids and structs — same order,
same values, same resolved targets, same sizes, alignments, hashes and field lists — and the same messages and
message ids (`List.Perm`: the merged `_RESERVED_` block may stand elsewhere; every look-up by name agrees), all with
the "came from core_defs/" mark cleared. -/
theorem combined_yaml_roundtrip_gen {T : Tables} (hC : TablesCt T) (ap : Bool) (fs : List FileItems) (R : Reg)
    (h : elaborate T ap (flattenFiles fs) {} = .ok R) (hnd : (defNames (flattenFiles fs)).Nodup)
    (hfw : noFwdRef T (flattenFiles fs) = true) :
    ∃ R', elaborate T ap (combine fs) {} = .ok R' ∧ Sim R.unc R' :=
  combined_roundtrip hC ap fs R h hnd hfw

/-- the same for the tables of the working tree -/
theorem combined_yaml_roundtrip (ap : Bool) (fs : List FileItems) (R : Reg)
    (h : elaborate tables ap (flattenFiles fs) {} = .ok R) (hnd : (defNames (flattenFiles fs)).Nodup)
    (hfw : noFwdRef tables (flattenFiles fs) = true) :
    ∃ R', elaborate tables ap (combine fs) {} = .ok R' ∧ Sim R.unc R' :=
  combined_roundtrip tables_ct ap fs R h hnd hfw

/-- what `Sim` says about ids, hashes, sizes and layouts, spelled out: every definition of the original registry is
a definition of the re-parsed one with the same id, hash, size, alignment and field list, and vice versa -/
theorem combined_yaml_same_signatures (ap : Bool) (fs : List FileItems) (R : Reg)
    (h : elaborate tables ap (flattenFiles fs) {} = .ok R) (hnd : (defNames (flattenFiles fs)).Nodup)
    (hfw : noFwdRef tables (flattenFiles fs) = true) :
    ∃ R', elaborate tables ap (combine fs) {} = .ok R' ∧
      R'.structs.map DefR.sig = R.structs.map DefR.sig ∧
      (∀ s, s ∈ R'.msgs.map DefR.sig ↔ s ∈ R.msgs.map DefR.sig) ∧
      (∀ n id, (∃ c, (n, id, c) ∈ R'.msgIds) ↔ (∃ c, (n, id, c) ∈ R.msgIds)) ∧
      R'.aliases.map (fun a => (a.name, a.target, a.isStruct, a.align, a.esize)) =
        R.aliases.map (fun a => (a.name, a.target, a.isStruct, a.align, a.esize)) ∧
      R'.consts.map (fun c => (c.1, c.2.1)) = R.consts.map (fun c => (c.1, c.2.1)) ∧
      R'.strs.map (fun c => (c.1, c.2.1)) = R.strs.map (fun c => (c.1, c.2.1)) ∧
      R'.hosts.map (fun c => (c.1, c.2.1)) = R.hosts.map (fun c => (c.1, c.2.1)) ∧
      R'.mods.map (fun c => (c.1, c.2.1)) = R.mods.map (fun c => (c.1, c.2.1)) := by
  obtain ⟨R', hr, hs⟩ := combined_roundtrip tables_ct ap fs R h hnd hfw
  refine ⟨R', hr, ?_, ?_, ?_, ?_, ?_, ?_, ?_, ?_⟩
  · rw [← hs.structs]; simp [Reg.unc, List.map_map, Function.comp_def, DefR.sig, DefR.unc]
  · intro s
    have hp := (hs.msgs.map DefR.sig).mem_iff (a := s)
    rw [← hp]; simp [Reg.unc, List.map_map, Function.comp_def, DefR.sig, DefR.unc]
  · intro n id
    constructor
    · rintro ⟨c, hc⟩
      have := hs.msgIds.mem_iff.mpr hc
      simp only [Reg.unc, List.mem_map] at this
      obtain ⟨x, hx, he⟩ := this
      simp only [Prod.mk.injEq] at he
      exact ⟨x.2.2, by rw [← he.1, ← he.2.1]; exact hx⟩
    · rintro ⟨c, hc⟩
      refine ⟨false, hs.msgIds.mem_iff.mp ?_⟩
      simp only [Reg.unc, List.mem_map]
      exact ⟨(n, id, c), hc, rfl⟩
  · rw [← hs.aliases]; simp [Reg.unc, List.map_map, Function.comp_def, AliasR.unc]
  · rw [← hs.consts]; simp [Reg.unc, List.map_map, Function.comp_def]
  · rw [← hs.strs]; simp [Reg.unc, List.map_map, Function.comp_def]
  · rw [← hs.hosts]; simp [Reg.unc, List.map_map, Function.comp_def]
  · rw [← hs.mods]; simp [Reg.unc, List.map_map, Function.comp_def]

/-- **`forward_ref_never_reparses`** (open finding C16-F2, the negative half).  With distinct names, a closure in which
some item refers to a name that an item of a later section defines — an alias whose target is a struct, a struct with
a message-typed field or a message as `fields:` source — has a combined file that the parser refuses. -/
theorem forward_ref_never_reparses (ap : Bool) (fs : List FileItems)
    (hnd : (defNames (flattenFiles fs)).Nodup) (hfw : noFwdRef tables (flattenFiles fs) = false) (Q : Reg) :
    elaborate tables ap (combine fs) {} ≠ .ok Q :=
  combined_fails_of_fwd ap fs hnd hfw Q

/-- **`reparse_fails_iff_forward_ref`**: `noFwdRef` is *exactly* the class outside C16-F2 — for a closure that parses
(distinct names), the re-parse of the combined file fails iff the closure has a forward reference. -/
theorem reparse_fails_iff_forward_ref (ap : Bool) (fs : List FileItems) (R : Reg)
    (h : elaborate tables ap (flattenFiles fs) {} = .ok R) (hnd : (defNames (flattenFiles fs)).Nodup) :
    (∃ e, elaborate tables ap (combine fs) {} = .error e) ↔ noFwdRef tables (flattenFiles fs) = false :=
  combined_fails_iff tables_ct ap fs R h hnd

/-! ### determinism (`Model/Paths.lean`: the path arithmetic of `Parser.parse / parse_file / trim_root`)

In Lean `compileRun` is a function, so "same inputs, same outputs" is `rfl`; the content is in *what counts as input*.
The model gives `compile()` the environment the code reads — working directory, spelling of the root path, output
directory — and lets it reach the outputs the way the code does (`root_path`, `chdir` per file, `os.path.relpath`
evaluated in whatever the working directory is at that moment, `src.parent.stem == "core_defs"`).  The theorems say
that the environment cancels out; the registries being insertion-ordered lists (Python dicts), the programs are
functions of their ordered content, and for Python / JavaScript / MATLAB of nothing else. -/

/-- **`compile_deterministic`.**  Same files, any two working directories, any two spellings of the root path that
name the same file (absolute, relative, through `..`), any two output directories: same outcome, same four programs,
same `type_source` strings, same combined YAML. -/
theorem compile_deterministic (ap : Bool) (k : Nat) (d : Disk) {e1 e2 : Env} {f1 f2 : Nat}
    (h1 : e1.root.segs.getLast? = some (.name f1)) (h2 : e2.root.segs.getLast? = some (.name f2))
    (h : e1.rootFile = e2.rootFile) : compileRun tables ap k e1 d = compileRun tables ap k e2 d :=
  compile_env_irrelevant tables ap k d h1 h2 h

/-- `trim_root` with the resolved `root_path` the code stores is plain `relpath` of two resolved paths: it does not
depend on the working directory in which `os.path.relpath` is evaluated (the parser changes it for every file) -/
theorem source_independent_of_cwd (cwd root file : AbsPath) :
    relpath cwd (absSpelled file) (absSpelled root) = relAbs file root := relpath_abs cwd file root

/-- **`outputs_ignore_location`.**  The Python, JavaScript and MATLAB programs, the outcome and the combined YAML are
functions of the items file by file in parse order — not of where the files live or of which of them count as core. -/
theorem outputs_ignore_location (ap : Bool) (fs1 fs2 : List FileItems) (h : fs1.map (·.items) = fs2.map (·.items)) :
    (match elaborate tables ap (flattenFiles fs1) {}, elaborate tables ap (flattenFiles fs2) {} with
     | .ok R1, .ok R2 => emitPy tables R1 = emitPy tables R2 ∧ emitJs tables R1 = emitJs tables R2 ∧
                          emitM tables R1 = emitM tables R2
     | .error e1, .error e2 => e1 = e2
     | _, _ => False) ∧ combinedSections fs1 = combinedSections fs2 :=
  relocation_irrelevant tables_ct ap fs1 fs2 h

/-! ### Non-vacuity -/


/-- two files: the imported one with a constant, an alias, a struct, a message and two reserved ids; the importer with
an alias of that alias, a host id, a struct re-using the imported struct's fields, a signal, a message nesting the imported
message, and one more reserved id -/
def rtFiles : List FileItems :=
  [{ core := true, items :=
      [.const 600 (.int 4), .alias 601 (idOf "int16"),
       .struct 602 11 (.list [(603, 601, none), (604, idOf "uint8", some 2)]),
       .message 605 2001 12 (.list [(606, 602, some 2)]), .reserved 607 2005 1, .reserved 608 2006 2] },
   { core := false, items :=
      [.const 610 (.int 7), .alias 611 601, .hostId 612 5, .struct 613 13 (.reuse 602),
       .signal 614 2002 14, .message 615 2003 15 (.list [(616, 605, none), (617, 611, none)]), .reserved 618 2007 3] }]

/-- the hypotheses of `combined_yaml_roundtrip` hold for it, the combined order is a different item sequence, and the
re-parse yields the messages in a different order (the merged `_RESERVED_` block moved) but the same set -/
example :
    (match elaborate tables true (flattenFiles rtFiles) {}, elaborate tables true (combine rtFiles) {} with
     | .ok R, .ok R' =>
       decide ((defNames (flattenFiles rtFiles)).Nodup) && noFwdRef tables (flattenFiles rtFiles) &&
       ((combine rtFiles).map (·.2) != (flattenFiles rtFiles).map (·.2)) &&
       (R'.msgs.map (·.name) != R.msgs.map (·.name)) &&
       (R'.msgs.map (·.name) == [605, 607, 608, 618, 614, 615]) && (R.msgs.map (·.name) == [605, 607, 608, 614, 615, 618]) &&
       (R'.structs.map DefR.sig == R.structs.map DefR.sig) && (R.structs.map (·.size) == [4, 4]) &&
       (R.aliases.length == 2)
     | _, _ => false) = true := by decide +kernel

/-- C16-F2 witnesses: an alias of an imported struct / a struct containing an imported message parse, have a forward
reference, and their combined files do not re-parse -/
example :
    ([ [{ core := false, items := [.struct 500 1 (.list [(501, idOf "uint8", none), (502, idOf "int32", none)])] },
        { core := false, items := [.alias 503 500, .struct 504 2 (.list [(505, 503, none)])] }],
       [{ core := false, items := [.message 500 1801 1 (.list [(501, idOf "double", none)])] },
        { core := false, items := [.struct 502 2 (.list [(503, 500, none)]), .message 504 1800 3 (.list [(505, 502, none)])] }],
       [{ core := false, items := [.message 500 1801 1 (.list [(501, idOf "double", none)])] },
        { core := false, items := [.struct 502 2 (.reuse 500)] }] ] : List (List FileItems)).map
      (fun fs => (match elaborate tables true (flattenFiles fs) {} with | .ok _ => true | .error _ => false,
                  decide ((defNames (flattenFiles fs)).Nodup), noFwdRef tables (flattenFiles fs),
                  match elaborate tables true (combine fs) {} with | .ok _ => true | .error _ => false))
    = [(true, true, false, false), (true, true, false, false), (true, true, false, false)] := by decide +kernel


/-- a closure on disk: `/w/src/a.yaml` (root) imports `sub/b.yaml`, which imports `../c.yaml`; the package lives in `/p` -/
def detDisk : Disk :=
  { pkgDir := [900], coreFiles := [],
    files := [([901, 902, 905], [.struct 700 1 (.list [(701, idOf "int32", none)])]),                 -- /w/src/c.yaml
              ([901, 902, 903, 904], [.struct 702 2 (.list [(703, 700, none), (704, idOf "int32", none)])]),  -- /w/src/sub/b.yaml
              ([901, 902, 906], [.message 705 1500 3 (.list [(706, 702, none)])])] }                  -- /w/src/a.yaml

/-- absolute path from `/`; `../src/a.yaml` from `/w/elsewhere`; `src/a.yaml` from `/w`; `./x/../a.yaml` from `/w/src` -/
def detEnvs : List Env :=
  [{ cwd := [], root := ⟨true, [.name 901, .name 902, .name 906]⟩, outDir := ⟨true, [.name 910]⟩ },
   { cwd := [901, 911], root := ⟨false, [.up, .name 902, .name 906]⟩, outDir := ⟨false, [.name 912]⟩ },
   { cwd := [901], root := ⟨false, [.name 902, .name 906]⟩, outDir := ⟨false, []⟩ },
   { cwd := [901, 902], root := ⟨false, [.cur, .name 913, .up, .name 906]⟩, outDir := ⟨false, [.up]⟩ }]

/-- non-vacuity of `compile_deterministic`: the four environments resolve to the same root file, the run succeeds,
and the sources are the relative paths `c.yaml`, `sub/b.yaml`, `a.yaml` -/
example : detEnvs.all (fun e => e.rootFile == [901, 902, 906] &&
      (compileRun tables true 999 e detDisk).outcome == none &&
      (compileRun tables true 999 e detDisk).sources ==
        [(700, [.name 905]), (702, [.name 903, .name 904]), (705, [.name 906])]) = true := by decide +kernel

/-- the statement is not true of every way of writing the code: with `root_path = defs_path.parent` stored as spelled
(the seeded change `seeded/C16c`) the same four environments give different `type_source` strings — `relpath` then
resolves the stored relative path against the working directory of the moment (the directory of the file in hand) -/
example : (detEnvs.map (fun e => (compileWith storedRootUnresolved tables true 999 e detDisk).sources)).eraseDups.length > 1 := by
  decide +kernel

/-- the core registry is not trivial: 3 files, more than 50 messages -/
example : (match elaborate tables true CoreYaml.items {} with
    | .ok R => decide (R.msgs.length > 50 ∧ R.structs.length ≥ 5 ∧ R.aliases.length = 4)
    | .error _ => false) = true := by decide +kernel

/-- a stale `core_defs.py` is detected: changing one recorded size refutes the check -/
example : (match elaborate tables true CoreYaml.items {} with
    | .ok R => emitPy tables R == (CorePy.stmts.map (fun s => match s with
        | .defn sp n id h (some sz) fs => .defn sp n id h (some (sz + 2)) fs
        | s => s))
    | .error _ => true) = false := by decide +kernel

end Pyrtma.C16
