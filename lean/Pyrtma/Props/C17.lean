import Pyrtma.Proofs.DataLog
import Pyrtma.Proofs.DataLogFmt
import Pyrtma.Proofs.DataLogLive
import Pyrtma.Proofs.DataLogFineMain
import Pyrtma.Proofs.DataLogFineLive
import Pyrtma.Proofs.DataLogFiles
/-!
# C17 — the data logger loses, duplicates and reorders nothing

Theorems about three models of `src/pyrtma/data_logger/*` and `utils/quicklogger_reader.py`:

* **M10f `Model/DataLogFine.lean` — the granularity CPython guarantees** (round 2).  One step = ONE access to
  an object both threads can reach: an `Event` operation, `Thread.is_alive()`, a read or write of a shared `DataSet`
  attribute (`wbuf`, `subdivide_flag`, `collection_stopped`, `formatter`, `fd`), one list operation (`append`,
  `clear`, one `__next__`), one file-system operation (`write`, each element of `writelines`, `seek`, `close`, `open`,
  `NamedTemporaryFile`, `copyfileobj`).  List and file objects have identity (heap + references in locals); the
  formatters' call structure is inside the model (plain / csv / quicklogger: passes over the batch, header rewrite,
  both `finalize` paths, constructor writes); every file-system operation may fail (`Cfg.fault`: an arbitrary
  predicate on the operation's global number) and raises on a closed file.  **No region is assumed atomic and there
  is no lock in this code**: that the two events suffice is the theorem `fine_no_swap_under_writer`.
  Theorems (`section fine`), all for EVERY configuration, operation list, failure pattern and EVERY interleaving of
  single accesses: `fine_no_loss_no_dup_no_reorder` / `fine_complete_if_done`, `fine_no_swap_under_writer`,
  `fine_writer_parked_while_recorder_owns`, `fine_loaded_references_current`, `fine_batch_stable`,
  `fine_writer_never_dies` (no failure ⇒
  nothing raises), `fine_failure_is_never_silent` / `fine_told_on_failure`, `fine_stop_waits_only_for_writer`,
  `fine_stop_terminates_or_hangs`, `fine_stop_returns`, `fine_complete_after_fair_run`,
  `fine_stop_terminates_patched`; and the defect C17-F3 exhibited: `stop_hangs_after_writer_death`,
  `writer_death_is_the_only_hang`.
* **M10 `Model/DataLog.lean` — the gated operations** (round 1; kept: it records the *batches* every file received,
  which the composition needs, and carries `old_order_loses`, C17-F1): `no_loss_no_dup_no_reorder`,
  `writer_never_dies`, `no_swap_under_writer`, `stop_waits_only_for_a_busy_writer`, `stop_returns`,
  `complete_after_fair_run`.
* **`Model/DataLogFmt.lean` + `Model/DataLogFiles.lean` — the formatters and readers, composed with the handshake**:
  per format `raw_is_concat`, `raw_reads_back`, `json_lines_decode`, `ql_layout` (file header, message headers,
  offset table, data block — whatever the partition into `write` calls), `ql_roundtrip`, `ql_file_of_batches`,
  `ql_empty_file`; composed over whole sessions (every placement of arrivals, flushes, sub-divisions, pause / resume,
  stop; every schedule; any number of files): `raw_files_read_back`, `ql_files_read_back`, `json_files_read_back`,
  `json_lines_decode_to_messages`.

What is *not* a theorem (MANIFEST `level_claimed.text`): that the real classes behave like the models — decided
by the differential check on every run (`harness/datalog_corr.py`, `harness/datalog_fine.py`: same schedule, same
trace of accesses, same outcome, same files, byte for byte); that attributes outside the gated set are
thread-local (audited on every run); termination for an arbitrary fair scheduler (proved for round-robin after an
arbitrary prefix); `Message.from_json ∘ to_json = id` and the byte encodings (opaque `Enc`, hypotheses named); the
msg_header (csv) formatter's text; more than one `start … stop` session per collection.
-/
namespace Pyrtma.C17
open Pyrtma.DataLog

/-- **Exactly once, in arrival order.**  For every configuration using the order
`write_finished.set(); write_to_disk.clear()`, every operation list and every schedule: when `stop()` has
returned, the concatenation of the files of every data set is exactly the sequence of messages handed to
`update` while not paused whose type the data set selects. -/
theorem no_loss_no_dup_no_reorder (c : Cfg) (hf : c.finFirst = true) (ops : List RecOp) (sched : List Tid)
    (hdone : (run c ops sched).rpc = .done) (i : Nat) (hi : i < c.n) :
    complete (accepted (c.sel i) false ops) ((run c ops sched).ds i).files = true := by
  have h := (run_inv c ops hf sched).at_done hdone i hi
  simpa [complete, Ds.written] using h

/-- The same statement through the verdict function the driver prints. -/
theorem verdict_ok (c : Cfg) (hf : c.finFirst = true) (ops : List RecOp) (sched : List Tid)
    (hdone : (run c ops sched).rpc = .done) (i : Nat) (hi : i < c.n) :
    verdict (accepted (c.sel i) false ops) ((run c ops sched).ds i).files = "ok" :=
  (verdict_ok_iff _ _).2 (no_loss_no_dup_no_reorder c hf ops sched hdone i hi)

/-- **The writer never dies and `update` never raises**: on no schedule does the writer touch a closed
file (`ValueError` in the real code), hence `update` never finds the writer thread dead. -/
theorem writer_never_dies (c : Cfg) (hf : c.finFirst = true) (ops : List RecOp) (sched : List Tid) :
    (run c ops sched).wpc ≠ .dead ∧ (run c ops sched).rpc ≠ .raised := by
  have h := (run_inv c ops hf sched).compat
  constructor
  · intro hw; simp [DataLog.compat, hw] at h
  · intro hr; simp [DataLog.compat, hr] at h

/-- **The buffers are never swapped under the writer**: whenever the writer is about to run
`ds[k].write()`, the recording thread is parked at a point where it touches no `wbuf` (start of an
operation, `is_set`, or the `wait` loop of `stop()`), `write_to_disk` is set and `write_finished` is clear. -/
theorem no_swap_under_writer (c : Cfg) (hf : c.finFirst = true) (ops : List RecOp) (sched : List Tid)
    (k : Nat) (hw : (run c ops sched).wpc = .write k) :
    rsafe (run c ops sched).rpc = true ∧ (run c ops sched).td = true ∧ (run c ops sched).fin = false ∧
    k < c.n := by
  have h := run_inv c ops hf sched
  have hc := h.compat
  simp [DataLog.compat, hw] at hc
  exact ⟨hc.1.2, hc.1.1.1, hc.1.1.2, h.wbound k hw⟩

/-- **No livelock state**: if `stop()` is in its `while not write_finished.wait()` loop, then either
`write_finished` is already set, or the writer is inside (or about to start) a cycle that ends by setting
it. -/
theorem stop_waits_only_for_a_busy_writer (c : Cfg) (hf : c.finFirst = true) (ops : List RecOp)
    (sched : List Tid) (hr : (run c ops sched).rpc = .sWait) :
    (run c ops sched).fin = true ∨
      ((run c ops sched).td = true ∧ (run c ops sched).wpc ≠ .clrTD ∧ (run c ops sched).wpc ≠ .dead) := by
  have hc := (run_inv c ops hf sched).compat
  cases hw : (run c ops sched).wpc <;> simp_all [DataLog.compat, rsafe]
  by_cases htd : (run c ops sched).td = true <;> simp_all

/-- **`stop()` returns**: after any schedule prefix whatsoever, continuing round-robin (`R W R W …`) for
`(n + 5) * #operations + 2 n + 8` rounds is enough for `stop()` to have returned — so the premise of
`no_loss_no_dup_no_reorder` is met by every run the harness performs, and the writer can never keep
`stop()` waiting forever. -/
theorem stop_returns (c : Cfg) (hf : c.finFirst = true) (ops : List RecOp) (sched : List Tid) (N : Nat)
    (hN : (c.n + 5) * ops.length + (2 * c.n + 8) ≤ N) :
    (run c ops (sched ++ roundRobin N)).rpc = .done := by
  unfold run
  rw [List.foldl_append]
  apply rr_terminates c ops hf N _ (foldl_inv c ops hf sched _ (inv_init c ops))
  have := foldl_mu_le c ops hf sched _ (inv_init c ops)
  rw [mu_init] at this
  omega

/-- … and then every file is complete (the two theorems combined, no premise left). -/
theorem complete_after_fair_run (c : Cfg) (hf : c.finFirst = true) (ops : List RecOp) (sched : List Tid)
    (N : Nat) (hN : (c.n + 5) * ops.length + (2 * c.n + 8) ≤ N) (i : Nat) (hi : i < c.n) :
    complete (accepted (c.sel i) false ops) ((run c ops (sched ++ roundRobin N)).ds i).files = true :=
  no_loss_no_dup_no_reorder c hf ops _ (stop_returns c hf ops sched N hN) i hi

/-! ### C17-F1: the order `write_to_disk.clear(); write_finished.set()` loses a message -/

def cfg1 (finFirst : Bool) : Cfg := { n := 1, sel := fun _ => .all, interval := fun _ => 0, finFirst := finFirst }
def opsF1 : List RecOp := [.update 16 ⟨1, 0⟩, .update 16 ⟨2, 1⟩]
def schedF1 : List Tid :=
  [.R, .R, .R, .R, .R, .W, .W, .W, .R, .R, .R, .R, .R, .W, .W, .R, .R, .R, .R, .R, .R]

/-- With the old order there is a 21-step schedule after which `stop()` has returned and message 2 is in
no file: a `trigger_write` lands between the writer's `write_to_disk.clear()` and `write_finished.set()`,
the stale `write_finished` lets `stop()` through while the writer still owns the staged batch. -/
theorem old_order_loses :
    (run (cfg1 false) opsF1 schedF1).rpc = .done ∧
    ((run (cfg1 false) opsF1 schedF1).ds 0).files = [[⟨1, 0⟩]] ∧
    accepted .all false opsF1 = [⟨1, 0⟩, ⟨2, 1⟩] ∧
    verdict (accepted .all false opsF1) ((run (cfg1 false) opsF1 schedF1).ds 0).files = "fail lost" := by
  decide +kernel

/-! ### the same at the granularity CPython guarantees (`Model/DataLogFine.lean`)

One step = one access to an object both threads can reach (event operation, `is_alive()`, read / write of a shared
`DataSet` attribute, one list operation, one file-system operation); every file-system operation may fail
(`Cfg.fault`, an arbitrary predicate on the operation's global number).  Schedules are arbitrary lists over
`{R, W}` of these steps.  No region is assumed atomic and there is no lock: the exclusion is a theorem. -/

section fine
open Pyrtma.DataLog.Fine

/-- **Exactly once, in arrival order — at single-access granularity.**  For every configuration (any number
of data sets, selections, intervals, formatter classes, with or without the proposed `is_alive` patch), every
failure pattern of the file system, every operation list and every interleaving of single accesses: when
`stop()` has returned, the concatenation of the files of every data set is exactly the accepted sequence. -/
theorem fine_no_loss_no_dup_no_reorder (c : Fine.Cfg) (ops : List RecOp) (sched : List Fine.Tid)
    (hdone : (Fine.run c ops sched).rpc = .done) (i : Nat) (hi : i < c.n) :
    complete (accepted (c.sel i) false ops) ((Fine.run c ops sched).ds i).fileLogs = true := by
  have h := (Fine.run_inv c ops sched).at_done hdone i hi
  simpa [complete, Fine.Ds.written] using h

/-- The same through the Spec clause the driver evaluates on the implementation. -/
theorem fine_complete_if_done (c : Fine.Cfg) (ops : List RecOp) (sched : List Fine.Tid) (o : Outcome)
    (ho : outcomeOf c (Fine.run c ops sched) = some o) (i : Nat) (hi : i < c.n) :
    completeIfDone o (accepted (c.sel i) false ops) ((Fine.run c ops sched).ds i).fileLogs = true := by
  unfold completeIfDone
  by_cases hd : (Fine.run c ops sched).rpc = .done
  · simp [fine_no_loss_no_dup_no_reorder c ops sched hd i hi]
  · have : o ≠ .done := by
      intro e; subst e
      unfold outcomeOf at ho
      simp only [hd, if_false] at ho
      split at ho <;> (try split at ho) <;> simp at ho
    simp [this]

/-- **Mutual exclusion is a theorem, not an assumption**: on every schedule, whenever the writer is anywhere
between loading `self.formatter` for `ds[k].write()` and its last access of `subdivide()`, the recording thread
is at a place where it touches neither a `wbuf` attribute, nor a staged list, nor a file object (start of an
operation, `is_alive`, `rbuf.append`, `subdivide_flag = True`, `is_set`, the wait loop of `stop()`), and
`write_to_disk` is set, `write_finished` clear.  The two events are the only synchronisation there is. -/
theorem fine_no_swap_under_writer (c : Fine.Cfg) (ops : List RecOp) (sched : List Fine.Tid)
    (ho : (Fine.run c ops sched).over = false) (k : Nat) (hk : wIdx (Fine.run c ops sched).wpc = some k) :
    rcls (Fine.run c ops sched).rpc = .safe ∧ (Fine.run c ops sched).td = true ∧
      (Fine.run c ops sched).fin = false ∧ k < c.n :=
  (Fine.run_inv c ops sched).excl ho k hk

/-- … and the other way round: while `trigger_write` swaps the buffers or `stop()` stages, finalises and closes,
the writer is parked at `write_to_disk.wait()` or at the `write_to_disk.clear()` that ends its cycle. -/
theorem fine_writer_parked_while_recorder_owns (c : Fine.Cfg) (ops : List RecOp) (sched : List Fine.Tid)
    (ho : (Fine.run c ops sched).over = false) (hu : (rcls (Fine.run c ops sched).rpc).safe? = false) :
    (Fine.run c ops sched).wpc = .wait ∨ (Fine.run c ops sched).wpc = .clrTD :=
  (Fine.run_inv c ops sched).excl' ho hu

/-- **References are never stale**: the list object and the formatter a thread has loaded into a local are
still what `ds.wbuf` / `ds.formatter` refer to whenever it uses them, and the indices into the formatters'
scripts of file operations are in range (so the model's "unreachable" branches are unreachable). -/
theorem fine_loaded_references_current (c : Fine.Cfg) (ops : List RecOp) (sched : List Fine.Tid) :
    WLoc c (Fine.run c ops sched) ∧ RLoc c (Fine.run c ops sched) :=
  ⟨(Fine.run_inv c ops sched).wloc, (Fine.run_inv c ops sched).rloc⟩

/-- **The batch a formatter method iterates is stable**: while the writer is inside `formatter.write(wbuf)` or
`formatter.finalize(wbuf)` for data set `i`, whatever the recording thread does next leaves the list object the
method was called with, and the attribute `wbuf`, as they are — both passes of the quicklogger formatter (headers,
then payloads) and the `self.wbuf.clear()` that follows see one and the same list; and while `stop()`'s own
`finalize` iterates, the writer changes no data set at all. -/
theorem fine_batch_stable (c : Fine.Cfg) (ops : List RecOp) (sched : List Fine.Tid)
    (ho : (Fine.run c ops sched).over = false) :
    (∀ i, ((Fine.run c ops sched).wpc = .call i ∨ (Fine.run c ops sched).wpc = .dCall i) →
      ((Fine.stepR c (Fine.run c ops sched)).ds i).lists (Fine.run c ops sched).wcall.l =
        ((Fine.run c ops sched).ds i).lists (Fine.run c ops sched).wcall.l ∧
      ((Fine.stepR c (Fine.run c ops sched)).ds i).wb = ((Fine.run c ops sched).ds i).wb ∧
      (Fine.run c ops sched).wcall.l = ((Fine.run c ops sched).ds i).wb) ∧
    (∀ j, (Fine.run c ops sched).rpc = .sCall j →
      (Fine.stepW c (Fine.run c ops sched)).ds = (Fine.run c ops sched).ds ∧
      (Fine.run c ops sched).rcall.l = ((Fine.run c ops sched).ds j).wb) :=
  ⟨fun i hw => (Fine.run_inv c ops sched).batch_stable_W ho i hw,
   fun j hr => (Fine.run_inv c ops sched).batch_stable_R ho j hr⟩

/-- **Without file-system failures nothing raises**: the writer never dies (no write, seek or copy ever hits a
closed file or a closed temp file) and neither `update` nor `stop` raises — on every schedule. -/
theorem fine_writer_never_dies (c : Fine.Cfg) (hnf : ∀ k, c.fault k = false) (ops : List RecOp)
    (sched : List Fine.Tid) :
    (Fine.run c ops sched).wpc ≠ .dead ∧ (Fine.run c ops sched).rpc ≠ .raisedT ∧
      (Fine.run c ops sched).rpc ≠ .raisedIO :=
  Fine.run_noexc c ops sched hnf

/-- **A failed file-system operation is never silent**: if any operation was made to fail, the thread that
performed it has been stopped by the exception, and `stop()` does not return normally — it raises (recorder's
own operation; or, with the patch, `DataCollectionThreadError`), `update` raises, or (code as it is) `stop()`
hangs: see below. -/
theorem fine_failure_is_never_silent (c : Fine.Cfg) (ops : List RecOp) (sched : List Fine.Tid)
    (hf : firedB c (Fine.run c ops sched) = true) :
    ((Fine.run c ops sched).wpc = .dead ∨ (Fine.run c ops sched).rpc = .raisedIO) ∧
      (Fine.run c ops sched).rpc ≠ .done := by
  have ht := Fine.run_told c ops sched ((firedB_iff _ _).1 hf)
  refine ⟨ht, fun hd => ?_⟩
  rcases ht with h | h
  · exact (Fine.run_inv c ops sched).done_not_dead hd h
  · rw [hd] at h; cases h

/-- the Spec clause `toldOnFailure` holds for every outcome of every run -/
theorem fine_told_on_failure (c : Fine.Cfg) (ops : List RecOp) (sched : List Fine.Tid) (o : Outcome)
    (ho : outcomeOf c (Fine.run c ops sched) = some o) :
    toldOnFailure (firedB c (Fine.run c ops sched)) o = true := by
  unfold toldOnFailure
  cases hf : firedB c (Fine.run c ops sched)
  · simp
  · have := (fine_failure_is_never_silent c ops sched hf).2
    have : o ≠ .done := by
      intro e; subst e
      unfold outcomeOf at ho
      simp only [this, if_false] at ho
      split at ho <;> (try split at ho) <;> simp at ho
    simp [this]

/-- **The only thing that can keep `stop()` waiting**: in its wait loop, either `write_finished` is set, or
`write_to_disk` is set and the writer is inside a cycle that ends by setting it — or dead. -/
theorem fine_stop_waits_only_for_writer (c : Fine.Cfg) (ops : List RecOp) (sched : List Fine.Tid)
    (hr : waiting (Fine.run c ops sched).rpc = true) :
    (Fine.run c ops sched).fin = true ∨
      ((Fine.run c ops sched).td = true ∧ (Fine.run c ops sched).wpc ≠ .clrTD) := by
  rcases (Fine.run_inv c ops sched).wait_reason hr with h | h | h
  · exact Or.inl h
  · exact Or.inr ⟨h.1, h.2.1⟩
  · exact Or.inr ⟨h.1, by rw [h.2.1]; simp⟩

/-! #### liveness at single-access granularity, file-system failures included -/

/-- **The session ends, or hangs behind a dead writer — nothing else.**  For every configuration, every failure
pattern, every operation list, after ANY schedule prefix of single accesses: continuing round-robin for
`(11 n + 7) · #operations + 60 n + 10` rounds, either the session is over (`stop()` returned, or an exception
reached the caller of `update` / `stop`), or the recording thread sits in the wait loop of `stop()` behind a writer
that an exception has killed.  (Variant function `Proofs/DataLogFineLive.lean: mu`: no step of either thread
increases it, every `R; W` round decreases it.) -/
theorem fine_stop_terminates_or_hangs (c : Fine.Cfg) (ops : List RecOp) (sched : List Fine.Tid) (N : Nat)
    (hN : (11 * c.n + 7) * ops.length + (60 * c.n + 10) ≤ N) :
    (Fine.run c ops (sched ++ Fine.roundRobin N)).over = true ∨
      (Fine.run c ops (sched ++ Fine.roundRobin N)).hung c = true := by
  unfold Fine.run
  rw [List.foldl_append]
  apply Fine.rr_terminates (all := ops) N _ (Fine.foldl_inv sched _ (Fine.inv_init c ops))
  have := Fine.foldl_mu_le (c := c) (all := ops) sched _ (Fine.inv_init c ops)
  rw [Fine.mu_init] at this
  omega

/-- **`stop()` returns** when no file-system operation fails: the premise of `fine_no_loss_no_dup_no_reorder` is
met by every fair run, at single-access granularity. -/
theorem fine_stop_returns (c : Fine.Cfg) (hnf : ∀ k, c.fault k = false) (ops : List RecOp) (sched : List Fine.Tid)
    (N : Nat) (hN : (11 * c.n + 7) * ops.length + (60 * c.n + 10) ≤ N) :
    (Fine.run c ops (sched ++ Fine.roundRobin N)).rpc = .done := by
  have hne := fine_writer_never_dies c hnf ops (sched ++ Fine.roundRobin N)
  rcases fine_stop_terminates_or_hangs c ops sched N hN with h | h
  · simp only [State.over, Bool.or_eq_true, beq_iff_eq] at h
    rcases h with (h | h) | h
    · exact h
    · exact absurd h hne.2.1
    · exact absurd h hne.2.2
  · simp [State.hung, hne.1] at h

/-- … and then every file of every data set is complete (no premise left but "no file-system failure"). -/
theorem fine_complete_after_fair_run (c : Fine.Cfg) (hnf : ∀ k, c.fault k = false) (ops : List RecOp)
    (sched : List Fine.Tid) (N : Nat) (hN : (11 * c.n + 7) * ops.length + (60 * c.n + 10) ≤ N) (i : Nat)
    (hi : i < c.n) :
    complete (accepted (c.sel i) false ops) ((Fine.run c ops (sched ++ Fine.roundRobin N)).ds i).fileLogs = true :=
  fine_no_loss_no_dup_no_reorder c ops _ (fine_stop_returns c hnf ops sched N hN) i hi

/-- **With the proposed patch `stop()` always terminates**, whatever fails and whenever: it returns or raises
(the Spec clause `terminates` holds for every outcome).  Without the patch the same statement is false:
`stop_hangs_after_writer_death`. -/
theorem fine_stop_terminates_patched (c : Fine.Cfg) (ha : c.aliveCheck = true) (ops : List RecOp)
    (sched : List Fine.Tid) (N : Nat) (hN : (11 * c.n + 7) * ops.length + (60 * c.n + 10) ≤ N) :
    (Fine.run c ops (sched ++ Fine.roundRobin N)).over = true ∧
      ∀ o, outcomeOf c (Fine.run c ops (sched ++ Fine.roundRobin N)) = some o → terminates o = true := by
  have hnh : (Fine.run c ops (sched ++ Fine.roundRobin N)).hung c = false := by simp [State.hung, ha]
  rcases fine_stop_terminates_or_hangs c ops sched N hN with h | h
  · refine ⟨h, fun o ho => ?_⟩
    unfold outcomeOf at ho
    rw [hnh] at ho
    split at ho
    · cases ho; rfl
    · split at ho
      · cases ho; rfl
      · simp at ho
  · rw [hnh] at h; cases h

/-! #### C17-F3: `stop()` hangs once the writer has died -/

def cfgF3 : Fine.Cfg :=
  { n := 1, sel := fun _ => .all, interval := fun _ => 0, kind := fun _ => .plain, fault := fun k => k == 0 }
def opsF3 : List RecOp := [.update 16 ⟨1, 0⟩, .update 16 ⟨2, 1⟩]

/-- Round-robin, the first file-system operation of the session (the writer's `fd.write` of message 1) fails:
after 22 rounds the writer is dead, the recording thread is in the wait loop of `stop()` with `write_finished`
clear — and stays there for every continuation whatsoever. -/
theorem stop_hangs_after_writer_death (l : List Fine.Tid) :
    let s := (Fine.run cfgF3 opsF3 (Fine.roundRobin 22 ++ l))
    s.wpc = .dead ∧ s.rpc = .sWait ∧ s.fin = false ∧ s.over = false := by
  have h0 : (Fine.run cfgF3 opsF3 (Fine.roundRobin 22)).hung cfgF3 = true := by decide +kernel
  have h1 : (Fine.run cfgF3 opsF3 (Fine.roundRobin 22 ++ l)).hung cfgF3 = true := by
    unfold Fine.run; rw [List.foldl_append]; exact hung_forever _ l h0
  have h2 := hung_not_over _ h1
  simp only [State.hung, Bool.and_eq_true, beq_iff_eq, Bool.not_eq_true'] at h1
  exact ⟨h1.1.2, h1.1.1.1, h1.1.1.2, h2⟩

/-- … and a dead writer is the only way to get there: a hang state has a dead writer (by definition), and the
writer only dies of a failed file-system operation (`fine_writer_never_dies`). -/
theorem writer_death_is_the_only_hang (c : Fine.Cfg) (hnf : ∀ k, c.fault k = false) (ops : List RecOp)
    (sched : List Fine.Tid) : (Fine.run c ops sched).hung c = false := by
  have := (fine_writer_never_dies c hnf ops sched).1
  simp [State.hung, this]

/-- with the proposed patch the same run ends: `stop()` raises `DataCollectionThreadError` -/
example : (Fine.run { cfgF3 with aliveCheck := true } opsF3 (Fine.roundRobin 24)).rpc = .raisedT := by
  decide +kernel

end fine

/-! ### file formats: for every partition of the message list into `write()` batches plus the `finalize()` batch -/

open Pyrtma.DataLog.Fmt in
/-- **Raw**: whatever the partition (including no intermediate write at all), the file is the
concatenation of the frames `bytes(header) ++ bytes(data)` of all messages in order. -/
theorem raw_is_concat (parts : List (List FMsg)) (last : List FMsg) :
    rawIsConcat (parts.flatten ++ last) (rawFile parts last) = true := by
  simp [rawIsConcat, rawFile_eq]

open Pyrtma.DataLog.Fmt in
/-- **Raw, read back**: parsing the file frame by frame (fixed header size `H > 0`, payload length taken
from the header's `num_data_bytes`) yields exactly the messages, provided every header has `H` bytes and
announces its payload's length. -/
theorem raw_reads_back (H off : Nat) (hH : 0 < H) (parts : List (List FMsg)) (last : List FMsg)
    (hwf : ∀ m ∈ parts.flatten ++ last, wfMsg H off m) :
    rawRead H off (parts.flatten ++ last).length (rawFile parts last) = parts.flatten ++ last := by
  rw [rawFile_eq]; exact rawRead_frames H off hH _ hwf _ (Nat.le_refl _)

open Pyrtma.DataLog.Fmt in
/-- **JSON**: whatever the partition, the file splits at newlines into exactly one line per message, in
order, with nothing after the last newline — provided no message's JSON text contains a raw newline
(`json.dumps` escapes control characters; that `Message.from_json` inverts `to_json` is C10's subject and is
checked here on the implementation only). -/
theorem json_lines_decode (parts : List (List (List Char))) (last : List (List Char))
    (h : ∀ l ∈ parts.flatten ++ last, '\n' ∉ l) :
    jsonLinesAre (parts.flatten ++ last) (jsonFile parts last) = true := by
  rw [jsonLinesAre, jsonFile_eq, splitLines_lines _ h]; simp

open Pyrtma.DataLog.Fmt in
/-- **Quicklogger layout**: for every partition into `write()` calls (the temp-file path) including none
(the direct path of `finalize`), the file is: the 24-byte file header with the final counts, all message
headers, the table of 4-byte offsets into the data block, all payloads. -/
theorem ql_layout (H : Nat) (parts : List (List FMsg)) (last : List FMsg) :
    qlFile H parts last = qlCanon H (parts.flatten ++ last) := qlFile_eq H parts last

open Pyrtma.DataLog.Fmt in
/-- **Quicklogger round trip**: `QLReader.load` (as modelled by `qlRead`) applied to the file written for
any partition returns the same sequence of headers and payloads — provided every header has `H` bytes and
announces its payload's length, and the counters fit their 32-bit fields. -/
theorem ql_roundtrip (H off : Nat) (parts : List (List FMsg)) (last : List FMsg)
    (hwf : ∀ m ∈ parts.flatten ++ last, wfMsg H off m) (hH : H < 4294967296)
    (hn : (parts.flatten ++ last).length < 4294967296) (hd : dataLen (parts.flatten ++ last) < 4294967296) :
    qlReadsBack off (parts.flatten ++ last) (qlFile H parts last) = true := by
  simp [qlReadsBack, qlFile_eq, qlRead_canon H off _ hwf hH hn hd]

open Pyrtma.DataLog.Fmt in
/-- The files the *handshake model* produces are such partitions: a file of a data set is a list of
batches; all but the last went through `write()`, the last through `finalize()`.  So the per-file contents
of `no_loss_no_dup_no_reorder` and the format theorems compose: the bytes of file `f` are
`qlFile H f.dropLast (f.getLast)` and read back as `f.flatten`. -/
theorem ql_file_of_batches (H off : Nat) (f : List (List FMsg)) (hne : f ≠ [])
    (hwf : ∀ m ∈ f.flatten, wfMsg H off m) (hH : H < 4294967296)
    (hn : f.flatten.length < 4294967296) (hd : dataLen f.flatten < 4294967296) :
    qlRead off (qlFile H f.dropLast (f.getLast hne)) = f.flatten := by
  have e : f.dropLast.flatten ++ f.getLast hne = f.flatten := by
    conv => rhs; rw [← List.dropLast_concat_getLast hne]
    simp
  have := ql_roundtrip H off f.dropLast (f.getLast hne) (by rw [e]; exact hwf) hH (by rw [e]; exact hn)
    (by rw [e]; exact hd)
  simpa [qlReadsBack, e] using this

/-! ### the last sentence of the property: handshake and formatters composed

For every configuration, every operation list (every placement of arrivals, flush deadlines, sub-division
deadlines, pause / resume, stop) and every schedule: the bytes the formatter model produces for the sequence of
`write` / `finalize` calls each file of a data set received, read back with the package's readers and
concatenated in file order, are exactly the accepted messages.  `Enc` is opaque; each theorem names what it needs
of it. -/

open Pyrtma.DataLog.Fmt in
/-- **Raw**: reading all files of a data set frame by frame yields the accepted messages, in order — whatever
number of files sub-division produced, whatever batches the flushes cut — provided every header has the fixed
size `H > 0` and announces its payload's length (`wfMsg`). -/
theorem raw_files_read_back (c : Cfg) (hf : c.finFirst = true) (ops : List RecOp) (sched : List Tid)
    (hdone : (run c ops sched).rpc = .done) (i : Nat) (hi : i < c.n)
    (H off : Nat) (hH : 0 < H) (e : Enc) (hwf : ∀ m, wfMsg H off (e.frame m)) :
    rawFilesReadBack H off ((accepted (c.sel i) false ops).map e.frame)
      (((run c ops sched).ds i).fileBatches.map (renderRaw e)) = true := by
  have h := (run_inv c ops hf sched).at_done hdone i hi
  unfold rawFilesReadBack
  rw [DataLog.raw_files_read_back H off hH e hwf, h]
  simp

open Pyrtma.DataLog.Fmt in
/-- **Quicklogger**: every file (file header, message headers, offset table, data block) read with the model of
`QLReader.load`, results concatenated in file order: the accepted messages' headers and payloads — provided
`wfMsg` and that the counters fit their 32-bit fields. -/
theorem ql_files_read_back (c : Cfg) (hf : c.finFirst = true) (ops : List RecOp) (sched : List Tid)
    (hdone : (run c ops sched).rpc = .done) (i : Nat) (hi : i < c.n)
    (H off : Nat) (e : Enc) (hwf : ∀ m, wfMsg H off (e.frame m)) (hH : H < 4294967296)
    (hn : (accepted (c.sel i) false ops).length < 4294967296)
    (hd : dataLen ((accepted (c.sel i) false ops).map e.frame) < 4294967296) :
    qlFilesReadBack off ((accepted (c.sel i) false ops).map e.frame)
      (((run c ops sched).ds i).fileBatches.map (renderQL H e)) = true := by
  have h := (run_inv c ops hf sched).at_done hdone i hi
  have := DataLog.ql_files_read_back H off e hwf hH ((run c ops sched).ds i) (by rw [h]; exact hn) (by rw [h]; exact hd)
  unfold qlFilesReadBack
  rw [this, h]
  simp

/-- **JSON lines**: every file consists of complete lines, one per message; all lines in file order are the
accepted messages' JSON texts — provided no text contains a raw newline. -/
theorem json_files_read_back (c : Cfg) (hf : c.finFirst = true) (ops : List RecOp) (sched : List Tid)
    (hdone : (run c ops sched).rpc = .done) (i : Nat) (hi : i < c.n)
    (e : Enc) (hnl : ∀ m, '\n' ∉ e.text m) :
    jsonFilesReadBack ((accepted (c.sel i) false ops).map e.text)
      (((run c ops sched).ds i).fileBatches.map (renderJson e)) = true := by
  have h := (run_inv c ops hf sched).at_done hdone i hi
  obtain ⟨h1, h2⟩ := DataLog.json_files_read_back e hnl ((run c ops sched).ds i)
  simp only [jsonFilesReadBack, Bool.and_eq_true, List.all_eq_true, beq_iff_eq]
  exact ⟨h1, by rw [h2, h]⟩

open Pyrtma.DataLog.Fmt in
/-- … and decode line by line to the messages, for every decoder that inverts the encoder (hypothesis
`hdec`: `Message.from_json ∘ to_json = id`, C10's subject; injectivity of the encoder is all that is used). -/
theorem json_lines_decode_to_messages (c : Cfg) (hf : c.finFirst = true) (ops : List RecOp) (sched : List Tid)
    (hdone : (run c ops sched).rpc = .done) (i : Nat) (hi : i < c.n)
    (e : Enc) (hnl : ∀ m, '\n' ∉ e.text m) (dec : List Char → Option Msg) (hdec : ∀ m, dec (e.text m) = some m) :
    (((((run c ops sched).ds i).fileBatches.map (renderJson e)).map (fun f => (splitLines [] f).1)).flatten).map dec
      = (accepted (c.sel i) false ops).map some := by
  have h := (run_inv c ops hf sched).at_done hdone i hi
  rw [(DataLog.json_files_read_back e hnl ((run c ops sched).ds i)).2, h, List.map_map]
  exact List.map_congr_left (fun m _ => hdec m)

open Pyrtma.DataLog.Fmt in
/-- **Empty files** (a data set that selects nothing, a sub-division right before `stop()`, a run with no
arrival): whatever number of empty `write([])` calls preceded `finalize([])`, the quicklogger file is the bare
24-byte header with all counters zero, and reads back as no message. -/
theorem ql_empty_file (H : Nat) (parts : List (List FMsg)) (hp : parts.flatten = []) (off : Nat) :
    qlFile H parts [] = (qlCanonHdr H []).bytes ∧ (qlFile H parts []).length = 24 ∧
      qlRead off (qlFile H parts []) = [] := by
  have e : qlFile H parts [] = (qlCanonHdr H []).bytes := by
    rw [qlFile_eq, hp]; simp [qlCanon, offsetsFrom]
  refine ⟨e, by rw [e]; simp, ?_⟩
  rw [e]
  simp [qlRead, qlCanonHdr, QLHdr.bytes, le32, unle32, chunks, dataLen, hdrLen, qlHdrSize]

/-! ### non-vacuity -/

/-- the same schedule with the repaired order: `stop()` returns and both messages are there -/
example : (run (cfg1 true) opsF1 (schedF1 ++ roundRobin 8)).rpc = .done ∧
    ((run (cfg1 true) opsF1 (schedF1 ++ roundRobin 8)).ds 0).files = [[⟨1, 0⟩, ⟨2, 1⟩]] := by decide +kernel

/-- two data sets with different selections, a pause, a sub-division: three files in all -/
example :
    let c : Cfg := { n := 2, sel := fun i => if i = 0 then .all else .only [1], interval := fun i => if i = 0 then 30 else 0 }
    let ops : List RecOp := [.update 16 ⟨1, 0⟩, .pause 1, .update 1 ⟨2, 1⟩, .resume 1, .update 20 ⟨3, 1⟩, .tick 20]
    let s := run c ops (roundRobin 40)
    s.rpc = .done ∧ (s.ds 0).files = [[⟨1, 0⟩, ⟨3, 1⟩], []] ∧ (s.ds 1).files = [[⟨3, 1⟩]] ∧
    accepted (c.sel 0) false ops = [⟨1, 0⟩, ⟨3, 1⟩] := by decide +kernel

open Pyrtma.DataLog.Fmt in
/-- a two-write quicklogger file with a zero-length payload in the middle reads back -/
example :
    let m1 : FMsg := ⟨[1, 0, 0, 0, 2, 0, 0, 0], [7, 8]⟩
    let m2 : FMsg := ⟨[2, 0, 0, 0, 0, 0, 0, 0], []⟩
    let m3 : FMsg := ⟨[3, 0, 0, 0, 1, 0, 0, 0], [9]⟩
    qlRead 4 (qlFile 8 [[m1], [m2]] [m3]) = [m1, m2, m3] ∧ qlFile 8 [[m1], [m2]] [m3] = qlFile 8 [] [m1, m2, m3] ∧
    (qlFile 8 [[m1], [m2]] [m3]).length = 24 + 24 + 12 + 3 := by decide +kernel

/-- a concrete encoder: 8-byte header (id, payload length), payload of 0-2 bytes, decimal text -/
def encEx : Enc :=
  { frame := fun m => ⟨[m.id % 256, 0, 0, 0, m.ty % 3, 0, 0, 0], List.replicate (m.ty % 3) (m.id % 256)⟩,
    text := fun m => (toString m.id).toList }

open Pyrtma.DataLog.Fmt in
/-- composition, all three formats: the session of the second example leaves two files for data set 0 (the second
one empty: 24 bytes of quicklogger header); read back and concatenated they are messages 1 and 3 -/
example :
    let c : Cfg := { n := 2, sel := fun i => if i = 0 then .all else .only [1], interval := fun i => if i = 0 then 30 else 0 }
    let ops : List RecOp := [.update 16 ⟨1, 0⟩, .pause 1, .update 1 ⟨2, 1⟩, .resume 1, .update 20 ⟨3, 1⟩, .tick 20]
    let d := (run c ops (roundRobin 40)).ds 0
    d.fileBatches = [[[⟨1, 0⟩], [⟨3, 1⟩], []], [[]]] ∧
    (d.fileBatches.map (renderQL 8 encEx)).map List.length = [24 + 16 + 8 + 1, 24] ∧
    qlFilesReadBack 4 ([⟨1, 0⟩, ⟨3, 1⟩].map encEx.frame) (d.fileBatches.map (renderQL 8 encEx)) = true ∧
    rawFilesReadBack 8 4 ([⟨1, 0⟩, ⟨3, 1⟩].map encEx.frame) (d.fileBatches.map (renderRaw encEx)) = true ∧
    jsonFilesReadBack [['1'], ['3']] (d.fileBatches.map (renderJson encEx)) = true := by decide +kernel

section fine_nonvacuity
open Pyrtma.DataLog.Fine

/-- fine granularity, quicklogger + sub-division and a plain data set with a selection, a pause; the schedule
lets the writer run three accesses for every access of the recorder: `stop()` returns, three files in all -/
example :
    let c : Fine.Cfg := { n := 2, sel := fun i => if i = 0 then .all else .only [1],
                          interval := fun i => if i = 0 then 30 else 0, kind := fun i => if i = 0 then .ql else .plain }
    let ops : List RecOp := [.update 16 ⟨1, 0⟩, .pause 1, .update 1 ⟨2, 1⟩, .resume 1, .update 20 ⟨3, 1⟩, .tick 20]
    let s := Fine.run c ops ((List.replicate 60 [Fine.Tid.R, .W, .W, .W]).flatten ++ Fine.roundRobin 40)
    s.rpc = .done ∧ (s.ds 0).fileLogs = [[⟨1, 0⟩, ⟨3, 1⟩], []] ∧ (s.ds 1).fileLogs = [[⟨3, 1⟩]] ∧
    ((s.ds 0).files 0).log1 = [⟨1, 0⟩, ⟨3, 1⟩] := by decide +kernel

/-- the premise of `fine_no_swap_under_writer` is met with the recorder in the middle of an `update`: after
`R×7, W×4, R×2` the writer is between two accesses of `formatter.write` for data set 0 while the recorder is
about to append the second message to `rbuf` -/
example :
    let s := Fine.run { cfgF3 with fault := fun _ => false } opsF3
      (List.replicate 7 .R ++ List.replicate 4 .W ++ List.replicate 2 .R)
    s.wpc = .call 0 ∧ s.rpc = .uAppend 0 ∧ s.over = false := by decide +kernel

/-- the premise of `fine_failure_is_never_silent` is met by a failure in `stop()`'s own `finalize` -/
example :
    let s := Fine.run { cfgF3 with fault := fun k => k == 1 } opsF3 (Fine.roundRobin 60)
    firedB { cfgF3 with fault := fun k => k == 1 } s = true ∧ s.rpc = .raisedIO ∧ s.wpc ≠ .dead := by
  decide +kernel

end fine_nonvacuity

end Pyrtma.C17
