import Pyrtma.Proofs.ClientSub
import Pyrtma.Proofs.ClientLife
/-!
# C02 — client and manager always agree on the subscription set

**First layer** — theorems about `Model/ClientSub.lean`: the client's bookkeeping (`_subscription_control`, the eight
public subscription methods, both context managers — with the C02 fixes applied) composed with the manager's
`add_subscription` / `remove_subscription` on its two tables, on ONE connected session.  They hold for **every**
history of API calls from the just-connected state, every argument list (any length, duplicates,
`ALL_MESSAGE_TYPES` alone or mixed in, types already in the target state), and every order in which the control
frames of one call reach the manager: `agree_preserved`, `agree_step`, `agree_history`, `delivered_iff_reported`,
`paused_types_not_delivered`, `refused_sends_nothing`, `refused_iff`, `ctx_restores`, `mgr_index_consistent`,
`op_meets_spec`, `history_meets_spec`.

**Second layer, the session life cycle** — theorems about `Model/ClientLife.lean`: ONE `Client` object from its
constructor on, through any number of sessions: `connect` (handshake CONNECT_V2 + CONNECT, the manager's answer — an
ACK carrying the id, or a closed connection —, `connect()` on a still-connected client), `disconnect`, the connection
dying under a read / under a send / just before a subscription call (noticed by the manager or not: an unnoticed
connection stays in the manager's table with its id and subscriptions), the manager discovering dead connections;
next to an arbitrary table of other module records and any position of the dynamic-id cursor.  What
`_connect_helper` / `disconnect` / the `ConnectionLost` paths reset and what they keep is in the model exactly:
`lost_keeps_state`, `disconnect_resets`.  For every such history:
* `life_invariant`, `life_agree_history`, `life_agree_every_phase` — a connected client's *current* connection is in
  the manager's table under the id the client reports and both sides agree (reported = delivered, paused not
  delivered), after every call and every phase;
* `connect_starts_empty` — right after any accepted (re)connect both sides are empty and not subscribed-to-all,
  whatever the earlier sessions left behind (the class of the seeded regressions C02c / C08d);
* `connect_requests_created_id`, `reported_id_is_acked_id`, `dynamic_id_fresh` — the client half of C06's dynamic-id
  sentence (the class of seed C06d): every connect asks for the id the object was created with, the id reported
  afterwards is the ACK's (= the manager's record), a dynamic one is in range and held by no other record;
* `disconnected_refuses`; `life_step_meets_spec`, `life_history_meets_spec`, `life_from_init_meets_spec` — the
  life-cycle Spec (`Spec/ClientLife.lean`, the oracle run on the implementation) holds of the model.
A handshake the manager answers later than the 3 s of `_wait_for_acknowledgement` is an operation of the model too
(`connectLate`, `late_ack_leaves_disconnected`): since fix 5d9f32d (finding C02-F4) `connect()` then leaves the object
disconnected, so the history theorems need no hypothesis about it.
Not in the model: module names (the harness connects with the empty name), a connection that dies *between* two
control frames of one call (the frames of a call travel in unspecified order; only "before the first" is modelled),
logger / daemon flags (they do not touch the subscription state; C06 entry model).
-/
namespace Pyrtma.C02
open Pyrtma.ClientSub

/-- **Agreement is preserved by every `_subscription_control` call, for every order of its frames on the wire**
(`for msg_type in msg_set` iterates a Python set).  `Agree` = client invariant + manager invariant (its two
tables describe the same set) + `Module.subs` equals the client's `subscribed_types` as a set. -/
theorem agree_preserved {c : CState} {m : MState} (h : Agree c m) (k : Ctl) (l : List Int) (fr : List Frame)
    (hfr : ∀ f, f ∈ fr ↔ f ∈ (control c k l).frames) : Agree (control c k l).st (mgrRun m fr) :=
  control_agree h k l fr hfr

/-- **Agreement after every phase of every API call** (plain methods, `*_all` variants, entry and exit of both
context managers, reconnect), and in the state the call leaves behind. -/
theorem agree_step {s : Sys} (h : Agree s.c s.m) (op : Op) :
    (∀ x ∈ sysStep s op, Agree x.1.st x.2) ∧
      Agree (sysAfter s (sysStep s op)).c (sysAfter s (sysStep s op)).m := by
  obtain ⟨hch, _⟩ := sysStep_chain h op
  refine ⟨?_, chain_last hch h⟩
  generalize sysStep s op = xs at hch
  generalize s.c = c at hch
  generalize s.m = m at hch
  clear h
  induction hch with
  | nil => intro x hx; simp at hx
  | cons hx _ ih =>
    intro y hy
    simp only [List.mem_cons] at hy
    rcases hy with rfl | hy
    · exact hx.agree
    · exact ih y hy

/-- **Every history.**  After any sequence of API calls from the initial (just connected) state, client and manager
agree. -/
theorem agree_history : ∀ (ops : List Op) (s : Sys), Agree s.c s.m →
    Agree (sysRun s ops).c (sysRun s ops).m
  | [], _, h => h
  | op :: ops, _, h => agree_history ops _ (agree_step h op).2

theorem agree_from_init (ops : List Op) : Agree (sysRun Sys.init ops).c (sysRun Sys.init ops).m :=
  agree_history ops Sys.init agree_init

/-- **Reported = delivered.**  In every agreeing state (hence after every history) a message of type `t` sent by
another module reaches the client iff the client reports `t` as subscribed, or reports `ALL_MESSAGE_TYPES`. -/
theorem delivered_iff_reported {c : CState} {m : MState} (h : Agree c m) (t : Int) :
    delivered m t = true ↔ (t ∈ c.subscribed ∨ ALL ∈ c.subscribed) :=
  delivered_iff h t

/-- **Paused types are not delivered** (until resumed: resuming makes them subscribed, `agree_preserved`). -/
theorem paused_types_not_delivered {c : CState} {m : MState} (h : Agree c m) (t : Int) (ht : t ∈ c.paused) :
    delivered m t = false :=
  paused_not_delivered h t ht

/-- **While subscribed to all types, individual changes are refused and change nothing**: the client raises
`InvalidSubscription`, keeps its state and puts nothing on the wire (so nothing changes at the manager). -/
theorem refused_sends_nothing (c : CState) (k : Ctl) (l : List Int) (hs : c.subAll = true) (hl : ALL ∉ l) :
    control c k l = ⟨c, [], .refused⟩ :=
  control_refused c k l hs hl

/-- … and `InvalidSubscription` is raised in no other situation. -/
theorem refused_iff (c : CState) (k : Ctl) (l : List Int) :
    (control c k l).status = .refused ↔ (c.subAll = true ∧ ALL ∉ l) :=
  status_refused_iff c k l

/-- **Scoped contexts restore the entry state.**  `with subscription_context(l): pass` and
`with paused_subscription_context(l): pass`, entered with individual types in any position, with duplicates,
overlapping the current subscribed / paused sets in any way, leave exactly the subscribed and the paused set that
held on entry (as sets), from every reachable client state. -/
theorem ctx_restores {c : CState} (h : CInv c) (l : List Int) (hl : ALL ∉ l) :
    ((∀ t, t ∈ (lastState c (runOp c (.subCtx l))).subscribed ↔ t ∈ c.subscribed) ∧
     (∀ t, t ∈ (lastState c (runOp c (.subCtx l))).paused ↔ t ∈ c.paused)) ∧
    ((∀ t, t ∈ (lastState c (runOp c (.pauseCtx l))).subscribed ↔ t ∈ c.subscribed) ∧
     (∀ t, t ∈ (lastState c (runOp c (.pauseCtx l))).paused ↔ t ∈ c.paused)) :=
  ⟨subCtx_restores h l hl, pauseCtx_restores h l hl⟩

/-- **The manager's two tables never drift apart**, whatever control frames arrive in whatever order (this is
what the repaired `add_subscription` guarantees; `example buggy_order_loses_subscription` below is the old order). -/
theorem mgr_index_consistent (fr : List Frame) : MInv (mgrRun MState.init fr) :=
  mgrRun_inv fr minv_init

/-! ### The Spec (`Spec/ClientSub.lean`, the oracle run on the implementation) holds of the model -/

/-- the first phase of an individual change while subscribed to all: a pure refusal -/
theorem first_phase_refused {s : Sys} (_h : Agree s.c s.m) (U : List Int) (op : Op) (l : List Int)
    (hs : s.c.subAll = true) (ha : individualArgs (viewOf U s.c s.m) op = some l) (hl : ALL ∉ l) :
    sysStep s op = [(⟨s.c, [], .refused⟩, s.m)] := by
  cases op with
  | ctl k l' =>
    simp only [individualArgs, Option.some.injEq] at ha; subst ha
    simp [sysStep, runOp, sysPhases, control_refused s.c k l' hs hl, mgrRun]
  | subCtx l' =>
    simp only [individualArgs, Option.some.injEq] at ha; subst ha
    have hk : ALL ∉ l'.filter (fun t => !s.c.subscribed.contains t) := fun hh => hl (mem_filter_not.1 hh).1
    simp only [sysStep, runOp]
    rw [control_refused s.c .subscribe _ hs hk]
    simp [sysPhases, mgrRun]
  | pauseCtx l' =>
    simp only [individualArgs, Option.some.injEq] at ha; subst ha
    have hk : ALL ∉ l'.filter (fun t => s.c.subscribed.contains t) := fun hh => hl (mem_filter_in.1 hh).1
    simp only [sysStep, runOp]
    rw [control_refused s.c .pause _ hs hk]
    simp [sysPhases, mgrRun]
  | resumeAll =>
    simp only [individualArgs, viewOf, Option.some.injEq] at ha; subst ha
    simp [sysStep, runOp, sysPhases, control_refused s.c .resume _ hs hl, mgrRun]
  | unsubAll => simp [individualArgs] at ha
  | pauseAll => simp [individualArgs] at ha
  | reconnect => simp [individualArgs] at ha

/-- **One call meets every clause of the Spec** (`reported_equals_delivered`, `paused_not_delivered`,
`documented_outcomes_only`, `refused_changes_nothing`, `refused_only_when_subscribed_to_all`,
`subscribed_to_all_refuses_individual_changes` after each
phase; `context_restores_entry_state` at the end), for every probe universe `U`. -/
theorem op_meets_spec (U : List Int) {s : Sys} (h : Agree s.c s.m) (op : Op) :
    opOk U (viewOf U s.c s.m) op (obsOfPhases U (sysStep s op)) = true := by
  obtain ⟨hch, hne⟩ := sysStep_chain h op
  have hobs : (obsOfPhases U (sysStep s op)).isEmpty = false := by
    cases hx : sysStep s op with
    | nil => exact absurd hx hne
    | cons x r => simp [obsOfPhases]
  simp only [opOk, hobs, Bool.not_false, Bool.true_and, Option.isNone_iff_eq_none]
  apply opFail_chain U _ op _ s.c s.m true hch
  · -- the first phase while subscribed to all
    intro x r hx
    simp only [allRefusesClause, Bool.true_and]
    by_cases hc : (viewOf U s.c s.m).sub.contains ALL = true
    · have hs := sub_contains_all h.cinv (by simpa [viewOf] using hc)
      simp only [hc, Bool.not_true, Bool.false_or]
      cases ha : individualArgs (viewOf U s.c s.m) op with
      | none => rfl
      | some l =>
        by_cases hl : ALL ∈ l
        · simp [hl]
        · have := first_phase_refused h U op l hs ha hl
          rw [this] at hx
          simp only [List.cons.injEq] at hx
          obtain ⟨rfl, _⟩ := hx
          simp [hl, sameView_refl]
    · have hc' : (viewOf U s.c s.m).sub.contains ALL = false := by simpa using hc
      simp only [hc', Bool.not_false, Bool.true_or]
  · -- contexts restore the entry state
    have hc : (sysAfter ⟨s.c, s.m⟩ (sysStep s op)).c = lastState s.c (runOp s.c op) := by
      simpa [sysStep] using sysAfter_c ⟨s.c, s.m⟩ s.m (runOp s.c op)
    cases op with
    | subCtx l =>
      by_cases hl : ALL ∈ l
      · simp [ctxRestores, hl]
      · obtain ⟨h1, h2⟩ := subCtx_restores h.cinv l hl
        simp only [ctxRestores, viewOf, hc, Bool.or_eq_true, Bool.and_eq_true]
        exact .inr ⟨seteq_iff.2 h1, seteq_iff.2 h2⟩
    | pauseCtx l =>
      by_cases hl : ALL ∈ l
      · simp [ctxRestores, hl]
      · obtain ⟨h1, h2⟩ := pauseCtx_restores h.cinv l hl
        simp only [ctxRestores, viewOf, hc, Bool.or_eq_true, Bool.and_eq_true]
        exact .inr ⟨seteq_iff.2 h1, seteq_iff.2 h2⟩
    | _ => rfl

/-- what the harness would observe of a whole history of the model -/
def sysTrace (U : List Int) : Sys → List Op → List (List PhaseObs)
  | _, [] => []
  | s, op :: ops => obsOfPhases U (sysStep s op) :: sysTrace U (sysAfter s (sysStep s op)) ops

theorem lastView_obs (U : List Int) (pre : View) (s : Sys) : ∀ (xs : List (Phase × MState)), xs ≠ [] →
    lastView pre (obsOfPhases U xs) = viewOf U (sysAfter s xs).c (sysAfter s xs).m
  | [], h => absurd rfl h
  | [x], _ => rfl
  | x :: y :: r, _ => by
    have := lastView_obs U pre s (y :: r) (by simp)
    simpa [obsOfPhases, lastView, sysAfter] using this

/-- **Every history meets the Spec**: the oracle evaluated call by call, each call judged in the state its
predecessors left behind. -/
theorem history_meets_spec (U : List Int) : ∀ (ops : List Op) (s : Sys), Agree s.c s.m →
    histOk U (viewOf U s.c s.m) ops (sysTrace U s ops) = true
  | [], _, _ => rfl
  | op :: ops, s, h => by
    obtain ⟨_, hne⟩ := sysStep_chain h op
    have h1 := op_meets_spec U h op
    have h2 := history_meets_spec U ops _ (agree_step h op).2
    simp only [sysTrace, histOk, h1, Bool.true_and]
    rw [lastView_obs U _ s _ hne]
    exact h2


/-! ## The session life cycle (`Model/ClientLife.lean`): one `Client` object, any number of sessions

Histories of `LOp`: subscription calls, `connect` (on a connected or a disconnected client), `disconnect`, the
connection dying under a read, under a send or just before a subscription call (noticed by the manager or not),
and the manager discovering dead connections — from the constructor on, next to arbitrary other module records. -/

/-- the reachable states: any history from a freshly constructed client, any table of other modules, any cursor
position inside the dynamic range -/
def reach (cfg : IdCfg) (created : Int) (others : List (Int × Bool)) (cursor : Nat) (ops : List LOp) : LSys :=
  lrun cfg (LSys.init created others cursor) ops

theorem life_invariant (cfg : IdCfg) (created : Int) (others : List (Int × Bool)) (cursor : Nat)
    (hc : cursor < cfg.maxDyn) (ops : List LOp) :
    LInv cfg (reach cfg created others cursor ops) ∧ (reach cfg created others cursor ops).cl.created = created :=
  lrun_inv ops (linv_init cfg created others cursor hc)

/-- **Agreement over any number of sessions.**  After every history, a connected client's *current* connection is in
the manager's table, the two sides agree on the subscription set (`Agree`), a probe of type `t` reaches the client
iff it reports `t` (or ALL), and paused types are not delivered.  Whatever earlier sessions subscribed to, however
they ended. -/
theorem life_agree_history (cfg : IdCfg) (created : Int) (others : List (Int × Bool)) (cursor : Nat)
    (hc : cursor < cfg.maxDyn) (ops : List LOp) (hconn : (reach cfg created others cursor ops).cl.connected = true) :
    ∃ r, (reach cfg created others cursor ops).mg.find (reach cfg created others cursor ops).cl.conn = some r ∧
      Agree (reach cfg created others cursor ops).cl.sub r.m ∧
      (∀ t, delivered r.m t = true ↔ (t ∈ (reach cfg created others cursor ops).cl.sub.subscribed ∨
        ALL ∈ (reach cfg created others cursor ops).cl.sub.subscribed)) ∧
      (∀ t ∈ (reach cfg created others cursor ops).cl.sub.paused, delivered r.m t = false) := by
  obtain ⟨r, hf, _, _, hag⟩ := (life_invariant cfg created others cursor hc ops).1.cur hconn
  exact ⟨r, hf, hag, delivered_iff hag, paused_not_delivered hag⟩

/-- … and after **every phase** of the next call too (entry and exit of the context managers included). -/
theorem life_agree_every_phase {cfg : IdCfg} {s : LSys} (h : LInv cfg s) (op : LOp) :
    ∀ x ∈ lstep cfg s op, x.1.cl.connected = true →
      ∃ r, x.2.find x.1.cl.conn = some r ∧ Agree x.1.cl.sub r.m := by
  intro x hx hc
  obtain ⟨r, hf, _, _, hag⟩ := ((lstep_facts h op).1 x hx).inv.cur hc
  exact ⟨r, hf, hag⟩

/-- **Right after any (re)connect both sides are empty and not subscribed-to-all** — on a client that was connected,
had disconnected, had lost its connection under a read or a send (its sets are stale then), or was never connected:
an accepted `connect` leaves the client with empty subscribed / paused sets, `_sub_all` false, and the manager with
an empty record for the new connection, so nothing is delivered. -/
theorem connect_starts_empty {cfg : IdCfg} {s : LSys} (h : LInv cfg s) (allow : Bool)
    (hok : (connectOp cfg s allow).1.status = .ok) :
    (connectOp cfg s allow).1.cl.connected = true ∧ (connectOp cfg s allow).1.cl.sub = ⟨false, [], []⟩ ∧
    ∃ r, (connectOp cfg s allow).2.find (connectOp cfg s allow).1.cl.conn = some r ∧ r.m = ⟨[], []⟩ ∧
      ∀ t, delivered r.m t = false := by
  obtain ⟨hf, hs⟩ := connectOp_facts h allow
  obtain ⟨q, hq⟩ := Option.isSome_iff_exists.1 hs
  obtain ⟨hc, hsub, _, ⟨r, hfind, hm⟩, _⟩ := (hf.req q hq).2 hok
  exact ⟨hc, hsub, r, hfind, hm, fun t => by rw [hm]; rfl⟩

/-- **Every connect asks for the id the object was created with** (0 = "assign me one"), whatever happened before:
after any history — a dynamic id learnt in an earlier session, a lost connection, a refused connect. -/
theorem connect_requests_created_id (cfg : IdCfg) (created : Int) (others : List (Int × Bool)) (cursor : Nat)
    (hc : cursor < cfg.maxDyn) (ops : List LOp) (allow : Bool) :
    (connectOp cfg (reach cfg created others cursor ops) allow).1.req = some created := by
  obtain ⟨hinv, hcr⟩ := life_invariant cfg created others cursor hc ops
  obtain ⟨hf, hs⟩ := connectOp_facts hinv allow
  obtain ⟨q, hq⟩ := Option.isSome_iff_exists.1 hs
  rw [hq, (hf.req q hq).1, hcr]

/-- **The id the client reports after an accepted connect is the one the acknowledgement carried**, and it is the
id under which the manager's table holds the connection. -/
theorem reported_id_is_acked_id {cfg : IdCfg} {s : LSys} (h : LInv cfg s) (allow : Bool)
    (hok : (connectOp cfg s allow).1.status = .ok) :
    (connectOp cfg s allow).1.ack = some (connectOp cfg s allow).1.cl.modId ∧
    ∃ r, (connectOp cfg s allow).2.find (connectOp cfg s allow).1.cl.conn = some r ∧
      r.modId = (connectOp cfg s allow).1.cl.modId := by
  obtain ⟨hf, hs⟩ := connectOp_facts h allow
  obtain ⟨q, hq⟩ := Option.isSome_iff_exists.1 hs
  obtain ⟨hc, _, hack, _, _⟩ := (hf.req q hq).2 hok
  obtain ⟨r, hfind, _, hid, _⟩ := hf.inv.cur hc
  exact ⟨hack, r, hfind, hid⟩

/-- **A client created with id 0 ends up, after every accepted connect, with an id of the dynamic range that no
other record of the manager's table holds** — in particular not the id of one of its own earlier connections the
manager has not noticed to be dead. -/
theorem dynamic_id_fresh {cfg : IdCfg} {s : LSys} (h : LInv cfg s) (hdyn : s.cl.created = 0) (allow : Bool)
    (hok : (connectOp cfg s allow).1.status = .ok) :
    cfg.dynStart ≤ (connectOp cfg s allow).1.cl.modId ∧ (connectOp cfg s allow).1.cl.modId < cfg.maxModules ∧
    ∀ r ∈ (connectOp cfg s allow).2.conns, r.cid ≠ (connectOp cfg s allow).1.cl.conn →
      r.modId ≠ (connectOp cfg s allow).1.cl.modId := by
  obtain ⟨hf, hs⟩ := connectOp_facts h allow
  obtain ⟨q, hq⟩ := Option.isSome_iff_exists.1 hs
  obtain ⟨_, _, _, _, hd⟩ := (hf.req q hq).2 hok
  obtain ⟨hfresh, hlo, hhi⟩ := hd hdyn
  refine ⟨hlo, hhi, fun r hr hne heq => hfresh ?_⟩
  simp only [lheld, List.mem_map, List.mem_filter]
  exact ⟨r, ⟨hr, by simpa using hne⟩, heq⟩

/-- **A lost connection resets nothing but `connected`**: the reported sets and the reported id are what they were
(this is the stale state the next connect has to clear — `connect_starts_empty`, `connect_requests_created_id`). -/
theorem lost_keeps_state (s : LSys) (n : Bool) :
    (loseConn s n).1.cl = { s.cl with connected := false } ∧ (loseConn s n).1.status = .lost := ⟨rfl, rfl⟩

/-- **A handshake the manager answers too late leaves the client disconnected** (finding C02-F4, fixed by 5d9f32d;
before the fix the object stayed connected with the old sets and the agreement broke — the counterexample theorem
`late_ack_breaks_agreement` of the earlier model is gone with the behaviour).  `connect()` raises
`AcknowledgementTimeout`; the sets are what they were (empty if `connect()` had to disconnect first), which is
harmless on a disconnected client: the next accepted connect resets them (`connect_starts_empty`). -/
theorem late_ack_leaves_disconnected (cfg : IdCfg) (s : LSys) (allow : Bool) :
    (connectLateOp cfg s allow).1.cl.connected = false ∧ (connectLateOp cfg s allow).1.status = .ackTimeout ∧
    (connectLateOp cfg s allow).1.req = some (if s.cl.created == 0 then 0 else s.cl.modId) ∧
    (connectLateOp cfg s allow).1.cl.sub = if s.cl.connected then ⟨false, [], []⟩ else s.cl.sub := by
  unfold connectLateOp
  by_cases hc : s.cl.connected = true <;> simp [hc, disconnectOp, okPhase, CState.init]

/-- `disconnect()` resets the three subscription fields and keeps the id. -/
theorem disconnect_resets (s : LSys) :
    (disconnectOp s).1.cl = { s.cl with connected := false, sub := ⟨false, [], []⟩ } := rfl

/-- A disconnected client refuses every subscription call and touches nothing. -/
theorem disconnected_refuses (cfg : IdCfg) (s : LSys) (op : Op) (hop : op ≠ .reconnect) (hc : s.cl.connected = false) :
    lstep cfg s (.sub op) = [(⟨s.cl, [], .notConnected, none, none⟩, s.mg)] := by
  cases op <;> first | exact absurd rfl hop | simp [lstep, hc, ncPhase]

/-- **One call meets every clause of the life-cycle Spec** (`Spec/ClientLife.lean`): `connected_reported_equals_delivered`
and `fresh_session_is_empty` after every phase, the first layer's clauses for subscription calls on a connected client,
`connect_requests_created_id`, `reported_id_is_acked_id`, `dynamic_id_fresh_and_in_range`. -/
theorem life_step_meets_spec (U : List Int) {cfg : IdCfg} {s : LSys} (h : LInv cfg s) (pre : LObs)
    (hv : pre.view = lview U s.cl s.mg) (hcn : pre.connected = s.cl.connected) (op : LOp) :
    ((lstep cfg s op).map (lobs U)).isEmpty = false ∧
    lopFail02 U pre op ((lstep cfg s op).map (lobs U)) = none ∧
    lopFail06 cfg s.cl.created op ((lstep cfg s op).map (lobs U)) = none := by
  obtain ⟨hfacts, hne, hconn⟩ := lstep_facts h op
  refine ⟨by simpa using hne, ?_, ?_⟩
  · -- C02
    have hlife : (((lstep cfg s op).map (lobs U)).flatMap (lifeC02 U)).find? (fun c => !c.2) = none := by
      apply find_none_of_all
      intro c hc
      obtain ⟨o, ho, hco⟩ := List.mem_flatMap.1 hc
      obtain ⟨x, hx, rfl⟩ := List.mem_map.1 ho
      simp [lifeC02_ok U (hfacts x hx) c hco]
    unfold lopFail02
    rw [hlife]
    simp only
    cases hso : subOpOf op with
    | none => rfl
    | some sop =>
      simp only
      by_cases hpc : pre.connected = true
      · simp only [hpc, if_true]
        have hsc : s.cl.connected = true := by rw [← hcn]; exact hpc
        obtain ⟨r, hf, _, _, hag⟩ := h.cur hsc
        have hstep : lstep cfg s op = subPhases s sop := by
          cases op with
          | sub o =>
            cases o <;> simp only [subOpOf, Option.some.injEq, reduceCtorEq] at hso <;> subst hso <;> simp [lstep, hsc]
          | _ => simp [subOpOf] at hso
        rw [hstep, subPhases_obs U hf, hv, lview_of_find U hf]
        have := op_meets_spec U (s := ⟨s.cl.sub, r.m⟩) hag sop
        simp only [opOk, Bool.and_eq_true, Option.isNone_iff_eq_none] at this
        exact this.2
      · simp [hpc]
  · -- C06
    unfold lopFail06
    have : (((lstep cfg s op).map (lobs U)).flatMap (lifeC06 cfg s.cl.created op)).find? (fun c => !c.2) = none := by
      apply find_none_of_all
      intro c hc
      obtain ⟨o, ho, hco⟩ := List.mem_flatMap.1 hc
      obtain ⟨x, hx, rfl⟩ := List.mem_map.1 ho
      simp [lifeC06_ok U (hfacts x hx) op (fun ha => hconn ha x hx) c hco]
    rw [this]; rfl

/-- **Every history of calls on one client object meets the life-cycle Spec** — the oracle the driver evaluates on
what the real `Client` and the real manager did, call by call, each call judged from the observation its
predecessors left behind. -/
theorem life_history_meets_spec (U : List Int) (cfg : IdCfg) : ∀ (ops : List LOp) (s : LSys) (pre : LObs),
    LInv cfg s → pre.view = lview U s.cl s.mg → pre.connected = s.cl.connected →
    lhistOk cfg U s.cl.created pre ops (ltrace cfg U s ops) = true
  | [], _, _, _, _, _ => rfl
  | op :: ops, s, pre, h, hv, hcn => by
    obtain ⟨h1, h2, h3⟩ := life_step_meets_spec U h pre hv hcn op
    obtain ⟨hinv, hcr⟩ := lstep_inv h op
    obtain ⟨hv', hcn'⟩ := lastObs_lafter U pre s (lstep cfg s op) (lstep_facts h op).2.1
    have ih := life_history_meets_spec U cfg ops _ _ hinv hv' hcn'
    rw [hcr] at ih
    simp only [ltrace, lhistOk, h1, h2, h3, Bool.not_false, Option.isNone_none, Bool.true_and]
    exact ih

/-- … in particular from the constructor on -/
theorem life_from_init_meets_spec (U : List Int) (cfg : IdCfg) (created : Int) (others : List (Int × Bool)) (cursor : Nat)
    (hc : cursor < cfg.maxDyn) (ops : List LOp) :
    lhistOk cfg U created (LObs.fresh created) ops (ltrace cfg U (LSys.init created others cursor) ops) = true := by
  have h := linv_init cfg created others cursor hc
  have hnone : (LSys.init created others cursor).mg.find 0 = none := by
    unfold Mgr.find
    rw [List.find?_eq_none]
    intro r hr
    have : 1 ≤ r.cid := mkOthers_low others 1 r hr
    simp; omega
  exact life_history_meets_spec U cfg ops (LSys.init created others cursor) (LObs.fresh created) h
    (by simp only [LObs.fresh, lview]
        have : (LSys.init created others cursor).cl.conn = 0 := rfl
        rw [this, hnone]; rfl) rfl


/-! ### Non-vacuity and the repaired defects as concrete witnesses -/

section Examples

/-- reachable states that exercise every branch: individual, paused, subscribed-to-all, refused -/
example : sysRun Sys.init [.ctl .subscribe [1, 2, 2, 3], .ctl .pause [2, 9]] =
    ⟨⟨false, [1, 3], [2, 9]⟩, ⟨[1, 3], [1, 3]⟩⟩ := by decide
example : (sysRun Sys.init [.ctl .subscribe [1, 2], .ctl .pause [2], .ctl .subscribe [5, ALL]]).c =
    ⟨true, [ALL], []⟩ := by decide
example : sysStep (sysRun Sys.init [.ctl .subscribe [ALL]]) (.ctl .unsubscribe [1]) =
    [(⟨⟨true, [ALL], []⟩, [], .refused⟩, ⟨[ALL], [ALL]⟩)] := by decide
/-- C02-F1 (repaired in manager.py): a second `subscribe([ALL])` keeps the delivery -/
example : delivered (sysRun Sys.init [.ctl .subscribe [ALL], .ctl .subscribe [ALL]]).m 42 = true := by decide
/-- … whereas the old statement order (`add` to the ALL set *before* clearing the individual entries) erased it -/
def mgrAddOld (m : MState) (t : Int) : MState :=
  if t == ALL then ⟨[ALL], diff (union m.index [ALL]) m.subs⟩
  else if m.subs.contains ALL then m else ⟨union m.subs [t], union m.index [t]⟩
example : delivered (mgrAddOld (mgrAddOld MState.init ALL) ALL) 42 = false ∧
    ¬ MInv (mgrAddOld (mgrAddOld MState.init ALL) ALL) := by
  refine ⟨by decide, fun h => ?_⟩
  have := (h.idx ALL).2 (by decide)
  revert this; decide
/-- C02-F2 (repaired in client.py): `{1,2,3}` + `subscription_context([1,2,4])` ends in `{1,2,3}` -/
example : (lastState ⟨false, [1, 2, 3], []⟩ (runOp ⟨false, [1, 2, 3], []⟩ (.subCtx [1, 2, 4]))).subscribed = [1, 2, 3] := by
  decide
/-- `{1}` + `paused_subscription_context([5,6,1])` ends in `{1}`, nothing paused -/
example : lastState ⟨false, [1], []⟩ (runOp ⟨false, [1], []⟩ (.pauseCtx [5, 6, 1])) = ⟨false, [1], []⟩ := by decide
/-- C02-F3 (repaired in client.py): a type paused on entry is paused again on exit -/
example : lastState ⟨false, [], [7]⟩ (runOp ⟨false, [], [7]⟩ (.subCtx [7])) = ⟨false, [], [7]⟩ := by decide
/-- the hypotheses are satisfiable and the oracle is not trivially true: a manager that lost the ALL entry fails it -/
example : agreeOk [1, 42] ⟨[ALL], [], []⟩ = false := by decide
example : opOk [1, 2, 42] (viewOf [1, 2, 42] CState.init MState.init) (.ctl .subscribe [1])
    (obsOfPhases [1, 2, 42] (sysStep Sys.init (.ctl .subscribe [1]))) = true := by decide

/-! the life cycle -/

/-- a dynamic client loses its connection without the manager noticing and connects again: it asks for 0 again, gets
101 (100 is still held by the dead connection, with its subscriptions), and starts empty -/
example : (reach {} 0 [] 0 [.connect false, .sub (.ctl .subscribe [1, 2]), .lostRead false, .connect false]).cl =
    ⟨0, 101, true, 2, ⟨false, [], []⟩⟩ := by decide +kernel
example : ((reach {} 0 [] 0 [.connect false, .sub (.ctl .subscribe [1, 2]), .lostRead false, .connect false]).mg.conns.map
    (fun r => (r.cid, r.modId, r.m.subs))) = [(1, 100, [1, 2]), (2, 101, [])] := by decide +kernel
/-- what a lost connection leaves behind: not connected, sets and id stale -/
example : (reach {} 0 [] 0 [.connect false, .sub (.ctl .subscribe [ALL]), .lostSend true]).cl =
    ⟨0, 100, false, 1, ⟨true, [ALL], []⟩⟩ := by decide +kernel
/-- the connection dies just before `subscribe([7])`: the set is updated, nothing reaches the manager -/
example : (lstep {} (reach {} 12 [] 0 [.connect false]) (.ctlLost .subscribe [7] false)).map
    (fun x => (x.1.status, x.1.cl.sub.subscribed, x.2.conns.map (·.m.subs))) = [(.lost, [7], [[]])] := by decide +kernel
/-- a unique explicit id whose dead connection the manager has not noticed: refused (the manager closes, the client
sees `ConnectionLost`), accepted once the manager has noticed -/
example : (lstep {} (reach {} 12 [] 0 [.connect false, .lostRead false]) (.connect false)).map
    (fun x => (x.1.status, x.1.req, x.1.ack)) = [(.lost, some 12, none)] := by decide +kernel
example : (lstep {} (reach {} 12 [] 0 [.connect false, .lostRead false, .mgrNotices]) (.connect false)).map
    (fun x => (x.1.status, x.1.req, x.1.ack)) = [(.ok, some 12, some 12)] := by decide +kernel
/-- a late ACK: the client ends disconnected (sets stale, harmless), the manager keeps the accepted record until it
notices; the next connect starts empty under a fresh id -/
example : (reach {} 0 [] 0 [.connect false, .sub (.ctl .subscribe [7]), .lostRead true, .connectLate false]).cl =
    ⟨0, 0, false, 2, ⟨false, [7], []⟩⟩ := by decide +kernel
example : (reach {} 0 [] 0 [.connect false, .sub (.ctl .subscribe [7]), .lostRead true, .connectLate false,
    .connect false]).cl = ⟨0, 102, true, 3, ⟨false, [], []⟩⟩ := by decide +kernel
/-- every dynamic id taken: refused -/
example : (connectOp ⟨100, 102⟩ (LSys.init 0 [(100, true), (101, true)] 1) false).1.status = .lost := by decide +kernel
/-- `connect()` on a connected client: the old record is gone, the new one is empty -/
example : ((reach {} 0 [(0, true)] 0 [.connect false, .sub (.ctl .subscribe [3]), .connect true]).mg.conns.map
    (fun r => (r.cid, r.modId, r.unique, r.m.subs))) = [(1, 0, true, []), (3, 101, false, [])] := by decide +kernel
/-- the oracle accepts the model's own trace and is not trivially true: a client that still reports a subscription
after reconnecting fails `connected_reported_equals_delivered`, one that asks for its old dynamic id fails
`connect_requests_created_id` -/
example : lhistOk {} [1, 2] 0 (LObs.fresh 0) [.connect false, .sub (.ctl .subscribe [1]), .lostRead true, .connect false]
    (ltrace {} [1, 2] (LSys.init 0 [] 0) [.connect false, .sub (.ctl .subscribe [1]), .lostRead true, .connect false]) =
    true := by decide +kernel
example : lopFail02 [1, 2] (LObs.fresh 0) (.connect false)
    [⟨some .ok, 0, ⟨[1], [], []⟩, true, 100, some 0, some 100, []⟩] = some "connected_reported_equals_delivered" := by
  decide +kernel
example : lopFail06 {} 0 (.connect false)
    [⟨some .ok, 0, ⟨[], [], []⟩, true, 100, some 100, some 100, []⟩] = some "connect_requests_created_id" := by
  decide +kernel
example : LInv {} (LSys.init 0 [(12, true)] 0) := linv_init _ _ _ _ (by decide)

end Examples

end Pyrtma.C02
