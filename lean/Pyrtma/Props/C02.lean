import Pyrtma.Proofs.ClientSub
/-!
# C02 — client and manager always agree on the subscription set

Theorems about `Model/ClientSub.lean`: the client's bookkeeping (`_subscription_control`, the eight public
subscription methods, both context managers, the reset on reconnect — with the C02 fixes applied) composed with the
manager's `add_subscription` / `remove_subscription` on its two tables.  They hold for **every** history of API calls
from the initial state, every argument list (any length, duplicates, `ALL_MESSAGE_TYPES` alone or mixed in, types
already in the target state), and every order in which the control frames of one call reach the manager.
-/
namespace Pyrtma.C02
open Pyrtma.ClientSub

/-- **Agreement is preserved by every `_subscription_control` call, for every order of its frames on the wire**
(`for msg_type in msg_set` iterates a Python set).  `Agree` = client invariant + manager invariant (its two
tables describe the same set) + `Module.subs` equals the client's `subscribed_types` as a set. -/
theorem agree_preserved {c : CState} {m : MState} (h : Agree c m) (k : Ctl) (l : List Int) (fr : List Frame)
    (hfr : ∀ f, f ∈ fr ↔ f ∈ (control c k l).frames) : Agree (control c k l).st (mgrRun m fr) :=
  control_agree h k l fr hfr

/-- **Agreement after every phase of every API call** (plain methods, `*_all` variants, entry and exit of both
context managers, reconnect), and in the state the call leaves behind. -/
theorem agree_step {s : Sys} (h : Agree s.c s.m) (op : Op) :
    (∀ x ∈ sysStep s op, Agree x.1.st x.2) ∧
      Agree (sysAfter s (sysStep s op)).c (sysAfter s (sysStep s op)).m := by
  obtain ⟨hch, _⟩ := sysStep_chain h op
  refine ⟨?_, chain_last hch h⟩
  generalize sysStep s op = xs at hch
  generalize s.c = c at hch
  generalize s.m = m at hch
  clear h
  induction hch with
  | nil => intro x hx; simp at hx
  | cons hx _ ih =>
    intro y hy
    simp only [List.mem_cons] at hy
    rcases hy with rfl | hy
    · exact hx.agree
    · exact ih y hy

/-- **Every history.**  After any sequence of API calls from the initial (just connected) state, client and manager
agree. -/
theorem agree_history : ∀ (ops : List Op) (s : Sys), Agree s.c s.m →
    Agree (sysRun s ops).c (sysRun s ops).m
  | [], _, h => h
  | op :: ops, _, h => agree_history ops _ (agree_step h op).2

theorem agree_from_init (ops : List Op) : Agree (sysRun Sys.init ops).c (sysRun Sys.init ops).m :=
  agree_history ops Sys.init agree_init

/-- **Reported = delivered.**  In every agreeing state (hence after every history) a message of type `t` sent by
another module reaches the client iff the client reports `t` as subscribed, or reports `ALL_MESSAGE_TYPES`. -/
theorem delivered_iff_reported {c : CState} {m : MState} (h : Agree c m) (t : Int) :
    delivered m t = true ↔ (t ∈ c.subscribed ∨ ALL ∈ c.subscribed) :=
  delivered_iff h t

/-- **Paused types are not delivered** (until resumed: resuming makes them subscribed, `agree_preserved`). -/
theorem paused_types_not_delivered {c : CState} {m : MState} (h : Agree c m) (t : Int) (ht : t ∈ c.paused) :
    delivered m t = false :=
  paused_not_delivered h t ht

/-- **While subscribed to all types, individual changes are refused and change nothing**: the client raises
`InvalidSubscription`, keeps its state and puts nothing on the wire (so nothing changes at the manager). -/
theorem refused_sends_nothing (c : CState) (k : Ctl) (l : List Int) (hs : c.subAll = true) (hl : ALL ∉ l) :
    control c k l = ⟨c, [], .refused⟩ :=
  control_refused c k l hs hl

/-- … and `InvalidSubscription` is raised in no other situation. -/
theorem refused_iff (c : CState) (k : Ctl) (l : List Int) :
    (control c k l).status = .refused ↔ (c.subAll = true ∧ ALL ∉ l) :=
  status_refused_iff c k l

/-- **Scoped contexts restore the entry state.**  `with subscription_context(l): pass` and
`with paused_subscription_context(l): pass`, entered with individual types in any position, with duplicates,
overlapping the current subscribed / paused sets in any way, leave exactly the subscribed and the paused set that
held on entry (as sets), from every reachable client state. -/
theorem ctx_restores {c : CState} (h : CInv c) (l : List Int) (hl : ALL ∉ l) :
    ((∀ t, t ∈ (lastState c (runOp c (.subCtx l))).subscribed ↔ t ∈ c.subscribed) ∧
     (∀ t, t ∈ (lastState c (runOp c (.subCtx l))).paused ↔ t ∈ c.paused)) ∧
    ((∀ t, t ∈ (lastState c (runOp c (.pauseCtx l))).subscribed ↔ t ∈ c.subscribed) ∧
     (∀ t, t ∈ (lastState c (runOp c (.pauseCtx l))).paused ↔ t ∈ c.paused)) :=
  ⟨subCtx_restores h l hl, pauseCtx_restores h l hl⟩

/-- **The manager's two tables never drift apart**, whatever control frames arrive in whatever order (this is
what the repaired `add_subscription` guarantees; `example buggy_order_loses_subscription` below is the old order). -/
theorem mgr_index_consistent (fr : List Frame) : MInv (mgrRun MState.init fr) :=
  mgrRun_inv fr minv_init

/-! ### The Spec (`Spec/ClientSub.lean`, the oracle run on the implementation) holds of the model -/

/-- the first phase of an individual change while subscribed to all: a pure refusal -/
theorem first_phase_refused {s : Sys} (_h : Agree s.c s.m) (U : List Int) (op : Op) (l : List Int)
    (hs : s.c.subAll = true) (ha : individualArgs (viewOf U s.c s.m) op = some l) (hl : ALL ∉ l) :
    sysStep s op = [(⟨s.c, [], .refused⟩, s.m)] := by
  cases op with
  | ctl k l' =>
    simp only [individualArgs, Option.some.injEq] at ha; subst ha
    simp [sysStep, runOp, sysPhases, control_refused s.c k l' hs hl, mgrRun]
  | subCtx l' =>
    simp only [individualArgs, Option.some.injEq] at ha; subst ha
    have hk : ALL ∉ l'.filter (fun t => !s.c.subscribed.contains t) := fun hh => hl (mem_filter_not.1 hh).1
    simp only [sysStep, runOp]
    rw [control_refused s.c .subscribe _ hs hk]
    simp [sysPhases, mgrRun]
  | pauseCtx l' =>
    simp only [individualArgs, Option.some.injEq] at ha; subst ha
    have hk : ALL ∉ l'.filter (fun t => s.c.subscribed.contains t) := fun hh => hl (mem_filter_in.1 hh).1
    simp only [sysStep, runOp]
    rw [control_refused s.c .pause _ hs hk]
    simp [sysPhases, mgrRun]
  | resumeAll =>
    simp only [individualArgs, viewOf, Option.some.injEq] at ha; subst ha
    simp [sysStep, runOp, sysPhases, control_refused s.c .resume _ hs hl, mgrRun]
  | unsubAll => simp [individualArgs] at ha
  | pauseAll => simp [individualArgs] at ha
  | reconnect => simp [individualArgs] at ha

/-- **One call meets every clause of the Spec** (`reported_equals_delivered`, `paused_not_delivered`,
`documented_outcomes_only`, `refused_changes_nothing`, `refused_only_when_subscribed_to_all`,
`subscribed_to_all_refuses_individual_changes` after each
phase; `context_restores_entry_state` at the end), for every probe universe `U`. -/
theorem op_meets_spec (U : List Int) {s : Sys} (h : Agree s.c s.m) (op : Op) :
    opOk U (viewOf U s.c s.m) op (obsOfPhases U (sysStep s op)) = true := by
  obtain ⟨hch, hne⟩ := sysStep_chain h op
  have hobs : (obsOfPhases U (sysStep s op)).isEmpty = false := by
    cases hx : sysStep s op with
    | nil => exact absurd hx hne
    | cons x r => simp [obsOfPhases]
  simp only [opOk, hobs, Bool.not_false, Bool.true_and, Option.isNone_iff_eq_none]
  apply opFail_chain U _ op _ s.c s.m true hch
  · -- the first phase while subscribed to all
    intro x r hx
    simp only [allRefusesClause, Bool.true_and]
    by_cases hc : (viewOf U s.c s.m).sub.contains ALL = true
    · have hs := sub_contains_all h.cinv (by simpa [viewOf] using hc)
      simp only [hc, Bool.not_true, Bool.false_or]
      cases ha : individualArgs (viewOf U s.c s.m) op with
      | none => rfl
      | some l =>
        by_cases hl : ALL ∈ l
        · simp [hl]
        · have := first_phase_refused h U op l hs ha hl
          rw [this] at hx
          simp only [List.cons.injEq] at hx
          obtain ⟨rfl, _⟩ := hx
          simp [hl, sameView_refl]
    · have hc' : (viewOf U s.c s.m).sub.contains ALL = false := by simpa using hc
      simp only [hc', Bool.not_false, Bool.true_or]
  · -- contexts restore the entry state
    have hc : (sysAfter ⟨s.c, s.m⟩ (sysStep s op)).c = lastState s.c (runOp s.c op) := by
      simpa [sysStep] using sysAfter_c ⟨s.c, s.m⟩ s.m (runOp s.c op)
    cases op with
    | subCtx l =>
      by_cases hl : ALL ∈ l
      · simp [ctxRestores, hl]
      · obtain ⟨h1, h2⟩ := subCtx_restores h.cinv l hl
        simp only [ctxRestores, viewOf, hc, Bool.or_eq_true, Bool.and_eq_true]
        exact .inr ⟨seteq_iff.2 h1, seteq_iff.2 h2⟩
    | pauseCtx l =>
      by_cases hl : ALL ∈ l
      · simp [ctxRestores, hl]
      · obtain ⟨h1, h2⟩ := pauseCtx_restores h.cinv l hl
        simp only [ctxRestores, viewOf, hc, Bool.or_eq_true, Bool.and_eq_true]
        exact .inr ⟨seteq_iff.2 h1, seteq_iff.2 h2⟩
    | _ => rfl

/-- what the harness would observe of a whole history of the model -/
def sysTrace (U : List Int) : Sys → List Op → List (List PhaseObs)
  | _, [] => []
  | s, op :: ops => obsOfPhases U (sysStep s op) :: sysTrace U (sysAfter s (sysStep s op)) ops

theorem lastView_obs (U : List Int) (pre : View) (s : Sys) : ∀ (xs : List (Phase × MState)), xs ≠ [] →
    lastView pre (obsOfPhases U xs) = viewOf U (sysAfter s xs).c (sysAfter s xs).m
  | [], h => absurd rfl h
  | [x], _ => rfl
  | x :: y :: r, _ => by
    have := lastView_obs U pre s (y :: r) (by simp)
    simpa [obsOfPhases, lastView, sysAfter] using this

/-- **Every history meets the Spec**: the oracle evaluated call by call, each call judged in the state its
predecessors left behind. -/
theorem history_meets_spec (U : List Int) : ∀ (ops : List Op) (s : Sys), Agree s.c s.m →
    histOk U (viewOf U s.c s.m) ops (sysTrace U s ops) = true
  | [], _, _ => rfl
  | op :: ops, s, h => by
    obtain ⟨_, hne⟩ := sysStep_chain h op
    have h1 := op_meets_spec U h op
    have h2 := history_meets_spec U ops _ (agree_step h op).2
    simp only [sysTrace, histOk, h1, Bool.true_and]
    rw [lastView_obs U _ s _ hne]
    exact h2


/-! ### Non-vacuity and the repaired defects as concrete witnesses -/

section Examples

/-- reachable states that exercise every branch: individual, paused, subscribed-to-all, refused -/
example : sysRun Sys.init [.ctl .subscribe [1, 2, 2, 3], .ctl .pause [2, 9]] =
    ⟨⟨false, [1, 3], [2, 9]⟩, ⟨[1, 3], [1, 3]⟩⟩ := by decide
example : (sysRun Sys.init [.ctl .subscribe [1, 2], .ctl .pause [2], .ctl .subscribe [5, ALL]]).c =
    ⟨true, [ALL], []⟩ := by decide
example : sysStep (sysRun Sys.init [.ctl .subscribe [ALL]]) (.ctl .unsubscribe [1]) =
    [(⟨⟨true, [ALL], []⟩, [], .refused⟩, ⟨[ALL], [ALL]⟩)] := by decide
/-- C02-F1 (repaired in manager.py): a second `subscribe([ALL])` keeps the delivery -/
example : delivered (sysRun Sys.init [.ctl .subscribe [ALL], .ctl .subscribe [ALL]]).m 42 = true := by decide
/-- … whereas the old statement order (`add` to the ALL set *before* clearing the individual entries) erased it -/
def mgrAddOld (m : MState) (t : Int) : MState :=
  if t == ALL then ⟨[ALL], diff (union m.index [ALL]) m.subs⟩
  else if m.subs.contains ALL then m else ⟨union m.subs [t], union m.index [t]⟩
example : delivered (mgrAddOld (mgrAddOld MState.init ALL) ALL) 42 = false ∧
    ¬ MInv (mgrAddOld (mgrAddOld MState.init ALL) ALL) := by
  refine ⟨by decide, fun h => ?_⟩
  have := (h.idx ALL).2 (by decide)
  revert this; decide
/-- C02-F2 (repaired in client.py): `{1,2,3}` + `subscription_context([1,2,4])` ends in `{1,2,3}` -/
example : (lastState ⟨false, [1, 2, 3], []⟩ (runOp ⟨false, [1, 2, 3], []⟩ (.subCtx [1, 2, 4]))).subscribed = [1, 2, 3] := by
  decide
/-- `{1}` + `paused_subscription_context([5,6,1])` ends in `{1}`, nothing paused -/
example : lastState ⟨false, [1], []⟩ (runOp ⟨false, [1], []⟩ (.pauseCtx [5, 6, 1])) = ⟨false, [1], []⟩ := by decide
/-- C02-F3 (repaired in client.py): a type paused on entry is paused again on exit -/
example : lastState ⟨false, [], [7]⟩ (runOp ⟨false, [], [7]⟩ (.subCtx [7])) = ⟨false, [], [7]⟩ := by decide
/-- the hypotheses are satisfiable and the oracle is not trivially true: a manager that lost the ALL entry fails it -/
example : agreeOk [1, 42] ⟨[ALL], [], []⟩ = false := by decide
example : opOk [1, 2, 42] (viewOf [1, 2, 42] CState.init MState.init) (.ctl .subscribe [1])
    (obsOfPhases [1, 2, 42] (sysStep Sys.init (.ctl .subscribe [1]))) = true := by decide

end Examples

end Pyrtma.C02
