import Pyrtma.Proofs.ManagerStatsSpec
import Pyrtma.Proofs.ManagerStatsEv
import Pyrtma.Proofs.ManagerStatsQuiet
import Pyrtma.Proofs.ManagerSafe
import Pyrtma.Proofs.ManagerStatsRecv
import Pyrtma.Proofs.ManagerStatsConn
import Pyrtma.Proofs.ManagerStatsSubs
/-!
# Simulation between the Spec's abstract state and the model, for the statistics (C18)

`Sim cfg x a`: after the same rounds, the abstract state `a` that `Spec.round` computes from the model's own events
agrees with the model state `x` on the clocks, on who is alive, and its tallies of client frames are exactly the client
marks of the model's ghost history since the last report.
-/
namespace Pyrtma.Mgr
open Spec

theorem isMgrType_eq (cfg : Cfg) (t : Int) : isMgrType cfg t = mgrType cfg t := rfl
theorem isControl_eq (cfg : Cfg) (t : Int) : isControl cfg t = ctlType cfg t := rfl

/-! ## small list facts -/

theorem closes_append (a b : List Ev) : closes (a ++ b) = closes a ++ closes b := by simp [closes]
theorem sends_append (a b : List Ev) : sends (a ++ b) = sends a ++ sends b := by simp [sends]
theorem acksOf_append (a b : List Ev) : acksOf (a ++ b) = acksOf a ++ acksOf b := by simp [acksOf, sends_append]

theorem mem_closes_iff (evs : List Ev) (u : Nat) : (closes evs).contains u = true ↔ 0 < closeCnt evs u := by
  unfold closes closeCnt
  induction evs with
  | nil => simp
  | cons e evs ih =>
    rw [List.countP_cons]
    cases e with
    | close v =>
      by_cases h : v = u
      · subst h; simp [isClose]
      · have h1 : ¬ u = v := fun e => h e.symm
        simpa [isClose, h, h1] using ih
    | send _ _ _ => simpa [isClose] using ih
    | partialW _ => simpa [isClose] using ih
    | wfail _ => simpa [isClose] using ih
    | rd _ => simpa [isClose] using ih

theorem splitRd_noRd (e : List Ev) (he : NoRd e) (r : List Ev) :
    splitRd (e ++ r) = (e ++ (splitRd r).1, (splitRd r).2) := by
  induction e with
  | nil => simp
  | cons x e ih =>
    have hx : isRd x = false := he x (by simp)
    have he' : NoRd e := fun y hy => he y (by simp [hy])
    rw [List.cons_append]
    cases x with
    | rd u => simp [isRd] at hx
    | send _ _ _ => simp only [splitRd, ih he', List.cons_append]
    | partialW _ => simp only [splitRd, ih he', List.cons_append]
    | wfail _ => simp only [splitRd, ih he', List.cons_append]
    | close _ => simp only [splitRd, ih he', List.cons_append]

theorem splitRd_noRd_only (e : List Ev) (he : NoRd e) : splitRd e = (e, []) := by
  have := splitRd_noRd e he []
  simpa [splitRd] using this

theorem splitRd_rd (u : Nat) (r : List Ev) : splitRd (.rd u :: r) = ([], (u, (splitRd r).1) :: (splitRd r).2) := by
  simp [splitRd]

/-! ## the client marks of the ghost history -/

/-- the marks of client frames: handled outside a statistics send, of a type the manager does not originate -/
def cliMarks (cfg : Cfg) (e : List Mark) : List Mark :=
  e.filter (fun m => match m with | .fwd t b => !b && !mgrType cfg t | _ => false)

theorem cliMarks_append (cfg : Cfg) (a b : List Mark) : cliMarks cfg (a ++ b) = cliMarks cfg a ++ cliMarks cfg b := by
  simp [cliMarks]

theorem cliMarks_mgr (cfg : Cfg) {b : Bool} {e : List Mark} (h : Marks (mgrType cfg) b e) : cliMarks cfg e = [] := by
  unfold cliMarks
  rw [List.filter_eq_nil_iff]
  intro m hm
  obtain ⟨t, rfl, ht⟩ := h m hm
  simp [ht]

theorem cliMarks_stats (cfg : Cfg) {P : Int → Bool} {e : List Mark} (h : Marks P true e) : cliMarks cfg e = [] := by
  unfold cliMarks
  rw [List.filter_eq_nil_iff]
  intro m hm
  obtain ⟨t, rfl, _⟩ := h m hm
  simp

theorem handled_cliMarks (cfg : Cfg) (e : List Mark) (t : Int) :
    handled (cliMarks cfg e) t = if mgrType cfg t then 0 else handled e t := by
  unfold handled cliMarks
  by_cases h : mgrType cfg t = true
  · simp only [h, if_true]
    rw [List.count_eq_zero]
    intro hm
    have := (List.mem_filter.mp hm).2
    simp [h] at this
  · have h' : mgrType cfg t = false := by simpa using h
    simp only [h', Bool.false_eq_true, if_false]
    exact List.count_filter (by simp [h'])

theorem cliMarks_tick (cfg : Cfg) {l : List Mark} (h : ∀ m ∈ l, TickMark cfg m) : cliMarks cfg l = [] := by
  unfold cliMarks
  rw [List.filter_eq_nil_iff]
  intro m hm
  rcases h m hm with rfl | rfl | ⟨t, b, rfl, hb | ht⟩
  · simp
  · simp
  · simp [hb]
  · simp [ht]

theorem takeWhile_append_mem (tick : Mark) : ∀ (mk h : List Mark), tick ∈ mk →
    (mk ++ h).takeWhile (· != tick) = mk.takeWhile (· != tick)
  | [], _, hm => by cases hm
  | m :: mk, h, hm => by
    simp only [List.cons_append, List.takeWhile_cons]
    by_cases hmt : m = tick
    · simp [hmt]
    · have : (m != tick) = true := by simpa using hmt
      simp only [this, if_true]
      rw [takeWhile_append_mem tick mk h (by rcases List.mem_cons.mp hm with h' | h'; exact absurd h'.symm hmt; exact h')]

theorem sinceTick_append_notin (tick : Mark) (mk h : List Mark) (hn : tick ∉ mk) :
    sinceTick tick (mk ++ h) = mk ++ sinceTick tick h := by
  unfold sinceTick
  exact List.takeWhile_append_of_pos (fun a ha => by simp; intro e; exact hn (e ▸ ha))

/-- the client marks since the last tick, across a periodic section -/
theorem cli_since_ticks (cfg : Cfg) {mk : List Mark} (hm : ∀ m ∈ mk, TickMark cfg m) (tick : Mark) (h : List Mark) :
    cliMarks cfg (sinceTick tick (mk ++ h)) = if tick ∈ mk then [] else cliMarks cfg (sinceTick tick h) := by
  by_cases hin : tick ∈ mk
  · simp only [hin, if_true]
    unfold sinceTick
    rw [takeWhile_append_mem tick mk h hin]
    exact cliMarks_tick cfg (fun m hm' => hm m (List.takeWhile_subset _ hm'))
  · simp only [hin, if_false]
    rw [sinceTick_append_notin tick mk h hin, cliMarks_append, cliMarks_tick cfg hm]; rfl

theorem handled_since_mono (tick : Mark) (mk h : List Mark) (hn : tick ∉ mk) (t : Int) :
    handled (sinceTick tick h) t ≤ handled (sinceTick tick (mk ++ h)) t := by
  rw [sinceTick_append_notin tick mk h hn, handled_append]; omega

/-! ## the Spec's table operations -/

/-- a departed module -/
def deadOf (m : AMod) : AMod := { m with alive := false, connected := false }

theorem depMods_eq_map (ms : List AMod) (xs : List Nat) :
    depMods ms xs = ms.map (fun m => if xs.contains m.uid then deadOf m else m) := by
  unfold depMods
  induction xs generalizing ms with
  | nil => simp
  | cons v xs ih =>
    simp only [List.foldl_cons]
    rw [ih]
    unfold depOne
    rw [List.map_map]
    apply List.map_congr_left
    intro m _
    simp only [Function.comp, List.contains_cons]
    by_cases hv : m.uid = v
    · subst hv
      simp only [beq_self_eq_true, if_true, Bool.true_or]
      split <;> rfl
    · have h1 : (m.uid == v) = false := by simpa using hv
      simp only [h1, Bool.false_eq_true, if_false, Bool.false_or]

theorem depMods_uids (ms : List AMod) (xs : List Nat) : (depMods ms xs).map (·.uid) = ms.map (·.uid) := by
  rw [depMods_eq_map, List.map_map]
  apply List.map_congr_left
  intro m _
  simp only [Function.comp]
  split <;> rfl

/-- a table-entry update that leaves the identity of the connection and its liveness alone -/
def Keeps (f : AMod → AMod) : Prop := ∀ x, (f x).uid = x.uid ∧ (f x).alive = x.alive

theorem keeps_id : Keeps id := fun _ => ⟨rfl, rfl⟩

theorem connF_keeps (cfg : Cfg) (buf : List Nat) (fl : Bool) (m : AMod) (h : Hdr) (acks : List (Nat × Nat × Frame)) :
    Keeps (connF cfg buf fl m h acks) := by
  intro x
  unfold connF
  by_cases h1 : (acks.isEmpty && fl) = true
  · simp only [h1, if_true]; exact ⟨rfl, rfl⟩
  · simp only [h1, Bool.false_eq_true, if_false]
    cases hn : (reqOf cfg m h buf).name with
    | none => exact ⟨rfl, rfl⟩
    | some nm =>
      simp only
      by_cases h2 : ((reqOf cfg m h buf).modId != 0) = true
      · simp only [h2, if_true]
        by_cases h3 : (!acks.isEmpty) = true
        · simp only [h3, if_true]; exact ⟨by trivial, by trivial⟩
        · simp only [h3, Bool.false_eq_true, if_false]; exact ⟨by trivial, by trivial⟩
      · simp only [h2, Bool.false_eq_true, if_false]
        by_cases h3 : (!acks.isEmpty) = true
        · simp only [h3, if_true]; exact ⟨by trivial, by trivial⟩
        · simp only [h3, Bool.false_eq_true, if_false]; exact ⟨by trivial, by trivial⟩

theorem segF_keeps (cfg : Cfg) (buf : List Nat) (fl : Bool) (rd : Read) (m : AMod) (acks : List (Nat × Nat × Frame)) :
    Keeps (segF cfg buf fl rd m acks) := by
  unfold segF
  by_cases h0 : readBroken cfg rd = true
  · simp only [h0, if_true]; exact keeps_id
  · simp only [h0, Bool.false_eq_true, if_false]
    by_cases h1 : (rd.h.mtype == cfg.mtConnect || rd.h.mtype == cfg.mtConnectV2) = true
    · simp only [h1, if_true]
      split
      · exact keeps_id
      · exact connF_keeps _ _ _ _ _ _
    · simp only [h1, Bool.false_eq_true, if_false]
      by_cases h2 : (rd.h.mtype == cfg.mtDisconnect) = true
      · simp only [h2, if_true]; exact keeps_id
      · simp only [h2, Bool.false_eq_true, if_false]
        by_cases h3 : (rd.h.mtype == cfg.mtSubscribe || rd.h.mtype == cfg.mtResume || rd.h.mtype == cfg.mtUnsubscribe ||
            rd.h.mtype == cfg.mtPause) = true
        · simp only [h3, if_true]
          intro x
          dsimp only
          repeat' split
          all_goals exact ⟨rfl, rfl⟩
        · simp only [h3, Bool.false_eq_true, if_false]
          by_cases h4 : (rd.h.mtype == cfg.mtSetName) = true
          · simp only [h4, if_true]
            cases cstr buf 0 32 with
            | none => exact keeps_id
            | some nm => exact fun _ => ⟨rfl, rfl⟩
          · simp only [h4, Bool.false_eq_true, if_false]
            split
            · exact fun _ => ⟨rfl, rfl⟩
            · exact keeps_id

theorem segF_keep (cfg : Cfg) (buf : List Nat) (fl : Bool) (rd : Read) (m : AMod) (acks : List (Nat × Nat × Frame)) (x : AMod) :
    (segF cfg buf fl rd m acks x).uid = x.uid ∧ (segF cfg buf fl rd m acks x).alive = x.alive :=
  segF_keeps cfg buf fl rd m acks x

/-- an update of an abstract entry that leaves its subscriptions alone -/
def KeepsS (f : AMod → AMod) : Prop := ∀ x, (f x).uid = x.uid ∧ (f x).subAll = x.subAll ∧ (f x).types = x.types

theorem keepsS_id : KeepsS id := fun _ => ⟨rfl, rfl, rfl⟩

theorem connF_keepsS (cfg : Cfg) (buf : List Nat) (fl : Bool) (m : AMod) (h : Hdr) (acks : List (Nat × Nat × Frame)) :
    KeepsS (connF cfg buf fl m h acks) := by
  intro x
  unfold connF
  by_cases h1 : (acks.isEmpty && fl) = true
  · simp only [h1, if_true]; exact ⟨rfl, rfl, rfl⟩
  · simp only [h1, Bool.false_eq_true, if_false]
    cases hn : (reqOf cfg m h buf).name with
    | none => exact ⟨rfl, rfl, rfl⟩
    | some nm =>
      simp only
      by_cases h2 : ((reqOf cfg m h buf).modId != 0) = true
      · simp only [h2, if_true]
        by_cases h3 : (!acks.isEmpty) = true
        · simp only [h3, if_true]; exact ⟨by trivial, by trivial, by trivial⟩
        · simp only [h3, Bool.false_eq_true, if_false]; exact ⟨by trivial, by trivial, by trivial⟩
      · simp only [h2, Bool.false_eq_true, if_false]
        by_cases h3 : (!acks.isEmpty) = true
        · simp only [h3, if_true]; exact ⟨by trivial, by trivial, by trivial⟩
        · simp only [h3, Bool.false_eq_true, if_false]; exact ⟨by trivial, by trivial, by trivial⟩

/-- only a (un)subscribe request changes the subscriptions the Spec records -/
theorem segF_keepsS (cfg : Cfg) (buf : List Nat) (fl : Bool) (rd : Read) (m : AMod) (acks : List (Nat × Nat × Frame))
    (hns : (rd.h.mtype == cfg.mtConnect || rd.h.mtype == cfg.mtConnectV2) = true ∨ (rd.h.mtype == cfg.mtDisconnect) = true ∨
      ((rd.h.mtype == cfg.mtSubscribe || rd.h.mtype == cfg.mtResume) = false ∧
       (rd.h.mtype == cfg.mtUnsubscribe || rd.h.mtype == cfg.mtPause) = false)) :
    KeepsS (segF cfg buf fl rd m acks) := by
  unfold segF
  by_cases h0 : readBroken cfg rd = true
  · simp only [h0, if_true]; exact keepsS_id
  · simp only [h0, Bool.false_eq_true, if_false]
    by_cases h1 : (rd.h.mtype == cfg.mtConnect || rd.h.mtype == cfg.mtConnectV2) = true
    · simp only [h1, if_true]
      split
      · exact keepsS_id
      · exact connF_keepsS _ _ _ _ _ _
    · simp only [h1, Bool.false_eq_true, if_false]
      by_cases h2 : (rd.h.mtype == cfg.mtDisconnect) = true
      · simp only [h2, if_true]; exact keepsS_id
      · simp only [h2, Bool.false_eq_true, if_false]
        have h12 : (rd.h.mtype == cfg.mtSubscribe || rd.h.mtype == cfg.mtResume) = false ∧
            (rd.h.mtype == cfg.mtUnsubscribe || rd.h.mtype == cfg.mtPause) = false := by
          rcases hns with h | h | h
          · exact absurd h h1
          · exact absurd h h2
          · exact h
        have h3 : (rd.h.mtype == cfg.mtSubscribe || rd.h.mtype == cfg.mtResume || rd.h.mtype == cfg.mtUnsubscribe ||
            rd.h.mtype == cfg.mtPause) = false := by
          have a1 := h12.1; have a2 := h12.2
          simp only [Bool.or_eq_false_iff] at a1 a2 ⊢
          exact ⟨⟨⟨a1.1, a1.2⟩, a2.1⟩, a2.2⟩
        simp only [h3, Bool.false_eq_true, if_false]
        by_cases h4 : (rd.h.mtype == cfg.mtSetName) = true
        · simp only [h4, if_true]
          cases cstr buf 0 32 with
          | none => exact keepsS_id
          | some nm => exact fun _ => ⟨rfl, rfl, rfl⟩
        · simp only [h4, Bool.false_eq_true, if_false]
          split
          · exact fun _ => ⟨rfl, rfl, rfl⟩
          · exact keepsS_id

theorem segX_uids (cfg : Cfg) (a : A) (rd : Read) (m : AMod) (acks : List (Nat × Nat × Frame)) :
    (segX cfg a rd m acks).mods.map (·.uid) = a.mods.map (·.uid) := by
  unfold segX
  simp only [List.map_map]
  apply List.map_congr_left
  intro x _
  simp only [Function.comp]
  split
  · exact (segF_keep ..).1
  · rfl

/-- the alive flags follow the conservation law of the event log -/
theorem alive_step {ms : List AMod} {y y1 : State} {e : List Ev} (hal : ∀ am ∈ ms, am.alive = isOpen y am.uid)
    (hc : ∀ u, closeCnt e u + openN y1 u = openN y u) :
    ∀ am ∈ depMods ms (closes e), am.alive = isOpen y1 am.uid := by
  intro am' h'
  rw [depMods_eq_map] at h'
  obtain ⟨am, hmem, rfl⟩ := List.mem_map.mp h'
  have h1 := hal am hmem
  have h2 := hc am.uid
  unfold openN at h2
  by_cases hx : (closes e).contains am.uid = true
  · have hpos := (mem_closes_iff e am.uid).mp hx
    simp only [hx, if_true]
    show false = isOpen y1 am.uid
    cases h3 : isOpen y1 am.uid with
    | false => rfl
    | true => rw [h3] at h2; cases h4 : isOpen y am.uid <;> simp [h4] at h2 <;> omega
  · have hz : closeCnt e am.uid = 0 := by
      cases hq : closeCnt e am.uid with
      | zero => rfl
      | succ n => exact absurd ((mem_closes_iff e am.uid).mpr (by omega)) hx
    simp only [hx, Bool.false_eq_true, if_false]
    rw [h1]
    rw [hz] at h2
    cases h3 : isOpen y1 am.uid <;> cases h4 : isOpen y am.uid <;> simp [h3, h4] at h2 ⊢

theorem dep_nil (a : A) : applyDepartures a [] = a := rfl

theorem dep_append (a : A) (e1 e2 : List Ev) :
    applyDepartures a (e1 ++ e2) = applyDepartures (applyDepartures a e1) e2 := by
  unfold applyDepartures; rw [closes_append, List.foldl_append]

theorem get_dep (a : A) (L : List Ev) (u : Nat) :
    (applyDepartures a L).get u = (a.get u).map (fun m => if (closes L).contains m.uid then deadOf m else m) := by
  rw [applyDepartures_eq]
  unfold A.get
  show (depMods a.mods (closes L)).find? _ = _
  rw [depMods_eq_map, List.find?_map]
  congr 2
  funext m
  simp only [Function.comp]
  split <;> rfl

/-! ## segments of a round's event log -/

/-- the event log of the frames read: a read marker, then the segment's own events -/
def flatSegs (l : List (Nat × List Ev)) : List Ev := l.flatMap (fun p => .rd p.1 :: p.2)

def NoRdSegs (l : List (Nat × List Ev)) : Prop := ∀ p ∈ l, NoRd p.2

/-- the events `T` that follow the last frame read belong to the last segment -/
def addLast : List (Nat × List Ev) → List Ev → List (Nat × List Ev)
  | [], _ => []
  | [p], T => [(p.1, p.2 ++ T)]
  | p :: q :: r, T => p :: addLast (q :: r) T

theorem addLast_cons (p : Nat × List Ev) (l : List (Nat × List Ev)) (T : List Ev) :
    addLast (p :: l) T = (p.1, p.2 ++ (if l = [] then T else [])) :: addLast l T := by
  cases l with
  | nil => simp [addLast]
  | cons q r => simp [addLast]

theorem splitRd_flat (l : List (Nat × List Ev)) (hl : NoRdSegs l) (T : List Ev) (hT : NoRd T) :
    splitRd (flatSegs l ++ T) = ((if l = [] then T else []), addLast l T) := by
  induction l with
  | nil => simp [flatSegs, addLast, splitRd_noRd_only T hT]
  | cons p l ih =>
    have hp : NoRd p.2 := hl p (by simp)
    have hl' : NoRdSegs l := fun q hq => hl q (by simp [hq])
    have e1 : flatSegs (p :: l) ++ T = .rd p.1 :: (p.2 ++ (flatSegs l ++ T)) := by simp [flatSegs]
    rw [e1, splitRd_rd, splitRd_noRd p.2 hp, ih hl', addLast_cons]
    simp

theorem addLast_isEmpty (l : List (Nat × List Ev)) (T : List Ev) : (addLast l T).isEmpty = l.isEmpty := by
  cases l with
  | nil => rfl
  | cons p l => rw [addLast_cons]; rfl

theorem addLast_dropLast : ∀ (l : List (Nat × List Ev)) (T : List Ev), (addLast l T).dropLast = l.dropLast
  | [], _ => rfl
  | [p], _ => by simp [addLast]
  | p :: q :: r, T => by
    have ih := addLast_dropLast (q :: r) T
    simp only [addLast, List.dropLast_cons₂] at ih ⊢
    cases hq : addLast (q :: r) T with
    | nil => rw [addLast_cons] at hq; cases hq
    | cons x y => rw [hq] at ih; simp [List.dropLast, ih]

theorem addLast_getLast : ∀ (l : List (Nat × List Ev)) (T : List Ev),
    (addLast l T).getLast? = l.getLast?.map (fun p => (p.1, p.2 ++ T))
  | [], _ => rfl
  | [p], _ => by simp [addLast]
  | p :: q :: r, T => by
    have ih := addLast_getLast (q :: r) T
    rw [addLast, List.getLast?_cons_cons] 
    cases hq : addLast (q :: r) T with
    | nil => rw [addLast_cons] at hq; cases hq
    | cons x y => rw [hq] at ih; rw [List.getLast?_cons_cons, ih]

/-! ## the tally of manager-originated frames against `msc` -/

theorem noteRecv_cons (c : List ((Nat × Int) × Nat)) (e : Ev) (evs : List Ev) :
    noteRecv c (e :: evs) = noteRecv (match e with
      | .send u _ f => if notedBody f.body then bumpRecv c (u, f.mtype) else c
      | _ => c) evs := by
  unfold noteRecv
  cases e with
  | send u n f =>
    simp only [sends, List.filterMap_cons, List.foldl_cons]
    congr 1
    cases f.body <;> rfl
  | partialW _ => rfl
  | wfail _ => rfl
  | close _ => rfl
  | rd _ => rfl

theorem bumpRecv_bound (c : List ((Nat × Int) × Nat)) (k : Nat × Int) (Bd : Nat × Int → Nat)
    (hB : ∀ q ∈ c, q.2 ≤ Bd q.1) : ∀ q ∈ bumpRecv c k, q.2 ≤ Bd q.1 + (if q.1 = k then 1 else 0) := by
  intro q hq
  unfold bumpRecv at hq
  split at hq
  · obtain ⟨p, hp, rfl⟩ := List.mem_map.mp hq
    have hb := hB p hp
    by_cases hk : p.1 = k
    · have e : (p.1 == k) = true := by simp [hk]
      simp only [e, if_true]
      show p.2 + 1 ≤ Bd p.1 + (if p.1 = k then 1 else 0)
      rw [if_pos hk]; omega
    · have e : (p.1 == k) = false := by simpa using hk
      simp only [e, Bool.false_eq_true, if_false]
      rw [if_neg hk]; omega
  · rcases List.mem_append.mp hq with h | h
    · have := hB q h; omega
    · simp at h; subst h; simp

theorem noteRecv_bound : ∀ (evs : List Ev) (c : List ((Nat × Int) × Nat)) (Bd : Nat × Int → Nat),
    (∀ q ∈ c, q.2 ≤ Bd q.1) → ∀ q ∈ noteRecv c evs, q.2 ≤ Bd q.1 + msc q.1.1 q.1.2 evs
  | [], c, Bd, hB => fun q hq => by simpa [noteRecv, sends, msc] using hB q hq
  | e :: evs, c, Bd, hB => by
    intro q hq
    rw [noteRecv_cons] at hq
    have hstep : ∀ p ∈ (match e with
        | .send u _ f => if notedBody f.body then bumpRecv c (u, f.mtype) else c
        | _ => c), p.2 ≤ Bd p.1 + (if isNoted p.1.1 p.1.2 e then 1 else 0) := by
      intro p hp
      cases e with
      | send u n f =>
        simp only at hp
        split at hp
        · rename_i hn
          have := bumpRecv_bound c (u, f.mtype) Bd hB p hp
          have e1 : (isNoted p.1.1 p.1.2 (Ev.send u n f)) = decide (p.1 = (u, f.mtype)) := by
            show (u == p.1.1 && f.mtype == p.1.2 && notedBody f.body) = _
            rw [hn, Bool.and_true]
            cases p with | mk k v => cases k with | mk a b =>
            simp only [Prod.mk.injEq]
            by_cases h1 : u = a
            · by_cases h2 : f.mtype = b
              · subst h1 h2; simp
              · have h3 : ¬ b = f.mtype := fun e => h2 e.symm
                have h4 : (f.mtype == b) = false := by simpa using h2
                subst h1; simp [h3, h4]
            · have : ¬ a = u := fun e => h1 e.symm
              simp [h1, this]
          rw [e1]
          by_cases hk : p.1 = (u, f.mtype) <;> simp [hk] at this ⊢ <;> omega
        · have := hB p hp; omega
      | partialW _ => have := hB p hp; simp only at hp; omega
      | wfail _ => have := hB p hp; simp only at hp; omega
      | close _ => have := hB p hp; simp only at hp; omega
      | rd _ => have := hB p hp; simp only at hp; omega
    have := noteRecv_bound evs _ (fun k => Bd k + (if isNoted k.1 k.2 e then 1 else 0)) hstep q hq
    have e2 : msc q.1.1 q.1.2 (e :: evs) = (if isNoted q.1.1 q.1.2 e then 1 else 0) + msc q.1.1 q.1.2 evs := by
      unfold msc; rw [List.countP_cons]; omega
    rw [e2]; omega

theorem noteAll_recvT (cfg : Cfg) : ∀ (l : List (List Ev)) (a : A),
    (l.foldl (noteMgrFrames cfg) a).recvT = l.foldl noteRecv a.recvT ∧ (l.foldl (noteMgrFrames cfg) a).recvR = l.foldl noteRecv a.recvR
  | [], _ => ⟨rfl, rfl⟩
  | e :: l, a => by
    simp only [List.foldl_cons]
    have := noteAll_recvT cfg l (noteMgrFrames cfg a e)
    rw [noteMgrFrames_eq] at this ⊢
    exact this

theorem noteAll_bound : ∀ (l : List (List Ev)) (c : List ((Nat × Int) × Nat)) (Bd : Nat × Int → Nat),
    (∀ q ∈ c, q.2 ≤ Bd q.1) → ∀ q ∈ l.foldl noteRecv c, q.2 ≤ Bd q.1 + msc q.1.1 q.1.2 l.flatten
  | [], c, Bd, hB => fun q hq => by simpa [msc] using hB q hq
  | e :: l, c, Bd, hB => by
    intro q hq
    simp only [List.foldl_cons] at hq
    have := noteAll_bound l _ (fun k => Bd k + msc k.1 k.2 e) (noteRecv_bound e c Bd hB) q hq
    simp only [List.flatten_cons, msc_append]
    omega

theorem msc_flatSegs (o : Nat) (t : Int) (l : List (Nat × List Ev)) :
    msc o t (flatSegs l) = msc o t (l.map (·.2)).flatten := by
  induction l with
  | nil => rfl
  | cons p l ih =>
    have e1 : flatSegs (p :: l) = (.rd p.1 :: p.2) ++ flatSegs l := by simp [flatSegs]
    rw [e1, msc_append, ih]
    simp only [List.map_cons, List.flatten_cons, msc_append]
    unfold msc; simp [List.countP_cons, isNoted]

theorem msc_dropLast_le (o : Nat) (t : Int) (l : List (Nat × List Ev)) :
    msc o t (l.dropLast.map (·.2)).flatten ≤ msc o t (l.map (·.2)).flatten := by
  rcases List.eq_nil_or_concat l with rfl | ⟨l', x, rfl⟩
  · simp
  · simp [List.dropLast_concat, msc_append]

/-! ## the simulation relation -/

/-- what holds of every reachable model state, whatever its event log -/
structure MInv (cfg : Cfg) (x : State) : Prop where
  top : Top cfg x
  k : K x
  stat : StatInv cfg x

/-- the abstract entry of a connection agrees with its table entry -/
def TabEq (am : AMod) (m : Module) : Prop :=
  am.uid = m.uid ∧ am.modId = m.modId ∧ am.pid = m.pid ∧ am.connected = m.connected ∧ am.isLogger = m.isLogger

/-- the manager's own table entry keeps module id 0 -/
def ZeroP (x : State) : Prop := ∀ m ∈ x.mods, m.uid = 0 → m.modId = 0

theorem zero_step {y y' : State} {p : Nat → Bool} (hz : ZeroP y) (hrk : RKP p y y') (hp : p 0 = false) (hd' : UidsDistinct y') :
    ZeroP y' := by
  intro m' hm' h0
  have hf' := find_of_mem hd' hm'
  rw [h0] at hf'
  obtain ⟨m, hm, hk⟩ := hrk 0 m' hp hf'
  have ht := hk.1
  simp only [Module.tabv, Prod.mk.injEq] at ht
  rw [ht.1]
  exact hz m (mem_of_find hm) (find_uid hm)

/-- every table entry (but the manager's own) has an abstract entry that agrees with it -/
def TabP (x : State) (ams : List AMod) : Prop := ∀ m ∈ x.mods, m.uid ≠ 0 → ∃ am ∈ ams, TabEq am m

theorem mem_depMods_of_open {ms : List AMod} {am : AMod} (h : am ∈ ms) {xs : List Nat} (hx : xs.contains am.uid = false) :
    am ∈ depMods ms xs := by
  rw [depMods_eq_map]
  have hx' : am.uid ∉ xs := by simpa using hx
  exact List.mem_map.mpr ⟨am, h, by simp [hx']⟩

theorem alive_of_dep {ms : List AMod} {xs : List Nat} {am : AMod} (h : am ∈ depMods ms xs) (ha : am.alive = true) : am ∈ ms := by
  rw [depMods_eq_map] at h
  obtain ⟨am0, h0, rfl⟩ := List.mem_map.mp h
  split at ha
  · simp [deadOf] at ha
  · rename_i hx; simp only [hx, Bool.false_eq_true, if_false]; exact h0

/-- the Spec's writable set agrees with the model's on the live connections -/
def WL (x : State) (a : A) : Prop := ∀ am ∈ a.mods, am.alive = true → (a.w.contains am.uid = true ↔ am.uid ∈ x.wlist)

theorem wl_step {y y' : State} {a a' : A} (h : WL y a) (hw : y'.wlist = y.wlist) (haw : a'.w = a.w)
    (hsub : ∀ am' ∈ a'.mods, am'.alive = true → ∃ am ∈ a.mods, am.uid = am'.uid ∧ am.alive = true) : WL y' a' := by
  intro am' ham' hal
  obtain ⟨am, ham, hu, hal0⟩ := hsub am' ham' hal
  rw [haw, hw, ← hu]; exact h am ham hal0

theorem wl_dep {y y' : State} {a : A} (h : WL y a) (hw : y'.wlist = y.wlist) (e : List Ev) : WL y' (applyDepartures a e) := by
  refine wl_step h hw (by rw [applyDepartures_eq]) (fun am' ham' hal => ?_)
  rw [applyDepartures_eq] at ham'
  exact ⟨am', alive_of_dep ham' hal, rfl, hal⟩

/-- entries kept by an operation keep their abstract entries, once the departures of the operation are applied -/
theorem tab_step {y y' : State} {ams : List AMod} {e : List Ev} {p : Nat → Bool}
    (htab : ∀ m ∈ y.mods, m.uid ≠ 0 → p m.uid = false → ∃ am ∈ ams, TabEq am m) (hrk : RKP p y y')
    (hcons : ∀ u, closeCnt e u + openN y' u = openN y u) (hd' : UidsDistinct y') (hao : AllOpen y') :
    ∀ m' ∈ y'.mods, m'.uid ≠ 0 → p m'.uid = false → ∃ am ∈ depMods ams (closes e), TabEq am m' := by
  intro m' hm' h0 hp
  have hf' := find_of_mem hd' hm'
  obtain ⟨m, hm, hk⟩ := hrk m'.uid m' hp hf'
  have hmu := find_uid hm
  obtain ⟨am, ham, h1, h2, h3, h4, h5⟩ := htab m (mem_of_find hm) (by rw [hmu]; exact h0) (by rw [hmu]; exact hp)
  have hcl := hao m'.uid m' hf'
  have ht := hk.1
  simp only [Module.tabv, Prod.mk.injEq] at ht
  have hop : isOpen y' m'.uid = true := isOpen_of_find hf' hcl
  have hnc : (closes e).contains am.uid = false := by
    rw [h1, hmu]
    cases hq : (closes e).contains m'.uid with
    | false => rfl
    | true =>
      have := (mem_closes_iff e m'.uid).mp hq
      have hc := hcons m'.uid
      unfold openN at hc
      rw [hop] at hc
      cases h5 : isOpen y m'.uid <;> simp [h5] at hc <;> omega
  exact ⟨am, mem_depMods_of_open ham hnc, h1.trans hmu, by rw [h2, ht.1], by rw [h3, ht.2.1], by rw [h4, (hk.2 hcl).2],
    by rw [h5, ht.2.2]⟩

/-- the abstract entries know the subscriptions of their table entries -/
def SubP (cfg : Cfg) (x : State) (ams : List AMod) : Prop := ∀ am ∈ ams, ∀ m, x.find am.uid = some m → SubEq cfg x am m

theorem subEq_keep {cfg : Cfg} {y y' : State} {am am' : AMod} {m m' : Module} (h : SubEq cfg y am m) (hs : m'.subs = m.subs)
    (hidx : ∀ t, am.uid ∈ idxGet y.idx t → am.uid ∈ idxGet y'.idx t)
    (ha : am'.uid = am.uid ∧ am'.subAll = am.subAll ∧ am'.types = am.types) : SubEq cfg y' am' m' :=
  ⟨by rw [ha.2.1, hs]; exact h.all, fun hc => by rw [ha.1]; exact hidx _ (h.idxA (by rw [← ha.2.1]; exact hc)),
   fun t ht => by rw [ha.1]; exact hidx _ (h.idxT t (by rw [← ha.2.2]; exact ht))⟩

/-- connections an operation keeps open keep their subscriptions, in the table, in the index and in the abstract entries
    (once the departures of the operation are applied) -/
theorem sub_step {cfg : Cfg} {y y' : State} {ams : List AMod} {e : List Ev} {p : Nat → Bool}
    (hsub : ∀ am ∈ ams, p am.uid = false → ∀ m, y.find am.uid = some m → SubEq cfg y am m) (hik : IKR p y y') (hao : AllOpen y') :
    ∀ am' ∈ depMods ams (closes e), p am'.uid = false → ∀ m', y'.find am'.uid = some m' → SubEq cfg y' am' m' := by
  intro am' ham' hp m' hm'
  rw [depMods_eq_map] at ham'
  obtain ⟨am, ham, rfl⟩ := List.mem_map.mp ham'
  have hk : (if (closes e).contains am.uid then deadOf am else am).uid = am.uid ∧
      (if (closes e).contains am.uid then deadOf am else am).subAll = am.subAll ∧
      (if (closes e).contains am.uid then deadOf am else am).types = am.types := by
    split <;> exact ⟨rfl, rfl, rfl⟩
  rw [hk.1] at hp hm'
  obtain ⟨⟨m, hm, _, hs⟩, hidx⟩ := hik am.uid m' hp hm' (hao am.uid m' hm')
  exact subEq_keep (hsub am ham hp m hm) hs (fun t => hidx t) hk

structure Sim (cfg : Cfg) (x : State) (a : A) : Prop where
  now : a.now = x.now
  tT : a.tTiming = x.tTiming
  tR : a.tTraffic = x.tTraffic
  tI : a.tInfo = x.tInfo
  seq : a.seq = x.trafficSeq
  nacc : a.nAccepted = x.nextUid
  uids : a.mods.map (·.uid) = (List.range x.nextUid).map (· + 1)
  alive : ∀ am ∈ a.mods, am.alive = isOpen x am.uid
  fail : a.fail = x.fail
  pubT : a.pubT = tallyOn [] (cliMarks cfg (sinceTick .timingTick x.hist))
  pubR : a.pubR = tallyOn [] (cliMarks cfg (sinceTick .trafficTick x.hist))
  buf : a.buf = x.buf
  tab : TabP x a.mods
  zero : ZeroP x
  subs : SubP cfg x a.mods

/-- frames of a manager type `t` the marks `e` record as handled outside a statistics send (nothing for other types) -/
def hmgr (cfg : Cfg) (e : List Mark) (t : Int) : Nat := if mgrType cfg t then handled e t else 0

theorem hmgr_append (cfg : Cfg) (e2 e1 : List Mark) (t : Int) : hmgr cfg (e2 ++ e1) t = hmgr cfg e2 t + hmgr cfg e1 t := by
  unfold hmgr; split
  · exact handled_append e2 e1 t
  · rfl

theorem hmgr_eq_mmarks (cfg : Cfg) (e : List Mark) (t : Int) : mmarks cfg t false e = hmgr cfg e t := rfl

theorem hmgr_le (cfg : Cfg) (e : List Mark) (t : Int) : hmgr cfg e t ≤ handled e t := by
  unfold hmgr; split
  · exact Nat.le_refl _
  · exact Nat.zero_le _

/-- what one observer received since the last report is a lower bound of what was handled (and it only ever receives
    manager-originated frames of manager types) -/
structure RecvOK (cfg : Cfg) (x : State) (a : A) : Prop where
  t : ∀ q ∈ a.recvT, q.2 ≤ hmgr cfg (sinceTick .timingTick x.hist) q.1.2
  r : ∀ q ∈ a.recvR, q.2 ≤ hmgr cfg (sinceTick .trafficTick x.hist) q.1.2

theorem inj_of_nodup_map {α β : Type} (f : α → β) : ∀ (l : List α), (l.map f).Nodup → ∀ x ∈ l, ∀ y ∈ l, f x = f y → x = y
  | [], _, x, hx, _, _, _ => by cases hx
  | a :: l, hd, x, hx, y, hy, hxy => by
    rw [List.map_cons, List.nodup_cons] at hd
    rcases List.mem_cons.mp hx with rfl | hx' <;> rcases List.mem_cons.mp hy with rfl | hy'
    · rfl
    · exact absurd (hxy ▸ List.mem_map.mpr ⟨y, hy', rfl⟩) hd.1
    · exact absurd (hxy ▸ List.mem_map.mpr ⟨x, hx', rfl⟩) hd.1
    · exact inj_of_nodup_map f l hd.2 x hx' y hy' hxy

theorem nodup_range_succ (n : Nat) : ((List.range n).map (· + 1)).Nodup := by
  rw [List.nodup_iff_pairwise_ne, List.pairwise_map]
  exact List.nodup_range.imp (fun h => by omega)

/-- an abstract table has one entry per connection -/
theorem sim_unique {cfg : Cfg} {x : State} {a : A} (h : Sim cfg x a) {am am' : AMod} (h1 : am ∈ a.mods) (h2 : am' ∈ a.mods)
    (hu : am.uid = am'.uid) : am = am' :=
  inj_of_nodup_map (·.uid) a.mods (by rw [h.uids]; exact nodup_range_succ _) am h1 am' h2 hu

theorem sim_get {cfg : Cfg} {x : State} {a : A} (h : Sim cfg x a) {u : Nat} (h1 : 1 ≤ u) (h2 : u ≤ x.nextUid) :
    ∃ am, a.get u = some am ∧ am ∈ a.mods ∧ am.uid = u := by
  have hu : u ∈ a.mods.map (·.uid) := by
    rw [h.uids]; exact List.mem_map.mpr ⟨u - 1, by simp; omega, by omega⟩
  obtain ⟨am0, hm0, he0⟩ := List.mem_map.mp hu
  unfold A.get
  cases hf : a.mods.find? (·.uid == u) with
  | none =>
    rw [List.find?_eq_none] at hf
    exact absurd (by simp [he0]) (hf am0 hm0)
  | some am =>
    exact ⟨am, rfl, List.mem_of_find?_eq_some hf, by simpa using List.find?_some hf⟩

theorem sim_get_none {cfg : Cfg} {x : State} {a : A} (h : Sim cfg x a) {u : Nat} (h1 : u = 0 ∨ x.nextUid < u) :
    a.get u = none := by
  unfold A.get
  rw [List.find?_eq_none]
  intro am ham hp
  have hu : am.uid ∈ a.mods.map (·.uid) := List.mem_map.mpr ⟨am, ham, rfl⟩
  rw [h.uids] at hu
  obtain ⟨i, hi, he⟩ := List.mem_map.mp hu
  simp at hi hp
  omega

/-! ## one frame read -/

section withcfg
variable {cfg : Cfg} (ok : CfgOK cfg) (hfuel : cfg.fuel = 0)
include ok hfuel

theorem minv_same {x x' : State} (h : MInv cfg x) (hm : x'.mods = x.mods) (hi : x'.idx = x.idx)
    (hc : x'.crashed = x.crashed) (hn : x'.nextUid = x.nextUid) (h1 : x'.hist = x.hist) (h2 : x'.traffic = x.traffic)
    (h3 : x'.counts = x.counts) (h4 : x'.inTraffic = x.inTraffic) : MInv cfg x' :=
  ⟨top_same ok hfuel h.top x' hm hi hc, K_same h.k hm hn, statInv_same h.stat h1 h2 h3 h4⟩

theorem minv_readOne {y : State} (h : MInv cfg y) (rd : Read) : MInv cfg (readOne cfg y rd) :=
  ⟨top_readOne ok hfuel h.top rd, readOne_K cfg h.k rd, readOne_statInv h.stat rd⟩

/-- the marks one frame read leaves: exactly one client mark iff it is a client frame the manager forwards -/
theorem readOne_marks {y : State} (hI : MInv cfg y) (rd : Read) (m : Module) (hm : y.find rd.uid = some m) :
    ∃ mk, AccE cfg (fun _ => true) (afterRead cfg y rd) (readOne cfg y rd) mk ∧
      cliMarks cfg mk = if clientData cfg rd then [.fwd rd.h.mtype false] else [] := by
  have hI0 : MInv cfg (afterRead cfg y rd) := minv_same ok hfuel hI rfl rfl rfl rfl rfl rfl rfl rfl
  rw [readOne_eq cfg y rd hI.top.good.ok m hm]
  show ∃ mk, AccE cfg (fun _ => true) (afterRead cfg y rd)
      (if readBroken cfg rd then logAt cfg (fwdTop cfg) _ (removeModule cfg (fwdTop cfg) (afterRead cfg y rd) rd.uid)
       else processMessage cfg (afterRead cfg y rd) rd.uid rd.h) mk ∧ _
  have hflag : (afterRead cfg y rd).inTraffic = false := hI.stat.idle
  by_cases hb : readBroken cfg rd = true
  · have hcd : clientData cfg rd = false := by unfold clientData; simp [hb]
    simp only [hb, if_true, hcd, Bool.false_eq_true, if_false]
    obtain ⟨mk, hmk⟩ := (removeModule_macc cfg (afterRead cfg y rd) rd.uid).trans (logAt_macc cfg _ _)
    exact ⟨mk, hmk.mono (fun _ _ => rfl), cliMarks_mgr cfg hmk.marks⟩
  · have hb' : readBroken cfg rd = false := by simpa using hb
    simp only [hb', Bool.false_eq_true, if_false]
    by_cases hc : ctlType cfg rd.h.mtype = true
    · have hcd : clientData cfg rd = false := by unfold clientData; rw [isControl_eq, hc]; simp
      simp only [hcd, Bool.false_eq_true, if_false]
      obtain ⟨mk, hmk⟩ := process_ctl_macc cfg (afterRead cfg y rd) rd.uid rd.h hc
      exact ⟨mk, hmk.mono (fun _ _ => rfl), cliMarks_mgr cfg hmk.marks⟩
    · have hc' : ctlType cfg rd.h.mtype = false := by simpa using hc
      rw [process_data_eq cfg _ _ _ hc']
      obtain ⟨e1, h1⟩ := logAt_macc cfg 10 (afterRead cfg y rd)
      have hcr : (logAt cfg (fwdTop cfg) 10 (afterRead cfg y rd)).crashed = none := (top_log ok hfuel hI0.top 10).good.ok
      obtain ⟨e', hm', h2⟩ := fwdTop_accE cfg (logAt cfg (fwdTop cfg) 10 (afterRead cfg y rd))
        { mtype := rd.h.mtype, src := rd.h.src, dest := rd.h.dest, destHost := rd.h.destHost, nbytes := rd.h.nbytes.toNat,
          body := .data rd.h.k }
      have hfl : (logAt cfg (fwdTop cfg) 10 (afterRead cfg y rd)).inTraffic = false := h1.inT.trans hflag
      simp only [hcr, Option.isSome_none, Bool.false_eq_true, if_false, hfl] at h2 hm'
      refine ⟨_, (h1.mono (fun _ _ => rfl)).trans h2, ?_⟩
      rw [cliMarks_append, cliMarks_append, cliMarks_mgr cfg h1.marks, cliMarks_mgr cfg (hm'.mono (nested_mgr cfg))]
      unfold clientData
      rw [isControl_eq, isMgrType_eq, hb', hc']
      cases hmg : mgrType cfg rd.h.mtype <;> simp [cliMarks, hmg]

omit ok hfuel in
theorem readOne_events {y : State} (hk : K y) (hc : y.crashed = none) (rd : Read) (m : Module) (hm : y.find rd.uid = some m) :
    EvS (afterRead cfg y rd) (readOne cfg y rd) := by
  have hd : UidsDistinct (afterRead cfg y rd) := hk.distinct
  rw [readOne_eq cfg y rd hc m hm]
  show EvS (afterRead cfg y rd)
      (if readBroken cfg rd then logAt cfg (fwdTop cfg) _ (removeModule cfg (fwdTop cfg) (afterRead cfg y rd) rd.uid)
       else processMessage cfg (afterRead cfg y rd) rd.uid rd.h)
  split
  · have h1 := removeModule_ev (cfg := cfg) (fwdTop_ev cfg) hd rd.uid
    exact h1.trans (logTop_ev cfg _ (h1.distinct hd))
  · exact process_ev cfg hd _ _

omit ok hfuel in
theorem isOpen_iff_find {y : State} (ht : Top cfg y) (u : Nat) : isOpen y u = (y.find u).isSome := by
  cases hf : y.find u with
  | none => rw [isOpen_find_none hf]; rfl
  | some m => rw [isOpen_of_find hf (ht.aopen u m hf)]; rfl

omit ok hfuel in
theorem readOne_rkx {y : State} (hc : y.crashed = none) (rd : Read) (m : Module) (hm : y.find rd.uid = some m) :
    RKX rd.uid (afterRead cfg y rd) (readOne cfg y rd) := by
  rw [readOne_eq cfg y rd hc m hm]
  show RKX rd.uid (afterRead cfg y rd)
      (if readBroken cfg rd then logAt cfg (fwdTop cfg) _ (removeModule cfg (fwdTop cfg) (afterRead cfg y rd) rd.uid)
       else processMessage cfg (afterRead cfg y rd) rd.uid rd.h)
  split
  · exact (removeTop_rk cfg _ _ rd.uid).trans (logTop_rk cfg _ _ _)
  · exact process_rkx cfg _ _ _

omit ok hfuel in
theorem acksOf_map (evs : List Ev) : (acksOf evs).map (fun p => (p.1, p.2.2)) = dataSends isAckB evs := by
  induction evs with
  | nil => rfl
  | cons e evs ih =>
    have e1 : acksOf (e :: evs) = acksOf [e] ++ acksOf evs := acksOf_append [e] evs
    have e2 : dataSends isAckB (e :: evs) = dataSends isAckB [e] ++ dataSends isAckB evs := dataSends_append _ [e] evs
    rw [e1, e2, List.map_append, ih]
    congr 1
    cases e with
    | send u c f =>
      cases hb : (f.body == Body.ack) with
      | false =>
        have hne : f.body ≠ .ack := by simpa using hb
        simp [acksOf, sends, dataSends, isAckB, hne]
      | true =>
        have he : f.body = .ack := by simpa using hb
        simp [acksOf, sends, dataSends, isAckB, he]
    | _ => rfl

omit ok hfuel in
theorem failing_eq {a : A} {y : State} (h : a.fail = y.fail) (u : Nat) : a.failing u = (failOf y u).isSome := by
  unfold A.failing failOf
  rw [h]
  induction y.fail with
  | nil => rfl
  | cons p l ih =>
    simp only [List.any_cons, List.find?_cons]
    cases (p.1 == u) <;> simp [ih]

omit ok hfuel in
/-- the fields a connect request asks for, as the Spec reads them and as the model writes them -/
theorem reqOf_setAll (am : AMod) (m : Module) (hp : am.pid = m.pid) (h : Hdr) (buf : List Nat) (nm : List Nat) :
    (reqOf cfg am h buf).modId = (setAll cfg buf h nm m).modId ∧ (reqOf cfg am h buf).pid = (setAll cfg buf h nm m).pid ∧
    (reqOf cfg am h buf).isLogger = (setAll cfg buf h nm m).isLogger := by
  unfold reqOf setAll setReq
  split <;> simp [hp]

omit ok hfuel in
theorem reqOf_name (am : AMod) (m : Module) (h : Hdr) (buf : List Nat) (nm : List Nat)
    (hn : (if h.mtype == cfg.mtConnectV2 then cstr buf 12 32 else some m.name) = some nm) :
    ∃ nm', (reqOf cfg am h buf).name = some nm' := by
  unfold reqOf
  split
  · rename_i hv; simp only [hv, if_true] at hn; exact ⟨nm, hn⟩
  · exact ⟨am.name, rfl⟩

omit ok hfuel in
/-- the (un)subscribe update of the Spec leaves the identity fields of an entry alone -/
theorem subF_tab (ty allT : Int) (add : Bool) (x : AMod) :
    let y := (if ty == allT then (if add then { x with subAll := true, types := [] } else { x with subAll := false, types := [] })
      else if x.subAll then x
      else if add then { x with types := if x.types.contains ty then x.types else x.types ++ [ty] }
      else { x with types := x.types.filter (· != ty) })
    y.uid = x.uid ∧ y.modId = x.modId ∧ y.pid = x.pid ∧ y.connected = x.connected ∧ y.isLogger = x.isLogger := by
  dsimp only
  repeat' split
  all_goals exact ⟨rfl, rfl, rfl, rfl, rfl⟩

omit ok hfuel in
theorem tabEq_keep {am am' : AMod} {m m' : Module} (h : TabEq am m) (hk : KeepRec m m') (hcl : m'.closed = false)
    (hu : m'.uid = m.uid)
    (ha : am'.uid = am.uid ∧ am'.modId = am.modId ∧ am'.pid = am.pid ∧ am'.connected = am.connected ∧ am'.isLogger = am.isLogger) :
    TabEq am' m' := by
  have ht := hk.1
  simp only [Module.tabv, Prod.mk.injEq] at ht
  obtain ⟨h1, h2, h3, h4, h5⟩ := h
  exact ⟨by rw [ha.1, h1, hu], by rw [ha.2.1, h2, ht.1], by rw [ha.2.2.1, h3, ht.2.1], by rw [ha.2.2.2.1, h4, (hk.2 hcl).2],
    by rw [ha.2.2.2.2, h5, ht.2.2]⟩

/-- **the entry of the connection a frame was read from**: what `segF` writes into the abstract entry is what the model
    left in the table entry (if the connection is still in the table) -/
theorem read_own {y : State} {a : A} (hI : MInv cfg y) (hS : Sim cfg y a) (rd : Read) (m : Module)
    (hm : y.find rd.uid = some m) (am : AMod) (hte : TabEq am m) (e : List Ev)
    (hout : (readOne cfg y rd).out = (afterRead cfg y rd).out ++ e) (m1 : Module)
    (hm1 : (readOne cfg y rd).find rd.uid = some m1) :
    TabEq (segF cfg (bufAfter cfg a.buf rd) (a.failing rd.uid) rd am (acksOf e) am) m1 := by
  have hI0 : MInv cfg (afterRead cfg y rd) := minv_same ok hfuel hI rfl rfl rfl rfl rfl rfl rfl rfl
  have hI1 := minv_readOne ok hfuel hI rd
  have hcl1 : m1.closed = false := hI1.top.aopen rd.uid m1 hm1
  have hu1 : m1.uid = m.uid := (find_uid hm1).trans (find_uid hm).symm
  have hm0 : (afterRead cfg y rd).find rd.uid = some m := hm
  have hbuf : bufAfter cfg a.buf rd = (afterRead cfg y rd).buf := by rw [hS.buf]; rfl
  have he : readOne cfg y rd =
      (if readBroken cfg rd then
        logAt cfg (fwdTop cfg) (if rd.hdrErr || (!(!rd.hdrOk || rd.h.nbytes < 0 || rd.h.nbytes > cfg.bufMax) && rd.payErr) then 40 else 30)
          (removeModule cfg (fwdTop cfg) (afterRead cfg y rd) rd.uid)
       else processMessage cfg (afterRead cfg y rd) rd.uid rd.h) := readOne_eq cfg y rd hI.top.good.ok m hm
  rw [he] at hm1 hout
  have hg : ∀ (lvl : Nat) (s0 : State), (logAt cfg (fwdTop cfg) lvl (removeModule cfg (fwdTop cfg) s0 rd.uid)).find rd.uid = none :=
    fun lvl s0 => rkp_gone (logTop_rk cfg (fun _ => false) lvl _) (u := rd.uid) rfl (removeModule_gone cfg (fwdTop cfg) s0 rd.uid)
  unfold segF
  by_cases hb : readBroken cfg rd = true
  · exfalso
    simp only [hb, if_true] at hm1
    rw [hg] at hm1; cases hm1
  · have hb' : readBroken cfg rd = false := by simpa using hb
    simp only [hb', Bool.false_eq_true, if_false] at hm1 hout ⊢
    by_cases hc : (rd.h.mtype == cfg.mtConnect || rd.h.mtype == cfg.mtConnectV2) = true
    · simp only [hc, if_true]
      by_cases hcn : m.connected = true
      · have : am.connected = true := hte.2.2.2.1.trans hcn
        simp only [this, if_true]
        rw [process_connected_noop cfg _ _ _ m hm0 hcn hc, hm0] at hm1
        cases hm1; exact hte
      · have hcn' : m.connected = false := by simpa using hcn
        have : am.connected = false := hte.2.2.2.1.trans hcn'
        simp only [this, Bool.false_eq_true, if_false]
        obtain ⟨nm, hnm, hc1, hp1, hlg1, hmod, hfl, rest, hacks⟩ :=
          connect_survivor ok hfuel hI0.top hI0.k.distinct rd.uid rd.h m hm0 hcn' hc m1 hm1
        -- the acknowledgements of the segment start with the one to the requester
        have hde : dataSends isAckB e = (rd.uid, ackFrame cfg m1.modId) :: rest := by
          rw [hout, dataSends_append] at hacks
          exact List.append_cancel_left hacks
        have hak := acksOf_map e
        rw [hde] at hak
        cases hae : acksOf e with
        | nil => rw [hae] at hak; simp at hak
        | cons p ps =>
          rw [hae] at hak
          simp only [List.map_cons, List.cons.injEq, Prod.mk.injEq] at hak
          have hdest : p.2.2.dest = m1.modId := by rw [hak.1.2]; rfl
          have hfalse : a.failing rd.uid = false := by
            rw [failing_eq hS.fail]
            have : failOf y rd.uid = none := hfl
            rw [this]; rfl
          obtain ⟨r1, r2, r3⟩ := reqOf_setAll (cfg := cfg) am m hte.2.2.1 rd.h (afterRead cfg y rd).buf nm
          obtain ⟨nm', hnm'⟩ := reqOf_name (cfg := cfg) am m rd.h (afterRead cfg y rd).buf nm hnm
          unfold connF
          rw [hbuf]
          simp only [hfalse, Bool.and_false, Bool.false_eq_true, if_false, hnm', List.isEmpty_cons, Bool.not_false, if_true,
            List.head?_cons]
          by_cases hz : ((reqOf cfg am rd.h (afterRead cfg y rd).buf).modId != 0) = true
          · simp only [hz, if_true]
            have hne : (setAll cfg (afterRead cfg y rd).buf rd.h nm m).modId ≠ 0 := by rw [← r1]; simpa using hz
            exact ⟨hte.1.trans hu1.symm, by show (reqOf cfg am rd.h _).modId = _; rw [r1, hmod hne],
              by show (reqOf cfg am rd.h _).pid = _; rw [r2, hp1], by show true = _; rw [hc1],
              by show (reqOf cfg am rd.h _).isLogger = _; rw [r3, hlg1]⟩
          · simp only [hz, Bool.false_eq_true, if_false]
            exact ⟨hte.1.trans hu1.symm, hdest, by show (reqOf cfg am rd.h _).pid = _; rw [r2, hp1], by show true = _; rw [hc1],
              by show (reqOf cfg am rd.h _).isLogger = _; rw [r3, hlg1]⟩
    · have hc' : (rd.h.mtype == cfg.mtConnect || rd.h.mtype == cfg.mtConnectV2) = false := by simpa using hc
      simp only [hc', Bool.false_eq_true, if_false]
      by_cases hd : (rd.h.mtype == cfg.mtDisconnect) = true
      · exfalso
        unfold processMessage at hm1
        simp only [hc', Bool.false_eq_true, if_false, hd, if_true] at hm1
        rw [hg] at hm1; cases hm1
      · have hd' : (rd.h.mtype == cfg.mtDisconnect) = false := by simpa using hd
        simp only [hd', Bool.false_eq_true, if_false]
        by_cases hs : (rd.h.mtype == cfg.mtSubscribe || rd.h.mtype == cfg.mtResume || rd.h.mtype == cfg.mtUnsubscribe ||
            rd.h.mtype == cfg.mtPause) = true
        · simp only [hs, if_true]
          have hs1 : (rd.h.mtype == cfg.mtSubscribe || rd.h.mtype == cfg.mtResume) = true ∨
              (rd.h.mtype == cfg.mtUnsubscribe || rd.h.mtype == cfg.mtPause) = true := by
            simp only [Bool.or_eq_true] at hs ⊢
            rcases hs with ((h | h) | h) | h
            · exact Or.inl (Or.inl h)
            · exact Or.inl (Or.inr h)
            · exact Or.inr (Or.inl h)
            · exact Or.inr (Or.inr h)
          have hk : KeepRec m m1 := by
            unfold processMessage at hm1
            simp only [hc', Bool.false_eq_true, if_false, hd'] at hm1
            by_cases h2 : (rd.h.mtype == cfg.mtSubscribe || rd.h.mtype == cfg.mtResume) = true
            · simp only [h2, if_true] at hm1
              obtain ⟨m0, hm00, hk⟩ := ((addSub_rk cfg (fun _ => false) _ rd.uid _).trans (sendAck_rk cfg _ _ rd.uid)) rd.uid m1 rfl hm1
              rw [hm0] at hm00; cases hm00; exact hk
            · have h1 : (rd.h.mtype == cfg.mtUnsubscribe || rd.h.mtype == cfg.mtPause) = true := by
                rcases hs1 with h | h
                · exact absurd h h2
                · exact h
              simp only [h2, Bool.false_eq_true, if_false, h1, if_true] at hm1
              obtain ⟨m0, hm00, hk⟩ := ((removeSub_rk cfg (fun _ => false) _ rd.uid _).trans (sendAck_rk cfg _ _ rd.uid)) rd.uid m1 rfl hm1
              rw [hm0] at hm00; cases hm00; exact hk
          exact tabEq_keep hte hk hcl1 hu1 (subF_tab _ _ _ am)
        · have hs' : (rd.h.mtype == cfg.mtSubscribe || rd.h.mtype == cfg.mtResume || rd.h.mtype == cfg.mtUnsubscribe ||
              rd.h.mtype == cfg.mtPause) = false := by simpa using hs
          simp only [hs', Bool.false_eq_true, if_false]
          have hs2 : (rd.h.mtype == cfg.mtSubscribe || rd.h.mtype == cfg.mtResume) = false ∧
              (rd.h.mtype == cfg.mtUnsubscribe || rd.h.mtype == cfg.mtPause) = false := by
            simp only [Bool.or_eq_false_iff] at hs' ⊢
            exact ⟨⟨hs'.1.1.1, hs'.1.1.2⟩, ⟨hs'.1.2, hs'.2⟩⟩
          unfold processMessage at hm1
          simp only [hc', Bool.false_eq_true, if_false, hd', hs2.1, hs2.2] at hm1
          by_cases hn : (rd.h.mtype == cfg.mtSetName) = true
          · simp only [hn, if_true] at hm1 ⊢
            rw [hbuf]
            cases hcs : cstr (afterRead cfg y rd).buf 0 32 with
            | none =>
              exfalso
              simp only [hcs] at hm1
              rw [removeModule_gone] at hm1; cases hm1
            | some nm =>
              simp only [hcs] at hm1 ⊢
              obtain ⟨m0, hm00, hk⟩ := (((rkp_upd (fun _ => false) (afterRead cfg y rd) rd.uid (fun m => { m with name := nm })
                (fun _ => rfl) (fun m => ⟨rfl, fun h => ⟨h, rfl⟩⟩)).trans (logTop_rk cfg _ 20 _)).trans (infoOf_rk cfg _ _ _)) rd.uid m1 rfl hm1
              rw [hm0] at hm00; cases hm00
              exact tabEq_keep hte hk hcl1 hu1 ⟨rfl, rfl, rfl, rfl, rfl⟩
          · have hn' : (rd.h.mtype == cfg.mtSetName) = false := by simpa using hn
            simp only [hn', Bool.false_eq_true, if_false] at hm1 ⊢
            by_cases hr : (rd.h.mtype == cfg.mtModuleReady) = true
            · simp only [hr, if_true] at hm1 ⊢
              have hfu := find_upd_self (afterRead cfg y rd) rd.uid (fun m => { m with pid := bufI32 (afterRead cfg y rd).buf 0 })
                (fun _ => rfl) hm0
              obtain ⟨m0, hm00, hk⟩ := sendInfo_rk cfg (fun _ => false) _ rd.uid rd.uid m1 rfl hm1
              rw [hfu] at hm00; cases hm00
              have ht := hk.1
              simp only [Module.tabv, Prod.mk.injEq] at ht
              rw [hbuf]
              exact ⟨hte.1.trans hu1.symm, by show am.modId = _; rw [hte.2.1, ht.1], by show bufI32 _ 0 = _; rw [ht.2.1],
                by show am.connected = _; rw [hte.2.2.2.1, (hk.2 hcl1).2], by show am.isLogger = _; rw [hte.2.2.2.2, ht.2.2]⟩
            · have hr' : (rd.h.mtype == cfg.mtModuleReady) = false := by simpa using hr
              simp only [hr', Bool.false_eq_true, if_false] at hm1 ⊢
              obtain ⟨m0, hm00, hk⟩ := ((logTop_rk cfg (fun _ => false) 10 (afterRead cfg y rd)).trans (fwdTop_rk cfg _ _ _)) rd.uid m1 rfl hm1
              rw [hm0] at hm00; cases hm00
              exact tabEq_keep hte hk hcl1 hu1 ⟨rfl, rfl, rfl, rfl, rfl⟩

omit ok hfuel in
theorem readOne_ikrx {y : State} (hc : y.crashed = none) (rd : Read) (m : Module) (hm : y.find rd.uid = some m) :
    IKRX rd.uid (afterRead cfg y rd) (readOne cfg y rd) := by
  rw [readOne_eq cfg y rd hc m hm]
  show IKRX rd.uid (afterRead cfg y rd)
      (if readBroken cfg rd then logAt cfg (fwdTop cfg) _ (removeModule cfg (fwdTop cfg) (afterRead cfg y rd) rd.uid)
       else processMessage cfg (afterRead cfg y rd) rd.uid rd.h)
  split
  · exact (removeTop_ikr cfg _ _ rd.uid).trans (logTop_ikr cfg _ _ _)
  · exact process_ikrx cfg _ _ _

/-- **the subscriptions of the connection a frame was read from**: what `segF` records is what the model's table and
    index hold afterwards (if the connection is still in the table) -/
theorem read_own_sub {y : State} {a : A} (hI : MInv cfg y) (hS : Sim cfg y a) (rd : Read) (m : Module)
    (hm : y.find rd.uid = some m) (am : AMod) (hu : am.uid = rd.uid) (hse : SubEq cfg y am m) (fl : Bool)
    (acks : List (Nat × Nat × Frame)) (m1 : Module) (hm1 : (readOne cfg y rd).find rd.uid = some m1) :
    SubEq cfg (readOne cfg y rd) (segF cfg (bufAfter cfg a.buf rd) fl rd am acks am) m1 := by
  have hI1 := minv_readOne ok hfuel hI rd
  have hcl1 : m1.closed = false := hI1.top.aopen rd.uid m1 hm1
  have hm0 : (afterRead cfg y rd).find rd.uid = some m := hm
  have hse0 : SubEq cfg (afterRead cfg y rd) am m := ⟨hse.all, hse.idxA, hse.idxT⟩
  have hbuf : bufAfter cfg a.buf rd = (afterRead cfg y rd).buf := by rw [hS.buf]; rfl
  have he : readOne cfg y rd =
      (if readBroken cfg rd then
        logAt cfg (fwdTop cfg) (if rd.hdrErr || (!(!rd.hdrOk || rd.h.nbytes < 0 || rd.h.nbytes > cfg.bufMax) && rd.payErr) then 40 else 30)
          (removeModule cfg (fwdTop cfg) (afterRead cfg y rd) rd.uid)
       else processMessage cfg (afterRead cfg y rd) rd.uid rd.h) := readOne_eq cfg y rd hI.top.good.ok m hm
  have hg : ∀ (lvl : Nat) (s0 : State), (logAt cfg (fwdTop cfg) lvl (removeModule cfg (fwdTop cfg) s0 rd.uid)).find rd.uid = none :=
    fun lvl s0 => rkp_gone (logTop_rk cfg (fun _ => false) lvl _) (u := rd.uid) rfl (removeModule_gone cfg (fwdTop cfg) s0 rd.uid)
  by_cases hb : readBroken cfg rd = true
  · exfalso
    rw [he] at hm1
    simp only [hb, if_true] at hm1
    rw [hg] at hm1; cases hm1
  · have hb' : readBroken cfg rd = false := by simpa using hb
    have he' : readOne cfg y rd = processMessage cfg (afterRead cfg y rd) rd.uid rd.h := by
      rw [he]; simp only [hb', Bool.false_eq_true, if_false]
    -- a frame that is no (un)subscribe request
    have generic : ((rd.h.mtype == cfg.mtConnect || rd.h.mtype == cfg.mtConnectV2) = true ∨ (rd.h.mtype == cfg.mtDisconnect) = true ∨
        ((rd.h.mtype == cfg.mtSubscribe || rd.h.mtype == cfg.mtResume) = false ∧
         (rd.h.mtype == cfg.mtUnsubscribe || rd.h.mtype == cfg.mtPause) = false)) →
        SubEq cfg (readOne cfg y rd) (segF cfg (bufAfter cfg a.buf rd) fl rd am acks am) m1 := by
      intro hns
      have hk := segF_keepsS cfg (bufAfter cfg a.buf rd) fl rd am acks hns am
      have hik : IKR (fun _ => false) (afterRead cfg y rd) (readOne cfg y rd) := by
        rw [he']; exact process_ikr_nosub cfg _ _ _ _ hns
      obtain ⟨⟨m0, hm00, _, hs⟩, hidx⟩ := hik rd.uid m1 rfl hm1 hcl1
      rw [hm0] at hm00; cases hm00
      exact subEq_keep hse0 hs (by rw [hu]; exact hidx) hk
    by_cases hc : (rd.h.mtype == cfg.mtConnect || rd.h.mtype == cfg.mtConnectV2) = true
    · exact generic (Or.inl hc)
    · have hc' : (rd.h.mtype == cfg.mtConnect || rd.h.mtype == cfg.mtConnectV2) = false := by simpa using hc
      by_cases hd : (rd.h.mtype == cfg.mtDisconnect) = true
      · exact generic (Or.inr (Or.inl hd))
      · have hd' : (rd.h.mtype == cfg.mtDisconnect) = false := by simpa using hd
        by_cases h1 : (rd.h.mtype == cfg.mtSubscribe || rd.h.mtype == cfg.mtResume) = true
        · -- a subscribe request
          have h4 : (rd.h.mtype == cfg.mtSubscribe || rd.h.mtype == cfg.mtResume || rd.h.mtype == cfg.mtUnsubscribe ||
              rd.h.mtype == cfg.mtPause) = true := by
            simp only [Bool.or_eq_true] at h1 ⊢
            rcases h1 with h | h
            · exact Or.inl (Or.inl (Or.inl h))
            · exact Or.inl (Or.inl (Or.inr h))
          have hseg : segF cfg (bufAfter cfg a.buf rd) fl rd am acks am = subF cfg (bufI32 (afterRead cfg y rd).buf 0) true am := by
            unfold segF subF
            simp only [hb', hc', hd', h4, h1, hbuf, Bool.false_eq_true, if_false, if_true, Bool.true_or]
          have hfin : readOne cfg y rd =
              sendAck cfg (addSub cfg (afterRead cfg y rd) rd.uid (bufI32 (afterRead cfg y rd).buf 0)) rd.uid := by
            rw [he']; unfold processMessage
            simp only [hc', hd', h1, Bool.false_eq_true, if_false, if_true]
          obtain ⟨m', hf', _, hse'⟩ := addSubCore_subEq cfg (afterRead cfg y rd) rd.uid m hm0 am hu hse0 (bufI32 (afterRead cfg y rd).buf 0)
          have hik : IKR (fun _ => false) (addSubCore cfg (afterRead cfg y rd) rd.uid (bufI32 (afterRead cfg y rd).buf 0)) (readOne cfg y rd) := by
            rw [hfin]; unfold addSub
            split
            · exact (logTop_ikr cfg _ 10 _).trans (sendAck_ikr cfg _ _ _)
            · exact sendAck_ikr cfg _ _ _
          obtain ⟨⟨m0, hm00, _, hs⟩, hidx⟩ := hik rd.uid m1 rfl hm1 hcl1
          rw [hf'] at hm00; cases hm00
          rw [hseg]
          exact subEq_keep hse' hs (by rw [subF_uid, hu]; exact hidx) ⟨rfl, rfl, rfl⟩
        · have h1' : (rd.h.mtype == cfg.mtSubscribe || rd.h.mtype == cfg.mtResume) = false := by simpa using h1
          by_cases h2 : (rd.h.mtype == cfg.mtUnsubscribe || rd.h.mtype == cfg.mtPause) = true
          · -- an unsubscribe request
            have h4 : (rd.h.mtype == cfg.mtSubscribe || rd.h.mtype == cfg.mtResume || rd.h.mtype == cfg.mtUnsubscribe ||
                rd.h.mtype == cfg.mtPause) = true := by
              simp only [Bool.or_eq_true] at h2 ⊢
              rcases h2 with h | h
              · exact Or.inl (Or.inr h)
              · exact Or.inr h
            have hseg : segF cfg (bufAfter cfg a.buf rd) fl rd am acks am = subF cfg (bufI32 (afterRead cfg y rd).buf 0) false am := by
              unfold segF subF
              simp only [hb', hc', hd', h4, h1', h2, hbuf, Bool.false_eq_true, if_false, if_true, Bool.false_or]
            have hfin : readOne cfg y rd =
                sendAck cfg (removeSub cfg (afterRead cfg y rd) rd.uid (bufI32 (afterRead cfg y rd).buf 0)) rd.uid := by
              rw [he']; unfold processMessage
              simp only [hc', hd', h1', h2, Bool.false_eq_true, if_false, if_true]
            obtain ⟨m', hf', _, hse'⟩ := removeSubCore_subEq cfg (afterRead cfg y rd) rd.uid m hm0 am hu hse0 (bufI32 (afterRead cfg y rd).buf 0)
            have hik : IKR (fun _ => false) (removeSubCore cfg (afterRead cfg y rd) rd.uid (bufI32 (afterRead cfg y rd).buf 0)) (readOne cfg y rd) := by
              rw [hfin]; unfold removeSub
              split
              · exact (logTop_ikr cfg _ 10 _).trans (sendAck_ikr cfg _ _ _)
              · exact sendAck_ikr cfg _ _ _
            obtain ⟨⟨m0, hm00, _, hs⟩, hidx⟩ := hik rd.uid m1 rfl hm1 hcl1
            rw [hf'] at hm00; cases hm00
            rw [hseg]
            exact subEq_keep hse' hs (by rw [subF_uid, hu]; exact hidx) ⟨rfl, rfl, rfl⟩
          · have h2' : (rd.h.mtype == cfg.mtUnsubscribe || rd.h.mtype == cfg.mtPause) = false := by simpa using h2
            exact generic (Or.inr (Or.inr ⟨h1', h2'⟩))

/-- **one frame read keeps the simulation**: the abstract state after `segX` and the departures of the segment's own
    events corresponds to the model state after `readOne` -/
theorem read_sim {y : State} {a : A} (hI : MInv cfg y) (hS : Sim cfg y a) (rd : Read) (m : Module)
    (hm : y.find rd.uid = some m) (h0 : rd.uid ≠ 0) (hW : WL y a) :
    ∃ e am, (readOne cfg y rd).out = y.out ++ .rd rd.uid :: e ∧ NoRd e ∧ a.get rd.uid = some am ∧ am.alive = true ∧
      Sim cfg (readOne cfg y rd) (applyDepartures (segX cfg a rd am (acksOf e)) e) ∧
      WL (readOne cfg y rd) (applyDepartures (segX cfg a rd am (acksOf e)) e) := by
  obtain ⟨e, hE⟩ := readOne_events hI.k hI.top.good.ok rd m hm
  obtain ⟨mk, hA, hcli⟩ := readOne_marks ok hfuel hI rd m hm
  have hbound : rd.uid ≤ y.nextUid := by
    have := hI.k.bound m (mem_of_find hm); rw [find_uid hm] at this; exact this
  obtain ⟨am, hget, hmem, huid⟩ := sim_get hS (by omega) hbound
  have hopen : isOpen y rd.uid = true := by rw [isOpen_iff_find hI.top, hm]; rfl
  have halive : am.alive = true := by rw [hS.alive am hmem, huid]; exact hopen
  refine ⟨e, am, by rw [hE.out]; simp [afterRead, State.emit], hE.nord, hget, halive, ?_, ?_⟩
  rotate_left
  · refine wl_step hW hE.wlist (by rw [applyDepartures_eq]; rfl) (fun am' ham' hal => ?_)
    rw [applyDepartures_eq] at ham'
    have hx := alive_of_dep ham' hal
    unfold segX at hx
    obtain ⟨x0, hx0, rfl⟩ := List.mem_map.mp hx
    refine ⟨x0, hx0, ?_, ?_⟩
    · split
      · exact (segF_keep ..).1.symm
      · rfl
    · split at hal
      · rw [(segF_keep ..).2] at hal; exact hal
      · exact hal
  rw [applyDepartures_eq]
  refine ⟨hS.now.trans hA.now.symm, hS.tT.trans hA.tT.symm, hS.tR.trans hA.tR.symm, hS.tI.trans hA.tI.symm,
    hS.seq.trans hA.seq.symm, hS.nacc.trans hE.nuid.symm, ?_, ?_, hS.fail.trans hE.fail.symm, ?_, ?_, ?_, ?_,
    zero_step (y := afterRead cfg y rd) hS.zero (readOne_rkx hI.top.good.ok rd m hm) (by simpa using Ne.symm h0)
      (minv_readOne ok hfuel hI rd).k.distinct, ?_⟩
  rotate_left 4
  · show bufAfter cfg a.buf rd = _
    rw [hA.buf, hS.buf]; rfl
  · -- the table entries
    have hI1 := minv_readOne ok hfuel hI rd
    obtain ⟨am0, ham0, hte0⟩ := hS.tab m (mem_of_find hm) (by rw [find_uid hm]; exact h0)
    have hame : am0 = am := sim_unique hS ham0 hmem (hte0.1.trans ((find_uid hm).trans huid.symm))
    subst hame
    intro m1 hm1 h01
    show ∃ am1 ∈ depMods (segX cfg a rd am0 (acksOf e)).mods (closes e), TabEq am1 m1
    by_cases hu : m1.uid = rd.uid
    · have hf1 : (readOne cfg y rd).find rd.uid = some m1 := by rw [← hu]; exact find_of_mem hI1.k.distinct hm1
      have hown := read_own ok hfuel hI hS rd m hm am0 hte0 e hE.out m1 hf1
      refine ⟨_, mem_depMods_of_open (List.mem_map.mpr ⟨am0, hmem, by simp [huid]⟩) ?_, hown⟩
      rw [(segF_keep ..).1, huid]
      cases hq : (closes e).contains rd.uid with
      | false => rfl
      | true =>
        have := (mem_closes_iff e rd.uid).mp hq
        have hc := hE.cons rd.uid
        have hop : isOpen (readOne cfg y rd) rd.uid = true := isOpen_of_find hf1 (hI1.top.aopen rd.uid m1 hf1)
        unfold openN at hc
        rw [hop] at hc
        cases h5 : isOpen (afterRead cfg y rd) rd.uid <;> simp [h5] at hc <;> omega
    · refine tab_step (p := fun v => v == rd.uid) (y := afterRead cfg y rd) ?_ (readOne_rkx hI.top.good.ok rd m hm) hE.cons
        hI1.k.distinct hI1.top.aopen m1 hm1 h01 (by simpa using hu)
      intro m2 hm2 h02 hp2
      obtain ⟨am2, ham2, hte2⟩ := hS.tab m2 hm2 h02
      have hne : (am2.uid == rd.uid) = false := by rw [hte2.1]; exact hp2
      exact ⟨am2, List.mem_map.mpr ⟨am2, ham2, by simp [hne]⟩, hte2⟩
  · -- the subscriptions
    have hI1 := minv_readOne ok hfuel hI rd
    show SubP cfg _ (depMods (segX cfg a rd am (acksOf e)).mods (closes e))
    intro am1 ham1
    refine sub_step (y := readOne cfg y rd) (p := fun _ => false) ?_ (IKR.refl _ _) hI1.top.aopen am1 ham1 rfl
    intro x1 hx1 _ m1 hm1
    unfold segX at hx1
    obtain ⟨x0, hx0, rfl⟩ := List.mem_map.mp hx1
    by_cases hu0 : (x0.uid == rd.uid) = true
    · simp only [hu0, if_true] at hm1 ⊢
      have hx0u : x0.uid = rd.uid := by simpa using hu0
      have : x0 = am := sim_unique hS hx0 hmem (hx0u.trans huid.symm)
      subst this
      rw [(segF_keep ..).1, hx0u] at hm1
      exact read_own_sub ok hfuel hI hS rd m hm x0 hx0u (hS.subs x0 hx0 m (by rw [hx0u]; exact hm)) _ _ m1 hm1
    · have hu0' : (x0.uid == rd.uid) = false := by simpa using hu0
      simp only [hu0', Bool.false_eq_true, if_false] at hm1 ⊢
      obtain ⟨⟨m0, hm00, _, hs⟩, hidx⟩ := readOne_ikrx hI.top.good.ok rd m hm x0.uid m1 hu0' hm1 (hI1.top.aopen _ _ hm1)
      exact subEq_keep (hS.subs x0 hx0 m0 hm00) hs hidx ⟨rfl, rfl, rfl⟩
  · show (depMods (segX cfg a rd am (acksOf e)).mods (closes e)).map (·.uid) = _
    rw [depMods_uids, segX_uids, hS.uids, hE.nuid]; rfl
  · refine alive_step (y := afterRead cfg y rd) ?_ hE.cons
    intro x hx
    unfold segX at hx
    obtain ⟨x0, hx0, rfl⟩ := List.mem_map.mp hx
    have := hS.alive x0 hx0
    split
    · rw [(segF_keep ..).1, (segF_keep ..).2]; exact this
    · exact this
  · show segPub cfg rd a.pubT = _
    rw [hA.hist, sinceTick_marks hA.marks _ (by intro t b e; cases e), cliMarks_append, tallyOn_append]
    have : (afterRead cfg y rd).hist = y.hist := rfl
    rw [this, ← hS.pubT, hcli]
    unfold segPub
    split <;> rfl
  · show segPub cfg rd a.pubR = _
    rw [hA.hist, sinceTick_marks hA.marks _ (by intro t b e; cases e), cliMarks_append, tallyOn_append]
    have : (afterRead cfg y rd).hist = y.hist := rfl
    rw [this, ← hS.pubR, hcli]
    unfold segPub
    split <;> rfl

omit ok hfuel in
/-- an operation that handles manager-originated frames only keeps the simulation once its departures are applied -/
theorem sim_step {y y' : State} {a : A} {e : List Ev} {mk : List Mark} {P : Int → Bool} (hE : EvE y y' e)
    (hA : AccE cfg P y y' mk) (hcli : cliMarks cfg mk = []) (hrk : RK y y') (hik : IKR (fun _ => false) y y')
    (hd' : UidsDistinct y') (hao : AllOpen y')
    (hS : Sim cfg y a) : Sim cfg y' (applyDepartures a e) := by
  rw [applyDepartures_eq]
  refine ⟨hS.now.trans hA.now.symm, hS.tT.trans hA.tT.symm, hS.tR.trans hA.tR.symm, hS.tI.trans hA.tI.symm,
    hS.seq.trans hA.seq.symm, hS.nacc.trans hE.nuid.symm, ?_, alive_step hS.alive hE.cons, hS.fail.trans hE.fail.symm, ?_, ?_,
    hS.buf.trans hA.buf.symm,
    fun m' hm' h0 => tab_step (p := fun _ => false) (fun m hm h0 _ => hS.tab m hm h0) hrk hE.cons hd' hao m' hm' h0 rfl,
    zero_step hS.zero hrk rfl hd',
    fun am' ham' => sub_step (p := fun _ => false) (fun am ham _ => hS.subs am ham) hik hao am' ham' rfl⟩
  · show (depMods a.mods (closes e)).map (·.uid) = _
    rw [depMods_uids, hS.uids, hE.nuid]
  · show a.pubT = _
    rw [hA.hist, sinceTick_marks hA.marks _ (by intro t b e; cases e), cliMarks_append, hcli]; exact hS.pubT
  · show a.pubR = _
    rw [hA.hist, sinceTick_marks hA.marks _ (by intro t b e; cases e), cliMarks_append, hcli]; exact hS.pubR

/-- accepting a connection: the log line (it may cost failing connections their place), then the new table entry -/
theorem accept_sim {y : State} {a : A} (hI : MInv cfg y) (hS : Sim cfg y a) :
    ∃ pre, (acceptStep cfg y).out = y.out ++ pre ∧ NoRd pre ∧ MInv cfg (acceptStep cfg y) ∧
      Sim cfg (acceptStep cfg y)
        (applyDepartures { a with nAccepted := a.nAccepted + 1, mods := a.mods ++ [{ uid := a.nAccepted + 1 }] } pre) := by
  have hIa : MInv cfg (acceptStep cfg y) :=
    ⟨top_accept ok hfuel hI.top, accept_K cfg hI.k, statInv_same (statInv_acc hI.stat (accept_macc cfg y)) rfl rfl rfl rfl⟩
  obtain ⟨pre, hE⟩ := logTop_ev cfg 20 hI.k.distinct
  obtain ⟨mk, hA⟩ := logAt_macc cfg 20 y
  have hTl := top_log ok hfuel hI.top 20
  have hS1 := sim_step hE hA (cliMarks_mgr cfg hA.marks) (logTop_rk cfg _ 20 y) (logTop_ikr cfg _ 20 y) (hE.distinct hI.k.distinct) hTl.aopen hS
  generalize hyl : logAt cfg (fwdTop cfg) 20 y = yl at hE hA hS1
  have hacc : acceptStep cfg y = { yl with nextUid := yl.nextUid + 1, mods := yl.mods ++ [{ uid := yl.nextUid + 1 }] } := by
    unfold acceptStep; rw [hyl]
  refine ⟨pre, by rw [hacc]; exact hE.out, hE.nord, hIa, ?_⟩
  rw [hacc]
  -- the new uid is not among the departures of the log line
  have hnew : (closes pre).contains (a.nAccepted + 1) = false := by
    cases hq : (closes pre).contains (a.nAccepted + 1) with
    | false => rfl
    | true =>
      have hpos := (mem_closes_iff pre _).mp hq
      have hc := hE.cons (a.nAccepted + 1)
      have hno : isOpen y (a.nAccepted + 1) = false := by
        cases ho : isOpen y (a.nAccepted + 1) with
        | false => rfl
        | true =>
          unfold isOpen at ho
          rw [List.any_eq_true] at ho
          obtain ⟨x, hx, hp⟩ := ho
          simp only [Bool.and_eq_true, beq_iff_eq] at hp
          have := hI.k.bound x hx
          rw [hS.nacc] at hp; omega
      unfold openN at hc
      rw [hno] at hc
      simp at hc; omega
  rw [applyDepartures_eq] at hS1 ⊢
  have hdm : depMods (a.mods ++ [({ uid := a.nAccepted + 1 } : AMod)]) (closes pre) =
      depMods a.mods (closes pre) ++ [({ uid := a.nAccepted + 1 } : AMod)] := by
    rw [depMods_eq_map, depMods_eq_map, List.map_append]
    have hnew' : a.nAccepted + 1 ∉ closes pre := by simpa using hnew
    simp [hnew']
  have hn1 : yl.nextUid = a.nAccepted := hS1.nacc.symm
  refine ⟨hS1.now, hS1.tT, hS1.tR, hS1.tI, hS1.seq, by show a.nAccepted + 1 = yl.nextUid + 1; rw [hn1], ?_, ?_, hS1.fail, hS1.pubT, hS1.pubR,
    hS1.buf, ?_, ?_, ?_⟩
  rotate_left 2
  · intro m hm h0
    have hm' : m ∈ yl.mods ++ [({ uid := yl.nextUid + 1 } : Module)] := hm
    show ∃ am ∈ depMods (a.mods ++ [({ uid := a.nAccepted + 1 } : AMod)]) (closes pre), TabEq am m
    rw [hdm]
    rcases List.mem_append.mp hm' with h1 | h1
    · obtain ⟨am, ham, hte⟩ := hS1.tab m h1 h0
      exact ⟨am, List.mem_append.mpr (Or.inl ham), hte⟩
    · simp at h1; subst h1
      exact ⟨{ uid := a.nAccepted + 1 }, by simp, by show a.nAccepted + 1 = yl.nextUid + 1; rw [hn1], rfl, rfl, rfl, rfl⟩
  · intro m hm h0
    have hm' : m ∈ yl.mods ++ [({ uid := yl.nextUid + 1 } : Module)] := hm
    rcases List.mem_append.mp hm' with h1 | h1
    · exact hS1.zero m h1 h0
    · simp at h1; subst h1; rfl
  · -- the subscriptions: the new entry has none
    have hd2 : UidsDistinct ({ yl with nextUid := yl.nextUid + 1, mods := yl.mods ++ [{ uid := yl.nextUid + 1 }] } : State) := by
      rw [← hacc]; exact hIa.k.distinct
    have hdl : UidsDistinct yl := hE.distinct hI.k.distinct
    intro am ham m hm
    have ham' : am ∈ depMods a.mods (closes pre) ++ [({ uid := a.nAccepted + 1 } : AMod)] := by rw [← hdm]; exact ham
    have hmm : m ∈ yl.mods ++ [({ uid := yl.nextUid + 1 } : Module)] := mem_of_find hm
    have hmu : m.uid = am.uid := find_uid hm
    rcases List.mem_append.mp ham' with h1 | h1
    · have hle : am.uid ≤ yl.nextUid := by
        have hu : am.uid ∈ (depMods a.mods (closes pre)).map (·.uid) := List.mem_map.mpr ⟨am, h1, rfl⟩
        have := hS1.uids
        simp only at this
        rw [this] at hu
        obtain ⟨i, hi, he⟩ := List.mem_map.mp hu
        simp at hi; omega
      rcases List.mem_append.mp hmm with h2 | h2
      · have hf : yl.find am.uid = some m := by rw [← hmu]; exact find_of_mem hdl h2
        have := hS1.subs am h1 m hf
        exact ⟨this.all, this.idxA, this.idxT⟩
      · simp at h2; subst h2
        exfalso
        have : yl.nextUid + 1 = am.uid := hmu
        omega
    · simp at h1; subst h1
      have hnew : ({ uid := yl.nextUid + 1 } : Module) ∈ yl.mods ++ [({ uid := yl.nextUid + 1 } : Module)] := by simp
      have hfn := find_of_mem hd2 hnew
      have hm' : ({ yl with nextUid := yl.nextUid + 1, mods := yl.mods ++ [{ uid := yl.nextUid + 1 }] } : State).find (yl.nextUid + 1) = some m := by
        have hm2 := hm
        simp only [hn1.symm] at hm2 ⊢
        exact hm2
      have : m = ({ uid := yl.nextUid + 1 } : Module) := by
        have := hm'.symm.trans hfn
        exact Option.some.inj this
      subst this
      exact ⟨rfl, fun h => (by cases h), fun _ h => (by cases h)⟩
  · show (depMods (a.mods ++ [({ uid := a.nAccepted + 1 } : AMod)]) (closes pre)).map (·.uid) = (List.range (yl.nextUid + 1)).map (· + 1)
    rw [hdm, List.map_append, List.range_succ, List.map_append]
    have := hS1.uids
    simp only at this
    rw [this, hn1]; rfl
  · intro am ham
    have ham' : am ∈ depMods a.mods (closes pre) ++ [({ uid := a.nAccepted + 1 } : AMod)] := by rw [← hdm]; exact ham
    have hop : ∀ v, isOpen ({ yl with nextUid := yl.nextUid + 1, mods := yl.mods ++ [{ uid := yl.nextUid + 1 }] } : State) v =
        (isOpen yl v || v == yl.nextUid + 1) := by
      intro v
      unfold isOpen
      simp only [List.any_append, List.any_cons, List.any_nil, Bool.or_false, Bool.not_false, Bool.and_true]
      congr 1
      exact Bool.eq_iff_iff.mpr ⟨fun h => by simpa using Eq.symm (by simpa using h), fun h => by simpa using Eq.symm (by simpa using h)⟩
    rw [hop]
    rcases List.mem_append.mp ham' with h1 | h1
    · have := hS1.alive am h1
      rw [this]
      have hne : (am.uid == yl.nextUid + 1) = false := by
        have hu : am.uid ∈ (depMods a.mods (closes pre)).map (·.uid) := List.mem_map.mpr ⟨am, h1, rfl⟩
        have := hS1.uids
        simp only at this
        rw [this] at hu
        obtain ⟨i, hi, he⟩ := List.mem_map.mp hu
        simp at hi ⊢; omega
      simp [hne]
    · simp at h1; subst h1
      simp [hn1]

/-- **all frames of a round**: the model's `readAll` and the Spec's `goCore` stay in step.  `segs` are the segments of the
    frames the model actually handled (those whose connection was still in the table at their turn), `T` whatever follows
    the last of them in the round's log (the periodic section) -/
theorem go_sim : ∀ (reads : List Read) {y : State} {a : A}, MInv cfg y → Sim cfg y a → WL y a → (∀ rd ∈ reads, rd.uid ≠ 0) →
    ∃ segs a', (readAll cfg reads y).out = y.out ++ flatSegs segs ∧ NoRdSegs segs ∧
      MInv cfg (readAll cfg reads y) ∧ Sim cfg (readAll cfg reads y) a' ∧ WL (readAll cfg reads y) a' ∧ a'.recvT = a.recvT ∧ a'.recvR = a.recvR ∧ a'.errs = a.errs ∧
      ∀ T, NoRd T → acksOf T = [] →
        goCore cfg (applyDepartures a (if segs = [] then T else [])) reads (addLast segs T) = applyDepartures a' T
  | [], y, a, hI, hS, hW, _ => by
    refine ⟨[], a, (by simp [readAll, flatSegs]), (fun _ h => by cases h), hI, hS, hW, rfl, rfl, rfl, fun T _ _ => ?_⟩
    simp [goCore]
  | rd :: rest, y, a, hI, hS, hW, h0 => by
    have h0' : ∀ r ∈ rest, r.uid ≠ 0 := fun r hr => h0 r (by simp [hr])
    unfold readAll
    cases hm : y.find rd.uid with
    | none =>
      have hy : readOne cfg y rd = y := by unfold readOne; simp [hm]
      rw [hy]
      obtain ⟨segs, a', ho, hn, hI', hS', hW', hrT, hrR, hrE, hgo⟩ := go_sim rest hI hS hW h0'
      refine ⟨segs, a', ho, hn, hI', hS', hW', hrT, hrR, hrE, fun T hT hA => ?_⟩
      rw [← hgo T hT hA]
      generalize (if segs = [] then T else []) = L
      conv => lhs; unfold goCore
      rw [get_dep]
      cases hg : a.get rd.uid with
      | none => rfl
      | some am =>
        have hmem : am ∈ a.mods := by unfold A.get at hg; exact List.mem_of_find?_eq_some hg
        have hu : am.uid = rd.uid := by unfold A.get at hg; simpa using List.find?_some hg
        have hdead : am.alive = false := by rw [hS.alive am hmem, hu]; exact isOpen_find_none hm
        simp only [Option.map_some]
        have : (if (closes L).contains am.uid = true then deadOf am else am).alive = false := by
          split
          · rfl
          · exact hdead
        simp only [this, Bool.not_false, if_true]
    | some m =>
      obtain ⟨e, am, ho1, hne, hget, halive, hS1, hW1⟩ := read_sim ok hfuel hI hS rd m hm (h0 rd (by simp)) hW
      have hI1 := minv_readOne ok hfuel hI rd
      obtain ⟨segs', a', ho, hn, hI', hS', hW', hrT, hrR, hrE, hgo⟩ := go_sim rest hI1 hS1 hW1 h0'
      refine ⟨(rd.uid, e) :: segs', a', ?_, ?_, hI', hS', hW', by rw [hrT, applyDepartures_eq]; rfl,
        by rw [hrR, applyDepartures_eq]; rfl, by rw [hrE, applyDepartures_eq]; rfl, fun T hT hA => ?_⟩
      · rw [ho, ho1]; simp [flatSegs]
      · intro p hp
        rcases List.mem_cons.mp hp with rfl | hp
        · exact hne
        · exact hn p hp
      · simp only [List.cons_ne_nil, if_false, dep_nil, addLast_cons]
        conv => lhs; unfold goCore
        simp only [hget, halive, Bool.not_true, Bool.false_eq_true, if_false, bne_self_eq_false]
        have hacks : acksOf (e ++ if segs' = [] then T else []) = acksOf e := by
          rw [acksOf_append]; split
          · rw [hA]; simp
          · simp [acksOf, sends]
        rw [hacks, dep_append]
        exact hgo T hT hA

/-! ## a whole round up to the periodic section -/

omit ok hfuel in
theorem sim_w {x : State} {a : A} (h : Sim cfg x a) (w : List Nat) : Sim cfg x { a with w := w } :=
  ⟨h.now, h.tT, h.tR, h.tI, h.seq, h.nacc, h.uids, h.alive, h.fail, h.pubT, h.pubR, h.buf, h.tab, h.zero, h.subs⟩

omit ok hfuel in
/-- the frames the Spec expects to be read are the frames the model reads -/
theorem roundReads_eq {x : State} {a : A} (hI : MInv cfg x) (hS : Sim cfg x a) (r : Round) (h0 : ∀ rd ∈ r.reads, rd.uid ≠ 0) :
    roundReads a r = r.reads.filter (fun rd => ((envStep x r).find rd.uid).isSome) := by
  unfold roundReads
  apply List.filter_congr
  intro rd hrd
  have hfind : (envStep x r).find rd.uid = x.find rd.uid := rfl
  rw [hfind, ← isOpen_iff_find hI.top]
  rw [Bool.eq_iff_iff]
  simp only [List.contains_eq_mem, List.mem_map, List.mem_filter, decide_eq_true_eq]
  constructor
  · rintro ⟨am, ⟨hmem, hal⟩, hu⟩
    rw [← hu, ← hS.alive am hmem]; exact hal
  · intro hop
    have hfs : (x.find rd.uid).isSome = true := by rw [← isOpen_iff_find hI.top]; exact hop
    obtain ⟨m, hm⟩ := Option.isSome_iff_exists.mp hfs
    have hb : rd.uid ≤ x.nextUid := by have := hI.k.bound m (mem_of_find hm); rw [find_uid hm] at this; exact this
    obtain ⟨am, _, hmem, hu⟩ := sim_get hS (Nat.pos_of_ne_zero (h0 rd hrd)) hb
    exact ⟨am, ⟨hmem, by rw [hS.alive am hmem, hu]; exact hop⟩, hu⟩

/-- **the I/O part of a round**: after the clock/environment step, the accept and all frames read, the model state
    corresponds to the abstract state `a'`, and `goCore` on the round's log (`T` = whatever the periodic section will
    append) yields `a'` with the departures of `T` -/
theorem pre_sim {x : State} {a : A} (hI : MInv cfg x) (hS : Sim cfg x a) (hW : WL x a) (hx : x.out = []) (hna : MgrNotAll cfg)
    (hord : OrderGood cfg) (r : Round) (h0 : ∀ rd ∈ r.reads, rd.uid ≠ 0) :
    ∃ preM segs a',
      (ioStep cfg (envStep x r) r.accept r.writable (r.reads.filter (fun rd => ((envStep x r).find rd.uid).isSome))).out =
        preM ++ flatSegs segs ∧ NoRd preM ∧ NoRdSegs segs ∧
      MInv cfg (ioStep cfg (envStep x r) r.accept r.writable (r.reads.filter (fun rd => ((envStep x r).find rd.uid).isSome))) ∧
      Sim cfg (ioStep cfg (envStep x r) r.accept r.writable (r.reads.filter (fun rd => ((envStep x r).find rd.uid).isSome))) a' ∧
      WL (ioStep cfg (envStep x r) r.accept r.writable (r.reads.filter (fun rd => ((envStep x r).find rd.uid).isSome))) a' ∧
      RB cfg (envStep x r) (ioStep cfg (envStep x r) r.accept r.writable (r.reads.filter (fun rd => ((envStep x r).find rd.uid).isSome))) zeroX ∧
      a'.recvT = a.recvT ∧ a'.recvR = a.recvR ∧ a'.errs = a.errs ∧
      ∀ T, NoRd T → acksOf T = [] →
        goCore cfg (applyDepartures (roundEnv a r) (preM ++ if segs = [] then T else [])) (roundReads a r) (addLast segs T) =
          applyDepartures a' T := by
  rw [roundReads_eq hI hS r h0]
  generalize hreads : r.reads.filter (fun rd => ((envStep x r).find rd.uid).isSome) = reads
  have h0' : ∀ rd ∈ reads, rd.uid ≠ 0 := fun rd hrd => h0 rd (by rw [← hreads] at hrd; exact (List.mem_filter.mp hrd).1)
  have hI1 : MInv cfg (envStep x r) := minv_same ok hfuel hI rfl rfl rfl rfl rfl rfl rfl rfl
  have hx1 : (envStep x r).out = [] := hx
  -- the abstract state after the clock / environment step
  have hS1 : Sim cfg (envStep x r) { a with now := a.now + r.dt, fail := (r.failSet.filter (·.1 ≤ a.nAccepted)).foldl (fun fl (p : Nat × Option FailMode) => setFail fl p.1 p.2) a.fail } := by
    refine ⟨?_, hS.tT, hS.tR, hS.tI, hS.seq, hS.nacc, hS.uids, hS.alive, ?_, hS.pubT, hS.pubR, hS.buf, hS.tab, hS.zero,
      fun am ham m hm => ⟨(hS.subs am ham m hm).all, (hS.subs am ham m hm).idxA, (hS.subs am ham m hm).idxT⟩⟩
    · show a.now + r.dt = x.now + r.dt; rw [hS.now]
    · show _ = (r.failSet.filter (·.1 ≤ x.nextUid)).foldl (fun fl p => setFail fl p.1 p.2) x.fail
      rw [hS.nacc, hS.fail]
  have hW1 : WL (envStep x r) { a with now := a.now + r.dt, fail := (r.failSet.filter (·.1 ≤ a.nAccepted)).foldl (fun fl (p : Nat × Option FailMode) => setFail fl p.1 p.2) a.fail } := hW
  generalize ha1 : ({ a with now := a.now + r.dt, fail := (r.failSet.filter (·.1 ≤ a.nAccepted)).foldl (fun fl (p : Nat × Option FailMode) => setFail fl p.1 p.2) a.fail } : A) = a1 at hS1 hW1
  have hr1T : a1.recvT = a.recvT := by subst ha1; rfl
  have hr1R : a1.recvR = a.recvR := by subst ha1; rfl
  have hr1E : a1.errs = a.errs := by subst ha1; rfl
  have hrE : roundEnv a r =
      (let a2 := if r.accept then { a1 with nAccepted := a1.nAccepted + 1, mods := a1.mods ++ [{ uid := a1.nAccepted + 1 }] } else a1
       if r.accept || !reads.isEmpty then
         { a2 with w := if reads.isEmpty then [] else r.writable.filter (((a2.mods.filter (·.alive)).map (·.uid)).contains ·) }
       else a2) := by
    have hrr := roundReads_eq hI hS r h0
    unfold roundReads at hrr
    unfold roundEnv
    simp only [hrr, hreads, ← ha1]
  rw [hrE]
  generalize hx1e : envStep x r = x1 at hI1 hx1 hS1 hW1
  unfold ioStep
  by_cases hC : (r.accept || !reads.isEmpty) = true
  · simp only [hC, if_true]
    -- the accept
    have hacc : ∃ preM, (if r.accept = true then acceptStep cfg x1 else x1).out = preM ∧ NoRd preM ∧
        MInv cfg (if r.accept = true then acceptStep cfg x1 else x1) ∧
        Sim cfg (if r.accept = true then acceptStep cfg x1 else x1)
          (applyDepartures (if r.accept = true then { a1 with nAccepted := a1.nAccepted + 1, mods := a1.mods ++ [{ uid := a1.nAccepted + 1 }] } else a1) preM) ∧
        RB cfg x1 (if r.accept = true then acceptStep cfg x1 else x1) zeroX := by
      by_cases hacc : r.accept = true
      · simp only [hacc, if_true]
        obtain ⟨pre, ho, hn, hIa, hSa⟩ := accept_sim ok hfuel hI1 hS1
        exact ⟨pre, by rw [ho, hx1]; rfl, hn, hIa, hSa, accept_rb ok hfuel hna hord hI1.top⟩
      · simp only [hacc, Bool.false_eq_true, if_false]
        exact ⟨[], hx1, NoRd.nil, hI1, by rw [dep_nil]; exact hS1, RB.refl x1⟩
    obtain ⟨preM, hoA, hnA, hIA, hSA, hrbA⟩ := hacc
    generalize hxA : (if r.accept = true then acceptStep cfg x1 else x1) = xA at hoA hIA hSA hrbA
    generalize ha2 : (if r.accept = true then ({ a1 with nAccepted := a1.nAccepted + 1, mods := a1.mods ++ [{ uid := a1.nAccepted + 1 }] } : A) else a1) = a2 at hSA
    have hr2T : a2.recvT = a1.recvT := by subst ha2; split <;> rfl
    have hr2R : a2.recvR = a1.recvR := by subst ha2; split <;> rfl
    have hr2E : a2.errs = a1.errs := by subst ha2; split <;> rfl
    -- the writable set
    generalize hw : (if reads.isEmpty = true then [] else List.filter (fun x => (List.map (fun x => x.uid) xA.mods).contains x) r.writable) = wl
    generalize hwa : (if reads.isEmpty = true then []
      else List.filter (fun x => (List.map (fun x => x.uid) (List.filter (fun x => x.alive) a2.mods)).contains x) r.writable) = wa
    have hIW : MInv cfg ({ xA with wlist := wl } : State) := minv_same ok hfuel hIA rfl rfl rfl rfl rfl rfl rfl rfl
    have hSW : Sim cfg ({ xA with wlist := wl } : State) (applyDepartures ({ a2 with w := wa } : A) preM) := by
      have e1 : applyDepartures ({ a2 with w := wa } : A) preM = { applyDepartures a2 preM with w := wa } := by
        rw [applyDepartures_eq, applyDepartures_eq]
      rw [e1]
      have := sim_w hSA wa
      exact ⟨this.now, this.tT, this.tR, this.tI, this.seq, this.nacc, this.uids, this.alive, this.fail, this.pubT, this.pubR,
        this.buf, this.tab, this.zero,
        fun am ham m hm => ⟨(this.subs am ham m hm).all, (this.subs am ham m hm).idxA, (this.subs am ham m hm).idxT⟩⟩
    -- the writable sets agree on the live connections
    have hWW : WL ({ xA with wlist := wl } : State) (applyDepartures ({ a2 with w := wa } : A) preM) := by
      intro am ham hal
      rw [applyDepartures_eq] at ham ⊢
      have ham2 : am ∈ a2.mods := alive_of_dep ham hal
      have hopen : isOpen xA am.uid = true := by
        have := hSA.alive am (by rw [applyDepartures_eq]; exact ham)
        rw [← this]; exact hal
      have hin : am.uid ∈ xA.mods.map (·.uid) := by
        unfold isOpen at hopen
        rw [List.any_eq_true] at hopen
        obtain ⟨q, hq, hp⟩ := hopen
        simp only [Bool.and_eq_true, beq_iff_eq] at hp
        exact List.mem_map.mpr ⟨q, hq, hp.1⟩
      have hin2 : am.uid ∈ (a2.mods.filter (·.alive)).map (·.uid) :=
        List.mem_map.mpr ⟨am, List.mem_filter.mpr ⟨ham2, hal⟩, rfl⟩
      show wa.contains am.uid = true ↔ am.uid ∈ wl
      rw [← hw, ← hwa]
      by_cases hre : reads.isEmpty = true
      · simp [hre]
      · simp only [hre, Bool.false_eq_true, if_false, List.contains_iff_mem, List.mem_filter]
        constructor
        · exact fun h => ⟨h.1, by simpa using hin⟩
        · exact fun h => ⟨h.1, by simpa using hin2⟩
    obtain ⟨segs, a', ho, hn, hI', hS', hW', hrT, hrR, hrE, hgo⟩ := go_sim ok hfuel reads hIW hSW hWW h0'
    refine ⟨preM, segs, a', by rw [ho]; show xA.out ++ _ = _; rw [hoA], hnA, hn, hI', hS', hW', ?_, ?_, ?_, ?_, fun T hT hA => ?_⟩
    · exact (hrbA.trans0 (rb_same (s' := { xA with wlist := wl }) rfl rfl rfl)).trans0 (readAll_rb ok hfuel hna hord reads hIW.top)
    · rw [hrT, applyDepartures_eq]; show a2.recvT = _; rw [hr2T, hr1T]
    · rw [hrR, applyDepartures_eq]; show a2.recvR = _; rw [hr2R, hr1R]
    · rw [hrE, applyDepartures_eq]; show a2.errs = _; rw [hr2E, hr1E]
    · rw [dep_append]; exact hgo T hT hA
  · have hC' : (r.accept || !reads.isEmpty) = false := by simpa using hC
    simp only [hC', Bool.false_eq_true, if_false]
    simp only [Bool.or_eq_false_iff, Bool.not_eq_false'] at hC'
    have hre : reads = [] := by cases reads with | nil => rfl | cons _ _ => simp at hC'
    simp only [hC'.1, Bool.false_eq_true, if_false]
    refine ⟨[], [], a1, by simp [flatSegs, hx1], NoRd.nil, (fun _ h => by cases h), hI1, hS1, hW1, RB.refl x1, hr1T, hr1R, hr1E, fun T _ _ => ?_⟩
    subst hre
    simp [goCore]

/-! ## the periodic section -/

omit ok hfuel in
/-- **the periodic section keeps the simulation**: `a7` is the abstract state before `Spec.tail` (the table already
    carries the departures of the section's events `T`, the receive tallies `rT`, `rR` are bounded with respect to the
    state `x2` before the section) -/
theorem tail_sim {x2 : State} {a' : A} (hidle : x2.inTraffic = false) (hS : Sim cfg x2 a') (hW : WL x2 a')
    (T : List Ev) (hE : EvE x2 (ticks cfg x2) T) (hd3 : UidsDistinct (ticks cfg x2)) (hao3 : AllOpen (ticks cfg x2))
    (rT rR : List ((Nat × Int) × Nat))
    (hrT : ∀ q ∈ rT, q.2 ≤ hmgr cfg (sinceTick .timingTick x2.hist) q.1.2)
    (hrR : ∀ q ∈ rR, q.2 ≤ hmgr cfg (sinceTick .trafficTick x2.hist) q.1.2) :
    Sim cfg (ticks cfg x2) (tailU cfg { a' with mods := depMods a'.mods (closes T), recvT := rT, recvR := rR }) ∧
    RecvOK cfg (ticks cfg x2) (tailU cfg { a' with mods := depMods a'.mods (closes T), recvT := rT, recvR := rR }) ∧
    WL (ticks cfg x2) (tailU cfg { a' with mods := depMods a'.mods (closes T), recvT := rT, recvR := rR }) := by
  obtain ⟨mk, hh, hmk, ht1, ht2, hnow, hbuf, hid, htT, htR, hseq, htI⟩ := ticks_acc cfg x2 hidle
  refine ⟨?_, ?_, ?_⟩
  rotate_left 2
  · obtain ⟨f1, f2, f3, f4, f5, f6, f7, f8, f9, f10, f11, f12, f13, f14, f15⟩ :=
      tailU_fields cfg { a' with mods := depMods a'.mods (closes T), recvT := rT, recvR := rR }
    refine wl_step hW hE.wlist (by rw [f6]) (fun am' ham' hal => ?_)
    rw [f2] at ham'
    exact ⟨am', alive_of_dep ham' hal, rfl, hal⟩
  · generalize ha7 : ({ a' with mods := depMods a'.mods (closes T), recvT := rT, recvR := rR } : A) = a7
    have f := tailU_fields cfg a7
    obtain ⟨f1, f2, f3, f4, f5, f6, f7, f8, f9, f10, f11, f12, f13, f14, f15⟩ := f
    have g1 : a7.now = x2.now := by subst ha7; exact hS.now
    have g2 : a7.tTiming = x2.tTiming := by subst ha7; exact hS.tT
    have g3 : a7.tTraffic = x2.tTraffic := by subst ha7; exact hS.tR
    have g4 : a7.tInfo = x2.tInfo := by subst ha7; exact hS.tI
    have g5 : a7.seq = x2.trafficSeq := by subst ha7; exact hS.seq
    refine ⟨by rw [f1, g1, hnow], by rw [f8, g1, g2, htT], by rw [f9, g1, g3, htR], by rw [f11, g1, g4, htI],
      by rw [f10, g1, g3, g5, hseq], ?_, ?_, ?_, ?_, ?_, ?_, ?_, ?_, zero_step hS.zero (ticks_rk cfg (fun _ => false) x2) rfl hd3, ?_⟩
    rotate_left 6
    · rw [f5, hbuf]; subst ha7; exact hS.buf
    · rw [f2]; subst ha7
      exact fun m' hm' h0 => tab_step (p := fun _ => false) (fun m hm h0 _ => hS.tab m hm h0) (ticks_rk cfg _ x2) hE.cons hd3 hao3 m' hm' h0 rfl
    · rw [f2]; subst ha7
      exact fun am' ham' => sub_step (p := fun _ => false) (fun am ham _ => hS.subs am ham) (ticks_ikr cfg _ x2) hao3 am' ham' rfl
    · rw [f3]; subst ha7; exact hS.nacc.trans hE.nuid.symm
    · rw [f2]; subst ha7
      show (depMods a'.mods (closes T)).map (·.uid) = _
      rw [depMods_uids, hS.uids, hE.nuid]
    · rw [f2]; subst ha7
      exact alive_step hS.alive hE.cons
    · rw [f4]; subst ha7; exact hS.fail.trans hE.fail.symm
    · rw [f12, hh, cli_since_ticks cfg hmk, g1, g2]
      have : a7.pubT = a'.pubT := by subst ha7; rfl
      rw [this, hS.pubT]
      by_cases h1 : (cfg.timing && decide (x2.now - x2.tTiming > cfg.pTiming)) = true
      · simp [h1, ht1.mpr h1, tallyOn]
      · have : Mark.timingTick ∉ mk := fun hc => h1 (ht1.mp hc)
        simp [h1, this]
    · rw [f14, hh, cli_since_ticks cfg hmk, g1, g3]
      have : a7.pubR = a'.pubR := by subst ha7; rfl
      rw [this, hS.pubR]
      by_cases h2 : x2.now - x2.tTraffic > cfg.pTraffic
      · simp [h2, ht2.mpr h2, tallyOn]
      · have : Mark.trafficTick ∉ mk := fun hc => h2 (ht2.mp hc)
        simp [h2, this]
  · generalize ha7 : ({ a' with mods := depMods a'.mods (closes T), recvT := rT, recvR := rR } : A) = a7
    obtain ⟨f1, f2, f3, f4, f5, f6, f7, f8, f9, f10, f11, f12, f13, f14, f15⟩ := tailU_fields cfg a7
    have g1 : a7.now = x2.now := by subst ha7; exact hS.now
    have g2 : a7.tTiming = x2.tTiming := by subst ha7; exact hS.tT
    have g3 : a7.tTraffic = x2.tTraffic := by subst ha7; exact hS.tR
    have g6 : a7.recvT = rT := by subst ha7; rfl
    have g7 : a7.recvR = rR := by subst ha7; rfl
    constructor
    · rw [f13, g1, g2, g6, hh]
      by_cases h1 : (cfg.timing && decide (x2.now - x2.tTiming > cfg.pTiming)) = true
      · simp [h1]
      · simp only [h1, Bool.false_eq_true, if_false]
        have hn : Mark.timingTick ∉ mk := fun hc => h1 (ht1.mp hc)
        intro q hq
        refine Nat.le_trans (hrT q hq) ?_
        rw [sinceTick_append_notin _ mk _ hn, hmgr_append]; omega
    · rw [f15, g1, g3, g7, hh]
      by_cases h2 : x2.now - x2.tTraffic > cfg.pTraffic
      · simp [h2]
      · simp only [h2, if_false]
        have hn : Mark.trafficTick ∉ mk := fun hc => h2 (ht2.mp hc)
        intro q hq
        refine Nat.le_trans (hrR q hq) ?_
        rw [sinceTick_append_notin _ mk _ hn, hmgr_append]; omega

/-! ## one whole round -/

omit ok hfuel in
theorem sim_of_noErr {x : State} {a b : A} (h : b.noErr = a.noErr) (hs : Sim cfg x a) : Sim cfg x b := by
  rw [eq_of_noErr h]
  exact ⟨hs.now, hs.tT, hs.tR, hs.tI, hs.seq, hs.nacc, hs.uids, hs.alive, hs.fail, hs.pubT, hs.pubR, hs.buf, hs.tab, hs.zero, hs.subs⟩

omit ok hfuel in
theorem wl_of_noErr {x : State} {a b : A} (h : b.noErr = a.noErr) (hs : WL x a) : WL x b := by
  rw [eq_of_noErr h]; exact hs

omit ok hfuel in
theorem recvOK_of_noErr {x : State} {a b : A} (h : b.noErr = a.noErr) (hs : RecvOK cfg x a) : RecvOK cfg x b := by
  rw [eq_of_noErr h]; exact ⟨hs.t, hs.r⟩

omit ok hfuel in
theorem acksOf_nil_of_quiet : ∀ (T : List Ev), dataSends (fun b => b == .ack) T = [] → acksOf T = []
  | [], _ => rfl
  | e :: T, h => by
    have hsplit : dataSends (fun b => b == .ack) (e :: T) = dataSends (fun b => b == .ack) [e] ++ dataSends (fun b => b == .ack) T :=
      dataSends_append _ [e] T
    rw [hsplit] at h
    have h1 := (List.append_eq_nil_iff.mp h).1
    have h2 := acksOf_nil_of_quiet T (List.append_eq_nil_iff.mp h).2
    have e1 : acksOf (e :: T) = acksOf [e] ++ acksOf T := acksOf_append [e] T
    rw [e1, h2]
    cases e with
    | send u c f =>
      cases hb : (f.body == .ack) with
      | false => simp [acksOf, sends, hb]
      | true => simp [dataSends, hb] at h1; exact absurd (by simpa using hb) h1
    | _ => rfl

/-- the round function of the driver's `modelRun`: the log starts afresh -/
def stepR (cfg : Cfg) (x : State) (r : Round) : State := step cfg { x with out := [] } r

/-- the invariant between the model state and the abstract state of the Spec after the same rounds -/
structure RInv (cfg : Cfg) (x : State) (a : A) : Prop where
  inv : MInv cfg x
  sim : Sim cfg x a
  recv : RecvOK cfg x a
  wl : WL x a

/-- rounds the generator produces: the manager's own table entry (uid 0) is never "read from" -/
def RoundOK (r : Round) : Prop := ∀ rd ∈ r.reads, rd.uid ≠ 0

instance (r : Round) : Decidable (RoundOK r) := by unfold RoundOK; infer_instance

/-- what `Spec.round` leaves before its periodic section, on the model's own events of the round -/
structure PreTail (cfg : Cfg) (x : State) (a : A) (r : Round) (x2 : State) (T : List Ev) (a7 : A) (lastIO : List Ev) : Prop where
  step : stepR cfg x r = ticks cfg x2
  ev : EvE x2 (ticks cfg x2) T
  inv2 : MInv cfg x2
  pre : (roundPre cfg a r (stepR cfg x r).out).noErr = a7.noErr
  pre18 : (roundPre cfg a r (stepR cfg x r).out).e18 = a.e18
  last : lastEvs (stepR cfg x r).out = lastIO ++ T
  io : ∃ pfx, x2.out = pfx ++ lastIO
  quietT : dataSends isTimingB x2.out = []
  quietR : dataSends isTrafficB x2.out = []

theorem round_pre {x : State} {a : A} (h : RInv cfg x a) (hna : MgrNotAll cfg) (hord : OrderGood cfg) (r : Round)
    (hr : RoundOK r) :
    ∃ x2 T a' rT rR lastIO,
      PreTail cfg x a r x2 T { a' with mods := depMods a'.mods (closes T), recvT := rT, recvR := rR } lastIO ∧
      Sim cfg x2 a' ∧
      (∀ q ∈ rT, q.2 ≤ hmgr cfg (sinceTick .timingTick x2.hist) q.1.2) ∧
      (∀ q ∈ rR, q.2 ≤ hmgr cfg (sinceTick .trafficTick x2.hist) q.1.2) ∧ WL x2 a' := by
  have hI0 : MInv cfg ({ x with out := [] } : State) := minv_same ok hfuel h.inv rfl rfl rfl rfl rfl rfl rfl rfl
  have hS0 : Sim cfg ({ x with out := [] } : State) a :=
    ⟨h.sim.now, h.sim.tT, h.sim.tR, h.sim.tI, h.sim.seq, h.sim.nacc, h.sim.uids, h.sim.alive, h.sim.fail, h.sim.pubT, h.sim.pubR,
      h.sim.buf, h.sim.tab, h.sim.zero,
      fun am ham m hm => ⟨(h.sim.subs am ham m hm).all, (h.sim.subs am ham m hm).idxA, (h.sim.subs am ham m hm).idxT⟩⟩
  have hW0 : WL ({ x with out := [] } : State) a := h.wl
  obtain ⟨preM, segs, a', ho, hnp, hns, hI2, hS2, hW2, hrb, heT, heR, heE, hgo⟩ := pre_sim ok hfuel hI0 hS0 hW0 rfl hna hord r hr
  generalize hx2 : ioStep cfg (envStep ({ x with out := [] } : State) r) r.accept r.writable
    (r.reads.filter (fun rd => ((envStep ({ x with out := [] } : State) r).find rd.uid).isSome)) = x2 at ho hI2 hS2 hW2 hrb
  have hstep : stepR cfg x r = ticks cfg x2 := by
    unfold stepR step
    have : ({ x with out := [] } : State).crashed.isSome = false := by
      show x.crashed.isSome = false; rw [h.inv.top.good.ok]; rfl
    simp only [this, Bool.false_eq_true, if_false]
    rw [← hx2]
  obtain ⟨T, hE⟩ := ticks_ev cfg hI2.k.distinct
  have hqa : acksOf T = [] := by
    obtain ⟨ext, hoe, hq⟩ := ticks_QI cfg (tag_ack cfg) (fun _ _ _ _ _ _ => rfl) x2 (fun _ _ => rfl) (fun _ _ _ _ => rfl) (fun _ _ _ => rfl)
    have : ext = T := by have := hE.out; rw [hoe] at this; exact List.append_cancel_left this
    subst this
    exact acksOf_nil_of_quiet _ hq
  have hevs : (stepR cfg x r).out = preM ++ flatSegs segs ++ T := by rw [hstep, hE.out, ho]
  have hsp : splitRd (preM ++ flatSegs segs ++ T) = (preM ++ (if segs = [] then T else []), addLast segs T) := by
    rw [List.append_assoc, splitRd_noRd preM hnp, splitRd_flat segs hns T hE.nord]
  -- the tallies of manager-originated frames
  let pieces : List (List Ev) := preM :: segs.dropLast.map (·.2)
  let rT := if segs = [] then a'.recvT else pieces.foldl noteRecv a'.recvT
  let rR := if segs = [] then a'.recvR else pieces.foldl noteRecv a'.recvR
  let lastIO : List Ev := match segs.getLast? with | some sg => sg.2 | none => preM
  have hcore : roundCore cfg a r (stepR cfg x r).out =
      { a' with mods := depMods a'.mods (closes T), recvT := rT, recvR := rR } := by
    rw [hevs]
    unfold roundCore
    rw [hsp]
    dsimp only
    rw [hgo T hE.nord hqa, addLast_isEmpty, addLast_dropLast]
    by_cases hse : segs = []
    · subst hse
      simp only [List.isEmpty_nil, if_true, rT, rR]
      rw [applyDepartures_eq]
    · have hne : segs.isEmpty = false := by cases segs with | nil => exact absurd rfl hse | cons _ _ => rfl
      simp only [hne, Bool.false_eq_true, if_false, hse, List.append_nil, rT, rR]
      rw [noteAll_eq, applyDepartures_eq]
  refine ⟨x2, T, a', rT, rR, lastIO, ⟨hstep, hE, hI2, ?_, ?_, ?_, ?_, ?_, ?_⟩, hS2, ?_, ?_, hW2⟩
  · rw [(q18_roundPre cfg a r _).1, hcore]
  · rw [(q18_roundPre cfg a r _).2, hcore]
    show a'.errs.filter _ = a.errs.filter _
    rw [heE]
  · rw [hevs]
    unfold lastEvs
    rw [hsp]
    dsimp only
    rw [addLast_getLast]
    cases hgl : segs.getLast? with
    | none =>
      have : segs = [] := by cases segs with | nil => rfl | cons p l => simp [List.getLast?_cons] at hgl
      simp [this, lastIO]
    | some sg => simp [lastIO, hgl]
  · rw [ho]
    cases hgl : segs.getLast? with
    | none => exact ⟨[], by simp [lastIO, hgl, (by cases segs with | nil => rfl | cons p l => simp [List.getLast?_cons] at hgl : segs = []), flatSegs]⟩
    | some sg =>
      obtain ⟨l', rfl⟩ : ∃ l', segs = l' ++ [sg] := by
        rcases List.eq_nil_or_concat segs with rfl | ⟨l', x, rfl⟩
        · simp at hgl
        · simp at hgl; subst hgl; exact ⟨l', by simp⟩
      exact ⟨preM ++ flatSegs l' ++ [.rd sg.1], by simp [lastIO, hgl, flatSegs]⟩
  · rw [← hx2]
    have := dataSends_of_QE (io_QI cfg (tag_timing cfg) ctlIO_timing rfl (fun _ => rfl)
      (envStep ({ x with out := [] } : State) r) r.accept r.writable
      (r.reads.filter (fun rd => ((envStep ({ x with out := [] } : State) r).find rd.uid).isSome)))
    rw [this]; rfl
  · rw [← hx2]
    have := dataSends_of_QE (io_QI cfg (tag_traffic cfg) ctlIO_traffic rfl (fun _ => rfl)
      (envStep ({ x with out := [] } : State) r) r.accept r.writable
      (r.reads.filter (fun rd => ((envStep ({ x with out := [] } : State) r).find rd.uid).isSome)))
    rw [this]; rfl
  all_goals
    obtain ⟨ext, mk, hrbe, hbd⟩ := hrb
    have hext : ext = preM ++ flatSegs segs := by
      have h1 := hrbe.out
      have h2 : (envStep ({ x with out := [] } : State) r).out = [] := rfl
      rw [h2, ho] at h1; simpa using h1.symm
    have hidle : (envStep ({ x with out := [] } : State) r).inTraffic = false := h.inv.stat.idle
    have hmarks := hrbe.marks
    rw [hidle] at hmarks hbd
    have hhist : x2.hist = mk ++ x.hist := hrbe.hist
  · intro q hq
    rw [hhist, sinceTick_marks hmarks _ (by intro t b e; cases e), hmgr_append]
    have hmsc : msc q.1.1 q.1.2 pieces.flatten ≤ hmgr cfg mk q.1.2 := by
      have h1 := hbd q.1.1 q.1.2
      simp only [zeroX, Nat.add_zero, hmgr_eq_mmarks] at h1
      have h2 : msc q.1.1 q.1.2 pieces.flatten ≤ msc q.1.1 q.1.2 ext := by
        rw [hext]
        simp only [pieces, List.flatten_cons, msc_append, msc_flatSegs]
        have := msc_dropLast_le q.1.1 q.1.2 segs
        omega
      exact Nat.le_trans h2 h1
    by_cases hse : segs = []
    · simp only [rT, hse, if_true] at hq
      have := h.recv.t q (by rw [← heT]; exact hq)
      omega
    · simp only [rT, hse, if_false] at hq
      have := noteAll_bound pieces a'.recvT (fun k => hmgr cfg (sinceTick .timingTick x.hist) k.2)
        (fun p hp => h.recv.t p (by rw [← heT]; exact hp)) q hq
      omega
  · intro q hq
    rw [hhist, sinceTick_marks hmarks _ (by intro t b e; cases e), hmgr_append]
    have hmsc : msc q.1.1 q.1.2 pieces.flatten ≤ hmgr cfg mk q.1.2 := by
      have h1 := hbd q.1.1 q.1.2
      simp only [zeroX, Nat.add_zero, hmgr_eq_mmarks] at h1
      have h2 : msc q.1.1 q.1.2 pieces.flatten ≤ msc q.1.1 q.1.2 ext := by
        rw [hext]
        simp only [pieces, List.flatten_cons, msc_append, msc_flatSegs]
        have := msc_dropLast_le q.1.1 q.1.2 segs
        omega
      exact Nat.le_trans h2 h1
    by_cases hse : segs = []
    · simp only [rR, hse, if_true] at hq
      have := h.recv.r q (by rw [← heR]; exact hq)
      omega
    · simp only [rR, hse, if_false] at hq
      have := noteAll_bound pieces a'.recvR (fun k => hmgr cfg (sinceTick .trafficTick x.hist) k.2)
        (fun p hp => h.recv.r p (by rw [← heR]; exact hp)) q hq
      omega

/-- **one round keeps the invariant**: the model plays round `r` (its log starting afresh, as the driver's `modelRun`
    does), the Spec judges the model's own events of that round -/
theorem round_inv {x : State} {a : A} (h : RInv cfg x a) (hna : MgrNotAll cfg) (hord : OrderGood cfg) (r : Round)
    (hr : RoundOK r) : RInv cfg (stepR cfg x r) (round cfg a r (stepR cfg x r).out) := by
  obtain ⟨x2, T, a', rT, rR, lastIO, hP, hS2, hrT, hrR, hW2⟩ := round_pre ok hfuel h hna hord r hr
  have hI3 : MInv cfg (ticks cfg x2) := ⟨top_ticks ok hfuel hP.inv2.top, ticks_K cfg hP.inv2.k, ticks_statInv hP.inv2.stat⟩
  obtain ⟨hs, hrv, hwl⟩ := tail_sim hP.inv2.stat.idle hS2 hW2 T hP.ev hI3.k.distinct hI3.top.aopen rT rR hrT hrR
  have hne : (round cfg a r (stepR cfg x r).out).noErr =
      (tailU cfg { a' with mods := depMods a'.mods (closes T), recvT := rT, recvR := rR }).noErr := by
    rw [round_eq, tail_noErr]; exact tailU_noErr_congr cfg hP.pre
  rw [hP.step] at hne ⊢
  exact ⟨⟨top_ticks ok hfuel hP.inv2.top, ticks_K cfg hP.inv2.k, ticks_statInv hP.inv2.stat⟩,
    sim_of_noErr hne hs, recvOK_of_noErr hne hrv, wl_of_noErr hne hwl⟩

end withcfg

end Pyrtma.Mgr
