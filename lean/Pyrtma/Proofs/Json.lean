import Pyrtma.Model.Json
/-! Proofs for the JSON text layer of C10 (`Model/Json.lean`): characters, decimal and hex digits, number tokens, the string
scanner against the string encoder, whitespace, and the mutual induction `parseV_render` / `parseElems_render` /
`parseMembers_render` over documents (both layouts at once: `ind = none` minified, `ind = some k` indented), with the
fuel bound `size_le_render`.  Core Lean only. -/
namespace Pyrtma.Json

/-! ### characters -/
theorem toNat_ofNat_ascii : ∀ n < 128, (Char.ofNat n).toNat = n := by decide

theorem digitChar_facts : ∀ d < 10, isDigit (digitChar d) = true ∧ (digitChar d).toNat - 48 = d ∧
    isNumChar (digitChar d) = true ∧ (d ≠ 0 → (digitChar d != '0') = true) ∧ digitChar d ≠ '-' := by decide

theorem hexVal_hexDigit : ∀ d < 16, hexVal (hexDigit d) = some d := by decide

/-- a number character is none of the structural characters and no whitespace -/
theorem numChar_not_struct (c : Char) (h : isNumChar c = true) :
    isWs c = false ∧ c ≠ '"' ∧ c ≠ '[' ∧ c ≠ '{' ∧ c ≠ ']' ∧ c ≠ '}' ∧ c ≠ ',' ∧ c ≠ ':' := by
  refine ⟨?_, ?_, ?_, ?_, ?_, ?_, ?_, ?_⟩
  · cases hw : isWs c
    · rfl
    · simp only [isWs, Bool.or_eq_true, beq_iff_eq] at hw
      rcases hw with ((rfl | rfl) | rfl) | rfl <;> simp [isNumChar, isDigit] at h
  all_goals (rintro rfl; simp [isNumChar, isDigit] at h)

/-! ### decimal digits -/
theorem natOfDigits_aux (f : Nat) : ∀ (n : Nat) (acc : List Char), n < f →
    (natDigitsAux f n acc).foldl (fun a c => 10 * a + (c.toNat - 48)) 0 =
      acc.foldl (fun a c => 10 * a + (c.toNat - 48)) n := by
  induction f with
  | zero => intro n acc h; omega
  | succ f ih =>
    intro n acc h
    unfold natDigitsAux
    by_cases hn : n < 10
    · simp only [hn, if_true, List.foldl_cons, (digitChar_facts n hn).2.1]
      simp
    · simp only [hn, if_false]
      rw [ih (n / 10) _ (by omega)]
      simp only [List.foldl_cons, (digitChar_facts (n % 10) (by omega)).2.1]
      congr 1; omega

theorem natOfDigits_natDigits (n : Nat) : natOfDigits (natDigits n) = n := by
  unfold natOfDigits natDigits
  rw [natOfDigits_aux (n + 1) n [] (by omega)]
  rfl

theorem natDigitsAux_all (f : Nat) : ∀ (n : Nat) (acc : List Char), (∀ c ∈ acc, isDigit c = true) →
    ∀ c ∈ natDigitsAux f n acc, isDigit c = true := by
  induction f with
  | zero => intro n acc h; simpa [natDigitsAux] using h
  | succ f ih =>
    intro n acc h
    unfold natDigitsAux
    by_cases hn : n < 10
    · simp only [hn, if_true]
      intro c hc
      simp only [List.mem_cons] at hc
      rcases hc with rfl | hc
      · exact (digitChar_facts n hn).1
      · exact h c hc
    · simp only [hn, if_false]
      apply ih
      intro c hc
      simp only [List.mem_cons] at hc
      rcases hc with rfl | hc
      · exact (digitChar_facts (n % 10) (by omega)).1
      · exact h c hc

theorem natDigits_all (n : Nat) : ∀ c ∈ natDigits n, isDigit c = true :=
  natDigitsAux_all (n + 1) n [] (by simp)

/-- shape of the digit list: a single digit, or a non-zero digit followed by digits -/
theorem natDigitsAux_shape (f : Nat) : ∀ (n : Nat) (acc : List Char), n < f → (∀ c ∈ acc, isDigit c = true) →
    ∃ c r, natDigitsAux f n acc = c :: r ∧ isDigit c = true ∧ (∀ x ∈ r, isDigit x = true) ∧
      ((c != '0') = true ∨ (n = 0 ∧ r = acc)) := by
  induction f with
  | zero => intro n acc h; omega
  | succ f ih =>
    intro n acc h hacc
    unfold natDigitsAux
    by_cases hn : n < 10
    · simp only [hn, if_true]
      refine ⟨digitChar n, acc, rfl, (digitChar_facts n hn).1, hacc, ?_⟩
      by_cases h0 : n = 0
      · exact Or.inr ⟨h0, rfl⟩
      · exact Or.inl ((digitChar_facts n hn).2.2.2.1 h0)
    · simp only [hn, if_false]
      have hacc' : ∀ c ∈ digitChar (n % 10) :: acc, isDigit c = true := by
        intro c hc
        simp only [List.mem_cons] at hc
        rcases hc with rfl | hc
        · exact (digitChar_facts (n % 10) (by omega)).1
        · exact hacc c hc
      obtain ⟨c, r, he, hc, hr, hz⟩ := ih (n / 10) _ (by omega) hacc'
      refine ⟨c, r, he, hc, hr, ?_⟩
      rcases hz with hz | ⟨hz, _⟩
      · exact Or.inl hz
      · omega

theorem isNatTok_natDigits (n : Nat) : isNatTok (natDigits n) = true := by
  obtain ⟨c, r, he, hc, hr, hz⟩ := natDigitsAux_shape (n + 1) n [] (by omega) (by simp)
  unfold natDigits
  rw [he]
  match r, hr, hz with
  | [], _, _ => simpa [isNatTok] using hc
  | x :: r', hr, hz =>
    rcases hz with hz | ⟨_, hz⟩
    · simp only [isNatTok, hc, hz, Bool.and_self, Bool.true_and, List.all_eq_true]
      exact hr
    · simp at hz

theorem natDigits_head (n : Nat) : ∃ c r, natDigits n = c :: r ∧ isDigit c = true := by
  obtain ⟨c, r, he, hc, _, _⟩ := natDigitsAux_shape (n + 1) n [] (by omega) (by simp)
  exact ⟨c, r, he, hc⟩

/-! ### integer tokens -/
theorem digit_numChar (c : Char) (h : isDigit c = true) : isNumChar c = true := by simp [isNumChar, h]

theorem digit_ne_minus (c : Char) (h : isDigit c = true) : c ≠ '-' := by
  rintro rfl; simp [isDigit] at h

theorem renderInt_numChars (n : Int) : ∀ c ∈ renderInt n, isNumChar c = true := by
  intro c hc
  unfold renderInt at hc
  split at hc
  · simp only [List.mem_cons] at hc
    rcases hc with rfl | hc
    · decide
    · exact digit_numChar c (natDigits_all _ c hc)
  · exact digit_numChar c (natDigits_all _ c hc)

theorem isIntTok_nat (t : List Char) (c : Char) (r : List Char) (ht : t = c :: r) (hc : isDigit c = true) :
    isIntTok t = isNatTok t ∧ intOfTok t = (natOfDigits t : Int) := by
  subst ht
  have hne := digit_ne_minus c hc
  constructor
  · unfold isIntTok
    split
    · rename_i h; simp only [List.cons.injEq] at h; exact absurd h.1 hne
    · rfl
  · unfold intOfTok
    split
    · rename_i h; simp only [List.cons.injEq] at h; exact absurd h.1 hne
    · rfl

theorem renderInt_tok (n : Int) : isIntTok (renderInt n) = true ∧ intOfTok (renderInt n) = n := by
  unfold renderInt
  by_cases h : n < 0
  · simp only [h, if_true, isIntTok, intOfTok, isNatTok_natDigits, natOfDigits_natDigits, true_and]
    omega
  · simp only [h, if_false]
    obtain ⟨c, r, he, hc⟩ := natDigits_head n.toNat
    have := isIntTok_nat _ c r he hc
    rw [this.1, this.2, isNatTok_natDigits, natOfDigits_natDigits]
    exact ⟨rfl, by omega⟩

theorem renderInt_head (n : Int) : ∃ c r, renderInt n = c :: r ∧ isNumChar c = true := by
  unfold renderInt
  split
  · exact ⟨'-', _, rfl, by decide⟩
  · obtain ⟨c, r, he, hc⟩ := natDigits_head n.toNat
    exact ⟨c, r, he, digit_numChar c hc⟩

/-! ### the maximal run of number characters -/
/-- nothing that could continue a number token follows -/
def Delim (rest : List Char) : Prop := ∀ c r, rest = c :: r → isNumChar c = false

theorem span_numChars : ∀ (tok rest : List Char), (∀ c ∈ tok, isNumChar c = true) → Delim rest →
    spanP isNumChar (tok ++ rest) = (tok, rest)
  | [], rest, _, hd => by
    match rest, hd with
    | [], _ => rfl
    | c :: r, hd => simp [spanP, hd c r rfl]
  | c :: t, rest, h, hd => by
    have ih := span_numChars t rest (fun x hx => h x (by simp [hx])) hd
    simp only [List.cons_append, spanP, h c (by simp), if_true, ih]

theorem parseNum_int (n : Int) (rest : List Char) (hd : Delim rest) :
    parseNum (renderInt n ++ rest) = some (.int n, rest) := by
  unfold parseNum
  rw [span_numChars _ _ (renderInt_numChars n) hd]
  simp only [(renderInt_tok n).1, if_true, (renderInt_tok n).2]

theorem parseNum_flt (tok rest : List Char) (h : floatTokOk tok = true) (hd : Delim rest) :
    parseNum (tok ++ rest) = some (.flt tok, rest) := by
  simp only [floatTokOk, Bool.and_eq_true, Bool.not_eq_true', List.all_eq_true] at h
  obtain ⟨⟨⟨_, h2⟩, h3⟩, h4⟩ := h
  unfold parseNum
  rw [span_numChars _ _ h2 hd]
  simp only [h3, Bool.false_eq_true, if_false, h4, if_true]

/-! ### strings -/
theorem hex4_u4 (n : Nat) (hn : n < 65536) :
    hex4 (hexDigit (n / 4096 % 16)) (hexDigit (n / 256 % 16)) (hexDigit (n / 16 % 16)) (hexDigit (n % 16)) = some n := by
  unfold hex4
  rw [hexVal_hexDigit _ (Nat.mod_lt _ (by decide)), hexVal_hexDigit _ (Nat.mod_lt _ (by decide)),
    hexVal_hexDigit _ (Nat.mod_lt _ (by decide)), hexVal_hexDigit _ (Nat.mod_lt _ (by decide))]
  simp only [Option.some.injEq]
  omega

theorem parseStr_u4 (n : Nat) (hn : n < 65536) (s : List Char) (acc : List Nat) :
    parseStr (u4 n ++ s) acc = parseStr s (pushU n acc) := by
  have h1 : ¬ ('\\' = '"') := by decide
  simp only [u4, List.cons_append, List.nil_append]
  rw [parseStr.eq_def]
  simp only [h1, if_false, if_true, hex4_u4 n hn]

theorem parseStr_short (e : Char) (n : Nat) (he : e ≠ 'u') (hu : unescape e = some n) (s : List Char) (acc : List Nat) :
    parseStr ('\\' :: e :: s) acc = parseStr s (n :: acc) := by
  have h1 : ¬ ('\\' = '"') := by decide
  rw [parseStr.eq_def]
  simp only [h1, if_false, if_true, he, hu]

theorem pushU_plain (n : Nat) (acc : List Nat) (h : ¬ (56320 ≤ n ∧ n ≤ 57343)) : pushU n acc = n :: acc := by
  match acc with
  | [] => rfl
  | x :: t =>
    have : ¬ (56320 ≤ n ∧ n ≤ 57343 ∧ 55296 ≤ x ∧ x ≤ 56319) := fun hh => h ⟨hh.1, hh.2.1⟩
    simp only [pushU, this, if_false]

theorem pushU_pair (v : Nat) (hv : v < 1048576) (acc : List Nat) :
    pushU (56320 + v % 1024) ((55296 + v / 1024 % 1024) :: acc) = (65536 + v) :: acc := by
  have h : 56320 ≤ 56320 + v % 1024 ∧ 56320 + v % 1024 ≤ 57343 ∧
      55296 ≤ 55296 + v / 1024 % 1024 ∧ 55296 + v / 1024 % 1024 ≤ 56319 := by omega
  simp only [pushU, h, and_self, if_true, List.cons.injEq, and_true]
  omega

theorem parseStr_esc (c : Nat) (hc : validCp c = true) (s : List Char) (acc : List Nat) :
    parseStr (escChar c ++ s) acc = parseStr s (c :: acc) := by
  simp only [validCp, Bool.or_eq_true, Bool.and_eq_true, decide_eq_true_eq] at hc
  unfold escChar
  split
  · rename_i h; subst h; exact parseStr_short '"' 34 (by decide) (by decide) s acc
  split
  · rename_i h; subst h; exact parseStr_short '\\' 92 (by decide) (by decide) s acc
  split
  · rename_i h; subst h; exact parseStr_short 'n' 10 (by decide) (by decide) s acc
  split
  · rename_i h; subst h; exact parseStr_short 'r' 13 (by decide) (by decide) s acc
  split
  · rename_i h; subst h; exact parseStr_short 't' 9 (by decide) (by decide) s acc
  split
  · rename_i h; subst h; exact parseStr_short 'b' 8 (by decide) (by decide) s acc
  split
  · rename_i h; subst h; exact parseStr_short 'f' 12 (by decide) (by decide) s acc
  split
  · -- printable ASCII, written as itself
    rename_i h1 h2 _ _ _ _ _ hr
    have hlt : c < 128 := by omega
    have htn := toNat_ofNat_ascii c hlt
    have hq : Char.ofNat c ≠ '"' := by
      intro he; have := congrArg Char.toNat he; rw [htn] at this; exact h1 (by simpa using this)
    have hb : Char.ofNat c ≠ '\\' := by
      intro he; have := congrArg Char.toNat he; rw [htn] at this; exact h2 (by simpa using this)
    simp only [List.cons_append, List.nil_append]
    rw [parseStr.eq_def]
    have h32 : ¬ c < 32 := by omega
    simp only [hq, hb, if_false, htn, h32]
  split
  · rename_i hlt
    rw [parseStr_u4 c hlt, pushU_plain c acc (by omega)]
  · -- a surrogate pair
    rename_i hge
    obtain ⟨v, rfl⟩ : ∃ v, c = 65536 + v := ⟨c - 65536, by omega⟩
    have hv : v < 1048576 := by omega
    rw [Nat.add_sub_cancel_left, List.append_assoc, parseStr_u4 _ (by omega), parseStr_u4 _ (by omega),
      pushU_plain _ acc (by omega), pushU_pair v hv]

theorem parseStr_content : ∀ (cs : List Nat) (acc : List Nat) (rest : List Char), (∀ c ∈ cs, validCp c = true) →
    parseStr (cs.flatMap escChar ++ '"' :: rest) acc = some (acc.reverse ++ cs, rest)
  | [], acc, rest, _ => by
    simp only [List.flatMap_nil, List.nil_append, List.append_nil]
    rw [parseStr.eq_def]; simp
  | c :: cs, acc, rest, h => by
    simp only [List.flatMap_cons, List.append_assoc]
    rw [parseStr_esc c (h c (by simp)), parseStr_content cs (c :: acc) rest (fun d hd => h d (by simp [hd]))]
    simp

/-- the string scanner inverts the string encoder -/
theorem parseStr_render (cs : List Nat) (rest : List Char) (h : ∀ c ∈ cs, validCp c = true) :
    ∃ r, renderStr cs ++ rest = '"' :: r ∧ parseStr r [] = some (cs, rest) := by
  refine ⟨cs.flatMap escChar ++ '"' :: rest, by simp [renderStr], ?_⟩
  simpa using parseStr_content cs [] rest h

/-! ### whitespace -/
def AllWs (w : List Char) : Prop := ∀ c ∈ w, isWs c = true

theorem skipWs_ws : ∀ (w s : List Char), AllWs w → skipWs (w ++ s) = skipWs s
  | [], _, _ => rfl
  | c :: w, s, h => by
    simp only [List.cons_append, skipWs, h c (by simp), if_true]
    exact skipWs_ws w s (fun d hd => h d (by simp [hd]))

theorem skipWs_head (c : Char) (s : List Char) (h : isWs c = false) : skipWs (c :: s) = c :: s := by
  simp [skipWs, h]

theorem nl_ws (ind : Option Nat) (lvl : Nat) : AllWs (nl ind lvl) := by
  intro c hc
  cases ind with
  | none => simp [nl] at hc
  | some k =>
    simp only [nl, List.mem_cons, List.mem_replicate] at hc
    rcases hc with rfl | ⟨_, rfl⟩ <;> decide

theorem parseV_ws (w s : List Char) (h : AllWs w) : ∀ fuel, parseV fuel (w ++ s) = parseV fuel s
  | 0 => by simp [parseV]
  | f + 1 => by simp only [parseV, skipWs_ws w s h]

theorem parseElems_ws (w s : List Char) (h : AllWs w) : ∀ fuel, parseElems fuel (w ++ s) = parseElems fuel s
  | 0 => by simp [parseElems]
  | f + 1 => by simp only [parseElems, parseV_ws w s h]

theorem parseMembers_ws (w s : List Char) (h : AllWs w) : ∀ fuel, parseMembers fuel (w ++ s) = parseMembers fuel s
  | 0 => by simp [parseMembers]
  | f + 1 => by simp only [parseMembers, skipWs_ws w s h]

/-! ### fuel -/
mutual
def J.size : J → Nat
  | .arr xs => 1 + xs.size
  | .obj kvs => 1 + kvs.size
  | _ => 1
def JL.size : JL → Nat
  | .nil => 0
  | .cons x r => 1 + x.size + r.size
def JO.size : JO → Nat
  | .nil => 0
  | .cons _ v r => 1 + v.size + r.size
end

theorem J.size_pos (v : J) : 0 < v.size := by
  cases v <;> simp only [J.size] <;> omega

/-! ### first characters -/
/-- a value starts with a character that is no whitespace and no closing bracket -/
def HeadOk (s : List Char) : Prop := ∃ c r, s = c :: r ∧ isWs c = false ∧ c ≠ ']' ∧ c ≠ '}'

theorem headOk_num (c : Char) (r : List Char) (h : isNumChar c = true) : HeadOk (c :: r) :=
  have := numChar_not_struct c h
  ⟨c, r, rfl, this.1, this.2.2.2.2.1, this.2.2.2.2.2.1⟩

theorem render_head (ind : Option Nat) (lvl : Nat) (v : J) (hv : v.okB = true) (s : List Char) :
    HeadOk (render ind lvl v ++ s) := by
  match v, hv with
  | .int n, _ =>
    obtain ⟨c, r, he, hc⟩ := renderInt_head n
    simp only [render, he, List.cons_append]
    exact headOk_num c _ hc
  | .flt tok, hv =>
    simp only [J.okB, floatTokOk, Bool.and_eq_true, Bool.not_eq_true', List.all_eq_true, List.isEmpty_eq_false_iff] at hv
    match tok, hv with
    | c :: t, hv =>
      simp only [render, List.cons_append]
      exact headOk_num c _ (hv.1.1.2 c (by simp))
  | .str cs, _ =>
    exact ⟨'"', cs.flatMap escChar ++ '"' :: s, by simp [render, renderStr], by decide, by decide, by decide⟩
  | .arr .nil, _ => exact ⟨'[', ']' :: s, by simp [render], by decide, by decide, by decide⟩
  | .arr (.cons x r), _ =>
    exact ⟨'[', (nl ind (lvl + 1) ++ renderL ind (lvl + 1) (.cons x r) ++ nl ind lvl ++ [']']) ++ s,
      by simp [render], by decide, by decide, by decide⟩
  | .obj .nil, _ => exact ⟨'{', '}' :: s, by simp [render], by decide, by decide, by decide⟩
  | .obj (.cons k v r), _ =>
    exact ⟨'{', (nl ind (lvl + 1) ++ renderO ind (lvl + 1) (.cons k v r) ++ nl ind lvl ++ ['}']) ++ s,
      by simp [render], by decide, by decide, by decide⟩

theorem renderL_head (ind : Option Nat) (lvl : Nat) (x : J) (r : JL) (h : (JL.cons x r).okB = true) (s : List Char) :
    HeadOk (renderL ind lvl (.cons x r) ++ s) := by
  simp only [JL.okB, Bool.and_eq_true] at h
  match r with
  | .nil => simp only [renderL]; exact render_head ind lvl x h.1 s
  | .cons y r' => simp only [renderL, List.append_assoc]; exact render_head ind lvl x h.1 _

theorem renderO_head (ind : Option Nat) (lvl : Nat) (k : List Nat) (v : J) (r : JO) (s : List Char) :
    ∃ t, renderO ind lvl (.cons k v r) ++ s = '"' :: t := by
  match r with
  | .nil => simp only [renderO, renderStr, List.cons_append, List.append_assoc]; exact ⟨_, rfl⟩
  | .cons k' v' r' => simp only [renderO, renderStr, List.cons_append, List.append_assoc]; exact ⟨_, rfl⟩

/-! ### what may follow a number -/
theorem delim_nil : Delim [] := by intro c r e; cases e
theorem delim_cons (c : Char) (r : List Char) (h : isNumChar c = false) : Delim (c :: r) := by
  intro c' r' e; cases e; exact h

theorem ws_not_num (c : Char) (h : isWs c = true) : isNumChar c = false := by
  cases hn : isNumChar c
  · rfl
  · have := (numChar_not_struct c hn).1; rw [h] at this; cases this

theorem delim_ws (w : List Char) (c : Char) (s : List Char) (hw : AllWs w) (hc : isNumChar c = false) :
    Delim (w ++ c :: s) := by
  match w, hw with
  | [], _ => exact delim_cons c s hc
  | x :: w', hw => exact delim_cons x _ (ws_not_num x (hw x (by simp)))

/-! ### the parser inverts the renderer -/
mutual
theorem parseV_render (ind : Option Nat) : ∀ (v : J) (lvl fuel : Nat) (rest : List Char),
    v.okB = true → v.size ≤ fuel → Delim rest → parseV fuel (render ind lvl v ++ rest) = some (v, rest)
  | v, _, 0, _, _, hf, _ => by
    have := J.size_pos v; omega
  | .int n, lvl, f + 1, rest, _, _, hd => by
    obtain ⟨c, r, he, hc⟩ := renderInt_head n
    have hs := numChar_not_struct c hc
    have hp := parseNum_int n rest hd
    simp only [render]
    rw [he] at hp ⊢
    simp only [parseV, List.cons_append, skipWs_head c _ hs.1, hs.2.1, hs.2.2.1, hs.2.2.2.1, if_false]
    exact hp
  | .flt tok, lvl, f + 1, rest, hv, _, hd => by
    simp only [J.okB] at hv
    have hp := parseNum_flt tok rest hv hd
    simp only [floatTokOk, Bool.and_eq_true, Bool.not_eq_true', List.all_eq_true, List.isEmpty_eq_false_iff] at hv
    match tok, hv, hp with
    | c :: t, hv, hp =>
      have hs := numChar_not_struct c (hv.1.1.2 c (by simp))
      simp only [render, parseV, List.cons_append, skipWs_head c _ hs.1, hs.2.1, hs.2.2.1, hs.2.2.2.1, if_false]
      exact hp
  | .str cs, lvl, f + 1, rest, hv, _, _ => by
    simp only [J.okB, List.all_eq_true] at hv
    obtain ⟨r, he, hp⟩ := parseStr_render cs rest hv
    simp only [render, he, parseV, skipWs_head '"' _ (by decide), if_true, hp, Option.map_some]
  | .arr .nil, lvl, f + 1, rest, _, _, _ => by
    have h1 : ¬ ('[' = '"') := by decide
    simp only [render, parseV, List.cons_append, List.nil_append, skipWs_head '[' _ (by decide),
      skipWs_head ']' _ (by decide), h1, if_false, if_true]
  | .arr (.cons x r), lvl, f + 1, rest, hv, hf, _ => by
    have h1 : ¬ ('[' = '"') := by decide
    simp only [J.okB] at hv
    simp only [J.size] at hf
    have ih := parseElems_render ind (.cons x r) (lvl + 1) f (nl ind lvl) rest (by simp) hv (by omega) (nl_ws ind lvl)
    obtain ⟨c2, r2, he2, hws, hnb, _⟩ := renderL_head ind (lvl + 1) x r hv (nl ind lvl ++ ']' :: rest)
    have hre : render ind lvl (.arr (.cons x r)) ++ rest =
        '[' :: (nl ind (lvl + 1) ++ (renderL ind (lvl + 1) (.cons x r) ++ (nl ind lvl ++ ']' :: rest))) := by
      simp only [render, List.cons_append, List.append_assoc, List.nil_append]
    rw [hre]
    simp only [parseV, skipWs_head '[' _ (by decide), h1, if_false, if_true, skipWs_ws _ _ (nl_ws ind (lvl + 1))]
    rw [he2] at ih ⊢
    simp only [skipWs_head c2 _ hws, hnb, if_false, ih, Option.map_some]
  | .obj .nil, lvl, f + 1, rest, _, _, _ => by
    have h1 : ¬ ('{' = '"') := by decide
    have h2 : ¬ ('{' = '[') := by decide
    simp only [render, parseV, List.cons_append, List.nil_append, skipWs_head '{' _ (by decide),
      skipWs_head '}' _ (by decide), h1, h2, if_false, if_true]
  | .obj (.cons k v r), lvl, f + 1, rest, hv, hf, _ => by
    have h1 : ¬ ('{' = '"') := by decide
    have h2 : ¬ ('{' = '[') := by decide
    have h3 : ¬ ('"' = '}') := by decide
    simp only [J.okB] at hv
    simp only [J.size] at hf
    have ih := parseMembers_render ind (.cons k v r) (lvl + 1) f (nl ind lvl) rest (by simp) hv (by omega) (nl_ws ind lvl)
    obtain ⟨t, he2⟩ := renderO_head ind (lvl + 1) k v r (nl ind lvl ++ '}' :: rest)
    have hre : render ind lvl (.obj (.cons k v r)) ++ rest =
        '{' :: (nl ind (lvl + 1) ++ (renderO ind (lvl + 1) (.cons k v r) ++ (nl ind lvl ++ '}' :: rest))) := by
      simp only [render, List.cons_append, List.append_assoc, List.nil_append]
    rw [hre]
    simp only [parseV, skipWs_head '{' _ (by decide), h1, h2, if_false, if_true, skipWs_ws _ _ (nl_ws ind (lvl + 1))]
    rw [he2] at ih ⊢
    simp only [skipWs_head '"' _ (by decide), h3, if_false, ih, Option.map_some]
theorem parseElems_render (ind : Option Nat) : ∀ (xs : JL) (lvl fuel : Nat) (w rest : List Char),
    xs ≠ .nil → xs.okB = true → xs.size ≤ fuel → AllWs w →
    parseElems fuel (renderL ind lvl xs ++ (w ++ ']' :: rest)) = some (xs, rest)
  | .nil, _, _, _, _, hne, _, _, _ => absurd rfl hne
  | .cons _ _, _, 0, _, _, _, _, hf, _ => by simp [JL.size] at hf
  | .cons x .nil, lvl, f + 1, w, rest, _, hv, hf, hw => by
    simp only [JL.okB, Bool.and_eq_true] at hv
    simp only [JL.size] at hf
    have h1 : ¬ (']' = ',') := by decide
    have hx := parseV_render ind x lvl f (w ++ ']' :: rest) hv.1 (by omega) (delim_ws w ']' rest hw (by decide))
    simp only [renderL, parseElems, hx, skipWs_ws w _ hw, skipWs_head ']' _ (by decide), h1, if_false, if_true]
  | .cons x (.cons y r), lvl, f + 1, w, rest, _, hv, hf, hw => by
    simp only [JL.okB, Bool.and_eq_true] at hv
    simp only [JL.size] at hf
    have hx := parseV_render ind x lvl f
      (',' :: (nl ind lvl ++ (renderL ind lvl (.cons y r) ++ (w ++ ']' :: rest)))) hv.1 (by omega)
      (delim_cons ',' _ (by decide))
    have ih := parseElems_render ind (.cons y r) lvl f w rest (by simp) (by simp only [JL.okB, Bool.and_eq_true]; exact hv.2)
      (by simp only [JL.size]; omega) hw
    have hre : renderL ind lvl (.cons x (.cons y r)) ++ (w ++ ']' :: rest) =
        render ind lvl x ++ (',' :: (nl ind lvl ++ (renderL ind lvl (.cons y r) ++ (w ++ ']' :: rest)))) := by
      simp only [renderL, List.cons_append, List.append_assoc]
    rw [hre]
    simp only [parseElems, hx, skipWs_head ',' _ (by decide), if_true, parseElems_ws _ _ (nl_ws ind lvl), ih,
      Option.map_some]
theorem parseMembers_render (ind : Option Nat) : ∀ (kvs : JO) (lvl fuel : Nat) (w rest : List Char),
    kvs ≠ .nil → kvs.okB = true → kvs.size ≤ fuel → AllWs w →
    parseMembers fuel (renderO ind lvl kvs ++ (w ++ '}' :: rest)) = some (kvs, rest)
  | .nil, _, _, _, _, hne, _, _, _ => absurd rfl hne
  | .cons _ _ _, _, 0, _, _, _, _, hf, _ => by simp [JO.size] at hf
  | .cons k v .nil, lvl, f + 1, w, rest, _, hv, hf, hw => by
    simp only [JO.okB, Bool.and_eq_true, List.all_eq_true] at hv
    simp only [JO.size] at hf
    have h1 : ¬ ('}' = ',') := by decide
    have hv' := parseV_render ind v lvl f (w ++ '}' :: rest) hv.1.2 (by omega) (delim_ws w '}' rest hw (by decide))
    obtain ⟨t, he, hp⟩ := parseStr_render k (keySep ind ++ (render ind lvl v ++ (w ++ '}' :: rest))) hv.1.1
    have hre : renderO ind lvl (.cons k v .nil) ++ (w ++ '}' :: rest) =
        renderStr k ++ (keySep ind ++ (render ind lvl v ++ (w ++ '}' :: rest))) := by
      simp only [renderO, List.append_assoc]
    rw [hre, he]
    simp only [parseMembers, skipWs_head '"' _ (by decide), if_true, hp]
    cases ind with
    | none =>
      simp only [keySep, List.cons_append, List.nil_append, skipWs_head ':' _ (by decide), if_true, hv',
        skipWs_ws w _ hw, skipWs_head '}' _ (by decide), h1, if_false]
    | some i =>
      have hsp : AllWs [' '] := by intro c hc; simp at hc; subst hc; decide
      have := parseV_ws [' '] (render (some i) lvl v ++ (w ++ '}' :: rest)) hsp f
      simp only [List.cons_append, List.nil_append] at this
      simp only [keySep, List.cons_append, List.nil_append, skipWs_head ':' _ (by decide), if_true, this, hv',
        skipWs_ws w _ hw, skipWs_head '}' _ (by decide), h1, if_false]
  | .cons k v (.cons k' v' r), lvl, f + 1, w, rest, _, hv, hf, hw => by
    simp only [JO.okB, Bool.and_eq_true, List.all_eq_true] at hv
    simp only [JO.size] at hf
    have ih := parseMembers_render ind (.cons k' v' r) lvl f w rest (by simp)
      (by simp only [JO.okB, Bool.and_eq_true, List.all_eq_true]; exact hv.2) (by simp only [JO.size]; omega) hw
    have hv' := parseV_render ind v lvl f
      (',' :: (nl ind lvl ++ (renderO ind lvl (.cons k' v' r) ++ (w ++ '}' :: rest)))) hv.1.2 (by omega)
      (delim_cons ',' _ (by decide))
    obtain ⟨t, he, hp⟩ := parseStr_render k (keySep ind ++ (render ind lvl v ++
      (',' :: (nl ind lvl ++ (renderO ind lvl (.cons k' v' r) ++ (w ++ '}' :: rest)))))) hv.1.1
    have hre : renderO ind lvl (.cons k v (.cons k' v' r)) ++ (w ++ '}' :: rest) =
        renderStr k ++ (keySep ind ++ (render ind lvl v ++
          (',' :: (nl ind lvl ++ (renderO ind lvl (.cons k' v' r) ++ (w ++ '}' :: rest)))))) := by
      simp only [renderO, List.cons_append, List.append_assoc]
    rw [hre, he]
    simp only [parseMembers, skipWs_head '"' _ (by decide), if_true, hp]
    cases ind with
    | none =>
      simp only [keySep, List.cons_append, List.nil_append, skipWs_head ':' _ (by decide), if_true, hv',
        skipWs_head ',' _ (by decide), parseMembers_ws _ _ (nl_ws none lvl), ih, Option.map_some]
    | some i =>
      have hsp : AllWs [' '] := by intro c hc; simp at hc; subst hc; decide
      have := parseV_ws [' '] (render (some i) lvl v ++
        (',' :: (nl (some i) lvl ++ (renderO (some i) lvl (.cons k' v' r) ++ (w ++ '}' :: rest))))) hsp f
      simp only [List.cons_append, List.nil_append] at this
      simp only [keySep, List.cons_append, List.nil_append, skipWs_head ':' _ (by decide), if_true, this, hv',
        skipWs_head ',' _ (by decide), parseMembers_ws _ _ (nl_ws (some i) lvl), ih, Option.map_some]
end

/-! ### enough fuel: the length of the text -/
mutual
theorem size_le_render (ind : Option Nat) : ∀ (v : J) (lvl : Nat), v.okB = true → v.size ≤ (render ind lvl v).length
  | .int n, lvl, _ => by
    obtain ⟨c, r, he, _⟩ := renderInt_head n
    simp [render, J.size, he]
  | .flt tok, lvl, hv => by
    simp only [J.okB, floatTokOk, Bool.and_eq_true, Bool.not_eq_true', List.isEmpty_eq_false_iff] at hv
    match tok, hv with
    | c :: t, _ => simp [render, J.size]
  | .str cs, lvl, _ => by simp [render, J.size, renderStr]
  | .arr .nil, lvl, _ => by simp [render, J.size, JL.size]
  | .arr (.cons x r), lvl, hv => by
    simp only [J.okB] at hv
    have := sizeL_le_render ind (.cons x r) (lvl + 1) hv
    simp only [render, J.size, List.length_cons, List.length_append, List.length_nil]
    omega
  | .obj .nil, lvl, _ => by simp [render, J.size, JO.size]
  | .obj (.cons k v r), lvl, hv => by
    simp only [J.okB] at hv
    have := sizeO_le_render ind (.cons k v r) (lvl + 1) hv
    simp only [render, J.size, List.length_cons, List.length_append, List.length_nil]
    omega
theorem sizeL_le_render (ind : Option Nat) : ∀ (xs : JL) (lvl : Nat), xs.okB = true →
    xs.size ≤ (renderL ind lvl xs).length + 1
  | .nil, _, _ => by simp [JL.size]
  | .cons x .nil, lvl, hv => by
    simp only [JL.okB, Bool.and_eq_true] at hv
    have := size_le_render ind x lvl hv.1
    simp only [renderL, JL.size]; omega
  | .cons x (.cons y r), lvl, hv => by
    simp only [JL.okB, Bool.and_eq_true] at hv
    have h1 := size_le_render ind x lvl hv.1
    have h2 := sizeL_le_render ind (.cons y r) lvl (by simp only [JL.okB, Bool.and_eq_true]; exact hv.2)
    simp only [JL.size] at h2
    simp only [renderL, JL.size, List.length_append, List.length_cons]; omega
theorem sizeO_le_render (ind : Option Nat) : ∀ (kvs : JO) (lvl : Nat), kvs.okB = true →
    kvs.size ≤ (renderO ind lvl kvs).length + 1
  | .nil, _, _ => by simp [JO.size]
  | .cons k v .nil, lvl, hv => by
    simp only [JO.okB, Bool.and_eq_true] at hv
    have := size_le_render ind v lvl hv.1.2
    simp only [renderO, JO.size, List.length_append]; omega
  | .cons k v (.cons k' v' r), lvl, hv => by
    simp only [JO.okB, Bool.and_eq_true] at hv
    have h1 := size_le_render ind v lvl hv.1.2
    have h2 := sizeO_le_render ind (.cons k' v' r) lvl (by simp only [JO.okB, Bool.and_eq_true]; exact hv.2)
    simp only [JO.size] at h2
    simp only [renderO, JO.size, List.length_append, List.length_cons]; omega
end

/-- `json.loads(json.dumps(v)) == v` on the modelled subset, for either layout and any indentation level -/
theorem parse_render (ind : Option Nat) (lvl : Nat) (v : J) (hv : v.okB = true) : parse (render ind lvl v) = some v := by
  have hs := size_le_render ind v lvl hv
  have := parseV_render ind v lvl ((render ind lvl v).length + 1) [] hv (by omega) delim_nil
  simp only [List.append_nil] at this
  simp [parse, this, skipWs]


end Pyrtma.Json
