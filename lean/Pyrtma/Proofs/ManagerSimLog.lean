import Pyrtma.Proofs.Manager
import Pyrtma.Spec.Manager
/-!
# No malformed frame in the model's log

The driver reports a frame of the implementation it cannot decode as a frame of its type as `.log 999`
(`Spec.brokenFrame`).  The model never writes such a frame: every frame it originates has a body built by one of the
frame constructors (log lines carry one of the levels 10 / 20 / 30 / 40 of the call sites), and a forwarded data frame
carries `.data k`.  A state invariant, carried through the nested forward by a contract (`LOKfwd`) and through every
top-level operation of `run()`.
-/
namespace Pyrtma.Mgr

def okEv : Ev → Bool
  | .send _ _ f => !(f.body == .log 999)
  | _ => true

/-- no event of the log is a malformed frame -/
def LOK (s : State) : Prop := ∀ e ∈ s.out, okEv e = true

def okFrame (f : Frame) : Prop := f.body ≠ .log 999

theorem lok_same {s s' : State} (h : LOK s) (ho : s'.out = s.out) : LOK s' := by unfold LOK; rw [ho]; exact h

theorem lok_emit {s : State} (h : LOK s) (e : Ev) (he : okEv e = true) : LOK (s.emit e) := by
  intro x hx
  simp only [out_emit, List.mem_append, List.mem_singleton] at hx
  rcases hx with hx | hx
  · exact h x hx
  · rw [hx]; exact he

theorem lok_crash {s : State} (h : LOK s) (w : String) : LOK (s.crash w) := lok_same h (out_crash s w)

theorem lok_upd {s : State} (h : LOK s) (u : Nat) (f : Module → Module) : LOK (s.upd u f) := lok_same h rfl

theorem okFrame_log (cfg : Cfg) (lvl : Nat) (h : lvl ≠ 999) : okFrame (logFrame cfg lvl) := by
  unfold okFrame logFrame mgrFrame; simp [h]

theorem sendRaw_lok {s : State} (h : LOK s) (u : Nat) (f : Frame) (hf : okFrame f) : LOK (sendRaw s u f).1 := by
  unfold sendRaw
  split
  · exact lok_crash h _
  · split
    · exact lok_crash h _
    · dsimp only
      have h1 := lok_upd h u (fun m => { m with msgCount := m.msgCount + 1 })
      split
      · exact lok_emit h1 _ rfl
      · exact lok_emit (lok_emit h1 _ rfl) _ rfl
      · refine lok_emit h1 _ ?_
        unfold okEv; simpa [okFrame] using hf

theorem removePrep_lok {s : State} (h : LOK s) (u : Nat) (m : Module) : LOK (removePrep s u m) := by
  unfold removePrep; dsimp only
  have h1 : LOK ({ s with idx := m.subs.foldl (fun i t => idxDiscard i t u) s.idx,
                          loggers := s.loggers.filter (· != u) } : State) := lok_same h rfl
  split
  · exact lok_upd h1 u _
  · exact lok_upd (lok_emit h1 _ rfl) u _

def LOKfwd (fwd : Fwd) : Prop := ∀ s g, LOK s → okFrame g → LOK (fwd s g)

section nested
variable {cfg : Cfg} {fwd : Fwd} (hf : LOKfwd fwd)
include hf

theorem logAt_lok {s : State} (h : LOK s) (lvl : Nat) (hl : lvl ≠ 999) : LOK (logAt cfg fwd lvl s) := by
  unfold logAt; split
  · exact hf s _ h (okFrame_log cfg lvl hl)
  · exact h

theorem failedMsg_lok {s : State} (h : LOK s) (d : Int) (f : Frame) : LOK (failedMsg cfg fwd s d f) := by
  unfold failedMsg; split
  · exact h
  · exact hf s _ h (by unfold okFrame failedFrame mgrFrame; simp)

theorem removeModule_lok {s : State} (h : LOK s) (u : Nat) : LOK (removeModule cfg fwd s u) := by
  unfold removeModule
  split
  · exact h
  · rename_i m _
    dsimp only
    exact lok_same (hf _ _ (logAt_lok hf (removePrep_lok h u m) 10 (by decide))
      (by unfold okFrame closedFrame mgrFrame; simp)) rfl

theorem trySend_lok {s : State} (h : LOK s) (u : Nat) (f : Frame) (hfr : okFrame f) : LOK (trySend cfg fwd s u f) := by
  unfold trySend
  dsimp only
  have h1 := sendRaw_lok h u f hfr
  generalize sendRaw s u f = r at h1
  obtain ⟨s1, okb⟩ := r
  simp only at h1 ⊢
  cases okb with
  | true => simp only [if_true]; exact lok_upd h1 u _
  | false =>
    simp only [Bool.false_eq_true, if_false]
    split
    · exact h1
    · exact failedMsg_lok hf (logAt_lok hf (removeModule_lok hf h1 u) 40 (by decide)) _ _

theorem deliverOne_lok {s : State} (h : LOK s) (f : Frame) (hfr : okFrame f) (u : Nat) : LOK (deliverOne cfg fwd f s u) := by
  unfold deliverOne
  split
  · exact h
  · split
    · split
      · exact trySend_lok hf h u f hfr
      · exact h
    · split
      · exact trySend_lok hf h u f hfr
      · exact failedMsg_lok hf (lok_upd h u _) _ _

theorem deliver_lok (f : Frame) (hfr : okFrame f) : ∀ (rs : List Nat) {s : State}, LOK s → LOK (deliver cfg fwd f rs s)
  | [], _, h => h
  | u :: rest, _, h => by unfold deliver; exact deliver_lok f hfr rest (deliverOne_lok hf h f hfr u)

end nested

theorem countMsg_lok {cfg : Cfg} {s : State} (h : LOK s) (t : Int) : LOK (countMsg cfg s t) := by
  unfold countMsg; split
  · exact lok_same h rfl
  · exact lok_same h rfl

theorem forward_lok (cfg : Cfg) : ∀ n, LOKfwd (forward cfg n)
  | 0 => fun s g h _ => by unfold forward; exact lok_crash h _
  | n + 1 => fun s g h hg => by
    have ih := forward_lok cfg n
    unfold forward
    split
    · exact h
    · dsimp only
      have hc := countMsg_lok (cfg := cfg) h g.mtype
      split
      · exact logAt_lok ih hc 40 (by decide)
      · split
        · exact logAt_lok ih hc 40 (by decide)
        · exact deliver_lok ih g hg _ hc

theorem fwdTop_lok (cfg : Cfg) : LOKfwd (fwdTop cfg) := fun s g h hg => forward_lok cfg _ s g h hg

/-! ## every top-level operation -/

section top
variable (cfg : Cfg)

theorem logTop_lok {s : State} (h : LOK s) (lvl : Nat) (hl : lvl ≠ 999) : LOK (logAt cfg (fwdTop cfg) lvl s) :=
  logAt_lok (fwdTop_lok cfg) h lvl hl

theorem removeTop_lok {s : State} (h : LOK s) (u : Nat) : LOK (removeModule cfg (fwdTop cfg) s u) :=
  removeModule_lok (fwdTop_lok cfg) h u

theorem toLoggers_lok (f : Frame) (hfr : okFrame f) : ∀ (ls : List Nat) {s : State}, LOK s → LOK (toLoggers cfg f ls s)
  | [], _, h => h
  | u :: rest, s, h => by
    unfold toLoggers
    apply toLoggers_lok f hfr rest
    unfold loggerOne
    split
    · exact h
    · exact trySend_lok (fwdTop_lok cfg) h u f hfr

theorem sendAck_lok {s : State} (h : LOK s) (u : Nat) : LOK (sendAck cfg s u) := by
  unfold sendAck
  split
  · exact h
  · have hfr : ∀ d, okFrame (ackFrame cfg d) := fun d => by unfold okFrame ackFrame mgrFrame; simp
    exact toLoggers_lok cfg _ (hfr _) _ (trySend_lok (fwdTop_lok cfg) h u _ (hfr _))

theorem infoOf_lok {s : State} (h : LOK s) (m : Module) : LOK (infoOf cfg s m) := by
  unfold infoOf
  exact fwdTop_lok cfg _ _ (logTop_lok cfg h 10 (by decide)) (by unfold okFrame infoFrame mgrFrame; simp)

theorem sendInfo_lok {s : State} (h : LOK s) (u : Nat) : LOK (sendInfo cfg s u) := by
  unfold sendInfo; split
  · exact h
  · exact infoOf_lok cfg h _

theorem clashLoop_lok (me : Module) : ∀ (os : List Module) {s : State}, LOK s → LOK (clashLoop cfg me os s).1
  | [], _, h => h
  | o :: rest, s, h => by
    unfold clashLoop
    split
    · exact h
    · apply clashLoop_lok me rest
      split
      · exact h
      · exact logTop_lok cfg h 10 (by decide)

theorem connect_lok {s : State} (h : LOK s) (u : Nat) (hd : Hdr) : LOK (connectModule cfg s u hd).1 := by
  unfold connectModule
  dsimp only
  split
  · exact h
  · split
    · exact removeTop_lok cfg (logTop_lok cfg (lok_upd h u _) 40 (by decide)) u
    · rename_i nm _
      have h1 : LOK (s.upd u (setAll cfg s.buf hd nm)) := lok_upd h u _
      split
      · split
        · exact removeTop_lok cfg (logTop_lok cfg h1 40 (by decide)) u
        · have hl := clashLoop_lok cfg (setAll cfg s.buf hd nm (lookupMod s u))
            ((s.upd u (setAll cfg s.buf hd nm)).mods.filter (·.uid != u)) h1
          generalize clashLoop cfg (setAll cfg s.buf hd nm (lookupMod s u))
            ((s.upd u (setAll cfg s.buf hd nm)).mods.filter (·.uid != u)) (s.upd u (setAll cfg s.buf hd nm)) = r at hl
          obtain ⟨s2, cl⟩ := r
          dsimp only at hl ⊢
          split
          · exact removeTop_lok cfg (logTop_lok cfg hl 40 (by decide)) u
          · exact lok_same hl rfl
      · split
        · exact removeTop_lok cfg (logTop_lok cfg h1 40 (by decide)) u
        · exact lok_same h1 rfl

theorem setSubs_lok {s : State} (h : LOK s) (i : List (Int × List Nat)) (u : Nat) (l : List Int) :
    LOK (({ s with idx := i } : State).setSubs u l) := lok_same h rfl

theorem addSub_lok {s : State} (h : LOK s) (u : Nat) (t : Int) : LOK (addSub cfg s u t) := by
  have hc : LOK (addSubCore cfg s u t) := by
    unfold addSubCore; dsimp only
    split
    · exact setSubs_lok h _ u _
    · split
      · exact h
      · exact setSubs_lok h _ u _
  unfold addSub; split
  · exact logTop_lok cfg hc 10 (by decide)
  · exact hc

theorem removeSub_lok {s : State} (h : LOK s) (u : Nat) (t : Int) : LOK (removeSub cfg s u t) := by
  have hc : LOK (removeSubCore cfg s u t) := by
    unfold removeSubCore; dsimp only
    split
    · exact setSubs_lok h _ u _
    · split
      · exact h
      · exact setSubs_lok h _ u _
  unfold removeSub; split
  · exact logTop_lok cfg hc 10 (by decide)
  · exact hc

theorem process_lok {s : State} (h : LOK s) (u : Nat) (hd : Hdr) : LOK (processMessage cfg s u hd) := by
  unfold processMessage
  dsimp only
  split
  · have hc := connect_lok cfg h u hd
    generalize connectModule cfg s u hd = r at hc
    obtain ⟨s1, okb⟩ := r
    simp only at hc ⊢
    split
    · exact logTop_lok cfg (infoOf_lok cfg (sendAck_lok cfg hc u) _) 20 (by decide)
    · exact hc
  · split
    · exact logTop_lok cfg (removeTop_lok cfg h u) 20 (by decide)
    · split
      · exact sendAck_lok cfg (addSub_lok cfg h u _) u
      · split
        · exact sendAck_lok cfg (removeSub_lok cfg h u _) u
        · split
          · split
            · exact removeTop_lok cfg (logTop_lok cfg h 40 (by decide)) u
            · exact infoOf_lok cfg (logTop_lok cfg (lok_upd h u _) 20 (by decide)) _
          · split
            · exact sendInfo_lok cfg (lok_upd h u _) u
            · exact fwdTop_lok cfg _ _ (logTop_lok cfg h 10 (by decide)) (by unfold okFrame; simp)

theorem readOne_lok {s : State} (h : LOK s) (r : Read) : LOK (readOne cfg s r) := by
  unfold readOne
  split
  · exact h
  · split
    · exact h
    · have he : LOK (s.emit (.rd r.uid)) := lok_emit h _ rfl
      dsimp only
      split
      · exact logTop_lok cfg (removeTop_lok cfg he _) 40 (by decide)
      · split
        · exact logTop_lok cfg (removeTop_lok cfg he _) 30 (by decide)
        · split
          · exact logTop_lok cfg (removeTop_lok cfg he _) 30 (by decide)
          · split
            · split
              · exact logTop_lok cfg (removeTop_lok cfg he _) 40 (by decide)
              · split
                · exact logTop_lok cfg (removeTop_lok cfg (lok_same he
                    (s' := { (s.emit (.rd r.uid)) with buf := bufWrite (s.emit (.rd r.uid)).buf r.pay r.avail }) rfl) _) 30
                    (by decide)
                · exact process_lok cfg (lok_same he
                    (s' := { (s.emit (.rd r.uid)) with buf := bufWrite (s.emit (.rd r.uid)).buf r.pay r.h.nbytes.toNat }) rfl) _ _
            · exact process_lok cfg he _ _

theorem readAll_lok : ∀ (rs : List Read) {s : State}, LOK s → LOK (readAll cfg rs s)
  | [], _, h => h
  | r :: rest, _, h => by unfold readAll; exact readAll_lok rest (readOne_lok cfg h r)

theorem foldl_fwd_lok : ∀ (fs : List Frame) {s : State}, (∀ f ∈ fs, okFrame f) → LOK s → LOK (fs.foldl (fwdTop cfg) s)
  | [], _, _, h => h
  | f :: rest, s, hf, h => by
    simp only [List.foldl_cons]
    exact foldl_fwd_lok rest (fun g hg => hf g (by simp [hg])) (fwdTop_lok cfg s f h (hf f (by simp)))

theorem infoAll_lok : ∀ (ms : List Module) {s : State}, LOK s → LOK (infoAll cfg ms s)
  | [], _, h => h
  | m :: rest, _, h => by unfold infoAll; exact infoAll_lok rest (infoOf_lok cfg h _)

theorem ticks_lok {s : State} (h : LOK s) : LOK (ticks cfg s) := by
  unfold ticks
  have h1 : LOK (if cfg.timing && s.now - s.tTiming > cfg.pTiming then { sendTiming cfg s with tTiming := s.now } else s) := by
    split
    · unfold sendTiming
      exact lok_same (fwdTop_lok cfg _ _ (lok_same h (s' := { s with counts := [], inTraffic := true }) rfl)
        (by unfold okFrame mgrFrame; simp)) rfl
    · exact h
  generalize (if cfg.timing && s.now - s.tTiming > cfg.pTiming then { sendTiming cfg s with tTiming := s.now } else s) = s1 at h1
  dsimp only
  have h2 : LOK (if s1.now - s1.tTraffic > cfg.pTraffic then sendTraffic cfg s1 else s1) := by
    split
    · unfold sendTraffic
      refine lok_same (foldl_fwd_lok cfg _ ?_ (logTop_lok cfg (lok_same h1 (s' := { s1 with inTraffic := true }) rfl) 10
        (by decide))) rfl
      intro f hf
      unfold trafficFrames at hf
      obtain ⟨p, _, rfl⟩ := List.mem_map.mp hf
      unfold okFrame mgrFrame trafficBody; simp
    · exact h1
  generalize (if s1.now - s1.tTraffic > cfg.pTraffic then sendTraffic cfg s1 else s1) = s2 at h2
  split
  · unfold sendActive
    exact lok_same (fwdTop_lok cfg _ _ (infoAll_lok cfg _ (logTop_lok cfg h2 10 (by decide)))
      (by unfold okFrame mgrFrame; simp)) rfl
  · exact h2

theorem step_lok {s : State} (h : LOK s) (r : Round) : LOK (step cfg s r) := by
  unfold step
  split
  · exact h
  · dsimp only
    apply ticks_lok
    unfold ioStep
    have h0 : LOK (envStep s r) := lok_same h rfl
    split
    · dsimp only
      apply readAll_lok
      cases r.accept with
      | true =>
        simp only [if_true]
        unfold acceptStep
        exact lok_same (logTop_lok cfg h0 20 (by decide)) rfl
      | false => simp only [Bool.false_eq_true, if_false]; exact lok_same h0 rfl
    · exact h0

theorem init_lok : LOK (init cfg) := by
  unfold init
  apply logTop_lok cfg _ 20 (by decide)
  intro e he; cases he

/-- **The model never writes a malformed frame.** -/
theorem run_lok (rs : List Round) : LOK (run cfg rs) := by
  unfold run
  have : ∀ (rs : List Round) (s : State), LOK s → LOK (rs.foldl (step cfg) s) := by
    intro rs; induction rs with
    | nil => intro s h; exact h
    | cons r rest ih => intro s h; exact ih _ (step_lok cfg h r)
  exact this rs _ (init_lok cfg)

/-- in the Spec's terms: no broken frame among the frames sent -/
theorem lok_broken {evs : List Ev} (h : ∀ e ∈ evs, okEv e = true) :
    (Spec.sends evs).filter (fun p => Spec.brokenFrame p.2.2) = [] := by
  rw [List.filter_eq_nil_iff]
  intro p hp
  unfold Spec.sends at hp
  obtain ⟨e, he, hpe⟩ := List.mem_filterMap.mp hp
  cases e with
  | send u c f =>
    simp only [Option.some.injEq] at hpe
    subst hpe
    have := h _ he
    unfold okEv at this
    unfold Spec.brokenFrame
    simpa using this
  | _ => simp at hpe

end top

end Pyrtma.Mgr
