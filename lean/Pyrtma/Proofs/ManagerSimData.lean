import Pyrtma.Proofs.ManagerSimCtl
import Pyrtma.Proofs.ManagerSimOwedData
/-!
# Refinement of the history-based Spec by the manager model M1 — part 4b: data frames (C01)

A published frame: the DEBUG log line, then `forward_message`.  The copies the model writes are exactly one per entry of
the subscriber snapshot that is eligible (`forward_copies`, the statement of `Props/C01.routing_exact` for the top-level
forward); through the simulation this is what `Spec.checkData` demands under C01: no other data frame, copies unmodified,
exactly one copy per eligible subscriber, none for anybody else.
-/
namespace Pyrtma.Mgr
open Spec (A AMod)

theorem quiet_of_QE {B : Body → Bool} {s s' : State} (h : QE B s s') : Quiet B s s' := by
  obtain ⟨ext, he, hq⟩ := h
  unfold Quiet
  rw [he, dataSends_append, hq, List.append_nil]

/-- the copies of input frames the top-level forward of a data frame writes -/
theorem forward_copies (cfg : Cfg) (hfuel : cfg.fuel = 0) (s : State) (f : Frame) (k : Nat) (hb : f.body = .data k)
    (hc : s.crashed = none) (j : Nat) :
    dataSends (cp j) (fwdTop cfg s f).out =
      dataSends (cp j) s.out ++
        (if j = k then (if oor cfg f then [] else ((recipients cfg s f.mtype).filter (elig f s)).map (fun u => (u, f)))
         else []) := by
  by_cases hjk : j = k
  · subst hjk
    simp only [if_true]
    unfold cp
    have hB := tag_data cfg j
    unfold fwdTop fuelOf autoFuel
    simp only [hfuel, beq_self_eq_true, if_true]
    generalize hn : 3 * s.mods.length + 5 = n
    have : 3 * s.mods.length + 6 = n + 1 := by omega
    rw [this]
    have ih := forward_ok cfg hB n
    have hBf : (fun b => b == Body.data j) f.body = true := by simp [hb]
    unfold forward
    simp only [hc, Option.isSome_none, Bool.false_eq_true, if_false]
    have pc := countMsg_pres cfg s f.mtype
    have qc : dataSends (fun b => b == Body.data j) (countMsg cfg s f.mtype).out =
        dataSends (fun b => b == Body.data j) s.out := by rw [countMsg_out]
    have hrec : recipients cfg (countMsg cfg s f.mtype) f.mtype = recipients cfg s f.mtype := by
      unfold recipients countMsg; split <;> rfl
    by_cases h1 : (f.dest < 0 || f.dest > cfg.maxModules) = true
    · have hr : oor cfg f = true := by unfold oor; rw [h1]; rfl
      rw [hr]
      simp only [h1, if_true]
      have := logAt_ok cfg hB ih 40 (countMsg cfg s f.mtype)
      rw [this.2, qc]; simp
    · have h1' : (f.dest < 0 || f.dest > cfg.maxModules) = false := by simpa using h1
      simp only [h1', Bool.false_eq_true, if_false]
      by_cases h2 : (f.destHost < 0 || f.destHost > cfg.maxHosts) = true
      · have hr : oor cfg f = true := by unfold oor; rw [h1', h2]; rfl
        rw [hr]
        simp only [h2, if_true]
        have := logAt_ok cfg hB ih 40 (countMsg cfg s f.mtype)
        rw [this.2, qc]; simp
      · have h2' : (f.destHost < 0 || f.destHost > cfg.maxHosts) = false := by simpa using h2
        have hr : oor cfg f = false := by unfold oor; rw [h1', h2']; rfl
        rw [hr]
        simp only [h2', Bool.false_eq_true, if_false]
        have := deliver_ok cfg hB ih f (recipients cfg (countMsg cfg s f.mtype) f.mtype) (countMsg cfg s f.mtype)
        rw [this.2, qc, hrec]
        have he : (recipients cfg s f.mtype).filter (elig f (countMsg cfg s f.mtype)) =
                  (recipients cfg s f.mtype).filter (elig f s) := by
          congr 1; funext v; exact elig_pres pc f v
        rw [he]
        have hBf' : ((fun b => b == Body.data j) f.body) = true := hBf
        simp only [hBf', if_true]
  · simp only [hjk, if_false, List.append_nil]
    exact (fwdTop_ok cfg (tag_cp cfg j) s f (by simp [cp, hb]; exact fun e => hjk e.symm)).2

/-- "subscribed" in the abstract entry is "the type, or ALL, is in `subs`" in the module record -/
theorem subscribed_iff {cfg : Cfg} {am : AMod} {m : Module} (hsm : SimMod cfg am m) (t : Int) (ht : t ≠ cfg.allTypes) :
    Spec.subscribed am t = true ↔ (t ∈ m.subs ∨ cfg.allTypes ∈ m.subs) := by
  unfold Spec.subscribed
  rw [hsm.subs]
  cases hsa : am.subAll with
  | true => simp
  | false =>
    simp only [Bool.false_or, Bool.false_eq_true, if_false, List.contains_iff_mem]
    constructor
    · intro h; exact Or.inl h
    · intro h; exact h.resolve_right hsm.noAll

/-- the model's eligibility test is the Spec's `ready ∧ destOK` on a connection whose socket works -/
theorem elig_spec {a0 : A} {au : AMod} {sL : State} {u : Nat} {mL : Module} (f : Frame) (h : Hdr) (hd : f.dest = h.dest)
    (hL : sL.find u = some mL) (hcan : canTake sL u = true) (hid : mL.modId = au.modId) (hlg : mL.isLogger = au.isLogger)
    (huid : au.uid = u) (hw : u ∈ a0.w ↔ u ∈ sL.wlist) :
    elig f sL u = (Spec.ready a0 au && Spec.destOK h au) := by
  unfold elig Spec.ready Spec.destOK
  simp only [hL, hcan, Bool.true_and, hd, hid, hlg, huid]
  by_cases hwl : u ∈ sL.wlist
  · have : a0.w.contains u = true := by simpa using hw.mpr hwl
    simp only [hwl, if_true, this, Bool.true_or, Bool.true_and]
  · have : a0.w.contains u = false := by
      cases hc : a0.w.contains u with
      | false => rfl
      | true => exact absurd (hw.mp (by simpa using hc)) hwl
    simp only [hwl, if_false, this, Bool.false_or]
    cases au.isLogger <;> simp

theorem inRange_oor (cfg : Cfg) (h : Hdr) (f : Frame) (hd : f.dest = h.dest) (hh : f.destHost = h.destHost) :
    Spec.inRangeH cfg h = !oor cfg f := by
  unfold Spec.inRangeH oor
  rw [hd, hh, Bool.or_assoc, Bool.or_assoc, ← Bool.or_assoc]

section data
variable {cfg : Cfg} (ok : CfgOK cfg) (hfuel : cfg.fuel = 0) (hperm : OrdPerm cfg)
  {a : A} {s : State} (inv : Inv cfg a s) (rd : Read) (m : Module) (hm : s.find rd.uid = some m)
  (am : AMod) (hget : a.get rd.uid = some am) (hal : am.alive = true)
  (s2 : State) (evs : List Ev) (he : s2.out = (rdState cfg s rd).out ++ evs)
  (hb : Spec.brokenRd cfg rd = false) (q : QuietTo cfg (readOne cfg s rd) s2)
  (hc : (rd.h.mtype == cfg.mtConnect || rd.h.mtype == cfg.mtConnectV2) = false)
  (hd : (rd.h.mtype == cfg.mtDisconnect) = false)
  (hs : (rd.h.mtype == cfg.mtSubscribe || rd.h.mtype == cfg.mtResume || rd.h.mtype == cfg.mtUnsubscribe ||
      rd.h.mtype == cfg.mtPause) = false)
include ok hfuel hperm inv hm hget hal he hb q hc hd hs

/-- a data frame: DEBUG log line, forward; the Spec's C01 clauses (and C19's "never acknowledged") hold of the events,
    and so does C14's "a logger is waited for" -/
theorem seg_data (hn : (rd.h.mtype == cfg.mtSetName) = false) (hr : (rd.h.mtype == cfg.mtModuleReady) = false) :
    SegGoal cfg a rd evs s2 ∧
    (∀ X : A, X.mods = a.mods → X.fail = a.fail → Spec.checkLoggerWaited cfg X rd evs = X) ∧
    Spec.checkData cfg (Spec.afterBuf cfg a rd) rd.h evs = Spec.afterBuf cfg a rd ∧
    Spec.checkAcks cfg (Spec.afterBuf cfg a rd) rd.uid false evs = Spec.afterBuf cfg a rd := by
  rw [readOne_whole cfg s rd inv.top.good.ok m hm hb, pm_data cfg _ _ _ hc hd hs hn hr] at q
  obtain ⟨Z, hZ, hseg⟩ := Spec.segment_data cfg a rd evs am hget hal hb hc hd hs hn hr
  obtain ⟨fr, hfr⟩ : ∃ fr : Frame, fr = Frame.mk rd.h.mtype rd.h.src rd.h.dest rd.h.destHost rd.h.nbytes.toNat (.data rd.h.k) :=
    ⟨_, rfl⟩
  rw [← hfr] at q
  have hfb : fr.body ≠ .ack := by rw [hfr]; simp
  have hfk : fr.body = .data rd.h.k := by rw [hfr]
  have hft : fr.mtype = rd.h.mtype := by rw [hfr]
  have hfd : fr.dest = rd.h.dest := by rw [hfr]
  have hfh : fr.destHost = rd.h.destHost := by rw [hfr]
  have hs0 := rdState_sim inv.sim rd
  have t0 := rdState_top ok hfuel inv.top rd
  have tL : Top cfg (logAt cfg (fwdTop cfg) 10 (rdState cfg s rd)) := top_log ok hfuel t0 10
  have nL := logTop_nest cfg 10 (rdState cfg s rd)
  have pL := (logAt_ok cfg (tag_ack cfg) (fwdTop_ok cfg (tag_ack cfg)) 10 (rdState cfg s rd)).1
  have hall : OrdAll cfg := OrdAll_of_perm hperm
  have dtL := dt_log ok hall hfuel t0 10
  generalize hsLdef : logAt cfg (fwdTop cfg) 10 (rdState cfg s rd) = sL at *
  have dt := dtL.bind (fun h' => dt_fwd ok hall hfuel h' fr (by unfold aboutOf; rw [hfk]))
  have n := nL.trans (fwdTop_nest cfg sL fr)
  have qa : Quiet isAck (rdState cfg s rd) (fwdTop cfg sL fr) := by
    rw [← hsLdef]; exact (qa_log cfg 10 _).trans (qa_fwd cfg _ fr hfb)
  have hnil := acks_nil_of_quiet qa q evs he
  rw [Spec.checkAcks_false_ok cfg _ rd.uid evs hnil] at hZ
  -- the copies of input frames among the events of the segment
  have hcopies : ∀ j, dataSends (cp j) evs =
      if j = rd.h.k then (if oor cfg fr then [] else ((recipients cfg sL fr.mtype).filter (elig fr sL)).map (fun u => (u, fr)))
      else [] := by
    intro j
    have h1 : Quiet (cp j) (rdState cfg s rd) sL := by
      rw [← hsLdef]; exact (logAt_ok cfg (tag_cp cfg j) (fwdTop_ok cfg (tag_cp cfg j)) 10 _).2
    have h2 := forward_copies cfg hfuel sL fr rd.h.k hfk tL.good.ok j
    have h3 := q.noData j
    unfold Quiet at h1 h3
    rw [h2, h1, he, dataSends_append] at h3
    exact List.append_cancel_left h3
  -- a data frame among the events is a copy of the frame just read
  have hbody : ∀ p ∈ Spec.sends evs, ∀ j, p.2.2.body = Body.data j → j = rd.h.k ∧ (p.1, p.2.2) ∈ dataSends (cp rd.h.k) evs := by
    intro p hp j hj
    have hin : (p.1, p.2.2) ∈ dataSends (cp j) evs := by
      rw [← sends_filter_map]
      exact List.mem_map.mpr ⟨p, List.mem_filter.mpr ⟨hp, by simp [cp, hj]⟩, rfl⟩
    have hjk : j = rd.h.k := by
      by_cases hne : j = rd.h.k
      · exact hne
      · rw [hcopies j, if_neg hne] at hin; cases hin
    subst hjk; exact ⟨rfl, hin⟩
  have hdm : Spec.dmine rd.h.k evs = Spec.dcopies evs := by
    unfold Spec.dmine
    apply List.filter_eq_self.mpr
    intro p hp
    obtain ⟨hp1, hp2⟩ := List.mem_filter.mp hp
    cases hpb : p.2.2.body with
    | data j => rw [(hbody p hp1 j hpb).1]; simp
    | _ => rw [hpb] at hp2; cases hp2
  have hdm' : Spec.dmine rd.h.k evs = (Spec.sends evs).filter (fun p => cp rd.h.k p.2.2.body) := by
    unfold Spec.dmine Spec.dcopies
    rw [List.filter_filter]
    apply List.filter_congr
    intro p _
    cases hpb : p.2.2.body <;> simp [cp, hpb]
  have hcount : ∀ u, ((Spec.dmine rd.h.k evs).filter (·.1 == u)).length =
      ((dataSends (cp rd.h.k) evs).filter (·.1 == u)).length := by
    intro u
    rw [← sends_filter_map, ← hdm', List.filter_map, List.length_map]
    rfl
  -- the snapshot of subscribers
  have hta : rd.h.mtype ≠ cfg.allTypes → (recipients cfg sL fr.mtype).Nodup := by
    intro ht
    rw [hft]
    refine snapshot_nodup tL.good.inv rd.h.mtype ht (fun l hl => ⟨(hperm l).nodup_iff.mpr hl, fun x hx => (hperm l).mem_iff.mp hx⟩)
  have hmemR : ∀ u, u ∈ recipients cfg sL fr.mtype ↔ (u ∈ idxGet sL.idx rd.h.mtype ∨ u ∈ idxGet sL.idx cfg.allTypes) := by
    intro u; unfold recipients; rw [List.mem_append, (hperm _).mem_iff, (hperm _).mem_iff, hft]
  have hnn : ¬ rd.h.nbytes < 0 := by
    unfold Spec.brokenRd at hb
    simp only [Bool.or_eq_false_iff, decide_eq_false_iff_not] at hb
    exact hb.1.1.2
  -- every eligible subscriber gets exactly one copy
  have c3 : rd.h.mtype ≠ cfg.allTypes → ∀ au ∈ Spec.dexpected cfg (Spec.afterBuf cfg a rd) rd.h,
      ((Spec.dmine rd.h.k evs).filter (·.1 == au.uid)).length = 1 := by
    intro ht au hau
    unfold Spec.dexpected at hau
    split at hau
    · rename_i hir
      obtain ⟨hau1, hau2⟩ := List.mem_filter.mp hau
      obtain ⟨hau3, hau4⟩ := List.mem_filter.mp hau1
      have halv : au.alive = true ∧ Spec.subscribed au rd.h.mtype = true := by simpa using hau4
      have hrd : (Spec.ready (Spec.afterBuf cfg a rd) au && Spec.destOK rd.h au) = true ∧
          (Spec.afterBuf cfg a rd).failing au.uid = false := by simpa using hau2
      have hlive := live_of_mem (uids_nodup hs0.uids) hau3 halv.1
      have hu0 := uid_pos hs0.uids hau3
      obtain ⟨mu, hmu⟩ := Option.isSome_iff_exists.mp ((hs0.live au.uid hu0).mp (by simp [hlive]))
      have hsmu := hs0.mods au.uid au mu hlive hmu
      have hnf : failOf (rdState cfg s rd) au.uid = none := (failing_iff hs0.fail au.uid).mp hrd.2
      -- it survives the log line
      have hk := pL.keep au.uid hnf
      rw [hmu] at hk
      cases hL : sL.find au.uid with
      | none => simp [hL] at hk
      | some mL =>
        simp only [hL, Option.map_some, Option.some.injEq] at hk
        have hopen : mL.closed = false := tL.aopen au.uid mL hL
        have hcan : canTake sL au.uid = true := by
          unfold canTake; simp [hL, hopen, failOf_congr pL.fail, hnf]
        obtain ⟨_, hid, hlg, _⟩ := core_fields hk
        have hel : elig fr sL au.uid = true := by
          rw [elig_spec fr rd.h hfd hL hcan (by rw [hid, hsmu.modId]) (by rw [hlg, hsmu.isLogger]) rfl
            (by rw [pL.wlist]; exact hs0.w au.uid (by simp [hlive]))]
          exact hrd.1
        have hinR : au.uid ∈ recipients cfg sL fr.mtype := by
          rw [hmemR]
          rcases (subscribed_iff hsmu rd.h.mtype ht).mp halv.2 with h | h
          · exact Or.inl (nL.idxKeep _ _ (hs0.idxIn au.uid mu _ hmu h) ⟨mL, hL, hopen⟩)
          · exact Or.inr (nL.idxKeep _ _ (hs0.idxIn au.uid mu _ hmu h) ⟨mL, hL, hopen⟩)
        rw [hcount, hcopies, if_pos rfl]
        have hoor : oor cfg fr = false := by
          have := inRange_oor cfg rd.h fr hfd hfh
          rw [hir] at this; simpa using this.symm
        simp only [hoor, Bool.false_eq_true, if_false]
        rw [List.filter_map, List.length_map]
        have : (List.filter ((fun x => x.1 == au.uid) ∘ fun u => (u, fr)) ((recipients cfg sL fr.mtype).filter (elig fr sL))) =
            ((recipients cfg sL fr.mtype).filter (elig fr sL)).filter (· == au.uid) := by congr 1
        rw [this, nodup_count_eq _ _ ((hta ht).filter _), if_pos (List.mem_filter.mpr ⟨hinR, hel⟩)]
    · cases hau
  have hdataEq : Spec.checkData cfg (Spec.afterBuf cfg a rd) rd.h evs = Spec.afterBuf cfg a rd := by
    refine Spec.checkData_ok cfg _ rd.h evs (by rw [hdm]) ?_ c3 ?_
      (fun _ hin hg => data_c5 ok hfuel hperm hs0 t0 rd.h fr hft (by rw [hfr]) hfd hfh s2 evs he
        (by rw [hsLdef]; exact q.nest) hin hg)
    · intro p hp
      have hp1 : p ∈ Spec.sends evs := by rw [hdm] at hp; exact (List.mem_filter.mp hp).1
      have hpb : p.2.2.body = Body.data rd.h.k := by
        unfold Spec.dmine at hp; simpa using (List.mem_filter.mp hp).2
      have hin := (hbody p hp1 rd.h.k hpb).2
      rw [hcopies, if_pos rfl] at hin
      split at hin
      · cases hin
      · obtain ⟨u, _, hu⟩ := List.mem_map.mp hin
        have : p.2.2 = fr := (Prod.mk.inj hu).2.symm
        rw [this, hfr]
        exact ⟨rfl, rfl, rfl, rfl, by show ((rd.h.nbytes.toNat : Nat) : Int) = rd.h.nbytes; omega⟩
    · -- nobody else gets one
      intro ht p hp
      have hp1 : p ∈ Spec.sends evs := by rw [hdm] at hp; exact (List.mem_filter.mp hp).1
      have hpb : p.2.2.body = Body.data rd.h.k := by
        unfold Spec.dmine at hp; simpa using (List.mem_filter.mp hp).2
      have hin := (hbody p hp1 rd.h.k hpb).2
      rw [hcopies, if_pos rfl] at hin
      split at hin
      · cases hin
      · rename_i hoor
        obtain ⟨u, hu, hpu⟩ := List.mem_map.mp hin
        have hpu1 : p.1 = u := (Prod.mk.inj hpu).1.symm
        obtain ⟨huR, huE⟩ := List.mem_filter.mp hu
        -- the recipient is a live subscriber whose connection works
        have hE := huE
        unfold elig at hE
        cases hL : sL.find u with
        | none => simp [hL] at hE
        | some mL =>
          simp only [hL, Bool.and_eq_true] at hE
          have hcan := hE.1
          have hopen : mL.closed = false := tL.aopen u mL hL
          obtain ⟨mu, hmu, hcore⟩ := nL.surv u mL hL hopen
          obtain ⟨_, hid, hlg, _⟩ := core_fields hcore
          have hsub0 : u ∈ idxGet (rdState cfg s rd).idx rd.h.mtype ∨ u ∈ idxGet (rdState cfg s rd).idx cfg.allTypes := by
            rcases (hmemR u).mp huR with h | h
            · exact Or.inl (nL.idxSub _ _ h)
            · exact Or.inr (nL.idxSub _ _ h)
          have hu0 : u ≠ 0 := by
            rcases hsub0 with h | h <;> exact hs0.idxPos _ _ h
          have hsubs : rd.h.mtype ∈ mu.subs ∨ cfg.allTypes ∈ mu.subs := by
            rcases hsub0 with h | h
            · obtain ⟨m', hm', ht'⟩ := t0.good.inv.sub _ _ h
              rw [hmu] at hm'; cases hm'; exact Or.inl ht'
            · obtain ⟨m', hm', ht'⟩ := t0.good.inv.sub _ _ h
              rw [hmu] at hm'; cases hm'; exact Or.inr ht'
          obtain ⟨au, hau⟩ := Option.isSome_iff_exists.mp ((hs0.live u hu0).mpr (by simp [hmu]))
          have hsmu := hs0.mods u au mu hau hmu
          obtain ⟨hg, halv⟩ := Spec.live_some.mp hau
          have hauid := Spec.get_uid hg
          have hnf : failOf sL u = none := by
            unfold canTake at hcan; simp [hL] at hcan; simpa using hcan.2
          have hnfA : (Spec.afterBuf cfg a rd).failing u = false :=
            (failing_iff hs0.fail u).mpr (by rw [← failOf_congr pL.fail]; exact hnf)
          have hel : (Spec.ready (Spec.afterBuf cfg a rd) au && Spec.destOK rd.h au) = true := by
            rw [← elig_spec fr rd.h hfd hL hcan (by rw [hid, hsmu.modId]) (by rw [hlg, hsmu.isLogger]) hauid
              (by rw [pL.wlist]; exact hs0.w u (by simp [hau]))]
            exact huE
          have hir : Spec.inRangeH cfg rd.h = true := by
            rw [inRange_oor cfg rd.h fr hfd hfh]; simpa using hoor
          unfold Spec.dexpected
          rw [if_pos hir, List.any_eq_true]
          refine ⟨au, List.mem_filter.mpr ⟨List.mem_filter.mpr ⟨Spec.get_mem hg, ?_⟩, ?_⟩, by rw [hauid, hpu1]; simp⟩
          · simp [halv, (subscribed_iff hsmu rd.h.mtype ht).mpr hsubs]
          · rw [hauid]; simp [hel, hnfA]
  have hdata : Spec.ErrExt ["C14"] (Spec.afterBuf cfg a rd) (Spec.checkData cfg (Spec.afterBuf cfg a rd) rd.h evs) := by
    rw [hdataEq]; exact Spec.ErrExt.refl _ _
  have hW : Spec.CoreExt othersCore (Spec.afterBuf cfg a rd) (Spec.checkDepartures cfg Z none evs) :=
    ((ext_others hdata).trans (core_others hZ)).trans (ext_others (dep_ext hs0 t0 n q evs he
      (hdata.core.trans (hZ.mono (by simp))) none dt.dep (fun u hu => by cases hu)))
  exact ⟨segGoal_of hseg rfl (seg_close hs0 t0 n q evs he hW),
    fun X hXm hXf => Spec.checkLoggerWaited_of_c01 cfg X (Spec.afterBuf cfg a rd) rd evs hXm hXf c3, hdataEq,
    Spec.checkAcks_false_ok cfg _ rd.uid evs hnil⟩

end data

/-! ## CLIENT_SET_NAME and MODULE_READY: a field of the record, then CLIENT_INFO -/

section nameReady
variable {cfg : Cfg} (ok : CfgOK cfg) (hfuel : cfg.fuel = 0) (hall : OrdAll cfg)
  {a : A} {s : State} (inv : Inv cfg a s) (rd : Read) (hu0 : rd.uid ≠ 0) (m : Module) (hm : s.find rd.uid = some m)
  (am : AMod) (hget : a.get rd.uid = some am) (hal : am.alive = true)
  (s2 : State) (evs : List Ev) (he : s2.out = (rdState cfg s rd).out ++ evs)
  (hb : Spec.brokenRd cfg rd = false) (q : QuietTo cfg (readOne cfg s rd) s2)
  (hc : (rd.h.mtype == cfg.mtConnect || rd.h.mtype == cfg.mtConnectV2) = false)
  (hd : (rd.h.mtype == cfg.mtDisconnect) = false)
  (hs : (rd.h.mtype == cfg.mtSubscribe || rd.h.mtype == cfg.mtResume || rd.h.mtype == cfg.mtUnsubscribe ||
      rd.h.mtype == cfg.mtPause) = false)
include ok hfuel hall inv hu0 hm hget hal he hb q hc hd hs

theorem seg_setName (hn : (rd.h.mtype == cfg.mtSetName) = true) (nm : List Nat)
    (hnm : cstr (rdState cfg s rd).buf 0 32 = some nm) : SegGoal cfg a rd evs s2 := by
  rw [readOne_whole cfg s rd inv.top.good.ok m hm hb, pm_setName cfg _ _ _ hc hd hs hn nm hnm] at q
  have hseg := Spec.segment_setName cfg a rd evs am hget hal hb hc hd hs hn nm
    (by rw [bufs_eq inv.sim rd]; exact hnm)
  have hm0 : (rdState cfg s rd).find rd.uid = some m := hm
  have hrec : ∃ m0, ((rdState cfg s rd).upd rd.uid fun m => { m with name := nm }).find rd.uid = some m0 ∧
      lookupMod ((rdState cfg s rd).upd rd.uid fun m => { m with name := nm }) rd.uid = m0 := by
    have := find_upd_self (rdState cfg s rd) rd.uid (fun m => { m with name := nm }) (fun _ => rfl) hm0
    exact ⟨_, this, by unfold lookupMod; rw [this]; rfl⟩
  obtain ⟨m0, hm0f, hlk⟩ := hrec
  rw [hlk] at q
  have hs0 : SimM cfg ((Spec.afterBuf cfg a rd).upd rd.uid (fun m => { m with name := nm }))
      ((rdState cfg s rd).upd rd.uid (fun m => { m with name := nm })) :=
    sim_upd (rdState_sim inv.sim rd) rd.uid _ _ (fun _ => rfl) (fun _ => rfl) (fun _ => rfl)
      (fun am m _ _ h => ⟨h.connected, h.modId, h.unique, h.isLogger, h.isDaemon, rfl, h.pid, h.subs, h.noAll⟩)
      (fun _ => rfl) (fun _ => rfl) (fun _ => rfl) hu0 (fun _ => rfl)
  have t0 : Top cfg ((rdState cfg s rd).upd rd.uid (fun m => { m with name := nm })) :=
    top_upd ok hfuel (rdState_top ok hfuel inv.top rd) rd.uid _ (fun _ => rfl) (fun _ => rfl) (fun _ => rfl)
  generalize hs0' : (rdState cfg s rd).upd rd.uid (fun m => { m with name := nm }) = s0' at *
  have n := (logTop_nest cfg 20 s0').trans (infoOf_nest cfg _ m0)
  have qa := (qa_log cfg 20 s0').trans (qa_info cfg _ m0)
  have hnil := acks_nil_of_quiet qa q evs (by rw [← hs0']; exact he)
  -- the CLIENT_INFO frames describe the table after the update
  have hinfo : InfoTo s0' (fun _ => False) s0' s2 := by
    have i1 := infoTo_log cfg s0' (fun _ => False) 20 s0'
    have p1 := logAt_presAny cfg 20 s0'
    have i2 : InfoTo s0' (fun _ => False) (logAt cfg (fwdTop cfg) 20 s0') (infoOf cfg (logAt cfg (fwdTop cfg) 20 s0') m0) :=
      infoTo_infoOf cfg s0' _ _ m0 (Or.inr ⟨m0, by rw [find_uid hm0f]; exact hm0f, rfl⟩)
    have p2 := p1.trans (infoOf_presAny cfg _ m0)
    exact infoTo_trans (infoTo_trans i1 i2) (infoTo_rebase q.info p2)
  have he' : s2.out = s0'.out ++ evs := by rw [← hs0']; exact he
  have hW : Spec.CoreExt othersCore ((Spec.afterBuf cfg a rd).upd rd.uid (fun m => { m with name := nm }))
      (Spec.checkInfos (Spec.checkDepartures cfg (Spec.checkAcks cfg
        ((Spec.afterBuf cfg a rd).upd rd.uid (fun m => { m with name := nm })) rd.uid false evs) none evs) evs) := by
    rw [Spec.checkAcks_false_ok cfg _ rd.uid evs hnil]
    have hD := dep_ext hs0 t0 n q evs he' (Spec.CoreExt.refl [] _) none
      ((dt_log ok hall hfuel t0 20).bind (fun h' => dt_infoOf ok hall hfuel h' m0)).dep (fun u hu => by cases hu)
    rw [checkInfos_pass hs0 hinfo evs he' (fun _ _ h => h.elim) hD.mods]
    exact ext_others hD
  exact segGoal_of hseg rfl (seg_close hs0 t0 n q evs he' hW)

theorem seg_ready (hn : (rd.h.mtype == cfg.mtSetName) = false) (hr : (rd.h.mtype == cfg.mtModuleReady) = true) :
    SegGoal cfg a rd evs s2 := by
  rw [readOne_whole cfg s rd inv.top.good.ok m hm hb, pm_ready cfg _ _ _ hc hd hs hn hr] at q
  have hseg := Spec.segment_ready cfg a rd evs am hget hal hb hc hd hs hn hr
  rw [bufs_eq inv.sim rd] at hseg
  generalize bufI32 (rdState cfg s rd).buf 0 = pid at q hseg
  have hs0 : SimM cfg ((Spec.afterBuf cfg a rd).upd rd.uid (fun m => { m with pid := pid }))
      ((rdState cfg s rd).upd rd.uid (fun m => { m with pid := pid })) :=
    sim_upd (rdState_sim inv.sim rd) rd.uid _ _ (fun _ => rfl) (fun _ => rfl) (fun _ => rfl)
      (fun am m _ _ h => ⟨h.connected, h.modId, h.unique, h.isLogger, h.isDaemon, h.name, rfl, h.subs, h.noAll⟩)
      (fun _ => rfl) (fun _ => rfl) (fun _ => rfl) hu0 (fun _ => rfl)
  have t0 : Top cfg ((rdState cfg s rd).upd rd.uid (fun m => { m with pid := pid })) :=
    top_upd ok hfuel (rdState_top ok hfuel inv.top rd) rd.uid _ (fun _ => rfl) (fun _ => rfl) (fun _ => rfl)
  generalize hs0' : (rdState cfg s rd).upd rd.uid (fun m => { m with pid := pid }) = s0' at *
  have n := sendInfo_nest cfg s0' rd.uid
  have qa := qa_sendInfo cfg s0' rd.uid
  have he' : s2.out = s0'.out ++ evs := by rw [← hs0']; exact he
  have hnil := acks_nil_of_quiet qa q evs he'
  have hinfo : InfoTo s0' (fun _ => False) s0' s2 := by
    have i1 := infoTo_sendInfo cfg s0' (fun _ => False) s0' rd.uid (Pres.refl s0')
    have p1 : Pres s0' (sendInfo cfg s0' rd.uid) := by
      unfold sendInfo; cases s0'.find rd.uid with
      | none => exact Pres.refl _
      | some m' => exact infoOf_presAny cfg s0' m'
    exact infoTo_trans i1 (infoTo_rebase q.info p1)
  have hW : Spec.CoreExt othersCore ((Spec.afterBuf cfg a rd).upd rd.uid (fun m => { m with pid := pid }))
      (Spec.checkInfos (Spec.checkDepartures cfg (Spec.checkAcks cfg
        ((Spec.afterBuf cfg a rd).upd rd.uid (fun m => { m with pid := pid })) rd.uid false evs) none evs) evs) := by
    rw [Spec.checkAcks_false_ok cfg _ rd.uid evs hnil]
    have hD := dep_ext hs0 t0 n q evs he' (Spec.CoreExt.refl [] _) none
      (dt_sendInfo ok hall hfuel t0 rd.uid).dep (fun u hu => by cases hu)
    rw [checkInfos_pass hs0 hinfo evs he' (fun _ _ h => h.elim) hD.mods]
    exact ext_others hD
  exact segGoal_of hseg rfl (seg_close hs0 t0 n q evs he' hW)

end nameReady

end Pyrtma.Mgr
