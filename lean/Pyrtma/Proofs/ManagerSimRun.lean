import Pyrtma.Proofs.ManagerSimConn
/-!
# Refinement of the history-based Spec by the manager model M1 — part 6: rounds and histories

* `Evt` for everything one frame triggers: the events after the `rd` marker contain no further marker;
* `splitRd` on the log of a round;
* the reading loop of a round (`readAll`) against the Spec's `go`;
* the preamble of a round (clock, failure environment, `accept`, writable set);
* one round; any history.
-/
namespace Pyrtma.Mgr
open Spec (A AMod)

/-! ## the events of one frame -/

theorem evt_upd (s : State) (u : Nat) (f : Module → Module) (hu : ∀ x, (f x).uid = x.uid) (hc : ∀ x, (f x).closed = x.closed) :
    Evt s (s.upd u f) := by
  refine evt_same rfl (fun v ⟨m, hm, hcl⟩ => ?_)
  refine ⟨if m.uid == u then f m else m, by rw [find_upd s u v f hu, hm]; rfl, ?_⟩
  split
  · rw [hc]; exact hcl
  · exact hcl

theorem evt_refl (s : State) : Evt s s := (Nest.refl s).evt

theorem evt_setSubs (s : State) (i : List (Int × List Nat)) (u : Nat) (l : List Int) :
    Evt s (({ s with idx := i } : State).setSubs u l) := by
  have h1 : Evt s ({ s with idx := i } : State) := evt_same rfl (fun _ h => h)
  exact h1.trans (evt_upd _ u _ (fun _ => rfl) (fun _ => rfl))

theorem addSub_evt (cfg : Cfg) (s : State) (u : Nat) (t : Int) : Evt s (addSub cfg s u t) := by
  have hc : Evt s (addSubCore cfg s u t) := by
    unfold addSubCore; dsimp only
    split
    · exact evt_setSubs s _ u _
    · split
      · exact evt_refl s
      · exact evt_setSubs s _ u _
  unfold addSub; split
  · exact hc.trans (logTop_nest cfg 10 _).evt
  · exact hc

theorem removeSub_evt (cfg : Cfg) (s : State) (u : Nat) (t : Int) : Evt s (removeSub cfg s u t) := by
  have hc : Evt s (removeSubCore cfg s u t) := by
    unfold removeSubCore; dsimp only
    split
    · exact evt_setSubs s _ u _
    · split
      · exact evt_refl s
      · exact evt_setSubs s _ u _
  unfold removeSub; split
  · exact hc.trans (logTop_nest cfg 10 _).evt
  · exact hc

theorem connect_evt (cfg : Cfg) (s : State) (u : Nat) (h : Hdr) : Evt s (connectModule cfg s u h).1 := by
  unfold connectModule
  dsimp only
  split
  · exact evt_refl s
  · split
    · exact ((evt_upd s u _ (fun x => (setReq_closed cfg s.buf h x).1) (fun x => (setReq_closed cfg s.buf h x).2)).trans
        (logTop_nest cfg 40 _).evt).trans (removeTop_nest cfg _ u).evt
    · rename_i nm _
      have h1 : Evt s (s.upd u (setAll cfg s.buf h nm)) :=
        evt_upd s u _ (fun x => (setAll_keeps cfg s.buf h nm x).1)
          (fun x => by unfold setAll; exact (setReq_closed cfg s.buf h x).2)
      split
      · split
        · exact (h1.trans (logTop_nest cfg 40 _).evt).trans (removeTop_nest cfg _ u).evt
        · have hl := (clashLoop_nest cfg (setAll cfg s.buf h nm (lookupMod s u))
            ((s.upd u (setAll cfg s.buf h nm)).mods.filter (·.uid != u)) (s.upd u (setAll cfg s.buf h nm))).evt
          generalize clashLoop cfg (setAll cfg s.buf h nm (lookupMod s u))
            ((s.upd u (setAll cfg s.buf h nm)).mods.filter (·.uid != u)) (s.upd u (setAll cfg s.buf h nm)) = r at hl
          obtain ⟨s2, cl⟩ := r
          dsimp only at hl ⊢
          split
          · exact ((h1.trans hl).trans (logTop_nest cfg 40 _).evt).trans (removeTop_nest cfg _ u).evt
          · refine (h1.trans hl).trans ?_
            refine (evt_upd s2 u (fun m => { m with connected := true }) (fun _ => rfl) (fun _ => rfl)).trans ?_
            exact evt_same rfl (fun _ h => h)
      · split
        · exact (h1.trans (logTop_nest cfg 40 _).evt).trans (removeTop_nest cfg _ u).evt
        · rename_i id off _
          refine h1.trans ?_
          have h2 : Evt (s.upd u (setAll cfg s.buf h nm)) ({ (s.upd u (setAll cfg s.buf h nm)) with nextDyn := off } : State) :=
            evt_same rfl (fun _ h => h)
          refine h2.trans ?_
          refine (evt_upd _ u (fun m => { m with modId := id, connected := true }) (fun _ => rfl) (fun _ => rfl)).trans ?_
          exact evt_same rfl (fun _ h => h)

theorem process_evt (cfg : Cfg) (s : State) (u : Nat) (h : Hdr) : Evt s (processMessage cfg s u h) := by
  unfold processMessage
  dsimp only
  split
  · have hc := connect_evt cfg s u h
    generalize connectModule cfg s u h = r at hc
    obtain ⟨s1, okb⟩ := r
    simp only at hc ⊢
    split
    · exact ((hc.trans (sendAck_nest cfg s1 u).evt).trans (infoOf_nest cfg _ _).evt).trans (logTop_nest cfg 20 _).evt
    · exact hc
  · split
    · exact (removeTop_nest cfg s u).evt.trans (logTop_nest cfg 20 _).evt
    · split
      · exact (addSub_evt cfg s u _).trans (sendAck_nest cfg _ u).evt
      · split
        · exact (removeSub_evt cfg s u _).trans (sendAck_nest cfg _ u).evt
        · split
          · split
            · exact (logTop_nest cfg 40 s).evt.trans (removeTop_nest cfg _ u).evt
            · rename_i nm _
              exact ((evt_upd s u (fun m => { m with name := nm }) (fun _ => rfl) (fun _ => rfl)).trans
                (logTop_nest cfg 20 _).evt).trans (infoOf_nest cfg _ _).evt
          · split
            · exact (evt_upd s u (fun m => { m with pid := bufI32 s.buf 0 }) (fun _ => rfl) (fun _ => rfl)).trans
                (sendInfo_nest cfg _ u).evt
            · exact (logTop_nest cfg 10 s).evt.trans (fwdTop_nest cfg _ _).evt

/-- the events of handling one frame: the marker, then an extension without markers -/
theorem readOne_evt (cfg : Cfg) (s : State) (rd : Read) (hc : s.crashed = none) (m : Module) (hm : s.find rd.uid = some m) :
    ∃ E, (readOne cfg s rd).out = s.out ++ Ev.rd rd.uid :: E ∧ ∀ u, Ev.rd u ∉ E := by
  have key : Evt (rdState cfg s rd) (readOne cfg s rd) := by
    by_cases hb : Spec.brokenRd cfg rd = true
    · obtain ⟨lvl, hro⟩ := readOne_broken cfg s rd hc m hm hb
      rw [hro]; exact (removeTop_nest cfg _ rd.uid).evt.trans (logTop_nest cfg lvl _).evt
    · rw [readOne_whole cfg s rd hc m hm (by simpa using hb)]
      exact process_evt cfg _ rd.uid rd.h
  obtain ⟨E, hE, hno, _⟩ := key
  exact ⟨E, by rw [hE, rdState_out]; simp, hno⟩

theorem readOne_skip (cfg : Cfg) (s : State) (rd : Read) (hm : s.find rd.uid = none) : readOne cfg s rd = s := by
  unfold readOne; split
  · rfl
  · simp [hm]

/-! ## `splitRd` -/

theorem splitRd_noRd : ∀ (E : List Ev), (∀ u, Ev.rd u ∉ E) → Spec.splitRd E = (E, [])
  | [], _ => rfl
  | e :: rest, h => by
    have ih := splitRd_noRd rest (fun u hu => h u (List.mem_cons_of_mem _ hu))
    cases e with
    | rd u => exact absurd (List.mem_cons_self) (h u)
    | send _ _ _ => simp only [Spec.splitRd, ih]
    | partialW _ => simp only [Spec.splitRd, ih]
    | wfail _ => simp only [Spec.splitRd, ih]
    | close _ => simp only [Spec.splitRd, ih]

theorem splitRd_rd (u : Nat) (E : List Ev) :
    Spec.splitRd (Ev.rd u :: E) = ([], (u, (Spec.splitRd E).1) :: (Spec.splitRd E).2) := by
  simp only [Spec.splitRd]

theorem splitRd_append : ∀ (E1 E2 : List Ev), (∀ u, Ev.rd u ∉ E1) →
    Spec.splitRd (E1 ++ E2) = (E1 ++ (Spec.splitRd E2).1, (Spec.splitRd E2).2)
  | [], E2, _ => rfl
  | e :: rest, E2, h => by
    have ih := splitRd_append rest E2 (fun u hu => h u (List.mem_cons_of_mem _ hu))
    cases e with
    | rd u => exact absurd (List.mem_cons_self) (h u)
    | send _ _ _ => simp only [List.cons_append, Spec.splitRd, ih]
    | partialW _ => simp only [List.cons_append, Spec.splitRd, ih]
    | wfail _ => simp only [List.cons_append, Spec.splitRd, ih]
    | close _ => simp only [List.cons_append, Spec.splitRd, ih]

/-! ## the reading loop against the Spec's `go` -/

theorem go_nil (cfg : Cfg) (a : A) (fuel : Nat) : Spec.round.go cfg a [] [] fuel = a := by
  rw [Spec.round.go.eq_def]; cases fuel <;> rfl

theorem go_skip (cfg : Cfg) (a : A) (rd : Read) (rest : List Read) (segs : List (Nat × List Ev)) (fuel : Nat)
    (h : a.live rd.uid = none) :
    Spec.round.go cfg a (rd :: rest) segs (fuel + 1) = Spec.round.go cfg a rest segs fuel := by
  rw [Spec.round.go.eq_def]
  simp only []
  unfold Spec.A.live at h
  cases hg : a.get rd.uid with
  | none => rfl
  | some m =>
    rw [hg] at h
    have : m.alive = false := by
      cases hal : m.alive with
      | false => rfl
      | true => simp [hal] at h
    simp [this]

theorem go_take (cfg : Cfg) (a : A) (rd : Read) (rest : List Read) (evs : List Ev) (segs : List (Nat × List Ev))
    (fuel : Nat) (m : AMod) (h : a.live rd.uid = some m) :
    Spec.round.go cfg a (rd :: rest) ((rd.uid, evs) :: segs) (fuel + 1) =
      Spec.round.go cfg (Spec.segment cfg a rd evs) rest segs fuel := by
  rw [Spec.round.go.eq_def]
  simp only []
  obtain ⟨hg, hal⟩ := Spec.live_some.mp h
  simp [hg, hal]

/-- with no segment left, `go` only reports (under C03) the frames that were never read -/
theorem go_nil_ext (cfg : Cfg) : ∀ (reads : List Read) (a : A) (fuel : Nat),
    Spec.ErrExt ["C03"] a (Spec.round.go cfg a reads [] fuel)
  | [], a, fuel => by rw [go_nil]; exact Spec.ErrExt.refl _ _
  | rd :: rest, a, 0 => by rw [Spec.round.go.eq_def]; exact Spec.ErrExt.refl _ _
  | rd :: rest, a, fuel + 1 => by
    rw [Spec.round.go.eq_def]
    simp only []
    split
    · split
      · exact go_nil_ext cfg rest a fuel
      · exact Spec.errExt_err _ _ _ _ (by simp)
    · exact go_nil_ext cfg rest a fuel

theorem readAll_cons (cfg : Cfg) (rd : Read) (rest : List Read) (s : State) :
    readAll cfg (rd :: rest) s = readAll cfg rest (readOne cfg s rd) := rfl

theorem quietTo_refl {cfg : Cfg} {s : State} (t : Top cfg s) (j : J s) : QuietTo cfg s s :=
  ⟨Nest.refl s, t, j, Quiet.refl _ s⟩

section loop
variable {cfg : Cfg} (ok : CfgOK cfg) (hfuel : cfg.fuel = 0) (hperm : OrdPerm cfg)
include ok hfuel

/-- the log only grows while frames are read -/
theorem readAll_out : ∀ (reads : List Read) (s : State), Top cfg s → ∃ E, (readAll cfg reads s).out = s.out ++ E
  | [], s, _ => ⟨[], by simp [readAll]⟩
  | rd :: rest, s, t => by
    rw [readAll_cons]
    obtain ⟨E2, h2⟩ := readAll_out rest (readOne cfg s rd) (top_readOne ok hfuel t rd)
    cases hm : s.find rd.uid with
    | none => rw [readOne_skip cfg s rd hm] at h2 ⊢; exact ⟨E2, h2⟩
    | some m =>
      obtain ⟨E1, h1, _⟩ := readOne_evt cfg s rd t.good.ok m hm
      exact ⟨Ev.rd rd.uid :: E1 ++ E2, by rw [h2, h1]; simp⟩

include hperm

/-- **The reading loop.**  Either no frame of `reads` is handled (all their connections are gone), or the Spec's loop over
the same frames and the segments of the model's events ends in a state that simulates the model's, with no violation of
a proved property.  `sQ` is the model state after a quiet continuation (the periodic section), whose events belong to
the last segment. -/
theorem readAll_go : ∀ (reads : List Read) (a : A) (s sQ : State) (E : List Ev) (fuel : Nat),
    Inv cfg a s → (∀ rd ∈ reads, rd.uid ≠ 0) → reads.length ≤ fuel →
    QuietTo cfg (readAll cfg reads s) sQ → sQ.out = s.out ++ E →
    ((∀ u, Ev.rd u ∉ E) ∧ readAll cfg reads s = s) ∨
    ((Spec.splitRd E).1 = [] ∧ (Spec.splitRd E).2 ≠ [] ∧
      Inv cfg (Spec.round.go cfg a reads (Spec.splitRd E).2 fuel) sQ ∧
      (∀ p ∈ proven, Spec.NoErr p a → Spec.NoErr p (Spec.round.go cfg a reads (Spec.splitRd E).2 fuel)))
  | [], a, s, sQ, E, fuel, inv, _, _, q, he => by
    left
    obtain ⟨E', hE', hno, _⟩ := q.nest.ext
    have : E' = E := List.append_cancel_left (hE'.symm.trans he)
    subst this
    exact ⟨hno, rfl⟩
  | rd :: rest, a, s, sQ, E, 0, _, _, hlen, _, _ => by simp at hlen
  | rd :: rest, a, s, sQ, E, fuel + 1, inv, hwf, hlen, q, he => by
    have hu0 : rd.uid ≠ 0 := hwf rd (by simp)
    have hwf' : ∀ x ∈ rest, x.uid ≠ 0 := fun x hx => hwf x (by simp [hx])
    have hlen' : rest.length ≤ fuel := by simp at hlen; omega
    rw [readAll_cons] at q
    cases hm : s.find rd.uid with
    | none =>
      -- the connection is gone: skipped on both sides
      rw [readOne_skip cfg s rd hm] at q
      have hdead : a.live rd.uid = none := by
        cases hl : a.live rd.uid with
        | none => rfl
        | some x =>
          have := (inv.sim.live rd.uid hu0).mp (by simp [hl])
          rw [hm] at this; cases this
      rcases readAll_go rest a s sQ E fuel inv hwf' hlen' q he with ⟨h1, h2⟩ | ⟨h1, h2, h3, h4⟩
      · left; exact ⟨h1, by rw [readAll_cons, readOne_skip cfg s rd hm]; exact h2⟩
      · right; rw [go_skip cfg a rd rest _ fuel hdead]; exact ⟨h1, h2, h3, h4⟩
    | some m =>
      right
      obtain ⟨am, ham⟩ := Option.isSome_iff_exists.mp ((inv.sim.live rd.uid hu0).mpr (by simp [hm]))
      have t1 : Top cfg (readOne cfg s rd) := top_readOne ok hfuel inv.top rd
      have j1 : J (readOne cfg s rd) := readOne_J cfg inv.j rd
      obtain ⟨E1, hE1, hno1⟩ := readOne_evt cfg s rd inv.top.good.ok m hm
      obtain ⟨E2a, hE2a⟩ := readAll_out ok hfuel rest (readOne cfg s rd) t1
      obtain ⟨E2b, hE2b, _, _⟩ := q.nest.ext
      have hE2 : sQ.out = (readOne cfg s rd).out ++ (E2a ++ E2b) := by rw [hE2b, hE2a, List.append_assoc]
      have hE : E = Ev.rd rd.uid :: E1 ++ (E2a ++ E2b) := by
        have : s.out ++ E = s.out ++ (Ev.rd rd.uid :: E1 ++ (E2a ++ E2b)) := by
          rw [← he, hE2, hE1]; simp
        exact List.append_cancel_left this
      -- the abstract state after this frame alone
      have hx := segment_ok ok hfuel hperm inv rd hu0 m hm (readOne cfg s rd) (quietTo_refl t1 j1) E1 hE1
      rcases readAll_go rest (Spec.segment cfg a rd E1) (readOne cfg s rd) sQ (E2a ++ E2b) fuel ⟨hx.1.sim, hx.1.top, hx.1.j⟩
          hwf' hlen' q hE2 with ⟨h1, h2⟩ | ⟨h1, h2, h3, h4⟩
      · -- the last frame handled in this round: the continuation's events belong to its segment
        rw [h2] at q
        have hsplit : Spec.splitRd E = ([], [(rd.uid, E1 ++ (E2a ++ E2b))]) := by
          rw [hE, List.cons_append, splitRd_rd, splitRd_noRd (E1 ++ (E2a ++ E2b))]
          intro u hu
          rcases List.mem_append.mp hu with h | h
          · exact hno1 u h
          · exact h1 u h
        have hseg := segment_ok ok hfuel hperm inv rd hu0 m hm sQ q (E1 ++ (E2a ++ E2b))
          (by rw [he, hE]; simp)
        rw [hsplit]
        refine ⟨rfl, by simp, ?_, ?_⟩
        · rw [go_take cfg a rd rest _ [] fuel am ham]
          have hext := go_nil_ext cfg rest (Spec.segment cfg a rd (E1 ++ (E2a ++ E2b))) fuel
          exact ⟨sim_coreExt hseg.1.sim hext.core, hseg.1.top, hseg.1.j⟩
        · intro p hp hn
          rw [go_take cfg a rd rest _ [] fuel am ham]
          have hext := go_nil_ext cfg rest (Spec.segment cfg a rd (E1 ++ (E2a ++ E2b))) fuel
          refine hext.noErr ?_ (hseg.2 p hp hn)
          have := proven_not hp
          intro hmem; apply this; simp only [List.mem_singleton] at hmem; subst hmem; simp [others]
      · have hsplit : Spec.splitRd E = ([], (rd.uid, E1) :: (Spec.splitRd (E2a ++ E2b)).2) := by
          rw [hE, List.cons_append, splitRd_rd, splitRd_append E1 _ hno1, h1]; simp
        rw [hsplit]
        refine ⟨rfl, by simp, ?_, ?_⟩
        · rw [go_take cfg a rd rest E1 _ fuel am ham]; exact h3
        · intro p hp hn
          rw [go_take cfg a rd rest E1 _ fuel am ham]
          exact h4 p hp (hx.2 p hp hn)

end loop

/-! ## the preamble of a round -/

/-- clock and failure environment -/
theorem sim_env {cfg : Cfg} {a : A} {s : State} (hs : Sim cfg a s) (r : Round) :
    Sim cfg { a with now := a.now + r.dt,
                     fail := (r.failSet.filter (·.1 ≤ a.nAccepted)).foldl
                       (fun fl (p : Nat × Option FailMode) => setFail fl p.1 p.2) a.fail } (envStep s r) := by
  unfold envStep
  exact ⟨hs.uids, hs.nacc, by show _ = _; rw [hs.nacc, hs.fail], hs.buf, hs.live, hs.mods, hs.w, hs.logIn, hs.logOut,
    hs.logConn, hs.logNodup, hs.logBound⟩

/-- the connections the Spec considers alive are the table entries -/
theorem liveList_contains {cfg : Cfg} {a : A} {s : State} (hs : Sim cfg a s) (u : Nat) (hu : u ≠ 0) :
    ((a.mods.filter (·.alive)).map (·.uid)).contains u = (s.find u).isSome := by
  have hnd := uids_nodup hs.uids
  have h1 : ((a.mods.filter (·.alive)).map (·.uid)).contains u = true ↔ (a.live u).isSome = true := by
    rw [List.contains_iff_mem, List.mem_map]
    constructor
    · rintro ⟨m, hm, rfl⟩
      obtain ⟨hm1, hm2⟩ := List.mem_filter.mp hm
      rw [live_of_mem hnd hm1 hm2]; rfl
    · intro h
      obtain ⟨m, hm⟩ := Option.isSome_iff_exists.mp h
      obtain ⟨hg, hal⟩ := Spec.live_some.mp hm
      exact ⟨m, List.mem_filter.mpr ⟨Spec.get_mem hg, hal⟩, Spec.get_uid hg⟩
  have h2 := hs.live u hu
  cases hc : ((a.mods.filter (·.alive)).map (·.uid)).contains u with
  | true => exact (h2.mp (h1.mp hc)).symm
  | false =>
    cases hf : (s.find u).isSome with
    | false => rfl
    | true => rw [h1.mpr (h2.mpr hf)] at hc; cases hc

theorem aget_none_of_fresh {a : A} {n : Nat} (h : a.mods.map (·.uid) = (List.range n).map (· + 1)) (u : Nat) (hu : n < u) :
    a.get u = none := by
  cases hg : a.get u with
  | none => rfl
  | some m =>
    have : m.uid ∈ a.mods.map (·.uid) := List.mem_map.mpr ⟨m, Spec.get_mem hg, rfl⟩
    rw [h, Spec.get_uid hg] at this
    obtain ⟨k, hk, hk'⟩ := List.mem_map.mp this
    have := List.mem_range.mp hk
    omega

/-- `accept()`: a fresh entry on both sides (and the writable set sampled afterwards) -/
theorem sim_accept {cfg : Cfg} {a : A} {s : State} (hs : Sim cfg a s) (wA wM : List Nat)
    (hw : ∀ v, (v = a.nAccepted + 1 ∨ (a.live v).isSome) → (v ∈ wA ↔ v ∈ wM)) :
    Sim cfg { a with nAccepted := a.nAccepted + 1, mods := a.mods ++ [{ uid := a.nAccepted + 1 }], w := wA }
      { s with nextUid := s.nextUid + 1, mods := s.mods ++ [{ uid := s.nextUid + 1 }], wlist := wM } := by
  have hn := hs.nacc
  have hgetA : ∀ v, ({ a with nAccepted := a.nAccepted + 1, mods := a.mods ++ [{ uid := a.nAccepted + 1 }], w := wA } : A).get v =
      if v = a.nAccepted + 1 then some { uid := a.nAccepted + 1 } else a.get v := by
    intro v
    show (a.mods ++ [({ uid := a.nAccepted + 1 } : AMod)]).find? (·.uid == v) = _
    rw [List.find?_append]
    by_cases hv : v = a.nAccepted + 1
    · subst hv
      have : a.mods.find? (·.uid == a.nAccepted + 1) = none := aget_none_of_fresh hs.uids _ (Nat.lt_succ_self _)
      simp [this]
    · simp only [hv, if_false]
      cases hh : a.mods.find? (·.uid == v) with
      | some x => unfold Spec.A.get; rw [hh]; rfl
      | none =>
        unfold Spec.A.get; rw [hh]
        have : ((a.nAccepted + 1) == v) = false := by simpa using fun e => hv e.symm
        simp [this]
  have hfindS : ∀ v, ({ s with nextUid := s.nextUid + 1, mods := s.mods ++ [{ uid := s.nextUid + 1 }], wlist := wM } : State).find v =
      if v = s.nextUid + 1 then some { uid := s.nextUid + 1 } else s.find v := by
    intro v
    show (s.mods ++ [({ uid := s.nextUid + 1 } : Module)]).find? (·.uid == v) = _
    rw [List.find?_append]
    by_cases hv : v = s.nextUid + 1
    · subst hv
      have : s.mods.find? (·.uid == s.nextUid + 1) = none := sim_fresh hs _ (Nat.lt_succ_self _)
      simp [this]
    · simp only [hv, if_false]
      cases hh : s.mods.find? (·.uid == v) with
      | some x => unfold State.find; rw [hh]; rfl
      | none =>
        unfold State.find; rw [hh]
        have : ((s.nextUid + 1) == v) = false := by simpa using fun e => hv e.symm
        simp [this]
  have hliveA : ∀ v, ({ a with nAccepted := a.nAccepted + 1, mods := a.mods ++ [{ uid := a.nAccepted + 1 }], w := wA } : A).live v =
      if v = a.nAccepted + 1 then some { uid := a.nAccepted + 1 } else a.live v := by
    intro v
    unfold Spec.A.live
    rw [hgetA]
    by_cases hv : v = a.nAccepted + 1
    · simp only [hv, if_true]
    · simp only [hv, if_false]
  refine ⟨?_, by show a.nAccepted + 1 = s.nextUid + 1; rw [hn], hs.fail, hs.buf, fun v hv => ?_, fun v am m h1 h2 => ?_,
    fun v hl => ?_, fun v m h1 h2 => ?_, fun v m h1 h2 => ?_, fun v m h1 h2 => ?_, hs.logNodup,
    fun u hu => Nat.le_succ_of_le (hs.logBound u hu)⟩
  · show (a.mods ++ [({ uid := a.nAccepted + 1 } : AMod)]).map (·.uid) = (List.range (a.nAccepted + 1)).map (· + 1)
    rw [List.map_append, hs.uids, List.range_succ, List.map_append]; rfl
  · rw [hliveA, hfindS, hn]; split
    · simp
    · exact hs.live v hv
  · rw [hliveA] at h1; rw [hfindS] at h2; rw [hn] at h1
    split at h1
    · rename_i hv; simp only [hv, if_true] at h2
      cases h1; cases h2
      exact ⟨rfl, rfl, rfl, rfl, rfl, rfl, rfl, rfl, by simp⟩
    · rename_i hv; simp only [hv, if_false] at h2
      exact hs.mods v am m h1 h2
  · rw [hliveA] at hl
    show v ∈ wA ↔ v ∈ wM
    by_cases hv : v = a.nAccepted + 1
    · exact hw v (Or.inl hv)
    · simp only [hv, if_false] at hl; exact hw v (Or.inr hl)
  · rw [hfindS] at h1
    split at h1
    · cases h1; cases h2
    · exact hs.logIn v m h1 h2
  · rw [hfindS] at h2
    split at h2
    · rename_i hv
      have := hs.logBound v h1
      omega
    · exact hs.logOut v m h1 h2
  · rw [hfindS] at h1
    split at h1
    · cases h1; cases h2
    · exact hs.logConn v m h1 h2

/-- the writable set is sampled again -/
theorem sim_setW {cfg : Cfg} {a : A} {s : State} (hs : Sim cfg a s) (wA wM : List Nat)
    (hw : ∀ v, (a.live v).isSome → (v ∈ wA ↔ v ∈ wM)) : Sim cfg { a with w := wA } { s with wlist := wM } :=
  ⟨hs.uids, hs.nacc, hs.fail, hs.buf, hs.live, hs.mods, hw, hs.logIn, hs.logOut, hs.logConn, hs.logNodup, hs.logBound⟩

end Pyrtma.Mgr
