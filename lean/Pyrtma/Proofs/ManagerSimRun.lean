import Pyrtma.Proofs.ManagerSimAdj
import Pyrtma.Proofs.ManagerSimLog
import Pyrtma.Proofs.ManagerSimMult
import Pyrtma.Proofs.ManagerSpecOrd
import Pyrtma.Proofs.ManagerCount
/-!
# Refinement of the history-based Spec by the manager model M1 — part 6: rounds and histories

* `Evt` for everything one frame triggers: the events after the `rd` marker contain no further marker;
* `splitRd` on the log of a round;
* the reading loop of a round (`readAll`) against the Spec's `go`;
* the preamble of a round (clock, failure environment, `accept`, writable set);
* one round; any history.
-/
namespace Pyrtma.Mgr
open Spec (A AMod)

/-! ## the events of one frame -/

theorem evt_upd (s : State) (u : Nat) (f : Module → Module) (hu : ∀ x, (f x).uid = x.uid) (hc : ∀ x, (f x).closed = x.closed) :
    Evt s (s.upd u f) := by
  refine evt_same rfl (fun v ⟨m, hm, hcl⟩ => ?_) (uids_upd s u f hu)
  refine ⟨if m.uid == u then f m else m, by rw [find_upd s u v f hu, hm]; rfl, ?_⟩
  split
  · rw [hc]; exact hcl
  · exact hcl

theorem evt_refl (s : State) : Evt s s := (Nest.refl s).evt

theorem evt_setSubs (s : State) (i : List (Int × List Nat)) (u : Nat) (l : List Int) :
    Evt s (({ s with idx := i } : State).setSubs u l) := by
  have h1 : Evt s ({ s with idx := i } : State) := evt_same rfl (fun _ h => h)
  exact h1.trans (evt_upd _ u _ (fun _ => rfl) (fun _ => rfl))

theorem addSub_evt (cfg : Cfg) (s : State) (u : Nat) (t : Int) : Evt s (addSub cfg s u t) := by
  have hc : Evt s (addSubCore cfg s u t) := by
    unfold addSubCore; dsimp only
    split
    · exact evt_setSubs s _ u _
    · split
      · exact evt_refl s
      · exact evt_setSubs s _ u _
  unfold addSub; split
  · exact hc.trans (logTop_nest cfg 10 _).evt
  · exact hc

theorem removeSub_evt (cfg : Cfg) (s : State) (u : Nat) (t : Int) : Evt s (removeSub cfg s u t) := by
  have hc : Evt s (removeSubCore cfg s u t) := by
    unfold removeSubCore; dsimp only
    split
    · exact evt_setSubs s _ u _
    · split
      · exact evt_refl s
      · exact evt_setSubs s _ u _
  unfold removeSub; split
  · exact hc.trans (logTop_nest cfg 10 _).evt
  · exact hc

theorem connect_evt (cfg : Cfg) (s : State) (u : Nat) (h : Hdr) : Evt s (connectModule cfg s u h).1 := by
  unfold connectModule
  dsimp only
  split
  · exact evt_refl s
  · split
    · exact ((evt_upd s u _ (fun x => (setReq_closed cfg s.buf h x).1) (fun x => (setReq_closed cfg s.buf h x).2)).trans
        (logTop_nest cfg 40 _).evt).trans (removeTop_nest cfg _ u).evt
    · rename_i nm _
      have h1 : Evt s (s.upd u (setAll cfg s.buf h nm)) :=
        evt_upd s u _ (fun x => (setAll_keeps cfg s.buf h nm x).1)
          (fun x => by unfold setAll; exact (setReq_closed cfg s.buf h x).2)
      split
      · split
        · exact (h1.trans (logTop_nest cfg 40 _).evt).trans (removeTop_nest cfg _ u).evt
        · have hl := (clashLoop_nest cfg (setAll cfg s.buf h nm (lookupMod s u))
            ((s.upd u (setAll cfg s.buf h nm)).mods.filter (·.uid != u)) (s.upd u (setAll cfg s.buf h nm))).evt
          generalize clashLoop cfg (setAll cfg s.buf h nm (lookupMod s u))
            ((s.upd u (setAll cfg s.buf h nm)).mods.filter (·.uid != u)) (s.upd u (setAll cfg s.buf h nm)) = r at hl
          obtain ⟨s2, cl⟩ := r
          dsimp only at hl ⊢
          split
          · exact ((h1.trans hl).trans (logTop_nest cfg 40 _).evt).trans (removeTop_nest cfg _ u).evt
          · refine (h1.trans hl).trans ?_
            refine (evt_upd s2 u (fun m => { m with connected := true }) (fun _ => rfl) (fun _ => rfl)).trans ?_
            exact evt_same rfl (fun _ h => h)
      · split
        · exact (h1.trans (logTop_nest cfg 40 _).evt).trans (removeTop_nest cfg _ u).evt
        · rename_i id off _
          refine h1.trans ?_
          have h2 : Evt (s.upd u (setAll cfg s.buf h nm)) ({ (s.upd u (setAll cfg s.buf h nm)) with nextDyn := off } : State) :=
            evt_same rfl (fun _ h => h)
          refine h2.trans ?_
          refine (evt_upd _ u (fun m => { m with modId := id, connected := true }) (fun _ => rfl) (fun _ => rfl)).trans ?_
          exact evt_same rfl (fun _ h => h)

theorem process_evt (cfg : Cfg) (s : State) (u : Nat) (h : Hdr) : Evt s (processMessage cfg s u h) := by
  unfold processMessage
  dsimp only
  split
  · have hc := connect_evt cfg s u h
    generalize connectModule cfg s u h = r at hc
    obtain ⟨s1, okb⟩ := r
    simp only at hc ⊢
    split
    · exact ((hc.trans (sendAck_nest cfg s1 u).evt).trans (infoOf_nest cfg _ _).evt).trans (logTop_nest cfg 20 _).evt
    · exact hc
  · split
    · exact (removeTop_nest cfg s u).evt.trans (logTop_nest cfg 20 _).evt
    · split
      · exact (addSub_evt cfg s u _).trans (sendAck_nest cfg _ u).evt
      · split
        · exact (removeSub_evt cfg s u _).trans (sendAck_nest cfg _ u).evt
        · split
          · split
            · exact (logTop_nest cfg 40 s).evt.trans (removeTop_nest cfg _ u).evt
            · rename_i nm _
              exact ((evt_upd s u (fun m => { m with name := nm }) (fun _ => rfl) (fun _ => rfl)).trans
                (logTop_nest cfg 20 _).evt).trans (infoOf_nest cfg _ _).evt
          · split
            · exact (evt_upd s u (fun m => { m with pid := bufI32 s.buf 0 }) (fun _ => rfl) (fun _ => rfl)).trans
                (sendInfo_nest cfg _ u).evt
            · exact (logTop_nest cfg 10 s).evt.trans (fwdTop_nest cfg _ _).evt

/-- the events of handling one frame: the marker, then an extension without markers -/
theorem readOne_evt (cfg : Cfg) (s : State) (rd : Read) (hc : s.crashed = none) (m : Module) (hm : s.find rd.uid = some m) :
    ∃ E, (readOne cfg s rd).out = s.out ++ Ev.rd rd.uid :: E ∧ ∀ u, Ev.rd u ∉ E := by
  have key : Evt (rdState cfg s rd) (readOne cfg s rd) := by
    by_cases hb : Spec.brokenRd cfg rd = true
    · obtain ⟨lvl, hro⟩ := readOne_broken cfg s rd hc m hm hb
      rw [hro]; exact (removeTop_nest cfg _ rd.uid).evt.trans (logTop_nest cfg lvl _).evt
    · rw [readOne_whole cfg s rd hc m hm (by simpa using hb)]
      exact process_evt cfg _ rd.uid rd.h
  obtain ⟨⟨E, hE, hno, _⟩, _⟩ := key
  exact ⟨E, by rw [hE, rdState_out]; simp, hno⟩

/-- reading frames never adds a table entry -/
theorem readOne_usub (cfg : Cfg) (s : State) (rd : Read) :
    ((readOne cfg s rd).mods.map (·.uid)).Sublist (s.mods.map (·.uid)) := by
  by_cases hc : s.crashed = none
  · cases hm : s.find rd.uid with
    | none =>
      have : readOne cfg s rd = s := by unfold readOne; simp [hc, hm]
      rw [this]; exact List.Sublist.refl _
    | some m =>
      have key : Evt (rdState cfg s rd) (readOne cfg s rd) := by
        by_cases hb : Spec.brokenRd cfg rd = true
        · obtain ⟨lvl, hro⟩ := readOne_broken cfg s rd hc m hm hb
          rw [hro]; exact (removeTop_nest cfg _ rd.uid).evt.trans (logTop_nest cfg lvl _).evt
        · rw [readOne_whole cfg s rd hc m hm (by simpa using hb)]
          exact process_evt cfg _ rd.uid rd.h
      exact key.2
  · have : readOne cfg s rd = s := by
      unfold readOne
      cases hcr : s.crashed with
      | none => exact absurd hcr hc
      | some w => simp
    rw [this]; exact List.Sublist.refl _

theorem readAll_usub (cfg : Cfg) : ∀ (reads : List Read) (s : State),
    ((readAll cfg reads s).mods.map (·.uid)).Sublist (s.mods.map (·.uid))
  | [], s => List.Sublist.refl _
  | rd :: rest, s => (readAll_usub cfg rest (readOne cfg s rd)).trans (readOne_usub cfg s rd)

theorem readOne_skip (cfg : Cfg) (s : State) (rd : Read) (hm : s.find rd.uid = none) : readOne cfg s rd = s := by
  unfold readOne; split
  · rfl
  · simp [hm]

/-! ## `splitRd` -/

theorem splitRd_none : ∀ (E : List Ev), (∀ u, Ev.rd u ∉ E) → Spec.splitRd E = (E, [])
  | [], _ => rfl
  | e :: rest, h => by
    have ih := splitRd_none rest (fun u hu => h u (List.mem_cons_of_mem _ hu))
    cases e with
    | rd u => exact absurd (List.mem_cons_self) (h u)
    | send _ _ _ => simp only [Spec.splitRd, ih]
    | partialW _ => simp only [Spec.splitRd, ih]
    | wfail _ => simp only [Spec.splitRd, ih]
    | close _ => simp only [Spec.splitRd, ih]

theorem splitRd_cons (u : Nat) (E : List Ev) :
    Spec.splitRd (Ev.rd u :: E) = ([], (u, (Spec.splitRd E).1) :: (Spec.splitRd E).2) := by
  simp only [Spec.splitRd]

theorem splitRd_append : ∀ (E1 E2 : List Ev), (∀ u, Ev.rd u ∉ E1) →
    Spec.splitRd (E1 ++ E2) = (E1 ++ (Spec.splitRd E2).1, (Spec.splitRd E2).2)
  | [], E2, _ => rfl
  | e :: rest, E2, h => by
    have ih := splitRd_append rest E2 (fun u hu => h u (List.mem_cons_of_mem _ hu))
    cases e with
    | rd u => exact absurd (List.mem_cons_self) (h u)
    | send _ _ _ => simp only [List.cons_append, Spec.splitRd, ih]
    | partialW _ => simp only [List.cons_append, Spec.splitRd, ih]
    | wfail _ => simp only [List.cons_append, Spec.splitRd, ih]
    | close _ => simp only [List.cons_append, Spec.splitRd, ih]

/-! ## the reading loop against the Spec's `go` -/

theorem go_nil (cfg : Cfg) (a : A) (fuel : Nat) : Spec.roundBody.go cfg a [] [] fuel = a := by
  rw [Spec.roundBody.go.eq_def]; cases fuel <;> rfl

theorem go_skip (cfg : Cfg) (a : A) (rd : Read) (rest : List Read) (segs : List (Nat × List Ev)) (fuel : Nat)
    (h : a.live rd.uid = none) :
    Spec.roundBody.go cfg a (rd :: rest) segs (fuel + 1) = Spec.roundBody.go cfg a rest segs fuel := by
  rw [Spec.roundBody.go.eq_def]
  simp only []
  unfold Spec.A.live at h
  cases hg : a.get rd.uid with
  | none => rfl
  | some m =>
    rw [hg] at h
    have : m.alive = false := by
      cases hal : m.alive with
      | false => rfl
      | true => simp [hal] at h
    simp [this]

theorem go_take (cfg : Cfg) (a : A) (rd : Read) (rest : List Read) (evs : List Ev) (segs : List (Nat × List Ev))
    (fuel : Nat) (m : AMod) (h : a.live rd.uid = some m) :
    Spec.roundBody.go cfg a (rd :: rest) ((rd.uid, evs) :: segs) (fuel + 1) =
      Spec.roundBody.go cfg (Spec.segment cfg (Spec.preSeg cfg a rd evs) rd evs) rest segs fuel := by
  rw [Spec.roundBody.go.eq_def]
  simp only []
  obtain ⟨hg, hal⟩ := Spec.live_some.mp h
  simp [hg, hal, Spec.preSeg]

/-- with no segment left, `go` only reports (under C03) the frames that were never read -/
theorem go_nil_ext (cfg : Cfg) : ∀ (reads : List Read) (a : A) (fuel : Nat),
    Spec.ErrExt ["C03"] a (Spec.roundBody.go cfg a reads [] fuel)
  | [], a, fuel => by rw [go_nil]; exact Spec.ErrExt.refl _ _
  | rd :: rest, a, 0 => by rw [Spec.roundBody.go.eq_def]; exact Spec.ErrExt.refl _ _
  | rd :: rest, a, fuel + 1 => by
    rw [Spec.roundBody.go.eq_def]
    simp only []
    split
    · split
      · exact go_nil_ext cfg rest a fuel
      · exact Spec.errExt_err _ _ _ _ (by simp)
    · exact go_nil_ext cfg rest a fuel

/-- with no segment left and every remaining frame pending on a departed connection, `go` does nothing -/
theorem go_dead (cfg : Cfg) : ∀ (reads : List Read) (a : A) (fuel : Nat), (∀ rd ∈ reads, a.live rd.uid = none) →
    Spec.roundBody.go cfg a reads [] fuel = a
  | [], a, fuel, _ => go_nil cfg a fuel
  | rd :: rest, a, 0, _ => by rw [Spec.roundBody.go.eq_def]
  | rd :: rest, a, fuel + 1, h => by
    rw [go_skip cfg a rd rest [] fuel (h rd (by simp))]
    exact go_dead cfg rest a fuel (fun x hx => h x (by simp [hx]))

theorem readAll_cons (cfg : Cfg) (rd : Read) (rest : List Read) (s : State) :
    readAll cfg (rd :: rest) s = readAll cfg rest (readOne cfg s rd) := rfl

theorem quietTo_refl {cfg : Cfg} {s : State} (t : Top cfg s) (j : J s) (tt : T s) : QuietTo cfg s s :=
  ⟨Nest.refl s, t, j, Quiet.refl _ s, fun _ => Quiet.refl _ s, infoTo_refl _ _ s, Dep.refl _ _ _ s, tt⟩

theorem ordOK_of_perm {cfg : Cfg} (hperm : OrdPerm cfg) : OrdOK cfg :=
  fun l hl => ⟨(hperm l).nodup_iff.mpr hl, fun x hx => (hperm l).mem_iff.mp hx⟩

section loop
variable {cfg : Cfg} (ok : CfgOK cfg) (hfuel : cfg.fuel = 0) (hperm : OrdPerm cfg) (hmt : cfg.mtClosed ≠ cfg.allTypes)
include ok hfuel

/-- the log only grows while frames are read -/
theorem readAll_out : ∀ (reads : List Read) (s : State), Top cfg s → ∃ E, (readAll cfg reads s).out = s.out ++ E
  | [], s, _ => ⟨[], by simp [readAll]⟩
  | rd :: rest, s, t => by
    rw [readAll_cons]
    obtain ⟨E2, h2⟩ := readAll_out rest (readOne cfg s rd) (top_readOne ok hfuel t rd)
    cases hm : s.find rd.uid with
    | none => rw [readOne_skip cfg s rd hm] at h2 ⊢; exact ⟨E2, h2⟩
    | some m =>
      obtain ⟨E1, h1, _⟩ := readOne_evt cfg s rd t.good.ok m hm
      exact ⟨Ev.rd rd.uid :: E1 ++ E2, by rw [h2, h1]; simp⟩

include hperm hmt

/-- **The reading loop.**  Either no frame of `reads` is handled (all their connections are gone), or the Spec's loop over
the same frames and the segments of the model's events ends in a state that simulates the model's, with no violation of
a proved property.  `sQ` is the model state after a quiet continuation (the periodic section), whose events belong to
the last segment. -/
theorem readAll_go : ∀ (reads : List Read) (a : A) (s sQ : State) (E : List Ev) (fuel : Nat),
    Inv cfg a s → (∀ rd ∈ reads, rd.uid ≠ 0) → reads.length ≤ fuel →
    QuietTo cfg (readAll cfg reads s) sQ → sQ.out = s.out ++ E →
    ((∀ u, Ev.rd u ∉ E) ∧ readAll cfg reads s = s ∧ (∀ rd ∈ reads, s.find rd.uid = none)) ∨
    ((Spec.splitRd E).1 = [] ∧ (Spec.splitRd E).2 ≠ [] ∧
      Inv cfg (Spec.roundBody.go cfg a reads (Spec.splitRd E).2 fuel) sQ ∧
      (∀ p ∈ provenCore, Spec.NoErr p a → Spec.NoErr p (Spec.roundBody.go cfg a reads (Spec.splitRd E).2 fuel)))
  | [], a, s, sQ, E, fuel, inv, _, _, q, he => by
    left
    obtain ⟨E', hE', hno, _⟩ := q.nest.ext
    have : E' = E := List.append_cancel_left (hE'.symm.trans he)
    subst this
    exact ⟨hno, rfl, fun _ h => by cases h⟩
  | rd :: rest, a, s, sQ, E, 0, _, _, hlen, _, _ => by simp at hlen
  | rd :: rest, a, s, sQ, E, fuel + 1, inv, hwf, hlen, q, he => by
    have hu0 : rd.uid ≠ 0 := hwf rd (by simp)
    have hwf' : ∀ x ∈ rest, x.uid ≠ 0 := fun x hx => hwf x (by simp [hx])
    have hlen' : rest.length ≤ fuel := by simp at hlen; omega
    rw [readAll_cons] at q
    cases hm : s.find rd.uid with
    | none =>
      -- the connection is gone: skipped on both sides
      rw [readOne_skip cfg s rd hm] at q
      have hdead : a.live rd.uid = none := by
        cases hl : a.live rd.uid with
        | none => rfl
        | some x =>
          have := (inv.sim.live rd.uid hu0).mp (by simp [hl])
          rw [hm] at this; cases this
      rcases readAll_go rest a s sQ E fuel inv hwf' hlen' q he with ⟨h1, h2, h2'⟩ | ⟨h1, h2, h3, h4⟩
      · left
        refine ⟨h1, by rw [readAll_cons, readOne_skip cfg s rd hm]; exact h2, fun x hx => ?_⟩
        rcases List.mem_cons.mp hx with rfl | hx'
        · exact hm
        · exact h2' x hx'
      · right; rw [go_skip cfg a rd rest _ fuel hdead]; exact ⟨h1, h2, h3, h4⟩
    | some m =>
      right
      obtain ⟨am, ham⟩ := Option.isSome_iff_exists.mp ((inv.sim.live rd.uid hu0).mpr (by simp [hm]))
      have t1 : Top cfg (readOne cfg s rd) := top_readOne ok hfuel inv.top rd
      have j1 : J (readOne cfg s rd) := readOne_J cfg inv.j rd
      obtain ⟨E1, hE1, hno1⟩ := readOne_evt cfg s rd inv.top.good.ok m hm
      obtain ⟨E2a, hE2a⟩ := readAll_out ok hfuel rest (readOne cfg s rd) t1
      obtain ⟨E2b, hE2b, _, _⟩ := q.nest.ext
      have hE2 : sQ.out = (readOne cfg s rd).out ++ (E2a ++ E2b) := by rw [hE2b, hE2a, List.append_assoc]
      have hE : E = Ev.rd rd.uid :: E1 ++ (E2a ++ E2b) := by
        have : s.out ++ E = s.out ++ (Ev.rd rd.uid :: E1 ++ (E2a ++ E2b)) := by
          rw [← he, hE2, hE1]; simp
        exact List.append_cancel_left this
      -- the C14 origin check only appends error entries
      have invN : ∀ evs', Inv cfg (Spec.preSeg cfg a rd evs') s := fun evs' =>
        ⟨sim_coreExt inv.sim (Spec.preSeg_ext cfg a rd evs').core, inv.top, inv.j, inv.t⟩
      have errN : ∀ evs' p, p ∈ provenCore → Spec.NoErr p a → Spec.NoErr p (Spec.preSeg cfg a rd evs') :=
        fun evs' p hp hn => (Spec.preSeg_ext cfg a rd evs').noErr (fun h => proven_not hp (by
          simp only [List.mem_singleton] at h; subst h; simp [othersCore])) hn
      -- the abstract state after this frame alone
      have tt1 : T (readOne cfg s rd) :=
        T_of_A inv.t (ta_readOne ok hmt (ordOK_of_perm hperm) hfuel inv.top rd).2
      have hx := segment_ok ok hfuel hperm (invN E1) rd hu0 m hm (readOne cfg s rd) (quietTo_refl t1 j1 tt1) E1 hE1
      rcases readAll_go rest (Spec.segment cfg (Spec.preSeg cfg a rd E1) rd E1) (readOne cfg s rd) sQ
          (E2a ++ E2b) fuel ⟨hx.1.sim, hx.1.top, hx.1.j, hx.1.t⟩ hwf' hlen' q hE2 with ⟨h1, h2, h2'⟩ | ⟨h1, h2, h3, h4⟩
      · -- the last frame handled in this round: the continuation's events belong to its segment
        rw [h2] at q
        have hsplit : Spec.splitRd E = ([], [(rd.uid, E1 ++ (E2a ++ E2b))]) := by
          rw [hE, List.cons_append, splitRd_cons, splitRd_none (E1 ++ (E2a ++ E2b))]
          intro u hu
          rcases List.mem_append.mp hu with h | h
          · exact hno1 u h
          · exact h1 u h
        have hseg := segment_ok ok hfuel hperm (invN (E1 ++ (E2a ++ E2b))) rd hu0 m hm sQ q (E1 ++ (E2a ++ E2b))
          (by rw [he, hE]; simp)
        rw [hsplit]
        -- the remaining frames are pending on connections that are gone
        have hdead : ∀ x ∈ rest, (Spec.segment cfg (Spec.preSeg cfg a rd (E1 ++ (E2a ++ E2b))) rd
            (E1 ++ (E2a ++ E2b))).live x.uid = none := by
          intro x hx
          have hgone : sQ.find x.uid = none := nest_gone q.nest q.top.aopen x.uid (h2' x hx)
          cases hl : (Spec.segment cfg (Spec.preSeg cfg a rd (E1 ++ (E2a ++ E2b))) rd
              (E1 ++ (E2a ++ E2b))).live x.uid with
          | none => rfl
          | some y =>
            have := (hseg.1.sim.live x.uid (hwf' x hx)).mp (by simp [hl])
            rw [hgone] at this; cases this
        have hgo := go_dead cfg rest _ fuel hdead
        refine ⟨rfl, by simp, ?_, ?_⟩
        · rw [go_take cfg a rd rest _ [] fuel am ham, hgo]
          exact hseg.1
        · intro p hp hn
          rw [go_take cfg a rd rest _ [] fuel am ham, hgo]
          exact hseg.2 p hp (errN _ p hp hn)
      · have hsplit : Spec.splitRd E = ([], (rd.uid, E1) :: (Spec.splitRd (E2a ++ E2b)).2) := by
          rw [hE, List.cons_append, splitRd_cons, splitRd_append E1 _ hno1, h1]; simp
        rw [hsplit]
        refine ⟨rfl, by simp, ?_, ?_⟩
        · rw [go_take cfg a rd rest E1 _ fuel am ham]; exact h3
        · intro p hp hn
          rw [go_take cfg a rd rest E1 _ fuel am ham]
          exact h4 p hp (hx.2 p hp (errN _ p hp hn))

end loop

/-! ## the preamble of a round -/

/-- the Spec's clock and failure environment at the start of a round -/
def envA (a : A) (r : Round) : A :=
  { a with now := a.now + r.dt,
           fail := (r.failSet.filter (·.1 ≤ a.nAccepted)).foldl
             (fun fl (p : Nat × Option FailMode) => setFail fl p.1 p.2) a.fail }

/-- clock and failure environment -/
theorem sim_env {cfg : Cfg} {a : A} {s : State} (hs : SimM cfg a s) (r : Round) : SimM cfg (envA a r) (envStep s r) := by
  unfold envStep envA
  exact ⟨hs.uids, hs.nacc, by show _ = _; rw [hs.nacc, hs.fail], hs.buf, hs.live, hs.mods, hs.w, hs.logIn, hs.logOut,
    hs.logConn, hs.logNodup, hs.logBound, hs.idxIn, hs.idxPos, minvOn_same hs.minv rfl rfl⟩

/-- the connections the Spec considers alive are the table entries -/
theorem liveList_contains {cfg : Cfg} {a : A} {s : State} (hs : SimM cfg a s) (u : Nat) (hu : u ≠ 0) :
    ((a.mods.filter (·.alive)).map (·.uid)).contains u = (s.find u).isSome := by
  have hnd := uids_nodup hs.uids
  have h1 : ((a.mods.filter (·.alive)).map (·.uid)).contains u = true ↔ (a.live u).isSome = true := by
    rw [List.contains_iff_mem, List.mem_map]
    constructor
    · rintro ⟨m, hm, rfl⟩
      obtain ⟨hm1, hm2⟩ := List.mem_filter.mp hm
      rw [live_of_mem hnd hm1 hm2]; rfl
    · intro h
      obtain ⟨m, hm⟩ := Option.isSome_iff_exists.mp h
      obtain ⟨hg, hal⟩ := Spec.live_some.mp hm
      exact ⟨m, List.mem_filter.mpr ⟨Spec.get_mem hg, hal⟩, Spec.get_uid hg⟩
  have h2 := hs.live u hu
  cases hc : ((a.mods.filter (·.alive)).map (·.uid)).contains u with
  | true => exact (h2.mp (h1.mp hc)).symm
  | false =>
    cases hf : (s.find u).isSome with
    | false => rfl
    | true => rw [h1.mpr (h2.mpr hf)] at hc; cases hc

theorem aget_none_of_fresh {a : A} {n : Nat} (h : a.mods.map (·.uid) = (List.range n).map (· + 1)) (u : Nat) (hu : n < u) :
    a.get u = none := by
  cases hg : a.get u with
  | none => rfl
  | some m =>
    have : m.uid ∈ a.mods.map (·.uid) := List.mem_map.mpr ⟨m, Spec.get_mem hg, rfl⟩
    rw [h, Spec.get_uid hg] at this
    obtain ⟨k, hk, hk'⟩ := List.mem_map.mp this
    have := List.mem_range.mp hk
    omega

/-- `accept()`: a fresh entry on both sides (and the writable set sampled afterwards) -/
theorem sim_accept {cfg : Cfg} {a : A} {s : State} (hs : SimM cfg a s) (wA wM : List Nat)
    (hw : ∀ v, (v = a.nAccepted + 1 ∨ (a.live v).isSome) → (v ∈ wA ↔ v ∈ wM)) :
    SimM cfg { a with nAccepted := a.nAccepted + 1, mods := a.mods ++ [{ uid := a.nAccepted + 1 }], w := wA }
      { s with nextUid := s.nextUid + 1, mods := s.mods ++ [{ uid := s.nextUid + 1 }], wlist := wM } := by
  have hn := hs.nacc
  have hgetA : ∀ v, ({ a with nAccepted := a.nAccepted + 1, mods := a.mods ++ [{ uid := a.nAccepted + 1 }], w := wA } : A).get v =
      if v = a.nAccepted + 1 then some { uid := a.nAccepted + 1 } else a.get v := by
    intro v
    show (a.mods ++ [({ uid := a.nAccepted + 1 } : AMod)]).find? (·.uid == v) = _
    rw [List.find?_append]
    by_cases hv : v = a.nAccepted + 1
    · subst hv
      have : a.mods.find? (·.uid == a.nAccepted + 1) = none := aget_none_of_fresh hs.uids _ (Nat.lt_succ_self _)
      simp [this]
    · simp only [hv, if_false]
      cases hh : a.mods.find? (·.uid == v) with
      | some x => unfold Spec.A.get; rw [hh]; rfl
      | none =>
        unfold Spec.A.get; rw [hh]
        have : ((a.nAccepted + 1) == v) = false := by simpa using fun e => hv e.symm
        simp [this]
  have hfindS : ∀ v, ({ s with nextUid := s.nextUid + 1, mods := s.mods ++ [{ uid := s.nextUid + 1 }], wlist := wM } : State).find v =
      if v = s.nextUid + 1 then some { uid := s.nextUid + 1 } else s.find v := by
    intro v
    show (s.mods ++ [({ uid := s.nextUid + 1 } : Module)]).find? (·.uid == v) = _
    rw [List.find?_append]
    by_cases hv : v = s.nextUid + 1
    · subst hv
      have : s.mods.find? (·.uid == s.nextUid + 1) = none := sim_fresh hs _ (Nat.lt_succ_self _)
      simp [this]
    · simp only [hv, if_false]
      cases hh : s.mods.find? (·.uid == v) with
      | some x => unfold State.find; rw [hh]; rfl
      | none =>
        unfold State.find; rw [hh]
        have : ((s.nextUid + 1) == v) = false := by simpa using fun e => hv e.symm
        simp [this]
  have hliveA : ∀ v, ({ a with nAccepted := a.nAccepted + 1, mods := a.mods ++ [{ uid := a.nAccepted + 1 }], w := wA } : A).live v =
      if v = a.nAccepted + 1 then some { uid := a.nAccepted + 1 } else a.live v := by
    intro v
    unfold Spec.A.live
    rw [hgetA]
    by_cases hv : v = a.nAccepted + 1
    · simp only [hv, if_true]
    · simp only [hv, if_false]
  refine ⟨?_, by show a.nAccepted + 1 = s.nextUid + 1; rw [hn], hs.fail, hs.buf, fun v hv => ?_, fun v am m h1 h2 => ?_,
    fun v hl => ?_, fun v m h1 h2 => ?_, fun v m h1 h2 => ?_, fun v m h1 h2 => ?_, hs.logNodup,
    fun u hu => Nat.le_succ_of_le (hs.logBound u hu), fun v m t h1 h2 => ?hidx, hs.idxPos, ?hminv⟩
  case hidx =>
    rw [hfindS] at h1
    split at h1
    · cases h1; cases h2
    · exact hs.idxIn v m t h1 h2
  case hminv =>
    have hbound : ∀ x ∈ s.mods, x.uid ≤ s.nextUid := by
      intro x hx
      cases Nat.lt_or_ge s.nextUid x.uid with
      | inl hlt =>
        have h1 := sim_fresh hs x.uid hlt
        have h2 := find_of_mem (s := s) hs.minv.distinct hx
        rw [h1] at h2; cases h2
      | inr hge => exact hge
    refine ⟨?_, fun m0 hm0 => ?_, fun v m _ hm hc => ?_, hs.minv.ndyn⟩
    · show ((s.mods ++ [({ uid := s.nextUid + 1 } : Module)]).map (·.uid)).Nodup
      rw [List.map_append]
      refine List.nodup_append.mpr ⟨hs.minv.distinct, by simp, ?_⟩
      intro a ha b hb
      simp only [List.map_cons, List.map_nil, List.mem_singleton] at hb
      obtain ⟨x, hx, rfl⟩ := List.mem_map.mp ha
      have := hbound x hx
      omega
    · rw [hfindS] at hm0
      split at hm0
      · rename_i h0; omega
      · exact hs.minv.mgr m0 hm0
    · rw [hfindS] at hm
      split at hm
      · cases hm; rfl
      · exact hs.minv.unconn v m trivial hm hc
  · show (a.mods ++ [({ uid := a.nAccepted + 1 } : AMod)]).map (·.uid) = (List.range (a.nAccepted + 1)).map (· + 1)
    rw [List.map_append, hs.uids, List.range_succ, List.map_append]; rfl
  · rw [hliveA, hfindS, hn]; split
    · simp
    · exact hs.live v hv
  · rw [hliveA] at h1; rw [hfindS] at h2; rw [hn] at h1
    split at h1
    · rename_i hv; simp only [hv, if_true] at h2
      cases h1; cases h2
      exact ⟨rfl, rfl, rfl, rfl, rfl, rfl, rfl, rfl, by simp⟩
    · rename_i hv; simp only [hv, if_false] at h2
      exact hs.mods v am m h1 h2
  · rw [hliveA] at hl
    show v ∈ wA ↔ v ∈ wM
    by_cases hv : v = a.nAccepted + 1
    · exact hw v (Or.inl hv)
    · simp only [hv, if_false] at hl; exact hw v (Or.inr hl)
  · rw [hfindS] at h1
    split at h1
    · cases h1; cases h2
    · exact hs.logIn v m h1 h2
  · rw [hfindS] at h2
    split at h2
    · rename_i hv
      have := hs.logBound v h1
      omega
    · exact hs.logOut v m h1 h2
  · rw [hfindS] at h1
    split at h1
    · cases h1; cases h2
    · exact hs.logConn v m h1 h2

/-- the writable set is sampled again -/
theorem sim_setW {cfg : Cfg} {a : A} {s : State} (hs : SimM cfg a s) (wA wM : List Nat)
    (hw : ∀ v, (a.live v).isSome → (v ∈ wA ↔ v ∈ wM)) : SimM cfg { a with w := wA } { s with wlist := wM } :=
  ⟨hs.uids, hs.nacc, hs.fail, hs.buf, hs.live, hs.mods, hw, hs.logIn, hs.logOut, hs.logConn, hs.logNodup, hs.logBound,
   hs.idxIn, hs.idxPos, minvOn_same hs.minv rfl rfl⟩

/-! ## one round, both sides in the same shape -/

/-- the Spec's abstract state after clock, failure environment, `accept` and the writable set -/
def preA (a : A) (r : Round) : A :=
  let a1 : A := envA a r
  let liveBefore := (a1.mods.filter (·.alive)).map (·.uid)
  let reads := r.reads.filter (fun rd => liveBefore.contains rd.uid)
  let a2 : A := if r.accept then { a1 with nAccepted := a1.nAccepted + 1, mods := a1.mods ++ [{ uid := a1.nAccepted + 1 }] } else a1
  let live := (a2.mods.filter (·.alive)).map (·.uid)
  if r.accept || !reads.isEmpty then { a2 with w := if reads.isEmpty then [] else r.writable.filter (live.contains ·) } else a2

/-- the frames of the round the Spec expects to be read -/
def preReads (a : A) (r : Round) : List Read :=
  r.reads.filter (fun rd => ((a.mods.filter (·.alive)).map (·.uid)).contains rd.uid)

/-- the Spec's abstract state after clock, failure environment and `accept` — the writable set is still the one the
    previous poll left -/
def preAcc (a : A) (r : Round) : A :=
  let a1 : A := envA a r
  if r.accept then { a1 with nAccepted := a1.nAccepted + 1, mods := a1.mods ++ [{ uid := a1.nAccepted + 1 }] } else a1

/-- the writable set this round's poll leaves -/
def preW (a : A) (r : Round) : List Nat :=
  let a1 : A := envA a r
  let liveBefore := (a1.mods.filter (·.alive)).map (·.uid)
  let reads := r.reads.filter (fun rd => liveBefore.contains rd.uid)
  let a2 : A := if r.accept then { a1 with nAccepted := a1.nAccepted + 1, mods := a1.mods ++ [{ uid := a1.nAccepted + 1 }] } else a1
  let live := (a2.mods.filter (·.alive)).map (·.uid)
  if r.accept || !reads.isEmpty then (if reads.isEmpty then [] else r.writable.filter (live.contains ·)) else a2.w

theorem preA_eq (a : A) (r : Round) : preA a r = { preAcc a r with w := preW a r } := by
  unfold preA preAcc preW
  dsimp only
  split <;> rfl

/-- the state the stretch before the first frame read is judged in (`Spec.roundBody`): the accept branch runs before the
    round's poll; when no frame is read the stretch also holds the periodic section, which runs after it — then only a
    connection ready by both polls counts as ready -/
def preSt (a : A) (r : Round) (segs : List (Nat × List Ev)) : A :=
  if segs.isEmpty then { preAcc a r with w := (preAcc a r).w.filter ((preW a r).contains ·) } else preAcc a r

theorem preSt_nil (a : A) (r : Round) :
    preSt a r [] = { preAcc a r with w := (preAcc a r).w.filter ((preW a r).contains ·) } := rfl

theorem preSt_ne (a : A) (r : Round) {segs : List (Nat × List Ev)} (h : segs ≠ []) : preSt a r segs = preAcc a r := by
  unfold preSt
  cases segs with
  | nil => exact absurd rfl h
  | cons _ _ => rfl

/-- the abstract state in which the Spec starts to replay the frames read: the events before the first `rd` marker
    (the `accept` log line; the whole round when no frame is read) checked in `aP` and their departures applied, then
    the writable set of the round's poll -/
def goStart (cfg : Cfg) (aP : A) (wNew : List Nat) (pre : List Ev) : A :=
  { Spec.applyDepartures (Spec.checkDepartures cfg (Spec.checkNoticeOrigin cfg
      (aP.chk ((Spec.closes pre).isEmpty || !(Spec.wfails pre).isEmpty) "C07"
        "a connection was closed before any frame was read in this round") none pre) none pre) pre with w := wNew }

/-- the same for a stretch that spans two polls (`Spec.checkDeparturesAny`) -/
def goStartU (cfg : Cfg) (aP : A) (wNew : List Nat) (wU : Option (List Nat)) (pre : List Ev) : A :=
  { Spec.applyDepartures (Spec.checkDeparturesAny cfg (Spec.checkNoticeOrigin cfg
      (aP.chk ((Spec.closes pre).isEmpty || !(Spec.wfails pre).isEmpty) "C07"
        "a connection was closed before any frame was read in this round") none pre) wU none pre) pre with w := wNew }

theorem goStartU_none (cfg : Cfg) (aP : A) (wNew : List Nat) (pre : List Ev) :
    goStartU cfg aP wNew none pre = goStart cfg aP wNew pre := rfl

/-- the second writable set of the stretch before the first read: the union of the two polls when the stretch is the whole
    round -/
def preU (a : A) (r : Round) (segs : List (Nat × List Ev)) : Option (List Nat) :=
  if segs.isEmpty then some ((preAcc a r).w ++ preW a r) else none

theorem preU_ne (a : A) (r : Round) {segs : List (Nat × List Ev)} (h : segs ≠ []) : preU a r segs = none := by
  unfold preU
  cases segs with
  | nil => exact absurd rfl h
  | cons _ _ => rfl

/-- the end of `Spec.round`: tallies for the statistics checks and the periodic section -/
def roundEnd (cfg : Cfg) (a : A) (pre : List Ev) (segs : List (Nat × List Ev)) : A :=
  let a := if segs.isEmpty then a else (pre :: (segs.dropLast.map (·.2))).foldl (Spec.noteMgrFrames cfg) a
  let lastEvs := match segs.getLast? with | some s => s.2 | none => pre
  Spec.tail cfg a lastEvs

/-- the rest of `Spec.round` -/
def roundRest (cfg : Cfg) (aP : A) (wNew : List Nat) (wU : Option (List Nat)) (reads : List Read) (pre : List Ev)
    (segs : List (Nat × List Ev)) : A :=
  roundEnd cfg (Spec.roundBody.go cfg (goStartU cfg aP wNew wU pre) reads segs (reads.length + segs.length + 1)) pre segs

theorem applyDepartures_withW (a : A) (w : List Nat) (evs : List Ev) :
    Spec.applyDepartures ({ a with w := w } : A) evs = ({ Spec.applyDepartures a evs with w := w } : A) := by
  rw [Spec.applyDepartures_map, Spec.applyDepartures_map]

theorem coreExt_withW {T : List String} {a b : A} (h : Spec.CoreExt T a b) (w : List Nat) :
    Spec.CoreExt T ({ a with w := w } : A) ({ b with w := w } : A) :=
  ⟨h.mods, h.buf, h.fail, rfl, h.nAccepted, h.errs⟩

theorem goStart_ext (cfg : Cfg) (aP : A) (wNew : List Nat) (pre : List Ev) :
    ∃ X, Spec.CoreExt ("C07" :: othersCore) ({ aP with w := wNew } : A) X ∧ goStart cfg aP wNew pre = Spec.applyDepartures X pre := by
  have h : Spec.CoreExt ("C07" :: othersCore) aP (Spec.checkDepartures cfg (Spec.checkNoticeOrigin cfg
      (aP.chk ((Spec.closes pre).isEmpty || !(Spec.wfails pre).isEmpty) "C07"
        "a connection was closed before any frame was read in this round") none pre) none pre) :=
    (((Spec.errExt_chk ["C07"] aP _ "C07" _ (by simp)).mono (by simp)).core.trans
      ((Spec.checkNoticeOrigin_ext cfg _ none pre).mono (by simp [othersCore])).core).trans
      ((Spec.checkDepartures_ext cfg _ none pre).mono (by simp [othersCore])).core
  exact ⟨_, coreExt_withW h wNew, by unfold goStart; exact (applyDepartures_withW _ wNew pre).symm⟩

/-- the C07 clauses of the stretch before the first frame read hold once `checkDepartures` adds at most C14 entries on
    it and every close in it has a failed write -/
theorem goStart_c07 {cfg : Cfg} {aP : A} (wNew : List Nat) (pre : List Ev)
    (hjust : ∀ v, Ev.close v ∈ pre → Ev.wfail v ∈ pre)
    (hD : ∀ X, Spec.CoreExt ["C14"] aP X → Spec.ErrExt ["C14"] X (Spec.checkDepartures cfg X none pre))
    (hn : Spec.NoErr "C07" aP) : Spec.NoErr "C07" (goStart cfg aP wNew pre) := by
  unfold goStart
  have h1 : ((Spec.closes pre).isEmpty || !(Spec.wfails pre).isEmpty) = true := by
    cases hc : Spec.closes pre with
    | nil => rfl
    | cons v rest =>
      have hv : Ev.close v ∈ pre := (mem_closes pre v).mp (by rw [hc]; simp)
      have : v ∈ Spec.wfails pre := (Spec.mem_wfails pre v).mpr (hjust v hv)
      cases hwf : Spec.wfails pre with
      | nil => rw [hwf] at this; cases this
      | cons _ _ => rfl
  rw [Spec.chk_of _ _ _ _ h1]
  have hN := Spec.checkNoticeOrigin_ext cfg aP none pre
  have hDD := hD _ hN.core
  show Spec.NoErr "C07" (Spec.applyDepartures _ pre)
  exact noErr_applyDepartures pre (hDD.noErr (by simp) (hN.noErr (by simp) hn))

theorem goStartU_ext (cfg : Cfg) (aP : A) (wNew : List Nat) (wU : Option (List Nat)) (pre : List Ev) :
    ∃ X, Spec.CoreExt ("C07" :: othersCore) ({ aP with w := wNew } : A) X ∧ goStartU cfg aP wNew wU pre = Spec.applyDepartures X pre := by
  have h : Spec.CoreExt ("C07" :: othersCore) aP (Spec.checkDeparturesAny cfg (Spec.checkNoticeOrigin cfg
      (aP.chk ((Spec.closes pre).isEmpty || !(Spec.wfails pre).isEmpty) "C07"
        "a connection was closed before any frame was read in this round") none pre) wU none pre) :=
    (((Spec.errExt_chk ["C07"] aP _ "C07" _ (by simp)).mono (by simp)).core.trans
      ((Spec.checkNoticeOrigin_ext cfg _ none pre).mono (by simp [othersCore])).core).trans
      ((Spec.checkDeparturesAny_ext cfg _ wU none pre).mono (by simp [othersCore])).core
  exact ⟨_, coreExt_withW h wNew, by unfold goStartU; exact (applyDepartures_withW _ wNew pre).symm⟩

theorem goStartU_c07 {cfg : Cfg} {aP : A} (wNew : List Nat) (wU : Option (List Nat)) (pre : List Ev)
    (hjust : ∀ v, Ev.close v ∈ pre → Ev.wfail v ∈ pre)
    (hD : ∀ X, Spec.CoreExt ["C14"] aP X → Spec.ErrExt ["C14"] X (Spec.checkDepartures cfg X none pre))
    (hn : Spec.NoErr "C07" aP) : Spec.NoErr "C07" (goStartU cfg aP wNew wU pre) := by
  cases wU with
  | none => exact goStart_c07 wNew pre hjust hD hn
  | some v =>
    unfold goStartU
    have h1 : ((Spec.closes pre).isEmpty || !(Spec.wfails pre).isEmpty) = true := by
      cases hc : Spec.closes pre with
      | nil => rfl
      | cons u rest =>
        have hv : Ev.close u ∈ pre := (mem_closes pre u).mp (by rw [hc]; simp)
        have : u ∈ Spec.wfails pre := (Spec.mem_wfails pre u).mpr (hjust u hv)
        cases hwf : Spec.wfails pre with
        | nil => rw [hwf] at this; cases this
        | cons _ _ => rfl
    rw [Spec.chk_of _ _ _ _ h1]
    have hN := Spec.checkNoticeOrigin_ext cfg aP none pre
    have hN' : Spec.CoreExt ["C14"] aP ({ Spec.checkNoticeOrigin cfg aP none pre with wAny := v } : A) :=
      ⟨hN.core.mods, hN.core.buf, hN.core.fail, hN.core.w, hN.core.nAccepted, hN.core.errs⟩
    have hDD := Spec.errExt_any (hD _ hN')
    show Spec.NoErr "C07" (Spec.applyDepartures _ pre)
    exact noErr_applyDepartures pre (hDD.noErr (by simp) (hN.noErr (by simp) hn))

theorem roundEnd_ext (cfg : Cfg) (a : A) (pre : List Ev) (segs : List (Nat × List Ev)) :
    Spec.CoreExt othersCore a (roundEnd cfg a pre segs) := by
  unfold roundEnd
  extract_lets b lastEvs
  have hb : Spec.CoreExt othersCore a b := by
    simp only [b]; split
    · exact Spec.CoreExt.refl _ _
    · exact core_others (Spec.coreExt_foldl [] _ (fun x y => Spec.noteMgrFrames_ext cfg x y) _ _) (by simp)
  exact hb.trans (core_others (Spec.tail_ext cfg b lastEvs))

theorem round_eq (cfg : Cfg) (a : A) (r : Round) (evs : List Ev) :
    Spec.round cfg a r evs =
      roundRest cfg (preSt a r (Spec.splitRd evs).2) (preW a r) (preU a r (Spec.splitRd evs).2) (preReads a r)
        (Spec.splitRd evs).1 (Spec.splitRd evs).2 := by
  unfold Spec.round Spec.roundBody roundRest roundEnd goStartU preU preSt preAcc preW preReads envA
  rfl

/-- the model state in which the frames of the round are read -/
def preS (cfg : Cfg) (s : State) (r : Round) : State :=
  let s1 := envStep s r
  let reads := r.reads.filter (fun rd => (s1.find rd.uid).isSome)
  if r.accept || !reads.isEmpty then
    let s2 := if r.accept then acceptStep cfg s1 else s1
    { s2 with wlist := if reads.isEmpty then [] else r.writable.filter ((s2.mods.map (·.uid)).contains ·) }
  else s1

def readsS (s : State) (r : Round) : List Read := r.reads.filter (fun rd => ((envStep s r).find rd.uid).isSome)

theorem step_eq (cfg : Cfg) (s : State) (r : Round) (hc : s.crashed = none) :
    step cfg s r = ticks cfg (readAll cfg (readsS s r) (preS cfg s r)) := by
  unfold step ioStep preS readsS
  simp only [hc, Option.isSome_none, Bool.false_eq_true, if_false]
  split
  · rfl
  · rename_i h
    have : (r.reads.filter (fun rd => ((envStep s r).find rd.uid).isSome)) = [] := by
      have h' : (r.accept || !(r.reads.filter (fun rd => ((envStep s r).find rd.uid).isSome)).isEmpty) = false := by
        simpa using h
      rw [Bool.or_eq_false_iff] at h'
      have := h'.2
      simpa using this
    rw [this]; rfl

theorem mem_filter_of {l : List Nat} {p q : Nat → Bool} {v : Nat} (hp : p v = true) (hq : q v = true) :
    v ∈ l.filter p ↔ v ∈ l.filter q := by rw [List.mem_filter, List.mem_filter, hp, hq]

theorem applyDepartures_nil (a : A) : Spec.applyDepartures a [] = a := rfl

theorem mem_of_find_some {s : State} {v : Nat} {m : Module} (h : s.find v = some m) : v ∈ s.mods.map (·.uid) := by
  unfold State.find at h
  exact List.mem_map.mpr ⟨m, List.mem_of_find?_eq_some h, find_uid h⟩

theorem applyDepartures_accept (a : A) (e : List Ev) (wA : List Nat) (h : (Spec.closes e).contains (a.nAccepted + 1) = false) :
    Spec.applyDepartures { a with nAccepted := a.nAccepted + 1, mods := a.mods ++ [{ uid := a.nAccepted + 1 }], w := wA } e =
      { Spec.applyDepartures a e with
        nAccepted := (Spec.applyDepartures a e).nAccepted + 1,
        mods := (Spec.applyDepartures a e).mods ++ [{ uid := (Spec.applyDepartures a e).nAccepted + 1 }], w := wA } := by
  rw [Spec.applyDepartures_map, Spec.applyDepartures_map]
  simp only [List.map_append, List.map_cons, List.map_nil]
  have : Spec.killIn (Spec.closes e) ({ uid := a.nAccepted + 1 } : AMod) = { uid := a.nAccepted + 1 } := by
    unfold Spec.killIn; simp only [h, Bool.false_eq_true, if_false]
  rw [this]

section pre
variable {cfg : Cfg} (ok : CfgOK cfg) (hfuel : cfg.fuel = 0)
include ok hfuel

/-- **The preamble of a round.**  After clock, failure environment, `accept` (with its INFO log line, which may drop
connections) and the sampling of the writable set, the Spec's state — with the departures of the events so far
applied — simulates the model's. -/
theorem pre_ok {a : A} {s : State} (inv : Inv cfg a s) (r : Round) (hwf : ∀ rd ∈ r.reads, rd.uid ≠ 0) :
    ∃ eAcc, (preS cfg s r).out = s.out ++ eAcc ∧ (∀ u, Ev.rd u ∉ eAcc) ∧
      SimM cfg (Spec.applyDepartures (preA a r) eAcc) (preS cfg s r) ∧ Top cfg (preS cfg s r) ∧ J (preS cfg s r) ∧
      preReads a r = readsS s r ∧ (preA a r).errs = a.errs := by
  have hs1 := sim_env inv.sim r
  have t1 : Top cfg (envStep s r) := top_same ok hfuel inv.top _ rfl rfl rfl
  have j1 : J (envStep s r) := J_same inv.j rfl rfl rfl
  have hreads : preReads a r = readsS s r := by
    unfold preReads readsS
    apply List.filter_congr
    intro rd hrd
    exact liveList_contains hs1 rd.uid (hwf rd hrd)
  have hreads' : r.reads.filter (fun rd => ((a.mods.filter (·.alive)).map (·.uid)).contains rd.uid) =
      r.reads.filter (fun rd => ((envStep s r).find rd.uid).isSome) := hreads
  have ha1m : (envA a r).mods = a.mods := rfl
  have ha1e : (envA a r).errs = a.errs := rfl
  unfold preA preS
  simp only [ha1m, hreads']
  generalize envA a r = a1 at *
  generalize hrs : r.reads.filter (fun rd => ((envStep s r).find rd.uid).isSome) = reads
  generalize hs1' : envStep s r = s1 at hs1 t1 j1
  have hout1 : s1.out = s.out := by rw [← hs1']; rfl
  rw [← ha1m]
  cases hacc : r.accept with
  | false =>
    simp only [Bool.false_or, Bool.false_eq_true, if_false]
    by_cases hre : reads.isEmpty = true
    · simp only [hre, Bool.not_true, Bool.false_eq_true, if_false]
      exact ⟨[], by simp [hout1], by simp, hs1, t1, j1, hreads, ha1e⟩
    · have hre' : reads.isEmpty = false := by simpa using hre
      simp only [hre', Bool.not_false, if_true, Bool.false_eq_true, if_false]
      refine ⟨[], by simp [hout1], by simp, ?_, top_same ok hfuel t1 _ rfl rfl rfl, J_same j1 rfl rfl rfl, hreads, ha1e⟩
      rw [applyDepartures_nil]
      refine sim_setW hs1 _ _ (fun v hl => ?_)
      obtain ⟨am, ham⟩ := Option.isSome_iff_exists.mp hl
      obtain ⟨hg, hal⟩ := Spec.live_some.mp ham
      have hv0 : v ≠ 0 := by rw [← Spec.get_uid hg]; exact uid_pos hs1.uids (Spec.get_mem hg)
      have h1 : ((a1.mods.filter (·.alive)).map (·.uid)).contains v = true := by
        rw [liveList_contains hs1 v hv0]; exact (hs1.live v hv0).mp hl
      obtain ⟨mv, hmv⟩ := Option.isSome_iff_exists.mp ((hs1.live v hv0).mp hl)
      have h2 : (s1.mods.map (·.uid)).contains v = true := by
        rw [List.contains_iff_mem]; exact mem_of_find_some hmv
      exact mem_filter_of (p := fun x => ((a1.mods.filter (·.alive)).map (·.uid)).contains x)
        (q := fun x => (s1.mods.map (·.uid)).contains x) h1 h2
  | true =>
    simp only [Bool.true_or, if_true]
    -- the INFO log line of `accept`
    have nL := logTop_nest cfg 20 s1
    have tL := top_log ok hfuel t1 20
    have jL : J (logAt cfg (fwdTop cfg) 20 s1) := logAt_J (fwdTop_J cfg) j1 20
    obtain ⟨eAcc, heAcc, hnoRd, _⟩ := nL.ext
    have hsL := sim_quiet hs1 t1.aopen tL.aopen nL jL eAcc heAcc
    generalize hsLdef : logAt cfg (fwdTop cfg) 20 s1 = sL at *
    have hnuid : sL.nextUid = s1.nextUid := nL.nuid
    -- the uid about to be handed out was never closed
    have hfreshA : (Spec.closes eAcc).contains (a1.nAccepted + 1) = false := by
      cases hc : (Spec.closes eAcc).contains (a1.nAccepted + 1) with
      | false => rfl
      | true =>
        have hmem : Ev.close (a1.nAccepted + 1) ∈ eAcc := (mem_closes eAcc _).mp (by simpa using hc)
        have hphi := jL.phi (a1.nAccepted + 1)
        have hpos : 0 < closeCnt sL.out (a1.nAccepted + 1) := by
          rw [heAcc]; unfold closeCnt; rw [List.countP_append]
          have := closeCnt_pos hmem; unfold closeCnt at this; omega
        unfold phi at hphi
        have : sL.nextUid < a1.nAccepted + 1 := by rw [hnuid, hs1.nacc]; omega
        simp only [this, if_true] at hphi
        omega
    have hacS : acceptStep cfg s1 = { sL with nextUid := sL.nextUid + 1, mods := sL.mods ++ [{ uid := sL.nextUid + 1 }] } := by
      unfold acceptStep; rw [hsLdef]
    rw [hacS]
    refine ⟨eAcc, by show sL.out = _; rw [heAcc, hout1], hnoRd, ?_, ?_, ?_, hreads, ha1e⟩
    · rw [applyDepartures_accept a1 eAcc _ hfreshA]
      obtain ⟨c1, c2, c3, c4, _⟩ := Spec.applyDepartures_core a1 eAcc
      refine sim_accept hsL _ _ (fun v hv => ?_)
      by_cases hre : reads.isEmpty = true
      · simp only [hre, if_true]
      · have hre' : reads.isEmpty = false := by simpa using hre
        simp only [hre', Bool.false_eq_true, if_false]
        have h1 : ((List.filter (fun x => x.alive) (a1.mods ++ [({ uid := a1.nAccepted + 1 } : AMod)])).map (·.uid)).contains v
            = true := by
          rw [List.contains_iff_mem, List.mem_map]
          rcases hv with hv | hv
          · exact ⟨{ uid := a1.nAccepted + 1 }, List.mem_filter.mpr ⟨by simp, rfl⟩, by rw [hv, c4]⟩
          · obtain ⟨am, ham⟩ := Option.isSome_iff_exists.mp hv
            rw [Spec.applyDepartures_live] at ham
            split at ham
            · cases ham
            · obtain ⟨hg, hal⟩ := Spec.live_some.mp ham
              exact ⟨am, List.mem_filter.mpr ⟨List.mem_append.mpr (Or.inl (Spec.get_mem hg)), hal⟩, Spec.get_uid hg⟩
        have h2 : ((sL.mods ++ [({ uid := sL.nextUid + 1 } : Module)]).map (·.uid)).contains v = true := by
          rw [List.contains_iff_mem, List.map_append, List.mem_append]
          rcases hv with hv | hv
          · right; rw [hv, c4, hs1.nacc, hnuid]; simp
          · left
            obtain ⟨am, ham⟩ := Option.isSome_iff_exists.mp hv
            have hv0 : v ≠ 0 := by
              obtain ⟨hg, _⟩ := Spec.live_some.mp ham
              rw [← Spec.get_uid hg]; exact uid_pos hsL.uids (Spec.get_mem hg)
            obtain ⟨mv, hmv⟩ := Option.isSome_iff_exists.mp ((hsL.live v hv0).mp hv)
            exact mem_of_find_some hmv
        exact mem_filter_of
          (p := fun x => ((List.filter (fun x => x.alive) (a1.mods ++ [({ uid := a1.nAccepted + 1 } : AMod)])).map (·.uid)).contains x)
          (q := fun x => ((sL.mods ++ [({ uid := sL.nextUid + 1 } : Module)]).map (·.uid)).contains x) h1 h2
    · have := top_accept ok hfuel t1
      rw [hacS] at this
      exact top_same ok hfuel this _ rfl rfl rfl
    · have := accept_J cfg j1
      rw [hacS] at this
      exact J_same this rfl rfl rfl

end pre

section preT
variable {cfg : Cfg} (ok : CfgOK cfg) (hmt : cfg.mtClosed ≠ cfg.allTypes) (hord : OrdOK cfg) (hfuel : cfg.fuel = 0)
include ok hmt hord hfuel

theorem pre_T {s : State} (h : Top cfg s) (ht : T s) (r : Round) : T (preS cfg s r) := by
  have h0 : TA cfg s (envStep s r) := by unfold envStep; exact ta_same ok hmt hord hfuel h _ rfl rfl rfl rfl rfl
  have t0 := T_of_A ht h0.2
  unfold preS
  dsimp only
  generalize envStep s r = e at h0 t0
  split
  · have ha : Top cfg (if r.accept then acceptStep cfg e else e) ∧ T (if r.accept then acceptStep cfg e else e) := by
      split
      · exact ⟨top_accept ok hfuel h0.1, accept_T ok hmt hord hfuel h0.1 t0⟩
      · exact ⟨h0.1, t0⟩
    generalize (if r.accept then acceptStep cfg e else e) = a at ha
    exact T_of_A ha.2 (fun o v => stepA_same rfl rfl rfl)
  · exact t0

theorem preS_out (s : State) (r : Round) :
    (preS cfg s r).out = if r.accept then (logAt cfg (fwdTop cfg) 20 (envStep s r)).out else s.out := by
  unfold preS
  dsimp only
  cases r.accept with
  | false =>
    simp only [Bool.false_or, Bool.false_eq_true, if_false]
    split <;> rfl
  | true =>
    simp only [Bool.true_or, if_true]
    rfl

/-- **The accept branch of a round, judged by the previous poll.**  The events before the wait for writable sockets —
the INFO log line of `accept` and whatever its delivery triggers — end in a state (before the new table entry, before
the new writable set) that the abstract state, with the *old* writable set and the departures so far applied,
simulates; and they meet the departure facts relative to that state. -/
theorem pre_old (hall : OrdAll cfg) {a : A} {s : State} (inv : Inv cfg a s) (r : Round) (eAcc : List Ev)
    (hPout : (preS cfg s r).out = s.out ++ eAcc) :
    ∃ s1' : State, SimM cfg (Spec.applyDepartures (envA a r) eAcc) s1' ∧ AllOpen s1' ∧ J s1' ∧ T s1' ∧
      s1'.out = s.out ++ eAcc ∧ DepE cfg none none s1' eAcc := by
  have hs1 := sim_env inv.sim r
  have ta1 : TA cfg s (envStep s r) := by unfold envStep; exact ta_same ok hmt hord hfuel inv.top _ rfl rfl rfl rfl rfl
  have t1 := ta1.1
  have tt1 : T (envStep s r) := T_of_A inv.t ta1.2
  have j1 : J (envStep s r) := J_same inv.j rfl rfl rfl
  rw [preS_out ok hmt hord hfuel] at hPout
  cases hacc : r.accept with
  | false =>
    rw [hacc] at hPout
    simp only [Bool.false_eq_true, if_false] at hPout
    have : eAcc = [] := by
      have : s.out ++ [] = s.out ++ eAcc := by simpa using hPout
      exact (List.append_cancel_left this).symm
    subst this
    exact ⟨envStep s r, hs1, t1.aopen, j1, tt1, by simp [envStep], depE_nil _ _ _ _⟩
  | true =>
    rw [hacc] at hPout
    simp only [if_true] at hPout
    have dtL := dt_log ok hall hfuel t1 20
    have taL := ta_log ok hmt hord hfuel t1 20
    have jL : J (logAt cfg (fwdTop cfg) 20 (envStep s r)) := logAt_J (fwdTop_J cfg) j1 20
    obtain ⟨e, o, d⟩ := dtL.dep
    have ho1 : (envStep s r).out = s.out := rfl
    have : e = eAcc := by
      have h : s.out ++ e = s.out ++ eAcc := by rw [← hPout, o, ho1]
      exact List.append_cancel_left h
    subst this
    exact ⟨_, sim_quiet hs1 t1.aopen dtL.top.aopen (logTop_nest cfg 20 _) jL e o, dtL.top.aopen, jL,
      T_of_A tt1 taL.2, hPout, d⟩

end preT

/-! ## one round -/

/-- rounds the generator produces: frames are read from connections, never from the manager's own table entry -/
def RoundWF (r : Round) : Prop := ∀ rd ∈ r.reads, rd.uid ≠ 0

section round
variable {cfg : Cfg} (ok : CfgOK cfg) (hfuel : cfg.fuel = 0) (hperm : OrdPerm cfg) (hmt : cfg.mtClosed ≠ cfg.allTypes)
include ok hfuel hperm hmt

omit ok hfuel hperm hmt in
/-- the connections the Spec may count as observers of the accept branch were simulated before it -/
theorem live_old {cfg : Cfg} {a1 : A} {s1' : State} (e eAll : List Ev) (hs : SimM cfg (Spec.applyDepartures a1 e) s1')
    (hsub : ∀ v, Ev.close v ∈ e → Ev.close v ∈ eAll) (acc : Bool) (o : AMod)
    (ho : o ∈ (if acc then ({ a1 with nAccepted := a1.nAccepted + 1, mods := a1.mods ++ [{ uid := a1.nAccepted + 1 }] } : A)
      else a1).mods) (hal : o.alive = true) (hsb : Spec.subscribed o cfg.mtClosed = true)
    (hnc : (Spec.closes eAll).contains o.uid = false) : (Spec.applyDepartures a1 e).live o.uid = some o := by
  have hnd : (a1.mods.map (·.uid)).Nodup := by
    have := uids_nodup hs.uids
    rw [Spec.applyDepartures_uids] at this; exact this
  have hmem : o ∈ a1.mods := by
    cases acc with
    | false => exact ho
    | true =>
      rcases List.mem_append.mp ho with h | h
      · exact h
      · simp only [List.mem_singleton] at h
        subst h
        simp [Spec.subscribed] at hsb
  have hnc' : (Spec.closes e).contains o.uid = false := by
    cases hc : (Spec.closes e).contains o.uid with
    | false => rfl
    | true =>
      have := (mem_closes eAll o.uid).mpr (hsub _ ((mem_closes e o.uid).mp (by simpa using hc)))
      rw [← List.contains_iff_mem] at this
      rw [this] at hnc; cases hnc
  rw [Spec.applyDepartures_live, hnc']
  simp only [Bool.false_eq_true, if_false]
  exact live_of_mem hnd hmem hal

/-- **One round.**  If the abstract state simulates the model state, then after the model has played round `r` and the
Spec has replayed the round against the events the model wrote in it, the simulation holds again and no clause of a
proved property was reported violated. -/
theorem round_ok {a : A} {s : State} (inv : Inv cfg a s) (r : Round) (hwf : RoundWF r) (evs : List Ev)
    (he : (step cfg s r).out = s.out ++ evs) :
    Inv cfg (Spec.round cfg a r evs) (step cfg s r) ∧
    (∀ p ∈ provenCore, Spec.NoErr p a → Spec.NoErr p (Spec.round cfg a r evs)) := by
  have hord : OrdOK cfg := ordOK_of_perm hperm
  have hall : OrdAll cfg := OrdAll_of_perm hperm
  have tStep : T (step cfg s r) := step_T ok hmt hord hfuel inv.top inv.t r
  have tPre : T (preS cfg s r) := pre_T ok hmt hord hfuel inv.top inv.t r
  rw [round_eq]
  rw [step_eq cfg s r inv.top.good.ok] at he tStep ⊢
  obtain ⟨eAcc, hPout, hnoAcc, hsP, tP, jP, hreads, herrs⟩ := pre_ok ok hfuel inv r hwf
  obtain ⟨s1', hs1', ao1', j1', t1', ho1', d1'⟩ := pre_old ok hmt hord hfuel hall inv r eAcc hPout
  rw [hreads]
  have hwf' : ∀ rd ∈ readsS s r, rd.uid ≠ 0 := fun rd hrd => hwf rd (List.mem_filter.mp hrd).1
  rw [preA_eq] at hsP herrs
  have herrs' : (preAcc a r).errs = a.errs := herrs
  have hAccDef : preAcc a r = (if r.accept then
      ({ envA a r with nAccepted := (envA a r).nAccepted + 1, mods := (envA a r).mods ++ [{ uid := (envA a r).nAccepted + 1 }] } : A)
      else envA a r) := rfl
  have hAccW : (preAcc a r).w = (envA a r).w := by rw [hAccDef]; split <;> rfl
  have hAccF : (preAcc a r).fail = (envA a r).fail := by rw [hAccDef]; split <;> rfl
  generalize readsS s r = reads at *
  generalize preS cfg s r = sP at *
  have hdP : (sP.mods.map (·.uid)).Nodup := hsP.minv.distinct
  have tR := top_readAll ok hfuel reads tP
  have jR : J (readAll cfg reads sP) := readAll_J cfg reads jP
  have dtK := dt_ticks ok hall hfuel tR
  have q : QuietTo cfg (readAll cfg reads sP) (ticks cfg (readAll cfg reads sP)) :=
    ⟨ticks_nest cfg _, top_ticks ok hfuel tR, ticks_J cfg jR, qa_ticks cfg _,
      fun k => quiet_of_QE (ticks_QE cfg (tag_cp cfg k) (ctl_cp k) _),
      ticks_info cfg _ ((readAll_usub cfg reads sP).nodup hdP), dtK.dep, tStep⟩
  obtain ⟨E1, hE1⟩ := readAll_out ok hfuel reads sP tP
  obtain ⟨E2, hE2, _, _⟩ := q.nest.ext
  have hE : (ticks cfg (readAll cfg reads sP)).out = sP.out ++ (E1 ++ E2) := by rw [hE2, hE1, List.append_assoc]
  have hevs : evs = eAcc ++ (E1 ++ E2) := by
    have : s.out ++ evs = s.out ++ (eAcc ++ (E1 ++ E2)) := by rw [← he, hE, hPout, List.append_assoc]
    exact List.append_cancel_left this
  have hsplit := splitRd_append eAcc (E1 ++ E2) hnoAcc
  rw [← hevs] at hsplit
  -- the state the loop over the frames starts in when a frame is read: the accept branch judged by the previous poll
  obtain ⟨X0, hX0, hgs0⟩ := goStart_ext cfg (preAcc a r) (preW a r) eAcc
  have inv0 : Inv cfg (goStart cfg (preAcc a r) (preW a r) eAcc) sP := by
    rw [hgs0]; exact ⟨sim_coreExt hsP (Spec.applyDepartures_coreExt hX0 eAcc), tP, jP, tPre⟩
  have herr0 : ∀ p ∈ provenCore, Spec.NoErr p a → Spec.NoErr p (goStart cfg (preAcc a r) (preW a r) eAcc) := by
    intro p hp hn
    have hn3 : Spec.NoErr p (preAcc a r) := by unfold Spec.NoErr; rw [herrs']; exact hn
    by_cases h7 : p = "C07"
    · subst h7
      refine goStart_c07 (preW a r) eAcc (fun v hv => (d1'.just v hv).resolve_left (by simp)) (fun X hX => ?_) hn3
      refine dep_ext_end hs1' ao1' j1' t1' s.out eAcc ho1' (fun o ho hal hsb hnc => ?_) (fun u hu => ?_) ?_ none d1'
        (fun u hu => by cases hu)
      · rw [hX.mods, hAccDef] at ho
        exact live_old eAcc eAcc hs1' (fun _ h => h) r.accept o ho hal hsb hnc
      · rw [(Spec.applyDepartures_core (envA a r) eAcc).2.2.1, ← hAccW, ← hX.w]; exact hu
      · rw [(Spec.applyDepartures_core (envA a r) eAcc).2.1, hX.fail, hAccF]
    · rw [hgs0]
      have hn3' : Spec.NoErr p ({ preAcc a r with w := preW a r } : A) := hn3
      refine noErr_applyDepartures eAcc (hX0.noErr (fun hm => ?_) hn3')
      rcases List.mem_cons.mp hm with x | x
      · exact h7 x
      · exact proven_not hp x
  unfold roundRest
  rcases readAll_go ok hfuel hperm hmt reads (goStart cfg (preAcc a r) (preW a r) eAcc) sP (ticks cfg (readAll cfg reads sP))
      (E1 ++ E2) (reads.length + (Spec.splitRd (E1 ++ E2)).2.length + 1) inv0 hwf' (by omega) q hE with
      ⟨hnoE, hid, hskip⟩ | ⟨hp1, hp2, hp3, hp4⟩
  · -- no frame was read in this round: the whole round is one stretch
    have hs2 : Spec.splitRd (E1 ++ E2) = (E1 ++ E2, []) := splitRd_none _ hnoE
    rw [hsplit, hs2, ← hevs]
    simp only [List.length_nil, Nat.add_zero]
    rw [preSt_nil]
    generalize hwP : (preAcc a r).w.filter ((preW a r).contains ·) = wP
    obtain ⟨X, hX, hgs⟩ := goStartU_ext cfg ({ preAcc a r with w := wP } : A) (preW a r) (preU a r []) evs
    have hX' : Spec.CoreExt ("C07" :: othersCore) ({ preAcc a r with w := preW a r } : A) X := hX
    have hsimA : SimM cfg (Spec.applyDepartures ({ preAcc a r with w := preW a r } : A) evs) (ticks cfg (readAll cfg reads sP)) := by
      rw [hevs, ← applyDepartures_append]
      have hn : Nest sP (ticks cfg (readAll cfg reads sP)) := by rw [hid]; exact ticks_nest cfg sP
      exact sim_quiet hsP tP.aopen q.top.aopen hn q.j (E1 ++ E2) hE
    have hsimT : SimM cfg (goStartU cfg ({ preAcc a r with w := wP } : A) (preW a r) (preU a r []) evs) (ticks cfg (readAll cfg reads sP)) := by
      rw [hgs]; exact sim_coreExt hsimA (Spec.applyDepartures_coreExt hX' _)
    have hdead : ∀ x ∈ reads, (goStartU cfg ({ preAcc a r with w := wP } : A) (preW a r) (preU a r []) evs).live x.uid = none := by
      intro x hx
      have hgone : (ticks cfg (readAll cfg reads sP)).find x.uid = none :=
        nest_gone q.nest q.top.aopen x.uid (by rw [hid]; exact hskip x hx)
      cases hl : (goStartU cfg ({ preAcc a r with w := wP } : A) (preW a r) (preU a r []) evs).live x.uid with
      | none => rfl
      | some y =>
        have := (hsimT.live x.uid (hwf' x hx)).mp (by simp [hl])
        rw [hgone] at this; cases this
    have hgo := go_dead cfg reads (goStartU cfg ({ preAcc a r with w := wP } : A) (preW a r) (preU a r []) evs) (reads.length + 1) hdead
    have hend := roundEnd_ext cfg (Spec.roundBody.go cfg (goStartU cfg ({ preAcc a r with w := wP } : A) (preW a r) (preU a r []) evs) reads []
      (reads.length + 1)) evs []
    have hallE : Spec.CoreExt othersCore (goStartU cfg ({ preAcc a r with w := wP } : A) (preW a r) (preU a r []) evs)
        (roundEnd cfg (Spec.roundBody.go cfg (goStartU cfg ({ preAcc a r with w := wP } : A) (preW a r) (preU a r []) evs) reads []
          (reads.length + 1)) evs []) := by rw [hgo] at hend ⊢; exact hend
    refine ⟨⟨sim_coreExt hsimT hallE, q.top, q.j, q.t⟩, fun p hp hn => hallE.noErr (proven_not hp) ?_⟩
    have hn3 : Spec.NoErr p ({ preAcc a r with w := wP } : A) := by
      show Spec.NoErr p (preAcc a r); unfold Spec.NoErr; rw [herrs']; exact hn
    by_cases h7 : p = "C07"
    · subst h7
      -- the accept branch (judged at its end, before the poll), then the periodic section (after it)
      have dK : DepE cfg none none (ticks cfg (readAll cfg reads sP)) (E1 ++ E2) := by
        obtain ⟨e, o, d⟩ := dtK.dep
        have o' : (ticks cfg (readAll cfg reads sP)).out = sP.out ++ e := by
          rw [o]; congr 1; rw [hid]
        have : e = E1 ++ E2 := List.append_cancel_left (o'.symm.trans hE)
        rw [← this]; exact d
      refine goStartU_c07 (preW a r) (preU a r []) evs (fun v hv => ?_) (fun Y hY => ?_) hn3
      · rw [hevs] at hv ⊢
        rcases List.mem_append.mp hv with h | h
        · exact List.mem_append.mpr (Or.inl ((d1'.just v h).resolve_left (by simp)))
        · exact List.mem_append.mpr (Or.inr ((dK.just v h).resolve_left (by simp)))
      · have hYm : Y.mods = (preAcc a r).mods := hY.mods
        have hYw : Y.w = wP := hY.w
        have hYf : Y.fail = (preAcc a r).fail := hY.fail
        have key := dep_ext_two (X := Y) s.out eAcc (E1 ++ E2) hs1' ao1' hsimA q.top.aopen q.j q.t (by rw [← hevs]; exact he)
          (fun o ho hal hsb hnc => by
            rw [hYm, hAccDef] at ho
            exact live_old eAcc (eAcc ++ (E1 ++ E2)) hs1' (fun _ h => List.mem_append.mpr (Or.inl h)) r.accept o ho hal hsb hnc)
          (fun o ho hal _ hnc => by
            rw [← hevs] at hnc
            rw [Spec.applyDepartures_live, hnc]
            simp only [Bool.false_eq_true, if_false]
            have hnd : (({ preAcc a r with w := preW a r } : A).mods.map (·.uid)).Nodup := by
              have := uids_nodup hsimA.uids
              rw [Spec.applyDepartures_uids] at this; exact this
            exact live_of_mem hnd (by rw [hYm] at ho; exact ho) hal)
          (fun u hu => by
            rw [(Spec.applyDepartures_core (envA a r) eAcc).2.2.1, ← hAccW]
            rw [hYw, ← hwP] at hu; exact (List.mem_filter.mp hu).1)
          (fun u hu => by
            rw [(Spec.applyDepartures_core _ evs).2.2.1]
            rw [hYw, ← hwP] at hu
            exact List.contains_iff_mem.mp (List.mem_filter.mp hu).2)
          (by rw [(Spec.applyDepartures_core (envA a r) eAcc).2.1, hYf, hAccF])
          (by rw [(Spec.applyDepartures_core _ evs).2.1, hYf]) d1' dK
        rw [hevs]; exact key
    · rw [hgs]
      refine noErr_applyDepartures evs (hX.noErr (fun hm => ?_) hn3)
      rcases List.mem_cons.mp hm with x | x
      · exact h7 x
      · exact proven_not hp x
  · -- at least one frame was read
    rw [hsplit, hp1, List.append_nil, preSt_ne a r hp2, preU_ne a r hp2, goStartU_none]
    have hend := roundEnd_ext cfg (Spec.roundBody.go cfg (goStart cfg (preAcc a r) (preW a r) eAcc) reads (Spec.splitRd (E1 ++ E2)).2
      (reads.length + (Spec.splitRd (E1 ++ E2)).2.length + 1)) eAcc (Spec.splitRd (E1 ++ E2)).2
    exact ⟨⟨sim_coreExt hp3.sim hend, hp3.top, hp3.j, hp3.t⟩,
      fun p hp hn => hend.noErr (proven_not hp) (hp4 p hp (herr0 p hp hn))⟩

end round

/-! ## any history -/

/-- the events the model writes in round `r` started in state `s` -/
def roundEvents (cfg : Cfg) (s : State) (r : Round) : List Ev := (step cfg s r).out.drop s.out.length

/-- the model's events, round by round -/
def modelRounds (cfg : Cfg) : State → List Round → List (List Ev)
  | _, [] => []
  | s, r :: rs => roundEvents cfg s r :: modelRounds cfg (step cfg s r) rs

/-- the observation the Spec is given for the model's own run: the events before the first round, then one list per round -/
def modelObs (cfg : Cfg) (rs : List Round) : List (List Ev) := (init cfg).out :: modelRounds cfg (init cfg) rs

theorem modelRounds_length (cfg : Cfg) : ∀ (s : State) (rs : List Round), (modelRounds cfg s rs).length = rs.length
  | _, [] => rfl
  | s, r :: rs => by simp [modelRounds, modelRounds_length cfg (step cfg s r) rs]

/-- histories the generator produces -/
def RoundsWF (rs : List Round) : Prop := ∀ r ∈ rs, RoundWF r

section hist
variable {cfg : Cfg} (ok : CfgOK cfg) (hfuel : cfg.fuel = 0) (hperm : OrdPerm cfg) (hmt : cfg.mtClosed ≠ cfg.allTypes)
include ok hfuel

theorem step_out {a : A} {s : State} (inv : Inv cfg a s) (r : Round) (hwf : RoundWF r) :
    ∃ evs, (step cfg s r).out = s.out ++ evs := by
  rw [step_eq cfg s r inv.top.good.ok]
  obtain ⟨eAcc, hPout, _, _, tP, _, _, _⟩ := pre_ok ok hfuel inv r hwf
  obtain ⟨E1, hE1⟩ := readAll_out ok hfuel (readsS s r) (preS cfg s r) tP
  obtain ⟨E2, hE2, _, _⟩ := (ticks_nest cfg (readAll cfg (readsS s r) (preS cfg s r))).ext
  exact ⟨eAcc ++ (E1 ++ E2), by rw [hE2, hE1, hPout]; simp⟩

include hmt

/-- the initial states: nothing accepted, only the manager's own table entry -/
theorem init_sim (hord : OrdOK cfg) : Inv cfg ({} : A) (init cfg) := by
  have t := top_init ok hfuel
  refine ⟨?_, t, init_J cfg, run_T ok hmt hord hfuel []⟩
  have n : Nest ({ mods := [{ uid := 0, name := "message_manager".toList.map (·.toNat), pid := cfg.mmPid, connected := true }] } : State)
      (init cfg) := logTop_nest cfg 20 _
  -- every table entry of `init` is the manager's own
  have only0 : ∀ u m, (init cfg).find u = some m → u = 0 ∧ m.isLogger = false ∧ m.subs = [] := by
    intro u m hm
    obtain ⟨m0, hm0, hcore⟩ := n.surv u m hm (t.aopen u m hm)
    simp only [State.find, List.find?_cons, List.find?_nil] at hm0
    split at hm0
    · rename_i hu
      cases hm0
      exact ⟨by have : (0 : Nat) = u := by simpa using hu
                exact this.symm, (core_fields hcore).2.2.1, core_subs hcore⟩
    · cases hm0
  have nolog : (init cfg).loggers = [] := List.sublist_nil.mp n.logSub
  refine ⟨rfl, n.nuid.symm, n.fail.symm, n.buf.symm, fun u hu => ?_, fun u am m h1 _ => ?_, fun u hl => ?_, fun u m h1 h2 => ?_,
    fun u m h1 _ => ?_, fun u m h1 h2 => ?_, by rw [nolog]; exact List.nodup_nil, fun u hu => ?_,
    fun u m t h1 h2 => ?_, fun t u hu => ?_, ?_⟩
  · constructor
    · intro h; cases h
    · intro h
      obtain ⟨m, hm⟩ := Option.isSome_iff_exists.mp h
      exact absurd (only0 u m hm).1 hu
  · cases h1
  · cases hl
  · rw [(only0 u m h1).2.1] at h2; cases h2
  · rw [nolog] at h1; cases h1
  · rw [(only0 u m h1).2.1] at h2; cases h2
  · rw [nolog] at hu; cases hu
  · rw [(only0 u m h1).2.2] at h2; cases h2
  · have := n.idxSub t u hu
    simp [idxGet] at this
  · refine ⟨?_, fun m0 hm0 => ?_, fun u m _ hm hc => ?_, ?_⟩
    · exact n.uids.nodup (by simp)
    · obtain ⟨m1, hm1, hcore⟩ := n.surv 0 m0 hm0 (t.aopen 0 m0 hm0)
      simp only [State.find, List.find?_cons, List.find?_nil] at hm1
      split at hm1
      · cases hm1
        obtain ⟨e1, e2, _⟩ := core_more hcore
        exact ⟨e1, e2, (core_fields hcore).2.2.1⟩
      · cases hm1
    · obtain ⟨m1, hm1, hcore⟩ := n.surv u m hm (t.aopen u m hm)
      simp only [State.find, List.find?_cons, List.find?_nil] at hm1
      split at hm1
      · cases hm1
        rw [(core_more hcore).2.2] at hc; cases hc
      · cases hm1
    · rw [n.ndyn]
      exact (Nat.eq_zero_or_pos (maxDyn cfg)).imp id id

include hperm

/-- the rounds of a history, one after the other -/
theorem rounds_ok : ∀ (rs : List Round) (a : A) (s : State), Inv cfg a s → RoundsWF rs →
    Inv cfg ((List.zip rs (modelRounds cfg s rs)).foldl (fun a p => Spec.round cfg a p.1 p.2) a) (rs.foldl (step cfg) s) ∧
    (∀ p ∈ provenCore, Spec.NoErr p a →
      Spec.NoErr p ((List.zip rs (modelRounds cfg s rs)).foldl (fun a p => Spec.round cfg a p.1 p.2) a)) ∧
    s.out ++ (modelRounds cfg s rs).flatten = (rs.foldl (step cfg) s).out
  | [], a, s, inv, _ => ⟨inv, fun _ _ h => h, by simp [modelRounds]⟩
  | r :: rs, a, s, inv, hwf => by
    have hr : RoundWF r := hwf r (by simp)
    obtain ⟨evs, hevs⟩ := step_out ok hfuel inv r hr
    have hre : roundEvents cfg s r = evs := by
      unfold roundEvents; rw [hevs, List.drop_left]
    obtain ⟨inv1, herr1⟩ := round_ok ok hfuel hperm hmt inv r hr evs hevs
    obtain ⟨inv2, herr2, hfl2⟩ := rounds_ok rs (Spec.round cfg a r evs) (step cfg s r) inv1 (fun x hx => hwf x (by simp [hx]))
    simp only [modelRounds, List.zip_cons_cons, List.foldl_cons, hre, List.flatten_cons]
    refine ⟨inv2, fun p hp hn => herr2 p hp (herr1 p hp hn), ?_⟩
    rw [← hfl2, hevs, List.append_assoc]

omit ok hfuel hperm hmt in
theorem adjacent_of_sorted : ∀ (l : List Nat), l.Pairwise (· ≤ ·) → (l.zip (l.drop 1)).all (fun p => decide (p.1 ≤ p.2)) = true
  | [], _ => rfl
  | [_], _ => rfl
  | a :: b :: rest, h => by
    have h1 := List.pairwise_cons.mp h
    have ih := adjacent_of_sorted (b :: rest) h1.2
    simp only [List.drop_succ_cons, List.drop_zero, List.zip_cons_cons, List.all_cons, Bool.and_eq_true, decide_eq_true_eq]
    refine ⟨h1.1 b (by simp), ?_⟩
    simpa using ih

/-- **The model meets the Spec, for the proved properties.**  Run the model on any well-formed history, hand the Spec
the history and the events the model wrote, round by round: the Spec's verdict contains no entry for a property in
`provenCore` (for C05: on histories whose frames carry their serial numbers in processing order, `IncRounds` — the serial
number is the label by which the Spec recognises the copies of a frame) — and its abstract state at the end simulates
the model's final state. -/
theorem model_meets_spec_core (rs : List Round) (hwf : RoundsWF rs) :
    ∀ p ∈ provenCore, (p = "C05" → IncRounds 0 rs) → Spec.NoErr p (Spec.runSpec cfg rs (modelObs cfg rs) none) := by
  intro p hp hinc
  have hord : OrdOK cfg := ordOK_of_perm hperm
  have hallO : OrdAll cfg := OrdAll_of_perm hperm
  unfold Spec.runSpec
  simp only [modelObs, List.drop_succ_cons, List.drop_zero, List.length_cons, modelRounds_length, Option.isSome_none,
    Bool.or_false, beq_self_eq_true]
  have h0 : Spec.NoErr p (({} : A).chk true "C03" "the manager did not play every round of the script") := by
    intro e he; cases he
  obtain ⟨_, herr, hflat⟩ := rounds_ok ok hfuel hperm hmt rs
    (({} : A).chk true "C03" "the manager did not play every round of the script") (init cfg)
    (init_sim ok hfuel hmt hord) hwf
  have h1 := herr p hp h0
  have hnot := proven_not hp
  -- the whole log is the model's log: no malformed frame in it, nothing written to a connection after it failed
  have hall : ((init cfg).out :: modelRounds cfg (init cfg) rs).flatten = (run cfg rs).out := by
    rw [List.flatten_cons]; exact hflat
  have hbroken := lok_broken (evs := ((init cfg).out :: modelRounds cfg (init cfg) rs).flatten)
    (by rw [hall]; exact run_lok cfg rs)
  have hafter : ∀ u, (Spec.sends ((((init cfg).out :: modelRounds cfg (init cfg) rs).flatten.dropWhile
      (fun e => !(e == .wfail u || e == .close u))).drop 1)).any (·.1 == u) = false := by
    intro u; rw [hall]
    exact nothing_after_fail (run_J cfg rs) (run_adj ok hallO hfuel rs) u
  refine (Spec.checkNoNotice_ext cfg _ _).noErr (fun h => hnot ?_) ?_
  · simp only [List.mem_singleton] at h; subst h; simp [othersCore]
  by_cases h5 : p = "C05"
  · -- every clause of `checkC05`: counts 1, 2, 3, …; per-sender order; same relative order at any two receivers
    have hi := hinc h5
    have hdk : ∀ u, Spec.dataKs (run cfg rs).out u = dataKs (run cfg rs).out u := fun _ => rfl
    rw [Spec.checkC05_ok _ _ _ hbroken hafter]
    · exact h1
    · intro u
      rw [hall]
      obtain ⟨n, hn, _⟩ := seq_gap_free ok hfuel rs u
      have he : Spec.countsOf (run cfg rs).out u = countsOf (run cfg rs).out u := rfl
      rw [he, hn]
      unfold Spec.isIota iota
      simp
    · intro u sd
      rw [hall, hdk]
      exact adjacent_of_sorted _ (((run_ordered cfg rs hi) u).1.filter _)
    · intro u v
      rw [hall, hdk, hdk]
      refine Spec.relorder_of_sorted _ _ ((run_ordered cfg rs hi) u).1 ((run_ordered cfg rs hi) v).1 (fun k hku hkv => ?_)
      obtain ⟨c, hc⟩ := run_mult ok hfuel hperm rs hi k
      have h1' := List.count_pos_iff.mpr hku
      have h2' := List.count_pos_iff.mpr hkv
      rcases hc u with x | x <;> rcases hc v with y | y <;> omega
  · refine (Spec.checkC05_c37 _ _ _ hbroken hafter).noErr (fun h => ?_) h1
    simp only [List.mem_singleton] at h
    exact h5 h

end hist

end Pyrtma.Mgr
