import Pyrtma.Proofs.Manager
/-! The subscription-index invariant of M1 and its preservation by everything the manager does. -/
namespace Pyrtma.Mgr

/-- (a) a module is listed under a type only if the type is in its own `subs`; (b) no subscriber list has a repetition;
    (c) subscribing to all types is exclusive -/
structure SubInv (cfg : Cfg) (s : State) : Prop where
  sub : ∀ t u, u ∈ idxGet s.idx t → ∃ m, s.find u = some m ∧ t ∈ m.subs
  nodup : ∀ t, (idxGet s.idx t).Nodup
  excl : ∀ u m, s.find u = some m → cfg.allTypes ∈ m.subs → m.subs = [cfg.allTypes]

/-- an operation that keeps `idx` and every module's `subs` (and never adds a module) -/
theorem subInv_of_same {cfg : Cfg} {s s' : State} (h : SubInv cfg s) (hi : s'.idx = s.idx)
    (hm : ∀ u, (s'.find u).map (·.subs) = (s.find u).map (·.subs)) : SubInv cfg s' := by
  refine ⟨fun t u hu => ?_, fun t => by rw [hi]; exact h.nodup t, fun u m' hm' ha => ?_⟩
  · rw [hi] at hu
    obtain ⟨m, hm0, ht⟩ := h.sub t u hu
    have := hm u; rw [hm0] at this
    cases h' : s'.find u with
    | none => simp [h'] at this
    | some m' => simp [h'] at this; exact ⟨m', rfl, by rw [this]; exact ht⟩
  · have := hm u; rw [hm'] at this
    cases h0 : s.find u with
    | none => simp [h0] at this
    | some m => simp [h0] at this; rw [this] at ha ⊢; exact h.excl u m h0 ha

theorem subInv_emit {cfg : Cfg} {s : State} (h : SubInv cfg s) (e : Ev) : SubInv cfg (s.emit e) :=
  subInv_of_same h rfl (fun _ => rfl)

theorem subInv_crash {cfg : Cfg} {s : State} (h : SubInv cfg s) (w : String) : SubInv cfg (s.crash w) := by
  unfold State.crash; split
  · exact h
  · exact subInv_of_same h rfl (fun _ => rfl)

theorem subInv_upd {cfg : Cfg} {s : State} (h : SubInv cfg s) (u : Nat) (f : Module → Module)
    (hu : ∀ m, (f m).uid = m.uid) (hs : ∀ m, (f m).subs = m.subs) : SubInv cfg (s.upd u f) :=
  subInv_of_same h rfl (fun v => by
    rw [find_upd s u v f hu]
    cases s.find v with
    | none => rfl
    | some m => simp only [Option.map_some]; split <;> simp [hs])

theorem subInv_count {cfg : Cfg} {s : State} (h : SubInv cfg s) (t : Int) : SubInv cfg (countMsg cfg s t) := by
  unfold countMsg; split
  · exact subInv_of_same h rfl (fun _ => rfl)
  · exact subInv_of_same h rfl (fun _ => rfl)

/-- the nested-forward contract for the invariant -/
def InvOK (cfg : Cfg) (fwd : Fwd) : Prop := ∀ s g, SubInv cfg s → SubInv cfg (fwd s g)

theorem sendRaw_inv {cfg : Cfg} {s : State} (h : SubInv cfg s) (u : Nat) (f : Frame) : SubInv cfg (sendRaw s u f).1 := by
  unfold sendRaw
  split
  · exact subInv_crash h _
  · split
    · exact subInv_crash h _
    · have hp := subInv_upd h u (fun m => { m with msgCount := m.msgCount + 1 }) (fun _ => rfl) (fun _ => rfl)
      dsimp only
      split
      · exact subInv_emit hp _
      · exact subInv_emit (subInv_emit hp _) _
      · exact subInv_emit hp _

theorem nodup_filter_ne (l : List Nat) (u : Nat) (h : l.Nodup) : (l.filter (· != u)).Nodup := h.filter _

theorem idxDiscard_get (idx : List (Int × List Nat)) (t t' : Int) (u : Nat) :
    idxGet (idxDiscard idx t u) t' = if t' = t then (idxGet idx t').filter (· != u) else idxGet idx t' := by
  unfold idxGet idxDiscard
  induction idx with
  | nil => simp
  | cons p idx ih =>
    simp only [List.map_cons, List.find?_cons]
    by_cases hpt : p.1 = t
    · by_cases hpt' : p.1 = t'
      · have : t' = t := by rw [← hpt', hpt]
        simp [hpt, hpt', this]
      · have h1 : (p.1 == t') = false := by simpa using hpt'
        simp only [hpt, beq_self_eq_true, if_true, h1] at ih ⊢
        rw [← hpt]; simp only [h1]; rw [hpt]; exact ih
    · have h0 : (p.1 == t) = false := by simpa using hpt
      simp only [h0, Bool.false_eq_true, if_false]
      by_cases hpt' : p.1 = t'
      · have : ¬ t' = t := by rw [← hpt']; exact hpt
        simp [hpt', this]
      · have h1 : (p.1 == t') = false := by simpa using hpt'
        simp only [h1]; exact ih

theorem idxDiscards_get (ts : List Int) (idx : List (Int × List Nat)) (t' : Int) (u : Nat) :
    idxGet (ts.foldl (fun i t => idxDiscard i t u) idx) t' =
      if t' ∈ ts then (idxGet idx t').filter (· != u) else idxGet idx t' := by
  induction ts generalizing idx with
  | nil => simp
  | cons a ts ih =>
    simp only [List.foldl_cons, ih, idxDiscard_get, List.mem_cons]
    by_cases h1 : t' = a <;> by_cases h2 : t' ∈ ts <;> simp [h1, h2, List.filter_filter]

theorem removePrep_find (s : State) (u : Nat) (m : Module) (v : Nat) :
    (removePrep s u m).find v =
      (s.find v).map (fun x => if x.uid == u then { x with closed := true, connected := false } else x) := by
  unfold removePrep; dsimp only
  split
  · exact find_upd _ u v _ (fun _ => rfl)
  · exact find_upd _ u v _ (fun _ => rfl)

/-- `removePrep` keeps the invariant and takes `u` out of every subscriber list -/
theorem removePrep_inv {cfg : Cfg} {s : State} (h : SubInv cfg s) (u : Nat) (m : Module) (hm : s.find u = some m) :
    SubInv cfg (removePrep s u m) ∧ ∀ t, u ∉ idxGet (removePrep s u m).idx t := by
  have hfind : ∀ v, ((removePrep s u m).find v).map (·.subs) = (s.find v).map (·.subs) := by
    intro v
    rw [removePrep_find]
    cases s.find v with
    | none => rfl
    | some m0 => simp only [Option.map_some]; split <;> rfl
  have hidx := removePrep_idx s u m
  refine ⟨⟨fun t v hv => ?_, fun t => ?_, fun v m' hm' ha => ?_⟩, fun t hu => ?_⟩
  · rw [hidx, idxDiscards_get] at hv
    have hv' : v ∈ idxGet s.idx t := by
      split at hv
      · exact (List.mem_filter.mp hv).1
      · exact hv
    obtain ⟨m0, hm0, ht⟩ := h.sub t v hv'
    have := hfind v; rw [hm0] at this
    cases h' : (removePrep s u m).find v with
    | none => simp [h'] at this
    | some m1 => simp [h'] at this; exact ⟨m1, rfl, by rw [this]; exact ht⟩
  · rw [hidx, idxDiscards_get]; split
    · exact (h.nodup t).filter _
    · exact h.nodup t
  · have := hfind v; rw [hm'] at this
    cases h0 : s.find v with
    | none => simp [h0] at this
    | some m0 => simp [h0] at this; rw [this] at ha ⊢; exact h.excl v m0 h0 ha
  · rw [hidx, idxDiscards_get] at hu
    split at hu
    · simp at hu
    · rename_i hnot
      obtain ⟨m0, hm0, ht⟩ := h.sub t u hu
      rw [hm] at hm0; cases hm0; exact hnot ht

theorem logAt_inv {cfg : Cfg} {fwd : Fwd} (hi : InvOK cfg fwd) (lvl : Nat) {s : State} (h : SubInv cfg s) :
    SubInv cfg (logAt cfg fwd lvl s) := by
  unfold logAt; split
  · exact hi _ _ h
  · exact h

theorem removeModule_inv {cfg : Cfg} {B} (hB : Tag cfg B) {fwd : Fwd} (hf : FwdOK B fwd) (hi : InvOK cfg fwd) {s : State}
    (h : SubInv cfg s) (u : Nat) : SubInv cfg (removeModule cfg fwd s u) := by
  unfold removeModule
  split
  · exact h
  · rename_i m hm
    dsimp only
    obtain ⟨h3, hout⟩ := removePrep_inv h u m hm
    have h3l := logAt_inv hi 10 h3
    have hpl := (logAt_ok cfg hB hf 10 (removePrep s u m)).1
    have h4 := hi (logAt cfg fwd 10 (removePrep s u m)) (closedFrame cfg { m with connected := false }) h3l
    have hp := hpl.trans (hf (logAt cfg fwd 10 (removePrep s u m)) (closedFrame cfg { m with connected := false })
      (by simp [closedFrame, mgrFrame, hB.1])).1
    generalize fwd (logAt cfg fwd 10 (removePrep s u m)) (closedFrame cfg { m with connected := false }) = s4 at h4 hp
    refine ⟨fun t v hv => ?_, h4.nodup, fun v m' hm' ha => ?_⟩
    · have hvu : v ≠ u := by intro e; subst e; exact hout t (hp.idx t v hv)
      obtain ⟨m0, hm0, ht⟩ := h4.sub t v hv
      refine ⟨m0, ?_, ht⟩
      show (s4.mods.filter (·.uid != u)).find? (·.uid == v) = some m0
      rw [find_filter_ne _ _ _ hvu]; exact hm0
    · by_cases hvu : v = u
      · subst hvu
        have : (s4.mods.filter (·.uid != v)).find? (·.uid == v) = none := find_filter_eq _ _
        have hm'' : (s4.mods.filter (·.uid != v)).find? (·.uid == v) = some m' := hm'
        rw [this] at hm''; cases hm''
      · have hm'' : (s4.mods.filter (·.uid != u)).find? (·.uid == v) = some m' := hm'
        rw [find_filter_ne _ _ _ hvu] at hm''
        exact h4.excl v m' hm'' ha

theorem failedMsg_inv {cfg : Cfg} {fwd : Fwd} (hi : InvOK cfg fwd) {s : State} (h : SubInv cfg s) (d : Int) (f : Frame) :
    SubInv cfg (failedMsg cfg fwd s d f) := by
  unfold failedMsg; split
  · exact h
  · exact hi _ _ h

theorem trySend_inv {cfg : Cfg} {B} (hB : Tag cfg B) {fwd : Fwd} (hf : FwdOK B fwd) (hi : InvOK cfg fwd) {s : State}
    (h : SubInv cfg s) (u : Nat) (f : Frame) : SubInv cfg (trySend cfg fwd s u f) := by
  unfold trySend
  dsimp only
  have h1 := sendRaw_inv h u f
  split
  · exact subInv_upd h1 u (fun m => { m with drops := 0 }) (fun _ => rfl) (fun _ => rfl)
  · split
    · exact h1
    · exact failedMsg_inv hi (logAt_inv hi 40 (removeModule_inv hB hf hi h1 u)) _ _

theorem deliverOne_inv {cfg : Cfg} {B} (hB : Tag cfg B) {fwd : Fwd} (hf : FwdOK B fwd) (hi : InvOK cfg fwd) {s : State}
    (h : SubInv cfg s) (f : Frame) (u : Nat) : SubInv cfg (deliverOne cfg fwd f s u) := by
  unfold deliverOne
  split
  · exact h
  · split
    · split
      · exact trySend_inv hB hf hi h u f
      · exact h
    · split
      · exact trySend_inv hB hf hi h u f
      · exact failedMsg_inv hi (subInv_upd h u (fun m => { m with drops := m.drops + 1 }) (fun _ => rfl) (fun _ => rfl)) _ _

theorem deliver_inv {cfg : Cfg} {B} (hB : Tag cfg B) {fwd : Fwd} (hf : FwdOK B fwd) (hi : InvOK cfg fwd) (f : Frame) :
    ∀ (rs : List Nat) {s : State}, SubInv cfg s → SubInv cfg (deliver cfg fwd f rs s)
  | [], _, h => h
  | u :: rest, _, h => by
    unfold deliver
    exact deliver_inv hB hf hi f rest (deliverOne_inv hB hf hi h f u)

/-- **`forward_message` (any fuel, any frame) preserves the subscription-index invariant** -/
theorem forward_inv (cfg : Cfg) : ∀ fuel, InvOK cfg (forward cfg fuel)
  | 0 => fun s g h => subInv_crash h _
  | fuel + 1 => fun s g h => by
    have ih := forward_inv cfg fuel
    have hf := forward_ok cfg (tag_ack cfg) fuel
    unfold forward
    split
    · exact h
    · dsimp only
      have hc := subInv_count h g.mtype
      split
      · exact logAt_inv ih 40 hc
      · split
        · exact logAt_inv ih 40 hc
        · exact deliver_inv (tag_ack cfg) hf ih g _ hc

theorem fwdTop_inv (cfg : Cfg) : InvOK cfg (fwdTop cfg) := fun s g h => forward_inv cfg _ s g h

/-! ## subscription requests -/

theorem mem_setAdd (l : List Nat) (u v : Nat) : v ∈ setAdd l u ↔ v ∈ l ∨ v = u := by
  unfold setAdd; split <;> simp_all

theorem nodup_setAdd (l : List Nat) (u : Nat) (h : l.Nodup) : (setAdd l u).Nodup := by
  unfold setAdd; split
  · exact h
  · rename_i hn; exact List.nodup_append.mpr ⟨h, by simp, by intro a ha b hb; simp at hb; subst hb; exact fun e => hn (e ▸ ha)⟩

theorem find_map_keyL (idx : List (Int × List Nat)) (g : Int × List Nat → Int × List Nat)
    (hk : ∀ p, (g p).1 = p.1) (t' : Int) :
    (idx.map g).find? (·.1 == t') = (idx.find? (·.1 == t')).map g := by
  induction idx with
  | nil => rfl
  | cons p idx ih =>
    simp only [List.map_cons, List.find?_cons, hk]
    cases (p.1 == t') <;> simp [ih]

theorem idxAdd_get (idx : List (Int × List Nat)) (t t' : Int) (u : Nat) :
    idxGet (idxAdd idx t u) t' = if t' = t then setAdd (idxGet idx t') u else idxGet idx t' := by
  unfold idxAdd
  by_cases hany : idx.any (·.1 == t) = true
  · simp only [hany, if_true]
    unfold idxGet
    rw [find_map_keyL idx _ (by intro p; split <;> rfl) t']
    cases hf : idx.find? (·.1 == t') with
    | none =>
      have : t' ≠ t := by
        intro e; subst e
        rw [List.find?_eq_none] at hf
        simp only [List.any_eq_true] at hany
        obtain ⟨p, hp, hpt⟩ := hany; exact hf p hp hpt
      simp [this]
    | some p =>
      have hp : p.1 = t' := by simpa using List.find?_some hf
      simp only [Option.map_some]
      by_cases ht : t' = t
      · subst ht; simp [hp]
      · have : (p.1 == t) = false := by simp; rw [hp]; exact ht
        simp [this, ht]
  · have hany' : idx.any (·.1 == t) = false := Bool.eq_false_iff.mpr hany
    simp only [hany', Bool.false_eq_true, if_false]
    unfold idxGet
    rw [List.find?_append]
    have hnone : idx.find? (·.1 == t) = none := by
      rw [List.find?_eq_none]; intro p hp; have := List.any_eq_false.mp hany' p hp; simpa using this
    by_cases htt : t' = t
    · subst htt; simp [hnone, setAdd]
    · have : (t == t') = false := by simp; exact fun e => htt e.symm
      cases hc : idx.find? (·.1 == t') <;> simp [this, htt]

theorem mem_discards (ts : List Int) (idx : List (Int × List Nat)) (t' : Int) (u v : Nat) :
    v ∈ idxGet (ts.foldl (fun i t => idxDiscard i t u) idx) t' ↔ v ∈ idxGet idx t' ∧ ¬(t' ∈ ts ∧ v = u) := by
  rw [idxDiscards_get]; split <;> simp_all

theorem find_setSubs (s : State) (u v : Nat) (l : List Int) :
    (s.setSubs u l).find v = (s.find v).map (fun m => if m.uid == u then { m with subs := l } else m) :=
  find_upd s u v _ (fun _ => rfl)

/-- the shape shared by all four subscription updates: new index `i'`, new `subs` of `u` -/
theorem subInv_set {cfg : Cfg} {s : State} (h : SubInv cfg s) (u : Nat) (m : Module) (hm : s.find u = some m)
    (i' : List (Int × List Nat)) (l' : List Int)
    (h1 : ∀ t' v, v ∈ idxGet i' t' → (v = u ∧ t' ∈ l') ∨ (v ≠ u ∧ v ∈ idxGet s.idx t'))
    (h2 : ∀ t', (idxGet i' t').Nodup) (h3 : cfg.allTypes ∈ l' → l' = [cfg.allTypes]) :
    SubInv cfg (({ s with idx := i' } : State).setSubs u l') := by
  have hmu := find_uid hm
  have hf : ∀ v, (({ s with idx := i' } : State).setSubs u l').find v =
      (s.find v).map (fun m => if m.uid == u then { m with subs := l' } else m) := fun v => find_setSubs _ u v l'
  refine ⟨fun t' v hv => ?_, h2, fun v m' hm' ha => ?_⟩
  · rw [hf]
    have hv' : v ∈ idxGet i' t' := hv
    rcases h1 t' v hv' with ⟨rfl, ht⟩ | ⟨hne, hold⟩
    · exact ⟨{ m with subs := l' }, by rw [hm]; simp [hmu], ht⟩
    · obtain ⟨m0, hm0, htm⟩ := h.sub t' v hold
      have := find_uid hm0
      refine ⟨m0, ?_, htm⟩
      rw [hm0]; simp only [Option.map_some]; rw [this]; simp [hne]
  · rw [hf] at hm'
    cases h0 : s.find v with
    | none => simp [h0] at hm'
    | some m0 =>
      simp only [h0, Option.map_some, Option.some.injEq] at hm'
      by_cases hvu : m0.uid = u
      · simp only [hvu, beq_self_eq_true, if_true] at hm'; subst hm'; exact h3 ha
      · have : (m0.uid == u) = false := by simpa using hvu
        simp only [this, Bool.false_eq_true, if_false] at hm'; subst hm'
        exact h.excl v m0 h0 ha

theorem addSubCore_inv {cfg : Cfg} {s : State} (h : SubInv cfg s) (u : Nat) (t : Int) (m : Module)
    (hm : s.find u = some m) : SubInv cfg (addSubCore cfg s u t) := by
  have hlm : lookupMod s u = m := by unfold lookupMod; rw [hm]; rfl
  unfold addSubCore
  simp only [hlm]
  have hown : ∀ t', u ∈ idxGet s.idx t' → t' ∈ m.subs := by
    intro t' hu; obtain ⟨m0, hm0, ht⟩ := h.sub t' u hu; rw [hm] at hm0; cases hm0; exact ht
  split
  · rename_i hall
    have hall : t = cfg.allTypes := by simpa using hall
    subst hall
    refine subInv_set h u m hm _ _ (fun t' v hv => ?_) (fun t' => ?_) (fun _ => rfl)
    · rw [idxAdd_get] at hv
      by_cases hvu : v = u
      · subst hvu; left; refine ⟨rfl, ?_⟩
        by_cases ht' : t' = cfg.allTypes
        · simp [ht']
        · simp only [ht', if_false] at hv
          have := (mem_discards m.subs s.idx t' v v).mp hv
          exact absurd ⟨hown t' this.1, rfl⟩ this.2
      · right; refine ⟨hvu, ?_⟩
        split at hv
        · rcases (mem_setAdd _ _ _).mp hv with h1 | h1
          · exact ((mem_discards m.subs s.idx t' u v).mp h1).1
          · exact absurd h1 hvu
        · exact ((mem_discards m.subs s.idx t' u v).mp hv).1
    · rw [idxAdd_get]
      have hn : (idxGet (m.subs.foldl (fun i t => idxDiscard i t u) s.idx) t').Nodup := by
        rw [idxDiscards_get]; split
        · exact (h.nodup t').filter _
        · exact h.nodup t'
      split
      · exact nodup_setAdd _ _ hn
      · exact hn
  · rename_i hnall
    have hnall : ¬ t = cfg.allTypes := by simpa using hnall
    split
    · exact h
    · rename_i hnsa
      have hnsa : cfg.allTypes ∉ m.subs := by simpa using hnsa
      refine subInv_set h u m hm _ _ (fun t' v hv => ?_) (fun t' => ?_) (fun ha => ?_)
      · rw [idxAdd_get] at hv
        by_cases hvu : v = u
        · subst hvu; left; refine ⟨rfl, ?_⟩
          by_cases ht' : t' = t
          · subst ht'; split <;> simp_all
          · simp only [ht', if_false] at hv
            have := hown t' hv
            split
            · exact this
            · exact List.mem_append_left _ this
        · right; refine ⟨hvu, ?_⟩
          split at hv
          · rcases (mem_setAdd _ _ _).mp hv with h1 | h1
            · exact h1
            · exact absurd h1 hvu
          · exact hv
      · rw [idxAdd_get]; split
        · exact nodup_setAdd _ _ (h.nodup t')
        · exact h.nodup t'
      · exfalso
        split at ha
        · exact hnsa ha
        · rcases List.mem_append.mp ha with h1 | h1
          · exact hnsa h1
          · simp at h1; exact hnall h1.symm

theorem addSub_inv {cfg : Cfg} {s : State} (h : SubInv cfg s) (u : Nat) (t : Int) (m : Module)
    (hm : s.find u = some m) : SubInv cfg (addSub cfg s u t) := by
  unfold addSub; split
  · exact logAt_inv (fwdTop_inv cfg) 10 (addSubCore_inv h u t m hm)
  · exact addSubCore_inv h u t m hm

theorem removeSubCore_inv {cfg : Cfg} {s : State} (h : SubInv cfg s) (u : Nat) (t : Int) (m : Module)
    (hm : s.find u = some m) : SubInv cfg (removeSubCore cfg s u t) := by
  have hlm : lookupMod s u = m := by unfold lookupMod; rw [hm]; rfl
  unfold removeSubCore
  simp only [hlm]
  have hown : ∀ t', u ∈ idxGet s.idx t' → t' ∈ m.subs := by
    intro t' hu; obtain ⟨m0, hm0, ht⟩ := h.sub t' u hu; rw [hm] at hm0; cases hm0; exact ht
  split
  · refine subInv_set h u m hm _ _ (fun t' v hv => ?_) (fun t' => ?_) (fun ha => by simp at ha)
    · have h1 := (mem_discards m.subs _ t' u v).mp hv
      have h2 : v ∈ idxGet s.idx t' := idxGet_discard s.idx t t' u v h1.1
      right; refine ⟨?_, h2⟩
      intro e; subst e; exact h1.2 ⟨hown t' h2, rfl⟩
    · rw [idxDiscards_get, idxDiscard_get]
      have hn : (if t' = t then (idxGet s.idx t').filter (· != u) else idxGet s.idx t').Nodup := by
        split
        · exact (h.nodup t').filter _
        · exact h.nodup t'
      split
      · exact hn.filter _
      · exact hn
  · split
    · exact h
    · rename_i hnsa
      have hnsa : cfg.allTypes ∉ m.subs := by simpa using hnsa
      refine subInv_set h u m hm _ _ (fun t' v hv => ?_) (fun t' => ?_) (fun ha => ?_)
      · rw [idxDiscard_get] at hv
        by_cases hvu : v = u
        · subst hvu; left; refine ⟨rfl, ?_⟩
          split at hv
          · simp at hv
          · rename_i hne
            exact List.mem_filter.mpr ⟨hown t' hv, by simpa using hne⟩
        · right; refine ⟨hvu, ?_⟩
          split at hv
          · exact (List.mem_filter.mp hv).1
          · exact hv
      · rw [idxDiscard_get]; split
        · exact (h.nodup t').filter _
        · exact h.nodup t'
      · exact absurd (List.mem_filter.mp ha).1 hnsa

theorem removeSub_inv {cfg : Cfg} {s : State} (h : SubInv cfg s) (u : Nat) (t : Int) (m : Module)
    (hm : s.find u = some m) : SubInv cfg (removeSub cfg s u t) := by
  unfold removeSub; split
  · exact logAt_inv (fwdTop_inv cfg) 10 (removeSubCore_inv h u t m hm)
  · exact removeSubCore_inv h u t m hm

/-! ## the snapshot has no repetition -/

/-- **The subscriber snapshot of a type other than the ALL sentinel never lists a module twice** (so C01's
`exactly_once` applies), for every iteration order that neither invents nor repeats elements. -/
theorem snapshot_nodup {cfg : Cfg} {s : State} (h : SubInv cfg s) (t : Int) (ht : t ≠ cfg.allTypes)
    (hord : ∀ l : List Nat, l.Nodup → (cfg.order l).Nodup ∧ ∀ x, x ∈ cfg.order l → x ∈ l) :
    (recipients cfg s t).Nodup := by
  unfold recipients
  have h1 := hord _ (h.nodup t)
  have h2 := hord _ (h.nodup cfg.allTypes)
  refine List.nodup_append.mpr ⟨h1.1, h2.1, fun a ha b hb hab => ?_⟩
  subst hab
  obtain ⟨m, hm, htm⟩ := h.sub t a (h1.2 a ha)
  obtain ⟨m', hm', ham⟩ := h.sub cfg.allTypes a (h2.2 a hb)
  rw [hm] at hm'; cases hm'
  have := h.excl a m hm ham
  rw [this] at htm; simp at htm; exact ht htm

/-! ## every top-level operation of `run()` preserves the invariant -/

theorem toLoggers_inv (cfg : Cfg) (f : Frame) : ∀ (ls : List Nat) {s : State}, SubInv cfg s → SubInv cfg (toLoggers cfg f ls s)
  | [], _, h => h
  | u :: rest, s, h => by
    unfold toLoggers
    apply toLoggers_inv cfg f rest
    unfold loggerOne; split
    · exact h
    · exact trySend_inv (tag_ack cfg) (fwdTop_ok cfg (tag_ack cfg)) (fwdTop_inv cfg) h u f

theorem sendAck_inv {cfg : Cfg} {s : State} (h : SubInv cfg s) (u : Nat) : SubInv cfg (sendAck cfg s u) := by
  unfold sendAck; split
  · exact h
  · exact toLoggers_inv cfg _ _ (trySend_inv (tag_ack cfg) (fwdTop_ok cfg (tag_ack cfg)) (fwdTop_inv cfg) h u _)

theorem subInv_misc {cfg : Cfg} {s : State} (h : SubInv cfg s) (s' : State) (hi : s'.idx = s.idx) (hm : s'.mods = s.mods) :
    SubInv cfg s' :=
  subInv_of_same h hi (fun u => by unfold State.find; rw [hm])

theorem removeTop_inv {cfg : Cfg} {s : State} (h : SubInv cfg s) (u : Nat) : SubInv cfg (removeModule cfg (fwdTop cfg) s u) :=
  removeModule_inv (tag_ack cfg) (fwdTop_ok cfg (tag_ack cfg)) (fwdTop_inv cfg) h u

theorem setReq_keeps (cfg : Cfg) (buf : List Nat) (h : Hdr) (x : Module) :
    (setReq cfg buf h x).uid = x.uid ∧ (setReq cfg buf h x).subs = x.subs := by
  unfold setReq; split <;> exact ⟨rfl, rfl⟩

theorem setAll_keeps (cfg : Cfg) (buf : List Nat) (h : Hdr) (nm : List Nat) (x : Module) :
    (setAll cfg buf h nm x).uid = x.uid ∧ (setAll cfg buf h nm x).subs = x.subs := by
  unfold setAll; exact setReq_keeps cfg buf h x

theorem clashLoop_inv (cfg : Cfg) (me : Module) : ∀ (os : List Module) {s : State}, SubInv cfg s →
    SubInv cfg (clashLoop cfg me os s).1
  | [], _, h => h
  | o :: rest, s, h => by
    unfold clashLoop
    split
    · exact h
    · apply clashLoop_inv cfg me rest
      split
      · exact h
      · exact logAt_inv (fwdTop_inv cfg) 10 h

theorem connectModule_inv {cfg : Cfg} {s : State} (h : SubInv cfg s) (u : Nat) (hd : Hdr) :
    SubInv cfg (connectModule cfg s u hd).1 := by
  unfold connectModule
  dsimp only
  split
  · exact h
  · split
    · exact removeTop_inv (logAt_inv (fwdTop_inv cfg) 40
        (subInv_upd h u (setReq cfg s.buf hd) (fun m => (setReq_keeps cfg s.buf hd m).1) (fun m => (setReq_keeps cfg s.buf hd m).2))) u
    · rename_i nm _
      have h1 := subInv_upd h u (setAll cfg s.buf hd nm) (fun m => (setAll_keeps cfg s.buf hd nm m).1)
        (fun m => (setAll_keeps cfg s.buf hd nm m).2)
      split
      · split
        · exact removeTop_inv (logAt_inv (fwdTop_inv cfg) 40 h1) u
        · have hl := clashLoop_inv cfg (setAll cfg s.buf hd nm (lookupMod s u))
            ((s.upd u (setAll cfg s.buf hd nm)).mods.filter (·.uid != u)) h1
          generalize clashLoop cfg (setAll cfg s.buf hd nm (lookupMod s u))
            ((s.upd u (setAll cfg s.buf hd nm)).mods.filter (·.uid != u)) (s.upd u (setAll cfg s.buf hd nm)) = r at hl
          obtain ⟨s2, cl⟩ := r
          dsimp only at hl ⊢
          split
          · exact removeTop_inv (logAt_inv (fwdTop_inv cfg) 40 hl) u
          · exact subInv_misc (subInv_upd hl u (fun m => { m with connected := true }) (fun _ => rfl) (fun _ => rfl)) _ rfl rfl
      · split
        · exact removeTop_inv (logAt_inv (fwdTop_inv cfg) 40 h1) u
        · rename_i id off _
          have h2 : SubInv cfg ({ (s.upd u (setAll cfg s.buf hd nm)) with nextDyn := off } : State) := subInv_misc h1 _ rfl rfl
          exact subInv_misc (subInv_upd h2 u (fun m => { m with modId := id, connected := true }) (fun _ => rfl) (fun _ => rfl)) _ rfl rfl

theorem fwdTop_inv' {cfg : Cfg} {s : State} (h : SubInv cfg s) (g : Frame) : SubInv cfg (fwdTop cfg s g) := fwdTop_inv cfg s g h

theorem infoOf_inv {cfg : Cfg} {s : State} (h : SubInv cfg s) (m : Module) : SubInv cfg (infoOf cfg s m) := by
  unfold infoOf; exact fwdTop_inv' (logAt_inv (fwdTop_inv cfg) 10 h) _

theorem sendInfo_inv {cfg : Cfg} {s : State} (h : SubInv cfg s) (u : Nat) : SubInv cfg (sendInfo cfg s u) := by
  unfold sendInfo; split
  · exact h
  · exact infoOf_inv h _

theorem processMessage_inv {cfg : Cfg} {s : State} (h : SubInv cfg s) (u : Nat) (m : Module) (hm : s.find u = some m)
    (hd : Hdr) : SubInv cfg (processMessage cfg s u hd) := by
  unfold processMessage
  dsimp only
  split
  · have hc := connectModule_inv h u hd
    generalize connectModule cfg s u hd = r at hc
    obtain ⟨s1, ok⟩ := r
    simp only at hc ⊢
    split
    · exact logAt_inv (fwdTop_inv cfg) 20 (infoOf_inv (sendAck_inv hc u) _)
    · exact hc
  · split
    · exact logAt_inv (fwdTop_inv cfg) 20 (removeTop_inv h u)
    · split
      · exact sendAck_inv (addSub_inv h u _ m hm) u
      · split
        · exact sendAck_inv (removeSub_inv h u _ m hm) u
        · split
          · split
            · exact removeTop_inv (logAt_inv (fwdTop_inv cfg) 40 h) u
            · rename_i nm _
              exact infoOf_inv (logAt_inv (fwdTop_inv cfg) 20
                (subInv_upd h u (fun m => { m with name := nm }) (fun _ => rfl) (fun _ => rfl))) _
          · split
            · exact sendInfo_inv (subInv_upd h u (fun m => { m with pid := bufI32 s.buf 0 }) (fun _ => rfl) (fun _ => rfl)) u
            · exact fwdTop_inv' (logAt_inv (fwdTop_inv cfg) 10 h) _

theorem subInv_setBuf {cfg : Cfg} {s : State} (h : SubInv cfg s) (b : List Nat) : SubInv cfg { s with buf := b } :=
  subInv_of_same h rfl (fun _ => rfl)

theorem readOne_inv {cfg : Cfg} {s : State} (h : SubInv cfg s) (r : Read) : SubInv cfg (readOne cfg s r) := by
  unfold readOne
  split
  · exact h
  · split
    · exact h
    · rename_i m hm
      have he : SubInv cfg (s.emit (.rd r.uid)) := subInv_emit h _
      have hme : (s.emit (.rd r.uid)).find r.uid = some m := hm
      dsimp only
      split
      · exact logAt_inv (fwdTop_inv cfg) 40 (removeTop_inv he _)
      · split
        · exact logAt_inv (fwdTop_inv cfg) 30 (removeTop_inv he _)
        · split
          · exact logAt_inv (fwdTop_inv cfg) 30 (removeTop_inv he _)
          · split
            · split
              · exact logAt_inv (fwdTop_inv cfg) 40 (removeTop_inv he _)
              · split
                · exact logAt_inv (fwdTop_inv cfg) 30 (removeTop_inv (subInv_setBuf he (bufWrite (s.emit (.rd r.uid)).buf r.pay r.avail)) _)
                · exact processMessage_inv (subInv_setBuf he (bufWrite (s.emit (.rd r.uid)).buf r.pay r.h.nbytes.toNat)) _ m hm _
            · exact processMessage_inv he _ m hme _

theorem readAll_inv (cfg : Cfg) : ∀ (rs : List Read) {s : State}, SubInv cfg s → SubInv cfg (readAll cfg rs s)
  | [], _, h => h
  | r :: rest, _, h => by unfold readAll; exact readAll_inv cfg rest (readOne_inv h r)

theorem foldl_fwd_inv (cfg : Cfg) : ∀ (fs : List Frame) {s : State}, SubInv cfg s → SubInv cfg (fs.foldl (fwdTop cfg) s)
  | [], _, h => h
  | f :: rest, _, h => by simp only [List.foldl_cons]; exact foldl_fwd_inv cfg rest (fwdTop_inv' h f)

theorem infoAll_inv (cfg : Cfg) : ∀ (ms : List Module) {s : State}, SubInv cfg s → SubInv cfg (infoAll cfg ms s)
  | [], _, h => h
  | m :: rest, _, h => by unfold infoAll; exact infoAll_inv cfg rest (infoOf_inv h _)

theorem acceptStep_inv {cfg : Cfg} {s : State} (h : SubInv cfg s) : SubInv cfg (acceptStep cfg s) := by
  unfold acceptStep
  dsimp only
  have hl := logAt_inv (fwdTop_inv cfg) 20 h
  generalize logAt cfg (fwdTop cfg) 20 s = s1 at hl
  -- a fresh module with no subscriptions
  refine ⟨fun t v hv => ?_, hl.nodup, fun v m' hm' ha => ?_⟩
  · obtain ⟨m0, hm0, ht⟩ := hl.sub t v hv
    refine ⟨m0, ?_, ht⟩
    show (s1.mods ++ _).find? _ = some m0
    rw [List.find?_append]; unfold State.find at hm0; rw [hm0]; rfl
  · have hm'' : (s1.mods ++ [({ uid := s1.nextUid + 1 } : Module)]).find? (·.uid == v) = some m' := hm'
    rw [List.find?_append] at hm''
    cases h0' : s1.mods.find? (·.uid == v) with
    | some m0 => rw [h0'] at hm''; simp at hm''; subst hm''; exact hl.excl v m0 h0' ha
    | none =>
      rw [h0'] at hm''; simp at hm''
      obtain ⟨_, rfl⟩ := hm''; simp at ha

theorem subInv_setW {cfg : Cfg} {s : State} (h : SubInv cfg s) (w : List Nat) : SubInv cfg { s with wlist := w } :=
  subInv_of_same h rfl (fun _ => rfl)

theorem ioStep_inv {cfg : Cfg} {s : State} (h : SubInv cfg s) (a : Bool) (w : List Nat) (rs : List Read) :
    SubInv cfg (ioStep cfg s a w rs) := by
  unfold ioStep
  split
  · dsimp only
    apply readAll_inv
    apply subInv_setW
    split
    · exact acceptStep_inv h
    · exact h
  · exact h

theorem sendTiming_inv {cfg : Cfg} {s : State} (h : SubInv cfg s) : SubInv cfg (sendTiming cfg s) := by
  unfold sendTiming
  dsimp only
  have h1 : SubInv cfg ({ s with counts := [], inTraffic := true } : State) := subInv_of_same h rfl (fun _ => rfl)
  have h2 := fwdTop_inv' h1 (mgrFrame cfg.mtTiming 0 cfg.szTiming (Body.timing (timingEntries cfg s.counts) (pidEntries s.mods)))
  exact subInv_of_same h2 rfl (fun _ => rfl)

theorem sendTraffic_inv {cfg : Cfg} {s : State} (h : SubInv cfg s) : SubInv cfg (sendTraffic cfg s) := by
  unfold sendTraffic
  dsimp only
  have h1 : SubInv cfg ({ s with inTraffic := true } : State) := subInv_of_same h rfl (fun _ => rfl)
  have h1' := logAt_inv (fwdTop_inv cfg) 10 h1
  generalize logAt cfg (fwdTop cfg) 10 ({ s with inTraffic := true } : State) = s1 at h1'
  have h2 := foldl_fwd_inv cfg (trafficFrames cfg s1.trafficSeq s1.traffic) h1'
  exact subInv_of_same h2 rfl (fun _ => rfl)

theorem sendActive_inv {cfg : Cfg} {s : State} (h : SubInv cfg s) : SubInv cfg (sendActive cfg s) := by
  unfold sendActive
  dsimp only
  have h0 := logAt_inv (fwdTop_inv cfg) 10 h
  generalize logAt cfg (fwdTop cfg) 10 s = s0 at h0
  have h1 := infoAll_inv cfg s0.mods h0
  have h2 := fwdTop_inv' h1 (mgrFrame cfg.mtActive 0 cfg.szActive
    (Body.active (((infoAll cfg s0.mods s0).mods.length : Int) - 1) (trimZeros ((s0.mods.take cfg.maxActive).map (·.modId)))
      (trimZeros ((s0.mods.take cfg.maxActive).map (·.pid)))))
  exact subInv_of_same h2 rfl (fun _ => rfl)

theorem ticks_inv {cfg : Cfg} {s : State} (h : SubInv cfg s) : SubInv cfg (ticks cfg s) := by
  unfold ticks
  dsimp only
  have h1 : SubInv cfg (if (cfg.timing && decide (s.now - s.tTiming > cfg.pTiming)) = true then
      { sendTiming cfg s with tTiming := s.now } else s) := by
    split
    · exact subInv_of_same (sendTiming_inv h) rfl (fun _ => rfl)
    · exact h
  generalize (if (cfg.timing && decide (s.now - s.tTiming > cfg.pTiming)) = true then
      { sendTiming cfg s with tTiming := s.now } else s) = s1 at h1 ⊢
  have h2 : SubInv cfg (if s1.now - s1.tTraffic > cfg.pTraffic then sendTraffic cfg s1 else s1) := by
    split
    · exact sendTraffic_inv h1
    · exact h1
  generalize (if s1.now - s1.tTraffic > cfg.pTraffic then sendTraffic cfg s1 else s1) = s2 at h2 ⊢
  split
  · exact sendActive_inv h2
  · exact h2

theorem step_inv {cfg : Cfg} {s : State} (h : SubInv cfg s) (r : Round) : SubInv cfg (step cfg s r) := by
  unfold step
  split
  · exact h
  · dsimp only
    have h0 : SubInv cfg (envStep s r) := by unfold envStep; exact subInv_of_same h rfl (fun _ => rfl)
    exact ticks_inv (ioStep_inv h0 _ _ _)

theorem init_inv (cfg : Cfg) : SubInv cfg (init cfg) := by
  unfold init
  apply logAt_inv (fwdTop_inv cfg) 20
  refine ⟨fun t u hu => by simp [idxGet] at hu, fun t => by simp [idxGet], fun u m hm ha => ?_⟩
  simp only [State.find, List.find?_cons, List.find?_nil] at hm
  split at hm
  · cases hm; simp at ha
  · cases hm

/-- **The invariant holds in every reachable state**: after any sequence of rounds (any accepts, frames, readiness,
failures, clock). -/
theorem reachable_inv (cfg : Cfg) (rs : List Round) : SubInv cfg (run cfg rs) := by
  unfold run
  have : ∀ (rs : List Round) (s : State), SubInv cfg s → SubInv cfg (rs.foldl (step cfg) s) := by
    intro rs; induction rs with
    | nil => intro s h; exact h
    | cons r rs ih => intro s h; exact ih _ (step_inv h r)
  exact this rs _ (init_inv cfg)

end Pyrtma.Mgr
