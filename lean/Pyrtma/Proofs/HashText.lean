import Pyrtma.Spec.HashText
import Std.Data.String.ToInt
/-! Lemmas for C13: the hashed text can be split back into the definition it came from. -/
namespace Pyrtma.HashText

/-! ### literal pieces -/

theorem idP_eq : "  id: ".toList = [' ', ' ', 'i', 'd', ':', ' '] := by decide
theorem fieldsP_eq : "  fields:".toList = [' ', ' ', 'f', 'i', 'e', 'l', 'd', 's', ':'] := by decide
theorem fieldsNull_eq : "  fields: null".toList = [' ', ' ', 'f', 'i', 'e', 'l', 'd', 's', ':', ' ', 'n', 'u', 'l', 'l'] := by decide
theorem sp4_eq : "    ".toList = [' ', ' ', ' ', ' '] := by decide
theorem cs_eq : ": ".toList = [':', ' '] := by decide
theorem refP_eq : "    fields: ".toList = [' ', ' ', ' ', ' ', 'f', 'i', 'e', 'l', 'd', 's', ':', ' '] := by decide
theorem fieldsWord_eq : "fields".toList = ['f', 'i', 'e', 'l', 'd', 's'] := by decide

theorem showInt_inj {i j : Int} (h : showInt i = showInt j) : i = j :=
  Int.repr_injective (String.toList_inj.mp h)

/-! ### splitting at newlines -/

theorem split_nl {a b r r' : Str} (ha : '\n' ∉ a) (hb : '\n' ∉ b) (h : a ++ '\n' :: r = b ++ '\n' :: r') :
    a = b ∧ r = r' := by
  induction a generalizing b with
  | nil =>
    cases b with
    | nil => simp at h; exact ⟨rfl, h⟩
    | cons c b' => simp at h; exact absurd (h.1 ▸ List.mem_cons_self) hb
  | cons c a' ih =>
    cases b with
    | nil => simp at h; exact absurd (h.1 ▸ List.mem_cons_self) ha
    | cons c' b' =>
      simp at h
      obtain ⟨rfl, h⟩ := h
      have := ih (fun hm => ha (List.mem_cons_of_mem _ hm)) (fun hm => hb (List.mem_cons_of_mem _ hm)) h
      exact ⟨by rw [this.1], this.2⟩

theorem joinWith_cons2 (a b : Str) (r : List Str) :
    joinWith ['\n'] (a :: b :: r) = a ++ '\n' :: joinWith ['\n'] (b :: r) := by
  simp [joinWith]

/-- lines without newlines are recovered from the joined text -/
theorem joinWith_inj : ∀ {A B : List Str}, A ≠ [] → B ≠ [] → (∀ l ∈ A, '\n' ∉ l) → (∀ l ∈ B, '\n' ∉ l) →
    joinWith ['\n'] A = joinWith ['\n'] B → A = B
  | [], _, h, _, _, _, _ => absurd rfl h
  | _, [], _, h, _, _, _ => absurd rfl h
  | [a], [b], _, _, _, _, h => by simp [joinWith] at h; rw [h]
  | [a], b :: b2 :: r, _, _, ha, _, h => by
    rw [joinWith_cons2] at h; simp only [joinWith] at h
    exact absurd (h ▸ List.mem_append_right _ List.mem_cons_self) (ha a List.mem_cons_self)
  | a :: a2 :: r, [b], _, _, _, hb, h => by
    rw [joinWith_cons2] at h; simp only [joinWith] at h
    exact absurd (h ▸ List.mem_append_right _ List.mem_cons_self) (hb b List.mem_cons_self)
  | a :: a2 :: r, b :: b2 :: r', _, _, ha, hb, h => by
    rw [joinWith_cons2, joinWith_cons2] at h
    obtain ⟨rfl, h2⟩ := split_nl (ha a List.mem_cons_self) (hb b List.mem_cons_self) h
    have := joinWith_inj (A := a2 :: r) (B := b2 :: r') (by simp) (by simp)
      (fun l hl => ha l (List.mem_cons_of_mem _ hl)) (fun l hl => hb l (List.mem_cons_of_mem _ hl)) h2
    rw [this]

/-! ### splitting a field line at `": "` -/

theorem hasColonSpace_tail {c : Char} {r : Str} (h : hasColonSpace (c :: r) = false) : hasColonSpace r = false := by
  unfold hasColonSpace at h
  split at h
  · cases h
  · rename_i heq; cases heq; exact h
  · rename_i heq; cases heq

theorem hasColonSpace_head {r : Str} : hasColonSpace (':' :: ' ' :: r) = true := by
  simp [hasColonSpace]

theorem split_cs {f f' t t' : Str} (hf : hasColonSpace f = false) (hf' : hasColonSpace f' = false)
    (h : f ++ ':' :: ' ' :: t = f' ++ ':' :: ' ' :: t') : f = f' ∧ t = t' := by
  induction f generalizing f' with
  | nil =>
    cases f' with
    | nil => simp at h; exact ⟨rfl, h⟩
    | cons c f2 =>
      simp at h
      obtain ⟨rfl, h⟩ := h
      cases f2 with
      | nil => simp at h
      | cons c2 f3 =>
        simp at h
        obtain ⟨rfl, _⟩ := h
        rw [hasColonSpace_head] at hf'; cases hf'
  | cons c f1 ih =>
    cases f' with
    | nil =>
      simp at h
      obtain ⟨rfl, h⟩ := h
      cases f1 with
      | nil => simp at h
      | cons c2 f3 =>
        simp at h
        obtain ⟨rfl, _⟩ := h
        rw [hasColonSpace_head] at hf; cases hf
    | cons c' f2 =>
      simp at h
      obtain ⟨rfl, h⟩ := h
      have := ih (hasColonSpace_tail hf) (hasColonSpace_tail hf') h
      exact ⟨by rw [this.1], this.2⟩

theorem fieldLine_inj {p q : Str × Str} (hp : cleanField p = true) (hq : cleanField q = true)
    (h : fieldLine p = fieldLine q) : p = q := by
  simp only [cleanField, Bool.and_eq_true, Bool.not_eq_true'] at hp hq
  simp only [fieldLine, sp4_eq, cs_eq, List.append_assoc, List.cons_append, List.nil_append, List.cons.injEq, true_and] at h
  obtain ⟨h1, h2⟩ := split_cs hp.2 hq.2 h
  exact Prod.ext h1 h2

theorem map_fieldLine_inj : ∀ {fs gs : List (Str × Str)}, fs.all cleanField = true → gs.all cleanField = true →
    fs.map fieldLine = gs.map fieldLine → fs = gs
  | [], [], _, _, _ => rfl
  | [], _ :: _, _, _, h => by simp at h
  | _ :: _, [], _, _, h => by simp at h
  | p :: fs, q :: gs, hf, hg, h => by
    simp only [List.all_cons, Bool.and_eq_true] at hf hg
    simp only [List.map_cons, List.cons.injEq] at h
    rw [fieldLine_inj hf.1 hg.1 h.1, map_fieldLine_inj hf.2 hg.2 h.2]

theorem fieldLine_ne_nil (p : Str × Str) : fieldLine p ≠ [] := by
  simp [fieldLine, sp4_eq]

theorem bodyLines_inj {fs gs : List (Str × Str)} (hf : fs.all cleanField = true) (hg : gs.all cleanField = true)
    (h : bodyLines fs = bodyLines gs) : fs = gs := by
  cases fs with
  | nil =>
    cases gs with
    | nil => rfl
    | cons q gs => simp [bodyLines] at h; exact absurd h.1 (fieldLine_ne_nil q)
  | cons p fs =>
    cases gs with
    | nil => simp [bodyLines] at h; exact absurd h.1 (fieldLine_ne_nil p)
    | cons q gs => exact map_fieldLine_inj hf hg (by simpa [bodyLines] using h)

theorem bodyLines_ne_nil (fs : List (Str × Str)) : bodyLines fs ≠ [] := by
  cases fs <;> simp [bodyLines]

end Pyrtma.HashText
