import Pyrtma.Model.ResRegex
/-! The backtracking matcher of `Model/ResRegex.lean` and the deterministic scan `rangeSearch` agree. -/
namespace Pyrtma.ResRegex
open Pyrtma.Registry

/-! ### characters -/

theorem isDigit_iff (c : Char) : isDigit c = true ↔ 48 ≤ c.toNat ∧ c.toNat ≤ 57 := by
  simp only [isDigit, Bool.and_eq_true, decide_eq_true_eq, Char.le_def, UInt32.le_iff_toNat_le]
  rfl

theorem ws_not_digit {c : Char} (h : isWs c = true) : isDigit c = false := by
  cases hd : isDigit c with
  | false => rfl
  | true =>
    have := (isDigit_iff c).mp hd
    simp only [isWs, Bool.or_eq_true, Bool.and_eq_true, decide_eq_true_eq, beq_iff_eq] at h
    omega

theorem digit_not_ws {c : Char} (h : isDigit c = true) : isWs c = false := by
  cases hw : isWs c with
  | false => rfl
  | true => rw [ws_not_digit hw] at h; cases h

theorem digit_ne_sep {c : Char} (h : isDigit c = true) : c ≠ '-' ∧ c ≠ 't' := by
  constructor <;> (intro e; subst e; revert h; decide)

theorem ws_ne_sep {c : Char} (h : isWs c = true) : c ≠ '-' ∧ c ≠ 't' := by
  constructor <;> (intro e; subst e; revert h; decide)

/-! ### `tryDown` -/

theorem tryDown_all_none {f : Nat → Option α} {lo : Nat} : ∀ {k : Nat}, (∀ n, lo ≤ n → n ≤ lo + k → f n = none) →
    tryDown f lo k = none
  | 0, h => by simp [tryDown, h lo (Nat.le_refl _) (by omega)]
  | k + 1, h => by
    simp only [tryDown, h (lo + k + 1) (by omega) (by omega)]
    exact tryDown_all_none (fun n h1 h2 => h n h1 (by omega))

/-- when every shorter repeat fails, the greedy repeat decides alone: backtracking changes nothing -/
theorem tryDown_only_top {f : Nat → Option α} {lo k : Nat} (h : ∀ n, lo ≤ n → n < lo + k → f n = none) :
    tryDown f lo k = f (lo + k) := by
  cases k with
  | zero => rfl
  | succ k =>
    simp only [tryDown]
    cases hf : f (lo + k + 1) with
    | some r => rfl
    | none => exact tryDown_all_none (fun n h1 h2 => h n h1 (by omega))

theorem tryDown_top {f : Nat → Option α} {lo k : Nat} {r : α} (h : f (lo + k) = some r) : tryDown f lo k = some r := by
  cases k with
  | zero => exact h
  | succ k => simp only [tryDown]; rw [show lo + k + 1 = lo + (k + 1) from rfl, h]

/-! ### runs -/

def StartsWith (c : Cls) (s : List Char) : Prop := ∃ ch t, s = ch :: t ∧ c.test ch = true

theorem drop_run (c : Cls) : ∀ s : List Char, s.drop (run c s) = s.dropWhile c.test
  | [] => rfl
  | ch :: t => by
    unfold run
    cases h : c.test ch with
    | true => simp only [List.takeWhile_cons, h, if_true, List.length_cons, List.drop_succ_cons, List.dropWhile_cons]
              exact drop_run c t
    | false => simp [h]

theorem take_run (c : Cls) (s : List Char) : s.take (run c s) = s.takeWhile c.test := by
  unfold run
  induction s with
  | nil => rfl
  | cons ch t ih =>
    cases h : c.test ch with
    | true => simp [h, ih]
    | false => simp [h]

theorem drop_lt_run (c : Cls) : ∀ (s : List Char) (n : Nat), n < run c s → StartsWith c (s.drop n)
  | [], n, h => by simp [run] at h
  | ch :: t, n, h => by
    unfold run at h
    cases hc : c.test ch with
    | false => simp [hc] at h
    | true =>
      cases n with
      | zero => exact ⟨ch, t, rfl, hc⟩
      | succ n =>
        simp only [List.takeWhile_cons, hc, if_true, List.length_cons] at h
        exact drop_lt_run c t n (by unfold run; omega)

theorem run_zero_of_head {c : Cls} {ch : Char} {t : List Char} (h : c.test ch = false) : run c (ch :: t) = 0 := by
  simp [run, h]

theorem run_eq_zero_iff (c : Cls) (s : List Char) : run c s = 0 ↔ (s.takeWhile c.test).isEmpty = true := by
  unfold run
  cases s.takeWhile c.test <;> simp

/-! ### one item at a time -/

/-- the rest of the pattern cannot begin with a character of class `c` -/
def Blocked (c : Cls) (rest : List Item) : Prop := ∀ s caps, StartsWith c s → matchHere rest s caps = none

/-- `c*` followed by something that cannot begin with `c`: the repeat takes the whole run, giving back never helps -/
theorem star_skip {c : Cls} {rest : List Item} (hb : Blocked c rest) (s : List Char) (caps : Caps) :
    matchHere (.star c :: rest) s caps = matchHere rest (s.dropWhile c.test) caps := by
  simp only [matchHere]
  rw [tryDown_only_top (fun n _ h => hb _ _ (drop_lt_run c s n (by omega))), Nat.zero_add, drop_run]

theorem plus_skip {c : Cls} {rest : List Item} (hb : Blocked c rest) (g : Nat) (s : List Char) (caps : Caps) :
    matchHere (.plusCap g c :: rest) s caps =
      if run c s = 0 then none else matchHere rest (s.dropWhile c.test) (caps ++ [(g, s.takeWhile c.test)]) := by
  simp only [matchHere]
  split
  · rfl
  · rename_i hr
    rw [tryDown_only_top (fun n _ h => hb _ _ (drop_lt_run c s n (by omega)))]
    rw [show 1 + (run c s - 1) = run c s by omega, drop_run, take_run]

/-- a trailing `c*` always matches -/
theorem star_end (c : Cls) (s : List Char) (caps : Caps) : matchHere [.star c] s caps = some caps := by
  simp only [matchHere]
  exact tryDown_top rfl

theorem plus_end (g : Nat) (c c' : Cls) (s : List Char) (caps : Caps) :
    matchHere [.plusCap g c, .star c'] s caps =
      if run c s = 0 then none else some (caps ++ [(g, s.takeWhile c.test)]) := by
  simp only [matchHere]
  split
  · rfl
  · rename_i hr
    apply tryDown_top
    rw [show 1 + (run c s - 1) = run c s by omega, take_run]
    exact tryDown_top rfl

theorem blocked_space_plusDigit (g : Nat) (rest : List Item) : Blocked .space (.plusCap g .digit :: rest) := by
  rintro s caps ⟨ch, t, rfl, hc⟩
  have : run .digit (ch :: t) = 0 := run_zero_of_head (ws_not_digit hc)
  simp [matchHere, this]

def sepAlts : List (List Char) := [['-'], ['t', 'o']]

theorem firstAlt_sep_blocked {k : List Char → Option Caps} {ch : Char} {t : List Char} (h : ch ≠ '-' ∧ ch ≠ 't') :
    firstAlt k (ch :: t) sepAlts = none := by
  have h1 : ('-' == ch) = false := by simp [Ne.symm h.1]
  have h2 : ('t' == ch) = false := by simp [Ne.symm h.2]
  simp [firstAlt, sepAlts, stripPrefix, h1, h2]

theorem blocked_space_alts (rest : List Item) : Blocked .space (.alts sepAlts :: rest) := by
  rintro s caps ⟨ch, t, rfl, hc⟩
  simp only [matchHere]
  exact firstAlt_sep_blocked (ws_ne_sep hc)

theorem blocked_digit_starSpace_alts (rest : List Item) : Blocked .digit (.star .space :: .alts sepAlts :: rest) := by
  rintro s caps ⟨ch, t, rfl, hc⟩
  have : run .space (ch :: t) = 0 := run_zero_of_head (digit_not_ws hc)
  simp only [matchHere, this, tryDown, List.drop_zero]
  exact firstAlt_sep_blocked (digit_ne_sep hc)

/-- the ordered alternation `(\-|to)` is `afterSep` -/
theorem alts_eq (rest : List Item) (s : List Char) (caps : Caps) :
    matchHere (.alts sepAlts :: rest) s caps = (afterSep s).bind (fun s' => matchHere rest s' caps) := by
  simp only [matchHere]
  unfold afterSep
  split
  · rename_i r
    simp only [firstAlt, sepAlts, stripPrefix, beq_self_eq_true, if_true, Option.bind_some]
    cases matchHere rest r caps with
    | some x => rfl
    | none => simp [show ('t' == '-') = false by decide]
  · rename_i r
    simp [firstAlt, sepAlts, stripPrefix, show ('-' == 't') = false by decide]
    cases matchHere rest r caps <;> rfl
  · rename_i h1 h2
    cases s with
    | nil => simp [firstAlt, sepAlts, stripPrefix]
    | cons ch t =>
      by_cases e1 : ch = '-'
      · subst e1; exact absurd rfl (h1 t)
      · by_cases e2 : ch = 't'
        · subst e2
          cases t with
          | nil => simp [firstAlt, sepAlts, stripPrefix, show ('-' == 't') = false by decide]
          | cons c2 t2 =>
            by_cases e3 : c2 = 'o'
            · subst e3; exact absurd rfl (h2 t2)
            · have : ('o' == c2) = false := by simp [Ne.symm e3]
              simp [firstAlt, sepAlts, stripPrefix, show ('-' == 't') = false by decide, this]
        · simpa using firstAlt_sep_blocked (k := fun s' => matchHere rest s' caps) (t := t) ⟨e1, e2⟩

theorem rangeRe_eq : rangeRe =
    [.star .space, .plusCap 0 .digit, .star .space, .alts sepAlts, .star .space, .plusCap 1 .digit, .star .space] := rfl

theorem rangeAt_eq (cs : List Char) : rangeAt cs =
    if run .digit cs = 0 then none else
      (afterSep ((cs.dropWhile isDigit).dropWhile isWs)).bind (fun r =>
        if run .digit (r.dropWhile isWs) = 0 then none
        else some (digitsVal (cs.takeWhile isDigit), digitsVal ((r.dropWhile isWs).takeWhile isDigit))) := by
  simp only [run_eq_zero_iff, Cls.test]
  unfold rangeAt
  by_cases h : (cs.takeWhile isDigit).isEmpty = true
  · simp only [h, if_true]
  · simp only [h]
    cases afterSep ((cs.dropWhile isDigit).dropWhile isWs) with
    | none => simp
    | some r => simp

theorem matchHere_tail (r : List Char) (caps : Caps) :
    matchHere [.star .space, .plusCap 1 .digit, .star .space] r caps =
      if run .digit (r.dropWhile isWs) = 0 then none
      else some (caps ++ [(1, (r.dropWhile isWs).takeWhile isDigit)]) := by
  rw [star_skip (blocked_space_plusDigit _ _), plus_end]
  rfl

theorem matchHere_afterStart (s1 : List Char) :
    (matchHere [.plusCap 0 .digit, .star .space, .alts sepAlts, .star .space, .plusCap 1 .digit, .star .space] s1 []).map capsVal
      = rangeAt s1 := by
  rw [plus_skip (blocked_digit_starSpace_alts _), rangeAt_eq]
  by_cases h : run .digit s1 = 0
  · simp only [h, if_true, Option.map_none]
  · simp only [h, if_false]
    rw [star_skip (blocked_space_alts _), alts_eq]
    show Option.map capsVal ((afterSep ((s1.dropWhile isDigit).dropWhile isWs)).bind _) = _
    cases afterSep ((s1.dropWhile isDigit).dropWhile isWs) with
    | none => rfl
    | some r =>
      simp only [Option.bind_some, matchHere_tail]
      by_cases h2 : run .digit (r.dropWhile isWs) = 0
      · simp only [h2, if_true, Option.map_none]
      · simp [h2, capsVal, group, Cls.test]

/-- **One attempt of the regular expression at a given position is `rangeAt` after the leading blanks.** -/
theorem matchHere_rangeRe (s : List Char) :
    (matchHere rangeRe s []).map capsVal = rangeAt (s.dropWhile isWs) := by
  rw [rangeRe_eq, star_skip (blocked_space_plusDigit _ _)]
  exact matchHere_afterStart _

/-! ### `search` -/

theorem rangeAt_nil : rangeAt [] = none := by simp [rangeAt]

theorem rangeAt_ws_head {c : Char} {cs : List Char} (h : isWs c = true) : rangeAt (c :: cs) = none := by
  simp [rangeAt, ws_not_digit h]

theorem rangeSearch_of_rangeAt {t : List Char} {r : Nat × Nat} (h : rangeAt t = some r) : rangeSearch t = some r := by
  cases t with
  | nil => rw [rangeAt_nil] at h; cases h
  | cons c cs => simp [rangeSearch, h]

theorem rangeSearch_dropWhile_ws : ∀ cs : List Char, rangeSearch (cs.dropWhile isWs) = rangeSearch cs
  | [] => rfl
  | c :: cs => by
    cases h : isWs c with
    | false => simp [h]
    | true =>
      simp only [List.dropWhile_cons, h, if_true, rangeSearch, rangeAt_ws_head h]
      exact rangeSearch_dropWhile_ws cs

/-- **`re.search` with the pattern of `handle_reserve` is `rangeSearch`, for every string** — start and end as
`int()` reads them.  The deterministic scan is therefore a faithful reading of the regular expression: greedy
repeats never have to give characters back, and the leading `\s*` never changes which digits are found. -/
theorem reRange_eq_rangeSearch (s : List Char) : reRange s = rangeSearch s := by
  unfold reRange
  induction s with
  | nil =>
    simp only [search]
    rw [matchHere_rangeRe]; simp [rangeAt_nil, rangeSearch]
  | cons c cs ih =>
    simp only [search]
    have hm := matchHere_rangeRe (c :: cs)
    cases hw : isWs c with
    | false =>
      simp only [List.dropWhile_cons, hw, Bool.false_eq_true, if_false] at hm
      simp only [rangeSearch]
      cases hx : matchHere rangeRe (c :: cs) [] with
      | some r => rw [hx] at hm; simp only [Option.map_some] at hm ⊢; rw [← hm]
      | none => rw [hx] at hm; simp only [Option.map_none] at hm; rw [← hm]; exact ih
    | true =>
      simp only [List.dropWhile_cons, hw, if_true] at hm
      simp only [rangeSearch, rangeAt_ws_head hw]
      cases hx : matchHere rangeRe (c :: cs) [] with
      | some r =>
        rw [hx] at hm; simp only [Option.map_some] at hm ⊢
        rw [← rangeSearch_dropWhile_ws cs, rangeSearch_of_rangeAt hm.symm]
      | none => exact ih

/-! ### the accepted language, declaratively -/

/-- somewhere in the string: a digit run, blanks, `-` or `to`, blanks, a digit run -/
def InLang (s : List Char) : Prop :=
  ∃ pre d1 w1 sep w2 d2 post, s = pre ++ (d1 ++ (w1 ++ (sep ++ (w2 ++ (d2 ++ post))))) ∧
    d1 ≠ [] ∧ d1.all isDigit = true ∧ w1.all isWs = true ∧ (sep = ['-'] ∨ sep = ['t', 'o']) ∧
    w2.all isWs = true ∧ d2 ≠ [] ∧ d2.all isDigit = true

def NoHead (p : Char → Bool) (s : List Char) : Prop := ∀ c t, s = c :: t → p c = false

theorem takeWhile_of_noHead {p : Char → Bool} {s : List Char} (h : NoHead p s) : s.takeWhile p = [] := by
  cases s with
  | nil => rfl
  | cons c t => simp [h c t rfl]

theorem dropWhile_of_noHead {p : Char → Bool} {s : List Char} (h : NoHead p s) : s.dropWhile p = s := by
  cases s with
  | nil => rfl
  | cons c t => simp [h c t rfl]

theorem takeWhile_all_append {p : Char → Bool} : ∀ {l r : List Char}, l.all p = true → NoHead p r →
    (l ++ r).takeWhile p = l ∧ (l ++ r).dropWhile p = r
  | [], r, _, h => by simp [takeWhile_of_noHead h, dropWhile_of_noHead h]
  | c :: l, r, hl, h => by
    simp only [List.all_cons, Bool.and_eq_true] at hl
    have := takeWhile_all_append hl.2 h
    simp [hl.1, this.1, this.2]

theorem noHead_sep_digit {sep rest : List Char} (h : sep = ['-'] ∨ sep = ['t', 'o']) : NoHead isDigit (sep ++ rest) := by
  rcases h with rfl | rfl <;> (intro c t e; simp at e; rw [← e.1]; decide)

theorem noHead_sep_ws {sep rest : List Char} (h : sep = ['-'] ∨ sep = ['t', 'o']) : NoHead isWs (sep ++ rest) := by
  rcases h with rfl | rfl <;> (intro c t e; simp at e; rw [← e.1]; decide)

theorem noHead_append {p q : Char → Bool} {w rest : List Char} (hw : w.all q = true) (hq : ∀ c, q c = true → p c = false)
    (hr : NoHead p rest) : NoHead p (w ++ rest) := by
  cases w with
  | nil => simpa using hr
  | cons c w =>
    intro c' t e
    simp at e
    simp only [List.all_cons, Bool.and_eq_true] at hw
    rw [← e.1]; exact hq c hw.1

theorem noHead_digits_ws {d rest : List Char} (hd : d ≠ []) (h : d.all isDigit = true) : NoHead isWs (d ++ rest) := by
  cases d with
  | nil => exact absurd rfl hd
  | cons c d =>
    intro c' t e
    simp at e
    simp only [List.all_cons, Bool.and_eq_true] at h
    rw [← e.1]; exact digit_not_ws h.1

theorem afterSep_sep {sep rest : List Char} (h : sep = ['-'] ∨ sep = ['t', 'o']) : afterSep (sep ++ rest) = some rest := by
  rcases h with rfl | rfl <;> rfl

/-- an attempt at the first digit of a well-formed range succeeds and reads the first number and the *maximal*
second digit run -/
theorem rangeAt_shape {d1 w1 sep w2 d2 post : List Char} (h1 : d1 ≠ []) (hd1 : d1.all isDigit = true)
    (hw1 : w1.all isWs = true) (hsep : sep = ['-'] ∨ sep = ['t', 'o']) (hw2 : w2.all isWs = true)
    (h2 : d2 ≠ []) (hd2 : d2.all isDigit = true) :
    rangeAt (d1 ++ (w1 ++ (sep ++ (w2 ++ (d2 ++ post))))) =
      some (digitsVal d1, digitsVal (d2 ++ post.takeWhile isDigit)) := by
  have n1 : NoHead isDigit (w1 ++ (sep ++ (w2 ++ (d2 ++ post)))) :=
    noHead_append hw1 (fun c => ws_not_digit) (noHead_sep_digit hsep)
  obtain ⟨t1, r1⟩ := takeWhile_all_append hd1 n1
  obtain ⟨_, r2⟩ := takeWhile_all_append hw1 (noHead_sep_ws (rest := w2 ++ (d2 ++ post)) hsep)
  obtain ⟨_, r3⟩ := takeWhile_all_append hw2 (noHead_digits_ws (rest := post) h2 hd2)
  have t4 : (d2 ++ post).takeWhile isDigit = d2 ++ post.takeWhile isDigit := by
    rw [List.takeWhile_append_of_pos]; intro c hc; exact List.all_eq_true.mp hd2 c hc
  have e1 : d1.isEmpty = false := by cases d1 <;> simp_all
  have e2 : (d2 ++ post.takeWhile isDigit).isEmpty = false := by cases d2 <;> simp_all
  unfold rangeAt
  simp only [t1, r1, r2, afterSep_sep hsep, r3, t4, e1, e2, Bool.false_eq_true, if_false]

theorem rangeSearch_append_isSome : ∀ (pre : List Char) {t : List Char}, (rangeSearch t).isSome = true →
    (rangeSearch (pre ++ t)).isSome = true
  | [], _, h => h
  | c :: pre, t, h => by
    simp only [List.cons_append, rangeSearch]
    cases rangeAt (c :: (pre ++ t)) with
    | some r => rfl
    | none => exact rangeSearch_append_isSome pre h

theorem rangeSearch_skip_ws : ∀ {w : List Char} (t : List Char), w.all isWs = true → rangeSearch (w ++ t) = rangeSearch t
  | [], _, _ => rfl
  | c :: w, t, h => by
    simp only [List.all_cons, Bool.and_eq_true] at h
    simp only [List.cons_append, rangeSearch, rangeAt_ws_head h.1]
    exact rangeSearch_skip_ws t h.2

theorem all_takeWhile (p : Char → Bool) : ∀ s : List Char, (s.takeWhile p).all p = true
  | [] => rfl
  | c :: s => by
    cases h : p c with
    | true => simp [h, all_takeWhile p s]
    | false => simp [h]

theorem noHead_dropWhile (p : Char → Bool) : ∀ s : List Char, NoHead p (s.dropWhile p)
  | [] => by intro c t e; simp at e
  | c :: s => by
    cases h : p c with
    | true => simpa [h] using noHead_dropWhile p s
    | false =>
      intro c' t e
      simp [h] at e
      rw [← e.1]; exact h

theorem afterSep_some {x r : List Char} (h : afterSep x = some r) : ∃ sep, (sep = ['-'] ∨ sep = ['t', 'o']) ∧ x = sep ++ r := by
  unfold afterSep at h
  split at h
  · cases h; exact ⟨['-'], Or.inl rfl, rfl⟩
  · cases h; exact ⟨['t', 'o'], Or.inr rfl, rfl⟩
  · cases h

/-- a successful attempt, read back: the string decomposes, the numbers are those of the two digit runs, and the
second run is maximal -/
theorem rangeAt_sound {cs : List Char} {a b : Nat} (h : rangeAt cs = some (a, b)) :
    ∃ d1 w1 sep w2 d2 post, cs = d1 ++ (w1 ++ (sep ++ (w2 ++ (d2 ++ post)))) ∧
      d1 ≠ [] ∧ d1.all isDigit = true ∧ w1.all isWs = true ∧ (sep = ['-'] ∨ sep = ['t', 'o']) ∧
      w2.all isWs = true ∧ d2 ≠ [] ∧ d2.all isDigit = true ∧ NoHead isDigit post ∧
      a = digitsVal d1 ∧ b = digitsVal d2 := by
  unfold rangeAt at h
  simp only at h
  split at h
  · cases h
  · rename_i he1
    split at h
    · cases h
    · rename_i r hr
      split at h
      · cases h
      · rename_i he2
        obtain ⟨sep, hsep, hx⟩ := afterSep_some hr
        simp only [Option.some.injEq, Prod.mk.injEq] at h
        refine ⟨cs.takeWhile isDigit, (cs.dropWhile isDigit).takeWhile isWs, sep, r.takeWhile isWs,
          (r.dropWhile isWs).takeWhile isDigit, (r.dropWhile isWs).dropWhile isDigit, ?_, ?_, all_takeWhile _ _,
          all_takeWhile _ _, hsep, all_takeWhile _ _, ?_, all_takeWhile _ _, noHead_dropWhile _ _, h.1.symm, h.2.symm⟩
        · conv => lhs; rw [← List.takeWhile_append_dropWhile (p := isDigit) (l := cs)]
          congr 1
          conv => lhs; rw [← List.takeWhile_append_dropWhile (p := isWs) (l := cs.dropWhile isDigit)]
          congr 1
          rw [hx]
          congr 1
          conv => lhs; rw [← List.takeWhile_append_dropWhile (p := isWs) (l := r)]
          congr 1
          exact (List.takeWhile_append_dropWhile).symm
        · intro e; rw [e] at he1; simp at he1
        · intro e; rw [e] at he2; simp at he2

theorem rangeSearch_sound : ∀ {s : List Char} {a b : Nat}, rangeSearch s = some (a, b) →
    ∃ pre d1 w1 sep w2 d2 post, s = pre ++ (d1 ++ (w1 ++ (sep ++ (w2 ++ (d2 ++ post))))) ∧
      d1 ≠ [] ∧ d1.all isDigit = true ∧ w1.all isWs = true ∧ (sep = ['-'] ∨ sep = ['t', 'o']) ∧
      w2.all isWs = true ∧ d2 ≠ [] ∧ d2.all isDigit = true ∧ NoHead isDigit post ∧
      a = digitsVal d1 ∧ b = digitsVal d2
  | [], _, _, h => by simp [rangeSearch] at h
  | c :: cs, a, b, h => by
    simp only [rangeSearch] at h
    cases hr : rangeAt (c :: cs) with
    | some r =>
      rw [hr] at h; simp only [Option.some.injEq] at h; subst h
      obtain ⟨d1, w1, sep, w2, d2, post, e, rest⟩ := rangeAt_sound hr
      exact ⟨[], d1, w1, sep, w2, d2, post, by simpa using e, rest⟩
    | none =>
      rw [hr] at h
      obtain ⟨pre, d1, w1, sep, w2, d2, post, e, rest⟩ := rangeSearch_sound h
      exact ⟨c :: pre, d1, w1, sep, w2, d2, post, by rw [e]; rfl, rest⟩

end Pyrtma.ResRegex
