import Pyrtma.Proofs.ManagerStatsIdx
import Pyrtma.Proofs.ManagerStatsSpec
/-!
# The Spec's view of a connection's subscriptions against the model's subscription index
-/
namespace Pyrtma.Mgr
open Spec

/-- the abstract entry `am` of a connection knows what its table entry `m` and the subscription index know: it is
    subscribed to everything exactly when `m` is, and then listed under the ALL sentinel; every single type it is
    subscribed to lists it -/
structure SubEq (cfg : Cfg) (x : State) (am : AMod) (m : Module) : Prop where
  all : am.subAll = m.subs.contains cfg.allTypes
  idxA : am.subAll = true → am.uid ∈ idxGet x.idx cfg.allTypes
  idxT : ∀ t ∈ am.types, am.uid ∈ idxGet x.idx t

/-- the Spec's update for a (un)subscribe request of type `ty` -/
def subF (cfg : Cfg) (ty : Int) (add : Bool) (m : AMod) : AMod :=
  if ty == cfg.allTypes then (if add then { m with subAll := true, types := [] } else { m with subAll := false, types := [] })
  else if m.subAll then m
  else if add then { m with types := if m.types.contains ty then m.types else m.types ++ [ty] }
  else { m with types := m.types.filter (· != ty) }

theorem subF_uid (cfg : Cfg) (ty : Int) (add : Bool) (m : AMod) : (subF cfg ty add m).uid = m.uid := by
  unfold subF; repeat' split
  all_goals rfl

/-- **a subscribe request**: the model's table / index update and the Spec's update agree -/
theorem addSubCore_subEq (cfg : Cfg) (s : State) (u : Nat) (m : Module) (hm : s.find u = some m) (am : AMod) (hu : am.uid = u)
    (h : SubEq cfg s am m) (t : Int) :
    ∃ m', (addSubCore cfg s u t).find u = some m' ∧ m'.closed = m.closed ∧ SubEq cfg (addSubCore cfg s u t) (subF cfg t true am) m' := by
  have hl : lookupMod s u = m := by unfold lookupMod; rw [hm]; rfl
  have hmu := find_uid hm
  unfold addSubCore subF
  simp only [hl]
  by_cases ht : (t == cfg.allTypes) = true
  · simp only [ht, if_true]
    have ht' : t = cfg.allTypes := by simpa using ht
    refine ⟨{ m with subs := [t] }, ?_, rfl, ⟨?_, fun _ => ?_, fun t' ht' => by cases ht'⟩⟩
    · rw [find_setSubs]
      show Option.map _ (s.find u) = _
      rw [hm]; simp [hmu]
    · simp [ht']
    · show am.uid ∈ idxGet (idxAdd _ t u) cfg.allTypes
      rw [idxAdd_get, ht', if_pos rfl, mem_setAdd, hu]; exact Or.inr rfl
  · have ht' : (t == cfg.allTypes) = false := by simpa using ht
    simp only [ht', Bool.false_eq_true, if_false]
    by_cases hall : m.subs.contains cfg.allTypes = true
    · have hsa : am.subAll = true := h.all.trans hall
      simp only [hall, hsa, if_true]
      exact ⟨m, hm, rfl, h⟩
    · have hall' : m.subs.contains cfg.allTypes = false := by simpa using hall
      have hsa : am.subAll = false := h.all.trans hall'
      simp only [hall', hsa, Bool.false_eq_true, if_false, if_true]
      refine ⟨{ m with subs := if m.subs.contains t then m.subs else m.subs ++ [t] }, ?_, rfl, ⟨?_, fun hc => ?_, fun t' ht'' => ?_⟩⟩
      · rw [find_setSubs]
        show Option.map _ (s.find u) = _
        rw [hm]; simp [hmu]
      · show false = _
        have hne : t ≠ cfg.allTypes := by simpa using ht'
        split
        · exact hall'.symm
        · have h1 : cfg.allTypes ∉ m.subs := by simpa using hall'
          symm
          simp only [List.contains_eq_mem, List.mem_append, List.mem_singleton, decide_eq_false_iff_not]
          rintro (h2 | h2)
          · exact h1 h2
          · exact hne h2.symm
      · cases hc
      · show am.uid ∈ idxGet (idxAdd s.idx t u) t'
        rw [idxAdd_get]
        split at ht''
        · have := h.idxT t' ht''
          split
          · rw [mem_setAdd]; exact Or.inl this
          · exact this
        · rcases List.mem_append.mp ht'' with h1 | h1
          · have := h.idxT t' h1
            split
            · rw [mem_setAdd]; exact Or.inl this
            · exact this
          · simp at h1; subst h1
            simp [mem_setAdd, hu]

/-- **an unsubscribe request** -/
theorem removeSubCore_subEq (cfg : Cfg) (s : State) (u : Nat) (m : Module) (hm : s.find u = some m) (am : AMod) (hu : am.uid = u)
    (h : SubEq cfg s am m) (t : Int) :
    ∃ m', (removeSubCore cfg s u t).find u = some m' ∧ m'.closed = m.closed ∧
      SubEq cfg (removeSubCore cfg s u t) (subF cfg t false am) m' := by
  have hl : lookupMod s u = m := by unfold lookupMod; rw [hm]; rfl
  have hmu := find_uid hm
  unfold removeSubCore subF
  simp only [hl]
  by_cases ht : (t == cfg.allTypes) = true
  · simp only [ht, if_true, Bool.false_eq_true, if_false]
    refine ⟨{ m with subs := [] }, ?_, rfl, ⟨rfl, fun hc => (by cases hc), fun t' ht' => (by cases ht')⟩⟩
    rw [find_setSubs]
    show Option.map _ (s.find u) = _
    rw [hm]; simp [hmu]
  · have ht' : (t == cfg.allTypes) = false := by simpa using ht
    simp only [ht', Bool.false_eq_true, if_false]
    by_cases hall : m.subs.contains cfg.allTypes = true
    · have hsa : am.subAll = true := h.all.trans hall
      simp only [hall, hsa, if_true]
      exact ⟨m, hm, rfl, h⟩
    · have hall' : m.subs.contains cfg.allTypes = false := by simpa using hall
      have hsa : am.subAll = false := h.all.trans hall'
      simp only [hall', hsa, Bool.false_eq_true, if_false]
      refine ⟨{ m with subs := m.subs.filter (· != t) }, ?_, rfl, ⟨?_, fun hc => ?_, fun t' ht'' => ?_⟩⟩
      · rw [find_setSubs]
        show Option.map _ (s.find u) = _
        rw [hm]; simp [hmu]
      · show false = _
        simp only [List.contains_eq_mem, List.mem_filter, decide_eq_true_eq] at hall' ⊢
        simp [hall']
      · cases hc
      · show am.uid ∈ idxGet (idxDiscard s.idx t u) t'
        have hm' := List.mem_filter.mp ht''
        have hne : t' ≠ t := by simpa using hm'.2
        rw [idxDiscard_get, if_neg hne]
        exact h.idxT t' hm'.1

end Pyrtma.Mgr
