import Pyrtma.Proofs.DataLog
/-!
# `stop()` returns under the fair (round-robin) scheduler (M10)

A variant function `mu` (remaining work of the recording thread, plus the remaining work of the writer's
current cycle while `stop()` spins in its wait loop) never increases along any schedule and strictly
decreases over every `R; W` round until `stop()` has returned.
-/
namespace Pyrtma.DataLog

/-! ### termination of `stop()` under the round-robin scheduler -/

def wRank (c : Cfg) : WPc → Nat
  | .wait => c.n + 2
  | .write k => (c.n - k) + 1
  | .setFin => 1
  | _ => 0

def rRank (c : Cfg) (s : State) : Nat :=
  match s.rpc with
  | .idle => 2 * c.n + 8
  | .uIsSet => 2 * c.n + 8 + c.n + 4
  | .uStage j => 2 * c.n + 8 + (c.n - j) + 3
  | .uClrFin => 2 * c.n + 8 + 2
  | .uSetTD => 2 * c.n + 8 + 1
  | .sIsSet => 2 * c.n + 7
  | .sWait => c.n + 4 + (if s.fin then 0 else wRank c s.wpc)
  | .sClrTD => c.n + 3
  | .sClrFin => c.n + 2
  | .sStage j => (c.n - j) + 1
  | .done => 0
  | .raised => 0

def mu (c : Cfg) (s : State) : Nat := (c.n + 5) * s.ops.length + rRank c s

theorem stepW_mu (c : Cfg) (all : List RecOp) (s : State) (hf : c.finFirst = true) (h : Inv c all s) :
    mu c (stepW c s) ≤ mu c s ∧
    (s.rpc = .sWait → s.fin = false → mu c (stepW c s) < mu c s) := by
  have hc := h.compat
  have hwb := h.wbound
  unfold stepW mu rRank
  cases hw : s.wpc <;> cases hr : s.rpc <;>
    simp_all [DataLog.compat, rsafe, firstWrite, nextWrite, afterWrites] <;>
    (try split) <;> (try split) <;> simp_all [wRank] <;> (try omega)


theorem stepR_mu (c : Cfg) (all : List RecOp) (s : State) (h : Inv c all s)
    (hd : s.rpc ≠ .done) (hspin : ¬(s.rpc = .sWait ∧ s.fin = false)) :
    mu c (stepR c s) < mu c s := by
  have hc := h.compat
  have hraise : s.wpc ≠ .dead := by intro hw; simp [DataLog.compat, hw] at hc
  have hwr : wRank c s.wpc ≤ c.n + 2 := by cases hw : s.wpc <;> simp [wRank] <;> omega
  unfold mu
  cases hr : s.rpc with
  | idle =>
    cases ho : s.ops with
    | nil => simp [stepR, rRank, ho, hr]
    | cons op rest =>
      have e : (c.n + 5) * (op :: rest).length = (c.n + 5) * rest.length + (c.n + 5) := by
        simp [Nat.mul_add]
      have hR : rRank c s = 2 * c.n + 8 := by simp [rRank, hr]
      rw [e, hR]
      cases op with
      | pause d => simp [stepR, hr, ho, rRank]
      | resume d => simp [stepR, hr, ho, rRank]
      | update d m =>
        simp only [stepR, hr, ho, stepR.upd, hraise]
        by_cases hp : s.paused = true
        · simp [hp, rRank]
        · simp only [hp, Bool.false_eq_true, ↓reduceIte]
          split <;> simp [rRank] <;> omega
      | tick d =>
        simp only [stepR, hr, ho, stepR.upd, hraise]
        by_cases hp : s.paused = true
        · simp [hp, rRank]
        · simp only [hp, Bool.false_eq_true, ↓reduceIte]
          split <;> simp [rRank] <;> omega
  | uIsSet =>
    by_cases htd : s.td = true <;> by_cases hn : 0 < c.n <;>
      simp [stepR, hr, rRank, firstUStage, htd, hn] <;> omega
  | uStage j =>
    by_cases hj : j + 1 < c.n <;> simp [stepR, hr, rRank, nextUStage, hj] <;> omega
  | uClrFin => simp [stepR, hr, rRank]
  | uSetTD => simp [stepR, hr, rRank]
  | sIsSet =>
    by_cases htd : s.td = true <;> simp [stepR, hr, rRank, htd]
    · split <;> omega
    · omega
  | sWait =>
    have hfin : s.fin = true := by cases hfn : s.fin <;> simp_all
    simp [stepR, hr, rRank, hfin]
  | sClrTD => simp [stepR, hr, rRank]
  | sClrFin =>
    by_cases hn : 0 < c.n <;> simp [stepR, hr, rRank, firstSStage, hn]
  | sStage j =>
    by_cases hj : j + 1 < c.n <;> simp [stepR, hr, rRank, nextSStage, hj] <;> omega
  | done => exact absurd hr hd
  | raised => simp [DataLog.compat, hr] at hc


theorem stepR_spin (c : Cfg) (s : State) (hr : s.rpc = .sWait) (hfin : s.fin = false) :
    mu c (stepR c s) = mu c s ∧ (stepR c s).rpc = .sWait ∧ (stepR c s).fin = false := by
  simp [stepR, hr, hfin, mu, rRank]

theorem step_mu_le (c : Cfg) (all : List RecOp) (s : State) (t : Tid) (hf : c.finFirst = true)
    (h : Inv c all s) : mu c (step c s t) ≤ mu c s := by
  unfold step
  split
  · exact Nat.le_refl _
  · rename_i hnd
    cases t with
    | W => exact (stepW_mu c all s hf h).1
    | R =>
      by_cases hspin : s.rpc = .sWait ∧ s.fin = false
      · exact Nat.le_of_eq (stepR_spin c s hspin.1 hspin.2).1
      · exact Nat.le_of_lt (stepR_mu c all s h (fun hd => hnd (Or.inl hd)) hspin)

theorem foldl_mu_le (c : Cfg) (all : List RecOp) (hf : c.finFirst = true) (sched : List Tid) :
    ∀ s, Inv c all s → mu c (sched.foldl (step c) s) ≤ mu c s := by
  induction sched with
  | nil => intro s _; exact Nat.le_refl _
  | cons t ts ih =>
    intro s h
    exact Nat.le_trans (ih _ (step_inv c all s t hf h)) (step_mu_le c all s t hf h)

theorem foldl_step_done (c : Cfg) (l : List Tid) (s : State) (hd : s.rpc = .done) :
    l.foldl (step c) s = s := by
  induction l with
  | nil => rfl
  | cons t ts ih => simp [List.foldl_cons, step, hd, ih]

theorem mu_zero_done (c : Cfg) (all : List RecOp) (s : State) (h : Inv c all s) (h0 : mu c s = 0) :
    s.rpc = .done := by
  have hc := h.compat
  unfold mu rRank at h0
  cases hr : s.rpc <;> simp_all [DataLog.compat] <;> omega

/-- one round `R; W` of the fair scheduler strictly decreases the measure unless `stop()` has returned -/
theorem round_mu (c : Cfg) (all : List RecOp) (s : State) (hf : c.finFirst = true) (h : Inv c all s)
    (hnd : s.rpc ≠ .done) : mu c (step c (step c s .R) .W) < mu c s := by
  have hc := h.compat
  have hnr : s.rpc ≠ .raised := by intro hr; simp [DataLog.compat, hr] at hc
  have e1 : step c s .R = stepR c s := by simp [step, hnd, hnr]
  rw [e1]
  have h1 := stepR_inv c all s h
  by_cases hspin : s.rpc = .sWait ∧ s.fin = false
  · obtain ⟨a, b, d⟩ := stepR_spin c s hspin.1 hspin.2
    have e2 : step c (stepR c s) .W = stepW c (stepR c s) := by simp [step, b]
    rw [e2, ← a]
    exact (stepW_mu c all _ hf h1).2 b d
  · exact Nat.lt_of_le_of_lt (step_mu_le c all _ .W hf h1) (stepR_mu c all s h hnd hspin)

theorem rr_terminates (c : Cfg) (all : List RecOp) (hf : c.finFirst = true) :
    ∀ N s, Inv c all s → mu c s ≤ N → ((roundRobin N).foldl (step c) s).rpc = .done := by
  intro N
  induction N with
  | zero =>
    intro s h hN
    simpa [roundRobin] using mu_zero_done c all s h (by omega)
  | succ N ih =>
    intro s h hN
    by_cases hd : s.rpc = .done
    · rw [foldl_step_done c _ s hd]; exact hd
    · simp only [roundRobin, List.foldl_cons]
      apply ih
      · exact step_inv c all _ .W hf (step_inv c all s .R hf h)
      · have := round_mu c all s hf h hd; omega


theorem mu_init (c : Cfg) (ops : List RecOp) : mu c (init c ops) = (c.n + 5) * ops.length + (2 * c.n + 8) := by
  simp [mu, rRank, init]

end Pyrtma.DataLog
