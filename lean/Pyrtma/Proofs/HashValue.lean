import Pyrtma.Proofs.HashText
import Pyrtma.Proofs.Sha256
/-! Lemmas for the hash-value theorems of C13: pigeonhole (the 32-bit truncation cannot be injective) and the
registration walk. -/
namespace Pyrtma.HashText

/-- `n + 1` pigeons `0 … n` in `n` holes -/
theorem pigeonhole : ∀ (n : Nat) (f : Nat → Nat), (∀ i, i ≤ n → f i < n) → ∃ i j, i < j ∧ j ≤ n ∧ f i = f j
  | 0, f, h => absurd (h 0 (Nat.le_refl 0)) (Nat.not_lt_zero _)
  | n + 1, f, h => by
    by_cases hex : ∃ i, i ≤ n ∧ f i = f (n + 1)
    · obtain ⟨i, hi, he⟩ := hex
      exact ⟨i, n + 1, by omega, Nat.le_refl _, he⟩
    · have hne : ∀ i, i ≤ n → f i ≠ f (n + 1) := fun i hi he => hex ⟨i, hi, he⟩
      let g : Nat → Nat := fun i => if f i > f (n + 1) then f i - 1 else f i
      have hg : ∀ i, i ≤ n → g i < n := by
        intro i hi
        have h1 := h i (by omega)
        have h2 := h (n + 1) (Nat.le_refl _)
        have h3 := hne i hi
        simp only [g]
        split <;> omega
      obtain ⟨i, j, hij, hj, he⟩ := pigeonhole n g hg
      refine ⟨i, j, hij, by omega, ?_⟩
      have h3 := hne i (by omega)
      have h4 := hne j hj
      simp only [g] at he
      split at he <;> split at he <;> omega

/-! ### the registration walk -/

theorem registerDefs_mem {path : Str} : ∀ {ds : List Def} {reg out : List Stored},
    registerDefs path ds reg = some out → ∀ s ∈ out, s ∈ reg ∨ ∃ d ∈ ds, storeDef path d = some s
  | [], reg, out, h, s, hs => by
    simp only [registerDefs, Option.some.injEq] at h; subst h; exact Or.inl hs
  | d :: ds, reg, out, h, s, hs => by
    simp only [registerDefs] at h
    cases hsd : storeDef path d with
    | none => simp [hsd] at h
    | some s' =>
      simp only [hsd] at h
      rcases registerDefs_mem h s hs with hm | ⟨d', hd', he⟩
      · rcases List.mem_append.mp hm with hm | hm
        · exact Or.inl hm
        · simp only [List.mem_singleton] at hm; subst hm
          exact Or.inr ⟨d, List.mem_cons_self, hsd⟩
      · exact Or.inr ⟨d', List.mem_cons_of_mem _ hd', he⟩

theorem registerAll_mem : ∀ {fs : List SrcFile} {reg out : List Stored},
    registerAll fs reg = some out → ∀ s ∈ out, s ∈ reg ∨ ∃ f ∈ fs, ∃ d ∈ f.defs, storeDef f.path d = some s
  | [], reg, out, h, s, hs => by
    simp only [registerAll, Option.some.injEq] at h; subst h; exact Or.inl hs
  | f :: fs, reg, out, h, s, hs => by
    simp only [registerAll] at h
    cases hr : registerDefs f.path f.defs reg with
    | none => simp [hr] at h
    | some reg' =>
      simp only [hr] at h
      rcases registerAll_mem h s hs with hm | ⟨f', hf', d, hd, he⟩
      · rcases registerDefs_mem hr s hm with hm | ⟨d, hd, he⟩
        · exact Or.inl hm
        · exact Or.inr ⟨f, List.mem_cons_self, d, hd, he⟩
      · exact Or.inr ⟨f', List.mem_cons_of_mem _ hf', d, hd, he⟩

end Pyrtma.HashText
