import Pyrtma.Proofs.ManagerSimOwedRun
/-!
# C14: the stretch before the first read of a round (the accept branch, then — when no frame is read — the periodic section)

The accept branch runs with the writable set the previous poll left, the periodic section with the one of this round's
poll.  `Spec.roundBody` judges the stretch with observers ready by BOTH polls and subscribers owed a notice only when ready
by NEITHER (`Spec.checkDeparturesAny`), so the model-side count of each part (`PostC`, at the end of that part) applies.
-/
namespace Pyrtma.Mgr
open Spec

/-- the observers / owed subscribers of the C14 clause of `checkDepartures`, seen in a model state that an abstract state
    `A2` simulates: `A2` holds the modules of `X` that stay, counts ready whoever `X` counts ready, and counts not ready
    whoever `X` counts surely not ready -/
theorem fobs_owed_at {cfg : Cfg} {A2 X : A} {s2 : State} (hs : SimM cfg A2 s2) (ao : AllOpen s2) (evs : List Ev)
    (hstay : ∀ am ∈ X.mods, am.alive = true → (closes evs).contains am.uid = false →
      (subscribed am cfg.mtClosed = true ∨ subscribed am cfg.mtFailed = true) → am ∈ A2.mods)
    (hw1 : ∀ u, X.w.contains u = true → A2.w.contains u = true)
    (hw2 : ∀ u, X.w.contains u = false → X.wAny.contains u = false → A2.w.contains u = false)
    (hXf : X.fail = A2.fail) :
    (∀ o ∈ dfobs cfg X evs, StableF cfg s2 o.uid) ∧
    (∀ am ∈ dowed cfg X evs, Owed cfg cfg.mtClosed am.modId s2 am.uid) := by
  constructor
  · intro o ho
    obtain ⟨homem, hoc⟩ := List.mem_filter.mp ho
    simp only [Bool.and_eq_true, Bool.not_eq_true'] at hoc
    obtain ⟨⟨⟨⟨hoal, hosb⟩, hord⟩, hofl⟩, honc⟩ := hoc
    obtain ⟨_, hol, mo, hmo, hsm⟩ := sim_entry hs (hstay o homem hoal honc (Or.inr hosb)) hoal
    refine ⟨mo, hmo, ao _ _ hmo, (failing_iff hs.fail _).mp ?_, sim_sub hs hmo hsm _ hosb, ?_⟩
    · unfold A.failing at hofl ⊢; rw [← hXf]; exact hofl
    · unfold ready at hord
      rcases Bool.or_eq_true _ _ |>.mp hord with hw | hlg
      · exact Or.inl ((sim_wlist hs hol).mp (hw1 _ hw))
      · exact Or.inr (by rw [← hsm.isLogger]; exact hlg)
  · intro am hamU
    unfold dowed at hamU
    obtain ⟨hamem, hc⟩ := List.mem_filter.mp hamU
    simp only [Bool.and_eq_true, Bool.not_eq_true'] at hc
    obtain ⟨⟨⟨⟨⟨haal, hasb⟩, hnl⟩, hnw⟩, hna⟩, hanc⟩ := hc
    obtain ⟨_, hal, mm, hmm, hsm⟩ := sim_entry hs (hstay am hamem haal hanc (Or.inl hasb)) haal
    refine ⟨mm, hmm, ao _ _ hmm, by rw [← hsm.modId], by rw [← hsm.isLogger]; exact hnl, ?_,
      sim_sub hs hmm hsm _ hasb⟩
    intro hx
    have := (sim_wlist hs hal).mpr hx
    rw [hw2 _ hnw hna] at this; cases this

/-- the counted clause from the model-side count of a stretch made of two parts, each judged at its own end -/
theorem dep_c14_parts {cfg : Cfg} {X : A} {s1 s2 : State} (e1 e2 : List Ev)
    (hnd : (X.mods.map (·.uid)).Nodup)
    (h1 : (∀ o ∈ dfobs cfg X (e1 ++ e2), StableF cfg s1 o.uid) ∧
      (∀ am ∈ dowed cfg X (e1 ++ e2), Owed cfg cfg.mtClosed am.modId s1 am.uid))
    (h2 : (∀ o ∈ dfobs cfg X (e1 ++ e2), StableF cfg s2 o.uid) ∧
      (∀ am ∈ dowed cfg X (e1 ++ e2), Owed cfg cfg.mtClosed am.modId s2 am.uid))
    (p1 : ∀ (o : Nat) (d : Int) (U : List Nat), U.Nodup → PostC cfg o d U s1 e1 0)
    (p2 : ∀ (o : Nat) (d : Int) (U : List Nat), U.Nodup → PostC cfg o d U s2 e2 0) :
    ∀ o ∈ dfobs cfg X (e1 ++ e2), ∀ m ∈ dowed cfg X (e1 ++ e2),
      (closes (e1 ++ e2)).length * ((dowed cfg X (e1 ++ e2)).filter (·.modId == m.modId)).length ≤
        ((sends (e1 ++ e2)).filter (fun p => p.1 == o.uid && p.2.2.body == .failed m.modId cfg.mtClosed 0 0)).length := by
  intro o ho m _
  rw [fcnt_sends, closeN_closes]
  have hsl : ((dowed cfg X (e1 ++ e2)).filter (·.modId == m.modId)).Sublist X.mods := by
    unfold dowed
    exact List.filter_sublist.trans List.filter_sublist
  have hndU : (((dowed cfg X (e1 ++ e2)).filter (·.modId == m.modId)).map (·.uid)).Nodup := hnd.sublist (hsl.map _)
  have hlen : (((dowed cfg X (e1 ++ e2)).filter (·.modId == m.modId)).map (·.uid)).length =
      ((dowed cfg X (e1 ++ e2)).filter (·.modId == m.modId)).length := List.length_map _
  rw [← hlen]
  have hU : ∀ {s : State}, (∀ am ∈ dowed cfg X (e1 ++ e2), Owed cfg cfg.mtClosed am.modId s am.uid) →
      ∀ u ∈ ((dowed cfg X (e1 ++ e2)).filter (·.modId == m.modId)).map (·.uid), Owed cfg cfg.mtClosed m.modId s u := by
    intro s h u hu
    obtain ⟨am, ham, rfl⟩ := List.mem_map.mp hu
    obtain ⟨hamU, hamd⟩ := List.mem_filter.mp ham
    have hamd' : am.modId = m.modId := by simpa using hamd
    rw [← hamd']; exact h am hamU
  have k1 := p1 o.uid m.modId _ hndU (h1.1 o ho) (hU h1.2)
  have k2 := p2 o.uid m.modId _ hndU (h2.1 o ho) (hU h2.2)
  rw [closeN_append, fcnt_append, Nat.add_mul]
  simp only [Bc, Nat.add_zero] at k1 k2
  omega

section pre
variable {cfg : Cfg} (ok : CfgOK cfg) (hfuel : cfg.fuel = 0) (hperm : OrdPerm cfg) (hmt : cfg.mtClosed ≠ cfg.allTypes)
include ok hfuel hperm hmt

/-- the accept branch ends in a state the abstract state with the OLD writable set simulates, with the count of its
    events judged there -/
theorem pre_old_c14 {a : A} {s : State} (inv : Inv cfg a s) (r : Round) (eAcc : List Ev)
    (hPout : (preS cfg s r).out = s.out ++ eAcc) :
    ∃ s1' : State, SimM cfg (applyDepartures (envA a r) eAcc) s1' ∧ AllOpen s1' ∧
      ∀ (o : Nat) (d : Int) (U : List Nat), U.Nodup → PostC cfg o d U s1' eAcc 0 := by
  have hord : OrdOK cfg := ordOK_of_perm hperm
  have hall : OrdAll cfg := OrdAll_of_perm hperm
  have hs1 := sim_env inv.sim r
  have t1 : Top cfg (envStep s r) := top_same ok hfuel inv.top _ rfl rfl rfl
  have j1 : J (envStep s r) := J_same inv.j rfl rfl rfl
  rw [preS_out ok hmt hord hfuel] at hPout
  cases hacc : r.accept with
  | false =>
    rw [hacc] at hPout
    simp only [Bool.false_eq_true, if_false] at hPout
    have : eAcc = [] := by
      have : s.out ++ [] = s.out ++ eAcc := by simpa using hPout
      exact (List.append_cancel_left this).symm
    subst this
    exact ⟨envStep s r, hs1, t1.aopen, fun o d U _ => postC_nil o d U _⟩
  | true =>
    rw [hacc] at hPout
    simp only [if_true] at hPout
    have cL := ct_log ok hall hfuel t1 20
    have jL : J (logAt cfg (fwdTop cfg) 20 (envStep s r)) := logAt_J (fwdTop_J cfg) j1 20
    have ho1 : (envStep s r).out = s.out := rfl
    refine ⟨_, sim_quiet hs1 t1.aopen cL.top.aopen (logTop_nest cfg 20 _) jL eAcc (by rw [hPout, ho1]), cL.top.aopen,
      fun o d U hU => ?_⟩
    obtain ⟨e, oe, p⟩ := cL.cnt o d U hU
    have : e = eAcc := by
      have h : s.out ++ e = s.out ++ eAcc := by rw [← hPout, oe, ho1]
      exact List.append_cancel_left h
    rw [← this]; exact p

/-- **One round adds no C14 entry.** -/
theorem round_c14 {a : A} {s : State} (inv : Inv cfg a s) (r : Round) (hwf : RoundWF r) (evs : List Ev)
    (he : (step cfg s r).out = s.out ++ evs) (hn : NoErr "C14" a) : NoErr "C14" (Spec.round cfg a r evs) := by
  have hord : OrdOK cfg := ordOK_of_perm hperm
  have hall : OrdAll cfg := OrdAll_of_perm hperm
  have tStep : T (step cfg s r) := step_T ok hmt hord hfuel inv.top inv.t r
  have tPre : T (preS cfg s r) := pre_T ok hmt hord hfuel inv.top inv.t r
  rw [round_eq]
  rw [step_eq cfg s r inv.top.good.ok] at he tStep
  obtain ⟨eAcc, hPout, hnoAcc, hsP, tP, jP, hreads, herrs⟩ := pre_ok ok hfuel inv r hwf
  obtain ⟨s1', hs1', ao1', p1'⟩ := pre_old_c14 ok hfuel hperm hmt inv r eAcc hPout
  rw [hreads]
  have hwf' : ∀ rd ∈ readsS s r, rd.uid ≠ 0 := fun rd hrd => hwf rd (List.mem_filter.mp hrd).1
  rw [preA_eq] at hsP herrs
  have herrs' : (preAcc a r).errs = a.errs := herrs
  have hnAcc : NoErr "C14" (preAcc a r) := by unfold NoErr; rw [herrs']; exact hn
  have hAccDef : preAcc a r = (if r.accept then
      ({ envA a r with nAccepted := (envA a r).nAccepted + 1, mods := (envA a r).mods ++ [{ uid := (envA a r).nAccepted + 1 }] } : A)
      else envA a r) := rfl
  have hAccW : (preAcc a r).w = (envA a r).w := by rw [hAccDef]; split <;> rfl
  have hAccF : (preAcc a r).fail = (envA a r).fail := by rw [hAccDef]; split <;> rfl
  -- a module of the table after the accept that subscribes to something was there before it
  have hold : ∀ am ∈ (preAcc a r).mods,
      (subscribed am cfg.mtClosed = true ∨ subscribed am cfg.mtFailed = true) → am ∈ (envA a r).mods := by
    intro am ham hsb
    rw [hAccDef] at ham
    split at ham
    · rcases List.mem_append.mp ham with h | h
      · exact h
      · simp only [List.mem_singleton] at h
        subst h
        rcases hsb with x | x <;> simp [Spec.subscribed] at x
    · exact ham
  have hndAcc : ((preAcc a r).mods.map (·.uid)).Nodup := by
    have := uids_nodup hsP.uids
    rw [applyDepartures_uids] at this; exact this
  have hreadsDef : readsS s r = r.reads.filter (fun rd => ((envStep s r).find rd.uid).isSome) := rfl
  generalize hrs : readsS s r = reads at *
  generalize hsPe : preS cfg s r = sP at hPout hsP tP jP tPre he tStep
  have hdP : (sP.mods.map (·.uid)).Nodup := hsP.minv.distinct
  have tR := top_readAll ok hfuel reads tP
  have jR : J (readAll cfg reads sP) := readAll_J cfg reads jP
  have dtK := dt_ticks ok hall hfuel tR
  have q : QuietTo cfg (readAll cfg reads sP) (ticks cfg (readAll cfg reads sP)) :=
    ⟨ticks_nest cfg _, top_ticks ok hfuel tR, ticks_J cfg jR, qa_ticks cfg _,
      fun k => quiet_of_QE (ticks_QE cfg (tag_cp cfg k) (ctl_cp k) _),
      ticks_info cfg _ ((readAll_usub cfg reads sP).nodup hdP), dtK.dep, tStep⟩
  obtain ⟨E1, hE1⟩ := readAll_out ok hfuel reads sP tP
  obtain ⟨E2, hE2, _, _⟩ := q.nest.ext
  have hE : (ticks cfg (readAll cfg reads sP)).out = sP.out ++ (E1 ++ E2) := by rw [hE2, hE1, List.append_assoc]
  have hevs : evs = eAcc ++ (E1 ++ E2) := by
    have : s.out ++ evs = s.out ++ (eAcc ++ (E1 ++ E2)) := by rw [← he, hE, hPout, List.append_assoc]
    exact List.append_cancel_left this
  have hsplit := splitRd_append eAcc (E1 ++ E2) hnoAcc
  rw [← hevs] at hsplit
  obtain ⟨X0, hX0, hgs0⟩ := goStart_ext cfg (preAcc a r) (preW a r) eAcc
  have inv0 : Inv cfg (goStart cfg (preAcc a r) (preW a r) eAcc) sP := by
    rw [hgs0]; exact ⟨sim_coreExt hsP (Spec.applyDepartures_coreExt hX0 eAcc), tP, jP, tPre⟩
  -- the accept branch alone, judged by the previous poll
  have hn0 : NoErr "C14" (goStart cfg (preAcc a r) (preW a r) eAcc) := by
    unfold goStart
    generalize hXc : (preAcc a r).chk ((closes eAcc).isEmpty || !(wfails eAcc).isEmpty) "C07"
      "a connection was closed before any frame was read in this round" = Xc
    have hXe : ErrExt ["C07"] (preAcc a r) Xc := by rw [← hXc]; exact errExt_chk _ _ _ _ _ (by simp)
    have hno : checkNoticeOrigin cfg Xc none eAcc = Xc := by
      refine noticeOrigin_pre ok inv.sim r false eAcc ?_ Xc hXe.mods
      show (preS cfg s r).out = _
      rw [hsPe]; exact hPout
    rw [hno]
    have hfo := fobs_owed_at (X := Xc) hs1' ao1' eAcc
      (fun am ham hal hnc hsb => by
        rw [applyDepartures_map]
        refine List.mem_map.mpr ⟨am, hold am (by rw [← hXe.mods]; exact ham) hsb, ?_⟩
        unfold killIn; rw [hnc]; rfl)
      (fun u hu => by rw [(applyDepartures_core (envA a r) eAcc).2.2.1, ← hAccW, ← hXe.w]; exact hu)
      (fun u hu _ => by rw [(applyDepartures_core (envA a r) eAcc).2.2.1, ← hAccW, ← hXe.w]; exact hu)
      (by rw [(applyDepartures_core (envA a r) eAcc).2.1, hXe.fail, hAccF])
    have h7 := dep_c14_parts (cfg := cfg) (X := Xc) (s1 := s1') (s2 := s1') eAcc [] (by rw [hXe.mods]; exact hndAcc)
      (by simpa using hfo) (by simpa using hfo) p1' (fun o d U _ => postC_nil o d U _)
    have hdep := checkDepartures_c14 cfg Xc none eAcc (by simpa using h7)
    show NoErr "C14" (applyDepartures (checkDepartures cfg Xc none eAcc) eAcc)
    exact noErr_applyDepartures _ (hdep.noErr (by simp) (hXe.noErr (by simp) hnAcc))
  unfold roundRest
  apply roundEnd_c14
  rcases readAll_go ok hfuel hperm hmt reads (goStart cfg (preAcc a r) (preW a r) eAcc) sP (ticks cfg (readAll cfg reads sP))
      (E1 ++ E2) (reads.length + (Spec.splitRd (E1 ++ E2)).2.length + 1) inv0 hwf' (by omega) q hE with
      ⟨hnoE, hid, hskip⟩ | ⟨hp1, hp2, _, _⟩
  · -- no frame was read in this round: the accept branch (old poll), then the periodic section (new poll)
    have hs2 : Spec.splitRd (E1 ++ E2) = (E1 ++ E2, []) := splitRd_none _ hnoE
    rw [hsplit, hs2, ← hevs]
    simp only [List.length_nil, Nat.add_zero]
    rw [preSt_nil]
    refine (go_nil_ext cfg reads _ _).noErr (by simp) ?_
    generalize hwP : (preAcc a r).w.filter ((preW a r).contains ·) = wP
    have heT : (ticks cfg sP).out = sP.out ++ (E1 ++ E2) := by
      have := hE; rw [hid] at this; exact this
    have hsimA : SimM cfg (Spec.applyDepartures ({ preAcc a r with w := preW a r } : A) evs) (ticks cfg sP) := by
      rw [hevs, ← applyDepartures_append]
      exact sim_quiet hsP tP.aopen (top_ticks ok hfuel tP).aopen (ticks_nest cfg sP) (ticks_J cfg jP) (E1 ++ E2) heT
    have ctT := ct_ticks ok hall hfuel tP
    unfold goStartU preU
    simp only [List.isEmpty_nil, if_true]
    generalize hXc : ({ preAcc a r with w := wP } : A).chk
      ((closes evs).isEmpty || !(wfails evs).isEmpty) "C07"
      "a connection was closed before any frame was read in this round" = Xc
    have hXe : ErrExt ["C07"] ({ preAcc a r with w := wP } : A) Xc := by
      rw [← hXc]; exact errExt_chk _ _ _ _ _ (by simp)
    have hno : checkNoticeOrigin cfg Xc none evs = Xc := by
      refine noticeOrigin_pre ok inv.sim r true evs ?_ Xc hXe.mods
      show (ticks cfg (preS cfg s r)).out = _
      rw [hsPe, heT, hPout, hevs, List.append_assoc]
    rw [hno]
    have hXw : ∀ u, Xc.w.contains u = true ↔ ((preAcc a r).w.contains u = true ∧ (preW a r).contains u = true) := by
      intro u
      rw [hXe.w]
      show wP.contains u = true ↔ _
      rw [← hwP, List.contains_iff_mem, List.mem_filter, List.contains_iff_mem, List.contains_iff_mem]
    have hdep : ErrExt ["C07"] Xc (checkDeparturesAny cfg Xc (some ((preAcc a r).w ++ preW a r)) none evs) := by
      refine errExt_any (checkDepartures_c14 cfg _ none evs ?_)
      have hmods : ({ Xc with wAny := (preAcc a r).w ++ preW a r } : A).mods = (preAcc a r).mods := hXe.mods
      have hnc1 : ∀ u, (closes evs).contains u = false → (closes eAcc).contains u = false := by
        intro u hu
        rw [hevs, closes_app] at hu
        cases hc : (closes eAcc).contains u with
        | false => rfl
        | true =>
          have : u ∈ closes eAcc ++ closes (E1 ++ E2) := List.mem_append.mpr (Or.inl (List.contains_iff_mem.mp hc))
          rw [← List.contains_iff_mem, hu] at this; cases this
      have hu2 : ∀ u, Xc.w.contains u = false → ((preAcc a r).w ++ preW a r).contains u = false →
          (preAcc a r).w.contains u = false ∧ (preW a r).contains u = false := by
        intro u _ h2
        constructor
        · cases hc : (preAcc a r).w.contains u with
          | false => rfl
          | true =>
            have : u ∈ (preAcc a r).w ++ preW a r := List.mem_append.mpr (Or.inl (List.contains_iff_mem.mp hc))
            rw [← List.contains_iff_mem, h2] at this; cases this
        · cases hc : (preW a r).contains u with
          | false => rfl
          | true =>
            have : u ∈ (preAcc a r).w ++ preW a r := List.mem_append.mpr (Or.inr (List.contains_iff_mem.mp hc))
            rw [← List.contains_iff_mem, h2] at this; cases this
      have hfo1 := fobs_owed_at (X := ({ Xc with wAny := (preAcc a r).w ++ preW a r } : A)) hs1' ao1' evs
        (fun am ham hal hnc hsb => by
          rw [applyDepartures_map]
          refine List.mem_map.mpr ⟨am, hold am (by rw [← hmods]; exact ham) hsb, ?_⟩
          unfold killIn; rw [hnc1 _ hnc]; rfl)
        (fun u hu => by
          rw [(applyDepartures_core (envA a r) eAcc).2.2.1, ← hAccW]; exact ((hXw u).mp hu).1)
        (fun u hu1 hu2' => by
          rw [(applyDepartures_core (envA a r) eAcc).2.2.1, ← hAccW]; exact (hu2 u hu1 hu2').1)
        (by rw [(applyDepartures_core (envA a r) eAcc).2.1]; show Xc.fail = _; rw [hXe.fail]; exact hAccF)
      have hfo2 := fobs_owed_at (X := ({ Xc with wAny := (preAcc a r).w ++ preW a r } : A)) hsimA
        (top_ticks ok hfuel tP).aopen evs
        (fun am ham hal hnc _ => by
          rw [applyDepartures_map]
          refine List.mem_map.mpr ⟨am, by rw [← hmods]; exact ham, ?_⟩
          unfold killIn; rw [hnc]; rfl)
        (fun u hu => by
          rw [(applyDepartures_core _ evs).2.2.1]; exact ((hXw u).mp hu).2)
        (fun u hu1 hu2' => by
          rw [(applyDepartures_core _ evs).2.2.1]; exact (hu2 u hu1 hu2').2)
        (by rw [(applyDepartures_core _ evs).2.1]; show Xc.fail = _; rw [hXe.fail])
      have h7 := dep_c14_parts (cfg := cfg) (X := ({ Xc with wAny := (preAcc a r).w ++ preW a r } : A)) (s1 := s1')
        (s2 := ticks cfg sP) eAcc (E1 ++ E2) (by rw [hmods]; exact hndAcc)
        (by rw [← hevs]; exact hfo1) (by rw [← hevs]; exact hfo2) p1' (fun o d U hU => by
          obtain ⟨ext, oe, p⟩ := ctT.cnt o d U hU
          have : ext = E1 ++ E2 := List.append_cancel_left (oe.symm.trans heT)
          rw [← this]; exact p)
      rw [hevs]; exact h7
    show NoErr "C14" (applyDepartures (checkDeparturesAny cfg Xc (some ((preAcc a r).w ++ preW a r)) none evs) evs)
    exact noErr_applyDepartures _ (hdep.noErr (by simp) (hXe.noErr (by simp) hnAcc))
  · -- at least one frame was read
    have := readAll_go_c14 ok hfuel hperm hmt reads (goStart cfg (preAcc a r) (preW a r) eAcc) sP
      (ticks cfg (readAll cfg reads sP)) (E1 ++ E2) (reads.length + (Spec.splitRd (E1 ++ E2)).2.length + 1)
      inv0 hwf' (by omega) q (Or.inr rfl) hE hn0
    rw [hsplit, hp1, List.append_nil, preSt_ne a r hp2, preU_ne a r hp2, goStartU_none]
    exact this

/-- the rounds of a history, one after the other -/
theorem rounds_c14 : ∀ (rs : List Round) (a : A) (s : State), Inv cfg a s → RoundsWF rs → NoErr "C14" a →
    NoErr "C14" ((List.zip rs (modelRounds cfg s rs)).foldl (fun a p => Spec.round cfg a p.1 p.2) a)
  | [], _, _, _, _, hn => hn
  | r :: rs, a, s, inv, hwf, hn => by
    have hr : RoundWF r := hwf r (by simp)
    obtain ⟨evs, hevs⟩ := step_out ok hfuel inv r hr
    have hre : roundEvents cfg s r = evs := by
      unfold roundEvents; rw [hevs, List.drop_left]
    obtain ⟨inv1, _⟩ := round_ok ok hfuel hperm hmt inv r hr evs hevs
    have h1 := round_c14 ok hfuel hperm hmt inv r hr evs hevs hn
    simp only [modelRounds, List.zip_cons_cons, List.foldl_cons, hre]
    exact rounds_c14 rs (Spec.round cfg a r evs) (step cfg s r) inv1 (fun x hx => hwf x (by simp [hx])) h1

end pre

/-- **the properties whose Spec clauses are proved to hold on every run of the model** by the `ManagerSim*` family: the six
    the simulation chain is stated over (`provenCore`) and C14, proved on top of it -/
def proven : List String := provenCore ++ ["C14"]

/-- the tags of all the other clauses (C18: the `ManagerStats*` family) -/
def others : List String := ["C18"]

theorem proven_eq : proven = ["C19", "C01", "C06", "C03", "C07", "C05", "C14"] := rfl

end Pyrtma.Mgr
