import Pyrtma.Proofs.DataLogFineMain
/-!
# `stop()` terminates under the fair (round-robin) scheduler — at single-access granularity, with failures

A variant function `mu` that no step of either thread increases and that every `R; W` round strictly decreases
unless the session is over or the recording thread is stuck behind a dead writer.  It charges

* every operation the recorder has not started yet with `11 n + 7` (an `update` costs at most `3 n + 5` accesses
  and may append to `n` lists),
* every message in a list `rbuf` refers to with 8 (it will be iterated at most twice and written at most twice,
  by the writer after a `trigger_write` or by `stop()`'s own `finalize`),
* the writer's whole next cycle (`8` per staged message, `40` per data set) as long as `stop()` has not yet
  passed its wait loop, and the exact number of accesses the writer still needs to reach `write_finished.set()`
  while `stop()` is waiting for it.
-/
set_option linter.unusedSimpArgs false
set_option linter.unusedVariables false

namespace Pyrtma.DataLog.Fine

/-! ### sums over the data sets -/

/-- `f lo + f (lo+1) + … + f (lo+m-1)` -/
def sumFrom (f : Nat → Nat) : Nat → Nat → Nat
  | _, 0 => 0
  | lo, m + 1 => f lo + sumFrom f (lo + 1) m

theorem sumFrom_congr (f g : Nat → Nat) (m : Nat) : ∀ lo, (∀ k, lo ≤ k → k < lo + m → f k = g k) →
    sumFrom f lo m = sumFrom g lo m := by
  induction m with
  | zero => intro lo _; rfl
  | succ m ih =>
    intro lo h
    simp only [sumFrom]
    rw [h lo (Nat.le_refl _) (by omega), ih (lo + 1) (fun k h1 h2 => h k (by omega) (by omega))]

theorem sumFrom_le (f g : Nat → Nat) (m : Nat) : ∀ lo, (∀ k, lo ≤ k → k < lo + m → f k ≤ g k) →
    sumFrom f lo m ≤ sumFrom g lo m := by
  induction m with
  | zero => intro lo _; exact Nat.le_refl _
  | succ m ih =>
    intro lo h
    simp only [sumFrom]
    have := h lo (Nat.le_refl _) (by omega)
    have := ih (lo + 1) (fun k h1 h2 => h k (by omega) (by omega))
    omega

/-- changing the summand at one index -/
theorem sumFrom_update (f g : Nat → Nat) (j : Nat) (h : ∀ k, k ≠ j → f k = g k) (m : Nat) : ∀ lo, lo ≤ j → j < lo + m →
    sumFrom g lo m + f j = sumFrom f lo m + g j := by
  induction m with
  | zero => intro lo h1 h2; omega
  | succ m ih =>
    intro lo h1 h2
    simp only [sumFrom]
    by_cases hk : j = lo
    · subst hk
      rw [sumFrom_congr g f m (j + 1) (fun k hk1 _ => (h k (by omega)).symm)]
      omega
    · have := ih (lo + 1) (by omega) (by omega)
      rw [← h lo (by omega)]
      omega

theorem sumFrom_split (f : Nat → Nat) (a b : Nat) : ∀ lo, sumFrom f lo (a + b) = sumFrom f lo a + sumFrom f (lo + a) b := by
  induction a with
  | zero => intro lo; simp [sumFrom]
  | succ a ih =>
    intro lo
    rw [Nat.succ_add]
    simp only [sumFrom]
    rw [ih (lo + 1)]
    have : lo + 1 + a = lo + (a + 1) := by omega
    rw [this]; omega

/-! ### accesses left in a formatter method -/

def Lw (s : State) (i : Nat) : Nat := ((s.ds i).lists (s.ds i).wb).length
def Lr (s : State) (i : Nat) : Nat := ((s.ds i).lists (s.ds i).rb).length

/-- number of accesses a formatter method still performs (the one it is parked at included) when the list it
iterates has `L` elements -/
def callRem (k : Kind) (cl : Call) (L : Nat) : Nat :=
  let a := (ioA k cl.ck).length
  let b := (ioB k cl.ck).length
  let p1 := if twoPass k then 2 * L + 1 else 0
  match cl.pc with
  | .next0 => 2 * (L - cl.idx) + 1 + a + p1 + b
  | .emit0 _ => 2 * (L - cl.idx) + 2 + a + p1 + b
  | .ioA j => (a - j) + p1 + b
  | .next1 => 2 * (L - cl.idx) + 1 + b
  | .emit1 _ => 2 * (L - cl.idx) + 2 + b
  | .ioB j => b - j

theorem ioA_len (k : Kind) (ck : CallKind) : (ioA k ck).length ≤ 4 := by cases k <;> cases ck <;> simp [ioA]
theorem ioB_len (k : Kind) (ck : CallKind) : (ioB k ck).length ≤ 4 := by cases k <;> cases ck <;> simp [ioB]

theorem callRem_le (k : Kind) (cl : Call) (L : Nat) : callRem k cl L ≤ 4 * L + 14 := by
  have ha := ioA_len k cl.ck
  have hb := ioB_len k cl.ck
  unfold callRem
  cases cl.pc <;> simp only <;> (try split) <;> omega

theorem callRem_start (k : Kind) (f l : Nat) (ck : CallKind) (L : Nat) :
    callRem k { f := f, l := l, idx := 0, ck := ck, pc := .next0 } L ≤ 4 * L + 10 := by
  have ha := ioA_len k ck
  have hb := ioB_len k ck
  unfold callRem
  simp only
  split <;> omega

/-- what a step of a formatter method does to the number of accesses left -/
def RemSpec (k : Kind) (cl : Call) (L : Nat) : CallRes → Prop
  | .cont _ cl' => callRem k cl' L < callRem k cl L
  | .ret _ => 0 < callRem k cl L
  | .exc => True

theorem afterB_rem (k : Kind) (d : Ds) (c0 c : Call) (L : Nat) (h : 0 < callRem k c0 L) :
    RemSpec k c0 L (afterB k d c) := by
  unfold afterB; exact h

theorem afterPass1_rem (k : Kind) (d : Ds) (c0 c : Call) (L : Nat) (hck : c.ck = c0.ck)
    (h : (ioB k c0.ck).length < callRem k c0 L) : RemSpec k c0 L (afterPass1 k d c) := by
  unfold afterPass1
  simp only
  split
  · exact afterB_rem k _ c0 c L (by omega)
  · have e : callRem k { c with pc := .ioB 0 } L = (ioB k c0.ck).length := by simp [callRem, hck]
    simp only [RemSpec, e]; exact h

theorem afterA_rem (k : Kind) (d : Ds) (c0 c : Call) (L : Nat) (hck : c.ck = c0.ck)
    (h : (if twoPass k then 2 * L + 1 else 0) + (ioB k c0.ck).length < callRem k c0 L) :
    RemSpec k c0 L (afterA k d c) := by
  unfold afterA
  split
  · rename_i h2
    have e : callRem k { c with pc := .next1, idx := 0 } L = 2 * L + 1 + (ioB k c0.ck).length := by
      simp [callRem, hck]
    simp only [h2, if_true] at h
    simp only [RemSpec, e]; exact h
  · rename_i h2
    simp only [h2, Bool.false_eq_true, if_false, Nat.zero_add] at h
    exact afterPass1_rem k d c0 c L hck h

theorem afterPass0_rem (k : Kind) (d : Ds) (c0 c : Call) (L : Nat) (hck : c.ck = c0.ck)
    (h : (ioA k c0.ck).length + (if twoPass k then 2 * L + 1 else 0) + (ioB k c0.ck).length < callRem k c0 L) :
    RemSpec k c0 L (afterPass0 k d c) := by
  unfold afterPass0
  split
  · rename_i he
    have : (ioA k c0.ck).length = 0 := by rw [← hck]; simpa using he
    exact afterA_rem k d c0 c L hck (by omega)
  · have e : callRem k { c with pc := .ioA 0 } L =
        (ioA k c0.ck).length + (if twoPass k then 2 * L + 1 else 0) + (ioB k c0.ck).length := by
      simp [callRem, hck]
    simp only [RemSpec, e]; exact h

theorem callStep_rem (k : Kind) (fail : Bool) (d : Ds) (cl : Call) (hok : callOk k cl = true) :
    RemSpec k cl ((d.lists cl.l).length) (callStep k fail d cl) := by
  unfold callStep
  simp only
  cases hpc : cl.pc with
  | next0 =>
    simp only
    split
    · rename_i m hm
      have hi : cl.idx < (d.lists cl.l).length := (List.getElem?_eq_some_iff.1 hm).1
      simp only [RemSpec, callRem, hpc]; split <;> omega
    · rename_i hm
      have hi : (d.lists cl.l).length ≤ cl.idx := List.getElem?_eq_none_iff.1 hm
      exact afterPass0_rem k d cl cl _ rfl (by simp only [callRem, hpc]; split <;> omega)
  | emit0 m =>
    simp only
    split
    · trivial
    · simp only [RemSpec, callRem, hpc]; split <;> omega
  | ioA j =>
    simp only
    have hj : j < (ioA k cl.ck).length := by simpa [callOk, hpc] using hok
    rw [List.getElem?_eq_getElem hj]
    simp only
    split
    · trivial
    · split
      · simp only [RemSpec, callRem, hpc]; split <;> omega
      · exact afterA_rem k _ cl cl _ rfl (by simp only [callRem, hpc]; split <;> omega)
  | next1 =>
    simp only
    split
    · rename_i m hm
      have hi : cl.idx < (d.lists cl.l).length := (List.getElem?_eq_some_iff.1 hm).1
      simp only [RemSpec, callRem, hpc]; omega
    · exact afterPass1_rem k d cl cl _ rfl (by simp only [callRem, hpc]; omega)
  | emit1 m =>
    simp only
    split
    · trivial
    · simp only [RemSpec, callRem, hpc]; omega
  | ioB j =>
    simp only
    have hj : j < (ioB k cl.ck).length := by simpa [callOk, hpc] using hok
    rw [List.getElem?_eq_getElem hj]
    simp only
    split
    · trivial
    · split
      · simp only [RemSpec, callRem, hpc]; omega
      · exact afterB_rem k _ cl cl _ (by simp only [callRem, hpc]; omega)


/-! ### the writer's rank: accesses until `write_finished.set()` has been performed -/

def dsCost (s : State) (k : Nat) : Nat := 8 * Lw s k + 40

/-- accesses left inside `ds[i].write()` (the one the writer is parked at included) -/
def wIn (c : Cfg) (s : State) : WPc → Nat
  | .fmtGet i => 8 * Lw s i + 38
  | .wbufGet i => 8 * Lw s i + 37
  | .call i => callRem (c.kind i) s.wcall (Lw s i) + 4 * Lw s i + 26
  | .wbufGet2 i => 4 * Lw s i + 26
  | .clear i => 4 * Lw s i + 25
  | .stopGet i => 4 * Lw s i + 24
  | .flagGet i => 4 * Lw s i + 23
  | .flagSet i => 4 * Lw s i + 22
  | .dFmtGet i => 4 * Lw s i + 21
  | .dWbufGet i => 4 * Lw s i + 20
  | .dCall i => callRem (c.kind i) s.wcall (Lw s i) + 9
  | .dFdGet _ => 9
  | .dFdGet2 _ => 8
  | .dClose _ => 7
  | .dOpen _ => 6
  | .dFdSet _ => 5
  | .dFdGet3 _ => 4
  | .dCtor i k => ((ctorOps (c.kind i)).length - k) + 1
  | .dFmtSet _ => 1
  | _ => 0

/-- cost of the data sets after `i` -/
def above (c : Cfg) (s : State) (i : Nat) : Nat := sumFrom (dsCost s) (i + 1) (c.n - (i + 1))

def wRank (c : Cfg) (s : State) : Nat :=
  match s.wpc with
  | .wait => sumFrom (dsCost s) 0 c.n + 2
  | .setFin => 1
  | .clrTD => 0
  | .dead => 0
  | w => match wIdx w with
    | some i => wIn c s w + above c s i + 1
    | none => 0

theorem ctor_len (k : Kind) : (ctorOps k).length ≤ 2 := by cases k <;> simp [ctorOps]

theorem wIn_le (c : Cfg) (s : State) (w : WPc) (i : Nat) (h : wIdx w = some i) : wIn c s w ≤ dsCost s i := by
  have := callRem_le (c.kind i) s.wcall (Lw s i)
  have := ctor_len (c.kind i)
  cases w <;> simp_all [wIdx, wIn, dsCost] <;> omega

theorem wIn_pos (c : Cfg) (s : State) (w : WPc) (i : Nat) (h : wIdx w = some i) : 0 < wIn c s w := by
  cases w <;> simp_all [wIdx, wIn]

theorem wRank_inDs (c : Cfg) (s : State) (i : Nat) (h : wIdx s.wpc = some i) :
    wRank c s = wIn c s s.wpc + above c s i + 1 := by
  unfold wRank
  cases hw : s.wpc <;> simp_all [wIdx]

theorem wRank_noIdx (c : Cfg) (s : State) (h : wIdx s.wpc = none) : wRank c s ≤ sumFrom (dsCost s) 0 c.n + 2 := by
  unfold wRank
  cases hw : s.wpc <;> simp_all [wIdx]

theorem above_succ (c : Cfg) (s : State) (i : Nat) (h : i + 1 < c.n) :
    above c s i = dsCost s (i + 1) + above c s (i + 1) := by
  unfold above
  have : c.n - (i + 1) = (c.n - (i + 1 + 1)) + 1 := by omega
  rw [this]; rfl

theorem above_last (c : Cfg) (s : State) (i : Nat) (h : c.n ≤ i + 1) : above c s i = 0 := by
  unfold above
  have : c.n - (i + 1) = 0 := by omega
  rw [this]; rfl

theorem total_first (c : Cfg) (s : State) (h : 0 < c.n) : sumFrom (dsCost s) 0 c.n = dsCost s 0 + above c s 0 := by
  unfold above
  have : c.n = (c.n - 1) + 1 := by omega
  rw [this]; simp [sumFrom]

theorem above_le_total (c : Cfg) (s : State) (i : Nat) (h : i < c.n) :
    dsCost s i + above c s i ≤ sumFrom (dsCost s) 0 c.n := by
  unfold above
  have e : c.n = i + ((c.n - (i + 1)) + 1) := by omega
  have := sumFrom_split (dsCost s) i ((c.n - (i + 1)) + 1) 0
  rw [← e] at this
  rw [this]
  simp only [sumFrom, Nat.zero_add]
  omega

/-- the exact rank never exceeds what is charged for a whole cycle -/
theorem wRank_le (c : Cfg) (s : State) (hw : ∀ k, wIdx s.wpc = some k → k < c.n) :
    wRank c s ≤ sumFrom (dsCost s) 0 c.n + 2 := by
  cases hi : wIdx s.wpc with
  | none => exact wRank_noIdx c s hi
  | some i =>
    rw [wRank_inDs c s i hi]
    have h1 := wIn_le c s s.wpc i hi
    have h2 := above_le_total c s i (hw i hi)
    omega


/-- a step does not make any list longer -/
def ListsLe (s s' : State) : Prop := ∀ k, Lr s' k ≤ Lr s k ∧ Lw s' k ≤ Lw s k

theorem ListsLe.refl_of_ds {s s' : State} (h : s'.ds = s.ds) : ListsLe s s' := by
  intro k; simp [Lr, Lw, h]

theorem ListsLe.of_one {s s' : State} (i : Nat) (ho : ∀ k, k ≠ i → s'.ds k = s.ds k)
    (hi : Lr s' i ≤ Lr s i ∧ Lw s' i ≤ Lw s i) : ListsLe s s' := by
  intro k
  by_cases hk : k = i
  · subst hk; exact hi
  · simp [Lr, Lw, ho k hk]

theorem above_mono (c : Cfg) (s s' : State) (i : Nat) (h : ListsLe s s') : above c s' i ≤ above c s i := by
  unfold above
  apply sumFrom_le
  intro k _ _
  have := (h k).2
  simp only [dsCost]; omega

theorem total_mono (c : Cfg) (s s' : State) (h : ListsLe s s') :
    sumFrom (dsCost s') 0 c.n ≤ sumFrom (dsCost s) 0 c.n := by
  apply sumFrom_le
  intro k _ _
  have := (h k).2
  simp only [dsCost]; omega

theorem wRank_step_inDs (c : Cfg) (s s' : State) (i : Nat) (h1 : wIdx s.wpc = some i) (h2 : wIdx s'.wpc = some i)
    (hl : ListsLe s s') (hlt : wIn c s' s'.wpc < wIn c s s.wpc) : wRank c s' < wRank c s := by
  rw [wRank_inDs c s i h1, wRank_inDs c s' i h2]
  have := above_mono c s s' i hl
  omega

theorem wRank_step_next (c : Cfg) (s s' : State) (i : Nat) (h1 : wIdx s.wpc = some i) (h2 : s'.wpc = nextW c i)
    (hl : ListsLe s s') : wRank c s' < wRank c s := by
  rw [wRank_inDs c s i h1]
  have hp := wIn_pos c s s.wpc i h1
  rcases nextW_cases c i with ⟨e, hlt⟩ | ⟨e, hge⟩
  · have hi' : wIdx s'.wpc = some (i + 1) := by rw [h2, e]; rfl
    rw [wRank_inDs c s' (i + 1) hi', h2, e, above_succ c s i hlt]
    have := above_mono c s s' (i + 1) hl
    have := (hl (i + 1)).2
    simp only [wIn, dsCost]; omega
  · have : wRank c s' = 1 := by unfold wRank; rw [h2, e]
    omega

theorem wRank_step_dead (c : Cfg) (s s' : State) (i : Nat) (h1 : wIdx s.wpc = some i) (h2 : s'.wpc = .dead) :
    wRank c s' < wRank c s := by
  rw [wRank_inDs c s i h1]
  have : wRank c s' = 0 := by unfold wRank; rw [h2]
  omega


/-- the writer is inside a cycle (or about to start one): it will reach `write_finished.set()` -/
def busy (s : State) : Bool :=
  match s.wpc with
  | .wait => s.td
  | .clrTD | .dead => false
  | _ => true

/-- what a step of the writer does to the ingredients of the variant function -/
structure WStep (c : Cfg) (s s' : State) : Prop where
  lists : ListsLe s s'
  rpc : s'.rpc = s.rpc
  ops : s'.ops = s.ops
  rcall : s'.rcall = s.rcall
  fin : s.fin = true → s'.fin = true
  rank : busy s = true → wRank c s' < wRank c s

section
variable {c : Cfg} {all : List RecOp} {s : State}

theorem lists_setDs_frame {d : Ds} {i : Nat} {k : Kind} {cl : Call} (hfr : CallFrame k (s.ds i) cl d) {s' : State}
    (hds : s'.ds = setDs s.ds i d) : ListsLe s s' := by
  apply ListsLe.of_one i
  · intro j hj; rw [hds, setDs_other _ _ hj]
  · simp [Lr, Lw, hds, hfr.lists, hfr.rb, hfr.wb]

theorem wRank_fmtGet (c : Cfg) (s : State) (i : Nat) (hw : s.wpc = .fmtGet i) :
    wRank c s = 8 * Lw s i + 38 + above c s i + 1 := by
  rw [wRank_inDs c s i (by simp [hw, wIdx]), hw]; rfl

theorem firstW_cases (c : Cfg) : (firstW c = .fmtGet 0 ∧ 0 < c.n) ∨ (firstW c = .setFin ∧ c.n = 0) := by
  unfold firstW; split
  · exact Or.inl ⟨rfl, by assumption⟩
  · exact Or.inr ⟨rfl, by omega⟩

theorem stepW_spec (h : Inv c all s) (hno : rcls s.rpc ≠ .raised) : WStep c s (stepW c s) := by
  cases hw : s.wpc with
  | wait =>
    simp only [stepW, hw]
    split
    · rename_i htd
      refine ⟨ListsLe.refl_of_ds rfl, rfl, rfl, rfl, id, fun _ => ?_⟩
      have h0 : wRank c s = sumFrom (dsCost s) 0 c.n + 2 := by unfold wRank; rw [hw]
      rw [h0]
      rcases firstW_cases c with ⟨e, hn⟩ | ⟨e, hn⟩
      · have h1 := wRank_fmtGet c { s with wpc := firstW c } 0 (by simp [e])
        have e1 : above c { s with wpc := firstW c } 0 = above c s 0 := rfl
        have e2 : Lw { s with wpc := firstW c } 0 = Lw s 0 := rfl
        rw [e1, e2] at h1
        rw [h1, total_first c s hn]; simp only [dsCost]; omega
      · have : wRank c { s with wpc := firstW c } = 1 := by unfold wRank; simp [e]
        omega
    · rename_i htd
      refine ⟨ListsLe.refl_of_ds rfl, rfl, rfl, rfl, id, fun hb => ?_⟩
      simp [busy, hw, htd] at hb
  | setFin =>
    simp only [stepW, hw]
    refine ⟨ListsLe.refl_of_ds rfl, rfl, rfl, rfl, fun _ => rfl, fun _ => ?_⟩
    unfold wRank; simp [hw]
  | clrTD =>
    simp only [stepW, hw]
    refine ⟨ListsLe.refl_of_ds rfl, rfl, rfl, rfl, id, fun hb => ?_⟩
    simp [busy, hw] at hb
  | dead =>
    simp only [stepW, hw]
    refine ⟨ListsLe.refl_of_ds rfl, rfl, rfl, rfl, id, fun hb => ?_⟩
    simp [busy, hw] at hb
  | fmtGet i =>
    simp only [stepW, hw]
    have hl : ListsLe s { s with wf := (s.ds i).fmt, wpc := WPc.wbufGet i } := ListsLe.refl_of_ds rfl
    refine ⟨hl, rfl, rfl, rfl, id, fun _ => ?_⟩
    exact wRank_step_inDs c s _ i (by simp [hw, wIdx]) (by simp [wIdx]) hl (by simp [hw, wIn, Lw])
  | wbufGet i =>
    simp only [stepW, hw]
    refine ⟨ListsLe.refl_of_ds rfl, rfl, rfl, rfl, id, fun _ => ?_⟩
    refine wRank_step_inDs c s _ i (by simp [hw, wIdx]) (by simp [wIdx]) (ListsLe.refl_of_ds rfl) ?_
    have := callRem_start (c.kind i) s.wf (s.ds i).wb .write (Lw s i)
    simp only [Lw] at this
    simp only [hw, wIn, Lw]
    omega
  | call i =>
    have hloc := h.wloc
    simp only [WLoc, hw] at hloc
    obtain ⟨hlf, hll, hlok, _⟩ := hloc
    have hspec := callStep_spec (c.kind i) (c.fault s.ioc) (s.ds i) s.wcall hlok
    have hrem := callStep_rem (c.kind i) (c.fault s.ioc) (s.ds i) s.wcall hlok
    have hL : ((s.ds i).lists s.wcall.l).length = Lw s i := by rw [hll]; rfl
    rw [hL] at hrem
    simp only [stepW, hw]
    cases hres : callStep (c.kind i) (c.fault s.ioc) (s.ds i) s.wcall with
    | cont d k' =>
      rw [hres] at hspec hrem
      have hl := lists_setDs_frame (s := s) hspec.1 (s' := { s with ioc := if s.wcall.isIo = true then s.ioc + 1 else s.ioc, ds := setDs s.ds i d, wcall := k' }) rfl
      refine ⟨hl, rfl, rfl, rfl, id, fun _ => ?_⟩
      refine wRank_step_inDs c s _ i (by simp [hw, wIdx]) (by simp [wIdx]) hl ?_
      simp only [RemSpec, Lw] at hrem
      simp only [hw, wIn, Lw, setDs_same, hspec.1.lists, hspec.1.wb]
      omega
    | ret d =>
      rw [hres] at hspec hrem
      have hl := lists_setDs_frame (s := s) hspec.1 (s' := { s with ioc := if s.wcall.isIo = true then s.ioc + 1 else s.ioc, ds := setDs s.ds i d, wpc := WPc.wbufGet2 i }) rfl
      refine ⟨hl, rfl, rfl, rfl, id, fun _ => ?_⟩
      refine wRank_step_inDs c s _ i (by simp [hw, wIdx]) (by simp [wIdx]) hl ?_
      simp only [RemSpec, Lw] at hrem
      simp only [hw, wIn, Lw, setDs_same, hspec.1.lists, hspec.1.wb]
      omega
    | exc =>
      refine ⟨ListsLe.refl_of_ds rfl, rfl, rfl, rfl, id, fun _ => ?_⟩
      exact wRank_step_dead c s _ i (by simp [hw, wIdx]) rfl
  | wbufGet2 i =>
    simp only [stepW, hw]
    refine ⟨ListsLe.refl_of_ds rfl, rfl, rfl, rfl, id, fun _ => ?_⟩
    exact wRank_step_inDs c s _ i (by simp [hw, wIdx]) (by simp [wIdx]) (ListsLe.refl_of_ds rfl)
      (by simp [hw, wIn, Lw])
  | clear i =>
    have hloc := h.wloc
    simp only [WLoc, hw] at hloc
    have hi : i < c.n := h.widx i (by simp [hw, wIdx])
    have hrw := h.rbwb i hi
    simp only [stepW, hw]
    have hl : ListsLe s { s with ds := setDs s.ds i { s.ds i with lists := upd (s.ds i).lists s.wl [] }, wpc := WPc.stopGet i } := by
      apply ListsLe.of_one i
      · intro j hj; simp [setDs_other _ _ hj]
      · have : (s.ds i).rb ≠ (s.ds i).wb := by omega
        simp [Lr, Lw, hloc, upd_other _ _ this]
    refine ⟨hl, rfl, rfl, rfl, id, fun _ => ?_⟩
    refine wRank_step_inDs c s _ i (by simp [hw, wIdx]) (by simp [wIdx]) hl ?_
    simp [hw, wIn, Lw, hloc]
  | stopGet i =>
    simp only [stepW, hw]
    split
    · refine ⟨ListsLe.refl_of_ds rfl, rfl, rfl, rfl, id, fun _ => ?_⟩
      exact wRank_step_next c s _ i (by simp [hw, wIdx]) rfl (ListsLe.refl_of_ds rfl)
    · refine ⟨ListsLe.refl_of_ds rfl, rfl, rfl, rfl, id, fun _ => ?_⟩
      exact wRank_step_inDs c s _ i (by simp [hw, wIdx]) (by simp [wIdx]) (ListsLe.refl_of_ds rfl)
        (by simp [hw, wIn, Lw])
  | flagGet i =>
    simp only [stepW, hw]
    split
    · refine ⟨ListsLe.refl_of_ds rfl, rfl, rfl, rfl, id, fun _ => ?_⟩
      exact wRank_step_inDs c s _ i (by simp [hw, wIdx]) (by simp [wIdx]) (ListsLe.refl_of_ds rfl)
        (by simp [hw, wIn, Lw])
    · refine ⟨ListsLe.refl_of_ds rfl, rfl, rfl, rfl, id, fun _ => ?_⟩
      exact wRank_step_next c s _ i (by simp [hw, wIdx]) rfl (ListsLe.refl_of_ds rfl)
  | flagSet i =>
    simp only [stepW, hw]
    have hl : ListsLe s { s with ds := setDs s.ds i { s.ds i with subFlag := false }, wpc := WPc.dFmtGet i } := by
      apply ListsLe.of_one i
      · intro j hj; simp [setDs_other _ _ hj]
      · simp [Lr, Lw]
    refine ⟨hl, rfl, rfl, rfl, id, fun _ => ?_⟩
    refine wRank_step_inDs c s _ i (by simp [hw, wIdx]) (by simp [wIdx]) hl ?_
    simp [hw, wIn, Lw]
  | dFmtGet i =>
    simp only [stepW, hw]
    refine ⟨ListsLe.refl_of_ds rfl, rfl, rfl, rfl, id, fun _ => ?_⟩
    exact wRank_step_inDs c s _ i (by simp [hw, wIdx]) (by simp [wIdx]) (ListsLe.refl_of_ds rfl)
      (by simp [hw, wIn, Lw])
  | dWbufGet i =>
    simp only [stepW, hw]
    refine ⟨ListsLe.refl_of_ds rfl, rfl, rfl, rfl, id, fun _ => ?_⟩
    refine wRank_step_inDs c s _ i (by simp [hw, wIdx]) (by simp [wIdx]) (ListsLe.refl_of_ds rfl) ?_
    have := callRem_start (c.kind i) s.wf (s.ds i).wb (finKind (c.kind i) ((s.ds i).files s.wf)) (Lw s i)
    simp only [Lw] at this
    simp only [hw, wIn, Lw]
    omega
  | dCall i =>
    have hloc := h.wloc
    simp only [WLoc, hw] at hloc
    obtain ⟨hlf, hll, hlok⟩ := hloc
    have hspec := callStep_spec (c.kind i) (c.fault s.ioc) (s.ds i) s.wcall hlok
    have hrem := callStep_rem (c.kind i) (c.fault s.ioc) (s.ds i) s.wcall hlok
    have hL : ((s.ds i).lists s.wcall.l).length = Lw s i := by rw [hll]; rfl
    rw [hL] at hrem
    simp only [stepW, hw]
    cases hres : callStep (c.kind i) (c.fault s.ioc) (s.ds i) s.wcall with
    | cont d k' =>
      rw [hres] at hspec hrem
      have hl := lists_setDs_frame (s := s) hspec.1 (s' := { s with ioc := if s.wcall.isIo = true then s.ioc + 1 else s.ioc, ds := setDs s.ds i d, wcall := k' }) rfl
      refine ⟨hl, rfl, rfl, rfl, id, fun _ => ?_⟩
      refine wRank_step_inDs c s _ i (by simp [hw, wIdx]) (by simp [wIdx]) hl ?_
      simp only [RemSpec, Lw] at hrem
      simp only [hw, wIn, Lw, setDs_same, hspec.1.lists, hspec.1.wb]
      omega
    | ret d =>
      rw [hres] at hspec hrem
      have hl := lists_setDs_frame (s := s) hspec.1 (s' := { s with ioc := if s.wcall.isIo = true then s.ioc + 1 else s.ioc, ds := setDs s.ds i d, wpc := WPc.dFdGet i }) rfl
      refine ⟨hl, rfl, rfl, rfl, id, fun _ => ?_⟩
      refine wRank_step_inDs c s _ i (by simp [hw, wIdx]) (by simp [wIdx]) hl ?_
      simp only [RemSpec, Lw] at hrem
      simp only [hw, wIn, Lw]
      omega
    | exc =>
      refine ⟨ListsLe.refl_of_ds rfl, rfl, rfl, rfl, id, fun _ => ?_⟩
      exact wRank_step_dead c s _ i (by simp [hw, wIdx]) rfl
  | dFdGet i =>
    simp only [stepW, hw]
    refine ⟨ListsLe.refl_of_ds rfl, rfl, rfl, rfl, id, fun _ => ?_⟩
    exact wRank_step_inDs c s _ i (by simp [hw, wIdx]) (by simp [wIdx]) (ListsLe.refl_of_ds rfl) (by simp [hw, wIn])
  | dFdGet2 i =>
    simp only [stepW, hw]
    refine ⟨ListsLe.refl_of_ds rfl, rfl, rfl, rfl, id, fun _ => ?_⟩
    exact wRank_step_inDs c s _ i (by simp [hw, wIdx]) (by simp [wIdx]) (ListsLe.refl_of_ds rfl) (by simp [hw, wIn])
  | dClose i =>
    simp only [stepW, hw]
    split
    · refine ⟨ListsLe.refl_of_ds rfl, rfl, rfl, rfl, id, fun _ => ?_⟩
      exact wRank_step_dead c s _ i (by simp [hw, wIdx]) rfl
    · have hl : ListsLe s { s with ioc := s.ioc + 1, ds := setDs s.ds i ((s.ds i).setFile s.wfd { (s.ds i).files s.wfd with closed := true }), wpc := WPc.dOpen i } := by
        apply ListsLe.of_one i
        · intro j hj; simp [setDs_other _ _ hj]
        · simp [Lr, Lw]
      refine ⟨hl, rfl, rfl, rfl, id, fun _ => ?_⟩
      exact wRank_step_inDs c s _ i (by simp [hw, wIdx]) (by simp [wIdx]) hl (by simp [hw, wIn])
  | dOpen i =>
    simp only [stepW, hw]
    split
    · refine ⟨ListsLe.refl_of_ds rfl, rfl, rfl, rfl, id, fun _ => ?_⟩
      exact wRank_step_dead c s _ i (by simp [hw, wIdx]) rfl
    · have hl : ListsLe s { s with ioc := s.ioc + 1, ds := setDs s.ds i (({ s.ds i with sub := (s.ds i).sub + 1 } : Ds).setFile ((s.ds i).sub + 1) {}), wfd := (s.ds i).sub + 1, wpc := WPc.dFdSet i } := by
        apply ListsLe.of_one i
        · intro j hj; simp [setDs_other _ _ hj]
        · simp [Lr, Lw]
      refine ⟨hl, rfl, rfl, rfl, id, fun _ => ?_⟩
      exact wRank_step_inDs c s _ i (by simp [hw, wIdx]) (by simp [wIdx]) hl (by simp [hw, wIn])
  | dFdSet i =>
    simp only [stepW, hw]
    have hl : ListsLe s { s with ds := setDs s.ds i { s.ds i with fd := s.wfd }, wpc := WPc.dFdGet3 i } := by
      apply ListsLe.of_one i
      · intro j hj; simp [setDs_other _ _ hj]
      · simp [Lr, Lw]
    refine ⟨hl, rfl, rfl, rfl, id, fun _ => ?_⟩
    exact wRank_step_inDs c s _ i (by simp [hw, wIdx]) (by simp [wIdx]) hl (by simp [hw, wIn])
  | dFdGet3 i =>
    simp only [stepW, hw]
    have hcl := ctor_len (c.kind i)
    split
    · refine ⟨ListsLe.refl_of_ds rfl, rfl, rfl, rfl, id, fun _ => ?_⟩
      exact wRank_step_inDs c s _ i (by simp [hw, wIdx]) (by simp [wIdx]) (ListsLe.refl_of_ds rfl) (by simp [hw, wIn])
    · refine ⟨ListsLe.refl_of_ds rfl, rfl, rfl, rfl, id, fun _ => ?_⟩
      refine wRank_step_inDs c s _ i (by simp [hw, wIdx]) (by simp [wIdx]) (ListsLe.refl_of_ds rfl) ?_
      simp only [hw, wIn]; omega
  | dCtor i k =>
    have hloc := h.wloc
    simp only [WLoc, hw] at hloc
    simp only [stepW, hw]
    rw [List.getElem?_eq_getElem hloc.2]
    simp only
    split
    · refine ⟨ListsLe.refl_of_ds rfl, rfl, rfl, rfl, id, fun _ => ?_⟩
      exact wRank_step_dead c s _ i (by simp [hw, wIdx]) rfl
    · split
      · refine ⟨ListsLe.refl_of_ds rfl, rfl, rfl, rfl, id, fun _ => ?_⟩
        refine wRank_step_inDs c s _ i (by simp [hw, wIdx]) (by simp [wIdx]) (ListsLe.refl_of_ds rfl) ?_
        simp only [hw, wIn]; omega
      · refine ⟨ListsLe.refl_of_ds rfl, rfl, rfl, rfl, id, fun _ => ?_⟩
        refine wRank_step_inDs c s _ i (by simp [hw, wIdx]) (by simp [wIdx]) (ListsLe.refl_of_ds rfl) ?_
        simp only [hw, wIn]; omega
  | dFmtSet i =>
    simp only [stepW, hw]
    have hl : ListsLe s { s with ds := setDs s.ds i { s.ds i with fmt := s.wfd }, wpc := nextW c i } := by
      apply ListsLe.of_one i
      · intro j hj; simp [setDs_other _ _ hj]
      · simp [Lr, Lw]
    refine ⟨hl, rfl, rfl, rfl, id, fun _ => ?_⟩
    exact wRank_step_next c s _ i (by simp [hw, wIdx]) rfl hl

end

/-! ### the variant function -/

/-- `stop()` has not reached its wait loop yet: a whole writer cycle may still lie ahead -/
def pre : RPc → Bool
  | .idle | .uAlive | .uAppend _ | .uFlag _ | .uIsSet | .uStage _ | .uClrFin | .uSetTD | .sIsSet => true
  | _ => false

def pot (c : Cfg) (s : State) : Nat :=
  sumFrom (fun k => 8 * Lr s k) 0 c.n + (if pre s.rpc then sumFrom (dsCost s) 0 c.n + 2 else 0)

/-- what the wait loop of `stop()` still costs -/
def waitRank (c : Cfg) (s : State) : Nat :=
  if s.fin then (if s.rpc = .sAlive then 1 else 0)
  else if s.wpc = .dead then (if s.rpc = .sWait then 2 else 1)
  else 3 + wRank c s

def rRank (c : Cfg) (s : State) : Nat :=
  let n := c.n
  match s.rpc with
  | .idle => 20 * n + 8
  | .uAlive => 31 * n + 14
  | .uAppend j => 21 * n + 13 + (n - j) * 10
  | .uFlag j => 21 * n + 14 + (n - (j + 1)) * 10
  | .uIsSet => 21 * n + 12
  | .uStage j => 20 * n + 11 + (n - j)
  | .uClrFin => 20 * n + 10
  | .uSetTD => 20 * n + 9
  | .sIsSet => 20 * n + 7
  | .sWait | .sAlive => 20 * n + 3 + waitRank c s
  | .sClrTD => 20 * n + 2
  | .sClrFin => 20 * n + 1
  | .sStop j => 17 + 20 * (n - (j + 1))
  | .sStage j => 16 + 20 * (n - (j + 1))
  | .sFmtGet j => 4 * Lw s j + 15 + 20 * (n - (j + 1))
  | .sWbufGet j => 4 * Lw s j + 14 + 20 * (n - (j + 1))
  | .sCall j => callRem (c.kind j) s.rcall (Lw s j) + 3 + 20 * (n - (j + 1))
  | .sFdGet j => 3 + 20 * (n - (j + 1))
  | .sFdGet2 j => 2 + 20 * (n - (j + 1))
  | .sClose j => 1 + 20 * (n - (j + 1))
  | .done | .raisedT | .raisedIO => 0

def mu (c : Cfg) (s : State) : Nat := (11 * c.n + 7) * s.ops.length + rRank c s + pot c s

theorem callRem_mono (k : Kind) (cl : Call) (L L' : Nat) (h : L' ≤ L) : callRem k cl L' ≤ callRem k cl L := by
  unfold callRem
  cases cl.pc <;> simp only <;> (try split) <;> omega

/-- the recorder's next place after (part of) `update`'s loop is cheaper than the place it scanned from -/
theorem scan_rank (c : Cfg) (s s0 : State) : ∀ fuel i b, c.n ≤ fuel + i → i ≤ c.n → (b = true → i < c.n) →
    rRank c { s0 with rpc := scan c s fuel i b } ≤
      21 * c.n + 13 + (if b then (c.n - (i + 1)) * 10 + 1 else (c.n - i) * 10) := by
  intro fuel
  induction fuel with
  | zero =>
    intro i b h1 h2 h3
    unfold scan
    split <;> simp only [rRank] <;> split <;> omega
  | succ f ih =>
    intro i b h1 h2 h3
    unfold scan
    split
    · split <;> simp only [rRank] <;> split <;> omega
    · rename_i hn
      split
      · rename_i hb
        simp only [Bool.and_eq_true, Bool.not_eq_true'] at hb
        simp only [rRank, hb.1, Bool.false_eq_true, if_false]; omega
      · split
        · simp only [rRank]; split <;> omega
        · have := ih (i + 1) false (by omega) (by omega) (by simp)
          simp only [Bool.false_eq_true, if_false] at this
          split <;> omega


/-- `stop()` is going round its wait loop behind a writer that is still alive -/
def spin (s : State) : Prop := waiting s.rpc = true ∧ s.fin = false ∧ s.wpc ≠ .dead

theorem pot_congr (c : Cfg) (s s' : State) (hds : s'.ds = s.ds) (hp : pre s'.rpc = pre s.rpc) : pot c s' = pot c s := by
  unfold pot
  rw [hp]
  have e1 : (fun k => 8 * Lr s' k) = (fun k => 8 * Lr s k) := by funext k; simp [Lr, hds]
  have e2 : dsCost s' = dsCost s := by funext k; simp [dsCost, Lw, hds]
  rw [e1, e2]

theorem pot_drop (c : Cfg) (s s' : State) (hds : s'.ds = s.ds) (hp : pre s.rpc = true) (hp' : pre s'.rpc = false) :
    pot c s' + sumFrom (dsCost s) 0 c.n + 2 = pot c s := by
  unfold pot
  rw [hp, hp']
  have e1 : (fun k => 8 * Lr s' k) = (fun k => 8 * Lr s k) := by funext k; simp [Lr, hds]
  rw [e1]; simp; omega

theorem pot_lists (c : Cfg) (s s' : State) (hr : ∀ k, Lr s' k = Lr s k) (hw : ∀ k, Lw s' k = Lw s k)
    (hp : pre s'.rpc = pre s.rpc) : pot c s' = pot c s := by
  unfold pot
  rw [hp]
  have e1 : (fun k => 8 * Lr s' k) = (fun k => 8 * Lr s k) := by funext k; simp [hr]
  have e2 : dsCost s' = dsCost s := by funext k; simp [dsCost, hw]
  rw [e1, e2]

/-- `rbuf.append` -/
theorem pot_append (c : Cfg) (s s' : State) (j : Nat) (hj : j < c.n) (ho : ∀ k, k ≠ j → s'.ds k = s.ds k)
    (hr : Lr s' j = Lr s j + 1) (hw : Lw s' j = Lw s j) (hp : pre s'.rpc = pre s.rpc) : pot c s' = pot c s + 8 := by
  unfold pot
  rw [hp]
  have e2 : dsCost s' = dsCost s := by
    funext k
    by_cases hk : k = j
    · subst hk; simp [dsCost, hw]
    · simp [dsCost, Lw, ho k hk]
  have := sumFrom_update (fun k => 8 * Lr s k) (fun k => 8 * Lr s' k) j
    (by intro k hk; simp [Lr, ho k hk]) c.n 0 (Nat.zero_le _) (by omega)
  simp only [hr] at this
  rw [e2]; omega

/-- `stage_for_write` of data set `j` -/
theorem pot_stage (c : Cfg) (s s' : State) (j : Nat) (hj : j < c.n) (ho : ∀ k, k ≠ j → s'.ds k = s.ds k)
    (hr : Lr s' j = 0) (hw : Lw s' j = Lr s j) (hp : pre s'.rpc = pre s.rpc) :
    pot c s' + (if pre s.rpc then 8 * Lw s j else 8 * Lr s j) = pot c s := by
  unfold pot
  rw [hp]
  have h1 := sumFrom_update (fun k => 8 * Lr s k) (fun k => 8 * Lr s' k) j
    (by intro k hk; simp [Lr, ho k hk]) c.n 0 (Nat.zero_le _) (by omega)
  have h2 := sumFrom_update (dsCost s) (dsCost s') j
    (by intro k hk; simp [dsCost, Lw, ho k hk]) c.n 0 (Nat.zero_le _) (by omega)
  simp only [hr, dsCost, hw] at h1 h2
  split <;> omega

section
variable {c : Cfg} {all : List RecOp} {s : State}

theorem wRank_congr (c : Cfg) (s s' : State) (h1 : s'.wpc = s.wpc) (h2 : s'.wcall = s.wcall) (h3 : s'.ds = s.ds) :
    wRank c s' = wRank c s := by
  have e : ∀ k, Lw s' k = Lw s k := by intro k; simp [Lw, h3]
  have e2 : dsCost s' = dsCost s := funext (fun k => by simp [dsCost, e])
  unfold wRank
  rw [h1]
  cases s.wpc <;> simp [wIdx, wIn, above, e, e2, h2]

theorem waitRank_spin (c : Cfg) (s : State) (hf : s.fin = false) (hd : s.wpc ≠ .dead) :
    waitRank c s = 3 + wRank c s := by
  simp [waitRank, hf, hd]

theorem stepR_spin_frame (hs : spin s) : (stepR c s).wpc = s.wpc ∧ (stepR c s).fin = s.fin ∧
    waiting (stepR c s).rpc = true ∧ (stepR c s).ds = s.ds ∧ (stepR c s).wcall = s.wcall ∧
    (stepR c s).td = s.td ∧ (stepR c s).ops = s.ops ∧ pre (stepR c s).rpc = pre s.rpc := by
  obtain ⟨hw, hf, hd⟩ := hs
  cases hr : s.rpc <;> simp [waiting, hr] at hw
  · simp only [stepR, hr, hf, Bool.false_eq_true, if_false]
    split <;> simp [waiting, pre]
  · simp [stepR, hr, hd, waiting, pre]

theorem stepR_spin (hs : spin s) : mu c (stepR c s) = mu c s := by
  obtain ⟨h1, h2, h3, h4, h5, h6, h7, h8⟩ := stepR_spin_frame (c := c) hs
  obtain ⟨hw, hf, hd⟩ := hs
  unfold mu
  rw [pot_congr c s _ h4 h8, h7]
  have hr' : (stepR c s).rpc = .sWait ∨ (stepR c s).rpc = .sAlive := by
    cases hr : (stepR c s).rpc <;> simp [waiting, hr] at h3 <;> simp
  have hr : s.rpc = .sWait ∨ s.rpc = .sAlive := by
    cases hr : s.rpc <;> simp [waiting, hr] at hw <;> simp
  have e1 : rRank c (stepR c s) = 20 * c.n + 3 + waitRank c (stepR c s) := by
    rcases hr' with e | e <;> simp [rRank, e]
  have e2 : rRank c s = 20 * c.n + 3 + waitRank c s := by
    rcases hr with e | e <;> simp [rRank, e]
  rw [e1, e2, waitRank_spin c s hf hd, waitRank_spin c _ (by rw [h2]; exact hf) (by rw [h1]; exact hd),
    wRank_congr c s _ h1 h5 h4]

theorem waitRank_le (c : Cfg) (s : State) : waitRank c s ≤ 3 + wRank c s := by
  unfold waitRank; split <;> (try split) <;> (try split) <;> omega

theorem pre_of_safe_nowait (p : RPc) (h1 : rcls p = .safe) (h2 : waiting p = false) : pre p = true := by
  cases p <;> simp_all [rcls, waiting, pre]

theorem pot_unpre (c : Cfg) (s s' : State) (hr : ∀ k, Lr s' k = Lr s k) (hp' : pre s'.rpc = false) :
    pot c s' ≤ pot c s := by
  unfold pot
  rw [hp']
  have e1 : (fun k => 8 * Lr s' k) = (fun k => 8 * Lr s k) := by funext k; simp [hr]
  rw [e1]; simp

theorem mul_succ_len {α} (a : Nat) (x : α) (l : List α) : a * (x :: l).length = a * l.length + a := by
  simp [Nat.mul_succ]

theorem callRem_pos (k : Kind) (cl : Call) (L : Nat) (hok : callOk k cl = true) : 0 < callRem k cl L := by
  unfold callRem
  cases hp : cl.pc <;> simp_all [callOk] <;> omega

theorem rRank_of_pre (c : Cfg) (s1 s2 : State) (h : s2.rpc = s1.rpc) (hp : pre s1.rpc = true) :
    rRank c s2 = rRank c s1 := by
  unfold rRank; rw [h]; cases hr : s1.rpc <;> simp_all [pre]

theorem LrLw_setDs (s s' : State) (j : Nat) (d : Ds) (hds : s'.ds = setDs s.ds j d)
    (h1 : d.lists = (s.ds j).lists) (h2 : d.rb = (s.ds j).rb) (h3 : d.wb = (s.ds j).wb) :
    (∀ k, Lr s' k = Lr s k) ∧ (∀ k, Lw s' k = Lw s k) := by
  constructor <;> intro k <;> by_cases hk : k = j
  · subst hk; simp [Lr, hds, h1, h2]
  · simp [Lr, hds, setDs_other _ _ hk]
  · subst hk; simp [Lw, hds, h1, h3]
  · simp [Lw, hds, setDs_other _ _ hk]

/-- assembling the three summands -/
theorem mu_lt_of (c : Cfg) (s s' : State) (a b : Nat) (h1 : (11 * c.n + 7) * s'.ops.length + a = (11 * c.n + 7) * s.ops.length)
    (h2 : pot c s' ≤ pot c s + b) (h3 : rRank c s' + b < rRank c s + a) : mu c s' < mu c s := by
  unfold mu; omega

/-- every step of the recorder strictly decreases the variant function, unless it is going round the wait loop
behind a live writer, or hangs behind a dead one -/
theorem stepR_mu_lt (h : Inv c all s) (ho : s.over = false) (hs : ¬ spin s) (hh : s.hung c = false) :
    mu c (stepR c s) < mu c s := by
  have hno := not_over ho
  cases hr : s.rpc with
  | done => exact absurd hr hno.1
  | raisedT => exact absurd hr hno.2.1
  | raisedIO => exact absurd hr hno.2.2.1
  | idle =>
    cases hops : s.ops with
    | nil =>
      have e1 : (stepR c s).rpc = .sIsSet := by simp [stepR, hr, hops]
      have e2 : (stepR c s).ds = s.ds := by simp [stepR, hr, hops]
      have e3 : (stepR c s).ops = s.ops := by simp [stepR, hr, hops]
      refine mu_lt_of c s _ 0 0 (by rw [e3]; simp) (by rw [pot_congr c s (stepR c s) e2 (by rw [e1, hr] <;> rfl)]; omega) ?_
      simp [rRank, e1, hr]
    | cons op rest =>
      have e3 : (stepR c s).ops = rest := by
        cases op <;> simp [stepR, hr, hops] <;> split <;> simp
      have e2 : (stepR c s).ds = s.ds := by
        cases op <;> simp [stepR, hr, hops] <;> split <;> simp
      have e1 : (stepR c s).rpc = .idle ∨ (stepR c s).rpc = .uAlive := by
        cases op <;> simp [stepR, hr, hops] <;> split <;> simp [hr]
      refine mu_lt_of c s _ (11 * c.n + 7) 0 (by rw [e3, hops, mul_succ_len])
        (by rw [pot_congr c s (stepR c s) e2 (by rcases e1 with e | e <;> rw [e, hr] <;> rfl)]; omega) ?_
      rcases e1 with e | e <;> simp only [rRank, e, hr] <;> omega
  | uAlive =>
    by_cases hd : s.wpc = .dead
    · have e1 : (stepR c s).rpc = .raisedT := by simp [stepR, hr, hd]
      have e3 : (stepR c s).ops = s.ops := by simp [stepR, hr, hd]
      have e2 : ∀ k, Lr (stepR c s) k = Lr s k := by intro k; simp [Lr, stepR, hr, hd]
      refine mu_lt_of c s _ 0 0 (by rw [e3]; simp) (by have := pot_unpre c s _ e2 (by rw [e1]; rfl); omega) ?_
      simp [rRank, e1, hr]
    · have e1 : (stepR c s).rpc = scanFrom c { s with rpc := .uAlive, el := s.elapsed, wr := false } 0 false := by
        simp [stepR, hr, hd]
      have e3 : (stepR c s).ops = s.ops := by simp [stepR, hr, hd]
      have e2 : (stepR c s).ds = s.ds := by simp [stepR, hr, hd]
      have sp := scanFrom_spec c { s with rpc := .uAlive, el := s.elapsed, wr := false } 0 false
      have hp := pre_of_safe_nowait _ sp.safe sp.nowait
      have hrk := scan_rank c { s with rpc := .uAlive, el := s.elapsed, wr := false } s (c.n + 1 - 0) 0 false
        (by omega) (by omega) (by simp)
      rw [← rRank_of_pre c _ (stepR c s) (by rw [e1]; rfl) hp] at hrk
      refine mu_lt_of c s _ 0 0 (by rw [e3]; simp) (by rw [pot_congr c s (stepR c s) e2 (by rw [e1, hr, hp] <;> rfl)]; omega) ?_
      simp only [Bool.false_eq_true, if_false, Nat.sub_zero] at hrk
      simp only [rRank, hr] at hrk ⊢; omega
  | uAppend j =>
    have hj : j < c.n := h.ridx j (by simp [hr, rIdx])
    have hdue := h.rloc
    simp only [RLoc, hr] at hdue
    have hrw := h.rbwb j hj
    cases hcur : s.cur with
    | none => simp [appendDue, hcur] at hdue
    | some m =>
      have e1 : (stepR c s).rpc = scanFrom c { s with rpc := .uAppend j, cur := some m, ds := setDs s.ds j { s.ds j with lists := upd (s.ds j).lists (s.ds j).rb ((s.ds j).lists (s.ds j).rb ++ [m]) } } j true := by
        simp [stepR, hr, hcur]
      have e3 : (stepR c s).ops = s.ops := by simp [stepR, hr, hcur]
      have e2 : (stepR c s).ds = setDs s.ds j { s.ds j with lists := upd (s.ds j).lists (s.ds j).rb ((s.ds j).lists (s.ds j).rb ++ [m]) } := by
        simp [stepR, hr, hcur]
      have sp := scanFrom_spec c { s with rpc := .uAppend j, cur := some m, ds := setDs s.ds j { s.ds j with lists := upd (s.ds j).lists (s.ds j).rb ((s.ds j).lists (s.ds j).rb ++ [m]) } } j true
      have hp := pre_of_safe_nowait _ sp.safe sp.nowait
      have hrk := scan_rank c { s with rpc := .uAppend j, cur := some m, ds := setDs s.ds j { s.ds j with lists := upd (s.ds j).lists (s.ds j).rb ((s.ds j).lists (s.ds j).rb ++ [m]) } } s
        (c.n + 1 - j) j true (by omega) (by omega) (fun _ => hj)
      rw [← rRank_of_pre c _ (stepR c s) (by rw [e1]; rfl) hp] at hrk
      have hpot := pot_append c s (stepR c s) j hj (fun k hk => by rw [e2, setDs_other _ _ hk])
        (by simp [Lr, e2]) (by simp [Lw, e2, upd_other _ _ (show (s.ds j).wb ≠ (s.ds j).rb by omega)])
        (by rw [e1, hr, hp] <;> rfl)
      refine mu_lt_of c s _ 0 8 (by rw [e3]; simp) (by omega) ?_
      simp only [if_true] at hrk
      simp only [rRank, hr] at hrk ⊢
      have : (c.n - j) * 10 = (c.n - (j + 1)) * 10 + 10 := by
        have : c.n - j = (c.n - (j + 1)) + 1 := by omega
        rw [this]; omega
      omega
  | uFlag j =>
    have hj : j < c.n := h.ridx j (by simp [hr, rIdx])
    have e1 : (stepR c s).rpc = scanFrom c { s with rpc := .uFlag j, wr := true, ds := setDs s.ds j { s.ds j with nextSub := some (s.el + c.interval j), subFlag := true } } (j + 1) false := by
      simp [stepR, hr]
    have e3 : (stepR c s).ops = s.ops := by simp [stepR, hr]
    have e2 : (stepR c s).ds = setDs s.ds j { s.ds j with nextSub := some (s.el + c.interval j), subFlag := true } := by
      simp [stepR, hr]
    have sp := scanFrom_spec c { s with rpc := .uFlag j, wr := true, ds := setDs s.ds j { s.ds j with nextSub := some (s.el + c.interval j), subFlag := true } } (j + 1) false
    have hp := pre_of_safe_nowait _ sp.safe sp.nowait
    have hrk := scan_rank c { s with rpc := .uFlag j, wr := true, ds := setDs s.ds j { s.ds j with nextSub := some (s.el + c.interval j), subFlag := true } } s
      (c.n + 1 - (j + 1)) (j + 1) false (by omega) (by omega) (by simp)
    rw [← rRank_of_pre c _ (stepR c s) (by rw [e1]; rfl) hp] at hrk
    obtain ⟨hl1, hl2⟩ := LrLw_setDs s (stepR c s) j _ e2 rfl rfl rfl
    refine mu_lt_of c s _ 0 0 (by rw [e3]; simp) (by rw [pot_lists c s (stepR c s) hl1 hl2 (by rw [e1, hr, hp] <;> rfl)]; omega) ?_
    simp only [Bool.false_eq_true, if_false] at hrk
    simp only [rRank, hr] at hrk ⊢
    omega
  | uIsSet =>
    have e3 : (stepR c s).ops = s.ops := by simp only [stepR, hr]; split <;> rfl
    have e2 : (stepR c s).ds = s.ds := by simp only [stepR, hr]; split <;> rfl
    have e1 : (stepR c s).rpc = .idle ∨ (stepR c s).rpc = firstUStage c := by
      simp only [stepR, hr]; split <;> simp
    have hp : pre (stepR c s).rpc = true := by
      rcases e1 with e | e
      · rw [e]; rfl
      · rw [e]; rcases firstUStage_cases c with ⟨e', _⟩ | ⟨e', _⟩ <;> rw [e'] <;> rfl
    refine mu_lt_of c s _ 0 0 (by rw [e3]; simp) (by rw [pot_congr c s (stepR c s) e2 (by rw [hp, hr] <;> rfl)]; omega) ?_
    rcases e1 with e | e
    · simp only [rRank, e, hr]; omega
    · rcases firstUStage_cases c with ⟨e', _⟩ | ⟨e', _⟩ <;> simp only [rRank, e, e', hr] <;> omega
  | uStage j =>
    have hj : j < c.n := h.ridx j (by simp [hr, rIdx])
    have e1 : (stepR c s).rpc = nextUStage c j := by simp [stepR, hr]
    have e3 : (stepR c s).ops = s.ops := by simp [stepR, hr]
    have e2 : (stepR c s).ds = setDs s.ds j (s.ds j).stage := by simp [stepR, hr]
    have hp : pre (stepR c s).rpc = true := by
      rw [e1]; rcases nextUStage_cases c j with ⟨e', _⟩ | ⟨e', _⟩ <;> rw [e'] <;> rfl
    have hpot := pot_stage c s (stepR c s) j hj (fun k hk => by rw [e2, setDs_other _ _ hk]) (by simp [Lr, e2])
      (by simp [Lw, Lr, e2]) (by rw [hp, hr] <;> rfl)
    refine mu_lt_of c s _ 0 0 (by rw [e3]; simp) (by omega) ?_
    rcases nextUStage_cases c j with ⟨e', _⟩ | ⟨e', _⟩ <;> simp only [rRank, e1, e', hr] <;> omega
  | uClrFin =>
    have e1 : (stepR c s).rpc = .uSetTD := by simp [stepR, hr]
    have e3 : (stepR c s).ops = s.ops := by simp [stepR, hr]
    have e2 : (stepR c s).ds = s.ds := by simp [stepR, hr]
    refine mu_lt_of c s _ 0 0 (by rw [e3]; simp) (by rw [pot_congr c s (stepR c s) e2 (by rw [e1, hr] <;> rfl)]; omega) ?_
    simp [rRank, e1, hr]
  | uSetTD =>
    have e1 : (stepR c s).rpc = .idle := by simp [stepR, hr]
    have e3 : (stepR c s).ops = s.ops := by simp [stepR, hr]
    have e2 : (stepR c s).ds = s.ds := by simp [stepR, hr]
    refine mu_lt_of c s _ 0 0 (by rw [e3]; simp) (by rw [pot_congr c s (stepR c s) e2 (by rw [e1, hr] <;> rfl)]; omega) ?_
    simp [rRank, e1, hr]
  | sIsSet =>
    have e3 : (stepR c s).ops = s.ops := by simp [stepR, hr]
    have e2 : (stepR c s).ds = s.ds := by simp [stepR, hr]
    by_cases htd : s.td = true
    · have e1 : (stepR c s).rpc = .sWait := by simp [stepR, hr, htd]
      have e4 : (stepR c s).wpc = s.wpc ∧ (stepR c s).wcall = s.wcall := by simp [stepR, hr]
      have hd := pot_drop c s (stepR c s) e2 (by rw [hr]; rfl) (by rw [e1]; rfl)
      have h1 := waitRank_le c (stepR c s)
      have h2 := wRank_le c s h.widx
      rw [wRank_congr c s (stepR c s) e4.1 e4.2 e2] at h1
      unfold mu; rw [e3]
      simp only [rRank, e1, hr]; omega
    · have e1 : (stepR c s).rpc = .sClrTD := by simp [stepR, hr, htd]
      have := pot_unpre c s (stepR c s) (by intro k; simp [Lr, e2]) (by rw [e1]; rfl)
      refine mu_lt_of c s _ 0 0 (by rw [e3]; simp) (by omega) ?_
      simp only [rRank, e1, hr]; omega
  | sWait =>
    have e3 : (stepR c s).ops = s.ops := by simp [stepR, hr]
    have e2 : (stepR c s).ds = s.ds := by simp [stepR, hr]
    by_cases hfin : s.fin = true
    · have e1 : (stepR c s).rpc = .sClrTD := by simp [stepR, hr, hfin]
      refine mu_lt_of c s _ 0 0 (by rw [e3]; simp) (by rw [pot_congr c s (stepR c s) e2 (by rw [e1, hr] <;> rfl)]; omega) ?_
      simp only [rRank, e1, hr]; omega
    · have hfin : s.fin = false := by simpa using hfin
      have hdead : s.wpc = .dead := by
        apply Classical.byContradiction; intro hd
        exact hs ⟨by simp [hr, waiting], hfin, hd⟩
      have hal : c.aliveCheck = true := by
        cases ha : c.aliveCheck
        · simp [State.hung, hr, hfin, hdead, ha] at hh
        · rfl
      have e1 : (stepR c s).rpc = .sAlive := by simp [stepR, hr, hfin, hal]
      have e4 : (stepR c s).fin = false ∧ (stepR c s).wpc = .dead := by simp [stepR, hr, hfin, hdead]
      refine mu_lt_of c s _ 0 0 (by rw [e3]; simp) (by rw [pot_congr c s (stepR c s) e2 (by rw [e1, hr] <;> rfl)]; omega) ?_
      simp [rRank, e1, hr, waitRank, hfin, hdead, e4.1, e4.2]
  | sAlive =>
    have e3 : (stepR c s).ops = s.ops := by simp [stepR, hr]
    have e2 : (stepR c s).ds = s.ds := by simp [stepR, hr]
    by_cases hd : s.wpc = .dead
    · have e1 : (stepR c s).rpc = .raisedT := by simp [stepR, hr, hd]
      have := pot_unpre c s (stepR c s) (by intro k; simp [Lr, e2]) (by rw [e1]; rfl)
      refine mu_lt_of c s _ 0 0 (by rw [e3]; simp) (by omega) ?_
      simp only [rRank, e1, hr]; omega
    · have hfin : s.fin = true := by
        cases hf : s.fin
        · exact absurd ⟨by simp [hr, waiting], hf, hd⟩ hs
        · rfl
      have e1 : (stepR c s).rpc = .sWait := by simp [stepR, hr, hd]
      have e4 : (stepR c s).fin = true := by simp [stepR, hr, hfin]
      refine mu_lt_of c s _ 0 0 (by rw [e3]; simp) (by rw [pot_congr c s (stepR c s) e2 (by rw [e1, hr] <;> rfl)]; omega) ?_
      simp [rRank, e1, hr, waitRank, hfin, e4]
  | sClrTD =>
    have e1 : (stepR c s).rpc = .sClrFin := by simp [stepR, hr]
    have e3 : (stepR c s).ops = s.ops := by simp [stepR, hr]
    have e2 : (stepR c s).ds = s.ds := by simp [stepR, hr]
    refine mu_lt_of c s _ 0 0 (by rw [e3]; simp) (by rw [pot_congr c s (stepR c s) e2 (by rw [e1, hr] <;> rfl)]; omega) ?_
    simp [rRank, e1, hr]
  | sClrFin =>
    have e1 : (stepR c s).rpc = firstS c := by simp [stepR, hr]
    have e3 : (stepR c s).ops = s.ops := by simp [stepR, hr]
    have e2 : (stepR c s).ds = s.ds := by simp [stepR, hr]
    have hp : pre (stepR c s).rpc = false := by
      rw [e1]; rcases firstS_cases c with ⟨e', _⟩ | ⟨e', _⟩ <;> rw [e'] <;> rfl
    refine mu_lt_of c s _ 0 0 (by rw [e3]; simp) (by rw [pot_congr c s (stepR c s) e2 (by rw [hp, hr] <;> rfl)]; omega) ?_
    rcases firstS_cases c with ⟨e', _⟩ | ⟨e', _⟩ <;> simp only [rRank, e1, e', hr] <;> omega
  | sStop j =>
    have hj : j < c.n := h.ridx j (by simp [hr, rIdx])
    have e1 : (stepR c s).rpc = .sStage j := by simp [stepR, hr]
    have e3 : (stepR c s).ops = s.ops := by simp [stepR, hr]
    have e2 : (stepR c s).ds = setDs s.ds j { s.ds j with stopped := true } := by simp [stepR, hr]
    obtain ⟨hl1, hl2⟩ := LrLw_setDs s (stepR c s) j _ e2 rfl rfl rfl
    refine mu_lt_of c s _ 0 0 (by rw [e3]; simp) (by rw [pot_lists c s (stepR c s) hl1 hl2 (by rw [e1, hr] <;> rfl)]; omega) ?_
    simp [rRank, e1, hr]
  | sStage j =>
    have hj : j < c.n := h.ridx j (by simp [hr, rIdx])
    have e1 : (stepR c s).rpc = .sFmtGet j := by simp [stepR, hr]
    have e3 : (stepR c s).ops = s.ops := by simp [stepR, hr]
    have e2 : (stepR c s).ds = setDs s.ds j (s.ds j).stage := by simp [stepR, hr]
    have hw : Lw (stepR c s) j = Lr s j := by simp [Lw, Lr, e2]
    have hpot := pot_stage c s (stepR c s) j hj (fun k hk => by rw [e2, setDs_other _ _ hk]) (by simp [Lr, e2]) hw
      (by rw [e1, hr] <;> rfl)
    simp only [pre, hr, Bool.false_eq_true, if_false] at hpot
    unfold mu; rw [e3]
    simp only [rRank, e1, hr, hw]; omega
  | sFmtGet j =>
    have e1 : (stepR c s).rpc = .sWbufGet j := by simp [stepR, hr]
    have e3 : (stepR c s).ops = s.ops := by simp [stepR, hr]
    have e2 : (stepR c s).ds = s.ds := by simp [stepR, hr]
    have hw : Lw (stepR c s) j = Lw s j := by simp [Lw, e2]
    refine mu_lt_of c s _ 0 0 (by rw [e3]; simp) (by rw [pot_congr c s (stepR c s) e2 (by rw [e1, hr] <;> rfl)]; omega) ?_
    simp only [rRank, e1, hr, hw]; omega
  | sWbufGet j =>
    have e1 : (stepR c s).rpc = .sCall j := by simp [stepR, hr]
    have e3 : (stepR c s).ops = s.ops := by simp [stepR, hr]
    have e2 : (stepR c s).ds = s.ds := by simp [stepR, hr]
    have e4 : (stepR c s).rcall = { f := s.rf, l := (s.ds j).wb, idx := 0, ck := finKind (c.kind j) ((s.ds j).files s.rf), pc := .next0 } := by
      simp [stepR, hr]
    have hw : Lw (stepR c s) j = Lw s j := by simp [Lw, e2]
    have := callRem_start (c.kind j) s.rf (s.ds j).wb (finKind (c.kind j) ((s.ds j).files s.rf)) (Lw s j)
    refine mu_lt_of c s _ 0 0 (by rw [e3]; simp) (by rw [pot_congr c s (stepR c s) e2 (by rw [e1, hr] <;> rfl)]; omega) ?_
    simp only [rRank, e1, hr, hw, e4]; omega
  | sCall j =>
    have hloc := h.rloc
    simp only [RLoc, hr] at hloc
    obtain ⟨hlf, hll, hlok⟩ := hloc
    have hspec := callStep_spec (c.kind j) (c.fault s.ioc) (s.ds j) s.rcall hlok
    have hrem := callStep_rem (c.kind j) (c.fault s.ioc) (s.ds j) s.rcall hlok
    have hL : ((s.ds j).lists s.rcall.l).length = Lw s j := by rw [hll]; rfl
    rw [hL] at hrem
    have e3 : (stepR c s).ops = s.ops := by simp only [stepR, hr]; split <;> rfl
    cases hres : callStep (c.kind j) (c.fault s.ioc) (s.ds j) s.rcall with
    | cont d k' =>
      rw [hres] at hspec hrem
      have e1 : (stepR c s).rpc = .sCall j := by simp [stepR, hr, hres]
      have e2 : (stepR c s).ds = setDs s.ds j d := by simp [stepR, hr, hres]
      have e4 : (stepR c s).rcall = k' := by simp [stepR, hr, hres]
      obtain ⟨hl1, hl2⟩ := LrLw_setDs s (stepR c s) j d e2 hspec.1.lists hspec.1.rb hspec.1.wb
      refine mu_lt_of c s _ 0 0 (by rw [e3]; simp) (Nat.le_of_eq (by rw [pot_lists c s (stepR c s) hl1 hl2 (by rw [e1, hr] <;> rfl)]; rfl)) ?_
      simp only [RemSpec] at hrem
      simp only [rRank, e1, hr, hl2 j, e4]; omega
    | ret d =>
      rw [hres] at hspec hrem
      have e1 : (stepR c s).rpc = .sFdGet j := by simp [stepR, hr, hres]
      have e2 : (stepR c s).ds = setDs s.ds j d := by simp [stepR, hr, hres]
      obtain ⟨hl1, hl2⟩ := LrLw_setDs s (stepR c s) j d e2 hspec.1.lists hspec.1.rb hspec.1.wb
      refine mu_lt_of c s _ 0 0 (by rw [e3]; simp) (by rw [pot_lists c s (stepR c s) hl1 hl2 (by rw [e1, hr] <;> rfl)]; omega) ?_
      simp only [RemSpec] at hrem
      simp only [rRank, e1, hr]; omega
    | exc =>
      have e1 : (stepR c s).rpc = .raisedIO := by simp [stepR, hr, hres]
      have e2 : (stepR c s).ds = s.ds := by simp [stepR, hr, hres]
      have := pot_unpre c s (stepR c s) (by intro k; simp [Lr, e2]) (by rw [e1]; rfl)
      have h0 : 0 < callRem (c.kind j) s.rcall (Lw s j) := callRem_pos _ _ _ hlok
      refine mu_lt_of c s _ 0 0 (by rw [e3]; simp) (by omega) ?_
      simp only [rRank, e1, hr]; omega
  | sFdGet j =>
    have e1 : (stepR c s).rpc = .sFdGet2 j := by simp [stepR, hr]
    have e3 : (stepR c s).ops = s.ops := by simp [stepR, hr]
    have e2 : (stepR c s).ds = s.ds := by simp [stepR, hr]
    refine mu_lt_of c s _ 0 0 (by rw [e3]; simp) (by rw [pot_congr c s (stepR c s) e2 (by rw [e1, hr] <;> rfl)]; omega) ?_
    simp [rRank, e1, hr]
  | sFdGet2 j =>
    have e1 : (stepR c s).rpc = .sClose j := by simp [stepR, hr]
    have e3 : (stepR c s).ops = s.ops := by simp [stepR, hr]
    have e2 : (stepR c s).ds = s.ds := by simp [stepR, hr]
    refine mu_lt_of c s _ 0 0 (by rw [e3]; simp) (by rw [pot_congr c s (stepR c s) e2 (by rw [e1, hr] <;> rfl)]; omega) ?_
    simp [rRank, e1, hr]
  | sClose j =>
    have hj : j < c.n := h.ridx j (by simp [hr, rIdx])
    have e3 : (stepR c s).ops = s.ops := by simp only [stepR, hr]; split <;> rfl
    by_cases hfl : c.fault s.ioc = true
    · have e1 : (stepR c s).rpc = .raisedIO := by simp [stepR, hr, hfl]
      have e2 : (stepR c s).ds = s.ds := by simp [stepR, hr, hfl]
      have := pot_unpre c s (stepR c s) (by intro k; simp [Lr, e2]) (by rw [e1]; rfl)
      refine mu_lt_of c s _ 0 0 (by rw [e3]; simp) (by omega) ?_
      simp only [rRank, e1, hr]; omega
    · have e1 : (stepR c s).rpc = nextS c j := by simp [stepR, hr, hfl]
      have e2 : (stepR c s).ds = setDs s.ds j ((s.ds j).setFile s.rfd { (s.ds j).files s.rfd with closed := true }) := by
        simp [stepR, hr, hfl]
      obtain ⟨hl1, hl2⟩ := LrLw_setDs s (stepR c s) j _ e2 rfl rfl rfl
      have hp : pre (stepR c s).rpc = false := by
        rw [e1]; rcases nextS_cases c j with ⟨e', _⟩ | ⟨e', _⟩ <;> rw [e'] <;> rfl
      refine mu_lt_of c s _ 0 0 (by rw [e3]; simp) (by rw [pot_lists c s (stepR c s) hl1 hl2 (by rw [hp, hr] <;> rfl)]; omega) ?_
      rcases nextS_cases c j with ⟨e', hn⟩ | ⟨e', hn⟩
      · simp only [rRank, e1, e', hr]
        have : c.n - (j + 1) = (c.n - (j + 1 + 1)) + 1 := by omega
        omega
      · simp only [rRank, e1, e', hr]; omega

/-! ### steps of the writer -/

theorem busy_of_spin (h : Inv c all s) (hs : spin s) : busy s = true := by
  obtain ⟨hw, hf, hd⟩ := hs
  have hc := h.compat
  unfold Fine.compat at hc
  rw [waiting_safe _ hw, hw] at hc
  cases hwp : s.wpc <;> simp_all [busy, compatC, wcls, RC.safe?]

theorem pot_le_of_lists (c : Cfg) (s s' : State) (hl : ListsLe s s') (hp : pre s'.rpc = pre s.rpc) :
    pot c s' ≤ pot c s := by
  unfold pot
  rw [hp]
  have h1 : sumFrom (fun k => 8 * Lr s' k) 0 c.n ≤ sumFrom (fun k => 8 * Lr s k) 0 c.n :=
    sumFrom_le _ _ _ _ (fun k _ _ => by have := (hl k).1; omega)
  have h2 := total_mono c s s' hl
  split <;> omega

theorem rRank_le_of_W (s' : State) (hl : ListsLe s s') (hr : s'.rpc = s.rpc) (hrc : s'.rcall = s.rcall)
    (hwt : waiting s.rpc = true → waitRank c s' ≤ waitRank c s) : rRank c s' ≤ rRank c s := by
  unfold rRank
  rw [hr, hrc]
  cases hrp : s.rpc <;> simp only <;> (try exact Nat.le_refl _)
  · have := hwt (by simp [hrp, waiting]); omega
  · have := hwt (by simp [hrp, waiting]); omega
  · rename_i j; have := (hl j).2; omega
  · rename_i j; have := (hl j).2; omega
  · rename_i j
    have := callRem_mono (c.kind j) s.rcall _ _ (hl j).2
    omega

theorem waitRank_le_of_W (h : Inv c all s) (s' : State) (hws : WStep c s s') (hw : waiting s.rpc = true)
    (hdead : s.wpc = .dead → s'.wpc = .dead) : waitRank c s' ≤ waitRank c s := by
  by_cases hf : s.fin = true
  · have hf' := hws.fin hf
    simp [waitRank, hf, hf', hws.rpc]
  · have hf : s.fin = false := by simpa using hf
    by_cases hd : s.wpc = .dead
    · have hd' := hdead hd
      cases hf' : s'.fin
      · simp [waitRank, hf', hf, hd, hd', hws.rpc]
      · simp only [waitRank, hf', hf, hd, hd', hws.rpc, if_true, Bool.false_eq_true, if_false]
        split <;> split <;> omega
    · have hb := busy_of_spin h ⟨hw, hf, hd⟩
      have := hws.rank hb
      have := waitRank_le c s'
      rw [waitRank_spin c s hf hd]; omega

theorem stepW_dead_stays (hd : s.wpc = .dead) : (stepW c s).wpc = .dead := by simp [stepW, hd]

/-- no step of the writer increases the variant function -/
theorem stepW_mu_le (h : Inv c all s) (hno : rcls s.rpc ≠ .raised) : mu c (stepW c s) ≤ mu c s := by
  have hws := stepW_spec h hno
  have h1 := pot_le_of_lists c s _ hws.lists (by rw [hws.rpc])
  have h2 := rRank_le_of_W (c := c) (s := s) _ hws.lists hws.rpc hws.rcall
    (fun hw => waitRank_le_of_W h _ hws hw stepW_dead_stays)
  unfold mu; rw [hws.ops]; omega

/-- while `stop()` goes round its wait loop, every step of the writer strictly decreases it -/
theorem stepW_mu_lt (h : Inv c all s) (hs : spin s) : mu c (stepW c s) < mu c s := by
  have hsafe := waiting_safe _ hs.1
  have hno : rcls s.rpc ≠ .raised := by rw [hsafe]; simp
  have hws := stepW_spec h hno
  have h1 := pot_le_of_lists c s _ hws.lists (by rw [hws.rpc])
  have hb := busy_of_spin h hs
  have h3 := hws.rank hb
  have h4 := waitRank_le c (stepW c s)
  have hw := hs.1
  have e1 : rRank c (stepW c s) = 20 * c.n + 3 + waitRank c (stepW c s) := by
    unfold rRank; rw [hws.rpc]
    cases hr : s.rpc <;> simp [waiting, hr] at hw <;> simp
  have e2 : rRank c s = 20 * c.n + 3 + waitRank c s := by
    unfold rRank
    cases hr : s.rpc <;> simp [waiting, hr] at hw <;> simp
  rw [waitRank_spin c s hs.2.1 hs.2.2] at e2
  unfold mu; rw [hws.ops]; omega

/-! ### rounds of the fair scheduler -/

theorem hung_stepR_mu (hh : s.hung c = true) : mu c (stepR c s) = mu c s := by
  simp only [State.hung, Bool.and_eq_true, beq_iff_eq, Bool.not_eq_true'] at hh
  obtain ⟨⟨⟨h1, h2⟩, h3⟩, h4⟩ := hh
  have e1 : (stepR c s).rpc = .sWait := by simp [stepR, h1, h2, h4]
  have e2 : (stepR c s).ds = s.ds := by simp [stepR, h1, h2, h4]
  have e3 : (stepR c s).ops = s.ops := by simp [stepR, h1, h2, h4]
  have e4 : (stepR c s).fin = false ∧ (stepR c s).wpc = .dead := by simp [stepR, h1, h2, h3, h4]
  unfold mu
  rw [pot_congr c s (stepR c s) e2 (by rw [e1, h1]), e3]
  simp [rRank, e1, h1, waitRank, h2, h3, e4.1, e4.2]

theorem step_mu_le (t : Tid) (h : Inv c all s) : mu c (step c s t) ≤ mu c s := by
  unfold step
  cases ho : s.over
  · simp only [Bool.false_eq_true, if_false]
    cases t
    · by_cases hh : s.hung c = true
      · exact Nat.le_of_eq (hung_stepR_mu hh)
      · by_cases hs : spin s
        · exact Nat.le_of_eq (stepR_spin hs)
        · exact Nat.le_of_lt (stepR_mu_lt h ho hs (by simpa using hh))
    · exact stepW_mu_le h (not_over ho).2.2.2
  · simp

theorem foldl_mu_le (sched : List Tid) : ∀ s, Inv c all s → mu c (sched.foldl (step c) s) ≤ mu c s := by
  induction sched with
  | nil => intro s _; exact Nat.le_refl _
  | cons t ts ih => intro s h; exact Nat.le_trans (ih _ (step_inv s t h)) (step_mu_le t h)

/-- one round `R; W` strictly decreases the variant function unless the session is over or hangs -/
theorem round_mu (h : Inv c all s) (ho : s.over = false) (hh : s.hung c = false) :
    mu c (step c (step c s .R) .W) < mu c s := by
  have e1 : step c s .R = stepR c s := by simp [step, ho]
  rw [e1]
  have h1 := stepR_inv h
  by_cases hs : spin s
  · obtain ⟨f1, f2, f3, f4, f5, f6, f7, f8⟩ := stepR_spin_frame (c := c) hs
    have hs1 : spin (stepR c s) := ⟨f3, by rw [f2]; exact hs.2.1, by rw [f1]; exact hs.2.2⟩
    have ho1 : (stepR c s).over = false := by
      have := waiting_safe _ f3
      cases hr : (stepR c s).rpc <;> simp_all [State.over, rcls]
    have e2 : step c (stepR c s) .W = stepW c (stepR c s) := by simp [step, ho1]
    rw [e2, ← stepR_spin (c := c) hs]
    exact stepW_mu_lt h1 hs1
  · exact Nat.lt_of_le_of_lt (step_mu_le .W h1) (stepR_mu_lt h ho hs hh)

theorem foldl_step_over (l : List Tid) (s : State) (ho : s.over = true) : l.foldl (step c) s = s := by
  induction l with
  | nil => rfl
  | cons t ts ih => simp [List.foldl_cons, step, ho, ih]

theorem mu_zero_over (h0 : mu c s = 0) : s.over = true := by
  unfold mu at h0
  have : rRank c s = 0 := by omega
  unfold rRank at this
  cases hr : s.rpc <;> simp_all [State.over] <;> omega

/-- after `mu` fair rounds the session is over — or the recording thread hangs behind a dead writer -/
theorem rr_terminates : ∀ N s, Inv c all s → mu c s ≤ N →
    ((roundRobin N).foldl (step c) s).over = true ∨ ((roundRobin N).foldl (step c) s).hung c = true := by
  intro N
  induction N with
  | zero =>
    intro s _ hN
    exact Or.inl (by simpa [roundRobin] using mu_zero_over (c := c) (s := s) (by omega))
  | succ N ih =>
    intro s h hN
    by_cases ho : s.over = true
    · rw [foldl_step_over _ s ho]; exact Or.inl ho
    · by_cases hh : s.hung c = true
      · exact Or.inr (hung_forever s _ hh)
      · simp only [roundRobin, List.foldl_cons]
        apply ih
        · exact step_inv _ .W (step_inv s .R h)
        · have := round_mu h (by simpa using ho) (by simpa using hh); omega

theorem sumFrom_const (a : Nat) (m : Nat) : ∀ lo, sumFrom (fun _ => a) lo m = m * a := by
  induction m with
  | zero => intro lo; simp [sumFrom]
  | succ m ih => intro lo; simp [sumFrom, ih, Nat.succ_mul]; omega

theorem mu_init (c : Cfg) (ops : List RecOp) :
    mu c (init c ops) = (11 * c.n + 7) * ops.length + (60 * c.n + 10) := by
  have e1 : (fun k => 8 * Lr (init c ops) k) = fun _ => 0 := by funext k; simp [Lr, init]
  have e2 : dsCost (init c ops) = fun _ => 40 := by funext k; simp [dsCost, Lw, init]
  simp only [mu, rRank, pot, pre, init, if_true]
  have e1' : (fun k => 8 * Lr { ops := ops, nextWrite := c.period, ds := fun i => { nextSub := if c.interval i = 0 then none else some (c.interval i) } } k) = fun _ => 0 := e1
  have e2' : dsCost { ops := ops, nextWrite := c.period, ds := fun i => { nextSub := if c.interval i = 0 then none else some (c.interval i) } } = fun _ => 40 := e2
  rw [e1', e2', sumFrom_const, sumFrom_const]
  omega

end
end Pyrtma.DataLog.Fine
