import Pyrtma.Spec.Validators
/-! Helper lemmas for C09 (core Lean only). -/
namespace Pyrtma.Validators

/-! ### little-endian round trip -/
theorem fromLE_toLE (n u : Nat) : fromLE (toLE n u) = u % 256 ^ n := by
  induction n generalizing u with
  | zero => simp [toLE, fromLE, Nat.mod_one]
  | succ n ih =>
    simp only [toLE, fromLE, ih]
    rw [Nat.pow_succ, Nat.mul_comm (256 ^ n) 256, Nat.mod_mul]

theorem toLE_length (n u : Nat) : (toLE n u).length = n := by
  induction n generalizing u with
  | zero => rfl
  | succ n ih => simp [toLE, ih]

/-- **integers are stored exactly**: what ctypes writes for an in-range int decodes to that int -/
theorem decInt_encInt (k : IK) (n : Int) (hlo : k.lo ≤ n) (hhi : n ≤ k.hi) : decInt k (encInt k n) = n := by
  unfold decInt encInt
  rw [fromLE_toLE]
  cases k <;> simp [IK.size, IK.signed, IK.lo, IK.hi] at hlo hhi ⊢ <;> omega

theorem encInt_length (k : IK) (n : Int) : (encInt k n).length = k.size := by
  simp [encInt, toLE_length]

/-! ### everything validation lets through is storable -/

def storable (vk : VK) (x : Scalar) : Prop := ∃ b, elemStore vk x = .ok b

theorem storeMany_ok (vk : VK) : ∀ (is : List Nat) (xs : List Scalar) (cur : Bytes),
    (∀ x ∈ xs, storable vk x) → (storeMany vk cur is xs).2 = none
  | [], _, _, _ => by simp [storeMany]
  | _ :: _, [], _, _ => by simp [storeMany]
  | i :: is, x :: xs, cur, h => by
    obtain ⟨b, hb⟩ := h x (by simp)
    simp only [storeMany, hb]
    exact storeMany_ok vk is xs _ (fun y hy => h y (by simp [hy]))

theorem intLike_storable_int (k : IK) (x : Scalar) (h : isIntLike x = true) : storable (.int k) x := by
  cases x with
  | int n => exact ⟨_, rfl⟩
  | bool b => exact ⟨_, rfl⟩
  | _ => simp [isIntLike] at h

theorem intLike_storable_byte (x : Scalar) (h : isIntLike x = true) : storable .byte x := by
  cases x with
  | int n => exact ⟨_, rfl⟩
  | bool b => exact ⟨_, rfl⟩
  | _ => simp [isIntLike] at h

theorem intMany_intLike {lo hi : Int} {g : Bool} {xs : List Scalar} (h : intMany lo hi g xs = .ok ()) :
    ∀ x ∈ xs, isIntLike x = true := by
  unfold intMany at h
  split at h
  · simp at h
  · rename_i hany
    intro x hx
    simp only [List.any_eq_true, Bool.not_eq_true', not_exists, not_and, Bool.not_eq_false] at hany
    exact hany x hx

theorem fltMany_storable (k : FK) : ∀ (xs : List Scalar), fltMany k xs = .ok () → ∀ x ∈ xs, storable (.flt k) x
  | [], _ => by simp
  | y :: ys, h => by
    unfold fltMany at h
    split at h
    · simp at h
    · rename_i b hb
      split at h
      · simp at h
      · intro x hx
        simp only [List.mem_cons] at hx
        rcases hx with rfl | hx
        · cases x with
          | flt b' =>
            have e : elemStore (.flt k) (.flt b') = (match toDouble (.flt b') with
              | Except.error e => Except.error e | Except.ok b => Except.ok (encFlt k b)) := rfl
            exact ⟨encFlt k b, by rw [e, hb]⟩
          | int n =>
            have e : elemStore (.flt k) (.int n) = (match toDouble (.int n) with
              | Except.error e => Except.error e | Except.ok b => Except.ok (encFlt k b)) := rfl
            exact ⟨encFlt k b, by rw [e, hb]⟩
          | bool b' =>
            have e : elemStore (.flt k) (.bool b') = (match toDouble (.bool b') with
              | Except.error e => Except.error e | Except.ok b => Except.ok (encFlt k b)) := rfl
            exact ⟨encFlt k b, by rw [e, hb]⟩
          | _ => cases hb
        · exact fltMany_storable k ys h x hx

theorem strctMany_storable (tid sz : Nat) (xs : List Scalar) (h : strctMany tid xs = .ok ()) :
    ∀ x ∈ xs, storable (.strct tid sz) x := by
  unfold strctMany at h
  split at h
  · simp at h
  · rename_i hany
    intro x hx
    simp only [List.any_eq_true, not_exists, not_and] at hany
    have := hany x hx
    cases x with
    | strct t raw =>
      have ht : t = tid := by simpa using this
      subst ht
      exact ⟨raw, by show (if t = t then Except.ok raw else Except.error PyErr.typeError) = _; simp⟩
    | _ => exact absurd this (by simp)

/-! ### Python max / min find a bad element wherever it is -/
theorem pyMax_ge (m : Int) (xs : List Int) : m ≤ pyMax m xs ∧ ∀ x ∈ xs, x ≤ pyMax m xs := by
  induction xs generalizing m with
  | nil => simp [pyMax]
  | cons y ys ih =>
    simp only [pyMax, List.mem_cons]
    have h := ih (if y > m then y else m)
    by_cases hc : y > m
    · simp only [hc, if_true] at h ⊢
      refine ⟨by omega, ?_⟩
      intro x hx
      rcases hx with rfl | hx
      · omega
      · exact h.2 x hx
    · simp only [hc, if_false] at h ⊢
      refine ⟨by omega, ?_⟩
      intro x hx
      rcases hx with rfl | hx
      · omega
      · exact h.2 x hx

theorem pyMin_le (m : Int) (xs : List Int) : pyMin m xs ≤ m ∧ ∀ x ∈ xs, pyMin m xs ≤ x := by
  induction xs generalizing m with
  | nil => simp [pyMin]
  | cons y ys ih =>
    simp only [pyMin, List.mem_cons]
    have h := ih (if y < m then y else m)
    by_cases hc : y < m
    · simp only [hc, if_true] at h ⊢
      refine ⟨by omega, ?_⟩
      intro x hx
      rcases hx with rfl | hx
      · omega
      · exact h.2 x hx
    · simp only [hc, if_false] at h ⊢
      refine ⟨by omega, ?_⟩
      intro x hx
      rcases hx with rfl | hx
      · omega
      · exact h.2 x hx

/-- accepted by `validate_many` ⇒ every element is an int (or bool) inside the range -/
theorem intMany_range {lo hi : Int} {g : Bool} {xs : List Scalar} (h : intMany lo hi g xs = .ok ()) :
    ∀ x ∈ xs, intDom lo hi x = true := by
  have hl := intMany_intLike h
  unfold intMany at h
  split at h; · simp at h
  split at h; · simp at h
  split at h; · simp at h
  rename_i y ys hmap
  split at h; · simp at h
  rename_i hr
  intro x hx
  have hmem : intVal x ∈ y :: ys := by rw [← hmap]; exact List.mem_map_of_mem hx
  have hM := pyMax_ge y ys
  have hm := pyMin_le y ys
  have hb : lo ≤ intVal x ∧ intVal x ≤ hi := by
    simp only [List.mem_cons] at hmem
    rcases hmem with e | e
    · rw [e]; omega
    · have := hM.2 _ e; have := hm.2 _ e; omega
  have := hl x hx
  cases x <;> simp [isIntLike] at this <;> simp [intDom] <;> simpa [intVal] using hb

end Pyrtma.Validators
