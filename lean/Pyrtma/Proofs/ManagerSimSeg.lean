import Pyrtma.Proofs.ManagerSimInfo
import Pyrtma.Proofs.ManagerSimDep
import Pyrtma.Proofs.ManagerOrder
/-!
# Refinement of the history-based Spec by the manager model M1 — part 3: one frame read

The model's handling of one frame (`readOne`: marker, receive buffer, table update, nested activity) against the Spec's
`segment` for the events of exactly that handling — optionally followed by the periodic section of the round (the last
segment of a round holds those events too).
-/
namespace Pyrtma.Mgr

abbrev isAck : Body → Bool := fun b => b == .ack

/-- iteration orders of a Python `set`: every element exactly once -/
def OrdPerm (cfg : Cfg) : Prop := ∀ l : List Nat, (cfg.order l).Perm l

/-! ## acknowledgements: the Spec's view of the events against `dataSends` -/

theorem ackSends_map (evs : List Ev) :
    (Spec.ackSends evs).map (fun p => (p.1, p.2.2)) = dataSends isAck evs := by
  unfold Spec.ackSends Spec.sends dataSends
  induction evs with
  | nil => rfl
  | cons e rest ih =>
    cases e with
    | send u c f =>
      simp only [List.filterMap_cons]
      by_cases hb : (f.body == Body.ack) = true
      · simp only [List.filter_cons, hb, if_true, List.map_cons, isAck, ih]
      · have hb' : (f.body == Body.ack) = false := by simpa using hb
        simp only [List.filter_cons, hb', Bool.false_eq_true, if_false, isAck, ih]
    | _ => simpa [List.filterMap_cons] using ih

theorem ackTo_eq (evs : List Ev) (v : Nat) :
    Spec.ackTo evs v = ((dataSends isAck evs).filter (·.1 == v)).length := by
  unfold Spec.ackTo
  rw [← ackSends_map, List.filter_map, List.length_map]
  rfl

theorem ackSends_nil (evs : List Ev) (h : dataSends isAck evs = []) : Spec.ackSends evs = [] := by
  have := ackSends_map evs
  rw [h] at this
  exact List.map_eq_nil_iff.mp this

theorem ackSends_frames (evs : List Ev) (P : Frame → Prop) (h : ∀ p ∈ dataSends isAck evs, P p.2) :
    ∀ p ∈ Spec.ackSends evs, P p.2.2 := by
  intro p hp
  have : (p.1, p.2.2) ∈ dataSends isAck evs := by
    rw [← ackSends_map]; exact List.mem_map.mpr ⟨p, hp, rfl⟩
  exact h (p.1, p.2.2) this

theorem sends_filter_map (B : Body → Bool) (evs : List Ev) :
    ((Spec.sends evs).filter (fun p => B p.2.2.body)).map (fun p => (p.1, p.2.2)) = dataSends B evs := by
  unfold Spec.sends dataSends
  induction evs with
  | nil => rfl
  | cons e rest ih =>
    cases e with
    | send u c f =>
      simp only [List.filterMap_cons]
      by_cases hb : B f.body = true
      · simp only [List.filter_cons, hb, if_true, List.map_cons, ih]
      · have hb' : B f.body = false := by simpa using hb
        simp only [List.filter_cons, hb', Bool.false_eq_true, if_false, ih]
    | _ => simpa [List.filterMap_cons] using ih

/-- the `B`-frames of an extension of the log -/
theorem dataSends_ext {B : Body → Bool} {s s' : State} {ext : List Ev} (he : s'.out = s.out ++ ext) :
    dataSends B s'.out = dataSends B s.out ++ dataSends B ext := by rw [he, dataSends_append]

theorem quiet_ext {B : Body → Bool} {s s' : State} {ext : List Ev} (he : s'.out = s.out ++ ext) (hq : Quiet B s s') :
    dataSends B ext = [] := by
  unfold Quiet at hq
  rw [dataSends_ext he] at hq
  exact List.append_right_eq_self.mp hq

/-! ## operations that write no ACKNOWLEDGE -/

theorem qa_fwd (cfg : Cfg) (s : State) (g : Frame) (hg : g.body ≠ .ack) : Quiet isAck s (fwdTop cfg s g) :=
  (fwdTop_ok cfg (tag_ack cfg) s g (by simpa [isAck] using hg)).2

theorem qa_log (cfg : Cfg) (lvl : Nat) (s : State) : Quiet isAck s (logAt cfg (fwdTop cfg) lvl s) :=
  (logAt_ok cfg (tag_ack cfg) (fwdTop_ok cfg (tag_ack cfg)) lvl s).2

theorem qa_remove (cfg : Cfg) (s : State) (u : Nat) : Quiet isAck s (removeModule cfg (fwdTop cfg) s u) :=
  removeModule_quiet cfg (tag_ack cfg) (fwdTop_ok cfg (tag_ack cfg)) s u

theorem qa_info (cfg : Cfg) (s : State) (m : Module) : Quiet isAck s (infoOf cfg s m) := by
  unfold infoOf
  exact (qa_log cfg 10 s).trans (qa_fwd cfg _ _ (by simp [infoFrame, mgrFrame]))

theorem qa_sendInfo (cfg : Cfg) (s : State) (u : Nat) : Quiet isAck s (sendInfo cfg s u) := by
  unfold sendInfo
  cases s.find u with
  | none => exact Quiet.refl _ s
  | some m => exact qa_info cfg s m

theorem qa_clashLoop (cfg : Cfg) (me : Module) : ∀ (os : List Module) (s : State), Quiet isAck s (clashLoop cfg me os s).1
  | [], s => Quiet.refl _ s
  | o :: rest, s => by
    unfold clashLoop
    split
    · exact Quiet.refl _ s
    · refine Quiet.trans ?_ (qa_clashLoop cfg me rest _)
      split
      · exact Quiet.refl _ s
      · exact qa_log cfg 10 s

theorem qa_foldl_fwd (cfg : Cfg) : ∀ (fs : List Frame) (s : State), (∀ f ∈ fs, f.body ≠ .ack) →
    Quiet isAck s (fs.foldl (fwdTop cfg) s)
  | [], s, _ => Quiet.refl _ s
  | f :: rest, s, h =>
    (qa_fwd cfg s f (h f (by simp))).trans (qa_foldl_fwd cfg rest _ (fun g hg => h g (by simp [hg])))

theorem qa_infoAll (cfg : Cfg) : ∀ (ms : List Module) (s : State), Quiet isAck s (infoAll cfg ms s)
  | [], s => Quiet.refl _ s
  | m :: rest, s => by unfold infoAll; exact (qa_info cfg s _).trans (qa_infoAll cfg rest _)

theorem qa_same {s s' : State} (ho : s'.out = s.out) : Quiet isAck s s' := by unfold Quiet; rw [ho]

theorem qa_ticks (cfg : Cfg) (s : State) : Quiet isAck s (ticks cfg s) := by
  unfold ticks
  have h1 : Quiet isAck s (if cfg.timing && s.now - s.tTiming > cfg.pTiming then { sendTiming cfg s with tTiming := s.now } else s) := by
    split
    · unfold sendTiming
      exact ((qa_same (s' := { s with counts := [], inTraffic := true }) rfl).trans
        (qa_fwd cfg _ _ (by simp [mgrFrame]))).trans (qa_same rfl)
    · exact Quiet.refl _ s
  generalize (if cfg.timing && s.now - s.tTiming > cfg.pTiming then { sendTiming cfg s with tTiming := s.now } else s) = s1 at h1
  dsimp only
  have h2 : Quiet isAck s1 (if s1.now - s1.tTraffic > cfg.pTraffic then sendTraffic cfg s1 else s1) := by
    split
    · unfold sendTraffic
      refine (((qa_same (s' := { s1 with inTraffic := true }) rfl).trans (qa_log cfg 10 _)).trans
        (qa_foldl_fwd cfg _ _ ?_)).trans (qa_same rfl)
      intro f hf
      unfold trafficFrames at hf
      obtain ⟨p, _, rfl⟩ := List.mem_map.mp hf
      simp [mgrFrame, trafficBody]
    · exact Quiet.refl _ s1
  generalize (if s1.now - s1.tTraffic > cfg.pTraffic then sendTraffic cfg s1 else s1) = s2 at h2
  refine (h1.trans h2).trans ?_
  split
  · unfold sendActive
    exact (((qa_log cfg 10 s2).trans (qa_infoAll cfg _ _)).trans (qa_fwd cfg _ _ (by simp [mgrFrame]))).trans (qa_same rfl)
  · exact Quiet.refl _ s2

theorem qa_accept (cfg : Cfg) (s : State) : Quiet isAck s (acceptStep cfg s) := by
  unfold acceptStep
  exact (qa_log cfg 20 s).trans (qa_same rfl)

/-! ## `send_ack`: who gets an ACKNOWLEDGE -/

theorem canTake_of_pres {s s' : State} (h : Pres s s') (v : Nat) : canTake s' v = canTake s v := by
  unfold canTake
  rw [failOf_congr h.fail]
  cases hfo : failOf s v with
  | some x => cases s'.find v <;> cases s.find v <;> simp
  | none =>
    have hk := h.keep v hfo
    cases h1 : s'.find v <;> cases h2 : s.find v <;> simp [h1, h2] at hk ⊢
    obtain ⟨hc, _, _, _⟩ := core_fields hk
    simp [hc]

theorem toLoggers_sends (cfg : Cfg) {B} (hB : Tag cfg B) (f : Frame) : ∀ (ls : List Nat) (s : State),
    Pres s (toLoggers cfg f ls s) ∧
    dataSends B (toLoggers cfg f ls s).out =
      dataSends B s.out ++ (if B f.body = true then (ls.filter (canTake s)).map (fun u => (u, f)) else [])
  | [], s => ⟨Pres.refl s, by simp [toLoggers]⟩
  | u :: rest, s => by
    unfold toLoggers
    have hstep : Pres s (loggerOne cfg f s u) ∧ dataSends B (loggerOne cfg f s u).out =
          dataSends B s.out ++ (if canTake s u = true ∧ B f.body = true then [(u, f)] else []) := by
      unfold loggerOne
      cases hfind : s.find u with
      | none => simp [canTake, hfind]; exact Pres.refl s
      | some m => exact trySend_ok cfg hB (fwdTop_ok cfg hB) s u f
    obtain ⟨hp, hd⟩ := hstep
    have ih := toLoggers_sends cfg hB f rest (loggerOne cfg f s u)
    refine ⟨hp.trans ih.1, ?_⟩
    rw [ih.2, hd, List.filter_cons]
    have he : rest.filter (canTake (loggerOne cfg f s u)) = rest.filter (canTake s) := by
      congr 1; funext v; exact canTake_of_pres hp v
    rw [he]
    by_cases hb : B f.body = true <;> by_cases hc : canTake s u = true <;> simp [hb, hc]

/-- the ACKNOWLEDGE frames `send_ack` writes: one to the sender if its connection can take it, then one to every member
    of the logger set (as it is after that write) whose connection can take it -/
theorem sendAck_sends (cfg : Cfg) (s : State) (u : Nat) (m : Module) (hm : s.find u = some m) :
    dataSends isAck (sendAck cfg s u).out =
      dataSends isAck s.out ++ (if canTake s u = true then [(u, ackFrame cfg m.modId)] else []) ++
        (((cfg.order (trySend cfg (fwdTop cfg) s u (ackFrame cfg m.modId)).loggers).filter (canTake s)).map
          (fun l => (l, ackFrame cfg m.modId))) := by
  unfold sendAck
  simp only [hm]
  have h1 := trySend_ok cfg (tag_ack cfg) (fwdTop_ok cfg (tag_ack cfg)) s u (ackFrame cfg m.modId)
  have h2 := toLoggers_sends cfg (tag_ack cfg) (ackFrame cfg m.modId)
    (cfg.order (trySend cfg (fwdTop cfg) s u (ackFrame cfg m.modId)).loggers)
    (trySend cfg (fwdTop cfg) s u (ackFrame cfg m.modId))
  rw [h2.2, h1.2]
  have he : (cfg.order (trySend cfg (fwdTop cfg) s u (ackFrame cfg m.modId)).loggers).filter
      (canTake (trySend cfg (fwdTop cfg) s u (ackFrame cfg m.modId))) =
      (cfg.order (trySend cfg (fwdTop cfg) s u (ackFrame cfg m.modId)).loggers).filter (canTake s) := by
    congr 1; funext v; exact canTake_of_pres h1.1 v
  rw [he]
  have hb : (fun b => b == Body.ack) (ackFrame cfg m.modId).body = true := rfl
  simp [hb]

theorem sendAck_none (cfg : Cfg) (s : State) (u : Nat) (hm : s.find u = none) : sendAck cfg s u = s := by
  unfold sendAck; simp [hm]


theorem nodup_count_eq : ∀ (l : List Nat) (v : Nat), l.Nodup → (l.filter (· == v)).length = if v ∈ l then 1 else 0
  | [], _, _ => rfl
  | x :: rest, v, h => by
    have hn := List.nodup_cons.mp h
    have ih := nodup_count_eq rest v hn.2
    by_cases hx : x = v
    · subst hx
      have : x ∉ rest := hn.1
      simp [ih, this]
    · have hx' : (x == v) = false := by simpa using hx
      have : (v ∈ x :: rest) ↔ v ∈ rest := by
        rw [List.mem_cons]; exact ⟨fun h => h.resolve_left (fun e => hx e.symm), Or.inr⟩
      simp only [List.filter_cons, hx', Bool.false_eq_true, if_false, ih, this]

/-- how many ACKNOWLEDGE frames `send_ack` writes to connection `v` -/
theorem sendAck_count (cfg : Cfg) (hperm : OrdPerm cfg) (s : State) (hnd : s.loggers.Nodup) (u : Nat) (m : Module)
    (hm : s.find u = some m) (ext : List Ev) (he : (sendAck cfg s u).out = s.out ++ ext) (v : Nat) :
    ((dataSends isAck ext).filter (·.1 == v)).length =
      (if canTake s u = true ∧ u = v then 1 else 0) +
      (if v ∈ (trySend cfg (fwdTop cfg) s u (ackFrame cfg m.modId)).loggers ∧ canTake s v = true then 1 else 0) := by
  have h := sendAck_sends cfg s u m hm
  rw [dataSends_ext he, List.append_assoc] at h
  have h' := List.append_cancel_left h
  rw [h', List.filter_append, List.length_append]
  congr 1
  · by_cases hc : canTake s u = true
    · by_cases huv : u = v
      · subst huv; simp [hc]
      · have : (u == v) = false := by simpa using huv
        simp [hc, huv, this]
    · simp [hc]
  · generalize hL : (trySend cfg (fwdTop cfg) s u (ackFrame cfg m.modId)).loggers = L
    have hLn : L.Nodup := by
      rw [← hL]; exact (trySend_nest (fwdTop_nest cfg) s u _).logSub.nodup hnd
    have hon : ((cfg.order L).filter (canTake s)).Nodup := ((hperm L).nodup_iff.mpr hLn).filter _
    rw [List.filter_map, List.length_map]
    have : (List.filter ((fun x => x.1 == v) ∘ fun l => (l, ackFrame cfg m.modId)) ((cfg.order L).filter (canTake s))) =
        ((cfg.order L).filter (canTake s)).filter (· == v) := by
      congr 1
    rw [this, nodup_count_eq _ v hon]
    have hiff : v ∈ (cfg.order L).filter (canTake s) ↔ v ∈ L ∧ canTake s v = true := by
      rw [List.mem_filter, (hperm L).mem_iff]
    by_cases hv : v ∈ L ∧ canTake s v = true
    · rw [if_pos hv, if_pos (hiff.mpr hv)]
    · rw [if_neg hv, if_neg (fun h => hv (hiff.mp h))]

theorem sendAck_frames (cfg : Cfg) (s : State) (u : Nat) (m : Module) (hm : s.find u = some m) (ext : List Ev)
    (he : (sendAck cfg s u).out = s.out ++ ext) : ∀ p ∈ dataSends isAck ext, p.2 = ackFrame cfg m.modId := by
  have h := sendAck_sends cfg s u m hm
  rw [dataSends_ext he, List.append_assoc] at h
  have h' := List.append_cancel_left h
  rw [h']
  intro p hp
  rcases List.mem_append.mp hp with h1 | h1
  · split at h1
    · simp at h1; rw [h1]
    · cases h1
  · obtain ⟨l, _, rfl⟩ := List.mem_map.mp h1; rfl


/-- what `send_ack` at a state with the logger-set invariants writes, per connection -/
theorem sendAck_facts (cfg : Cfg) (hperm : OrdPerm cfg) {a : Spec.A} {s : State} (hs : SimM cfg a s) (ao : AllOpen s)
    (u : Nat) (m : Module) (hm : s.find u = some m) (ext : List Ev) (he : (sendAck cfg s u).out = s.out ++ ext) :
    (failOf s u = none → ((dataSends isAck ext).filter (·.1 == u)).length = 1 + (if m.isLogger then 1 else 0)) ∧
    (∀ l, l ≠ u → ((dataSends isAck ext).filter (·.1 == l)).length ≤ 1) ∧
    (∀ l ml, l ≠ u → failOf s l = none → s.find l = some ml → ml.isLogger = true →
      ((dataSends isAck ext).filter (·.1 == l)).length = 1) ∧
    (∀ l, l ≠ u → 0 < ((dataSends isAck ext).filter (·.1 == l)).length →
      ∃ ml, s.find l = some ml ∧ ml.isLogger = true) := by
  have hcount := sendAck_count cfg hperm s hs.logNodup u m hm ext he
  have hp := (trySend_ok cfg (tag_ack cfg) (fwdTop_ok cfg (tag_ack cfg)) s u (ackFrame cfg m.modId)).1
  have hn := trySend_nest (cfg := cfg) (fwdTop_nest cfg) s u (ackFrame cfg m.modId)
  -- a module that is in the table and does not fail is still open after the write to `u`
  have stays : ∀ v mv, s.find v = some mv → failOf s v = none →
      openIn (trySend cfg (fwdTop cfg) s u (ackFrame cfg m.modId)) v := by
    intro v mv hv hf
    have hk := hp.keep v hf
    rw [hv] at hk
    cases h' : (trySend cfg (fwdTop cfg) s u (ackFrame cfg m.modId)).find v with
    | none => simp [h'] at hk
    | some m' =>
      simp only [h', Option.map_some, Option.some.injEq] at hk
      exact ⟨m', h', by rw [core_closed hk]; exact ao v mv hv⟩
  have can : ∀ v mv, s.find v = some mv → failOf s v = none → canTake s v = true := by
    intro v mv hv hf; unfold canTake; simp [hv, ao v mv hv, hf]
  refine ⟨fun hf => ?_, fun l hl => ?_, fun l ml hl hf hml hlg => ?_, fun l hl hpos => ?_⟩
  · rw [hcount u]
    have hc := can u m hm hf
    by_cases hlg : m.isLogger = true
    · have : u ∈ (trySend cfg (fwdTop cfg) s u (ackFrame cfg m.modId)).loggers :=
        hn.logKeep u (hs.logIn u m hm hlg) (stays u m hm hf)
      simp [hc, hlg, this]
    · have : u ∉ (trySend cfg (fwdTop cfg) s u (ackFrame cfg m.modId)).loggers :=
        fun h => hlg (hs.logOut u m (hn.logSub.subset h) hm)
      simp [hc, hlg, this]
  · rw [hcount l]
    have : ¬(canTake s u = true ∧ u = l) := fun h => hl h.2.symm
    rw [if_neg this]; split <;> omega
  · rw [hcount l]
    have h1 : ¬(canTake s u = true ∧ u = l) := fun h => hl h.2.symm
    have h2 : l ∈ (trySend cfg (fwdTop cfg) s u (ackFrame cfg m.modId)).loggers :=
      hn.logKeep l (hs.logIn l ml hml hlg) (stays l ml hml hf)
    rw [if_neg h1, if_pos ⟨h2, can l ml hml hf⟩]
  · rw [hcount l] at hpos
    have h1 : ¬(canTake s u = true ∧ u = l) := fun h => hl h.2.symm
    rw [if_neg h1] at hpos
    split at hpos
    · rename_i h2
      have hc := h2.2
      unfold canTake at hc
      cases hml : s.find l with
      | none => simp [hml] at hc
      | some ml => exact ⟨ml, rfl, hs.logOut l ml (hn.logSub.subset h2.1) hml⟩
    · omega

/-- **`checkAcks` passes on what `send_ack` does.**  `x` is the abstract state the check is evaluated on, `s` the model
state in which `send_ack` for the frame from `u` runs; the events `evs` of the segment hold no ACKNOWLEDGE outside the
stretch `ext` written by that call. -/
theorem checkAcks_sendAck (cfg : Cfg) (hperm : OrdPerm cfg) {x b : Spec.A} {s : State} (hs : SimM cfg b s) (ao : AllOpen s)
    (u : Nat) (xu : Spec.AMod) (hxu : x.get u = some xu) (hfail : x.fail = s.fail)
    (hu : ∀ mL, s.find u = some mL → mL.modId = xu.modId ∧ mL.isLogger = xu.isLogger)
    (hsurvU : failOf s u = none → (s.find u).isSome)
    (hsurv : ∀ l ∈ x.mods, l.uid ≠ u → l.alive = true → l.isLogger = true → l.connected = true → failOf s l.uid = none →
      ∃ ml, s.find l.uid = some ml ∧ ml.isLogger = true)
    (hflags : ∀ l ∈ x.mods, l.uid ≠ u → l.alive = true → ∀ ml, s.find l.uid = some ml → ml.isLogger = true →
      l.isLogger = true ∧ l.connected = true)
    (ext evs : List Ev) (he : (sendAck cfg s u).out = s.out ++ ext) (hevs : dataSends isAck evs = dataSends isAck ext) :
    Spec.checkAcks cfg x u true evs = x := by
  have hto : ∀ v, Spec.ackTo evs v = ((dataSends isAck ext).filter (·.1 == v)).length := by
    intro v; rw [ackTo_eq, hevs]
  cases hm : s.find u with
  | none =>
    -- nothing is acknowledged: the sender was dropped before
    have hext : ext = [] := by
      rw [sendAck_none cfg s u hm] at he
      exact (List.append_right_eq_self.mp he.symm)
    have hnil : dataSends isAck evs = [] := by rw [hevs, hext]; rfl
    have hzero : ∀ v, Spec.ackTo evs v = 0 := by intro v; rw [hto, hext]; rfl
    have hfu : x.failing u = true := by
      cases hx : x.failing u with
      | true => rfl
      | false =>
        have := hsurvU ((failing_iff hfail u).mp hx)
        rw [hm] at this; cases this
    refine Spec.checkAcks_true_ok cfg x u xu evs hxu ?_ ?_ ?_
    · rw [ackSends_nil evs hnil]; intro p hp; cases hp
    · intro h; rw [hfu] at h; cases h
    · intro l hl hlu hal
      split
      · intro _; rw [hzero]; simp
      · exact hzero _
  | some m =>
    obtain ⟨f1, f2, f3, f4⟩ := sendAck_facts cfg hperm hs ao u m hm ext he
    obtain ⟨hmid, hmlg⟩ := hu m hm
    refine Spec.checkAcks_true_ok cfg x u xu evs hxu ?_ ?_ ?_
    · apply ackSends_frames evs (fun f => f.dest = xu.modId ∧ f.src = 0)
      intro p hp
      rw [hevs] at hp
      rw [sendAck_frames cfg s u m hm ext he p hp, ← hmid]
      exact ⟨rfl, rfl⟩
    · intro hx
      rw [hto, f1 ((failing_iff hfail u).mp hx), hmlg]
    · intro l hl hlu hal
      split
      · rename_i hlc
        have hlc' : l.isLogger = true ∧ l.connected = true := by simpa using hlc
        intro hfl
        obtain ⟨ml, hml, hmlg'⟩ := hsurv l hl hlu hal hlc'.1 hlc'.2 ((failing_iff hfail l.uid).mp hfl)
        have := f3 l.uid ml hlu ((failing_iff hfail l.uid).mp hfl) hml hmlg'
        rw [hto, this]; split <;> simp
      · rename_i hlc
        rw [hto]
        cases hz : ((dataSends isAck ext).filter (·.1 == l.uid)).length with
        | zero => rfl
        | succ k =>
          obtain ⟨ml, hml, hmlg'⟩ := f4 l.uid hlu (by omega)
          have := hflags l hl hlu hal ml hml hmlg'
          exact absurd (by simp [this.1, this.2]) hlc


/-! ## table updates that keep the simulation -/

/-- a change of model fields the relation does not read -/
theorem sim_same {cfg : Cfg} {a : Spec.A} {s s' : State} (hs : SimM cfg a s) (hm : s'.mods = s.mods)
    (hi : s'.idx = s.idx) (hl : s'.loggers = s.loggers) (hn : s'.nextUid = s.nextUid) (hf : s'.fail = s.fail) (hb : s'.buf = s.buf)
    (hw : s'.wlist = s.wlist) (hd : s'.nextDyn = s.nextDyn := by rfl) : SimM cfg a s' := by
  have hfind : ∀ u, s'.find u = s.find u := fun u => by unfold State.find; rw [hm]
  exact ⟨hs.uids, by rw [hn]; exact hs.nacc, by rw [hf]; exact hs.fail, by rw [hb]; exact hs.buf,
    fun u hu => by rw [hfind]; exact hs.live u hu, fun u am m h1 h2 => hs.mods u am m h1 (by rw [← hfind]; exact h2),
    fun u h => by rw [hw]; exact hs.w u h, fun u m h1 h2 => by rw [hl]; exact hs.logIn u m (by rw [← hfind]; exact h1) h2,
    fun u m h1 h2 => hs.logOut u m (by rw [← hl]; exact h1) (by rw [← hfind]; exact h2),
    fun u m h1 h2 => hs.logConn u m (by rw [← hfind]; exact h1) h2, by rw [hl]; exact hs.logNodup,
    by rw [hl, hn]; exact hs.logBound,
    fun u m t h1 h2 => by rw [hi]; exact hs.idxIn u m t (by rw [← hfind]; exact h1) h2, by rw [hi]; exact hs.idxPos,
    minvOn_same hs.minv hm hd⟩

/-- an error extension (and any change of the statistics fields) of the abstract state -/
theorem sim_coreExt {cfg : Cfg} {T : List String} {a a' : Spec.A} {s : State} (hs : SimM cfg a s) (h : Spec.CoreExt T a a') :
    SimM cfg a' s := by
  have hget : ∀ u, a'.get u = a.get u := fun u => by unfold Spec.A.get; rw [h.mods]
  have hlive : ∀ u, a'.live u = a.live u := fun u => by unfold Spec.A.live; rw [hget]
  exact ⟨by rw [h.mods, h.nAccepted]; exact hs.uids, by rw [h.nAccepted]; exact hs.nacc, by rw [h.fail]; exact hs.fail,
    by rw [h.buf]; exact hs.buf, fun u hu => by rw [hlive]; exact hs.live u hu,
    fun u am m h1 h2 => hs.mods u am m (by rw [← hlive]; exact h1) h2,
    fun u hl => by rw [h.w]; exact hs.w u (by rw [← hlive]; exact hl), hs.logIn, hs.logOut, hs.logConn, hs.logNodup, hs.logBound, hs.idxIn, hs.idxPos,
    hs.minv⟩

/-- the receive buffer is written on both sides -/
theorem sim_buf {cfg : Cfg} {a : Spec.A} {s : State} (hs : SimM cfg a s) (b : List Nat) :
    SimM cfg { a with buf := b } { s with buf := b } :=
  ⟨hs.uids, hs.nacc, hs.fail, rfl, hs.live, hs.mods, hs.w, hs.logIn, hs.logOut, hs.logConn, hs.logNodup, hs.logBound, hs.idxIn, hs.idxPos,
   minvOn_same hs.minv rfl rfl⟩

theorem live_upd (a : Spec.A) (u v : Nat) (f : Spec.AMod → Spec.AMod) (hf : ∀ m, (f m).uid = m.uid)
    (ha : ∀ m, (f m).alive = m.alive) :
    (a.upd u f).live v = (a.live v).map (fun m => if m.uid == u then f m else m) := by
  unfold Spec.A.live
  rw [Spec.get_upd a u v f hf]
  cases a.get v with
  | none => rfl
  | some m =>
    simp only [Option.map_some]
    have : (if m.uid == u then f m else m).alive = m.alive := by split <;> simp [ha]
    rw [this]
    split <;> rfl

/-- the same field update on the abstract entry and on the module record of connection `u` (flags that decide
    membership of the logger set untouched); the new model state is described through `find` -/
theorem sim_upd_find {cfg : Cfg} {a : Spec.A} {s s' : State} (hs : SimM cfg a s) (u : Nat)
    (fa : Spec.AMod → Spec.AMod) (fm : Module → Module)
    (hfa : ∀ m, (fa m).uid = m.uid) (haa : ∀ m, (fa m).alive = m.alive)
    (hfind : ∀ v, s'.find v = (s.find v).map (fun m => if m.uid == u then fm m else m))
    (hl : s'.loggers = s.loggers) (hn : s'.nextUid = s.nextUid) (hf : s'.fail = s.fail) (hb : s'.buf = s.buf)
    (hw : s'.wlist = s.wlist)
    (hidx : ∀ v m t, s'.find v = some m → t ∈ m.subs → v ∈ idxGet s'.idx t) (hpos : ∀ t v, v ∈ idxGet s'.idx t → v ≠ 0)
    (hminv : MInvOn (fun _ => True) cfg s')
    (hrel : ∀ am m, a.live u = some am → s.find u = some m → SimMod cfg am m → SimMod cfg (fa am) (fm m))
    (hlg : ∀ m, (fm m).isLogger = m.isLogger) (hcn : ∀ m, (fm m).connected = m.connected) :
    SimM cfg (a.upd u fa) s' := by
  have hlive := fun v => live_upd a u v fa hfa haa
  refine ⟨by rw [Spec.uids_upd a u fa hfa]; exact hs.uids, by rw [hn]; exact hs.nacc, by rw [hf]; exact hs.fail,
    by rw [hb]; exact hs.buf, fun v hv => ?_, fun v am m h1 h2 => ?_,
    fun v hl' => ?_, fun v m h1 h2 => ?_, fun v m h1 h2 => ?_, fun v m h1 h2 => ?_, by rw [hl]; exact hs.logNodup,
    by rw [hl, hn]; exact hs.logBound, hidx, hpos, hminv⟩
  · rw [hlive, hfind, Option.isSome_map, Option.isSome_map]; exact hs.live v hv
  · rw [hlive] at h1; rw [hfind] at h2
    cases ha : a.live v with
    | none => simp [ha] at h1
    | some am0 =>
      cases hm : s.find v with
      | none => simp [hm] at h2
      | some m0 =>
        simp only [ha, hm, Option.map_some, Option.some.injEq] at h1 h2
        have hr := hs.mods v am0 m0 ha hm
        have hu1 : am0.uid = v := Spec.get_uid (Spec.live_some.mp ha).1
        have hu2 : m0.uid = v := find_uid hm
        subst h1; subst h2
        rw [hu1, hu2]
        split
        · rename_i hvu
          have hvu' : v = u := by simpa using hvu
          subst hvu'
          exact hrel _ _ ha hm hr
        · exact hr
  · rw [hlive, Option.isSome_map] at hl'; rw [hw]; exact hs.w v hl'
  · rw [hfind] at h1
    cases hm : s.find v with
    | none => simp [hm] at h1
    | some m0 =>
      simp only [hm, Option.map_some, Option.some.injEq] at h1
      subst h1
      rw [hl]
      refine hs.logIn v m0 hm ?_
      split at h2
      · rw [← hlg]; exact h2
      · exact h2
  · rw [hfind] at h2
    cases hm : s.find v with
    | none => simp [hm] at h2
    | some m0 =>
      simp only [hm, Option.map_some, Option.some.injEq] at h2
      subst h2
      rw [hl] at h1
      have := hs.logOut v m0 h1 hm
      split
      · rw [hlg]; exact this
      · exact this
  · rw [hfind] at h1
    cases hm : s.find v with
    | none => simp [hm] at h1
    | some m0 =>
      simp only [hm, Option.map_some, Option.some.injEq] at h1
      subst h1
      by_cases hc : (m0.uid == u) = true
      · simp only [hc, if_true] at h2 ⊢
        rw [hcn]; exact hs.logConn v m0 hm (by rw [← hlg]; exact h2)
      · simp only [hc, Bool.false_eq_true, if_false] at h2 ⊢
        exact hs.logConn v m0 hm h2


theorem sim_upd {cfg : Cfg} {a : Spec.A} {s : State} (hs : SimM cfg a s) (u : Nat)
    (fa : Spec.AMod → Spec.AMod) (fm : Module → Module)
    (hfa : ∀ m, (fa m).uid = m.uid) (haa : ∀ m, (fa m).alive = m.alive) (hfm : ∀ m, (fm m).uid = m.uid)
    (hrel : ∀ am m, a.live u = some am → s.find u = some m → SimMod cfg am m → SimMod cfg (fa am) (fm m))
    (hlg : ∀ m, (fm m).isLogger = m.isLogger) (hcn : ∀ m, (fm m).connected = m.connected)
    (hsb : ∀ m, (fm m).subs = m.subs) (hu0 : u ≠ 0) (hmid : ∀ m, (fm m).modId = m.modId) :
    SimM cfg (a.upd u fa) (s.upd u fm) := by
  have hmi : MInvOn (fun _ => True) cfg (s.upd u fm) := by
    have h1 := minv_find (fm := fm) hs.minv hu0 (uids_upd s u fm hfm) (fun v => find_upd s u v fm hfm) rfl
    refine minv_close h1 (fun m' hm' hc => ?_)
    rw [find_upd s u u fm hfm] at hm'
    cases h0 : s.find u with
    | none => simp [h0] at hm'
    | some x =>
      simp only [h0, Option.map_some, Option.some.injEq] at hm'
      subst hm'
      split at hc <;> rename_i hx
      · simp only [hx, if_true]; rw [hmid]; exact hs.minv.unconn u x trivial h0 (by rw [← hcn]; exact hc)
      · simp only [hx, Bool.false_eq_true, if_false]; exact hs.minv.unconn u x trivial h0 hc
  refine sim_upd_find hs u fa fm hfa haa (fun v => find_upd s u v fm hfm) rfl rfl rfl rfl rfl ?_ hs.idxPos hmi hrel hlg hcn
  intro v m' t hm' ht
  rw [find_upd s u v fm hfm] at hm'
  cases hm0 : s.find v with
  | none => simp [hm0] at hm'
  | some m0 =>
    simp only [hm0, Option.map_some, Option.some.injEq] at hm'
    refine hs.idxIn v m0 t hm0 ?_
    subst hm'
    split at ht
    · rw [hsb] at ht; exact ht
    · exact ht

/-! ## the model's `readOne`, in the Spec's terms -/

/-- the state in which the frame from `rd.uid` is handled: marker written, payload in the buffer -/
def rdState (cfg : Cfg) (s : State) (rd : Read) : State :=
  { s.emit (.rd rd.uid) with buf := Spec.bufAfter cfg s.buf rd }

theorem readOne_broken (cfg : Cfg) (s : State) (rd : Read) (hc : s.crashed = none) (m : Module)
    (hm : s.find rd.uid = some m) (hb : Spec.brokenRd cfg rd = true) :
    ∃ lvl, readOne cfg s rd = logAt cfg (fwdTop cfg) lvl (removeModule cfg (fwdTop cfg) (rdState cfg s rd) rd.uid) := by
  unfold readOne rdState Spec.bufAfter
  simp only [hc, Option.isSome_none, Bool.false_eq_true, if_false, hm]
  unfold Spec.brokenRd at hb
  by_cases h1 : rd.hdrErr = true
  · exact ⟨40, by simp [h1] <;> rfl⟩
  · have h1' : rd.hdrErr = false := by simpa using h1
    by_cases h2 : rd.hdrOk = true
    · by_cases h3 : (decide (rd.h.nbytes < 0) || decide (rd.h.nbytes > cfg.bufMax)) = true
      · refine ⟨30, ?_⟩
        have h3' : rd.h.nbytes < 0 ∨ rd.h.nbytes > cfg.bufMax := by simpa using h3
        simp only [h1', h2, Bool.false_eq_true, if_false, Bool.not_true, h3, if_true, Bool.false_or]
        rcases h3' with h | h
        · have : rd.h.nbytes ≤ 0 := by omega
          simp [this] <;> rfl
        · simp [h] <;> rfl
      · have h3' : ¬ rd.h.nbytes < 0 ∧ ¬ rd.h.nbytes > cfg.bufMax := by simpa using h3
        simp only [h1', h2, Bool.not_true, Bool.false_or, decide_eq_false h3'.1, decide_eq_false h3'.2, Bool.or_self] at hb
        have hb' : rd.h.nbytes > 0 ∧ (rd.payErr = true ∨ (rd.avail : Int) < rd.h.nbytes) := by simpa using hb
        have hpos : ¬ rd.h.nbytes ≤ 0 := by omega
        by_cases h4 : rd.payErr = true
        · refine ⟨40, ?_⟩
          simp [h1', h2, h3, hb'.1, h4] <;> rfl
        · have h4' : rd.payErr = false := by simpa using h4
          have hav : (rd.avail : Int) < rd.h.nbytes := hb'.2.resolve_left h4
          have hav' : rd.avail < rd.h.nbytes.toNat := by omega
          refine ⟨30, ?_⟩
          have hmin : min rd.avail rd.h.nbytes.toNat = rd.avail := by omega
          simp [h1', h2, h3'.1, h3'.2, hb'.1, h4', hav', hpos, hmin, State.emit]
    · have h2' : rd.hdrOk = false := by simpa using h2
      exact ⟨30, by simp [h1', h2'] <;> rfl⟩

theorem readOne_whole (cfg : Cfg) (s : State) (rd : Read) (hc : s.crashed = none) (m : Module)
    (hm : s.find rd.uid = some m) (hb : Spec.brokenRd cfg rd = false) :
    readOne cfg s rd = processMessage cfg (rdState cfg s rd) rd.uid rd.h := by
  unfold readOne rdState Spec.bufAfter
  simp only [hc, Option.isSome_none, Bool.false_eq_true, if_false, hm]
  unfold Spec.brokenRd at hb
  have hb' : rd.hdrErr = false ∧ rd.hdrOk = true ∧ ¬ rd.h.nbytes < 0 ∧ ¬ rd.h.nbytes > cfg.bufMax ∧
      (rd.h.nbytes > 0 → rd.payErr = false ∧ ¬ (rd.avail : Int) < rd.h.nbytes) := by
    simp only [Bool.or_eq_false_iff, Bool.and_eq_false_imp, Bool.not_eq_eq_eq_not, Bool.not_false,
      decide_eq_false_iff_not, decide_eq_true_eq] at hb
    exact ⟨hb.1.1.1.1, hb.1.1.1.2, hb.1.1.2, hb.1.2, hb.2⟩
  obtain ⟨h1, h2, h3, h4, h5⟩ := hb'
  by_cases hpos : rd.h.nbytes > 0
  · obtain ⟨h6, h7⟩ := h5 hpos
    have hav : ¬ rd.avail < rd.h.nbytes.toNat := by omega
    have hmin : min rd.avail rd.h.nbytes.toNat = rd.h.nbytes.toNat := by omega
    have hle : ¬ rd.h.nbytes ≤ 0 := by omega
    simp [h1, h2, h3, h4, hpos, h6, hav, hmin, hle, State.emit]
  · have hle : rd.h.nbytes ≤ 0 := by omega
    simp [h1, h2, h3, h4, hpos, hle] <;> rfl


/-! ## the induction invariant and the common end of every case -/

/-- what the induction over a history carries: the simulation, crash-freedom with no half-removed module, the
    close-once invariant and the at-most-one-notice invariant -/
structure Inv (cfg : Cfg) (a : Spec.A) (s : State) : Prop where
  sim : SimM cfg a s
  top : Top cfg s
  j : J s
  t : T s

/-- a continuation made of nested activity only that writes no ACKNOWLEDGE: nothing, or the periodic section of the
    round -/
structure QuietTo (cfg : Cfg) (s1 s2 : State) : Prop where
  nest : Nest s1 s2
  top : Top cfg s2
  j : J s2
  noAck : Quiet isAck s1 s2
  noData : ∀ k, Quiet (cp k) s1 s2
  info : InfoTo s1 (fun _ => False) s1 s2
  dep : Dep cfg none none s1 s2
  t : T s2

theorem noErr_applyDepartures {p : String} {a : Spec.A} (evs : List Ev) (h : Spec.NoErr p a) :
    Spec.NoErr p (Spec.applyDepartures a evs) := by
  unfold Spec.NoErr; rw [(Spec.applyDepartures_core a evs).2.2.2.2]; exact h

/-- the common end of every case of `segment`: the table update (if any) has been made on both sides, the rest of the
    model's handling is nested activity, the rest of the Spec's handling is error checks and `applyDepartures` -/
theorem seg_close {cfg : Cfg} {T : List String} {a0 W : Spec.A} {s0 s1 s2 : State} (hs : SimM cfg a0 s0) (t0 : Top cfg s0)
    (n : Nest s0 s1) (q : QuietTo cfg s1 s2) (evs : List Ev) (he : s2.out = s0.out ++ evs) (hW : Spec.CoreExt T a0 W) :
    Inv cfg (Spec.applyDepartures W evs) s2 ∧
    (∀ p, p ∉ T → Spec.NoErr p a0 → Spec.NoErr p (Spec.applyDepartures W evs)) := by
  refine ⟨⟨?_, q.top, q.j, q.t⟩, fun p hp hn => noErr_applyDepartures evs (hW.noErr hp hn)⟩
  have h1 := sim_quiet hs t0.aopen q.top.aopen (n.trans q.nest) q.j evs he
  exact sim_coreExt h1 (Spec.applyDepartures_coreExt hW evs)

/-- no ACKNOWLEDGE among the events of a stretch that is quiet for them -/
theorem acks_nil_of_quiet {cfg : Cfg} {s0 s1 s2 : State} (qa : Quiet isAck s0 s1) (q : QuietTo cfg s1 s2) (evs : List Ev)
    (he : s2.out = s0.out ++ evs) : Spec.ackSends evs = [] :=
  ackSends_nil evs (quiet_ext he (qa.trans q.noAck))

/-- the departure facts of a whole stretch: the model's own handling (`s0` to `s1`), then the continuation `q` -/
theorem depE_of {cfg : Cfg} {md : Option Nat} {s0 s1 s2 : State} (d1 : Dep cfg md none s0 s1) (q : QuietTo cfg s1 s2)
    (evs : List Ev) (he : s2.out = s0.out ++ evs) : DepE cfg md none s2 evs := by
  obtain ⟨e1, o1, dd1⟩ := d1
  obtain ⟨e2, o2, dd2⟩ := q.dep
  have hee : evs = e1 ++ e2 := by
    apply List.append_cancel_left (as := s0.out)
    rw [← he, o2, o1, List.append_assoc]
  subst hee
  exact dd1.append (dd2.anyJ md) (q.nest.back cfg)

/-- **The C07 clauses of `checkDepartures` in every case of `segment`**: `a0` / `s0` are the two states after the table
    update of the case, `X` is `a0` with further error entries, `d1` are the departure facts of the model's own handling
    (`s0` to `s1`), the continuation `q` brings its own -/
theorem dep_ext {cfg : Cfg} {T' : List String} {a0 X : Spec.A} {s0 s1 s2 : State} (hs : SimM cfg a0 s0) (t0 : Top cfg s0)
    (n : Nest s0 s1) (q : QuietTo cfg s1 s2) (evs : List Ev) (he : s2.out = s0.out ++ evs) (hX : Spec.CoreExt T' a0 X)
    (md : Option Nat) (d1 : Dep cfg md none s0 s1) (hmd : ∀ u, md = some u → Ev.close u ∈ evs) :
    Spec.ErrExt ["C14"] X (Spec.checkDepartures cfg X md evs) :=
  dep_ext_core hs t0.aopen (n.trans q.nest) q.j q.t _ he hX.mods hX.w hX.fail md (depE_of d1 q evs he) hmd

section rdstate
variable {cfg : Cfg} (ok : CfgOK cfg) (hfuel : cfg.fuel = 0)
include ok hfuel

theorem rdState_top {s : State} (h : Top cfg s) (rd : Read) : Top cfg (rdState cfg s rd) :=
  top_same ok hfuel h (rdState cfg s rd) rfl rfl rfl

end rdstate

theorem rdState_J {cfg : Cfg} {s : State} (h : J s) (rd : Read) : J (rdState cfg s rd) :=
  J_same (J_emit h _ (fun _ => rfl) (fun _ h => by cases h)) rfl rfl rfl

theorem rdState_sim {cfg : Cfg} {a : Spec.A} {s : State} (hs : SimM cfg a s) (rd : Read) :
    SimM cfg (Spec.afterBuf cfg a rd) (rdState cfg s rd) := by
  have h1 : SimM cfg a (s.emit (.rd rd.uid)) := sim_same hs rfl rfl rfl rfl rfl rfl rfl
  have h2 := sim_buf h1 (Spec.bufAfter cfg s.buf rd)
  unfold Spec.afterBuf rdState
  rw [hs.buf]; exact h2

theorem rdState_out (cfg : Cfg) (s : State) (rd : Read) : (rdState cfg s rd).out = s.out ++ [.rd rd.uid] := rfl


/-! ## `process_message`, case by case (the tests in the order the Spec makes them) -/

section pm
variable (cfg : Cfg) (s : State) (u : Nat) (h : Hdr)

theorem pm_reconnect (hc : (h.mtype == cfg.mtConnect || h.mtype == cfg.mtConnectV2) = true)
    (hcn : (lookupMod s u).connected = true) : processMessage cfg s u h = s := by
  unfold processMessage connectModule
  simp only [hc, if_true, hcn]
  simp

theorem pm_connect (hc : (h.mtype == cfg.mtConnect || h.mtype == cfg.mtConnectV2) = true) :
    processMessage cfg s u h =
      if (connectModule cfg s u h).2 = true then
        logAt cfg (fwdTop cfg) 20 (infoOf cfg (sendAck cfg (connectModule cfg s u h).1 u) (connectRecord cfg s u h))
      else (connectModule cfg s u h).1 := by
  unfold processMessage
  simp only [hc, if_true]

variable (hc : (h.mtype == cfg.mtConnect || h.mtype == cfg.mtConnectV2) = false)
include hc

theorem pm_disconnect (hd : (h.mtype == cfg.mtDisconnect) = true) :
    processMessage cfg s u h = logAt cfg (fwdTop cfg) 20 (removeModule cfg (fwdTop cfg) s u) := by
  unfold processMessage
  simp only [hc, hd, Bool.false_eq_true, if_false, if_true]

variable (hd : (h.mtype == cfg.mtDisconnect) = false)
include hd

theorem pm_sub (hs : (h.mtype == cfg.mtSubscribe || h.mtype == cfg.mtResume || h.mtype == cfg.mtUnsubscribe ||
      h.mtype == cfg.mtPause) = true) :
    processMessage cfg s u h =
      sendAck cfg (if (h.mtype == cfg.mtSubscribe || h.mtype == cfg.mtResume) = true then addSub cfg s u (bufI32 s.buf 0)
        else removeSub cfg s u (bufI32 s.buf 0)) u := by
  unfold processMessage
  simp only [hc, hd, Bool.false_eq_true, if_false]
  by_cases h1 : (h.mtype == cfg.mtSubscribe || h.mtype == cfg.mtResume) = true
  · simp only [h1, if_true]
  · have h1' : (h.mtype == cfg.mtSubscribe || h.mtype == cfg.mtResume) = false := by simpa using h1
    have h2 : (h.mtype == cfg.mtUnsubscribe || h.mtype == cfg.mtPause) = true := by
      rw [Bool.or_assoc, Bool.or_assoc, ← Bool.or_assoc, h1', Bool.false_or] at hs; exact hs
    simp only [h1', h2, Bool.false_eq_true, if_false, if_true]

variable (hs : (h.mtype == cfg.mtSubscribe || h.mtype == cfg.mtResume || h.mtype == cfg.mtUnsubscribe ||
      h.mtype == cfg.mtPause) = false)
include hs

theorem pm_tests : (h.mtype == cfg.mtSubscribe || h.mtype == cfg.mtResume) = false ∧
    (h.mtype == cfg.mtUnsubscribe || h.mtype == cfg.mtPause) = false := by
  simp only [Bool.or_eq_false_iff] at hs ⊢
  exact ⟨⟨hs.1.1.1, hs.1.1.2⟩, hs.1.2, hs.2⟩

theorem pm_setName_bad (hn : (h.mtype == cfg.mtSetName) = true) (hnm : cstr s.buf 0 32 = none) :
    processMessage cfg s u h = removeModule cfg (fwdTop cfg) (logAt cfg (fwdTop cfg) 40 s) u := by
  obtain ⟨t1, t2⟩ := pm_tests cfg h hc hd hs
  unfold processMessage
  simp only [hc, hd, t1, t2, hn, Bool.false_eq_true, if_false, if_true, hnm]

theorem pm_setName (hn : (h.mtype == cfg.mtSetName) = true) (nm : List Nat) (hnm : cstr s.buf 0 32 = some nm) :
    processMessage cfg s u h =
      infoOf cfg (logAt cfg (fwdTop cfg) 20 (s.upd u (fun m => { m with name := nm })))
        (lookupMod (s.upd u (fun m => { m with name := nm })) u) := by
  obtain ⟨t1, t2⟩ := pm_tests cfg h hc hd hs
  unfold processMessage
  simp only [hc, hd, t1, t2, hn, Bool.false_eq_true, if_false, if_true, hnm]

theorem pm_ready (hn : (h.mtype == cfg.mtSetName) = false) (hr : (h.mtype == cfg.mtModuleReady) = true) :
    processMessage cfg s u h = sendInfo cfg (s.upd u (fun m => { m with pid := bufI32 s.buf 0 })) u := by
  obtain ⟨t1, t2⟩ := pm_tests cfg h hc hd hs
  unfold processMessage
  simp only [hc, hd, t1, t2, hn, hr, Bool.false_eq_true, if_false, if_true]

theorem pm_data (hn : (h.mtype == cfg.mtSetName) = false) (hr : (h.mtype == cfg.mtModuleReady) = false) :
    processMessage cfg s u h =
      fwdTop cfg (logAt cfg (fwdTop cfg) 10 s)
        { mtype := h.mtype, src := h.src, dest := h.dest, destHost := h.destHost, nbytes := h.nbytes.toNat,
          body := .data h.k } := by
  obtain ⟨t1, t2⟩ := pm_tests cfg h hc hd hs
  unfold processMessage
  simp only [hc, hd, t1, t2, hn, hr, Bool.false_eq_true, if_false]

end pm

/-! ## one frame: the cases -/

/-- the properties whose Spec clauses are proved to hold on every run of the model -/
def provenCore : List String := ["C19", "C01", "C06", "C03", "C07", "C05"]

/-- the tags of all the other clauses -/
def othersCore : List String := ["C14", "C18"]

theorem proven_not {p : String} (hp : p ∈ provenCore) : p ∉ othersCore := by
  simp only [provenCore, List.mem_cons, List.not_mem_nil, or_false] at hp
  rcases hp with rfl | rfl | rfl | rfl | rfl | rfl <;> decide

theorem ext_others {T : List String} {a b : Spec.A} (h : Spec.ErrExt T a b)
    (hs : ∀ p, p ∈ T → p ∈ othersCore := by simp [othersCore]) : Spec.CoreExt othersCore a b := (h.mono hs).core

theorem core_others {T : List String} {a b : Spec.A} (h : Spec.CoreExt T a b)
    (hs : ∀ p, p ∈ T → p ∈ othersCore := by simp [othersCore]) : Spec.CoreExt othersCore a b := h.mono hs

/-- the conclusion of every case: the invariant holds again, and no clause of a proved property was violated -/
def SegGoal (cfg : Cfg) (a : Spec.A) (rd : Read) (evs : List Ev) (s2 : State) : Prop :=
  Inv cfg (Spec.segment cfg a rd evs) s2 ∧ ∀ p ∈ provenCore, Spec.NoErr p a → Spec.NoErr p (Spec.segment cfg a rd evs)

theorem segGoal_of2 {cfg : Cfg} {a a0 W : Spec.A} {rd : Read} {evs : List Ev} {s2 : State}
    (hseg : Spec.segment cfg a rd evs = Spec.applyDepartures W evs)
    (herr : ∀ p, p ∉ othersCore → Spec.NoErr p a → Spec.NoErr p a0)
    (h : Inv cfg (Spec.applyDepartures W evs) s2 ∧
      (∀ p, p ∉ othersCore → Spec.NoErr p a0 → Spec.NoErr p (Spec.applyDepartures W evs))) : SegGoal cfg a rd evs s2 := by
  unfold SegGoal
  rw [hseg]
  exact ⟨h.1, fun p hp hn => h.2 p (proven_not hp) (herr p (proven_not hp) hn)⟩

theorem segGoal_of {cfg : Cfg} {a a0 W : Spec.A} {rd : Read} {evs : List Ev} {s2 : State}
    (hseg : Spec.segment cfg a rd evs = Spec.applyDepartures W evs) (herr : a0.errs = a.errs)
    (h : Inv cfg (Spec.applyDepartures W evs) s2 ∧
      (∀ p, p ∉ othersCore → Spec.NoErr p a0 → Spec.NoErr p (Spec.applyDepartures W evs))) : SegGoal cfg a rd evs s2 :=
  segGoal_of2 hseg (fun p _ hn => by unfold Spec.NoErr; rw [herr]; exact hn) h

theorem rdState_find (cfg : Cfg) (s : State) (rd : Read) (v : Nat) : (rdState cfg s rd).find v = s.find v := rfl

theorem bufs_eq {cfg : Cfg} {a : Spec.A} {s : State} (hs : SimM cfg a s) (rd : Read) :
    (Spec.afterBuf cfg a rd).buf = (rdState cfg s rd).buf := by
  unfold Spec.afterBuf rdState; rw [hs.buf]

/-- a removal at the start of the handling of a frame: the close is the first event, nothing touches the connection
    afterwards -/
theorem removed_first {cfg : Cfg} (ok : CfgOK cfg) (hall : OrdAll cfg) (hfuel : cfg.fuel = 0) {s0 s2 : State} (t0 : Top cfg s0)
    (u : Nat) (m : Module) (hm : s0.find u = some m) (n : Nest (removeModule cfg (fwdTop cfg) s0 u) s2)
    (j : J s2) (evs : List Ev) (he : s2.out = s0.out ++ evs) :
    Ev.close u ∈ evs ∧ ∀ e ∈ evs, touches u e = false := by
  obtain ⟨rest, o1⟩ := remove_head ok hall hfuel t0 u m hm
  obtain ⟨e2, o2, _, _⟩ := n.ext
  have hee : evs = Ev.close u :: (rest ++ e2) := by
    apply List.append_cancel_left (as := s0.out)
    rw [← he, o2, o1]; simp
  subst hee
  exact ⟨by simp, untouched_after_close j s0.out _ u he⟩

section cases
variable {cfg : Cfg} (ok : CfgOK cfg) (hfuel : cfg.fuel = 0) (hall : OrdAll cfg)
  {a : Spec.A} {s : State} (inv : Inv cfg a s) (rd : Read) (m : Module) (hm : s.find rd.uid = some m)
  (am : Spec.AMod) (hget : a.get rd.uid = some am) (hal : am.alive = true) (hsm : SimMod cfg am m)
  (s2 : State) (evs : List Ev) (he : s2.out = (rdState cfg s rd).out ++ evs)
include ok hfuel hall inv hm hget hal hsm he

theorem seg_broken (hb : Spec.brokenRd cfg rd = true) (q : QuietTo cfg (readOne cfg s rd) s2) :
    SegGoal cfg a rd evs s2 := by
  obtain ⟨lvl, hro⟩ := readOne_broken cfg s rd inv.top.good.ok m hm hb
  rw [hro] at q
  have t0 := rdState_top ok hfuel inv.top rd
  have n : Nest (rdState cfg s rd) _ := (removeTop_nest cfg (rdState cfg s rd) rd.uid).trans (logTop_nest cfg lvl _)
  have qa : Quiet isAck (rdState cfg s rd) _ := (qa_remove cfg (rdState cfg s rd) rd.uid).trans (qa_log cfg lvl _)
  have hnil := acks_nil_of_quiet qa q evs he
  have dt : DT cfg (some rd.uid) (rdState cfg s rd) _ :=
    (dt_remove ok hall hfuel t0 rd.uid).bind (fun h' => (dt_log ok hall hfuel h' lvl).anyJ _)
  obtain ⟨hmd, hunt⟩ := removed_first ok hall hfuel t0 rd.uid m hm ((logTop_nest cfg lvl _).trans q.nest) q.j evs he
  have hseg := Spec.segment_broken_c07 cfg a rd evs am hget hal hb hunt
  have hW : Spec.CoreExt othersCore (Spec.afterBuf cfg a rd)
      (Spec.checkDepartures cfg (Spec.checkAcks cfg (Spec.afterBuf cfg a rd) rd.uid false evs) (some rd.uid) evs) := by
    rw [Spec.checkAcks_false_ok cfg _ rd.uid evs hnil]
    exact ext_others (dep_ext (rdState_sim inv.sim rd) t0 n q evs he (Spec.CoreExt.refl [] _) (some rd.uid) dt.dep
      (fun u hu => by cases hu; exact hmd))
  exact segGoal_of hseg rfl (seg_close (rdState_sim inv.sim rd) t0 n q evs he hW)

variable (hb : Spec.brokenRd cfg rd = false) (q : QuietTo cfg (readOne cfg s rd) s2)
include hb q

theorem seg_reconnect (hc : (rd.h.mtype == cfg.mtConnect || rd.h.mtype == cfg.mtConnectV2) = true)
    (hcn : am.connected = true) : SegGoal cfg a rd evs s2 := by
  rw [readOne_whole cfg s rd inv.top.good.ok m hm hb,
    pm_reconnect cfg _ _ _ hc (by unfold lookupMod; rw [rdState_find, hm]; simp [← hsm.connected, hcn])] at q
  have hseg := Spec.segment_reconnect cfg a rd evs am hget hal hb hc hcn
  have hnil := acks_nil_of_quiet (Quiet.refl _ _) q evs he
  have hW : Spec.CoreExt othersCore (Spec.afterBuf cfg a rd)
      (Spec.checkDepartures cfg (Spec.checkAcks cfg (Spec.afterBuf cfg a rd) rd.uid false evs) none evs) := by
    rw [Spec.checkAcks_false_ok cfg _ rd.uid evs hnil]
    exact ext_others (dep_ext (rdState_sim inv.sim rd) (rdState_top ok hfuel inv.top rd) (Nest.refl _) q evs he
      (Spec.CoreExt.refl [] _) none (Dep.refl _ _ _ _) (fun u hu => by cases hu))
  exact segGoal_of hseg rfl (seg_close (rdState_sim inv.sim rd) (rdState_top ok hfuel inv.top rd) (Nest.refl _) q evs he hW)

variable (hc : (rd.h.mtype == cfg.mtConnect || rd.h.mtype == cfg.mtConnectV2) = false)
include hc

theorem seg_disconnect (hd : (rd.h.mtype == cfg.mtDisconnect) = true) : SegGoal cfg a rd evs s2 := by
  rw [readOne_whole cfg s rd inv.top.good.ok m hm hb, pm_disconnect cfg _ _ _ hc hd] at q
  have t0 := rdState_top ok hfuel inv.top rd
  have n : Nest (rdState cfg s rd) _ := (removeTop_nest cfg (rdState cfg s rd) rd.uid).trans (logTop_nest cfg 20 _)
  have qa : Quiet isAck (rdState cfg s rd) _ := (qa_remove cfg (rdState cfg s rd) rd.uid).trans (qa_log cfg 20 _)
  have hnil := acks_nil_of_quiet qa q evs he
  have dt : DT cfg (some rd.uid) (rdState cfg s rd) _ :=
    (dt_remove ok hall hfuel t0 rd.uid).bind (fun h' => (dt_log ok hall hfuel h' 20).anyJ _)
  obtain ⟨hmd, hunt⟩ := removed_first ok hall hfuel t0 rd.uid m hm ((logTop_nest cfg 20 _).trans q.nest) q.j evs he
  have hseg := Spec.segment_disconnect_c07 cfg a rd evs am hget hal hb hc hd hunt
  have hW : Spec.CoreExt othersCore (Spec.afterBuf cfg a rd)
      (Spec.checkDepartures cfg (Spec.checkAcks cfg (Spec.afterBuf cfg a rd) rd.uid false evs) (some rd.uid) evs) := by
    rw [Spec.checkAcks_false_ok cfg _ rd.uid evs hnil]
    exact ext_others (dep_ext (rdState_sim inv.sim rd) t0 n q evs he (Spec.CoreExt.refl [] _) (some rd.uid) dt.dep
      (fun u hu => by cases hu; exact hmd))
  exact segGoal_of hseg rfl (seg_close (rdState_sim inv.sim rd) t0 n q evs he hW)

variable (hd : (rd.h.mtype == cfg.mtDisconnect) = false)
  (hs : (rd.h.mtype == cfg.mtSubscribe || rd.h.mtype == cfg.mtResume || rd.h.mtype == cfg.mtUnsubscribe ||
      rd.h.mtype == cfg.mtPause) = false)
include hd hs

theorem seg_setName_bad (hn : (rd.h.mtype == cfg.mtSetName) = true) (hnm : cstr (rdState cfg s rd).buf 0 32 = none) :
    SegGoal cfg a rd evs s2 := by
  rw [readOne_whole cfg s rd inv.top.good.ok m hm hb, pm_setName_bad cfg _ _ _ hc hd hs hn hnm] at q
  have hseg := Spec.segment_setName_bad cfg a rd evs am hget hal hb hc hd hs hn
    (by rw [bufs_eq inv.sim rd]; exact hnm)
  have t0 := rdState_top ok hfuel inv.top rd
  have n : Nest (rdState cfg s rd) _ := (logTop_nest cfg 40 (rdState cfg s rd)).trans (removeTop_nest cfg _ rd.uid)
  have qa : Quiet isAck (rdState cfg s rd) _ := (qa_log cfg 40 (rdState cfg s rd)).trans (qa_remove cfg _ rd.uid)
  have hnil := acks_nil_of_quiet qa q evs he
  have dt : DT cfg (some rd.uid) (rdState cfg s rd) _ :=
    ((dt_log ok hall hfuel t0 40).anyJ _).bind (fun h' => dt_remove ok hall hfuel h' rd.uid)
  have hgone : s2.find rd.uid = none := nest_gone q.nest q.top.aopen rd.uid (removeModule_none cfg _ _ rd.uid)
  have hmd : Ev.close rd.uid ∈ evs :=
    closed_of_gone (n.trans q.nest) evs he rd.uid ⟨m, hm, inv.top.aopen _ _ hm⟩ hgone
  have hW : Spec.CoreExt othersCore (Spec.afterBuf cfg a rd)
      (Spec.checkDepartures cfg (Spec.checkAcks cfg (Spec.afterBuf cfg a rd) rd.uid false evs) (some rd.uid) evs) := by
    rw [Spec.checkAcks_false_ok cfg _ rd.uid evs hnil]
    exact ext_others (dep_ext (rdState_sim inv.sim rd) t0 n q evs he (Spec.CoreExt.refl [] _) (some rd.uid) dt.dep
      (fun u hu => by cases hu; exact hmd))
  exact segGoal_of hseg rfl (seg_close (rdState_sim inv.sim rd) t0 n q evs he hW)

end cases

end Pyrtma.Mgr
