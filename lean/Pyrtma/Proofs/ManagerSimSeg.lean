import Pyrtma.Proofs.ManagerSim
/-!
# Refinement of the history-based Spec by the manager model M1 — part 3: one frame read

The model's handling of one frame (`readOne`: marker, receive buffer, table update, nested activity) against the Spec's
`segment` for the events of exactly that handling — optionally followed by the periodic section of the round (the last
segment of a round holds those events too).
-/
namespace Pyrtma.Mgr

abbrev isAck : Body → Bool := fun b => b == .ack

/-- iteration orders of a Python `set`: every element exactly once -/
def OrdPerm (cfg : Cfg) : Prop := ∀ l : List Nat, (cfg.order l).Perm l

/-! ## acknowledgements: the Spec's view of the events against `dataSends` -/

theorem ackSends_map (evs : List Ev) :
    (Spec.ackSends evs).map (fun p => (p.1, p.2.2)) = dataSends isAck evs := by
  unfold Spec.ackSends Spec.sends dataSends
  induction evs with
  | nil => rfl
  | cons e rest ih =>
    cases e with
    | send u c f =>
      simp only [List.filterMap_cons]
      by_cases hb : (f.body == Body.ack) = true
      · simp only [List.filter_cons, hb, if_true, List.map_cons, isAck, ih]
      · have hb' : (f.body == Body.ack) = false := by simpa using hb
        simp only [List.filter_cons, hb', Bool.false_eq_true, if_false, isAck, ih]
    | _ => simpa [List.filterMap_cons] using ih

theorem ackTo_eq (evs : List Ev) (v : Nat) :
    Spec.ackTo evs v = ((dataSends isAck evs).filter (·.1 == v)).length := by
  unfold Spec.ackTo
  rw [← ackSends_map, List.filter_map, List.length_map]
  rfl

theorem ackSends_nil (evs : List Ev) (h : dataSends isAck evs = []) : Spec.ackSends evs = [] := by
  have := ackSends_map evs
  rw [h] at this
  exact List.map_eq_nil_iff.mp this

theorem ackSends_frames (evs : List Ev) (P : Frame → Prop) (h : ∀ p ∈ dataSends isAck evs, P p.2) :
    ∀ p ∈ Spec.ackSends evs, P p.2.2 := by
  intro p hp
  have : (p.1, p.2.2) ∈ dataSends isAck evs := by
    rw [← ackSends_map]; exact List.mem_map.mpr ⟨p, hp, rfl⟩
  exact h (p.1, p.2.2) this

/-- the `B`-frames of an extension of the log -/
theorem dataSends_ext {B : Body → Bool} {s s' : State} {ext : List Ev} (he : s'.out = s.out ++ ext) :
    dataSends B s'.out = dataSends B s.out ++ dataSends B ext := by rw [he, dataSends_append]

theorem quiet_ext {B : Body → Bool} {s s' : State} {ext : List Ev} (he : s'.out = s.out ++ ext) (hq : Quiet B s s') :
    dataSends B ext = [] := by
  unfold Quiet at hq
  rw [dataSends_ext he] at hq
  exact List.append_right_eq_self.mp hq

/-! ## operations that write no ACKNOWLEDGE -/

theorem qa_fwd (cfg : Cfg) (s : State) (g : Frame) (hg : g.body ≠ .ack) : Quiet isAck s (fwdTop cfg s g) :=
  (fwdTop_ok cfg (tag_ack cfg) s g (by simpa [isAck] using hg)).2

theorem qa_log (cfg : Cfg) (lvl : Nat) (s : State) : Quiet isAck s (logAt cfg (fwdTop cfg) lvl s) :=
  (logAt_ok cfg (tag_ack cfg) (fwdTop_ok cfg (tag_ack cfg)) lvl s).2

theorem qa_remove (cfg : Cfg) (s : State) (u : Nat) : Quiet isAck s (removeModule cfg (fwdTop cfg) s u) :=
  removeModule_quiet cfg (tag_ack cfg) (fwdTop_ok cfg (tag_ack cfg)) s u

theorem qa_info (cfg : Cfg) (s : State) (m : Module) : Quiet isAck s (infoOf cfg s m) := by
  unfold infoOf
  exact (qa_log cfg 10 s).trans (qa_fwd cfg _ _ (by simp [infoFrame, mgrFrame]))

theorem qa_sendInfo (cfg : Cfg) (s : State) (u : Nat) : Quiet isAck s (sendInfo cfg s u) := by
  unfold sendInfo
  cases s.find u with
  | none => exact Quiet.refl _ s
  | some m => exact qa_info cfg s m

theorem qa_clashLoop (cfg : Cfg) (me : Module) : ∀ (os : List Module) (s : State), Quiet isAck s (clashLoop cfg me os s).1
  | [], s => Quiet.refl _ s
  | o :: rest, s => by
    unfold clashLoop
    split
    · exact Quiet.refl _ s
    · refine Quiet.trans ?_ (qa_clashLoop cfg me rest _)
      split
      · exact Quiet.refl _ s
      · exact qa_log cfg 10 s

theorem qa_foldl_fwd (cfg : Cfg) : ∀ (fs : List Frame) (s : State), (∀ f ∈ fs, f.body ≠ .ack) →
    Quiet isAck s (fs.foldl (fwdTop cfg) s)
  | [], s, _ => Quiet.refl _ s
  | f :: rest, s, h =>
    (qa_fwd cfg s f (h f (by simp))).trans (qa_foldl_fwd cfg rest _ (fun g hg => h g (by simp [hg])))

theorem qa_infoAll (cfg : Cfg) : ∀ (ms : List Module) (s : State), Quiet isAck s (infoAll cfg ms s)
  | [], s => Quiet.refl _ s
  | m :: rest, s => by unfold infoAll; exact (qa_info cfg s _).trans (qa_infoAll cfg rest _)

theorem qa_same {s s' : State} (ho : s'.out = s.out) : Quiet isAck s s' := by unfold Quiet; rw [ho]

theorem qa_ticks (cfg : Cfg) (s : State) : Quiet isAck s (ticks cfg s) := by
  unfold ticks
  have h1 : Quiet isAck s (if cfg.timing && s.now - s.tTiming > 900 then { sendTiming cfg s with tTiming := s.now } else s) := by
    split
    · unfold sendTiming
      exact ((qa_same (s' := { s with counts := [], inTraffic := true }) rfl).trans
        (qa_fwd cfg _ _ (by simp [mgrFrame]))).trans (qa_same rfl)
    · exact Quiet.refl _ s
  generalize (if cfg.timing && s.now - s.tTiming > 900 then { sendTiming cfg s with tTiming := s.now } else s) = s1 at h1
  dsimp only
  have h2 : Quiet isAck s1 (if s1.now - s1.tTraffic > 1000 then sendTraffic cfg s1 else s1) := by
    split
    · unfold sendTraffic
      refine (((qa_same (s' := { s1 with inTraffic := true }) rfl).trans (qa_log cfg 10 _)).trans
        (qa_foldl_fwd cfg _ _ ?_)).trans (qa_same rfl)
      intro f hf
      unfold trafficFrames at hf
      obtain ⟨p, _, rfl⟩ := List.mem_map.mp hf
      simp [mgrFrame, trafficBody]
    · exact Quiet.refl _ s1
  generalize (if s1.now - s1.tTraffic > 1000 then sendTraffic cfg s1 else s1) = s2 at h2
  refine (h1.trans h2).trans ?_
  split
  · unfold sendActive
    exact (((qa_log cfg 10 s2).trans (qa_infoAll cfg _ _)).trans (qa_fwd cfg _ _ (by simp [mgrFrame]))).trans (qa_same rfl)
  · exact Quiet.refl _ s2

theorem qa_accept (cfg : Cfg) (s : State) : Quiet isAck s (acceptStep cfg s) := by
  unfold acceptStep
  exact (qa_log cfg 20 s).trans (qa_same rfl)

/-! ## `send_ack`: who gets an ACKNOWLEDGE -/

theorem canTake_of_pres {s s' : State} (h : Pres s s') (v : Nat) : canTake s' v = canTake s v := by
  unfold canTake
  rw [failOf_congr h.fail]
  cases hfo : failOf s v with
  | some x => cases s'.find v <;> cases s.find v <;> simp
  | none =>
    have hk := h.keep v hfo
    cases h1 : s'.find v <;> cases h2 : s.find v <;> simp [h1, h2] at hk ⊢
    obtain ⟨hc, _, _, _⟩ := core_fields hk
    simp [hc]

theorem toLoggers_sends (cfg : Cfg) {B} (hB : Tag cfg B) (f : Frame) : ∀ (ls : List Nat) (s : State),
    Pres s (toLoggers cfg f ls s) ∧
    dataSends B (toLoggers cfg f ls s).out =
      dataSends B s.out ++ (if B f.body = true then (ls.filter (canTake s)).map (fun u => (u, f)) else [])
  | [], s => ⟨Pres.refl s, by simp [toLoggers]⟩
  | u :: rest, s => by
    unfold toLoggers
    have hstep : Pres s (loggerOne cfg f s u) ∧ dataSends B (loggerOne cfg f s u).out =
          dataSends B s.out ++ (if canTake s u = true ∧ B f.body = true then [(u, f)] else []) := by
      unfold loggerOne
      cases hfind : s.find u with
      | none => simp [canTake, hfind]; exact Pres.refl s
      | some m => exact trySend_ok cfg hB (fwdTop_ok cfg hB) s u f
    obtain ⟨hp, hd⟩ := hstep
    have ih := toLoggers_sends cfg hB f rest (loggerOne cfg f s u)
    refine ⟨hp.trans ih.1, ?_⟩
    rw [ih.2, hd, List.filter_cons]
    have he : rest.filter (canTake (loggerOne cfg f s u)) = rest.filter (canTake s) := by
      congr 1; funext v; exact canTake_of_pres hp v
    rw [he]
    by_cases hb : B f.body = true <;> by_cases hc : canTake s u = true <;> simp [hb, hc]

/-- the ACKNOWLEDGE frames `send_ack` writes: one to the sender if its connection can take it, then one to every member
    of the logger set (as it is after that write) whose connection can take it -/
theorem sendAck_sends (cfg : Cfg) (s : State) (u : Nat) (m : Module) (hm : s.find u = some m) :
    dataSends isAck (sendAck cfg s u).out =
      dataSends isAck s.out ++ (if canTake s u = true then [(u, ackFrame cfg m.modId)] else []) ++
        (((cfg.order (trySend cfg (fwdTop cfg) s u (ackFrame cfg m.modId)).loggers).filter (canTake s)).map
          (fun l => (l, ackFrame cfg m.modId))) := by
  unfold sendAck
  simp only [hm]
  have h1 := trySend_ok cfg (tag_ack cfg) (fwdTop_ok cfg (tag_ack cfg)) s u (ackFrame cfg m.modId)
  have h2 := toLoggers_sends cfg (tag_ack cfg) (ackFrame cfg m.modId)
    (cfg.order (trySend cfg (fwdTop cfg) s u (ackFrame cfg m.modId)).loggers)
    (trySend cfg (fwdTop cfg) s u (ackFrame cfg m.modId))
  rw [h2.2, h1.2]
  have he : (cfg.order (trySend cfg (fwdTop cfg) s u (ackFrame cfg m.modId)).loggers).filter
      (canTake (trySend cfg (fwdTop cfg) s u (ackFrame cfg m.modId))) =
      (cfg.order (trySend cfg (fwdTop cfg) s u (ackFrame cfg m.modId)).loggers).filter (canTake s) := by
    congr 1; funext v; exact canTake_of_pres h1.1 v
  rw [he]
  have hb : (fun b => b == Body.ack) (ackFrame cfg m.modId).body = true := rfl
  simp [hb]

theorem sendAck_none (cfg : Cfg) (s : State) (u : Nat) (hm : s.find u = none) : sendAck cfg s u = s := by
  unfold sendAck; simp [hm]


theorem nodup_count_eq : ∀ (l : List Nat) (v : Nat), l.Nodup → (l.filter (· == v)).length = if v ∈ l then 1 else 0
  | [], _, _ => rfl
  | x :: rest, v, h => by
    have hn := List.nodup_cons.mp h
    have ih := nodup_count_eq rest v hn.2
    by_cases hx : x = v
    · subst hx
      have : x ∉ rest := hn.1
      simp [ih, this]
    · have hx' : (x == v) = false := by simpa using hx
      have : (v ∈ x :: rest) ↔ v ∈ rest := by
        rw [List.mem_cons]; exact ⟨fun h => h.resolve_left (fun e => hx e.symm), Or.inr⟩
      simp only [List.filter_cons, hx', Bool.false_eq_true, if_false, ih, this]

/-- how many ACKNOWLEDGE frames `send_ack` writes to connection `v` -/
theorem sendAck_count (cfg : Cfg) (hperm : OrdPerm cfg) (s : State) (hnd : s.loggers.Nodup) (u : Nat) (m : Module)
    (hm : s.find u = some m) (ext : List Ev) (he : (sendAck cfg s u).out = s.out ++ ext) (v : Nat) :
    ((dataSends isAck ext).filter (·.1 == v)).length =
      (if canTake s u = true ∧ u = v then 1 else 0) +
      (if v ∈ (trySend cfg (fwdTop cfg) s u (ackFrame cfg m.modId)).loggers ∧ canTake s v = true then 1 else 0) := by
  have h := sendAck_sends cfg s u m hm
  rw [dataSends_ext he, List.append_assoc] at h
  have h' := List.append_cancel_left h
  rw [h', List.filter_append, List.length_append]
  congr 1
  · by_cases hc : canTake s u = true
    · by_cases huv : u = v
      · subst huv; simp [hc]
      · have : (u == v) = false := by simpa using huv
        simp [hc, huv, this]
    · simp [hc]
  · generalize hL : (trySend cfg (fwdTop cfg) s u (ackFrame cfg m.modId)).loggers = L
    have hLn : L.Nodup := by
      rw [← hL]; exact (trySend_nest (fwdTop_nest cfg) s u _).logSub.nodup hnd
    have hon : ((cfg.order L).filter (canTake s)).Nodup := ((hperm L).nodup_iff.mpr hLn).filter _
    rw [List.filter_map, List.length_map]
    have : (List.filter ((fun x => x.1 == v) ∘ fun l => (l, ackFrame cfg m.modId)) ((cfg.order L).filter (canTake s))) =
        ((cfg.order L).filter (canTake s)).filter (· == v) := by
      congr 1
    rw [this, nodup_count_eq _ v hon]
    have hiff : v ∈ (cfg.order L).filter (canTake s) ↔ v ∈ L ∧ canTake s v = true := by
      rw [List.mem_filter, (hperm L).mem_iff]
    by_cases hv : v ∈ L ∧ canTake s v = true
    · rw [if_pos hv, if_pos (hiff.mpr hv)]
    · rw [if_neg hv, if_neg (fun h => hv (hiff.mp h))]

theorem sendAck_frames (cfg : Cfg) (s : State) (u : Nat) (m : Module) (hm : s.find u = some m) (ext : List Ev)
    (he : (sendAck cfg s u).out = s.out ++ ext) : ∀ p ∈ dataSends isAck ext, p.2 = ackFrame cfg m.modId := by
  have h := sendAck_sends cfg s u m hm
  rw [dataSends_ext he, List.append_assoc] at h
  have h' := List.append_cancel_left h
  rw [h']
  intro p hp
  rcases List.mem_append.mp hp with h1 | h1
  · split at h1
    · simp at h1; rw [h1]
    · cases h1
  · obtain ⟨l, _, rfl⟩ := List.mem_map.mp h1; rfl


/-- what `send_ack` at a state with the logger-set invariants writes, per connection -/
theorem sendAck_facts (cfg : Cfg) (hperm : OrdPerm cfg) {a : Spec.A} {s : State} (hs : Sim cfg a s) (ao : AllOpen s)
    (u : Nat) (m : Module) (hm : s.find u = some m) (ext : List Ev) (he : (sendAck cfg s u).out = s.out ++ ext) :
    (failOf s u = none → ((dataSends isAck ext).filter (·.1 == u)).length = 1 + (if m.isLogger then 1 else 0)) ∧
    (∀ l, l ≠ u → ((dataSends isAck ext).filter (·.1 == l)).length ≤ 1) ∧
    (∀ l ml, l ≠ u → failOf s l = none → s.find l = some ml → ml.isLogger = true →
      ((dataSends isAck ext).filter (·.1 == l)).length = 1) ∧
    (∀ l, l ≠ u → 0 < ((dataSends isAck ext).filter (·.1 == l)).length →
      ∃ ml, s.find l = some ml ∧ ml.isLogger = true) := by
  have hcount := sendAck_count cfg hperm s hs.logNodup u m hm ext he
  have hp := (trySend_ok cfg (tag_ack cfg) (fwdTop_ok cfg (tag_ack cfg)) s u (ackFrame cfg m.modId)).1
  have hn := trySend_nest (cfg := cfg) (fwdTop_nest cfg) s u (ackFrame cfg m.modId)
  -- a module that is in the table and does not fail is still open after the write to `u`
  have stays : ∀ v mv, s.find v = some mv → failOf s v = none →
      openIn (trySend cfg (fwdTop cfg) s u (ackFrame cfg m.modId)) v := by
    intro v mv hv hf
    have hk := hp.keep v hf
    rw [hv] at hk
    cases h' : (trySend cfg (fwdTop cfg) s u (ackFrame cfg m.modId)).find v with
    | none => simp [h'] at hk
    | some m' =>
      simp only [h', Option.map_some, Option.some.injEq] at hk
      exact ⟨m', h', by rw [core_closed hk]; exact ao v mv hv⟩
  have can : ∀ v mv, s.find v = some mv → failOf s v = none → canTake s v = true := by
    intro v mv hv hf; unfold canTake; simp [hv, ao v mv hv, hf]
  refine ⟨fun hf => ?_, fun l hl => ?_, fun l ml hl hf hml hlg => ?_, fun l hl hpos => ?_⟩
  · rw [hcount u]
    have hc := can u m hm hf
    by_cases hlg : m.isLogger = true
    · have : u ∈ (trySend cfg (fwdTop cfg) s u (ackFrame cfg m.modId)).loggers :=
        hn.logKeep u (hs.logIn u m hm hlg) (stays u m hm hf)
      simp [hc, hlg, this]
    · have : u ∉ (trySend cfg (fwdTop cfg) s u (ackFrame cfg m.modId)).loggers :=
        fun h => hlg (hs.logOut u m (hn.logSub.subset h) hm)
      simp [hc, hlg, this]
  · rw [hcount l]
    have : ¬(canTake s u = true ∧ u = l) := fun h => hl h.2.symm
    rw [if_neg this]; split <;> omega
  · rw [hcount l]
    have h1 : ¬(canTake s u = true ∧ u = l) := fun h => hl h.2.symm
    have h2 : l ∈ (trySend cfg (fwdTop cfg) s u (ackFrame cfg m.modId)).loggers :=
      hn.logKeep l (hs.logIn l ml hml hlg) (stays l ml hml hf)
    rw [if_neg h1, if_pos ⟨h2, can l ml hml hf⟩]
  · rw [hcount l] at hpos
    have h1 : ¬(canTake s u = true ∧ u = l) := fun h => hl h.2.symm
    rw [if_neg h1] at hpos
    split at hpos
    · rename_i h2
      have hc := h2.2
      unfold canTake at hc
      cases hml : s.find l with
      | none => simp [hml] at hc
      | some ml => exact ⟨ml, rfl, hs.logOut l ml (hn.logSub.subset h2.1) hml⟩
    · omega

theorem failing_iff {a : Spec.A} {s : State} (h : a.fail = s.fail) (u : Nat) : a.failing u = false ↔ failOf s u = none := by
  unfold Spec.A.failing failOf
  rw [h]
  cases hf : s.fail.find? (·.1 == u) with
  | none =>
    simp only [Option.map_none, iff_true]
    rw [List.find?_eq_none] at hf
    rw [List.any_eq_false]; exact hf
  | some p =>
    simp only [Option.map_some, reduceCtorEq, iff_false, Bool.not_eq_false]
    rw [List.any_eq_true]
    exact ⟨p, List.mem_of_find?_eq_some hf, List.find?_some (p := fun q : Nat × FailMode => q.1 == u) hf⟩

/-- **`checkAcks` passes on what `send_ack` does.**  `x` is the abstract state the check is evaluated on, `s` the model
state in which `send_ack` for the frame from `u` runs; the events `evs` of the segment hold no ACKNOWLEDGE outside the
stretch `ext` written by that call. -/
theorem checkAcks_sendAck (cfg : Cfg) (hperm : OrdPerm cfg) {x b : Spec.A} {s : State} (hs : Sim cfg b s) (ao : AllOpen s)
    (u : Nat) (xu : Spec.AMod) (hxu : x.get u = some xu) (hfail : x.fail = s.fail)
    (hu : ∀ mL, s.find u = some mL → mL.modId = xu.modId ∧ mL.isLogger = xu.isLogger)
    (hsurvU : failOf s u = none → (s.find u).isSome)
    (hsurv : ∀ l ∈ x.mods, l.uid ≠ u → l.alive = true → l.isLogger = true → l.connected = true → failOf s l.uid = none →
      ∃ ml, s.find l.uid = some ml ∧ ml.isLogger = true)
    (hflags : ∀ l ∈ x.mods, l.uid ≠ u → l.alive = true → ∀ ml, s.find l.uid = some ml → ml.isLogger = true →
      l.isLogger = true ∧ l.connected = true)
    (ext evs : List Ev) (he : (sendAck cfg s u).out = s.out ++ ext) (hevs : dataSends isAck evs = dataSends isAck ext) :
    Spec.checkAcks cfg x u true evs = x := by
  have hto : ∀ v, Spec.ackTo evs v = ((dataSends isAck ext).filter (·.1 == v)).length := by
    intro v; rw [ackTo_eq, hevs]
  cases hm : s.find u with
  | none =>
    -- nothing is acknowledged: the sender was dropped before
    have hext : ext = [] := by
      rw [sendAck_none cfg s u hm] at he
      exact (List.append_right_eq_self.mp he.symm)
    have hnil : dataSends isAck evs = [] := by rw [hevs, hext]; rfl
    have hzero : ∀ v, Spec.ackTo evs v = 0 := by intro v; rw [hto, hext]; rfl
    have hfu : x.failing u = true := by
      cases hx : x.failing u with
      | true => rfl
      | false =>
        have := hsurvU ((failing_iff hfail u).mp hx)
        rw [hm] at this; cases this
    refine Spec.checkAcks_true_ok cfg x u xu evs hxu ?_ ?_ ?_
    · rw [ackSends_nil evs hnil]; intro p hp; cases hp
    · intro h; rw [hfu] at h; cases h
    · intro l hl hlu hal
      split
      · intro _; rw [hzero]; simp
      · exact hzero _
  | some m =>
    obtain ⟨f1, f2, f3, f4⟩ := sendAck_facts cfg hperm hs ao u m hm ext he
    obtain ⟨hmid, hmlg⟩ := hu m hm
    refine Spec.checkAcks_true_ok cfg x u xu evs hxu ?_ ?_ ?_
    · apply ackSends_frames evs (fun f => f.dest = xu.modId ∧ f.src = 0)
      intro p hp
      rw [hevs] at hp
      rw [sendAck_frames cfg s u m hm ext he p hp, ← hmid]
      exact ⟨rfl, rfl⟩
    · intro hx
      rw [hto, f1 ((failing_iff hfail u).mp hx), hmlg]
    · intro l hl hlu hal
      split
      · rename_i hlc
        have hlc' : l.isLogger = true ∧ l.connected = true := by simpa using hlc
        intro hfl
        obtain ⟨ml, hml, hmlg'⟩ := hsurv l hl hlu hal hlc'.1 hlc'.2 ((failing_iff hfail l.uid).mp hfl)
        have := f3 l.uid ml hlu ((failing_iff hfail l.uid).mp hfl) hml hmlg'
        rw [hto, this]; split <;> simp
      · rename_i hlc
        rw [hto]
        cases hz : ((dataSends isAck ext).filter (·.1 == l.uid)).length with
        | zero => rfl
        | succ k =>
          obtain ⟨ml, hml, hmlg'⟩ := f4 l.uid hlu (by omega)
          have := hflags l hl hlu hal ml hml hmlg'
          exact absurd (by simp [this.1, this.2]) hlc


/-! ## table updates that keep the simulation -/

/-- a change of model fields the relation does not read -/
theorem sim_same {cfg : Cfg} {a : Spec.A} {s s' : State} (hs : Sim cfg a s) (hm : s'.mods = s.mods)
    (hl : s'.loggers = s.loggers) (hn : s'.nextUid = s.nextUid) (hf : s'.fail = s.fail) (hb : s'.buf = s.buf)
    (hw : s'.wlist = s.wlist) : Sim cfg a s' := by
  have hfind : ∀ u, s'.find u = s.find u := fun u => by unfold State.find; rw [hm]
  exact ⟨hs.uids, by rw [hn]; exact hs.nacc, by rw [hf]; exact hs.fail, by rw [hb]; exact hs.buf,
    fun u hu => by rw [hfind]; exact hs.live u hu, fun u am m h1 h2 => hs.mods u am m h1 (by rw [← hfind]; exact h2),
    fun u h => by rw [hw]; exact hs.w u h, fun u m h1 h2 => by rw [hl]; exact hs.logIn u m (by rw [← hfind]; exact h1) h2,
    fun u m h1 h2 => hs.logOut u m (by rw [← hl]; exact h1) (by rw [← hfind]; exact h2),
    fun u m h1 h2 => hs.logConn u m (by rw [← hfind]; exact h1) h2, by rw [hl]; exact hs.logNodup⟩

/-- an error extension (and any change of the statistics fields) of the abstract state -/
theorem sim_coreExt {cfg : Cfg} {T : List String} {a a' : Spec.A} {s : State} (hs : Sim cfg a s) (h : Spec.CoreExt T a a') :
    Sim cfg a' s := by
  have hget : ∀ u, a'.get u = a.get u := fun u => by unfold Spec.A.get; rw [h.mods]
  have hlive : ∀ u, a'.live u = a.live u := fun u => by unfold Spec.A.live; rw [hget]
  exact ⟨by rw [h.mods, h.nAccepted]; exact hs.uids, by rw [h.nAccepted]; exact hs.nacc, by rw [h.fail]; exact hs.fail,
    by rw [h.buf]; exact hs.buf, fun u hu => by rw [hlive]; exact hs.live u hu,
    fun u am m h1 h2 => hs.mods u am m (by rw [← hlive]; exact h1) h2,
    fun u hl => by rw [h.w]; exact hs.w u (by rw [← hlive]; exact hl), hs.logIn, hs.logOut, hs.logConn, hs.logNodup⟩

/-- the receive buffer is written on both sides -/
theorem sim_buf {cfg : Cfg} {a : Spec.A} {s : State} (hs : Sim cfg a s) (b : List Nat) :
    Sim cfg { a with buf := b } { s with buf := b } :=
  ⟨hs.uids, hs.nacc, hs.fail, rfl, hs.live, hs.mods, hs.w, hs.logIn, hs.logOut, hs.logConn, hs.logNodup⟩

theorem live_upd (a : Spec.A) (u v : Nat) (f : Spec.AMod → Spec.AMod) (hf : ∀ m, (f m).uid = m.uid)
    (ha : ∀ m, (f m).alive = m.alive) :
    (a.upd u f).live v = (a.live v).map (fun m => if m.uid == u then f m else m) := by
  unfold Spec.A.live
  rw [Spec.get_upd a u v f hf]
  cases a.get v with
  | none => rfl
  | some m =>
    simp only [Option.map_some]
    have : (if m.uid == u then f m else m).alive = m.alive := by split <;> simp [ha]
    rw [this]
    split <;> rfl

/-- the same field update on the abstract entry and on the module record of connection `u` (flags that decide
    membership of the logger set untouched) -/
theorem sim_upd {cfg : Cfg} {a : Spec.A} {s : State} (hs : Sim cfg a s) (u : Nat)
    (fa : Spec.AMod → Spec.AMod) (fm : Module → Module)
    (hfa : ∀ m, (fa m).uid = m.uid) (haa : ∀ m, (fa m).alive = m.alive) (hfm : ∀ m, (fm m).uid = m.uid)
    (hrel : ∀ am m, SimMod cfg am m → SimMod cfg (fa am) (fm m))
    (hlg : ∀ m, (fm m).isLogger = m.isLogger) (hcn : ∀ m, (fm m).connected = m.connected) :
    Sim cfg (a.upd u fa) (s.upd u fm) := by
  have hfind : ∀ v, (s.upd u fm).find v = (s.find v).map (fun m => if m.uid == u then fm m else m) :=
    fun v => find_upd s u v fm hfm
  have hlive := fun v => live_upd a u v fa hfa haa
  refine ⟨by rw [Spec.uids_upd a u fa hfa]; exact hs.uids, hs.nacc, hs.fail, hs.buf, fun v hv => ?_, fun v am m h1 h2 => ?_,
    fun v hl => ?_, fun v m h1 h2 => ?_, fun v m h1 h2 => ?_, fun v m h1 h2 => ?_, hs.logNodup⟩
  · rw [hlive, hfind, Option.isSome_map, Option.isSome_map]; exact hs.live v hv
  · rw [hlive] at h1; rw [hfind] at h2
    cases ha : a.live v with
    | none => simp [ha] at h1
    | some am0 =>
      cases hm : s.find v with
      | none => simp [hm] at h2
      | some m0 =>
        simp only [ha, hm, Option.map_some, Option.some.injEq] at h1 h2
        have hr := hs.mods v am0 m0 ha hm
        have hu1 : am0.uid = v := Spec.get_uid (Spec.live_some.mp ha).1
        have hu2 : m0.uid = v := find_uid hm
        subst h1; subst h2
        rw [hu1, hu2]
        split
        · exact hrel _ _ hr
        · exact hr
  · rw [hlive, Option.isSome_map] at hl; exact hs.w v hl
  · rw [hfind] at h1
    cases hm : s.find v with
    | none => simp [hm] at h1
    | some m0 =>
      simp only [hm, Option.map_some, Option.some.injEq] at h1
      subst h1
      refine hs.logIn v m0 hm ?_
      split at h2
      · rw [← hlg]; exact h2
      · exact h2
  · rw [hfind] at h2
    cases hm : s.find v with
    | none => simp [hm] at h2
    | some m0 =>
      simp only [hm, Option.map_some, Option.some.injEq] at h2
      subst h2
      have := hs.logOut v m0 h1 hm
      split
      · rw [hlg]; exact this
      · exact this
  · rw [hfind] at h1
    cases hm : s.find v with
    | none => simp [hm] at h1
    | some m0 =>
      simp only [hm, Option.map_some, Option.some.injEq] at h1
      subst h1
      by_cases hc : (m0.uid == u) = true
      · simp only [hc, if_true] at h2 ⊢
        rw [hcn]; exact hs.logConn v m0 hm (by rw [← hlg]; exact h2)
      · simp only [hc, Bool.false_eq_true, if_false] at h2 ⊢
        exact hs.logConn v m0 hm h2

end Pyrtma.Mgr
