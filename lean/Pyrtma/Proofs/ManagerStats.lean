import Pyrtma.Proofs.Manager
/-!
# The statistics counters of M1 against the ghost history of handled frames

`State.hist` is a ghost (never read by the model): `countMsg` — the first thing `forward` does with a frame — pushes
`Mark.fwd t stats` (type of the frame, "inside a statistics send?"), `sendTiming` / `sendTraffic` push a tick mark when
their report is out.  This file shows, through the nested recursion `forward → deliver → trySend → removeModule →
forward …` (contract `AccOK`, no side condition: no fuel, no crash-freedom needed), that between two top-level
operations the two counter tables are *exactly* the tally of the marks: `AccE`.
-/
namespace Pyrtma.Mgr

/-! ## counters -/

/-- `Counter[t]` -/
def ctrVal (c : List (Int × Nat)) (t : Int) : Nat :=
  match c.find? (·.1 == t) with
  | some p => p.2
  | none => 0

def ctrKeys (c : List (Int × Nat)) : List Int := c.map (·.1)

theorem ctrKeys_inc (c : List (Int × Nat)) (t : Int) :
    ctrKeys (ctrInc c t) = if t ∈ ctrKeys c then ctrKeys c else ctrKeys c ++ [t] := by
  unfold ctrInc ctrKeys
  by_cases h : c.any (·.1 == t) = true
  · have hm : t ∈ c.map (·.1) := by
      simp only [List.any_eq_true, beq_iff_eq] at h
      obtain ⟨p, hp, rfl⟩ := h; exact List.mem_map.mpr ⟨p, hp, rfl⟩
    simp only [h, if_true, hm]
    rw [List.map_map]; congr 1; funext p; simp only [Function.comp]; split <;> rfl
  · have hm : t ∉ c.map (·.1) := by
      intro hm; apply h
      obtain ⟨p, hp, rfl⟩ := List.mem_map.mp hm
      exact List.any_eq_true.mpr ⟨p, hp, by simp⟩
    simp [h, hm]

theorem ctrKeys_nodup_inc (c : List (Int × Nat)) (t : Int) (h : (ctrKeys c).Nodup) : (ctrKeys (ctrInc c t)).Nodup := by
  rw [ctrKeys_inc]; split
  · exact h
  · rename_i hn; exact List.nodup_append.mpr ⟨h, by simp, by intro a ha b hb; simp at hb; subst hb; exact fun e => hn (e ▸ ha)⟩

theorem ctr_find_map_key (c : List (Int × Nat)) (g : Int × Nat → Int × Nat) (hk : ∀ p, (g p).1 = p.1) (t' : Int) :
    (c.map g).find? (·.1 == t') = (c.find? (·.1 == t')).map g := by
  induction c with
  | nil => rfl
  | cons p c ih =>
    simp only [List.map_cons, List.find?_cons, hk]
    cases (p.1 == t') <;> simp [ih]

/-- each `Counter[t] += 1` counts exactly once, against its own type -/
theorem ctrVal_inc (c : List (Int × Nat)) (t t' : Int) :
    ctrVal (ctrInc c t) t' = ctrVal c t' + (if t' = t then 1 else 0) := by
  unfold ctrInc ctrVal
  by_cases h : c.any (·.1 == t) = true
  · simp only [h, if_true]
    rw [ctr_find_map_key c _ (by intro p; split <;> rfl) t']
    cases hf : c.find? (·.1 == t') with
    | none =>
      have : t' ≠ t := by
        intro e; subst e
        rw [List.find?_eq_none] at hf
        simp only [List.any_eq_true] at h
        obtain ⟨p, hp, hpt⟩ := h; exact hf p hp hpt
      simp [this]
    | some p =>
      have hp : p.1 = t' := by simpa using List.find?_some hf
      simp only [Option.map_some]
      by_cases ht : t' = t
      · subst ht; simp [hp]
      · have : (p.1 == t) = false := by simp; rw [hp]; exact ht
        simp [this, ht]
  · have hf : c.any (·.1 == t) = false := Bool.eq_false_iff.mpr h
    simp only [hf, Bool.false_eq_true, if_false, List.find?_append]
    by_cases ht : t' = t
    · subst ht
      have : c.find? (·.1 == t') = none := by
        rw [List.find?_eq_none]; intro p hp; have := List.any_eq_false.mp hf p hp; simpa using this
      simp [this]
    · have : ((t == t') = false) := by simp; exact fun e => ht e.symm
      cases hc : c.find? (·.1 == t') <;> simp [this, ht]

/-- every entry of a counter built by `+= 1` is positive -/
def CtrPos (c : List (Int × Nat)) : Prop := ∀ p ∈ c, 0 < p.2

theorem ctrPos_inc (c : List (Int × Nat)) (t : Int) (h : CtrPos c) : CtrPos (ctrInc c t) := by
  unfold ctrInc
  intro p hp
  split at hp
  · obtain ⟨q, hq, rfl⟩ := List.mem_map.mp hp
    split
    · exact Nat.succ_pos _
    · exact h q hq
  · rcases List.mem_append.mp hp with h1 | h1
    · exact h p h1
    · simp at h1; subst h1; exact Nat.succ_pos _

theorem ctrVal_mem {c : List (Int × Nat)} (hn : (ctrKeys c).Nodup) {p : Int × Nat} (hp : p ∈ c) : ctrVal c p.1 = p.2 := by
  unfold ctrVal
  induction c with
  | nil => cases hp
  | cons q c ih =>
    have hn' : (ctrKeys c).Nodup := by unfold ctrKeys at *; simp at hn; exact hn.2
    rw [List.find?_cons]
    rcases List.mem_cons.mp hp with rfl | h1
    · simp
    · have hne : (q.1 == p.1) = false := by
        unfold ctrKeys at hn; simp at hn
        have := hn.1 p.2; simp; intro e; exact this (by rw [e]; exact h1)
      rw [hne]; exact ih hn' h1

theorem ctrVal_pos_iff {c : List (Int × Nat)} (hp : CtrPos c) (t : Int) : t ∈ ctrKeys c ↔ 0 < ctrVal c t := by
  unfold ctrVal ctrKeys
  constructor
  · intro h
    cases hf : c.find? (·.1 == t) with
    | none =>
      rw [List.find?_eq_none] at hf
      obtain ⟨p, hp1, rfl⟩ := List.mem_map.mp h
      exact absurd (by simp) (hf p hp1)
    | some p => exact hp p (List.mem_of_find?_eq_some hf)
  · intro h
    cases hf : c.find? (·.1 == t) with
    | none => rw [hf] at h; cases h
    | some p =>
      have h1 := List.mem_of_find?_eq_some hf
      have h2 : p.1 = t := by simpa using List.find?_some hf
      exact List.mem_map.mpr ⟨p, h1, h2⟩

/-- TIMING reports, for every type in range, the handled count modulo 2¹⁶, and nothing for a type out of range -/
theorem timingEntries_val (cfg : Cfg) (c : List (Int × Nat)) (hn : (ctrKeys c).Nodup) (t : Int) :
    ctrVal (timingEntries cfg c) t =
      if 0 ≤ t ∧ t < cfg.maxTypes then u16 (ctrVal c t) else 0 := by
  unfold timingEntries ctrVal
  induction c with
  | nil => simp [u16]
  | cons p c ih =>
    have hn' : (ctrKeys c).Nodup := by unfold ctrKeys at *; simp at hn; exact hn.2
    have hnot : ∀ q ∈ c, q.1 ≠ p.1 := by
      intro q hq e; unfold ctrKeys at hn; simp at hn; exact hn.1 q.2 (by rw [← e]; exact hq)
    have ih := ih hn'
    simp only [List.filter_cons, List.find?_cons]
    by_cases hr : (decide (0 ≤ p.1) && decide (p.1 < cfg.maxTypes)) = true
    · simp only [hr, if_true, List.map_cons, List.filter_cons]
      by_cases hz : (u16 p.2 != 0) = true
      · simp only [hz, if_true, List.find?_cons]
        by_cases hpt : p.1 = t
        · subst hpt
          have hr' : 0 ≤ p.1 ∧ p.1 < cfg.maxTypes := by simpa using hr
          simp [hr']
        · have hpt' : (p.1 == t) = false := by simpa using hpt
          simp only [hpt']; exact ih
      · have hz' : (u16 p.2 != 0) = false := by simpa using hz
        simp only [hz', Bool.false_eq_true, if_false]
        by_cases hpt : p.1 = t
        · subst hpt
          have hr' : 0 ≤ p.1 ∧ p.1 < cfg.maxTypes := by simpa using hr
          have hnone : c.find? (·.1 == p.1) = none := by
            rw [List.find?_eq_none]; intro q hq; simpa using hnot q hq
          have e0 : u16 0 = 0 := rfl
          have hz'' : u16 p.2 = 0 := by simpa using hz'
          rw [ih]; simp [hr', hnone, hz'', e0]
        · have hpt' : (p.1 == t) = false := by simpa using hpt
          simp only [hpt']; exact ih
    · have hr' : (decide (0 ≤ p.1) && decide (p.1 < cfg.maxTypes)) = false := by simpa using hr
      simp only [hr', Bool.false_eq_true, if_false]
      by_cases hpt : p.1 = t
      · subst hpt
        have hnone : c.find? (·.1 == p.1) = none := by
          rw [List.find?_eq_none]; intro q hq; simpa using hnot q hq
        have hrr : ¬(0 ≤ p.1 ∧ p.1 < cfg.maxTypes) := by simpa using hr'
        rw [ih]; simp [hrr]
      · have hpt' : (p.1 == t) = false := by simpa using hpt
        simp only [hpt']; exact ih

/-! ## the split of a MESSAGE_TRAFFIC interval into sub-messages -/

theorem chunks_flatten (n : Nat) (hn : 0 < n) : ∀ (fuel : Nat) (l : List (Int × Nat)), l.length < fuel →
    (chunks n l fuel).flatten = l
  | 0, l, h => by omega
  | fuel + 1, l, h => by
    unfold chunks
    split
    · split <;> simp_all
    · rename_i hc
      have hlen : n < l.length := by omega
      rw [List.flatten_cons, chunks_flatten n hn fuel (l.drop n) (by simp; omega), List.take_append_drop]

/-- every sub-message carries between 1 and `MESSAGE_TRAFFIC_SIZE` real entries; all but the last are full -/
theorem chunks_sizes (n : Nat) (hn : 0 < n) : ∀ (fuel : Nat) (l : List (Int × Nat)) (c : List (Int × Nat)),
    c ∈ chunks n l fuel → 0 < c.length ∧ c.length ≤ n
  | 0, l, c, h => by simp [chunks] at h
  | fuel + 1, l, c, h => by
    unfold chunks at h
    split at h
    · rename_i hc
      split at h
      · simp at h
      · rename_i he
        simp at h; subst h
        have : c ≠ [] := by simpa using he
        exact ⟨List.length_pos_iff.mpr this, by omega⟩
    · rename_i hc
      simp only [List.mem_cons] at h
      rcases h with rfl | h
      · simp; omega
      · exact chunks_sizes n hn fuel _ c h

theorem enumFrom1_fst : ∀ (i : Nat) (l : List (List (Int × Nat))),
    (enumFrom1 i l).map (·.1) = (List.range l.length).map (· + i)
  | i, [] => rfl
  | i, c :: r => by
    simp only [enumFrom1, List.map_cons, List.length_cons, List.range_succ_eq_map, List.map_map, enumFrom1_fst (i + 1) r]
    simp; intro a _; omega

theorem enumFrom1_snd : ∀ (i : Nat) (l : List (List (Int × Nat))), (enumFrom1 i l).map (·.2) = l
  | _, [] => rfl
  | i, c :: r => by simp [enumFrom1, enumFrom1_snd (i + 1) r]

/-! ## marks and tallies -/

/-- apply the marks of `e` (newest first) to the counter `c`: every frame handled outside a statistics send is `+= 1` -/
def tallyOn (c : List (Int × Nat)) (e : List Mark) : List (Int × Nat) :=
  e.foldr (fun m c => match m with | .fwd t false => ctrInc c t | _ => c) c

theorem tallyOn_append (c : List (Int × Nat)) (e2 e1 : List Mark) :
    tallyOn c (e2 ++ e1) = tallyOn (tallyOn c e1) e2 := by
  simp [tallyOn, List.foldr_append]

/-- how many frames of type `t` the marks `e` record as handled by `forward_message` outside a statistics send -/
def handled (e : List Mark) (t : Int) : Nat := e.count (.fwd t false)

theorem handled_append (e2 e1 : List Mark) (t : Int) : handled (e2 ++ e1) t = handled e2 t + handled e1 t := by
  simp [handled, List.count_append]

theorem tallyOn_cons (c : List (Int × Nat)) (m : Mark) (e : List Mark) :
    tallyOn c (m :: e) = match m with | .fwd t false => ctrInc (tallyOn c e) t | _ => tallyOn c e := rfl

theorem ctrVal_tallyOn (c : List (Int × Nat)) (e : List Mark) (t : Int) :
    ctrVal (tallyOn c e) t = ctrVal c t + handled e t := by
  induction e with
  | nil => simp [tallyOn, handled]
  | cons m e ih =>
    rw [tallyOn_cons]
    unfold handled at ih ⊢
    rw [List.count_cons]
    cases m with
    | fwd t' b =>
      cases b with
      | true =>
        have : (Mark.fwd t' true == Mark.fwd t false) = false := by simp
        simp only [this, Bool.false_eq_true, if_false]; exact ih
      | false =>
        simp only [ctrVal_inc, ih]
        by_cases h : t = t'
        · subst h; simp; omega
        · have : (Mark.fwd t' false == Mark.fwd t false) = false := by simp; exact fun e => h e.symm
          simp [this, h]
    | timingTick => simp only [show (Mark.timingTick == Mark.fwd t false) = false from rfl]; simpa using ih
    | trafficTick => simp only [show (Mark.trafficTick == Mark.fwd t false) = false from rfl]; simpa using ih

theorem tallyOn_nodup (c : List (Int × Nat)) (e : List Mark) (h : (ctrKeys c).Nodup) : (ctrKeys (tallyOn c e)).Nodup := by
  induction e with
  | nil => exact h
  | cons m e ih =>
    rw [tallyOn_cons]
    cases m with
    | fwd t b =>
      cases b with
      | false => exact ctrKeys_nodup_inc _ _ ih
      | true => exact ih
    | timingTick => exact ih
    | trafficTick => exact ih

theorem tallyOn_pos (c : List (Int × Nat)) (e : List Mark) (h : CtrPos c) : CtrPos (tallyOn c e) := by
  induction e with
  | nil => exact h
  | cons m e ih =>
    rw [tallyOn_cons]
    cases m with
    | fwd t b =>
      cases b with
      | false => exact ctrPos_inc _ _ ih
      | true => exact ih
    | timingTick => exact ih
    | trafficTick => exact ih

/-- every mark of `e` is a handled frame with statistics flag `b` whose type satisfies `P` -/
def Marks (P : Int → Bool) (b : Bool) (e : List Mark) : Prop := ∀ m ∈ e, ∃ t, m = .fwd t b ∧ P t = true

theorem Marks.nil (P : Int → Bool) (b : Bool) : Marks P b [] := fun _ h => by cases h

theorem Marks.append {P : Int → Bool} {b : Bool} {e2 e1 : List Mark} (h2 : Marks P b e2) (h1 : Marks P b e1) :
    Marks P b (e2 ++ e1) := fun m hm => by
  rcases List.mem_append.mp hm with h | h
  · exact h2 m h
  · exact h1 m h

theorem Marks.mono {P Q : Int → Bool} {b : Bool} {e : List Mark} (h : Marks P b e) (hpq : ∀ t, P t = true → Q t = true) :
    Marks Q b e := fun m hm => by
  obtain ⟨t, rfl, ht⟩ := h m hm; exact ⟨t, rfl, hpq t ht⟩

theorem Marks.single (P : Int → Bool) (b : Bool) (t : Int) (h : P t = true) : Marks P b [.fwd t b] := fun m hm => by
  simp at hm; exact ⟨t, hm, h⟩

/-- marks made inside a statistics send change no counter -/
theorem tallyOn_stats (c : List (Int × Nat)) {P : Int → Bool} {e : List Mark} (h : Marks P true e) : tallyOn c e = c := by
  induction e with
  | nil => rfl
  | cons m e ih =>
    rw [tallyOn_cons]
    obtain ⟨t, rfl, _⟩ := h m (by simp)
    exact ih (fun m' hm' => h m' (by simp [hm']))

theorem handled_stats {P : Int → Bool} {e : List Mark} (h : Marks P true e) (t : Int) : handled e t = 0 := by
  unfold handled
  rw [List.count_eq_zero]
  intro hm
  obtain ⟨t', he, _⟩ := h _ hm
  cases he

/-! ## the statistics part of the state -/

/-- everything the statistics are made of -/
def State.stat (s : State) :=
  (s.hist, s.traffic, s.counts, s.inTraffic, s.trafficSeq, s.now, s.tTiming, s.tTraffic, s.tInfo, s.buf)

/-- `s'` is reached from `s` by manager activity that handled exactly the frames `e` (newest first; all with the
    statistics flag of `s`, all of a type satisfying `P`) and made no report: both counters are the old ones with the
    marks of `e` applied, the clocks and the interval number did not move -/
structure AccE (cfg : Cfg) (P : Int → Bool) (s s' : State) (e : List Mark) : Prop where
  hist : s'.hist = e ++ s.hist
  marks : Marks P s.inTraffic e
  traffic : s'.traffic = tallyOn s.traffic e
  counts : s'.counts = if cfg.timing then tallyOn s.counts e else s.counts
  inT : s'.inTraffic = s.inTraffic
  seq : s'.trafficSeq = s.trafficSeq
  now : s'.now = s.now
  tT : s'.tTiming = s.tTiming
  tR : s'.tTraffic = s.tTraffic
  tI : s'.tInfo = s.tInfo
  buf : s'.buf = s.buf

def Acc (cfg : Cfg) (P : Int → Bool) (s s' : State) : Prop := ∃ e, AccE cfg P s s' e

theorem accE_of_stat {cfg : Cfg} {P : Int → Bool} {s s' : State} (h : s'.stat = s.stat) : AccE cfg P s s' [] := by
  simp only [State.stat, Prod.mk.injEq] at h
  obtain ⟨h1, h2, h3, h4, h5, h6, h7, h8, h9, h10⟩ := h
  exact ⟨by simpa using h1, Marks.nil _ _, h2, by rw [h3]; simp [tallyOn], h4, h5, h6, h7, h8, h9, h10⟩

theorem acc_of_stat {cfg : Cfg} {P : Int → Bool} {s s' : State} (h : s'.stat = s.stat) : Acc cfg P s s' :=
  ⟨[], accE_of_stat h⟩

theorem Acc.refl (cfg : Cfg) (P : Int → Bool) (s : State) : Acc cfg P s s := acc_of_stat rfl

theorem AccE.trans {cfg : Cfg} {P : Int → Bool} {s s' s'' : State} {e1 e2 : List Mark}
    (h1 : AccE cfg P s s' e1) (h2 : AccE cfg P s' s'' e2) : AccE cfg P s s'' (e2 ++ e1) := by
  refine ⟨by rw [h2.hist, h1.hist, List.append_assoc], Marks.append (by rw [← h1.inT]; exact h2.marks) h1.marks,
    by rw [h2.traffic, h1.traffic, tallyOn_append], ?_, h2.inT.trans h1.inT, h2.seq.trans h1.seq, h2.now.trans h1.now,
    h2.tT.trans h1.tT, h2.tR.trans h1.tR, h2.tI.trans h1.tI, h2.buf.trans h1.buf⟩
  rw [h2.counts, h1.counts]
  split
  · rw [tallyOn_append]
  · rfl

theorem Acc.trans {cfg : Cfg} {P : Int → Bool} {s s' s'' : State} (h1 : Acc cfg P s s') (h2 : Acc cfg P s' s'') :
    Acc cfg P s s'' := by
  obtain ⟨e1, h1⟩ := h1; obtain ⟨e2, h2⟩ := h2; exact ⟨e2 ++ e1, h1.trans h2⟩

theorem AccE.mono {cfg : Cfg} {P Q : Int → Bool} {s s' : State} {e : List Mark} (h : AccE cfg P s s' e)
    (hpq : ∀ t, P t = true → Q t = true) : AccE cfg Q s s' e :=
  ⟨h.hist, h.marks.mono hpq, h.traffic, h.counts, h.inT, h.seq, h.now, h.tT, h.tR, h.tI, h.buf⟩

theorem Acc.mono {cfg : Cfg} {P Q : Int → Bool} {s s' : State} (h : Acc cfg P s s')
    (hpq : ∀ t, P t = true → Q t = true) : Acc cfg Q s s' := by
  obtain ⟨e, h⟩ := h; exact ⟨e, h.mono hpq⟩

@[simp] theorem stat_emit (s : State) (e : Ev) : (s.emit e).stat = s.stat := rfl
@[simp] theorem stat_upd (s : State) (u : Nat) (f : Module → Module) : (s.upd u f).stat = s.stat := rfl
theorem stat_crash (s : State) (w : String) : (s.crash w).stat = s.stat := by unfold State.crash; split <;> rfl

theorem stat_removePrep (s : State) (u : Nat) (m : Module) : (removePrep s u m).stat = s.stat := by
  unfold removePrep; dsimp only; split <;> rfl

theorem stat_sendRaw (s : State) (u : Nat) (f : Frame) : (sendRaw s u f).1.stat = s.stat := by
  unfold sendRaw
  split
  · exact stat_crash _ _
  · split
    · exact stat_crash _ _
    · dsimp only; split <;> rfl

/-! ## the nested recursion -/

/-- the types of the frames the manager forwards *inside* a delivery: CLIENT_CLOSED, FAILED_MESSAGE, RTMA_LOG* -/
def nestedType (cfg : Cfg) (t : Int) : Bool := t == cfg.mtClosed || inGuard cfg t

theorem inGuard_logType (cfg : Cfg) (lvl : Nat) : inGuard cfg (logType cfg lvl) = true := by
  unfold inGuard logType
  simp only [Bool.or_eq_true, beq_iff_eq, Bool.and_eq_true, decide_eq_true_eq]
  right; (repeat' split) <;> constructor <;> omega

theorem nested_log (cfg : Cfg) (lvl : Nat) : nestedType cfg (logFrame cfg lvl).mtype = true := by
  unfold nestedType; rw [show (logFrame cfg lvl).mtype = logType cfg lvl from rfl, inGuard_logType]; simp

theorem nested_closed (cfg : Cfg) (m : Module) : nestedType cfg (closedFrame cfg m).mtype = true := by
  unfold nestedType; simp [closedFrame, mgrFrame]

theorem nested_failed (cfg : Cfg) (d : Int) (f : Frame) : nestedType cfg (failedFrame cfg d f).mtype = true := by
  unfold nestedType inGuard; simp [failedFrame, mgrFrame]

/-- the contract of the nested forward: it handles frames of the nested types only, and counts every one of them -/
def AccOK (cfg : Cfg) (fwd : Fwd) : Prop :=
  ∀ s g, nestedType cfg g.mtype = true → Acc cfg (nestedType cfg) s (fwd s g)

section chain
variable {cfg : Cfg} {fwd : Fwd} (hf : AccOK cfg fwd)
include hf

theorem logAt_acc (lvl : Nat) (s : State) : Acc cfg (nestedType cfg) s (logAt cfg fwd lvl s) := by
  unfold logAt; split
  · exact hf s _ (nested_log cfg lvl)
  · exact Acc.refl _ _ s

theorem removeModule_acc (s : State) (u : Nat) : Acc cfg (nestedType cfg) s (removeModule cfg fwd s u) := by
  unfold removeModule
  split
  · exact Acc.refl _ _ s
  · rename_i m _
    dsimp only
    have h1 : Acc cfg (nestedType cfg) s (removePrep s u m) := acc_of_stat (stat_removePrep s u m)
    have h2 := logAt_acc hf 10 (removePrep s u m)
    have h3 := hf (logAt cfg fwd 10 (removePrep s u m)) (closedFrame cfg { m with connected := false }) (nested_closed cfg _)
    exact ((h1.trans h2).trans h3).trans (acc_of_stat rfl)

theorem failedMsg_acc (s : State) (d : Int) (f : Frame) : Acc cfg (nestedType cfg) s (failedMsg cfg fwd s d f) := by
  unfold failedMsg; split
  · exact Acc.refl _ _ s
  · exact hf s _ (nested_failed cfg d f)

theorem trySend_acc (s : State) (u : Nat) (f : Frame) : Acc cfg (nestedType cfg) s (trySend cfg fwd s u f) := by
  unfold trySend
  dsimp only
  have h1 : Acc cfg (nestedType cfg) s (sendRaw s u f).1 := acc_of_stat (stat_sendRaw s u f)
  generalize sendRaw s u f = r at h1
  obtain ⟨s1, okb⟩ := r
  simp only at h1 ⊢
  split
  · exact h1.trans (acc_of_stat rfl)
  · split
    · exact h1
    · exact ((h1.trans (removeModule_acc hf s1 u)).trans (logAt_acc hf 40 _)).trans (failedMsg_acc hf _ _ f)

theorem deliverOne_acc (f : Frame) (s : State) (u : Nat) : Acc cfg (nestedType cfg) s (deliverOne cfg fwd f s u) := by
  unfold deliverOne
  split
  · exact Acc.refl _ _ s
  · split
    · split
      · exact trySend_acc hf s u f
      · exact Acc.refl _ _ s
    · split
      · exact trySend_acc hf s u f
      · exact (acc_of_stat (s := s) (s' := s.upd u fun m => { m with drops := m.drops + 1 }) rfl).trans
          (failedMsg_acc hf _ _ f)

theorem deliver_acc (f : Frame) : ∀ (rs : List Nat) (s : State), Acc cfg (nestedType cfg) s (deliver cfg fwd f rs s)
  | [], s => Acc.refl _ _ s
  | u :: rest, s => by
    unfold deliver
    exact (deliverOne_acc hf f s u).trans (deliver_acc f rest _)

end chain

theorem countMsg_accE (cfg : Cfg) (s : State) (t : Int) :
    AccE cfg (fun _ => true) s (countMsg cfg s t) [.fwd t s.inTraffic] := by
  unfold countMsg
  by_cases hb : s.inTraffic = true
  · simp only [hb, if_true]
    exact ⟨rfl, by rw [hb]; exact Marks.single _ _ t rfl, rfl, by simp [tallyOn], by simp [hb], rfl, rfl, rfl, rfl, rfl, rfl⟩
  · have hb' : s.inTraffic = false := by simpa using hb
    simp only [hb', Bool.false_eq_true, if_false]
    exact ⟨rfl, by rw [hb']; exact Marks.single _ _ t rfl, rfl, by split <;> rfl, by simp [hb'], rfl, rfl, rfl, rfl, rfl, rfl⟩

/-- **`forward_message` handles its frame exactly once, and counts everything nested in it**: the marks it leaves are
its own frame's (unless it is out of fuel or the manager has crashed) below those of the CLIENT_CLOSED / FAILED_MESSAGE /
RTMA_LOG frames forwarded inside it, at any depth; both counters moved by exactly these marks. -/
theorem forward_accE (cfg : Cfg) : ∀ (n : Nat) (s : State) (g : Frame),
    ∃ e', Marks (nestedType cfg) s.inTraffic e' ∧
      AccE cfg (fun _ => true) s (forward cfg n s g)
        (e' ++ (if n = 0 ∨ s.crashed.isSome = true then [] else [.fwd g.mtype s.inTraffic]))
  | 0, s, g => ⟨[], Marks.nil _ _, by simpa [forward] using accE_of_stat (stat_crash s _)⟩
  | n + 1, s, g => by
    have ih : AccOK cfg (forward cfg n) := fun s' g' hg' => by
      obtain ⟨e', hm, ha⟩ := forward_accE cfg n s' g'
      refine ⟨_, ⟨ha.hist, ?_, ha.traffic, ha.counts, ha.inT, ha.seq, ha.now, ha.tT, ha.tR, ha.tI, ha.buf⟩⟩
      refine Marks.append hm ?_
      split
      · exact Marks.nil _ _
      · exact Marks.single _ _ _ hg'
    unfold forward
    by_cases hc : s.crashed.isSome = true
    · simp only [hc, if_true]
      exact ⟨[], Marks.nil _ _, by simpa using accE_of_stat rfl⟩
    · simp only [hc, Bool.false_eq_true, if_false, Nat.succ_ne_zero, or_self]
      have h0 := countMsg_accE cfg s g.mtype
      have key : ∀ s2, Acc cfg (nestedType cfg) (countMsg cfg s g.mtype) s2 →
          ∃ e', Marks (nestedType cfg) s.inTraffic e' ∧ AccE cfg (fun _ => true) s s2 (e' ++ [.fwd g.mtype s.inTraffic]) := by
        intro s2 ⟨e2, h2⟩
        exact ⟨e2, by rw [← h0.inT]; exact h2.marks, h0.trans (h2.mono (fun _ _ => rfl))⟩
      split
      · exact key _ (logAt_acc ih 40 _)
      · split
        · exact key _ (logAt_acc ih 40 _)
        · exact key _ (deliver_acc ih g _ _)

theorem forward_accOK (cfg : Cfg) (n : Nat) : AccOK cfg (forward cfg n) := fun s g hg => by
  obtain ⟨e', hm, ha⟩ := forward_accE cfg n s g
  refine ⟨_, ⟨ha.hist, ?_, ha.traffic, ha.counts, ha.inT, ha.seq, ha.now, ha.tT, ha.tR, ha.tI, ha.buf⟩⟩
  refine Marks.append hm ?_
  split
  · exact Marks.nil _ _
  · exact Marks.single _ _ _ hg

theorem fwdTop_accOK (cfg : Cfg) : AccOK cfg (fwdTop cfg) := fun s g hg => forward_accOK cfg _ s g hg

/-! ## top level: every operation of `run()` -/

/-- the types the manager itself originates (the same list as `Spec.isMgrType`) -/
def mgrType (cfg : Cfg) (t : Int) : Bool :=
  t == cfg.mtAck || t == cfg.mtFailed || t == cfg.mtInfo || t == cfg.mtClosed || t == cfg.mtActive ||
  t == cfg.mtTraffic || t == cfg.mtTiming || (cfg.mtLog ≤ t && t ≤ cfg.mtLog + 5)

theorem nested_mgr (cfg : Cfg) (t : Int) (h : nestedType cfg t = true) : mgrType cfg t = true := by
  unfold nestedType inGuard at h; unfold mgrType
  simp only [Bool.or_eq_true, beq_iff_eq, Bool.and_eq_true, decide_eq_true_eq] at h ⊢
  omega

/-- activity that handles manager-originated frames only -/
abbrev MAcc (cfg : Cfg) (s s' : State) : Prop := Acc cfg (mgrType cfg) s s'

/-- activity that may handle frames of any type -/
abbrev AnyAcc (cfg : Cfg) (s s' : State) : Prop := Acc cfg (fun _ => true) s s'

theorem MAcc.any {cfg : Cfg} {s s' : State} (h : MAcc cfg s s') : AnyAcc cfg s s' := h.mono (fun _ _ => rfl)

theorem fuelOf_ne_zero (cfg : Cfg) (s : State) : fuelOf cfg s ≠ 0 := by
  unfold fuelOf autoFuel; split
  · omega
  · rename_i h; simpa using h

/-- a top-level forward: the frame's own mark (if the manager has not crashed) below nested ones -/
theorem fwdTop_accE (cfg : Cfg) (s : State) (g : Frame) :
    ∃ e', Marks (nestedType cfg) s.inTraffic e' ∧
      AccE cfg (fun _ => true) s (fwdTop cfg s g) (e' ++ (if s.crashed.isSome = true then [] else [.fwd g.mtype s.inTraffic])) := by
  obtain ⟨e', hm, ha⟩ := forward_accE cfg (fuelOf cfg s) s g
  refine ⟨e', hm, ?_⟩
  show AccE cfg (fun _ => true) s (forward cfg (fuelOf cfg s) s g) _
  simpa [fuelOf_ne_zero] using ha

theorem fwdTop_any (cfg : Cfg) (s : State) (g : Frame) : AnyAcc cfg s (fwdTop cfg s g) := by
  obtain ⟨e', _, ha⟩ := fwdTop_accE cfg s g; exact ⟨_, ha⟩

theorem fwdTop_macc (cfg : Cfg) (s : State) (g : Frame) (hg : mgrType cfg g.mtype = true) : MAcc cfg s (fwdTop cfg s g) := by
  obtain ⟨e', hm, ha⟩ := fwdTop_accE cfg s g
  refine ⟨_, ⟨ha.hist, ?_, ha.traffic, ha.counts, ha.inT, ha.seq, ha.now, ha.tT, ha.tR, ha.tI, ha.buf⟩⟩
  refine Marks.append (hm.mono (nested_mgr cfg)) ?_
  split
  · exact Marks.nil _ _
  · exact Marks.single _ _ _ hg

section top
variable (cfg : Cfg)

theorem logAt_macc (lvl : Nat) (s : State) : MAcc cfg s (logAt cfg (fwdTop cfg) lvl s) :=
  (logAt_acc (fwdTop_accOK cfg) lvl s).mono (nested_mgr cfg)

theorem removeModule_macc (s : State) (u : Nat) : MAcc cfg s (removeModule cfg (fwdTop cfg) s u) :=
  (removeModule_acc (fwdTop_accOK cfg) s u).mono (nested_mgr cfg)

theorem trySend_macc (s : State) (u : Nat) (f : Frame) : MAcc cfg s (trySend cfg (fwdTop cfg) s u f) :=
  (trySend_acc (fwdTop_accOK cfg) s u f).mono (nested_mgr cfg)

theorem toLoggers_macc (f : Frame) : ∀ (ls : List Nat) (s : State), MAcc cfg s (toLoggers cfg f ls s)
  | [], s => Acc.refl _ _ s
  | u :: rest, s => by
    unfold toLoggers
    refine Acc.trans ?_ (toLoggers_macc f rest _)
    unfold loggerOne; split
    · exact Acc.refl _ _ s
    · exact trySend_macc cfg s u f

theorem sendAck_macc (s : State) (u : Nat) : MAcc cfg s (sendAck cfg s u) := by
  unfold sendAck; split
  · exact Acc.refl _ _ s
  · exact (trySend_macc cfg s u _).trans (toLoggers_macc cfg _ _ _)

theorem clashLoop_macc (me : Module) : ∀ (os : List Module) (s : State), MAcc cfg s (clashLoop cfg me os s).1
  | [], s => Acc.refl _ _ s
  | o :: rest, s => by
    unfold clashLoop
    split
    · exact Acc.refl _ _ s
    · refine Acc.trans ?_ (clashLoop_macc me rest _)
      split
      · exact Acc.refl _ _ s
      · exact logAt_macc cfg 10 s

theorem connect_macc (s : State) (u : Nat) (hd : Hdr) : MAcc cfg s (connectModule cfg s u hd).1 := by
  unfold connectModule
  dsimp only
  split
  · exact Acc.refl _ _ s
  · split
    · exact ((acc_of_stat (s := s) (s' := s.upd u (setReq cfg s.buf hd)) rfl).trans (logAt_macc cfg 40 _)).trans
        (removeModule_macc cfg _ u)
    · rename_i nm _
      have h1 : MAcc cfg s (s.upd u (setAll cfg s.buf hd nm)) := acc_of_stat rfl
      split
      · split
        · exact (h1.trans (logAt_macc cfg 40 _)).trans (removeModule_macc cfg _ u)
        · have hl := clashLoop_macc cfg (setAll cfg s.buf hd nm (lookupMod s u))
            ((s.upd u (setAll cfg s.buf hd nm)).mods.filter (·.uid != u)) (s.upd u (setAll cfg s.buf hd nm))
          generalize clashLoop cfg (setAll cfg s.buf hd nm (lookupMod s u))
            ((s.upd u (setAll cfg s.buf hd nm)).mods.filter (·.uid != u)) (s.upd u (setAll cfg s.buf hd nm)) = r at hl
          obtain ⟨s2, cl⟩ := r
          dsimp only at hl ⊢
          split
          · exact ((h1.trans hl).trans (logAt_macc cfg 40 _)).trans (removeModule_macc cfg _ u)
          · exact (h1.trans hl).trans (acc_of_stat rfl)
      · split
        · exact (h1.trans (logAt_macc cfg 40 _)).trans (removeModule_macc cfg _ u)
        · exact h1.trans (acc_of_stat rfl)

theorem stat_addSubCore (s : State) (u : Nat) (t : Int) : (addSubCore cfg s u t).stat = s.stat := by
  unfold addSubCore; dsimp only; split
  · rfl
  · split <;> rfl

theorem stat_removeSubCore (s : State) (u : Nat) (t : Int) : (removeSubCore cfg s u t).stat = s.stat := by
  unfold removeSubCore; dsimp only; split
  · rfl
  · split <;> rfl

theorem addSub_macc (s : State) (u : Nat) (t : Int) : MAcc cfg s (addSub cfg s u t) := by
  unfold addSub; split
  · exact (acc_of_stat (stat_addSubCore cfg s u t)).trans (logAt_macc cfg 10 _)
  · exact acc_of_stat (stat_addSubCore cfg s u t)

theorem removeSub_macc (s : State) (u : Nat) (t : Int) : MAcc cfg s (removeSub cfg s u t) := by
  unfold removeSub; split
  · exact (acc_of_stat (stat_removeSubCore cfg s u t)).trans (logAt_macc cfg 10 _)
  · exact acc_of_stat (stat_removeSubCore cfg s u t)

theorem mgr_info (m : Module) : mgrType cfg (infoFrame cfg m).mtype = true := by
  unfold mgrType; simp [infoFrame, mgrFrame]

theorem infoOf_macc (s : State) (m : Module) : MAcc cfg s (infoOf cfg s m) := by
  unfold infoOf; exact (logAt_macc cfg 10 s).trans (fwdTop_macc cfg _ _ (mgr_info cfg m))

theorem sendInfo_macc (s : State) (u : Nat) : MAcc cfg s (sendInfo cfg s u) := by
  unfold sendInfo; split
  · exact Acc.refl _ _ s
  · exact infoOf_macc cfg s _

/-- the control frames: consumed by the manager, never forwarded (the same list as `Spec.isControl`) -/
def ctlType (cfg : Cfg) (t : Int) : Bool :=
  t == cfg.mtConnect || t == cfg.mtConnectV2 || t == cfg.mtDisconnect || t == cfg.mtSubscribe ||
  t == cfg.mtUnsubscribe || t == cfg.mtPause || t == cfg.mtResume || t == cfg.mtSetName || t == cfg.mtModuleReady

/-- a frame that is not a control frame is forwarded (after the DEBUG log line) -/
theorem process_data_eq (s : State) (u : Nat) (h : Hdr) (hc : ctlType cfg h.mtype = false) :
    processMessage cfg s u h = fwdTop cfg (logAt cfg (fwdTop cfg) 10 s)
      { mtype := h.mtype, src := h.src, dest := h.dest, destHost := h.destHost, nbytes := h.nbytes.toNat, body := .data h.k } := by
  unfold ctlType at hc
  simp only [Bool.or_eq_false_iff] at hc
  obtain ⟨⟨⟨⟨⟨⟨⟨⟨h1, h2⟩, h3⟩, h4⟩, h5⟩, h6⟩, h7⟩, h8⟩, h9⟩ := hc
  unfold processMessage
  simp only [h1, h2, h3, h4, h5, h6, h7, h8, h9, Bool.or_self, Bool.false_eq_true, if_false]

/-- handling a control frame handles manager-originated frames only -/
theorem process_ctl_macc (s : State) (u : Nat) (h : Hdr) (hc : ctlType cfg h.mtype = true) :
    MAcc cfg s (processMessage cfg s u h) := by
  unfold processMessage
  dsimp only
  split
  · have hcn := connect_macc cfg s u h
    generalize connectModule cfg s u h = r at hcn
    obtain ⟨s1, okb⟩ := r
    simp only at hcn ⊢
    split
    · exact ((hcn.trans (sendAck_macc cfg s1 u)).trans (infoOf_macc cfg _ _)).trans (logAt_macc cfg 20 _)
    · exact hcn
  · split
    · exact (removeModule_macc cfg s u).trans (logAt_macc cfg 20 _)
    · split
      · exact (addSub_macc cfg s u _).trans (sendAck_macc cfg _ u)
      · split
        · exact (removeSub_macc cfg s u _).trans (sendAck_macc cfg _ u)
        · split
          · split
            · exact (logAt_macc cfg 40 s).trans (removeModule_macc cfg _ u)
            · exact ((acc_of_stat (s := s) (s' := s.upd u _) rfl).trans (logAt_macc cfg 20 _)).trans (infoOf_macc cfg _ _)
          · split
            · exact (acc_of_stat (s := s) (s' := s.upd u _) rfl).trans (sendInfo_macc cfg _ u)
            · rename_i n1 n2 n3 n4 n5 n6
              exfalso
              unfold ctlType at hc
              simp only [Bool.or_eq_true, beq_iff_eq] at hc n1 n2 n3 n4 n5 n6
              omega

theorem process_any (s : State) (u : Nat) (h : Hdr) : AnyAcc cfg s (processMessage cfg s u h) := by
  cases hc : ctlType cfg h.mtype with
  | true => exact (process_ctl_macc cfg s u h hc).any
  | false => rw [process_data_eq cfg s u h hc]; exact (logAt_macc cfg 10 s).any.trans (fwdTop_any cfg _ _)

/-- a frame that cannot be read whole -/
def readBroken (cfg : Cfg) (r : Read) : Bool :=
  r.hdrErr || !r.hdrOk || r.h.nbytes < 0 || r.h.nbytes > cfg.bufMax ||
    (r.h.nbytes > 0 && (r.payErr || (r.avail : Int) < r.h.nbytes))

/-- what the payload read leaves in the buffer -/
def bufAfter (cfg : Cfg) (buf : List Nat) (r : Read) : List Nat :=
  if r.hdrErr || !r.hdrOk || r.h.nbytes ≤ 0 || r.h.nbytes > cfg.bufMax || r.payErr then buf
  else bufWrite buf r.pay (min r.avail r.h.nbytes.toNat)

/-- `readOne` on a connection that is in the table: the marker, the buffer, then either the removal (broken frame) or
    `processMessage` -/
theorem readOne_eq (s : State) (r : Read) (hc : s.crashed = none) (m : Module) (hm : s.find r.uid = some m) :
    readOne cfg s r =
      if readBroken cfg r then
        logAt cfg (fwdTop cfg) (if r.hdrErr || (!(!r.hdrOk || r.h.nbytes < 0 || r.h.nbytes > cfg.bufMax) && r.payErr) then 40 else 30)
          (removeModule cfg (fwdTop cfg) { (s.emit (.rd r.uid)) with buf := bufAfter cfg s.buf r } r.uid)
      else processMessage cfg { (s.emit (.rd r.uid)) with buf := bufAfter cfg s.buf r } r.uid r.h := by
  unfold readOne readBroken bufAfter
  simp only [hc, Option.isSome_none, Bool.false_eq_true, if_false, hm]
  by_cases h1 : r.hdrErr = true
  · simp [h1]; rfl
  · have h1' : r.hdrErr = false := by simpa using h1
    simp only [h1', Bool.false_eq_true, if_false, Bool.false_or]
    by_cases h2 : r.hdrOk = true
    · simp only [h2, Bool.not_true, Bool.false_eq_true, if_false, Bool.false_or]
      by_cases h3 : (decide (r.h.nbytes < 0) || decide (r.h.nbytes > cfg.bufMax)) = true
      · have h3' : (decide (r.h.nbytes ≤ 0) || decide (r.h.nbytes > cfg.bufMax)) = true ∨ True := Or.inr trivial
        simp only [h3, if_true, Bool.true_or, Bool.not_true, Bool.false_and]
        simp only [Bool.or_eq_true, decide_eq_true_eq] at h3
        rcases h3 with h3 | h3
        · have : r.h.nbytes ≤ 0 := by omega
          simp [this]; rfl
        · simp [h3]; rfl
      · have h3' : (decide (r.h.nbytes < 0) || decide (r.h.nbytes > cfg.bufMax)) = false := by simpa using h3
        simp only [Bool.or_eq_false_iff, decide_eq_false_iff_not] at h3'
        obtain ⟨h3a, h3b⟩ := h3'
        simp only [h3a, h3b, decide_false, Bool.or_false, Bool.false_eq_true, if_false, Bool.false_or, Bool.not_false, Bool.true_and]
        by_cases h4 : r.h.nbytes > 0
        · have h4' : ¬ r.h.nbytes ≤ 0 := by omega
          simp only [h4, h4', decide_true, decide_false, if_true, Bool.true_and, Bool.false_or]
          by_cases h5 : r.payErr = true
          · simp [h5]; rfl
          · have h5' : r.payErr = false := by simpa using h5
            simp only [h5', Bool.false_eq_true, if_false, Bool.false_or]
            by_cases h6 : r.avail < r.h.nbytes.toNat
            · have : (r.avail : Int) < r.h.nbytes := by omega
              have hmin : min r.avail r.h.nbytes.toNat = r.avail := by omega
              simp [h6, this, hmin]; rfl
            · have : ¬ (r.avail : Int) < r.h.nbytes := by omega
              have hmin : min r.avail r.h.nbytes.toNat = r.h.nbytes.toNat := by omega
              simp [h6, this, hmin]; rfl
        · have h4' : r.h.nbytes ≤ 0 := by omega
          simp [h4, h4']; rfl
    · have h2' : r.hdrOk = false := by simpa using h2
      simp [h2']; rfl

/-- the state in which the frame just read is handled: the read marker is logged, the payload is in the buffer -/
def afterRead (cfg : Cfg) (s : State) (r : Read) : State := { (s.emit (.rd r.uid)) with buf := bufAfter cfg s.buf r }

/-- `readOne` either does nothing (crashed manager, connection no longer in the table) or handles the frame in
    `afterRead` -/
theorem readOne_cases (s : State) (r : Read) :
    readOne cfg s r = s ∨
    (s.crashed = none ∧ (∃ m, s.find r.uid = some m) ∧
      readOne cfg s r =
        if readBroken cfg r then
          logAt cfg (fwdTop cfg) (if r.hdrErr || (!(!r.hdrOk || r.h.nbytes < 0 || r.h.nbytes > cfg.bufMax) && r.payErr) then 40 else 30)
            (removeModule cfg (fwdTop cfg) (afterRead cfg s r) r.uid)
        else processMessage cfg (afterRead cfg s r) r.uid r.h) := by
  cases hc : s.crashed with
  | some w => left; unfold readOne; simp [hc]
  | none =>
    cases hm : s.find r.uid with
    | none => left; unfold readOne; simp [hc, hm]
    | some m => right; exact ⟨rfl, ⟨m, rfl⟩, readOne_eq cfg s r hc m hm⟩

theorem afterRead_any (s : State) (r : Read) : AnyAcc cfg (afterRead cfg s r) (readOne cfg s r) ∨ readOne cfg s r = s := by
  rcases readOne_cases cfg s r with h | ⟨_, _, h⟩
  · exact Or.inr h
  · left; rw [h]; split
    · exact MAcc.any ((removeModule_macc cfg _ _).trans (logAt_macc cfg _ _))
    · exact process_any cfg _ _ _

theorem accept_macc (s : State) : MAcc cfg s (acceptStep cfg s) := by
  unfold acceptStep; exact (logAt_macc cfg 20 s).trans (acc_of_stat rfl)

theorem infoAll_macc : ∀ (ms : List Module) (s : State), MAcc cfg s (infoAll cfg ms s)
  | [], s => Acc.refl _ _ s
  | m :: rest, s => by unfold infoAll; exact (infoOf_macc cfg s _).trans (infoAll_macc rest _)

theorem foldl_fwdTop_any : ∀ (fs : List Frame) (s : State), AnyAcc cfg s (fs.foldl (fwdTop cfg) s)
  | [], s => Acc.refl _ _ s
  | f :: rest, s => by simp only [List.foldl_cons]; exact (fwdTop_any cfg s f).trans (foldl_fwdTop_any rest _)

/-- ACTIVE_CLIENTS: handled like any frame, outside the statistics context (so it is counted); the clock field it sets is
    its own -/
theorem sendActive_acc (s : State) : ∃ s1, MAcc cfg s s1 ∧ sendActive cfg s = { s1 with tInfo := s1.now } := by
  unfold sendActive
  dsimp only
  refine ⟨_, ?_, rfl⟩
  refine ((logAt_macc cfg 10 s).trans (infoAll_macc cfg _ _)).trans (fwdTop_macc cfg _ _ ?_)
  unfold mgrType; simp [mgrFrame]

end top

/-! ## the invariant between two top-level operations -/

/-- the marks since the last `tick` mark (the history is newest first) -/
def sinceTick (tick : Mark) (h : List Mark) : List Mark := h.takeWhile (· != tick)

theorem sinceTick_marks {P : Int → Bool} {b : Bool} {e : List Mark} (he : Marks P b e) (tick : Mark)
    (ht : ∀ t b, tick ≠ .fwd t b) (h : List Mark) : sinceTick tick (e ++ h) = e ++ sinceTick tick h := by
  unfold sinceTick
  induction e with
  | nil => rfl
  | cons m e ih =>
    obtain ⟨t, rfl, _⟩ := he m (by simp)
    have : (Mark.fwd t b != tick) = true := by simp; exact fun e => ht t b e.symm
    simp only [List.cons_append, List.takeWhile_cons, this, if_true]
    rw [ih (fun m' hm' => he m' (by simp [hm']))]

/-- **Between two top-level operations both counter tables are exactly the tally of the frames handled since the last
report**: `traffic_counter` of those since the last MESSAGE_TRAFFIC report, `message_counts` (when TIMING is on) of those
since the last TIMING_MESSAGE; and the manager is not inside a statistics send. -/
structure StatInv (cfg : Cfg) (s : State) : Prop where
  idle : s.inTraffic = false
  traffic : s.traffic = tallyOn [] (sinceTick .trafficTick s.hist)
  counts : s.counts = if cfg.timing then tallyOn [] (sinceTick .timingTick s.hist) else []

theorem statInv_of_stat {cfg : Cfg} {s s' : State} (h : StatInv cfg s) (he : s'.stat = s.stat) : StatInv cfg s' := by
  simp only [State.stat, Prod.mk.injEq] at he
  obtain ⟨h1, h2, h3, h4, _⟩ := he
  exact ⟨by rw [h4]; exact h.idle, by rw [h2, h1]; exact h.traffic, by rw [h3, h1]; exact h.counts⟩

theorem statInv_same {cfg : Cfg} {s s' : State} (h : StatInv cfg s) (h1 : s'.hist = s.hist) (h2 : s'.traffic = s.traffic)
    (h3 : s'.counts = s.counts) (h4 : s'.inTraffic = s.inTraffic) : StatInv cfg s' :=
  ⟨by rw [h4]; exact h.idle, by rw [h2, h1]; exact h.traffic, by rw [h3, h1]; exact h.counts⟩

theorem statInv_accE {cfg : Cfg} {P : Int → Bool} {s s' : State} {e : List Mark} (h : StatInv cfg s)
    (ha : AccE cfg P s s' e) : StatInv cfg s' := by
  refine ⟨ha.inT.trans h.idle, ?_, ?_⟩
  · rw [ha.traffic, ha.hist, sinceTick_marks ha.marks _ (by intro t b e; cases e), h.traffic, ← tallyOn_append]
  · rw [ha.counts, ha.hist, sinceTick_marks ha.marks _ (by intro t b e; cases e), h.counts]
    split
    · rw [← tallyOn_append]
    · rfl

theorem statInv_acc {cfg : Cfg} {P : Int → Bool} {s s' : State} (h : StatInv cfg s) (ha : Acc cfg P s s') :
    StatInv cfg s' := by
  obtain ⟨e, ha⟩ := ha; exact statInv_accE h ha

theorem sinceTick_self (tick : Mark) (h : List Mark) : sinceTick tick (tick :: h) = [] := by
  simp [sinceTick]

theorem sinceTick_other (tick m : Mark) (h : List Mark) (hne : m ≠ tick) :
    sinceTick tick (m :: h) = m :: sinceTick tick h := by
  simp [sinceTick, hne]

theorem readOne_statInv {cfg : Cfg} {s : State} (h : StatInv cfg s) (r : Read) : StatInv cfg (readOne cfg s r) := by
  rcases afterRead_any cfg s r with h1 | h1
  · exact statInv_acc (statInv_same (s' := afterRead cfg s r) h rfl rfl rfl rfl) h1
  · rw [h1]; exact h

theorem readAll_statInv {cfg : Cfg} : ∀ (rs : List Read) {s : State}, StatInv cfg s → StatInv cfg (readAll cfg rs s)
  | [], _, h => h
  | r :: rest, _, h => by unfold readAll; exact readAll_statInv rest (readOne_statInv h r)

theorem io_statInv {cfg : Cfg} {s : State} (h : StatInv cfg s) (a : Bool) (w : List Nat) (rs : List Read) :
    StatInv cfg (ioStep cfg s a w rs) := by
  unfold ioStep
  split
  · dsimp only
    apply readAll_statInv
    split
    · exact statInv_same (statInv_acc h (accept_macc cfg s)) rfl rfl rfl rfl
    · exact statInv_same h rfl rfl rfl rfl
  · exact h

/-- TIMING_MESSAGE: the table is emptied, the report is handled inside the statistics context (nothing is counted),
    the tick is marked -/
theorem sendTiming_statInv {cfg : Cfg} {s : State} (h : StatInv cfg s) : StatInv cfg (sendTiming cfg s) := by
  unfold sendTiming
  dsimp only
  obtain ⟨e, ha⟩ := fwdTop_any cfg ({ s with counts := [], inTraffic := true } : State)
    (mgrFrame cfg.mtTiming 0 cfg.szTiming (Body.timing (timingEntries cfg s.counts) (pidEntries s.mods)))
  generalize fwdTop cfg ({ s with counts := [], inTraffic := true } : State)
    (mgrFrame cfg.mtTiming 0 cfg.szTiming (Body.timing (timingEntries cfg s.counts) (pidEntries s.mods))) = s1 at ha
  have hm : Marks (fun _ => true) true e := ha.marks
  refine ⟨rfl, ?_, ?_⟩
  · show s1.traffic = tallyOn [] (sinceTick .trafficTick (.timingTick :: s1.hist))
    rw [ha.traffic, ha.hist, sinceTick_other _ _ _ (by intro e; cases e), tallyOn_cons,
      sinceTick_marks hm _ (by intro t b e; cases e), tallyOn_append, tallyOn_stats _ hm, tallyOn_stats _ hm]
    exact h.traffic
  · show s1.counts = if cfg.timing then tallyOn [] (sinceTick .timingTick (.timingTick :: s1.hist)) else []
    rw [ha.counts, sinceTick_self]
    split
    · rw [tallyOn_stats _ hm]; rfl
    · rfl

/-- MESSAGE_TRAFFIC: the whole report (and its DEBUG log line) is handled inside the statistics context, then the
    table is emptied, the tick is marked -/
theorem sendTraffic_statInv {cfg : Cfg} {s : State} (h : StatInv cfg s) : StatInv cfg (sendTraffic cfg s) := by
  unfold sendTraffic
  dsimp only
  have h1 := (logAt_macc cfg 10 ({ s with inTraffic := true } : State)).any
  generalize logAt cfg (fwdTop cfg) 10 ({ s with inTraffic := true } : State) = s1 at h1
  have h2 := h1.trans (foldl_fwdTop_any cfg (trafficFrames cfg s1.trafficSeq s1.traffic) s1)
  generalize (trafficFrames cfg s1.trafficSeq s1.traffic).foldl (fwdTop cfg) s1 = s2 at h2
  obtain ⟨e, ha⟩ := h2
  have hm : Marks (fun _ => true) true e := ha.marks
  refine ⟨rfl, ?_, ?_⟩
  · show ([] : List (Int × Nat)) = tallyOn [] (sinceTick .trafficTick (.trafficTick :: s2.hist))
    rw [sinceTick_self]; rfl
  · show s2.counts = if cfg.timing then tallyOn [] (sinceTick .timingTick (.trafficTick :: s2.hist)) else []
    rw [ha.counts, ha.hist, sinceTick_other _ _ _ (by intro e; cases e), tallyOn_cons,
      sinceTick_marks hm _ (by intro t b e; cases e), tallyOn_append]
    simp only [tallyOn_stats _ hm, ite_self]
    exact h.counts

theorem ticks_statInv {cfg : Cfg} {s : State} (h : StatInv cfg s) : StatInv cfg (ticks cfg s) := by
  unfold ticks
  dsimp only
  have h1 : StatInv cfg (if (cfg.timing && decide (s.now - s.tTiming > cfg.pTiming)) = true then
      { sendTiming cfg s with tTiming := s.now } else s) := by
    split
    · exact statInv_same (sendTiming_statInv h) rfl rfl rfl rfl
    · exact h
  generalize (if (cfg.timing && decide (s.now - s.tTiming > cfg.pTiming)) = true then
      { sendTiming cfg s with tTiming := s.now } else s) = s1 at h1 ⊢
  have h2 : StatInv cfg (if s1.now - s1.tTraffic > cfg.pTraffic then sendTraffic cfg s1 else s1) := by
    split
    · exact sendTraffic_statInv h1
    · exact h1
  generalize (if s1.now - s1.tTraffic > cfg.pTraffic then sendTraffic cfg s1 else s1) = s2 at h2 ⊢
  split
  · obtain ⟨s3, ha, he⟩ := sendActive_acc cfg s2
    rw [he]; exact statInv_same (statInv_acc h2 ha) rfl rfl rfl rfl
  · exact h2

theorem step_statInv {cfg : Cfg} {s : State} (h : StatInv cfg s) (r : Round) : StatInv cfg (step cfg s r) := by
  unfold step
  split
  · exact h
  · dsimp only
    have h0 : StatInv cfg (envStep s r) := by unfold envStep; exact statInv_same h rfl rfl rfl rfl
    exact ticks_statInv (io_statInv h0 _ _ _)

theorem init_statInv (cfg : Cfg) : StatInv cfg (init cfg) := by
  unfold init
  refine statInv_acc ?_ (logAt_macc cfg 20 _)
  refine ⟨rfl, rfl, ?_⟩
  show ([] : List (Int × Nat)) = if cfg.timing then tallyOn [] (sinceTick .timingTick []) else []
  split <;> rfl

theorem run_statInv (cfg : Cfg) (rs : List Round) : StatInv cfg (run cfg rs) := by
  have : ∀ (rs : List Round) (s : State), StatInv cfg s → StatInv cfg (rs.foldl (step cfg) s) := by
    intro rs; induction rs with
    | nil => intro s h; exact h
    | cons r rs ih => intro s h; exact ih _ (step_statInv h r)
  exact this rs _ (init_statInv cfg)

/-! ### the periodic section as a whole -/

/-- a mark of the periodic section: a tick, a frame handled inside a statistics send, or a manager-originated frame -/
def TickMark (cfg : Cfg) (m : Mark) : Prop :=
  m = .timingTick ∨ m = .trafficTick ∨ ∃ t b, m = .fwd t b ∧ (b = true ∨ mgrType cfg t = true)

theorem tickMark_of_marks {cfg : Cfg} {P : Int → Bool} {e : List Mark} (h : Marks P true e) : ∀ m ∈ e, TickMark cfg m :=
  fun m hm => by obtain ⟨t, rfl, _⟩ := h m hm; exact Or.inr (Or.inr ⟨t, true, rfl, Or.inl rfl⟩)

theorem tickMark_of_mgr {cfg : Cfg} {b : Bool} {e : List Mark} (h : Marks (mgrType cfg) b e) : ∀ m ∈ e, TickMark cfg m :=
  fun m hm => by obtain ⟨t, rfl, ht⟩ := h m hm; exact Or.inr (Or.inr ⟨t, b, rfl, Or.inr ht⟩)

theorem no_tick_in_marks {P : Int → Bool} {b : Bool} {e : List Mark} (h : Marks P b e) :
    Mark.timingTick ∉ e ∧ Mark.trafficTick ∉ e :=
  ⟨(fun hc => by obtain ⟨t, he, _⟩ := h _ hc; cases he), (fun hc => by obtain ⟨t, he, _⟩ := h _ hc; cases he)⟩

/-- one part of the periodic section: marks `mk`, the clock and the buffer untouched, idle afterwards -/
structure StepT (cfg : Cfg) (s s' : State) (mk : List Mark) : Prop where
  hist : s'.hist = mk ++ s.hist
  marks : ∀ m ∈ mk, TickMark cfg m
  now : s'.now = s.now
  buf : s'.buf = s.buf
  idle : s'.inTraffic = false

theorem StepT.refl (cfg : Cfg) {s : State} (h : s.inTraffic = false) : StepT cfg s s [] :=
  ⟨rfl, (fun _ hm => by cases hm), rfl, rfl, h⟩

theorem sendTiming_acc (cfg : Cfg) (s : State) :
    ∃ e, Marks (fun _ => true) true e ∧ StepT cfg s (sendTiming cfg s) (.timingTick :: e) ∧
      (sendTiming cfg s).tTraffic = s.tTraffic ∧ (sendTiming cfg s).trafficSeq = s.trafficSeq ∧
      (sendTiming cfg s).tInfo = s.tInfo := by
  unfold sendTiming
  dsimp only
  obtain ⟨e, ha⟩ := fwdTop_any cfg ({ s with counts := [], inTraffic := true } : State)
    (mgrFrame cfg.mtTiming 0 cfg.szTiming (Body.timing (timingEntries cfg s.counts) (pidEntries s.mods)))
  refine ⟨e, ha.marks, ⟨by rw [ha.hist]; rfl, ?_, ha.now, ha.buf, rfl⟩, ha.tR, ha.seq, ha.tI⟩
  intro m hm
  rcases List.mem_cons.mp hm with rfl | h
  · exact Or.inl rfl
  · exact tickMark_of_marks ha.marks m h

theorem sendTraffic_acc (cfg : Cfg) (s : State) :
    ∃ e, Marks (fun _ => true) true e ∧ StepT cfg s (sendTraffic cfg s) (.trafficTick :: e) ∧
      (sendTraffic cfg s).tTiming = s.tTiming ∧ (sendTraffic cfg s).tTraffic = s.now ∧
      (sendTraffic cfg s).trafficSeq = s.trafficSeq + 1 ∧ (sendTraffic cfg s).tInfo = s.tInfo := by
  unfold sendTraffic
  dsimp only
  have h1 := (logAt_macc cfg 10 ({ s with inTraffic := true } : State)).any
  generalize logAt cfg (fwdTop cfg) 10 ({ s with inTraffic := true } : State) = s1 at h1
  have h2 := h1.trans (foldl_fwdTop_any cfg (trafficFrames cfg s1.trafficSeq s1.traffic) s1)
  generalize (trafficFrames cfg s1.trafficSeq s1.traffic).foldl (fwdTop cfg) s1 = s2 at h2
  obtain ⟨e, ha⟩ := h2
  refine ⟨e, ha.marks, ⟨by rw [ha.hist]; rfl, ?_, ha.now, ha.buf, rfl⟩, ha.tT, ha.now, by show s2.trafficSeq + 1 = _; rw [ha.seq], ha.tI⟩
  intro m hm
  rcases List.mem_cons.mp hm with rfl | h
  · exact Or.inr (Or.inl rfl)
  · exact tickMark_of_marks ha.marks m h

/-- the TIMING part of the periodic section -/
theorem timingPart_acc (cfg : Cfg) (s : State) (hidle : s.inTraffic = false) (t1 : Bool) :
    ∃ mk, StepT cfg s (if t1 = true then { sendTiming cfg s with tTiming := s.now } else s) mk ∧
      (Mark.timingTick ∈ mk ↔ t1 = true) ∧ Mark.trafficTick ∉ mk ∧
      (if t1 = true then { sendTiming cfg s with tTiming := s.now } else s).tTiming = (if t1 = true then s.now else s.tTiming) ∧
      (if t1 = true then { sendTiming cfg s with tTiming := s.now } else s).tTraffic = s.tTraffic ∧
      (if t1 = true then { sendTiming cfg s with tTiming := s.now } else s).trafficSeq = s.trafficSeq ∧
      (if t1 = true then { sendTiming cfg s with tTiming := s.now } else s).tInfo = s.tInfo := by
  cases t1 with
  | false => exact ⟨[], StepT.refl cfg hidle, (by simp), (by simp), rfl, rfl, rfl, rfl⟩
  | true =>
    obtain ⟨e, hm, hst, g1, g2, g3⟩ := sendTiming_acc cfg s
    refine ⟨.timingTick :: e, ⟨hst.hist, hst.marks, hst.now, hst.buf, hst.idle⟩, (by simp), ?_, rfl, g1, g2, g3⟩
    intro hc
    rcases List.mem_cons.mp hc with h | h
    · cases h
    · exact (no_tick_in_marks hm).2 h

/-- the MESSAGE_TRAFFIC part -/
theorem trafficPart_acc (cfg : Cfg) (s : State) (hidle : s.inTraffic = false) (t2 : Prop) [Decidable t2] :
    ∃ mk, StepT cfg s (if t2 then sendTraffic cfg s else s) mk ∧
      (Mark.trafficTick ∈ mk ↔ t2) ∧ Mark.timingTick ∉ mk ∧
      (if t2 then sendTraffic cfg s else s).tTiming = s.tTiming ∧
      (if t2 then sendTraffic cfg s else s).tTraffic = (if t2 then s.now else s.tTraffic) ∧
      (if t2 then sendTraffic cfg s else s).trafficSeq = (if t2 then s.trafficSeq + 1 else s.trafficSeq) ∧
      (if t2 then sendTraffic cfg s else s).tInfo = s.tInfo := by
  by_cases ht : t2
  · obtain ⟨e, hm, hst, g1, g2, g3, g4⟩ := sendTraffic_acc cfg s
    simp only [ht, if_true]
    refine ⟨.trafficTick :: e, hst, (by simp), ?_, g1, g2, g3, g4⟩
    intro hc
    rcases List.mem_cons.mp hc with h | h
    · cases h
    · exact (no_tick_in_marks hm).1 h
  · simp only [ht, if_false]
    exact ⟨[], StepT.refl cfg hidle, (by simp), (by simp), trivial, trivial, trivial, trivial⟩

/-- the ACTIVE_CLIENTS part -/
theorem activePart_acc (cfg : Cfg) (s : State) (hidle : s.inTraffic = false) (t3 : Prop) [Decidable t3] :
    ∃ mk, StepT cfg s (if t3 then sendActive cfg s else s) mk ∧
      Mark.timingTick ∉ mk ∧ Mark.trafficTick ∉ mk ∧
      (if t3 then sendActive cfg s else s).tTiming = s.tTiming ∧
      (if t3 then sendActive cfg s else s).tTraffic = s.tTraffic ∧
      (if t3 then sendActive cfg s else s).trafficSeq = s.trafficSeq ∧
      (if t3 then sendActive cfg s else s).tInfo = (if t3 then s.now else s.tInfo) := by
  by_cases ht : t3
  · simp only [ht, if_true]
    obtain ⟨s3, ⟨e, ha⟩, he⟩ := sendActive_acc cfg s
    rw [he]
    exact ⟨e, ⟨ha.hist, tickMark_of_mgr ha.marks, ha.now, ha.buf, ha.inT.trans hidle⟩, (no_tick_in_marks ha.marks).1,
      (no_tick_in_marks ha.marks).2, ha.tT, ha.tR, ha.seq, ha.now⟩
  · simp only [ht, if_false]
    exact ⟨[], StepT.refl cfg hidle, (by simp), (by simp), trivial, trivial, trivial, trivial⟩

/-- **the periodic section as a whole**: its marks are ticks, frames handled inside a statistics send, or
    manager-originated frames; a TIMING tick is marked iff the TIMING period has elapsed, a TRAFFIC tick iff the traffic
    interval has; the clocks move accordingly -/
theorem ticks_acc (cfg : Cfg) (s : State) (hidle : s.inTraffic = false) :
    ∃ mk, (ticks cfg s).hist = mk ++ s.hist ∧ (∀ m ∈ mk, TickMark cfg m) ∧
      (Mark.timingTick ∈ mk ↔ (cfg.timing && decide (s.now - s.tTiming > cfg.pTiming)) = true) ∧
      (Mark.trafficTick ∈ mk ↔ s.now - s.tTraffic > cfg.pTraffic) ∧
      (ticks cfg s).now = s.now ∧ (ticks cfg s).buf = s.buf ∧ (ticks cfg s).inTraffic = false ∧
      (ticks cfg s).tTiming = (if (cfg.timing && decide (s.now - s.tTiming > cfg.pTiming)) = true then s.now else s.tTiming) ∧
      (ticks cfg s).tTraffic = (if s.now - s.tTraffic > cfg.pTraffic then s.now else s.tTraffic) ∧
      (ticks cfg s).trafficSeq = (if s.now - s.tTraffic > cfg.pTraffic then s.trafficSeq + 1 else s.trafficSeq) ∧
      (ticks cfg s).tInfo = (if s.now - s.tInfo > cfg.pInfo then s.now else s.tInfo) := by
  unfold ticks
  dsimp only
  obtain ⟨mk1, st1, m11, m12, a1, a2, a3, a4⟩ := timingPart_acc cfg s hidle (cfg.timing && decide (s.now - s.tTiming > cfg.pTiming))
  generalize (if (cfg.timing && decide (s.now - s.tTiming > cfg.pTiming)) = true then
      { sendTiming cfg s with tTiming := s.now } else s) = s1 at st1 a1 a2 a3 a4 ⊢
  obtain ⟨mk2, st2, m21, m22, b1, b2, b3, b4⟩ := trafficPart_acc cfg s1 st1.idle (s1.now - s1.tTraffic > cfg.pTraffic)
  generalize (if s1.now - s1.tTraffic > cfg.pTraffic then sendTraffic cfg s1 else s1) = s2 at st2 b1 b2 b3 b4 ⊢
  obtain ⟨mk3, st3, m31, m32, c1, c2, c3, c4⟩ := activePart_acc cfg s2 st2.idle (s2.now - s2.tInfo > cfg.pInfo)
  generalize (if s2.now - s2.tInfo > cfg.pInfo then sendActive cfg s2 else s2) = s3 at st3 c1 c2 c3 c4 ⊢
  have n2 : s2.now = s.now := st2.now.trans st1.now
  rw [st1.now, a2] at m21 b2 b3
  rw [n2, b4, a4] at c4
  refine ⟨mk3 ++ (mk2 ++ mk1), by rw [st3.hist, st2.hist, st1.hist]; simp, ?_, ?_, ?_, st3.now.trans n2,
    st3.buf.trans (st2.buf.trans st1.buf), st3.idle, by rw [c1, b1, a1], by rw [c2, b2], by rw [c3, b3, a3], c4⟩
  · intro m hm
    rcases List.mem_append.mp hm with h | h
    · exact st3.marks m h
    · rcases List.mem_append.mp h with h | h
      · exact st2.marks m h
      · exact st1.marks m h
  · simp only [List.mem_append]
    constructor
    · rintro (h | h | h)
      · exact absurd h m31
      · exact absurd h m22
      · exact m11.mp h
    · intro h; exact Or.inr (Or.inr (m11.mpr h))
  · simp only [List.mem_append]
    constructor
    · rintro (h | h | h)
      · exact absurd h m32
      · exact m21.mp h
      · exact absurd h m12
    · intro h; exact Or.inr (Or.inl (m21.mpr h))

def Grows (s s' : State) : Prop := ∃ e, s'.hist = e ++ s.hist

theorem Grows.refl (s : State) : Grows s s := ⟨[], rfl⟩
theorem Grows.trans {a b c : State} (h1 : Grows a b) (h2 : Grows b c) : Grows a c := by
  obtain ⟨e1, h1⟩ := h1; obtain ⟨e2, h2⟩ := h2; exact ⟨e2 ++ e1, by rw [h2, h1, List.append_assoc]⟩
theorem grows_of_acc {cfg : Cfg} {P : Int → Bool} {s s' : State} (h : Acc cfg P s s') : Grows s s' := by
  obtain ⟨e, h⟩ := h; exact ⟨e, h.hist⟩
theorem grows_of_eq {s s' : State} (h : s'.hist = s.hist) : Grows s s' := ⟨[], h⟩

theorem readOne_grows (cfg : Cfg) (s : State) (r : Read) : Grows s (readOne cfg s r) := by
  rcases afterRead_any cfg s r with h1 | h1
  · exact (grows_of_eq (s := s) (s' := afterRead cfg s r) rfl).trans (grows_of_acc h1)
  · rw [h1]; exact Grows.refl s

theorem readAll_grows (cfg : Cfg) : ∀ (rs : List Read) (s : State), Grows s (readAll cfg rs s)
  | [], s => Grows.refl s
  | r :: rest, s => by unfold readAll; exact (readOne_grows cfg s r).trans (readAll_grows cfg rest _)

theorem io_grows (cfg : Cfg) (s : State) (a : Bool) (w : List Nat) (rs : List Read) : Grows s (ioStep cfg s a w rs) := by
  unfold ioStep
  split
  · dsimp only
    refine Grows.trans ?_ (readAll_grows cfg rs _)
    split
    · exact (grows_of_acc (accept_macc cfg s)).trans (grows_of_eq rfl)
    · exact grows_of_eq rfl
  · exact Grows.refl s

theorem ticks_grows (cfg : Cfg) (s : State) : Grows s (ticks cfg s) := by
  unfold ticks
  dsimp only
  have h1 : Grows s (if (cfg.timing && decide (s.now - s.tTiming > cfg.pTiming)) = true then
      { sendTiming cfg s with tTiming := s.now } else s) := by
    split
    · unfold sendTiming; dsimp only
      have := grows_of_acc (fwdTop_any cfg ({ s with counts := [], inTraffic := true } : State)
        (mgrFrame cfg.mtTiming 0 cfg.szTiming (Body.timing (timingEntries cfg s.counts) (pidEntries s.mods))))
      exact ((grows_of_eq (s := s) rfl).trans this).trans ⟨[.timingTick], rfl⟩
    · exact Grows.refl s
  generalize (if (cfg.timing && decide (s.now - s.tTiming > cfg.pTiming)) = true then
      { sendTiming cfg s with tTiming := s.now } else s) = s1 at h1 ⊢
  have h2 : Grows s1 (if s1.now - s1.tTraffic > cfg.pTraffic then sendTraffic cfg s1 else s1) := by
    split
    · unfold sendTraffic; dsimp only
      have a1 := grows_of_acc (logAt_macc cfg 10 ({ s1 with inTraffic := true } : State))
      generalize logAt cfg (fwdTop cfg) 10 ({ s1 with inTraffic := true } : State) = s1' at a1
      have a2 := grows_of_acc (foldl_fwdTop_any cfg (trafficFrames cfg s1'.trafficSeq s1'.traffic) s1')
      exact (((grows_of_eq (s := s1) rfl).trans a1).trans a2).trans ⟨[.trafficTick], rfl⟩
    · exact Grows.refl s1
  generalize (if s1.now - s1.tTraffic > cfg.pTraffic then sendTraffic cfg s1 else s1) = s2 at h2 ⊢
  refine (h1.trans h2).trans ?_
  split
  · obtain ⟨s3, ha, he⟩ := sendActive_acc cfg s2
    rw [he]; exact (grows_of_acc ha).trans (grows_of_eq rfl)
  · exact Grows.refl s2

/-- the history only grows: whatever one more round does, the marks made so far stay where they are -/
theorem hist_suffix_step (cfg : Cfg) (s : State) (r : Round) : ∃ e, (step cfg s r).hist = e ++ s.hist := by
  unfold step
  split
  · exact ⟨[], rfl⟩
  · dsimp only
    have h0 : Grows s (envStep s r) := grows_of_eq rfl
    exact (h0.trans (io_grows cfg _ _ _ _)).trans (ticks_grows cfg _)

end Pyrtma.Mgr
