import Pyrtma.Proofs.ManagerSafe
import Pyrtma.Proofs.ManagerStats
/-!
# What one observer receives is a lower bound of what was handled

`RB cfg s s' x`: the operation appended events `ext` and marks `mk` such that, for every observer `o` and type `t`, the
number of manager-originated frames of type `t` written to `o` (`msc`: not a copy of a client frame, not an
acknowledgement, not a statistics report — what `Spec.noteMgrFrames` tallies) is at most the number of frames of type
`t` handled (`marksOf`), plus `x o t`.  Carried through the nested recursion by the contract `RBOK`; needs the
subscription-index invariant (a subscriber snapshot lists nobody twice) and that no manager type is the ALL sentinel.
-/
namespace Pyrtma.Mgr

/-- the bodies `Spec.noteMgrFrames` tallies -/
def notedBody : Body → Bool
  | .data _ => false
  | .ack => false
  | .timing _ _ => false
  | .traffic _ _ _ _ => false
  | _ => true

def isNoted (o : Nat) (t : Int) : Ev → Bool
  | .send u _ f => u == o && f.mtype == t && notedBody f.body
  | _ => false

/-- manager-originated frames of type `t` written to `o` -/
def msc (o : Nat) (t : Int) (evs : List Ev) : Nat := evs.countP (isNoted o t)

theorem msc_append (o : Nat) (t : Int) (a b : List Ev) : msc o t (a ++ b) = msc o t a + msc o t b := by
  unfold msc; rw [List.countP_append]

theorem msc_nil (o : Nat) (t : Int) : msc o t [] = 0 := rfl

theorem msc_single (o : Nat) (t : Int) (e : Ev) : msc o t [e] = if isNoted o t e then 1 else 0 := by
  unfold msc; simp [List.countP_cons]

/-- frames of type `t` handled with statistics flag `b` -/
def marksOf (t : Int) (b : Bool) (e : List Mark) : Nat := e.count (.fwd t b)

theorem marksOf_append (t : Int) (b : Bool) (e2 e1 : List Mark) : marksOf t b (e2 ++ e1) = marksOf t b e2 + marksOf t b e1 := by
  unfold marksOf; rw [List.count_append]

structure RBE (s s' : State) (ext : List Ev) (mk : List Mark) : Prop where
  out : s'.out = s.out ++ ext
  hist : s'.hist = mk ++ s.hist
  inT : s'.inTraffic = s.inTraffic
  marks : Marks (fun _ => true) s.inTraffic mk

/-- frames of a manager type `t` handled with statistics flag `b` (nothing for other types) -/
def mmarks (cfg : Cfg) (t : Int) (b : Bool) (e : List Mark) : Nat := if mgrType cfg t then marksOf t b e else 0

theorem mmarks_append (cfg : Cfg) (t : Int) (b : Bool) (e2 e1 : List Mark) :
    mmarks cfg t b (e2 ++ e1) = mmarks cfg t b e2 + mmarks cfg t b e1 := by
  unfold mmarks; split
  · exact marksOf_append t b e2 e1
  · rfl

theorem mmarks_nil (cfg : Cfg) (t : Int) (b : Bool) : mmarks cfg t b [] = 0 := by unfold mmarks marksOf; simp

def RB (cfg : Cfg) (s s' : State) (x : Nat → Int → Nat) : Prop :=
  ∃ ext mk, RBE s s' ext mk ∧ ∀ o t, msc o t ext ≤ mmarks cfg t s.inTraffic mk + x o t

def zeroX : Nat → Int → Nat := fun _ _ => 0

theorem RB.refl {cfg : Cfg} (s : State) : RB cfg s s zeroX := ⟨[], [], ⟨by simp, by simp, rfl, Marks.nil _ _⟩, fun _ _ => by simp [msc, mmarks_nil, zeroX]⟩

theorem RB.trans {cfg : Cfg} {a b c : State} {x1 x2 : Nat → Int → Nat} (h1 : RB cfg a b x1) (h2 : RB cfg b c x2) :
    RB cfg a c (fun o t => x1 o t + x2 o t) := by
  obtain ⟨e1, m1, r1, b1⟩ := h1
  obtain ⟨e2, m2, r2, b2⟩ := h2
  refine ⟨e1 ++ e2, m2 ++ m1, ⟨by rw [r2.out, r1.out, List.append_assoc], by rw [r2.hist, r1.hist, List.append_assoc],
    r2.inT.trans r1.inT, Marks.append (by rw [← r1.inT]; exact r2.marks) r1.marks⟩, fun o t => ?_⟩
  rw [msc_append, mmarks_append]
  have h1 := b1 o t
  have h2 := b2 o t
  rw [r1.inT] at h2
  show _ ≤ _ + (x1 o t + x2 o t)
  omega

theorem RB.weaken {cfg : Cfg} {a b : State} {x y : Nat → Int → Nat} (h : RB cfg a b x) (hxy : ∀ o t, x o t ≤ y o t) : RB cfg a b y := by
  obtain ⟨e, m, r, bd⟩ := h
  exact ⟨e, m, r, fun o t => by have := bd o t; have := hxy o t; omega⟩

/-- composition where both parts add nothing -/
theorem RB.trans0 {cfg : Cfg} {a b c : State} (h1 : RB cfg a b zeroX) (h2 : RB cfg b c zeroX) : RB cfg a c zeroX :=
  (h1.trans h2).weaken (fun _ _ => by simp [zeroX])

theorem RB.trans0l {cfg : Cfg} {a b c : State} {x : Nat → Int → Nat} (h1 : RB cfg a b zeroX) (h2 : RB cfg b c x) : RB cfg a c x :=
  (h1.trans h2).weaken (fun _ _ => by simp [zeroX])

theorem RB.trans0r {cfg : Cfg} {a b c : State} {x : Nat → Int → Nat} (h1 : RB cfg a b x) (h2 : RB cfg b c zeroX) : RB cfg a c x :=
  (h1.trans h2).weaken (fun _ _ => by simp [zeroX])

theorem rb_same {cfg : Cfg} {s s' : State} (ho : s'.out = s.out) (hh : s'.hist = s.hist) (hi : s'.inTraffic = s.inTraffic) :
    RB cfg s s' zeroX :=
  ⟨[], [], ⟨by simp [ho], by simp [hh], hi, Marks.nil _ _⟩, fun _ _ => by simp [msc, mmarks_nil, zeroX]⟩

theorem rb_crash {cfg : Cfg} (s : State) (w : String) : RB cfg s (s.crash w) zeroX := by
  unfold State.crash; split
  · exact RB.refl s
  · exact rb_same rfl rfl rfl

/-- events none of which is a frame -/
theorem rb_quietEvs {cfg : Cfg} {s s' : State} (ext : List Ev) (ho : s'.out = s.out ++ ext) (hq : ∀ e ∈ ext, ∀ o t, isNoted o t e = false)
    (hh : s'.hist = s.hist) (hi : s'.inTraffic = s.inTraffic) : RB cfg s s' zeroX := by
  refine ⟨ext, [], ⟨ho, by simp [hh], hi, Marks.nil _ _⟩, fun o t => ?_⟩
  have : msc o t ext = 0 := by
    unfold msc; rw [List.countP_eq_zero]; intro e he; simp [hq e he o t]
  simp [this]

/-- what one write of `f` to `u` may add for observer `o`, type `t` -/
def extraOf (u : Nat) (f : Frame) : Nat → Int → Nat :=
  fun o t => if (u == o && f.mtype == t && notedBody f.body) = true then 1 else 0

theorem sendRaw_rb {cfg : Cfg} (s : State) (u : Nat) (f : Frame) : RB cfg s (sendRaw s u f).1 (extraOf u f) := by
  unfold sendRaw
  split
  · exact (rb_crash _ _).weaken (fun _ _ => Nat.zero_le _)
  · split
    · exact (rb_crash _ _).weaken (fun _ _ => Nat.zero_le _)
    · rename_i m _ _
      dsimp only
      split
      · refine ⟨[.wfail u], [], ⟨rfl, by simp [State.emit, State.upd], rfl, Marks.nil _ _⟩, fun o t => ?_⟩
        rw [msc_single]; simp [isNoted]
      · refine ⟨[.partialW u, .wfail u], [], ⟨by simp [State.emit, State.upd], by simp [State.emit, State.upd], rfl, Marks.nil _ _⟩, fun o t => ?_⟩
        simp [msc, isNoted, List.countP_cons]
      · refine ⟨[.send u (m.msgCount + 1) f], [], ⟨rfl, by simp [State.emit, State.upd], rfl, Marks.nil _ _⟩, fun o t => ?_⟩
        rw [msc_single]
        simp only [mmarks_nil, Nat.zero_add, extraOf, isNoted]
        exact Nat.le_refl _

theorem removePrep_rb {cfg : Cfg} (s : State) (u : Nat) (m : Module) : RB cfg s (removePrep s u m) zeroX := by
  unfold removePrep
  dsimp only
  split
  · exact rb_same rfl rfl rfl
  · refine ⟨[.close u], [], ⟨rfl, by simp [State.emit, State.upd], rfl, Marks.nil _ _⟩, fun o t => ?_⟩
    rw [msc_single]; simp [isNoted]

/-- no manager type is the ALL sentinel -/
def MgrNotAll (cfg : Cfg) : Prop := ∀ t, mgrType cfg t = true → t ≠ cfg.allTypes

/-- an iteration order of a Python `set`: a permutation of its elements -/
def OrderGood (cfg : Cfg) : Prop := ∀ l : List Nat, l.Nodup → (cfg.order l).Nodup ∧ ∀ x, x ∈ cfg.order l ↔ x ∈ l

theorem OrderGood.weak {cfg : Cfg} (h : OrderGood cfg) :
    ∀ l : List Nat, l.Nodup → (cfg.order l).Nodup ∧ ∀ x, x ∈ cfg.order l → x ∈ l :=
  fun l hl => ⟨(h l hl).1, fun x hx => ((h l hl).2 x).mp hx⟩

/-- the contract of the nested forward -/
def RBOK (cfg : Cfg) (fwd : Fwd) : Prop :=
  ∀ s g, SubInv cfg s → (notedBody g.body = true → mgrType cfg g.mtype = true) → RB cfg s (fwd s g) zeroX

theorem noted_log (cfg : Cfg) (lvl : Nat) : notedBody (logFrame cfg lvl).body = true → mgrType cfg (logFrame cfg lvl).mtype = true :=
  fun _ => nested_mgr cfg _ (nested_log cfg lvl)
theorem noted_closed (cfg : Cfg) (m : Module) :
    notedBody (closedFrame cfg m).body = true → mgrType cfg (closedFrame cfg m).mtype = true :=
  fun _ => nested_mgr cfg _ (nested_closed cfg m)
theorem noted_failed (cfg : Cfg) (d : Int) (f : Frame) :
    notedBody (failedFrame cfg d f).body = true → mgrType cfg (failedFrame cfg d f).mtype = true :=
  fun _ => nested_mgr cfg _ (nested_failed cfg d f)

section chain
variable {cfg : Cfg} {fwd : Fwd} (hf : FwdOK (fun b => b == .ack) fwd) (hi : InvOK cfg fwd) (hr : RBOK cfg fwd)
include hf hi hr

theorem logAt_rb (lvl : Nat) {s : State} (h : SubInv cfg s) : RB cfg s (logAt cfg fwd lvl s) zeroX := by
  unfold logAt; split
  · exact hr s _ h (noted_log cfg lvl)
  · exact RB.refl s

theorem removeModule_rb {s : State} (h : SubInv cfg s) (u : Nat) : RB cfg s (removeModule cfg fwd s u) zeroX := by
  unfold removeModule
  split
  · exact RB.refl s
  · rename_i m hm
    dsimp only
    have h1 := removePrep_rb (cfg := cfg) s u m
    have i1 := (removePrep_inv h u m hm).1
    have h2 := logAt_rb hf hi hr 10 i1
    have i2 := logAt_inv hi 10 i1
    have h3 := hr (logAt cfg fwd 10 (removePrep s u m)) (closedFrame cfg { m with connected := false }) i2 (noted_closed cfg _)
    exact ((h1.trans0 h2).trans0 h3).trans0 (rb_same rfl rfl rfl)

theorem failedMsg_rb {s : State} (h : SubInv cfg s) (d : Int) (f : Frame) : RB cfg s (failedMsg cfg fwd s d f) zeroX := by
  unfold failedMsg; split
  · exact RB.refl s
  · exact hr s _ h (noted_failed cfg d f)

theorem trySend_rb {s : State} (h : SubInv cfg s) (u : Nat) (f : Frame) : RB cfg s (trySend cfg fwd s u f) (extraOf u f) := by
  unfold trySend
  dsimp only
  have h1 := sendRaw_rb (cfg := cfg) s u f
  have i1 := sendRaw_inv h u f
  generalize sendRaw s u f = r at h1 i1
  obtain ⟨s1, okb⟩ := r
  simp only at h1 i1 ⊢
  split
  · exact h1.trans0r (rb_same rfl rfl rfl)
  · split
    · exact h1
    · have h2 := removeModule_rb hf hi hr i1 u
      have i2 := removeModule_inv (tag_ack cfg) hf hi i1 u
      have h3 := logAt_rb hf hi hr 40 i2
      have i3 := logAt_inv hi 40 i2
      exact ((h1.trans0r h2).trans0r h3).trans0r (failedMsg_rb hf hi hr i3 _ f)

theorem deliverOne_rb (f : Frame) {s : State} (h : SubInv cfg s) (u : Nat) :
    RB cfg s (deliverOne cfg fwd f s u) (extraOf u f) := by
  unfold deliverOne
  split
  · exact (RB.refl s).weaken (fun _ _ => Nat.zero_le _)
  · split
    · split
      · exact trySend_rb hf hi hr h u f
      · exact (RB.refl s).weaken (fun _ _ => Nat.zero_le _)
    · split
      · exact trySend_rb hf hi hr h u f
      · have h1 : RB cfg s (s.upd u fun m => { m with drops := m.drops + 1 }) zeroX := rb_same rfl rfl rfl
        have i1 := subInv_upd h u (fun m => { m with drops := m.drops + 1 }) (fun _ => rfl) (fun _ => rfl)
        exact (h1.trans0 (failedMsg_rb hf hi hr i1 _ f)).weaken (fun _ _ => Nat.zero_le _)

/-- what delivering `f` to the snapshot `rs` may add: one per occurrence of the observer -/
def extraAll (rs : List Nat) (f : Frame) : Nat → Int → Nat :=
  fun o t => if (f.mtype == t && notedBody f.body) = true then rs.count o else 0

theorem deliver_rb (f : Frame) : ∀ (rs : List Nat) {s : State}, SubInv cfg s → RB cfg s (deliver cfg fwd f rs s) (extraAll rs f)
  | [], s, _ => (RB.refl s).weaken (fun _ _ => Nat.zero_le _)
  | u :: rest, s, h => by
    unfold deliver
    have h1 := deliverOne_rb hf hi hr f h u
    have i1 := deliverOne_inv (tag_ack cfg) hf hi h f u
    refine (h1.trans (deliver_rb f rest i1)).weaken (fun o t => ?_)
    unfold extraOf extraAll
    rw [List.count_cons]
    by_cases hc : (f.mtype == t && notedBody f.body) = true
    · have e1 : (u == o && f.mtype == t && notedBody f.body) = (u == o) := by rw [Bool.and_assoc, hc]; simp
      rw [e1]
      simp only [hc, if_true]
      by_cases huo : (u == o) = true
      · simp [huo]; omega
      · simp [huo]
    · have hc' : (f.mtype == t && notedBody f.body) = false := by simpa using hc
      have e1 : (u == o && f.mtype == t && notedBody f.body) = false := by rw [Bool.and_assoc, hc']; simp
      rw [e1, hc']; simp

end chain

theorem countMsg_rb (cfg : Cfg) (s : State) (t : Int) :
    ∃ mk, RBE s (countMsg cfg s t) [] mk ∧ mk = [.fwd t s.inTraffic] := by
  unfold countMsg
  by_cases hb : s.inTraffic = true
  · simp only [hb, if_true]
    exact ⟨_, ⟨by simp, rfl, by simp [hb], by rw [hb]; exact Marks.single _ _ t rfl⟩, rfl⟩
  · have hb' : s.inTraffic = false := by simpa using hb
    simp only [hb', Bool.false_eq_true, if_false]
    exact ⟨_, ⟨by simp, rfl, by simp [hb'], by rw [hb']; exact Marks.single _ _ t rfl⟩, rfl⟩

theorem forward_rb {cfg : Cfg} (hna : MgrNotAll cfg) (hord : OrderGood cfg) : ∀ n, RBOK cfg (forward cfg n)
  | 0 => fun s g _ _ => by unfold forward; exact rb_crash _ _
  | n + 1 => fun s g h hg => by
    have ih := forward_rb hna hord n
    have hf := forward_ok cfg (tag_ack cfg) n
    have hi := forward_inv cfg n
    unfold forward
    split
    · exact RB.refl s
    · obtain ⟨mk0, r0, hmk0⟩ := countMsg_rb cfg s g.mtype
      have i0 := subInv_count h g.mtype
      -- whatever follows the counting adds at most one frame per observer, and that one is of the frame's own type
      have key : ∀ {s2 : State} {x : Nat → Int → Nat}, RB cfg (countMsg cfg s g.mtype) s2 x →
          (∀ o t, x o t ≤ if g.mtype = t ∧ mgrType cfg t = true then 1 else 0) → RB cfg s s2 zeroX := by
        intro s2 x ⟨e2, m2, r2, b2⟩ hx
        refine ⟨e2, m2 ++ mk0, ⟨by rw [r2.out, r0.out]; simp, by rw [r2.hist, r0.hist, List.append_assoc], r2.inT.trans r0.inT,
          Marks.append (by rw [← r0.inT]; exact r2.marks) r0.marks⟩, fun o t => ?_⟩
        have h2 := b2 o t
        have h3 := hx o t
        rw [mmarks_append, hmk0]
        rw [r0.inT] at h2
        have e1 : mmarks cfg t s.inTraffic [Mark.fwd g.mtype s.inTraffic] = if g.mtype = t ∧ mgrType cfg t = true then 1 else 0 := by
          unfold mmarks marksOf
          by_cases hm : mgrType cfg t = true
          · simp [hm, List.count_cons]
          · simp [hm]
        rw [e1]; simp only [zeroX, Nat.add_zero]; omega
      dsimp only
      split
      · exact key (logAt_rb hf hi ih 40 i0) (fun _ _ => by simp [zeroX])
      · split
        · exact key (logAt_rb hf hi ih 40 i0) (fun _ _ => by simp [zeroX])
        · refine key (deliver_rb hf hi ih g _ i0) (fun o t => ?_)
          unfold extraAll
          by_cases hc : (g.mtype == t && notedBody g.body) = true
          · simp only [hc, if_true]
            simp only [Bool.and_eq_true, beq_iff_eq] at hc
            have hmg : mgrType cfg g.mtype = true := hg hc.2
            have hty : g.mtype ≠ cfg.allTypes := hna _ hmg
            have hnd := snapshot_nodup i0 g.mtype hty hord.weak
            have := List.nodup_iff_count.mp hnd o
            rw [if_pos ⟨hc.1, by rw [← hc.1]; exact hmg⟩]; exact this
          · simp only [hc, Bool.false_eq_true, if_false]; exact Nat.zero_le _

theorem fwdTop_rb {cfg : Cfg} (hna : MgrNotAll cfg) (hord : OrderGood cfg) : RBOK cfg (fwdTop cfg) :=
  fun s g h hg => forward_rb hna hord _ s g h hg

/-! ## top level: the I/O part of a round -/

theorem extraOf_quiet (u : Nat) (f : Frame) (h : notedBody f.body = false) (o : Nat) (t : Int) : extraOf u f o t ≤ zeroX o t := by
  unfold extraOf; simp [h, zeroX]

section top
variable {cfg : Cfg} (ok : CfgOK cfg) (hfuel : cfg.fuel = 0) (hna : MgrNotAll cfg) (hord : OrderGood cfg)
include ok hfuel hna hord

theorem fwdTop_rbT {s : State} (h : Top cfg s) (g : Frame) (hg : notedBody g.body = true → mgrType cfg g.mtype = true) :
    RB cfg s (fwdTop cfg s g) zeroX := fwdTop_rb hna hord s g h.good.inv hg

theorem logTop_rb (lvl : Nat) {s : State} (h : Top cfg s) : RB cfg s (logAt cfg (fwdTop cfg) lvl s) zeroX :=
  logAt_rb (fwdTop_ok cfg (tag_ack cfg)) (fwdTop_inv cfg) (fwdTop_rb hna hord) lvl h.good.inv

theorem removeTop_rb {s : State} (h : Top cfg s) (u : Nat) : RB cfg s (removeModule cfg (fwdTop cfg) s u) zeroX :=
  removeModule_rb (fwdTop_ok cfg (tag_ack cfg)) (fwdTop_inv cfg) (fwdTop_rb hna hord) h.good.inv u

theorem trySendTop_rb {s : State} (h : Top cfg s) (u : Nat) (f : Frame) : RB cfg s (trySend cfg (fwdTop cfg) s u f) (extraOf u f) :=
  trySend_rb (fwdTop_ok cfg (tag_ack cfg)) (fwdTop_inv cfg) (fwdTop_rb hna hord) h.good.inv u f

theorem toLoggers_rb (f : Frame) (hq : notedBody f.body = false) : ∀ (ls : List Nat) {s : State}, Top cfg s →
    RB cfg s (toLoggers cfg f ls s) zeroX
  | [], s, _ => RB.refl s
  | u :: rest, s, h => by
    unfold toLoggers
    have h1 : RB cfg s (loggerOne cfg f s u) zeroX ∧ Top cfg (loggerOne cfg f s u) := by
      unfold loggerOne
      cases hm : s.find u with
      | none => exact ⟨RB.refl s, h⟩
      | some m => exact ⟨(trySendTop_rb ok hfuel hna hord h u f).weaken (extraOf_quiet u f hq), top_trySend ok hfuel h u f m hm⟩
    exact h1.1.trans0 (toLoggers_rb f hq rest h1.2)

theorem sendAck_rb {s : State} (h : Top cfg s) (u : Nat) : RB cfg s (sendAck cfg s u) zeroX := by
  unfold sendAck
  cases hm : s.find u with
  | none => exact RB.refl s
  | some m =>
    simp only
    have h1 := (trySendTop_rb ok hfuel hna hord h u (ackFrame cfg m.modId)).weaken (extraOf_quiet u _ rfl)
    exact h1.trans0 (toLoggers_rb ok hfuel hna hord _ rfl _ (top_trySend ok hfuel h u _ m hm))

theorem clashLoop_rb (me : Module) : ∀ (os : List Module) {s : State}, Top cfg s → RB cfg s (clashLoop cfg me os s).1 zeroX
  | [], s, _ => RB.refl s
  | o :: rest, s, h => by
    unfold clashLoop
    split
    · exact RB.refl s
    · have h1 : RB cfg s (if me.name.isEmpty then s else logAt cfg (fwdTop cfg) 10 s) zeroX ∧
          Top cfg (if me.name.isEmpty then s else logAt cfg (fwdTop cfg) 10 s) := by
        split
        · exact ⟨RB.refl s, h⟩
        · exact ⟨logTop_rb ok hfuel hna hord 10 h, top_log ok hfuel h 10⟩
      exact h1.1.trans0 (clashLoop_rb me rest h1.2)

theorem connect_rb {s : State} (h : Top cfg s) (u : Nat) (hd : Hdr) : RB cfg s (connectModule cfg s u hd).1 zeroX := by
  unfold connectModule
  dsimp only
  have refuse : ∀ {s2 : State}, RB cfg s s2 zeroX → Top cfg s2 →
      RB cfg s (removeModule cfg (fwdTop cfg) (logAt cfg (fwdTop cfg) 40 s2) u) zeroX :=
    fun h2 t2 => (h2.trans0 (logTop_rb ok hfuel hna hord 40 t2)).trans0 (removeTop_rb ok hfuel hna hord (top_log ok hfuel t2 40) u)
  split
  · exact RB.refl s
  · split
    · exact refuse (rb_same rfl rfl rfl) (top_upd ok hfuel h u (setReq cfg s.buf hd)
        (fun m => (setReq_keeps cfg s.buf hd m).1) (fun m => (setReq_keeps cfg s.buf hd m).2)
        (fun m => by unfold setReq; split <;> rfl))
    · rename_i nm _
      have t1 := top_upd ok hfuel h u (setAll cfg s.buf hd nm) (fun m => (setAll_keeps cfg s.buf hd nm m).1)
        (fun m => (setAll_keeps cfg s.buf hd nm m).2) (fun m => by unfold setAll setReq; split <;> rfl)
      have h1 : RB cfg s (s.upd u (setAll cfg s.buf hd nm)) zeroX := rb_same rfl rfl rfl
      split
      · split
        · exact refuse h1 t1
        · have hl := clashLoop_rb ok hfuel hna hord (setAll cfg s.buf hd nm (lookupMod s u))
            ((s.upd u (setAll cfg s.buf hd nm)).mods.filter (·.uid != u)) t1
          have tl := top_clashLoop ok hfuel (setAll cfg s.buf hd nm (lookupMod s u))
            ((s.upd u (setAll cfg s.buf hd nm)).mods.filter (·.uid != u)) t1
          generalize clashLoop cfg (setAll cfg s.buf hd nm (lookupMod s u))
            ((s.upd u (setAll cfg s.buf hd nm)).mods.filter (·.uid != u)) (s.upd u (setAll cfg s.buf hd nm)) = r at hl tl
          obtain ⟨s2, cl⟩ := r
          dsimp only at hl tl ⊢
          split
          · exact refuse (h1.trans0 hl) tl
          · exact (h1.trans0 hl).trans0 (rb_same rfl rfl rfl)
      · split
        · exact refuse h1 t1
        · exact h1.trans0 (rb_same rfl rfl rfl)

theorem noted_info (m : Module) : notedBody (infoFrame cfg m).body = true → mgrType cfg (infoFrame cfg m).mtype = true :=
  fun _ => mgr_info cfg m

theorem infoOf_rb {s : State} (h : Top cfg s) (m : Module) : RB cfg s (infoOf cfg s m) zeroX := by
  unfold infoOf
  exact (logTop_rb ok hfuel hna hord 10 h).trans0 (fwdTop_rbT ok hfuel hna hord (top_log ok hfuel h 10) _ (fun _ => mgr_info cfg m))

theorem sendInfo_rb {s : State} (h : Top cfg s) (u : Nat) : RB cfg s (sendInfo cfg s u) zeroX := by
  unfold sendInfo; split
  · exact RB.refl s
  · exact infoOf_rb ok hfuel hna hord h _

theorem addSub_rb {s : State} (h : Top cfg s) (u : Nat) (t : Int) (m : Module) (hm : s.find u = some m) :
    RB cfg s (addSub cfg s u t) zeroX := by
  have hcore : RB cfg s (addSubCore cfg s u t) zeroX := by
    unfold addSubCore State.setSubs; dsimp only
    split
    · exact rb_same rfl rfl rfl
    · split <;> exact rb_same rfl rfl rfl
  unfold addSub; split
  · exact hcore.trans0 (logTop_rb ok hfuel hna hord 10 (top_addSubCore ok hfuel h u t m hm))
  · exact hcore

theorem removeSub_rb {s : State} (h : Top cfg s) (u : Nat) (t : Int) (m : Module) (hm : s.find u = some m) :
    RB cfg s (removeSub cfg s u t) zeroX := by
  have hcore : RB cfg s (removeSubCore cfg s u t) zeroX := by
    unfold removeSubCore State.setSubs; dsimp only
    split
    · exact rb_same rfl rfl rfl
    · split <;> exact rb_same rfl rfl rfl
  unfold removeSub; split
  · exact hcore.trans0 (logTop_rb ok hfuel hna hord 10 (top_removeSubCore ok hfuel h u t m hm))
  · exact hcore

theorem process_rb {s : State} (h : Top cfg s) (u : Nat) (m : Module) (hm : s.find u = some m) (hd : Hdr) :
    RB cfg s (processMessage cfg s u hd) zeroX := by
  unfold processMessage
  dsimp only
  split
  · have hc := connect_rb ok hfuel hna hord h u hd
    have tc := top_connect ok hfuel h u hd
    generalize connectModule cfg s u hd = r at hc tc
    obtain ⟨s1, okb⟩ := r
    simp only at hc tc ⊢
    split
    · have t2 := top_sendAck ok hfuel tc u
      have t3 := top_infoOf ok hfuel t2 (connectRecord cfg s u hd)
      exact ((hc.trans0 (sendAck_rb ok hfuel hna hord tc u)).trans0 (infoOf_rb ok hfuel hna hord t2 _)).trans0
        (logTop_rb ok hfuel hna hord 20 t3)
    · exact hc
  · split
    · exact (removeTop_rb ok hfuel hna hord h u).trans0 (logTop_rb ok hfuel hna hord 20 (top_remove ok hfuel h u))
    · split
      · exact (addSub_rb ok hfuel hna hord h u _ m hm).trans0 (sendAck_rb ok hfuel hna hord (top_addSub ok hfuel h u _ m hm) u)
      · split
        · exact (removeSub_rb ok hfuel hna hord h u _ m hm).trans0
            (sendAck_rb ok hfuel hna hord (top_removeSub ok hfuel h u _ m hm) u)
        · split
          · split
            · exact (logTop_rb ok hfuel hna hord 40 h).trans0 (removeTop_rb ok hfuel hna hord (top_log ok hfuel h 40) u)
            · rename_i nm _
              have t1 := top_upd ok hfuel h u (fun m => { m with name := nm }) (fun _ => rfl) (fun _ => rfl) (fun _ => rfl)
              exact ((rb_same (s := s) (s' := s.upd u (fun m => { m with name := nm })) rfl rfl rfl).trans0
                (logTop_rb ok hfuel hna hord 20 t1)).trans0 (infoOf_rb ok hfuel hna hord (top_log ok hfuel t1 20) _)
          · split
            · have t1 := top_upd ok hfuel h u (fun m => { m with pid := bufI32 s.buf 0 }) (fun _ => rfl) (fun _ => rfl) (fun _ => rfl)
              exact (rb_same (s := s) (s' := s.upd u (fun m => { m with pid := bufI32 s.buf 0 })) rfl rfl rfl).trans0
                (sendInfo_rb ok hfuel hna hord t1 u)
            · exact (logTop_rb ok hfuel hna hord 10 h).trans0
                (fwdTop_rbT ok hfuel hna hord (top_log ok hfuel h 10) _ (fun hn => by simp [notedBody] at hn))

theorem readOne_rb {s : State} (h : Top cfg s) (r : Read) : RB cfg s (readOne cfg s r) zeroX := by
  rcases readOne_cases cfg s r with he | ⟨_, ⟨m, hm⟩, he⟩
  · rw [he]; exact RB.refl s
  · rw [he]
    have h0 : RB cfg s (afterRead cfg s r) zeroX := by
      refine ⟨[.rd r.uid], [], ⟨rfl, by simp [afterRead, State.emit], rfl, Marks.nil _ _⟩, fun o t => ?_⟩
      rw [msc_single]; simp [isNoted]
    have t0 : Top cfg (afterRead cfg s r) := top_same ok hfuel h _ rfl rfl rfl
    have hm0 : (afterRead cfg s r).find r.uid = some m := hm
    split
    · exact (h0.trans0 (removeTop_rb ok hfuel hna hord t0 r.uid)).trans0
        (logTop_rb ok hfuel hna hord _ (top_remove ok hfuel t0 r.uid))
    · exact h0.trans0 (process_rb ok hfuel hna hord t0 r.uid m hm0 r.h)

theorem readAll_rb : ∀ (rs : List Read) {s : State}, Top cfg s → RB cfg s (readAll cfg rs s) zeroX
  | [], s, _ => RB.refl s
  | r :: rest, s, h => by
    unfold readAll
    exact (readOne_rb ok hfuel hna hord h r).trans0 (readAll_rb rest (top_readOne ok hfuel h r))

theorem accept_rb {s : State} (h : Top cfg s) : RB cfg s (acceptStep cfg s) zeroX := by
  unfold acceptStep
  exact (logTop_rb ok hfuel hna hord 20 h).trans0 (rb_same rfl rfl rfl)

end top

end Pyrtma.Mgr
