import Pyrtma.Proofs.ManagerClose
import Pyrtma.Proofs.ManagerId
/-!
# The event log of one operation of M1: departures are exactly the closes

`EvE s s' ext`: the operation appended the events `ext` to the log; none of them is a read marker; and for every
connection `u`  (closes of `u` in `ext`) + [`u` open afterwards] = [`u` open before]  — a conservation law carried
through the nested recursion (contract `EvOK`; the only side condition is that uids are pairwise distinct, which the
relation itself preserves: table entries are only dropped).  So between two top-level operations a connection has left
the table iff its close is in the log, exactly once.
-/
namespace Pyrtma.Mgr

def isRd : Ev → Bool
  | .rd _ => true
  | _ => false

/-- no read marker among the events -/
def NoRd (evs : List Ev) : Prop := ∀ e ∈ evs, isRd e = false

theorem NoRd.nil : NoRd [] := fun _ h => by cases h
theorem NoRd.append {a b : List Ev} (ha : NoRd a) (hb : NoRd b) : NoRd (a ++ b) := fun e he => by
  rcases List.mem_append.mp he with h | h
  · exact ha e h
  · exact hb e h
theorem NoRd.single {e : Ev} (h : isRd e = false) : NoRd [e] := fun x hx => by simp at hx; subst hx; exact h

/-- 1 while `u` is in the table with an open socket -/
def openN (s : State) (u : Nat) : Nat := if isOpen s u then 1 else 0

theorem closeCnt_append (a b : List Ev) (u : Nat) : closeCnt (a ++ b) u = closeCnt a u + closeCnt b u := by
  unfold closeCnt; rw [List.countP_append]

theorem closeCnt_single (e : Ev) (u : Nat) : closeCnt [e] u = if isClose u e then 1 else 0 := by
  unfold closeCnt; simp [List.countP_cons]

structure EvE (s s' : State) (ext : List Ev) : Prop where
  out : s'.out = s.out ++ ext
  nord : NoRd ext
  cons : ∀ u, closeCnt ext u + openN s' u = openN s u
  uids : (s'.mods.map (·.uid)).Sublist (s.mods.map (·.uid))
  nuid : s'.nextUid = s.nextUid
  fail : s'.fail = s.fail
  wlist : s'.wlist = s.wlist

def EvS (s s' : State) : Prop := ∃ ext, EvE s s' ext

theorem EvE.refl (s : State) : EvE s s [] :=
  ⟨by simp, NoRd.nil, fun u => by simp [closeCnt], List.Sublist.refl _, rfl, rfl, rfl⟩

theorem EvS.refl (s : State) : EvS s s := ⟨[], EvE.refl s⟩

theorem EvE.trans {a b c : State} {e1 e2 : List Ev} (h1 : EvE a b e1) (h2 : EvE b c e2) : EvE a c (e1 ++ e2) :=
  ⟨by rw [h2.out, h1.out, List.append_assoc], h1.nord.append h2.nord,
   fun u => by rw [closeCnt_append]; have := h1.cons u; have := h2.cons u; omega,
   h2.uids.trans h1.uids, h2.nuid.trans h1.nuid, h2.fail.trans h1.fail, h2.wlist.trans h1.wlist⟩

theorem EvS.trans {a b c : State} (h1 : EvS a b) (h2 : EvS b c) : EvS a c := by
  obtain ⟨e1, h1⟩ := h1; obtain ⟨e2, h2⟩ := h2; exact ⟨e1 ++ e2, h1.trans h2⟩

theorem EvE.distinct {s s' : State} {ext : List Ev} (h : EvE s s' ext) (hd : UidsDistinct s) : UidsDistinct s' :=
  List.Sublist.nodup h.uids hd

theorem EvS.distinct {s s' : State} (h : EvS s s') (hd : UidsDistinct s) : UidsDistinct s' := by
  obtain ⟨e, h⟩ := h; exact h.distinct hd

/-- same log, same open sockets, same uids -/
theorem evS_same {s s' : State} (ho : s'.out = s.out) (hop : ∀ v, isOpen s' v = isOpen s v)
    (hu : s'.mods.map (·.uid) = s.mods.map (·.uid)) (hn : s'.nextUid = s.nextUid) (hf : s'.fail = s.fail)
    (hw : s'.wlist = s.wlist) : EvS s s' :=
  ⟨[], by simp [ho], NoRd.nil, fun u => by simp [closeCnt, openN, hop], by rw [hu]; exact List.Sublist.refl _, hn, hf, hw⟩

theorem evS_mods {s s' : State} (ho : s'.out = s.out) (hm : s'.mods = s.mods) (hn : s'.nextUid = s.nextUid)
    (hf : s'.fail = s.fail) (hw : s'.wlist = s.wlist) : EvS s s' :=
  evS_same ho (fun v => by unfold isOpen; rw [hm]) (by rw [hm]) hn hf hw

theorem evS_upd (s : State) (u : Nat) (f : Module → Module) (hu : ∀ m, (f m).uid = m.uid)
    (hc : ∀ m, (f m).closed = m.closed) : EvS s (s.upd u f) :=
  evS_same rfl (fun v => isOpen_upd s u v f hu hc) (uids_upd s u f hu) rfl rfl rfl

theorem evS_crash (s : State) (w : String) : EvS s (s.crash w) := by
  unfold State.crash; split
  · exact EvS.refl s
  · exact evS_mods rfl rfl rfl rfl rfl

/-- an event that is neither a read marker nor a close -/
theorem evS_emit (s : State) (e : Ev) (h1 : isRd e = false) (h2 : ∀ u, isClose u e = false) : EvS s (s.emit e) :=
  ⟨[e], rfl, NoRd.single h1, fun u => by rw [closeCnt_single, h2 u]; simp [openN, isOpen, State.emit], List.Sublist.refl _,
   rfl, rfl, rfl⟩

theorem sendRaw_ev (s : State) (u : Nat) (f : Frame) : EvS s (sendRaw s u f).1 := by
  unfold sendRaw
  split
  · exact evS_crash _ _
  · split
    · exact evS_crash _ _
    · have h1 : EvS s (s.upd u fun m => { m with msgCount := m.msgCount + 1 }) :=
        evS_upd s u _ (fun _ => rfl) (fun _ => rfl)
      dsimp only
      split
      · exact h1.trans (evS_emit _ _ rfl (fun _ => rfl))
      · exact (h1.trans (evS_emit _ _ rfl (fun _ => rfl))).trans (evS_emit _ _ rfl (fun _ => rfl))
      · exact h1.trans (evS_emit _ _ rfl (fun _ => rfl))

theorem isOpen_find_closed {s : State} (hd : UidsDistinct s) {u : Nat} {m : Module} (hm : s.find u = some m)
    (hc : m.closed = true) : isOpen s u = false := by
  cases h : isOpen s u with
  | false => rfl
  | true =>
    unfold isOpen at h
    rw [List.any_eq_true] at h
    obtain ⟨x, hx, hp⟩ := h
    simp only [Bool.and_eq_true, beq_iff_eq, Bool.not_eq_true'] at hp
    have hfx := find_of_mem hd hx
    rw [hp.1, hm] at hfx
    cases hfx
    rw [hc] at hp; cases hp.2

theorem isOpen_find_none {s : State} {u : Nat} (hm : s.find u = none) : isOpen s u = false := by
  cases h : isOpen s u with
  | false => rfl
  | true =>
    unfold isOpen at h
    rw [List.any_eq_true] at h
    obtain ⟨x, hx, hp⟩ := h
    simp only [Bool.and_eq_true, beq_iff_eq] at hp
    unfold State.find at hm
    rw [List.find?_eq_none] at hm
    exact absurd (by simp [hp.1]) (hm x hx)

theorem removePrep_ev {s : State} (hd : UidsDistinct s) (u : Nat) (m : Module) (hm : s.find u = some m) :
    EvS s (removePrep s u m) ∧ isOpen (removePrep s u m) u = false := by
  unfold removePrep
  dsimp only
  generalize hs1 : ({ s with idx := m.subs.foldl (fun i t => idxDiscard i t u) s.idx,
                             loggers := s.loggers.filter (· != u) } : State) = s1
  have hm1 : s1.mods = s.mods := by subst hs1; rfl
  have ho1 : s1.out = s.out := by subst hs1; rfl
  have hop1 : ∀ v, isOpen s1 v = isOpen s v := fun v => by unfold isOpen; rw [hm1]
  cases hcl : m.closed with
  | true =>
    simp only [if_true]
    have hu0 := isOpen_find_closed hd hm hcl
    have hop : ∀ v, isOpen (s1.upd u (fun m => { m with closed := true, connected := false })) v = (v != u && isOpen s v) :=
      fun v => by rw [isOpen_closed_upd, hop1]
    have huid := uids_upd s1 u (fun m => { m with closed := true, connected := false }) (fun _ => rfl)
    have hn1 : s1.nextUid = s.nextUid := by subst hs1; rfl
    have hf1 : s1.fail = s.fail := by subst hs1; rfl
    have hw1 : s1.wlist = s.wlist := by subst hs1; rfl
    refine ⟨⟨[], by simp [State.upd, ho1], NoRd.nil, fun v => ?_, by rw [huid, hm1]; exact List.Sublist.refl _, hn1, hf1, hw1⟩, ?_⟩
    · unfold openN; rw [hop]
      by_cases hvu : v = u
      · subst hvu; simp [closeCnt, hu0]
      · have : (v != u) = true := by simpa using hvu
        simp [closeCnt, this]
    · rw [hop]; simp
  | false =>
    simp only [Bool.false_eq_true, if_false]
    have hu1 := isOpen_of_find hm hcl
    have hop : ∀ v, isOpen ((s1.emit (.close u)).upd u (fun m => { m with closed := true, connected := false })) v =
        (v != u && isOpen s v) := fun v => by
      rw [isOpen_closed_upd]
      have : isOpen (s1.emit (.close u)) v = isOpen s1 v := rfl
      rw [this, hop1]
    have huid := uids_upd (s1.emit (.close u)) u (fun m => { m with closed := true, connected := false }) (fun _ => rfl)
    have hn1 : s1.nextUid = s.nextUid := by subst hs1; rfl
    have hf1 : s1.fail = s.fail := by subst hs1; rfl
    have hw1 : s1.wlist = s.wlist := by subst hs1; rfl
    refine ⟨⟨[.close u], by simp [State.upd, State.emit, ho1], NoRd.single rfl, fun v => ?_,
      by rw [huid]; show (s1.mods.map (·.uid)).Sublist _; rw [hm1]; exact List.Sublist.refl _, hn1, hf1, hw1⟩, ?_⟩
    · unfold openN; rw [hop, closeCnt_single]
      by_cases hvu : v = u
      · subst hvu; simp [isClose, hu1]
      · have h1 : (v != u) = true := by simpa using hvu
        have h2 : isClose v (.close u) = false := by simp [isClose]; omega
        simp [h1, h2]
    · rw [hop]; simp

theorem dropMod_ev (s : State) (u : Nat) (hc : isOpen s u = false) :
    EvS s { s with mods := s.mods.filter (·.uid != u) } := by
  refine ⟨[], by simp, NoRd.nil, fun v => ?_, List.Sublist.map _ List.filter_sublist, rfl, rfl, rfl⟩
  have : isOpen { s with mods := s.mods.filter (·.uid != u) } v = isOpen s v := by
    by_cases hvu : v = u
    · subst hvu
      rw [hc]
      cases h : isOpen { s with mods := s.mods.filter (·.uid != v) } v with
      | false => rfl
      | true =>
        unfold isOpen at h
        rw [List.any_eq_true] at h
        obtain ⟨x, hx, hp⟩ := h
        have := (List.mem_filter.mp hx).2
        simp only [Bool.and_eq_true, beq_iff_eq] at hp
        simp [hp.1] at this
    · unfold isOpen
      rw [Bool.eq_iff_iff, List.any_eq_true, List.any_eq_true]
      constructor
      · rintro ⟨x, hx, hp⟩; exact ⟨x, (List.mem_filter.mp hx).1, hp⟩
      · rintro ⟨x, hx, hp⟩
        refine ⟨x, List.mem_filter.mpr ⟨hx, ?_⟩, hp⟩
        simp only [Bool.and_eq_true, beq_iff_eq] at hp
        simp [hp.1, hvu]
  simp [closeCnt, openN, this]

/-- the contract of the nested forward -/
def EvOK (fwd : Fwd) : Prop := ∀ s g, UidsDistinct s → EvS s (fwd s g)

section chain
variable {cfg : Cfg} {fwd : Fwd} (hf : EvOK fwd)
include hf

theorem logAt_ev (lvl : Nat) {s : State} (hd : UidsDistinct s) : EvS s (logAt cfg fwd lvl s) := by
  unfold logAt; split
  · exact hf s _ hd
  · exact EvS.refl s

theorem removeModule_ev {s : State} (hd : UidsDistinct s) (u : Nat) : EvS s (removeModule cfg fwd s u) := by
  unfold removeModule
  split
  · exact EvS.refl s
  · rename_i m hm
    dsimp only
    obtain ⟨h1, hc1⟩ := removePrep_ev hd u m hm
    have d1 := h1.distinct hd
    have h2 := logAt_ev (cfg := cfg) hf 10 d1
    have d2 := h2.distinct d1
    have h3 := hf (logAt cfg fwd 10 (removePrep s u m)) (closedFrame cfg { m with connected := false }) d2
    have h23 := h2.trans h3
    have hc3 : isOpen (fwd (logAt cfg fwd 10 (removePrep s u m)) (closedFrame cfg { m with connected := false })) u = false := by
      obtain ⟨e, he⟩ := h23
      have := he.cons u
      unfold openN at this
      rw [hc1] at this
      cases h : isOpen (fwd (logAt cfg fwd 10 (removePrep s u m)) (closedFrame cfg { m with connected := false })) u with
      | false => rfl
      | true => rw [h] at this; simp at this
    exact (h1.trans h23).trans (dropMod_ev _ u hc3)

theorem failedMsg_ev {s : State} (hd : UidsDistinct s) (d : Int) (f : Frame) : EvS s (failedMsg cfg fwd s d f) := by
  unfold failedMsg; split
  · exact EvS.refl s
  · exact hf s _ hd

theorem trySend_ev {s : State} (hd : UidsDistinct s) (u : Nat) (f : Frame) : EvS s (trySend cfg fwd s u f) := by
  unfold trySend
  dsimp only
  have h1 := sendRaw_ev s u f
  generalize sendRaw s u f = r at h1
  obtain ⟨s1, okb⟩ := r
  simp only at h1 ⊢
  have d1 := h1.distinct hd
  split
  · exact h1.trans (evS_upd s1 u _ (fun _ => rfl) (fun _ => rfl))
  · split
    · exact h1
    · have h2 := removeModule_ev (cfg := cfg) hf d1 u
      have d2 := h2.distinct d1
      have h3 := logAt_ev (cfg := cfg) hf 40 d2
      have d3 := h3.distinct d2
      exact ((h1.trans h2).trans h3).trans (failedMsg_ev hf d3 _ f)

theorem deliverOne_ev (f : Frame) {s : State} (hd : UidsDistinct s) (u : Nat) : EvS s (deliverOne cfg fwd f s u) := by
  unfold deliverOne
  split
  · exact EvS.refl s
  · split
    · split
      · exact trySend_ev hf hd u f
      · exact EvS.refl s
    · split
      · exact trySend_ev hf hd u f
      · have h1 : EvS s (s.upd u fun m => { m with drops := m.drops + 1 }) := evS_upd s u _ (fun _ => rfl) (fun _ => rfl)
        exact h1.trans (failedMsg_ev hf (h1.distinct hd) _ f)

theorem deliver_ev (f : Frame) : ∀ (rs : List Nat) {s : State}, UidsDistinct s → EvS s (deliver cfg fwd f rs s)
  | [], s, _ => EvS.refl s
  | u :: rest, s, hd => by
    unfold deliver
    have h1 := deliverOne_ev (cfg := cfg) hf f hd u
    exact h1.trans (deliver_ev f rest (h1.distinct hd))

end chain

theorem countMsg_ev (cfg : Cfg) (s : State) (t : Int) : EvS s (countMsg cfg s t) := by
  unfold countMsg; split <;> exact evS_mods rfl rfl rfl rfl rfl

theorem forward_ev (cfg : Cfg) : ∀ n, EvOK (forward cfg n)
  | 0 => fun s g _ => by unfold forward; exact evS_crash _ _
  | n + 1 => fun s g hd => by
    have ih := forward_ev cfg n
    unfold forward
    split
    · exact EvS.refl s
    · have h0 := countMsg_ev cfg s g.mtype
      have d0 := h0.distinct hd
      dsimp only
      split
      · exact h0.trans (logAt_ev ih 40 d0)
      · split
        · exact h0.trans (logAt_ev ih 40 d0)
        · exact h0.trans (deliver_ev ih g _ d0)

theorem fwdTop_ev (cfg : Cfg) : EvOK (fwdTop cfg) := fun s g hd => forward_ev cfg _ s g hd

/-! ## top level -/

section top
variable (cfg : Cfg)

theorem logTop_ev (lvl : Nat) {s : State} (hd : UidsDistinct s) : EvS s (logAt cfg (fwdTop cfg) lvl s) :=
  logAt_ev (fwdTop_ev cfg) lvl hd

theorem toLoggers_ev (f : Frame) : ∀ (ls : List Nat) {s : State}, UidsDistinct s → EvS s (toLoggers cfg f ls s)
  | [], s, _ => EvS.refl s
  | u :: rest, s, hd => by
    unfold toLoggers
    have h1 : EvS s (loggerOne cfg f s u) := by
      unfold loggerOne; split
      · exact EvS.refl s
      · exact trySend_ev (fwdTop_ev cfg) hd u f
    exact h1.trans (toLoggers_ev f rest (h1.distinct hd))

theorem sendAck_ev {s : State} (hd : UidsDistinct s) (u : Nat) : EvS s (sendAck cfg s u) := by
  unfold sendAck; split
  · exact EvS.refl s
  · have h1 := trySend_ev (cfg := cfg) (fwdTop_ev cfg) hd u (ackFrame cfg ‹Module›.modId)
    exact h1.trans (toLoggers_ev cfg _ _ (h1.distinct hd))

theorem clashLoop_ev (me : Module) : ∀ (os : List Module) {s : State}, UidsDistinct s → EvS s (clashLoop cfg me os s).1
  | [], s, _ => EvS.refl s
  | o :: rest, s, hd => by
    unfold clashLoop
    split
    · exact EvS.refl s
    · have h1 : EvS s (if me.name.isEmpty then s else logAt cfg (fwdTop cfg) 10 s) := by
        split
        · exact EvS.refl s
        · exact logTop_ev cfg 10 hd
      exact h1.trans (clashLoop_ev me rest (h1.distinct hd))

theorem setReq_uc (buf : List Nat) (hd : Hdr) (x : Module) :
    (setReq cfg buf hd x).uid = x.uid ∧ (setReq cfg buf hd x).closed = x.closed := by
  unfold setReq; split <;> exact ⟨rfl, rfl⟩

theorem setAll_uc (buf : List Nat) (hd : Hdr) (nm : List Nat) (x : Module) :
    (setAll cfg buf hd nm x).uid = x.uid ∧ (setAll cfg buf hd nm x).closed = x.closed := by
  unfold setAll; exact setReq_uc cfg buf hd x

theorem connect_ev {s : State} (hd : UidsDistinct s) (u : Nat) (h : Hdr) : EvS s (connectModule cfg s u h).1 := by
  unfold connectModule
  dsimp only
  split
  · exact EvS.refl s
  · split
    · have h1 : EvS s (s.upd u (setReq cfg s.buf h)) :=
        evS_upd s u _ (fun m => (setReq_uc cfg s.buf h m).1) (fun m => (setReq_uc cfg s.buf h m).2)
      have h2 := logTop_ev cfg 40 (h1.distinct hd)
      exact (h1.trans h2).trans (removeModule_ev (fwdTop_ev cfg) ((h1.trans h2).distinct hd) u)
    · rename_i nm _
      have h1 : EvS s (s.upd u (setAll cfg s.buf h nm)) :=
        evS_upd s u _ (fun m => (setAll_uc cfg s.buf h nm m).1) (fun m => (setAll_uc cfg s.buf h nm m).2)
      have d1 := h1.distinct hd
      have hrefuse : ∀ {s2 : State}, EvS s s2 → EvS s (removeModule cfg (fwdTop cfg) (logAt cfg (fwdTop cfg) 40 s2) u) := by
        intro s2 h2
        have h3 := logTop_ev cfg 40 (h2.distinct hd)
        exact (h2.trans h3).trans (removeModule_ev (fwdTop_ev cfg) ((h2.trans h3).distinct hd) u)
      split
      · split
        · exact hrefuse h1
        · have hl := clashLoop_ev cfg (setAll cfg s.buf h nm (lookupMod s u))
            ((s.upd u (setAll cfg s.buf h nm)).mods.filter (·.uid != u)) d1
          generalize clashLoop cfg (setAll cfg s.buf h nm (lookupMod s u))
            ((s.upd u (setAll cfg s.buf h nm)).mods.filter (·.uid != u)) (s.upd u (setAll cfg s.buf h nm)) = r at hl
          obtain ⟨s2, cl⟩ := r
          dsimp only at hl ⊢
          split
          · exact hrefuse (h1.trans hl)
          · refine EvS.trans ((h1.trans hl).trans (evS_upd s2 u (fun m => { m with connected := true }) (fun _ => rfl) (fun _ => rfl))) ?_
            exact evS_mods rfl rfl rfl rfl rfl
      · split
        · exact hrefuse h1
        · have h2 : EvS (s.upd u (setAll cfg s.buf h nm)) ({ (s.upd u (setAll cfg s.buf h nm)) with nextDyn := ‹Nat› } : State) :=
            evS_mods rfl rfl rfl rfl rfl
          refine EvS.trans ((h1.trans h2).trans (evS_upd _ u (fun m => { m with modId := ‹Int›, connected := true }) (fun _ => rfl) (fun _ => rfl))) ?_
          exact evS_mods rfl rfl rfl rfl rfl

theorem evS_setSubs (s : State) (i : List (Int × List Nat)) (u : Nat) (l : List Int) :
    EvS s (({ s with idx := i } : State).setSubs u l) :=
  (evS_mods (s := s) (s' := { s with idx := i }) rfl rfl rfl rfl rfl).trans (evS_upd _ u _ (fun _ => rfl) (fun _ => rfl))

theorem addSubCore_ev (s : State) (u : Nat) (t : Int) : EvS s (addSubCore cfg s u t) := by
  unfold addSubCore; dsimp only
  split
  · exact evS_setSubs s _ u _
  · split
    · exact EvS.refl s
    · exact evS_setSubs s _ u _

theorem removeSubCore_ev (s : State) (u : Nat) (t : Int) : EvS s (removeSubCore cfg s u t) := by
  unfold removeSubCore; dsimp only
  split
  · exact evS_setSubs s _ u _
  · split
    · exact EvS.refl s
    · exact evS_setSubs s _ u _

theorem addSub_ev {s : State} (hd : UidsDistinct s) (u : Nat) (t : Int) : EvS s (addSub cfg s u t) := by
  have h1 := addSubCore_ev cfg s u t
  unfold addSub; split
  · exact h1.trans (logTop_ev cfg 10 (h1.distinct hd))
  · exact h1

theorem removeSub_ev {s : State} (hd : UidsDistinct s) (u : Nat) (t : Int) : EvS s (removeSub cfg s u t) := by
  have h1 := removeSubCore_ev cfg s u t
  unfold removeSub; split
  · exact h1.trans (logTop_ev cfg 10 (h1.distinct hd))
  · exact h1

theorem infoOf_ev {s : State} (hd : UidsDistinct s) (m : Module) : EvS s (infoOf cfg s m) := by
  unfold infoOf
  have h1 := logTop_ev cfg 10 hd
  exact h1.trans (fwdTop_ev cfg _ _ (h1.distinct hd))

theorem sendInfo_ev {s : State} (hd : UidsDistinct s) (u : Nat) : EvS s (sendInfo cfg s u) := by
  unfold sendInfo; split
  · exact EvS.refl s
  · exact infoOf_ev cfg hd _

theorem process_ev {s : State} (hd : UidsDistinct s) (u : Nat) (h : Hdr) : EvS s (processMessage cfg s u h) := by
  unfold processMessage
  dsimp only
  split
  · have hc := connect_ev cfg hd u h
    generalize connectModule cfg s u h = r at hc
    obtain ⟨s1, okb⟩ := r
    simp only at hc ⊢
    split
    · have h2 := sendAck_ev cfg (hc.distinct hd) u
      have h3 := infoOf_ev cfg ((hc.trans h2).distinct hd) (connectRecord cfg s u h)
      exact ((hc.trans h2).trans h3).trans (logTop_ev cfg 20 (((hc.trans h2).trans h3).distinct hd))
    · exact hc
  · split
    · have h1 := removeModule_ev (cfg := cfg) (fwdTop_ev cfg) hd u
      exact h1.trans (logTop_ev cfg 20 (h1.distinct hd))
    · split
      · have h1 := addSub_ev cfg hd u (bufI32 s.buf 0)
        exact h1.trans (sendAck_ev cfg (h1.distinct hd) u)
      · split
        · have h1 := removeSub_ev cfg hd u (bufI32 s.buf 0)
          exact h1.trans (sendAck_ev cfg (h1.distinct hd) u)
        · split
          · split
            · have h1 := logTop_ev cfg 40 hd
              exact h1.trans (removeModule_ev (fwdTop_ev cfg) (h1.distinct hd) u)
            · rename_i nm _
              have h1 : EvS s (s.upd u (fun m => { m with name := nm })) := evS_upd s u _ (fun _ => rfl) (fun _ => rfl)
              have h2 := logTop_ev cfg 20 (h1.distinct hd)
              exact (h1.trans h2).trans (infoOf_ev cfg ((h1.trans h2).distinct hd) _)
          · split
            · have h1 : EvS s (s.upd u (fun m => { m with pid := bufI32 s.buf 0 })) := evS_upd s u _ (fun _ => rfl) (fun _ => rfl)
              exact h1.trans (sendInfo_ev cfg (h1.distinct hd) u)
            · have h1 := logTop_ev cfg 10 hd
              exact h1.trans (fwdTop_ev cfg _ _ (h1.distinct hd))

theorem foldl_fwd_ev : ∀ (fs : List Frame) {s : State}, UidsDistinct s → EvS s (fs.foldl (fwdTop cfg) s)
  | [], s, _ => EvS.refl s
  | f :: rest, s, hd => by
    simp only [List.foldl_cons]
    have h1 := fwdTop_ev cfg s f hd
    exact h1.trans (foldl_fwd_ev rest (h1.distinct hd))

theorem infoAll_ev : ∀ (ms : List Module) {s : State}, UidsDistinct s → EvS s (infoAll cfg ms s)
  | [], s, _ => EvS.refl s
  | m :: rest, s, hd => by
    unfold infoAll
    have h1 := infoOf_ev cfg hd ((s.find m.uid).getD m)
    exact h1.trans (infoAll_ev rest (h1.distinct hd))

theorem sendTiming_ev {s : State} (hd : UidsDistinct s) : EvS s (sendTiming cfg s) := by
  unfold sendTiming
  dsimp only
  have h0 : EvS s ({ s with counts := [], inTraffic := true } : State) := evS_mods rfl rfl rfl rfl rfl
  have h1 := fwdTop_ev cfg _ (mgrFrame cfg.mtTiming 0 cfg.szTiming (Body.timing (timingEntries cfg s.counts) (pidEntries s.mods)))
    (h0.distinct hd)
  exact (h0.trans h1).trans (evS_mods rfl rfl rfl rfl rfl)

theorem sendTraffic_ev {s : State} (hd : UidsDistinct s) : EvS s (sendTraffic cfg s) := by
  unfold sendTraffic
  dsimp only
  have h0 : EvS s ({ s with inTraffic := true } : State) := evS_mods rfl rfl rfl rfl rfl
  have h1 := logTop_ev cfg 10 (h0.distinct hd)
  generalize logAt cfg (fwdTop cfg) 10 ({ s with inTraffic := true } : State) = s1 at h1
  have h2 := foldl_fwd_ev cfg (trafficFrames cfg s1.trafficSeq s1.traffic) ((h0.trans h1).distinct hd)
  exact ((h0.trans h1).trans h2).trans (evS_mods rfl rfl rfl rfl rfl)

theorem sendActive_ev {s : State} (hd : UidsDistinct s) : EvS s (sendActive cfg s) := by
  unfold sendActive
  dsimp only
  have h1 := logTop_ev cfg 10 hd
  generalize logAt cfg (fwdTop cfg) 10 s = s1 at h1
  have d1 := h1.distinct hd
  have h2 := infoAll_ev cfg s1.mods d1
  have h3 := fwdTop_ev cfg _ (mgrFrame cfg.mtActive 0 cfg.szActive
      (Body.active (((infoAll cfg s1.mods s1).mods.length : Int) - 1) (trimZeros ((s1.mods.take cfg.maxActive).map (·.modId)))
        (trimZeros ((s1.mods.take cfg.maxActive).map (·.pid))))) (h2.distinct d1)
  exact ((h1.trans h2).trans h3).trans (evS_mods rfl rfl rfl rfl rfl)

theorem ticks_ev {s : State} (hd : UidsDistinct s) : EvS s (ticks cfg s) := by
  unfold ticks
  dsimp only
  have h1 : EvS s (if (cfg.timing && decide (s.now - s.tTiming > cfg.pTiming)) = true then
      { sendTiming cfg s with tTiming := s.now } else s) := by
    split
    · exact (sendTiming_ev cfg hd).trans (evS_mods rfl rfl rfl rfl rfl)
    · exact EvS.refl s
  generalize (if (cfg.timing && decide (s.now - s.tTiming > cfg.pTiming)) = true then
      { sendTiming cfg s with tTiming := s.now } else s) = s1 at h1 ⊢
  have d1 := h1.distinct hd
  have h2 : EvS s1 (if s1.now - s1.tTraffic > cfg.pTraffic then sendTraffic cfg s1 else s1) := by
    split
    · exact sendTraffic_ev cfg d1
    · exact EvS.refl s1
  generalize (if s1.now - s1.tTraffic > cfg.pTraffic then sendTraffic cfg s1 else s1) = s2 at h2 ⊢
  refine (h1.trans h2).trans ?_
  split
  · exact sendActive_ev cfg (h2.distinct d1)
  · exact EvS.refl s2

end top

end Pyrtma.Mgr
