import Pyrtma.Model.YamlDef
/-! Decorations of the source (comment lines, blank lines, trailing comments, trailing blanks) never reach `loadDef`. -/
namespace Pyrtma.YamlDef
open Pyrtma.HashText

/-- the state in which the comment scanner reaches the end of the line; `none`: it met a comment before -/
def endState : Q → Bool → Line → Option Q
  | q, _, [] => some q
  | .plain, pb, c :: r =>
    if c = '#' && pb then none
    else if c = '\'' then endState .sq false r
    else if c = '"' then endState .dq false r
    else endState .plain (isBlank c) r
  | .sq, _, c :: r => endState (if c = '\'' then .plain else .sq) false r
  | .dq, _, c :: r => endState (if c = '"' then .plain else .dq) false r

/-- blanks, then `#…`, scanned outside quotes: only the blanks survive -/
theorem stripFrom_blanks_comment : ∀ (bl : Line) (pb : Bool) (c : Line), bl.all isBlank = true → (bl ≠ [] ∨ pb = true) →
    stripFrom .plain pb (bl ++ '#' :: c) = bl
  | [], pb, c, _, h => by
    rcases h with h | h
    · exact absurd rfl h
    · simp [stripFrom, h]
  | b :: bl, pb, c, hb, _ => by
    simp only [List.all_cons, Bool.and_eq_true] at hb
    have h1 : b ≠ '#' := by intro e; subst e; exact absurd hb.1 (by decide)
    have h2 : b ≠ '\'' := by intro e; subst e; exact absurd hb.1 (by decide)
    have h3 : b ≠ '"' := by intro e; subst e; exact absurd hb.1 (by decide)
    simp only [List.cons_append, stripFrom, h1, h2, h3, decide_false, Bool.false_and, if_false,
      Bool.false_eq_true, hb.1]
    rw [stripFrom_blanks_comment bl true c hb.2 (Or.inr rfl)]

/-- blanks at the end of a line scanned outside quotes are copied -/
theorem stripFrom_blanks : ∀ (bl : Line) (pb : Bool), bl.all isBlank = true → stripFrom .plain pb bl = bl
  | [], _, _ => rfl
  | b :: bl, pb, hb => by
    simp only [List.all_cons, Bool.and_eq_true] at hb
    have h1 : b ≠ '#' := by intro e; subst e; exact absurd hb.1 (by decide)
    have h2 : b ≠ '\'' := by intro e; subst e; exact absurd hb.1 (by decide)
    have h3 : b ≠ '"' := by intro e; subst e; exact absurd hb.1 (by decide)
    simp only [stripFrom, h1, h2, h3, decide_false, Bool.false_and, if_false, Bool.false_eq_true, hb.1]
    rw [stripFrom_blanks bl true hb.2]

theorem blank_props {b : Char} (hb : isBlank b = true) : b ≠ '#' ∧ b ≠ '\'' ∧ b ≠ '"' := by
  refine ⟨?_, ?_, ?_⟩ <;> (intro e; subst e; exact absurd hb (by decide))

/-- appending something that begins with a blank: after a comment nothing matters; after a complete (un-quoted)
end the appendix is scanned on its own -/
theorem stripFrom_append_blank (b : Char) (x : Line) (hb : isBlank b = true) : ∀ (l : Line) (q : Q) (pb : Bool),
    (endState q pb l = none → stripFrom q pb (l ++ b :: x) = stripFrom q pb l) ∧
    (endState q pb l = some .plain → stripFrom q pb (l ++ b :: x) = stripFrom q pb l ++ b :: stripFrom .plain true x)
  | [], q, pb => by
    refine ⟨fun h => by simp [endState] at h, fun h => ?_⟩
    simp only [endState, Option.some.injEq] at h
    subst h
    obtain ⟨h1, h2, h3⟩ := blank_props hb
    simp [stripFrom, h1, h2, h3, hb]
  | c :: r, q, pb => by
    have ih := stripFrom_append_blank b x hb r
    cases q with
    | plain =>
      simp only [List.cons_append, stripFrom, endState]
      by_cases h1 : (c = '#' && pb) = true
      · simp only [h1, if_true]
        simp
      · simp only [h1, if_false, Bool.false_eq_true]
        by_cases h2 : c = '\''
        · simp only [h2, if_true]
          exact ⟨fun h => by rw [(ih .sq false).1 h], fun h => by rw [(ih .sq false).2 h]; rfl⟩
        · simp only [h2, if_false]
          by_cases h3 : c = '"'
          · simp only [h3, if_true]
            exact ⟨fun h => by rw [(ih .dq false).1 h], fun h => by rw [(ih .dq false).2 h]; rfl⟩
          · simp only [h3, if_false]
            exact ⟨fun h => by rw [(ih .plain (isBlank c)).1 h], fun h => by rw [(ih .plain (isBlank c)).2 h]; rfl⟩
    | sq =>
      simp only [List.cons_append, stripFrom, endState]
      exact ⟨fun h => by rw [(ih _ false).1 h], fun h => by rw [(ih _ false).2 h]⟩
    | dq =>
      simp only [List.cons_append, stripFrom, endState]
      exact ⟨fun h => by rw [(ih _ false).1 h], fun h => by rw [(ih _ false).2 h]⟩

theorem rstrip_append_blanks (s bl : Line) (hb : bl.all isBlank = true) : rstrip (s ++ bl) = rstrip s := by
  unfold rstrip
  rw [List.reverse_append]
  congr 1
  have : ∀ (a b : Line), a.all isBlank = true → (a ++ b).dropWhile isBlank = b.dropWhile isBlank := by
    intro a b ha
    induction a with
    | nil => rfl
    | cons x a ih =>
      simp only [List.all_cons, Bool.and_eq_true] at ha
      simp [ha.1, ih ha.2]
  exact this _ _ (by simpa using hb)

/-- a line is *complete* when its quotes are closed (or it already carries a comment) -/
def Complete (l : Line) : Prop := endState .plain true l = none ∨ endState .plain true l = some .plain

/-- **A trailing comment never reaches the loader**: blanks, `#`, any text appended to a complete line -/
theorem cleanLine_trailing_comment (l bl c : Line) (hl : Complete l) (hb : bl.all isBlank = true) (hne : bl ≠ []) :
    cleanLine (l ++ (bl ++ '#' :: c)) = cleanLine l := by
  have key : rstrip (stripComment (l ++ (bl ++ '#' :: c))) = rstrip (stripComment l) := by
    unfold stripComment
    cases bl with
    | nil => exact absurd rfl hne
    | cons b bl =>
      simp only [List.all_cons, Bool.and_eq_true] at hb
      simp only [List.cons_append]
      rcases hl with h | h
      · rw [(stripFrom_append_blank b _ hb.1 l .plain true).1 h]
      · rw [(stripFrom_append_blank b _ hb.1 l .plain true).2 h, stripFrom_blanks_comment bl true c hb.2 (Or.inr rfl)]
        exact rstrip_append_blanks _ (b :: bl) (by simp [hb.1, hb.2])
  unfold cleanLine
  rw [key]

/-- **Trailing blanks never reach the loader** -/
theorem cleanLine_trailing_blanks (l bl : Line) (hl : Complete l) (hb : bl.all isBlank = true) :
    cleanLine (l ++ bl) = cleanLine l := by
  have key : rstrip (stripComment (l ++ bl)) = rstrip (stripComment l) := by
    unfold stripComment
    cases bl with
    | nil => simp
    | cons b bl =>
      simp only [List.all_cons, Bool.and_eq_true] at hb
      rcases hl with h | h
      · rw [(stripFrom_append_blank b _ hb.1 l .plain true).1 h]
      · rw [(stripFrom_append_blank b _ hb.1 l .plain true).2 h, stripFrom_blanks bl true hb.2]
        exact rstrip_append_blanks _ (b :: bl) (by simp [hb.1, hb.2])
  unfold cleanLine
  rw [key]

/-- a blank line is dropped -/
theorem cleanLine_blank (bl : Line) (hb : bl.all isBlank = true) : cleanLine bl = none := by
  have := cleanLine_trailing_blanks [] bl (Or.inr rfl) hb
  simpa [cleanLine, stripComment, stripFrom, rstrip] using this

/-- a comment line is dropped, at whatever indentation and whatever it says -/
theorem cleanLine_comment (bl c : Line) (hb : bl.all isBlank = true) : cleanLine (bl ++ '#' :: c) = none := by
  unfold cleanLine stripComment
  rw [stripFrom_blanks_comment bl true c hb (Or.inr rfl)]
  have : rstrip bl = [] := by simpa [rstrip] using rstrip_append_blanks [] bl hb
  simp [this]

theorem clean_insert (a b : List Line) (l : Line) (h : cleanLine l = none) : clean (a ++ l :: b) = clean (a ++ b) := by
  simp [clean, List.filterMap_append, h]

theorem clean_replace (a b : List Line) (l l' : Line) (h : cleanLine l' = cleanLine l) :
    clean (a ++ l' :: b) = clean (a ++ l :: b) := by
  simp only [clean, List.filterMap_append, List.filterMap_cons, h]

end Pyrtma.YamlDef
