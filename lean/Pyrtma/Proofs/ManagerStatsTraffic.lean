import Pyrtma.Proofs.ManagerStatsTiming
/-!
# The MESSAGE_TRAFFIC clause of the Spec on the model's own run (C18)
-/
namespace Pyrtma.Mgr
open Spec

/-- a MESSAGE_TRAFFIC sub-message as `Spec.checkTraffic` reads it: receiver, seqno, sub_seqno, types, counts -/
abbrev TrRow := Nat × Nat × Nat × List Int × List Nat

/-- the MESSAGE_TRAFFIC sub-messages among the events -/
def trOf (evs : List Ev) : List TrRow :=
  (sends evs).filterMap (fun p => match p.2.2.body with
    | .traffic sq sb ts cs => some (p.1, sq, sb, ts, cs) | _ => none)

/-- the real (non-filler) entries of the sub-messages `mine` -/
def entriesOf (mine : List TrRow) : List (Int × Nat) :=
  mine.flatMap (fun r => (List.zip r.2.2.2.1 r.2.2.2.2).filter (fun e => e.1 != -1))

/-- what `Spec.checkTraffic` checks of the sub-messages one observer received -/
structure ObsOK (cfg : Cfg) (a : A) (mine : List TrRow) : Prop where
  subs : (mine.map (·.2.2.1)) = (List.range mine.length).map (· + 1)
  seq : mine.all (·.2.1 == a.seq) = true
  size : mine.all (fun r => r.2.2.2.1.length == cfg.trafficSize && r.2.2.2.2.length == cfg.trafficSize) = true
  once : ((entriesOf mine).map (·.1)).eraseDups.length = ((entriesOf mine).map (·.1)).length
  counts : ∀ q ∈ a.pubR.filter (·.1 != -1), ((entriesOf mine).filter (·.1 == q.1)).map (·.2) = [q.2 % 65536]
  seen : ∀ e ∈ entriesOf mine, (isMgrType cfg e.1 || isControl cfg e.1) = false → a.pubR.any (·.1 == e.1) = true
  recv : ∀ q ∈ a.recvR, q.2 < 65536 → q.2 ≤ (((entriesOf mine).filter (·.1 == q.1.2)).map (·.2)).foldl (· + ·) 0

/-- what `Spec.checkTraffic` does about one observer `o` (`tr`: the sub-messages of the round's last stretch) -/
def obsCheck (cfg : Cfg) (tr : List TrRow) (a : A) (o : Nat) : A :=
  let mine := tr.filter (·.1 == o)
  let subsOk := (mine.map (·.2.2.1)) == (List.range mine.length).map (· + 1)
  let a := a.chk subsOk "C18" s!"MESSAGE_TRAFFIC sub_seqno sequence at observer {o} is {mine.map (·.2.2.1)}"
  let a := a.chk (mine.all (·.2.1 == a.seq)) "C18" s!"MESSAGE_TRAFFIC seqno is not {a.seq} for the whole interval"
  let entries := entriesOf mine
  let a := a.chk (mine.all (fun r => r.2.2.2.1.length == cfg.trafficSize && r.2.2.2.2.length == cfg.trafficSize)) "C18"
    "MESSAGE_TRAFFIC arrays do not have MESSAGE_TRAFFIC_SIZE slots"
  let tys := entries.map (·.1)
  let a := a.chk (tys.eraseDups.length == tys.length) "C18" s!"a message type is listed twice in one MESSAGE_TRAFFIC interval: {tys}"
  let a := (a.pubR.filter (·.1 != -1)).foldl (fun a q =>
      let got := (entries.filter (·.1 == q.1)).map (·.2)
      a.chk (got == [q.2 % 65536]) "C18" s!"MESSAGE_TRAFFIC lists type {q.1} with counts {got}, {q.2} were handled") a
  let a := entries.foldl (fun a e =>
      if isMgrType cfg e.1 || isControl cfg e.1 then a
      else a.chk (a.pubR.any (·.1 == e.1)) "C18" s!"MESSAGE_TRAFFIC attributes {e.2} messages to type {e.1}, none was handled") a
  a.recvR.foldl (fun a q =>
      if q.2 < 65536 then
        let got := ((entries.filter (·.1 == q.1.2)).map (·.2)).foldl (· + ·) 0
        a.chk (got ≥ q.2) "C18" s!"MESSAGE_TRAFFIC reports {got} messages of type {q.1.2}, observer {q.1.1} alone received {q.2}"
      else a) a

/-- the subscribers of MESSAGE_TRAFFIC that are owed the report -/
def owedOf (cfg : Cfg) (a : A) (evs : List Ev) : List AMod :=
  a.mods.filter (fun m => m.alive && subscribed m cfg.mtTraffic && ready a m && !a.failing m.uid && !(closes evs).contains m.uid)

/-- `Spec.checkTraffic`, restated over `trOf` / `entriesOf` / `obsCheck` -/
def checkTrafficM (cfg : Cfg) (a : A) (evs : List Ev) : A :=
  let tr := trOf evs
  let observers := (tr.map (·.1)).eraseDups
  let a := if (a.pubR.filter (·.1 != -1)).isEmpty then a else
    (owedOf cfg a evs).foldl (fun a m =>
      a.chk (observers.contains m.uid) "C18"
        s!"{(a.pubR.filter (·.1 != -1)).length} message types were handled in this interval but subscriber {m.uid} got no MESSAGE_TRAFFIC") a
  observers.foldl (obsCheck cfg tr) a

theorem checkTraffic_eq (cfg : Cfg) (a : A) (evs : List Ev) : checkTraffic cfg a evs = checkTrafficM cfg a evs := rfl

theorem obsCheck_fix (cfg : Cfg) (tr : List TrRow) (a : A) (o : Nat) (hk : ObsOK cfg a (tr.filter (·.1 == o))) :
    obsCheck cfg tr a o = a := by
  unfold obsCheck
  dsimp only
  have c1 : (((tr.filter (·.1 == o)).map (·.2.2.1)) == (List.range (tr.filter (·.1 == o)).length).map (· + 1)) = true := by
    rw [hk.subs]; simp
  have c4 : (((entriesOf (tr.filter (·.1 == o))).map (·.1)).eraseDups.length == ((entriesOf (tr.filter (·.1 == o))).map (·.1)).length) = true := by
    rw [hk.once]; simp
  rw [chk_of c1]
  rw [chk_of hk.seq]
  rw [chk_of hk.size]
  rw [chk_of c4]
  rw [foldl_fix _ a (a.pubR.filter (·.1 != -1))]
  · rw [foldl_fix _ a (entriesOf (tr.filter (·.1 == o)))]
    · apply foldl_fix
      intro q hq
      split
      · rename_i hlt
        exact chk_of (decide_eq_true (hk.recv q hq hlt))
      · rfl
    · intro e he
      split
      · rfl
      · rename_i hc
        exact chk_of (hk.seen e he (by simpa using hc))
  · intro q hq
    exact chk_of (by rw [hk.counts q hq]; simp)

theorem checkTraffic_fix (cfg : Cfg) (a : A) (evs : List Ev)
    (howed : (a.pubR.filter (·.1 != -1)).isEmpty = false →
      ∀ m ∈ owedOf cfg a evs, (((trOf evs).map (·.1)).eraseDups).contains m.uid = true)
    (hobs : ∀ o ∈ ((trOf evs).map (·.1)).eraseDups, ObsOK cfg a ((trOf evs).filter (·.1 == o))) :
    checkTraffic cfg a evs = a := by
  rw [checkTraffic_eq]
  unfold checkTrafficM
  dsimp only
  have h1 : (if (a.pubR.filter (·.1 != -1)).isEmpty = true then a else
      (owedOf cfg a evs).foldl (fun a m =>
        a.chk ((((trOf evs).map (·.1)).eraseDups).contains m.uid) "C18"
          s!"{(a.pubR.filter (·.1 != -1)).length} message types were handled in this interval but subscriber {m.uid} got no MESSAGE_TRAFFIC") a) = a := by
    split
    · rfl
    · rename_i hne
      apply foldl_fix
      intro m hm
      exact chk_of (howed (by simpa using hne) m hm)
  rw [h1]
  apply foldl_fix
  intro o ho
  exact obsCheck_fix cfg _ a o (hobs o ho)

end Pyrtma.Mgr
