import Pyrtma.Proofs.ManagerStatsTiming
import Pyrtma.Proofs.ManagerStatsTrafficM
/-!
# The MESSAGE_TRAFFIC clause of the Spec on the model's own run (C18)
-/
namespace Pyrtma.Mgr
open Spec

/-- a MESSAGE_TRAFFIC sub-message as `Spec.checkTraffic` reads it: receiver, seqno, sub_seqno, types, counts -/
abbrev TrRow := Nat × Nat × Nat × List Int × List Nat

/-- the MESSAGE_TRAFFIC sub-messages among the events -/
def trOf (evs : List Ev) : List TrRow :=
  (sends evs).filterMap (fun p => match p.2.2.body with
    | .traffic sq sb ts cs => some (p.1, sq, sb, ts, cs) | _ => none)

/-- the real (non-filler) entries of the sub-messages `mine` -/
def entriesOf (mine : List TrRow) : List (Int × Nat) :=
  mine.flatMap (fun r => (List.zip r.2.2.2.1 r.2.2.2.2).filter (fun e => e.1 != -1))

/-- what `Spec.checkTraffic` checks of the sub-messages one observer received -/
structure ObsOK (cfg : Cfg) (a : A) (mine : List TrRow) : Prop where
  subs : (mine.map (·.2.2.1)) = (List.range mine.length).map (· + 1)
  seq : mine.all (·.2.1 == a.seq) = true
  size : mine.all (fun r => r.2.2.2.1.length == cfg.trafficSize && r.2.2.2.2.length == cfg.trafficSize) = true
  once : ((entriesOf mine).map (·.1)).eraseDups.length = ((entriesOf mine).map (·.1)).length
  counts : ∀ q ∈ a.pubR.filter (·.1 != -1), ((entriesOf mine).filter (·.1 == q.1)).map (·.2) = [q.2 % 65536]
  seen : ∀ e ∈ entriesOf mine, (isMgrType cfg e.1 || isControl cfg e.1) = false → a.pubR.any (·.1 == e.1) = true
  recv : ∀ q ∈ a.recvR, q.2 < 65536 → q.2 ≤ (((entriesOf mine).filter (·.1 == q.1.2)).map (·.2)).foldl (· + ·) 0

/-- what `Spec.checkTraffic` does about one observer `o` (`tr`: the sub-messages of the round's last stretch) -/
def obsCheck (cfg : Cfg) (tr : List TrRow) (a : A) (o : Nat) : A :=
  let mine := tr.filter (·.1 == o)
  let subsOk := (mine.map (·.2.2.1)) == (List.range mine.length).map (· + 1)
  let a := a.chk subsOk "C18" s!"MESSAGE_TRAFFIC sub_seqno sequence at observer {o} is {mine.map (·.2.2.1)}"
  let a := a.chk (mine.all (·.2.1 == a.seq)) "C18" s!"MESSAGE_TRAFFIC seqno is not {a.seq} for the whole interval"
  let entries := entriesOf mine
  let a := a.chk (mine.all (fun r => r.2.2.2.1.length == cfg.trafficSize && r.2.2.2.2.length == cfg.trafficSize)) "C18"
    "MESSAGE_TRAFFIC arrays do not have MESSAGE_TRAFFIC_SIZE slots"
  let tys := entries.map (·.1)
  let a := a.chk (tys.eraseDups.length == tys.length) "C18" s!"a message type is listed twice in one MESSAGE_TRAFFIC interval: {tys}"
  let a := (a.pubR.filter (·.1 != -1)).foldl (fun a q =>
      let got := (entries.filter (·.1 == q.1)).map (·.2)
      a.chk (got == [q.2 % 65536]) "C18" s!"MESSAGE_TRAFFIC lists type {q.1} with counts {got}, {q.2} were handled") a
  let a := entries.foldl (fun a e =>
      if isMgrType cfg e.1 || isControl cfg e.1 then a
      else a.chk (a.pubR.any (·.1 == e.1)) "C18" s!"MESSAGE_TRAFFIC attributes {e.2} messages to type {e.1}, none was handled") a
  a.recvR.foldl (fun a q =>
      if q.2 < 65536 then
        let got := ((entries.filter (·.1 == q.1.2)).map (·.2)).foldl (· + ·) 0
        a.chk (got ≥ q.2) "C18" s!"MESSAGE_TRAFFIC reports {got} messages of type {q.1.2}, observer {q.1.1} alone received {q.2}"
      else a) a

/-- the subscribers of MESSAGE_TRAFFIC that are owed the report -/
def owedOf (cfg : Cfg) (a : A) (evs : List Ev) : List AMod :=
  a.mods.filter (fun m => m.alive && subscribed m cfg.mtTraffic && ready a m && !a.failing m.uid && !(closes evs).contains m.uid)

/-- `Spec.checkTraffic`, restated over `trOf` / `entriesOf` / `obsCheck` -/
def checkTrafficM (cfg : Cfg) (a : A) (evs : List Ev) : A :=
  let tr := trOf evs
  let observers := (tr.map (·.1)).eraseDups
  let a := if (a.pubR.filter (·.1 != -1)).isEmpty then a else
    (owedOf cfg a evs).foldl (fun a m =>
      a.chk (observers.contains m.uid) "C18"
        s!"{(a.pubR.filter (·.1 != -1)).length} message types were handled in this interval but subscriber {m.uid} got no MESSAGE_TRAFFIC") a
  observers.foldl (obsCheck cfg tr) a

theorem checkTraffic_eq (cfg : Cfg) (a : A) (evs : List Ev) : checkTraffic cfg a evs = checkTrafficM cfg a evs := rfl

theorem obsCheck_fix (cfg : Cfg) (tr : List TrRow) (a : A) (o : Nat) (hk : ObsOK cfg a (tr.filter (·.1 == o))) :
    obsCheck cfg tr a o = a := by
  unfold obsCheck
  dsimp only
  have c1 : (((tr.filter (·.1 == o)).map (·.2.2.1)) == (List.range (tr.filter (·.1 == o)).length).map (· + 1)) = true := by
    rw [hk.subs]; simp
  have c4 : (((entriesOf (tr.filter (·.1 == o))).map (·.1)).eraseDups.length == ((entriesOf (tr.filter (·.1 == o))).map (·.1)).length) = true := by
    rw [hk.once]; simp
  rw [chk_of c1]
  rw [chk_of hk.seq]
  rw [chk_of hk.size]
  rw [chk_of c4]
  rw [foldl_fix _ a (a.pubR.filter (·.1 != -1))]
  · rw [foldl_fix _ a (entriesOf (tr.filter (·.1 == o)))]
    · apply foldl_fix
      intro q hq
      split
      · rename_i hlt
        exact chk_of (decide_eq_true (hk.recv q hq hlt))
      · rfl
    · intro e he
      split
      · rfl
      · rename_i hc
        exact chk_of (hk.seen e he (by simpa using hc))
  · intro q hq
    exact chk_of (by rw [hk.counts q hq]; simp)

theorem checkTraffic_fix (cfg : Cfg) (a : A) (evs : List Ev)
    (howed : (a.pubR.filter (·.1 != -1)).isEmpty = false →
      ∀ m ∈ owedOf cfg a evs, (((trOf evs).map (·.1)).eraseDups).contains m.uid = true)
    (hobs : ∀ o ∈ ((trOf evs).map (·.1)).eraseDups, ObsOK cfg a ((trOf evs).filter (·.1 == o))) :
    checkTraffic cfg a evs = a := by
  rw [checkTraffic_eq]
  unfold checkTrafficM
  dsimp only
  have h1 : (if (a.pubR.filter (·.1 != -1)).isEmpty = true then a else
      (owedOf cfg a evs).foldl (fun a m =>
        a.chk ((((trOf evs).map (·.1)).eraseDups).contains m.uid) "C18"
          s!"{(a.pubR.filter (·.1 != -1)).length} message types were handled in this interval but subscriber {m.uid} got no MESSAGE_TRAFFIC") a) = a := by
    split
    · rfl
    · rename_i hne
      apply foldl_fix
      intro m hm
      exact chk_of (howed (by simpa using hne) m hm)
  rw [h1]
  apply foldl_fix
  intro o ho
  exact obsCheck_fix cfg _ a o (hobs o ho)

/-! ## the rows of one report -/

theorem mem_of_mem_eraseDups {α : Type} [BEq α] [LawfulBEq α] : ∀ (n : Nat) (l : List α), l.length ≤ n → ∀ x, x ∈ l.eraseDups → x ∈ l
  | 0, l, h, x, hx => by
    have : l = [] := List.length_eq_zero_iff.mp (by omega)
    subst this; simp at hx
  | n + 1, [], _, x, hx => by simp at hx
  | n + 1, a :: as, h, x, hx => by
    rw [List.eraseDups_cons] at hx
    rcases List.mem_cons.mp hx with rfl | hx'
    · simp
    · have hl : (as.filter fun b => !b == a).length ≤ n := by
        have := List.length_filter_le (fun b => !b == a) as
        simp at h; omega
      have := mem_of_mem_eraseDups n _ hl x hx'
      exact List.mem_cons_of_mem _ (List.mem_filter.mp this).1

theorem eraseDups_of_nodup {α : Type} [BEq α] [LawfulBEq α] : ∀ (l : List α), l.Nodup → l.eraseDups = l
  | [], _ => rfl
  | a :: as, h => by
    have h' := List.nodup_cons.mp h
    rw [List.eraseDups_cons]
    have hf : (as.filter fun b => !b == a) = as := by
      rw [List.filter_eq_self]
      intro b hb
      have : b ≠ a := fun e => h'.1 (e ▸ hb)
      simpa using this
    rw [hf, eraseDups_of_nodup as h'.2]

/-- the row `Spec.checkTraffic` reads off a MESSAGE_TRAFFIC frame written to `u` -/
def rowOf (u : Nat) (f : Frame) : TrRow :=
  match f.body with
  | .traffic sq sb ts cs => (u, sq, sb, ts, cs)
  | _ => (u, 0, 0, [], [])

theorem trOf_eq (evs : List Ev) : trOf evs = (dataSends isTrafficB evs).map (fun p => rowOf p.1 p.2) := by
  unfold trOf sends dataSends
  induction evs with
  | nil => rfl
  | cons e evs ih =>
    cases e with
    | send u c f =>
      simp only [List.filterMap_cons]
      cases hb : f.body <;> simp [isTrafficB, rowOf, hb, ih]
    | _ => simpa using ih

theorem rowOf_fst (u : Nat) (f : Frame) : (rowOf u f).1 = u := by unfold rowOf; split <;> rfl

theorem mine_eq (evs : List Ev) (o : Nat) :
    (trOf evs).filter (·.1 == o) = ((dataSends isTrafficB evs).filter (·.1 == o)).map (fun p => rowOf p.1 p.2) := by
  rw [trOf_eq, List.filter_map]
  congr 1
  apply List.filter_congr
  intro p _
  simp [Function.comp, rowOf_fst]

theorem zip_pad_filter (f : Int × Nat → Int) (g : Int × Nat → Nat) (x : Int) (y : Nat) (P : Int × Nat → Bool) (hP : P (x, y) = false) :
    ∀ (ch : List (Int × Nat)) (n : Nat),
      (List.zip (ch.map f ++ List.replicate n x) (ch.map g ++ List.replicate n y)).filter P = (ch.map (fun p => (f p, g p))).filter P
  | [], n => by
    induction n with
    | zero => rfl
    | succ n ih => simp [List.replicate_succ, List.filter_cons, hP] at ih ⊢
  | p :: ch, n => by
    have ih := zip_pad_filter f g x y P hP ch n
    simp only [List.map_cons, List.cons_append, List.zip_cons_cons, List.filter_cons, ih]

/-- the real entries of the rows of a whole report are the counter table itself (counts modulo 2¹⁶), minus the filler type -/
theorem entries_rows (cfg : Cfg) (o seq : Nat) : ∀ (cs : List (List (Int × Nat))) (i : Nat),
    entriesOf (((enumFrom1 i cs).map (fun p => mgrFrame cfg.mtTraffic 0 cfg.szTraffic (trafficBody cfg seq p.1 [] p.2))).map (rowOf o)) =
      ((cs.flatten).map (fun p => (p.1, u16 p.2))).filter (fun e => e.1 != -1)
  | [], _ => rfl
  | ch :: cs, i => by
    have ih := entries_rows cfg o seq cs (i + 1)
    unfold entriesOf at ih ⊢
    simp only [enumFrom1, List.map_cons, List.flatMap_cons, ih, List.flatten_cons, List.map_append, List.filter_append]
    congr 1
    exact zip_pad_filter (·.1) (fun q => u16 q.2) (-1) 0 (fun e => e.1 != -1) rfl ch _

theorem filter_key (c : List (Int × Nat)) (hn : (ctrKeys c).Nodup) (t : Int) :
    c.filter (·.1 == t) = if t ∈ ctrKeys c then [(t, ctrVal c t)] else [] := by
  induction c with
  | nil => simp [ctrKeys]
  | cons p c ih =>
    have hn' : (ctrKeys c).Nodup := by unfold ctrKeys at *; simp at hn; exact hn.2
    have hnot : p.1 ∉ ctrKeys c := by unfold ctrKeys at *; simp at hn; intro h; obtain ⟨q, hq, he⟩ := List.mem_map.mp h; exact hn.1 q.2 (by rw [← he]; exact hq)
    rw [List.filter_cons, ih hn']
    by_cases hpt : p.1 = t
    · subst hpt
      have hk : p.1 ∈ ctrKeys (p :: c) := by unfold ctrKeys; simp
      have hv : ctrVal (p :: c) p.1 = p.2 := by unfold ctrVal; simp [List.find?_cons]
      simp only [beq_self_eq_true, if_true, hnot, if_false, hk, hv]
    · have h1 : (p.1 == t) = false := by simpa using hpt
      have h2 : ctrVal (p :: c) t = ctrVal c t := by unfold ctrVal; simp [List.find?_cons, h1]
      have h3 : (t ∈ ctrKeys (p :: c)) ↔ t ∈ ctrKeys c := by
        have : ctrKeys (p :: c) = p.1 :: ctrKeys c := rfl
        rw [this, List.mem_cons]
        constructor
        · rintro (h | h)
          · exact absurd h.symm hpt
          · exact h
        · exact Or.inr
      simp only [h1, Bool.false_eq_true, if_false, h2, h3]

/-- the real entries of type `t` among the rows of a whole report -/
theorem entries_of_type (c : List (Int × Nat)) (hn : (ctrKeys c).Nodup) (t : Int) (ht : t ≠ -1) :
    (((c.map (fun p => (p.1, u16 p.2))).filter (fun e => e.1 != -1)).filter (·.1 == t)).map (·.2) =
      if t ∈ ctrKeys c then [u16 (ctrVal c t)] else [] := by
  rw [List.filter_filter, List.filter_map]
  have hcomp : ((fun e : Int × Nat => e.1 == t && e.1 != -1) ∘ fun p : Int × Nat => (p.1, u16 p.2)) = fun p => p.1 == t := by
    funext p
    simp only [Function.comp]
    by_cases h : p.1 = t
    · subst h; simp [ht]
    · simp [h]
  rw [hcomp, filter_key c hn t]
  split <;> rfl

/-- **the rows of a whole report pass every per-observer check of `Spec.checkTraffic`**, when the report is built from the
    model's counter table (`tallyOn [] E`) and the Spec's tallies are the client marks / lower bounds of the same marks -/
theorem obsOK_rows (cfg : Cfg) (hsz : 0 < cfg.trafficSize) (hneg : mgrType cfg (-1) = false) (a : A) (E : List Mark) (o : Nat)
    (hpub : a.pubR = tallyOn [] (cliMarks cfg E)) (hrecv : ∀ q ∈ a.recvR, q.2 ≤ hmgr cfg E q.1.2)
    (hnw : ∀ t, hmgr cfg E t < 65536) :
    ObsOK cfg a ((trafficFrames cfg a.seq (tallyOn [] E)).map (rowOf o)) := by
  have hnd := nodup_tally E
  have hfl : (chunks cfg.trafficSize (tallyOn [] E) ((tallyOn [] E).length + 1)).flatten = tallyOn [] E :=
    chunks_flatten _ hsz _ _ (by omega)
  have hent : entriesOf ((trafficFrames cfg a.seq (tallyOn [] E)).map (rowOf o)) =
      ((tallyOn [] E).map (fun p => (p.1, u16 p.2))).filter (fun e => e.1 != -1) := by
    unfold trafficFrames
    rw [entries_rows, hfl]
  have hrows : ∀ r ∈ (trafficFrames cfg a.seq (tallyOn [] E)).map (rowOf o), ∃ p ∈ enumFrom1 1 (chunks cfg.trafficSize (tallyOn [] E) ((tallyOn [] E).length + 1)),
      r = (o, a.seq, p.1, p.2.map (·.1) ++ List.replicate (cfg.trafficSize - p.2.length) (-1),
        p.2.map (fun q => u16 q.2) ++ List.replicate (cfg.trafficSize - p.2.length) 0) := by
    intro r hr
    unfold trafficFrames at hr
    rw [List.map_map] at hr
    obtain ⟨p, hp, rfl⟩ := List.mem_map.mp hr
    exact ⟨p, hp, rfl⟩
  refine ⟨?_, ?_, ?_, ?_, ?_, ?_, ?_⟩
  · -- sub_seqno 1, 2, 3, …
    unfold trafficFrames
    simp only [List.map_map, List.length_map]
    have h1 := enumFrom1_fst 1 (chunks cfg.trafficSize (tallyOn [] E) ((tallyOn [] E).length + 1))
    have h2 : (enumFrom1 1 (chunks cfg.trafficSize (tallyOn [] E) ((tallyOn [] E).length + 1))).length =
        (chunks cfg.trafficSize (tallyOn [] E) ((tallyOn [] E).length + 1)).length := by
      have := congrArg List.length (enumFrom1_snd 1 (chunks cfg.trafficSize (tallyOn [] E) ((tallyOn [] E).length + 1)))
      simpa using this
    rw [h2, ← h1]
    apply List.map_congr_left
    intro p _; rfl
  · rw [List.all_eq_true]
    intro r hr
    obtain ⟨p, _, rfl⟩ := hrows r hr
    simp
  · rw [List.all_eq_true]
    intro r hr
    obtain ⟨p, hp, rfl⟩ := hrows r hr
    have hpc : p.2 ∈ chunks cfg.trafficSize (tallyOn [] E) ((tallyOn [] E).length + 1) := by
      have := enumFrom1_snd 1 (chunks cfg.trafficSize (tallyOn [] E) ((tallyOn [] E).length + 1))
      rw [← this]; exact List.mem_map.mpr ⟨p, hp, rfl⟩
    have := (chunks_sizes _ hsz _ _ _ hpc).2
    simp; omega
  · rw [hent]
    have : ((((tallyOn [] E).map (fun p => (p.1, u16 p.2))).filter (fun e => e.1 != -1)).map (·.1)).Nodup := by
      have h1 : (((tallyOn [] E).map (fun p => (p.1, u16 p.2))).filter (fun e => e.1 != -1)).map (·.1) =
          (ctrKeys (tallyOn [] E)).filter (· != -1) := by
        unfold ctrKeys
        rw [List.filter_map, List.map_map, List.filter_map]
        rfl
      rw [h1]; exact hnd.filter _
    rw [eraseDups_of_nodup _ this]
  · intro q hq
    have hq' := (List.mem_filter.mp hq)
    have hne : q.1 ≠ -1 := by simpa using hq'.2
    rw [hpub] at hq'
    obtain ⟨_, hv⟩ := pub_entry cfg E hq'.1
    have hpos := pos_tally _ q hq'.1
    rw [hent, entries_of_type _ hnd _ hne, val_tally]
    have hk : q.1 ∈ ctrKeys (tallyOn [] E) := (ctrVal_pos_iff (pos_tally E) q.1).mpr (by rw [val_tally, ← hv]; exact hpos)
    simp [hk, hv, u16]
  · intro e he hn
    rw [hent] at he
    have he' := (List.mem_filter.mp he).1
    obtain ⟨p, hp, rfl⟩ := List.mem_map.mp he'
    have hk : p.1 ∈ ctrKeys (tallyOn [] E) := List.mem_map.mpr ⟨p, hp, rfl⟩
    have hpos := (ctrVal_pos_iff (pos_tally E) p.1).mp hk
    rw [val_tally] at hpos
    have hm : mgrType cfg p.1 = false := by
      rw [Bool.or_eq_false_iff, isMgrType_eq] at hn; exact hn.1
    have : 0 < ctrVal (tallyOn [] (cliMarks cfg E)) p.1 := by rw [val_tally, handled_cliMarks, hm]; simpa using hpos
    have hk2 := (ctrVal_pos_iff (pos_tally _) p.1).mpr this
    obtain ⟨r, hr, hre⟩ := List.mem_map.mp hk2
    rw [hpub]
    exact List.any_eq_true.mpr ⟨r, hr, by simp [hre]⟩
  · intro q hq _
    have hb := hrecv q hq
    have hw := hnw q.1.2
    by_cases hz : q.2 = 0
    · rw [hz]; exact Nat.zero_le _
    · unfold hmgr at hb hw
      by_cases hm : mgrType cfg q.1.2 = true
      · simp only [hm, if_true] at hb hw
        have hne : q.1.2 ≠ -1 := fun e => by rw [e, hneg] at hm; cases hm
        have hk : q.1.2 ∈ ctrKeys (tallyOn [] E) := (ctrVal_pos_iff (pos_tally E) q.1.2).mpr (by rw [val_tally]; omega)
        rw [hent, entries_of_type _ hnd _ hne, val_tally]
        simp only [hk, if_true, List.foldl_cons, List.foldl_nil, Nat.zero_add]
        unfold u16; omega
      · simp only [hm, Bool.false_eq_true, if_false] at hb
        omega

/-! ## the TRAFFIC clause holds on the model's own run -/

section withcfg
variable {cfg : Cfg} (ok : CfgOK cfg) (hfuel : cfg.fuel = 0)
include ok hfuel

omit ok hfuel in
/-- the abstract state `Spec.checkTraffic` is applied to: `a7` after the TIMING reset -/
theorem timingReset_fields (a0 a : A) :
    (timingReset cfg a0 a).mods = a.mods ∧ (timingReset cfg a0 a).pubR = a.pubR ∧ (timingReset cfg a0 a).recvR = a.recvR ∧
    (timingReset cfg a0 a).seq = a.seq ∧ (timingReset cfg a0 a).now = a.now ∧ (timingReset cfg a0 a).tTraffic = a.tTraffic ∧
    (timingReset cfg a0 a).w = a.w ∧ (timingReset cfg a0 a).fail = a.fail := by
  unfold timingReset; split <;> exact ⟨rfl, rfl, rfl, rfl, rfl, rfl, rfl, rfl⟩

omit ok hfuel in
theorem trafficFrames_ne_nil (hsz : 0 < cfg.trafficSize) (sq : Nat) (c : List (Int × Nat)) (hc : c ≠ []) :
    trafficFrames cfg sq c ≠ [] := by
  unfold trafficFrames
  intro he
  have h1 := List.map_eq_nil_iff.mp he
  have h2 := enumFrom1_snd 1 (chunks cfg.trafficSize c (c.length + 1))
  rw [h1] at h2
  have h3 := chunks_flatten cfg.trafficSize hsz (c.length + 1) c (Nat.lt_succ_self _)
  rw [← h2] at h3
  exact hc h3.symm

/-- **the TRAFFIC clause of one round**: on the model's own events of the round `Spec.tail`'s MESSAGE_TRAFFIC clause
    leaves the abstract state as it is — every connection that received a MESSAGE_TRAFFIC sub-message in the round's last
    stretch received the whole report of the interval and passes every per-observer check of `Spec.checkTraffic`, and
    every subscriber the Spec considers owed a report (alive, subscribed, writable or a logger, not failing, not closed
    in the stretch) is one the model's broadcast reaches -/
theorem traffic_round {x : State} {a : A} (h : RInv cfg x a) (hna : MgrNotAll cfg) (hord : OrderGood cfg)
    (hsz : 0 < cfg.trafficSize) (hneg : mgrType cfg (-1) = false) (r : Round)
    (hr : RoundOK r) (hnw : NoWrap cfg (stepR cfg x r).hist)
    (a9 : A) (ha9 : a9 = timingReset cfg (roundPre cfg a r (stepR cfg x r).out) (roundPre cfg a r (stepR cfg x r).out)) :
    trafficPart cfg a9 (lastEvs (stepR cfg x r).out) = a9 := by
  obtain ⟨x2, T, a', rT, rR, lastIO, hP, hS2, _, hrR, hW2⟩ := round_pre ok hfuel h hna hord r hr
  generalize ha7 : roundPre cfg a r (stepR cfg x r).out = a7 at hP ha9
  have hpre := hP.pre
  rw [ha7] at hpre
  obtain ⟨g1, g2, g3, g4, g5, g6, g7, g8⟩ := timingReset_fields (cfg := cfg) a7 a7
  rw [← ha9] at g1 g2 g3 g4 g5 g6 g7 g8
  have fpub : a9.pubR = a'.pubR := by rw [g2]; have := congrArg A.pubR hpre; exact this
  have frecv : a9.recvR = rR := by rw [g3]; have := congrArg A.recvR hpre; exact this
  have fseq : a9.seq = x2.trafficSeq := by rw [g4]; have := congrArg A.seq hpre; exact this.trans hS2.seq
  have fmods : a9.mods = depMods a'.mods (closes T) := by rw [g1]; have := congrArg A.mods hpre; exact this
  have fnow : a9.now = x2.now := by rw [g5]; have := congrArg A.now hpre; exact this.trans hS2.now
  have ftR : a9.tTraffic = x2.tTraffic := by rw [g6]; have := congrArg A.tTraffic hpre; exact this.trans hS2.tR
  have fw : a9.w = a'.w := by rw [g7]; have := congrArg A.w hpre; exact this
  have ffail : a9.fail = x2.fail := by rw [g8]; have := congrArg A.fail hpre; exact this.trans hS2.fail
  unfold trafficPart
  split
  rotate_left
  · rfl
  rename_i hper
  rw [fnow, ftR] at hper
  rw [hP.last]
  -- the MESSAGE_TRAFFIC frames of the last stretch are those of the periodic section
  obtain ⟨pfx, hpfx⟩ := hP.io
  have hq0 : dataSends isTrafficB pfx = [] ∧ dataSends isTrafficB lastIO = [] := by
    have := hP.quietR
    rw [hpfx, dataSends_append] at this
    exact List.append_eq_nil_iff.mp this
  have hD : dataSends isTrafficB (lastIO ++ T) = dataSends isTrafficB (ticks cfg x2).out := by
    rw [hP.ev.out, hpfx, List.append_assoc, dataSends_append _ pfx, hq0.1]; rfl
  obtain ⟨sL, hpres, hikp, _, hTL, hrows⟩ := ticks_traffic ok hfuel hna hord hP.inv2.top hP.inv2.stat.idle (ackFrame cfg 0) rfl
  have hcounts : x2.traffic = tallyOn [] (sinceTick .trafficTick x2.hist) := hP.inv2.stat.traffic
  apply checkTraffic_fix cfg a9 _ ?_ ?_
  · -- the subscribers that are owed the report
    intro hne m hm
    unfold owedOf at hm
    obtain ⟨hmem, hcond⟩ := List.mem_filter.mp hm
    simp only [Bool.and_eq_true, Bool.not_eq_true'] at hcond
    obtain ⟨⟨⟨⟨hal, hsub⟩, hready⟩, hnf⟩, _⟩ := hcond
    rw [fmods] at hmem
    have hm' : m ∈ a'.mods := alive_of_dep hmem hal
    have hopen : isOpen x2 m.uid = true := by rw [← hS2.alive m hm']; exact hal
    have hfs : (x2.find m.uid).isSome = true := by rw [← isOpen_iff_find hP.inv2.top]; exact hopen
    obtain ⟨mm, hmm⟩ := Option.isSome_iff_exists.mp hfs
    have hu0 : m.uid ≠ 0 := by
      have hu : m.uid ∈ a'.mods.map (·.uid) := List.mem_map.mpr ⟨m, hm', rfl⟩
      rw [hS2.uids] at hu
      obtain ⟨i, _, he⟩ := List.mem_map.mp hu
      omega
    obtain ⟨am, ham, hte⟩ := hS2.tab mm (mem_of_find hmm) (by rw [find_uid hmm]; exact hu0)
    have : am = m := sim_unique hS2 ham hm' (hte.1.trans (find_uid hmm))
    subst this
    have hfo : failOf x2 am.uid = none := by
      have := failing_eq ffail am.uid
      rw [hnf] at this
      cases hq : failOf x2 am.uid with
      | none => rfl
      | some _ => rw [hq] at this; cases this
    have hse := hS2.subs am hm' mm hmm
    -- the model's broadcast reaches it
    have hrecv : recvB cfg sL cfg.mtTraffic (ackFrame cfg 0) am.uid = true := by
      unfold recvB
      rw [Bool.and_eq_true]
      constructor
      · rw [List.contains_iff_mem, mem_recipients hord hTL.good.inv]
        unfold subscribed at hsub
        rw [Bool.or_eq_true] at hsub
        rcases hsub with h1 | h1
        · exact Or.inr (hikp.2 _ _ hfo (hse.idxA h1))
        · exact Or.inl (hikp.2 _ _ hfo (hse.idxT _ (by simpa using h1)))
      · rw [elig_pres hpres]
        unfold elig canTake
        rw [hmm]
        simp only [hfo, Option.isNone_none, Bool.and_true, hP.inv2.top.aopen _ _ hmm, Bool.not_false, Bool.true_and]
        split
        · rfl
        · rename_i hnw'
          unfold ready at hready
          rw [Bool.or_eq_true] at hready
          rcases hready with h1 | h1
          · rw [fw] at h1
            exact absurd ((hW2 am hm' hal).mp h1) hnw'
          · rw [← hte.2.2.2.2]; exact h1
    -- something was handled in the interval, so the report has a sub-message
    have hne' : x2.traffic ≠ [] := by
      rw [fpub, hS2.pubR] at hne
      cases hl : List.filter (fun x => x.1 != -1) (tallyOn [] (cliMarks cfg (sinceTick .trafficTick x2.hist))) with
      | nil => rw [hl] at hne; cases hne
      | cons p ps =>
        have hp : p ∈ tallyOn [] (cliMarks cfg (sinceTick .trafficTick x2.hist)) :=
          (List.mem_filter.mp (by rw [hl]; exact List.mem_cons_self)).1
        have hpos := tallyOn_pos [] (cliMarks cfg (sinceTick .trafficTick x2.hist)) (fun _ h => by cases h) p hp
        have hval := ctrVal_mem (tallyOn_nodup [] (cliMarks cfg (sinceTick .trafficTick x2.hist)) (by simp [ctrKeys])) hp
        rw [ctrVal_tallyOn, handled_cliMarks] at hval
        intro he
        have h2 := ctrVal_tallyOn [] (sinceTick .trafficTick x2.hist) p.1
        rw [← hcounts, he] at h2
        have h3 : ctrVal [] p.1 = 0 := rfl
        rw [h3] at h2 hval
        split at hval <;> omega
    have hfr := trafficFrames_ne_nil hsz x2.trafficSeq x2.traffic hne'
    have hmine := mine_eq (lastIO ++ T) am.uid
    rw [hD, hrows am.uid, hP.quietR, if_pos ⟨hper, hrecv⟩] at hmine
    simp only [List.filter_nil, List.nil_append, List.map_map] at hmine
    cases hfl : trafficFrames cfg x2.trafficSeq x2.traffic with
    | nil => exact absurd hfl hfr
    | cons f fs =>
      rw [hfl] at hmine
      have hrow : rowOf am.uid f ∈ (trOf (lastIO ++ T)).filter (·.1 == am.uid) := by rw [hmine]; simp
      have hrow' := (List.mem_filter.mp hrow).1
      rw [List.contains_iff_mem, List.mem_eraseDups]
      exact List.mem_map.mpr ⟨_, hrow', rowOf_fst _ _⟩
  · intro o ho
    have hmine := mine_eq (lastIO ++ T) o
    rw [hD, hrows o, hP.quietR] at hmine
    simp only [List.filter_nil, List.nil_append] at hmine
    -- `o` is an observer: it received something
    have hmem : o ∈ (trOf (lastIO ++ T)).map (·.1) := mem_of_mem_eraseDups _ _ (Nat.le_refl _) o ho
    obtain ⟨row, hrow, hro⟩ := List.mem_map.mp hmem
    have hne : (trOf (lastIO ++ T)).filter (·.1 == o) ≠ [] := by
      intro he
      have : row ∈ (trOf (lastIO ++ T)).filter (·.1 == o) := List.mem_filter.mpr ⟨hrow, by simp [hro]⟩
      rw [he] at this; cases this
    by_cases hc : x2.now - x2.tTraffic > cfg.pTraffic ∧ recvB cfg sL cfg.mtTraffic (ackFrame cfg 0) o = true
    · rw [if_pos hc, List.map_map] at hmine
      rw [hmine]
      have hgrow : ∃ e, (stepR cfg x r).hist = e ++ x2.hist := by rw [hP.step]; exact ticks_grows cfg x2
      obtain ⟨eg, heg⟩ := hgrow
      have := obsOK_rows cfg hsz hneg a9 (sinceTick .trafficTick x2.hist) o (by rw [fpub]; exact hS2.pubR)
        (by rw [frecv]; exact hrR) (fun t => hmgr_lt_of_noWrap hnw heg _ t)
      rw [fseq, ← hcounts] at this
      exact this
    · rw [if_neg hc] at hmine
      exact absurd hmine hne

end withcfg

end Pyrtma.Mgr
