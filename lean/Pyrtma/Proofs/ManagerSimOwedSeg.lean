import Pyrtma.Proofs.ManagerSimOwedTop
import Pyrtma.Proofs.ManagerSimOwedData
/-!
# The C14 clause of `Spec.checkDepartures` from the model-side count, through the simulation at the END of a stretch

`X` is the abstract state `Spec.checkDepartures` is evaluated on, `A2` the abstract state after the stretch (`X` with the
departures of `evs` applied and possibly more errors), `s2` the model's state there.  The observers / owed subscribers of
the clause are alive in `A2` (the clause leaves out whoever is closed in `evs`), so the simulation at `s2` makes them
`StableF` / `Owed` there, which is what the count of `ManagerSimOwedTop.lean` speaks about.
-/
namespace Pyrtma.Mgr
open Spec

theorem closeN_closes (evs : List Ev) : (closes evs).length = closeN evs := by
  unfold closes closeN
  induction evs with
  | nil => rfl
  | cons e rest ih =>
    cases e <;> simp [List.filterMap_cons, List.countP_cons, ih]

/-- a module of `X` that is alive and not closed in `evs` is a live module of the state after the departures -/
theorem stays_of_not_closed {X A2 : A} (evs : List Ev) (hXm : (applyDepartures X evs).mods = A2.mods) {am : AMod}
    (hmem : am ∈ X.mods) (hnc : (closes evs).contains am.uid = false) : am ∈ A2.mods := by
  rw [← hXm, applyDepartures_map]
  refine List.mem_map.mpr ⟨am, hmem, ?_⟩
  unfold killIn; rw [hnc]; rfl

theorem dep_c14_end {cfg : Cfg} {A2 X : A} {s2 : State} (hs : SimM cfg A2 s2) (ao : AllOpen s2) (evs : List Ev)
    (hXm : (applyDepartures X evs).mods = A2.mods) (hXw : X.w = A2.w) (hXf : X.fail = A2.fail)
    (hp : ∀ (o : Nat) (d : Int) (U : List Nat), U.Nodup → PostC cfg o d U s2 evs 0) :
    ∀ o ∈ dfobs cfg X evs, ∀ m ∈ dowed cfg X evs,
      (closes evs).length * ((dowed cfg X evs).filter (·.modId == m.modId)).length ≤
        ((sends evs).filter (fun p => p.1 == o.uid && p.2.2.body == .failed m.modId cfg.mtClosed 0 0)).length := by
  intro o ho m _
  rw [fcnt_sends, closeN_closes]
  have huids : (X.mods.map (·.uid)).Nodup := by
    rw [← applyDepartures_uids X evs, hXm]; exact uids_nodup hs.uids
  have hsl : ((dowed cfg X evs).filter (·.modId == m.modId)).Sublist X.mods := by
    unfold dowed
    exact List.filter_sublist.trans List.filter_sublist
  have hnd : (((dowed cfg X evs).filter (·.modId == m.modId)).map (·.uid)).Nodup := huids.sublist (hsl.map _)
  have hlen : (((dowed cfg X evs).filter (·.modId == m.modId)).map (·.uid)).length =
      ((dowed cfg X evs).filter (·.modId == m.modId)).length := List.length_map _
  rw [← hlen]
  have key := hp o.uid m.modId _ hnd ?_ ?_
  · simpa [Bc] using key
  · -- the observer
    obtain ⟨homem, hoc⟩ := List.mem_filter.mp ho
    simp only [Bool.and_eq_true, Bool.not_eq_true'] at hoc
    obtain ⟨⟨⟨⟨hoal, hosb⟩, hord⟩, hofl⟩, honc⟩ := hoc
    obtain ⟨_, hol, mo, hmo, hsm⟩ := sim_entry hs (stays_of_not_closed evs hXm homem honc) hoal
    refine ⟨mo, hmo, ao _ _ hmo, (failing_iff hs.fail _).mp ?_, sim_sub hs hmo hsm _ hosb, ?_⟩
    · unfold A.failing at hofl ⊢; rw [← hXf]; exact hofl
    · unfold ready at hord
      rcases Bool.or_eq_true _ _ |>.mp hord with hw | hlg
      · exact Or.inl ((sim_wlist hs hol).mp (by rw [← hXw]; exact hw))
      · exact Or.inr (by rw [← hsm.isLogger]; exact hlg)
  · -- the owed subscribers
    intro u hu
    obtain ⟨am, ham, rfl⟩ := List.mem_map.mp hu
    obtain ⟨hamU, hamd⟩ := List.mem_filter.mp ham
    have hamd' : am.modId = m.modId := by simpa using hamd
    unfold dowed at hamU
    obtain ⟨hamem, hc⟩ := List.mem_filter.mp hamU
    simp only [Bool.and_eq_true, Bool.not_eq_true'] at hc
    obtain ⟨⟨⟨⟨⟨haal, hasb⟩, hnl⟩, hnw⟩, _⟩, hanc⟩ := hc
    obtain ⟨_, hal, mm, hmm, hsm⟩ := sim_entry hs (stays_of_not_closed evs hXm hamem hanc) haal
    refine ⟨mm, hmm, ao _ _ hmm, by rw [← hsm.modId]; exact hamd', by rw [← hsm.isLogger]; exact hnl, ?_,
      sim_sub hs hmm hsm _ hasb⟩
    intro hx
    have := (sim_wlist hs hal).mpr hx
    rw [← hXw, hnw] at this; cases this

/-- the C14 clause of `checkDepartures` on the events of one frame (possibly followed by the periodic section) -/
theorem depCount_frame {cfg : Cfg} (ok : CfgOK cfg) (hfuel : cfg.fuel = 0) (hperm : OrdPerm cfg)
    {s s2 : State} (h : Top cfg s) (rd : Read) (hq : s2 = readOne cfg s rd ∨ s2 = ticks cfg (readOne cfg s rd))
    (evs : List Ev) (he : s2.out = s.out ++ Ev.rd rd.uid :: evs)
    {A2 X : A} (hs : SimM cfg A2 s2)
    (hXm : (applyDepartures X evs).mods = A2.mods) (hXw : X.w = A2.w) (hXf : X.fail = A2.fail) (md : Option Nat) :
    ErrExt ["C07"] X (checkDepartures cfg X md evs) := by
  have hall := OrdAll_of_perm hperm
  have c1 := ct_readOne ok hall hfuel h rd
  have c2 : CT cfg s s2 := by
    rcases hq with e | e
    · rw [e]; exact c1
    · rw [e]; exact c1.nest (fun h' => ct_ticks ok hall hfuel h') (ticks_nest cfg _)
  refine checkDepartures_c14 cfg X md evs (dep_c14_end hs c2.top.aopen evs hXm hXw hXf (fun o d U hU => ?_))
  obtain ⟨ext, oe, p⟩ := c2.cnt o d U hU
  have : ext = Ev.rd rd.uid :: evs := List.append_cancel_left (oe.symm.trans he)
  subst this
  intro hst hUo
  have := p hst hUo
  simpa [closeN, fcnt] using this

/-- the end of every branch of `Spec.segment`: `checkDepartures` on `X`, possibly `checkInfos`, the departures -/
theorem seg_tail_c14 {cfg : Cfg} (ok : CfgOK cfg) (hfuel : cfg.fuel = 0) (hperm : OrdPerm cfg)
    {s s2 : State} (h : Top cfg s) (rd : Read) (hq : s2 = readOne cfg s rd ∨ s2 = ticks cfg (readOne cfg s rd))
    (evs : List Ev) (he : s2.out = s.out ++ Ev.rd rd.uid :: evs)
    {A2 X W : A} (md : Option Nat) (hs : SimM cfg A2 s2) (hA2 : A2 = applyDepartures W evs)
    (hW : ErrExt ["C06"] (checkDepartures cfg X md evs) W) (hn : NoErr "C14" X) : NoErr "C14" A2 := by
  have hD := checkDepartures_ext cfg X md evs
  have hm : (applyDepartures X evs).mods = A2.mods := by
    rw [hA2, applyDepartures_map, applyDepartures_map]
    show List.map _ X.mods = List.map _ W.mods
    rw [hW.mods, hD.mods]
  have hw : X.w = A2.w := by rw [hA2, (applyDepartures_core W evs).2.2.1, hW.w, hD.w]
  have hf : X.fail = A2.fail := by rw [hA2, (applyDepartures_core W evs).2.1, hW.fail, hD.fail]
  have hc := depCount_frame ok hfuel hperm h rd hq evs he hs hm hw hf md
  rw [hA2]
  exact noErr_applyDepartures evs (hW.noErr (by simp) (hc.noErr (by simp) hn))

theorem noErr_afterBuf {cfg : Cfg} {a : A} {p : String} (rd : Read) (h : NoErr p a) : NoErr p (afterBuf cfg a rd) := h

theorem noErr_upd {a : A} {p : String} (u : Nat) (f : AMod → AMod) (h : NoErr p a) : NoErr p (a.upd u f) := h

/-- **`Spec.segment` adds no C14 entry on the events of any frame the model reads** (possibly followed by the periodic
section), in a state the abstract state simulates: its two C14 clauses — the counted lower bound of `checkData` and the
one of `checkDepartures` — pass in every branch. -/
theorem segment_c14 {cfg : Cfg} (ok : CfgOK cfg) (hfuel : cfg.fuel = 0) (hperm : OrdPerm cfg) {a : A} {s : State}
    (inv : Inv cfg a s) (rd : Read) (hu0 : rd.uid ≠ 0) (m : Module) (hm : s.find rd.uid = some m)
    (s2 : State) (q : QuietTo cfg (readOne cfg s rd) s2)
    (hq : s2 = readOne cfg s rd ∨ s2 = ticks cfg (readOne cfg s rd))
    (evs : List Ev) (he : s2.out = s.out ++ Ev.rd rd.uid :: evs) (hn : NoErr "C14" a) :
    NoErr "C14" (segment cfg a rd evs) := by
  have hs := (segment_ok ok hfuel hperm inv rd hu0 m hm s2 q evs he).1.sim
  have he' : s2.out = (rdState cfg s rd).out ++ evs := by rw [rdState_out, he]; simp
  obtain ⟨am, ham⟩ := Option.isSome_iff_exists.mp ((inv.sim.live rd.uid hu0).mpr (by simp [hm]))
  obtain ⟨hget, hal⟩ := Spec.live_some.mp ham
  have nb : NoErr "C14" (afterBuf cfg a rd) := noErr_afterBuf rd hn
  have tail : ∀ {X W : A} (md : Option Nat), segment cfg a rd evs = applyDepartures W evs →
      ErrExt ["C06"] (checkDepartures cfg X md evs) W → NoErr "C14" X → NoErr "C14" (segment cfg a rd evs) :=
    fun md e hW hX => seg_tail_c14 ok hfuel hperm inv.top rd hq evs he md hs e hW hX
  have acks : ∀ (Y : A) (b : Bool), NoErr "C14" Y → NoErr "C14" (checkAcks cfg Y rd.uid b evs) :=
    fun Y b hY => (checkAcks_ext cfg Y rd.uid b evs).noErr (by simp) hY
  by_cases hb : Spec.brokenRd cfg rd = true
  · obtain ⟨Y, hY, e⟩ := segment_broken cfg a rd evs am hget hal hb
    exact tail _ e (ErrExt.refl _ _) (acks _ _ (hY.noErr (by simp) nb))
  · have hb' : Spec.brokenRd cfg rd = false := by simpa using hb
    by_cases hc : (rd.h.mtype == cfg.mtConnect || rd.h.mtype == cfg.mtConnectV2) = true
    · by_cases hcn : am.connected = true
      · exact tail _ (segment_reconnect cfg a rd evs am hget hal hb' hc hcn) (ErrExt.refl _ _) (acks _ _ nb)
      · have hcn' : am.connected = false := by simpa using hcn
        have hseg := segment_connect cfg a rd evs am hget hal hb' hc hcn'
        obtain ⟨Y, hY, hcases⟩ := checkConnect_cases cfg (afterBuf cfg a rd) rd.uid am rd.h evs
        have nY : NoErr "C14" Y := hY.noErr (by simp) nb
        rcases hcases with ⟨e, _, _⟩ | ⟨e, _⟩ | ⟨nm, _, _, e⟩
        · rw [e] at hseg
          exact tail _ hseg (ErrExt.refl _ _) nY
        · rw [e] at hseg
          exact tail _ hseg (checkInfos_ext _ evs) (acks _ _ nY)
        · rw [e] at hseg
          exact tail _ hseg (checkInfos_ext _ evs) (acks _ _ (noErr_upd _ _ nY))
    · have hc' : (rd.h.mtype == cfg.mtConnect || rd.h.mtype == cfg.mtConnectV2) = false := by simpa using hc
      by_cases hd : (rd.h.mtype == cfg.mtDisconnect) = true
      · obtain ⟨Y, hY, e⟩ := segment_disconnect cfg a rd evs am hget hal hb' hc' hd
        exact tail _ e (ErrExt.refl _ _) (acks _ _ (hY.noErr (by simp) nb))
      · have hd' : (rd.h.mtype == cfg.mtDisconnect) = false := by simpa using hd
        by_cases hsb : (rd.h.mtype == cfg.mtSubscribe || rd.h.mtype == cfg.mtResume || rd.h.mtype == cfg.mtUnsubscribe ||
            rd.h.mtype == cfg.mtPause) = true
        · exact tail _ (segment_sub cfg a rd evs am hget hal hb' hc' hd' hsb) (ErrExt.refl _ _)
            (acks _ _ (noErr_upd _ _ nb))
        · have hsb' : (rd.h.mtype == cfg.mtSubscribe || rd.h.mtype == cfg.mtResume || rd.h.mtype == cfg.mtUnsubscribe ||
              rd.h.mtype == cfg.mtPause) = false := by simpa using hsb
          by_cases hnm : (rd.h.mtype == cfg.mtSetName) = true
          · cases hcs : cstr (afterBuf cfg a rd).buf 0 32 with
            | none =>
              exact tail _ (segment_setName_bad cfg a rd evs am hget hal hb' hc' hd' hsb' hnm hcs) (ErrExt.refl _ _)
                (acks _ _ nb)
            | some nm =>
              exact tail _ (segment_setName cfg a rd evs am hget hal hb' hc' hd' hsb' hnm nm hcs) (checkInfos_ext _ evs)
                (acks _ _ (noErr_upd _ _ nb))
          · have hnm' : (rd.h.mtype == cfg.mtSetName) = false := by simpa using hnm
            by_cases hr : (rd.h.mtype == cfg.mtModuleReady) = true
            · exact tail _ (segment_ready cfg a rd evs am hget hal hb' hc' hd' hsb' hnm' hr) (checkInfos_ext _ evs)
                (acks _ _ (noErr_upd _ _ nb))
            · have hr' : (rd.h.mtype == cfg.mtModuleReady) = false := by simpa using hr
              obtain ⟨Z, hZ, e⟩ := segment_data cfg a rd evs am hget hal hb' hc' hd' hsb' hnm' hr'
              obtain ⟨_, _, hdat, hack⟩ := seg_data ok hfuel hperm inv rd m hm am hget hal s2 evs he' hb' q hc' hd' hsb' hnm' hr'
              rw [hack, hdat] at hZ
              exact tail _ e (ErrExt.refl _ _) (hZ.noErr (by simp) nb)

end Pyrtma.Mgr
