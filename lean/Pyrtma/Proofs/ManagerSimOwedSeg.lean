import Pyrtma.Proofs.ManagerSimOwedTop
import Pyrtma.Proofs.ManagerSimOwedData
/-!
# The C14 clause of `Spec.checkDepartures` from the model-side count, through the simulation at the END of a stretch

`X` is the abstract state `Spec.checkDepartures` is evaluated on, `A2` the abstract state after the stretch (`X` with the
departures of `evs` applied and possibly more errors), `s2` the model's state there.  The observers / owed subscribers of
the clause are alive in `A2` (the clause leaves out whoever is closed in `evs`), so the simulation at `s2` makes them
`StableF` / `Owed` there, which is what the count of `ManagerSimOwedTop.lean` speaks about.
-/
namespace Pyrtma.Mgr
open Spec

theorem closeN_closes (evs : List Ev) : (closes evs).length = closeN evs := by
  unfold closes closeN
  induction evs with
  | nil => rfl
  | cons e rest ih =>
    cases e <;> simp [List.filterMap_cons, List.countP_cons, ih]

/-- a module of `X` that is alive and not closed in `evs` is a live module of the state after the departures -/
theorem stays_of_not_closed {X A2 : A} (evs : List Ev) (hXm : (applyDepartures X evs).mods = A2.mods) {am : AMod}
    (hmem : am ∈ X.mods) (hnc : (closes evs).contains am.uid = false) : am ∈ A2.mods := by
  rw [← hXm, applyDepartures_eq]
  refine List.mem_map.mpr ⟨am, hmem, ?_⟩
  unfold killIn; rw [hnc]; rfl

theorem dep_c14_end {cfg : Cfg} {A2 X : A} {s2 : State} (hs : Sim cfg A2 s2) (ao : AllOpen s2) (evs : List Ev)
    (hXm : (applyDepartures X evs).mods = A2.mods) (hXw : X.w = A2.w) (hXf : X.fail = A2.fail)
    (hp : ∀ (o : Nat) (d : Int) (U : List Nat), U.Nodup → PostC cfg o d U s2 evs 0) :
    ∀ o ∈ dfobs cfg X evs, ∀ m ∈ dowed cfg X evs,
      (closes evs).length * ((dowed cfg X evs).filter (·.modId == m.modId)).length ≤
        ((sends evs).filter (fun p => p.1 == o.uid && p.2.2.body == .failed m.modId cfg.mtClosed 0 0)).length := by
  intro o ho m _
  rw [fcnt_sends, closeN_closes]
  have huids : (X.mods.map (·.uid)).Nodup := by
    rw [← applyDepartures_uids X evs, hXm]; exact uids_nodup hs.uids
  have hsl : ((dowed cfg X evs).filter (·.modId == m.modId)).Sublist X.mods := by
    unfold dowed
    exact List.filter_sublist.trans List.filter_sublist
  have hnd : (((dowed cfg X evs).filter (·.modId == m.modId)).map (·.uid)).Nodup := huids.sublist (hsl.map _)
  have hlen : (((dowed cfg X evs).filter (·.modId == m.modId)).map (·.uid)).length =
      ((dowed cfg X evs).filter (·.modId == m.modId)).length := List.length_map _
  rw [← hlen]
  have key := hp o.uid m.modId _ hnd ?_ ?_
  · simpa [Bc] using key
  · -- the observer
    obtain ⟨homem, hoc⟩ := List.mem_filter.mp ho
    simp only [Bool.and_eq_true, Bool.not_eq_true'] at hoc
    obtain ⟨⟨⟨⟨hoal, hosb⟩, hord⟩, hofl⟩, honc⟩ := hoc
    obtain ⟨_, hol, mo, hmo, hsm⟩ := sim_entry hs (stays_of_not_closed evs hXm homem honc) hoal
    refine ⟨mo, hmo, ao _ _ hmo, (failing_iff hs.fail _).mp ?_, sim_sub hs hmo hsm _ hosb, ?_⟩
    · unfold A.failing at hofl ⊢; rw [← hXf]; exact hofl
    · unfold ready at hord
      rcases Bool.or_eq_true _ _ |>.mp hord with hw | hlg
      · exact Or.inl ((sim_wlist hs hol).mp (by rw [← hXw]; exact hw))
      · exact Or.inr (by rw [← hsm.isLogger]; exact hlg)
  · -- the owed subscribers
    intro u hu
    obtain ⟨am, ham, rfl⟩ := List.mem_map.mp hu
    obtain ⟨hamU, hamd⟩ := List.mem_filter.mp ham
    have hamd' : am.modId = m.modId := by simpa using hamd
    unfold dowed at hamU
    obtain ⟨hamem, hc⟩ := List.mem_filter.mp hamU
    simp only [Bool.and_eq_true, Bool.not_eq_true'] at hc
    obtain ⟨⟨⟨⟨haal, hasb⟩, hnl⟩, hnw⟩, hanc⟩ := hc
    obtain ⟨_, hal, mm, hmm, hsm⟩ := sim_entry hs (stays_of_not_closed evs hXm hamem hanc) haal
    refine ⟨mm, hmm, ao _ _ hmm, by rw [← hsm.modId]; exact hamd', by rw [← hsm.isLogger]; exact hnl, ?_,
      sim_sub hs hmm hsm _ hasb⟩
    intro hx
    have := (sim_wlist hs hal).mpr hx
    rw [← hXw, hnw] at this; cases this

end Pyrtma.Mgr
