import Pyrtma.Proofs.ManagerSimOwedDep
import Pyrtma.Proofs.ManagerSimAdj
/-!
# The counted lower bound of the notices about an undeliverable CLIENT_CLOSED (C14): the top-level operations

`CT s s'`: a stretch of top-level manager activity from `s` to `s'` keeps crash-freedom and satisfies `PostC`
(`ManagerSimOwedDep.lean`): every connection that can take a FAILED_MESSAGE at the end has been written one notice
`failed d CLIENT_CLOSED 0 0` per departure of the stretch and per subscriber of CLIENT_CLOSED with id `d` that is not
writable, no logger and still in the table at the end.  Up to the handling of one frame (`ct_readOne`), the periodic
section (`ct_ticks`) and the accept branch (`ct_accept`).  A table update in the middle of a stretch (after events) must
keep who is stable / owed (`BackFO`); the updates that do not (the fields a CONNECT rewrites, a new subscription) come
before the first event of their frame.
-/
namespace Pyrtma.Mgr

/-- who can take a FAILED_MESSAGE / is owed a notice about a CLIENT_CLOSED after was so before -/
def BackFO (cfg : Cfg) (s s' : State) : Prop :=
  (∀ o, StableF cfg s' o → StableF cfg s o) ∧ (∀ d u, Owed cfg cfg.mtClosed d s' u → Owed cfg cfg.mtClosed d s u)

theorem Nest.backFO {s s' : State} (cfg : Cfg) (n : Nest s s') : BackFO cfg s s' :=
  ⟨fun o h => n.backF cfg o h, fun d u h => n.backO cfg _ d u h⟩

theorem backFO_same {cfg : Cfg} {s s' : State} (hm : s'.mods = s.mods) (hi : s'.idx = s.idx) (hw : s'.wlist = s.wlist)
    (hf : s'.fail = s.fail) : BackFO cfg s s' := by
  have hfind : ∀ u, s'.find u = s.find u := fun u => by unfold State.find; rw [hm]
  refine ⟨fun o ⟨m, h1, h2, h3, h4, h5⟩ => ⟨m, by rw [← hfind]; exact h1, h2, by rw [← failOf_congr hf]; exact h3,
    by rw [← hi]; exact h4, by rw [← hw]; exact h5⟩, fun d u ⟨m, h1, h2, h3, h4, h5, h6⟩ =>
    ⟨m, by rw [← hfind]; exact h1, h2, h3, h4, by rw [← hw]; exact h5, by rw [← hi]; exact h6⟩⟩

theorem backFO_upd {cfg : Cfg} (s : State) (u : Nat) (f : Module → Module) (hu : ∀ m, (f m).uid = m.uid)
    (hk : ∀ m, (f m).closed = m.closed ∧ (f m).modId = m.modId ∧ (f m).isLogger = m.isLogger) : BackFO cfg s (s.upd u f) := by
  have key : ∀ v m', (s.upd u f).find v = some m' →
      ∃ m, s.find v = some m ∧ m'.closed = m.closed ∧ m'.modId = m.modId ∧ m'.isLogger = m.isLogger := by
    intro v m' h
    rw [find_upd s u v f hu] at h
    cases h0 : s.find v with
    | none => simp [h0] at h
    | some x =>
      simp only [h0, Option.map_some, Option.some.injEq] at h
      refine ⟨x, rfl, ?_⟩
      subst h; split
      · exact hk x
      · exact ⟨rfl, rfl, rfl⟩
  refine ⟨fun o ⟨m', h1, h2, h3, h4, h5⟩ => ?_, fun d v ⟨m', h1, h2, h3, h4, h5, h6⟩ => ?_⟩
  · obtain ⟨m, hm, e1, _, e3⟩ := key o m' h1
    exact ⟨m, hm, by rw [← e1]; exact h2, h3, h4, by rw [← e3]; exact h5⟩
  · obtain ⟨m, hm, e1, e2, e3⟩ := key v m' h1
    exact ⟨m, hm, by rw [← e1]; exact h2, by rw [← e2]; exact h3, by rw [← e3]; exact h4, h5, h6⟩

structure CT (cfg : Cfg) (s s' : State) : Prop where
  top : Top cfg s'
  cnt : ∀ (o : Nat) (d : Int) (U : List Nat), U.Nodup → ∃ ext, s'.out = s.out ++ ext ∧ PostC cfg o d U s' ext 0

theorem ct_top {cfg : Cfg} {s s' : State} (h : Top cfg s') (ho : s'.out = s.out) : CT cfg s s' :=
  ⟨h, fun o d U _ => ⟨[], by simp [ho], postC_nil o d U s'⟩⟩

theorem CT.refl {cfg : Cfg} {s : State} (h : Top cfg s) : CT cfg s s := ct_top h rfl

/-- composition: the second part keeps who is stable / owed, or the first part wrote nothing -/
theorem CT.bind {cfg : Cfg} {a b c : State} (h1 : CT cfg a b) (f : Top cfg b → CT cfg b c)
    (bk : BackFO cfg b c ∨ (∀ ext, b.out = a.out ++ ext → closeN ext = 0)) : CT cfg a c := by
  have h2 := f h1.top
  refine ⟨h2.top, fun o d U hU => ?_⟩
  obtain ⟨e1, o1, p1⟩ := h1.cnt o d U hU
  obtain ⟨e2, o2, p2⟩ := h2.cnt o d U hU
  refine ⟨e1 ++ e2, by rw [o2, o1, List.append_assoc], ?_⟩
  rcases bk with bk | hs
  · intro hst hUo
    have a1 := p1 (bk.1 o hst) (fun u hu => bk.2 d u (hUo u hu))
    have a2 := p2 hst hUo
    rw [closeN_append, fcnt_append, Nat.add_mul]
    omega
  · intro hst hUo
    have a2 := p2 hst hUo
    rw [closeN_append, fcnt_append, hs e1 o1, Nat.add_mul]
    omega

theorem noClose_of_out {a b : State} (h : b.out = a.out) : ∀ ext, b.out = a.out ++ ext → closeN ext = 0 := by
  intro ext he
  have : a.out ++ ext = a.out ++ [] := by rw [← he, h]; simp
  rw [List.append_cancel_left this]; rfl

theorem CT.nest {cfg : Cfg} {a b c : State} (h1 : CT cfg a b) (f : Top cfg b → CT cfg b c) (n : Nest b c) : CT cfg a c :=
  h1.bind f (Or.inl (n.backFO cfg))

section top
variable {cfg : Cfg} (ok : CfgOK cfg) (hall : OrdAll cfg) (hfuel : cfg.fuel = 0)
include ok hall hfuel

omit hall in
theorem ct_same {s : State} (h : Top cfg s) (s' : State) (hm : s'.mods = s.mods) (hi : s'.idx = s.idx)
    (hc : s'.crashed = s.crashed) (ho : s'.out = s.out) : CT cfg s s' :=
  ct_top (top_same ok hfuel h s' hm hi hc) ho

theorem ct_fwd {s : State} (h : Top cfg s) (g : Frame) : CT cfg s (fwdTop cfg s g) := by
  refine ⟨top_fwd ok hfuel h g, fun o d U hU => ?_⟩
  obtain ⟨e, oe, x⟩ := fwdTop_CK ok hall hfuel o d U hU (need cfg s g) s g h.good (Nat.le_refl _)
  exact ⟨e, oe, x 0 0 (Or.inl rfl) (Or.inl rfl)⟩

theorem ct_log {s : State} (h : Top cfg s) (lvl : Nat) : CT cfg s (logAt cfg (fwdTop cfg) lvl s) := by
  unfold logAt; split
  · exact ct_fwd ok hall hfuel h _
  · exact CT.refl h

theorem ct_remove {s : State} (h : Top cfg s) (u : Nat) : CT cfg s (removeModule cfg (fwdTop cfg) s u) := by
  refine ⟨top_remove ok hfuel h u, fun o d U hU => ?_⟩
  cases hm : s.find u with
  | none =>
    have : removeModule cfg (fwdTop cfg) s u = s := by unfold removeModule; simp only [hm]
    rw [this]; exact ⟨[], by simp, postC_nil o d U s⟩
  | some m => exact removeTop_counted ok hall hfuel h u m hm o d U hU

theorem ct_trySend {s : State} (h : Top cfg s) (u : Nat) (f : Frame) (m : Module) (hm : s.find u = some m) :
    CT cfg s (trySend cfg (fwdTop cfg) s u f) :=
  ⟨top_trySend ok hfuel h u f m hm, fun o d U hU =>
    c_trySend ok o d U (fwdTop_Safe ok hfuel (2 * live s + gcost cfg f)) (fwdTop_nest cfg)
      (fwdTop_CK ok hall hfuel o d U hU _) h.good u f m hm (h.aopen u m hm) (Nat.le_refl _) 0 (Or.inl rfl)⟩

theorem ct_toLoggers (f : Frame) : ∀ (ls : List Nat) {s : State}, Top cfg s → CT cfg s (toLoggers cfg f ls s)
  | [], _, h => CT.refl h
  | u :: rest, s, h => by
    unfold toLoggers
    have h1 : CT cfg s (loggerOne cfg f s u) := by
      unfold loggerOne
      cases hm : s.find u with
      | none => exact CT.refl h
      | some m => exact ct_trySend ok hall hfuel h u f m hm
    exact h1.nest (fun h' => ct_toLoggers f rest h') (toLoggers_nest cfg f rest _)

theorem ct_sendAck {s : State} (h : Top cfg s) (u : Nat) : CT cfg s (sendAck cfg s u) := by
  unfold sendAck
  cases hm : s.find u with
  | none => exact CT.refl h
  | some m =>
    exact (ct_trySend ok hall hfuel h u _ m hm).nest (fun h' => ct_toLoggers ok hall hfuel _ _ h') (toLoggers_nest cfg _ _ _)

theorem ct_infoOf {s : State} (h : Top cfg s) (m : Module) : CT cfg s (infoOf cfg s m) := by
  unfold infoOf
  exact (ct_log ok hall hfuel h 10).nest (fun h' => ct_fwd ok hall hfuel h' _) (fwdTop_nest cfg _ _)

theorem ct_sendInfo {s : State} (h : Top cfg s) (u : Nat) : CT cfg s (sendInfo cfg s u) := by
  unfold sendInfo
  cases s.find u with
  | none => exact CT.refl h
  | some m => exact ct_infoOf ok hall hfuel h m

theorem ct_clashLoop (me : Module) : ∀ (os : List Module) {s : State}, Top cfg s → CT cfg s (clashLoop cfg me os s).1
  | [], _, h => CT.refl h
  | o :: rest, s, h => by
    unfold clashLoop
    split
    · exact CT.refl h
    · have h1 : CT cfg s (if me.name.isEmpty then s else logAt cfg (fwdTop cfg) 10 s) := by
        split
        · exact CT.refl h
        · exact ct_log ok hall hfuel h 10
      exact h1.nest (fun h' => ct_clashLoop me rest h') (clashLoop_nest cfg me rest _)

theorem ct_foldl_fwd : ∀ (fs : List Frame) {s : State}, Top cfg s → CT cfg s (fs.foldl (fwdTop cfg) s)
  | [], _, h => CT.refl h
  | f :: rest, s, h =>
    (ct_fwd ok hall hfuel h f).nest (fun h' => ct_foldl_fwd rest h') (foldl_fwd_nest cfg rest _)

theorem ct_infoAll : ∀ (ms : List Module) {s : State}, Top cfg s → CT cfg s (infoAll cfg ms s)
  | [], _, h => CT.refl h
  | m :: rest, s, h => by
    unfold infoAll
    exact (ct_infoOf ok hall hfuel h _).nest (fun h' => ct_infoAll rest h') (infoAll_nest cfg rest _)

theorem ct_ticks {s : State} (h : Top cfg s) : CT cfg s (ticks cfg s) := by
  unfold ticks
  have same : ∀ {x : State} (y : State), y.mods = x.mods → y.idx = x.idx → y.wlist = x.wlist → y.fail = x.fail →
      BackFO cfg x y := fun y a b c d => backFO_same a b c d
  have h1 : CT cfg s (if cfg.timing && s.now - s.tTiming > cfg.pTiming then { sendTiming cfg s with tTiming := s.now } else s) := by
    split
    · unfold sendTiming
      have a1 : CT cfg s ({ s with counts := [], inTraffic := true } : State) := ct_same ok hfuel h _ rfl rfl rfl rfl
      exact (a1.bind (fun h' => ct_fwd ok hall hfuel h' _) (Or.inr (noClose_of_out rfl))).bind
        (fun h' => ct_same ok hfuel h' _ rfl rfl rfl rfl) (Or.inl (same _ rfl rfl rfl rfl))
    · exact CT.refl h
  generalize (if cfg.timing && s.now - s.tTiming > cfg.pTiming then { sendTiming cfg s with tTiming := s.now } else s) = s1 at h1
  dsimp only
  have h2 : CT cfg s (if s1.now - s1.tTraffic > cfg.pTraffic then sendTraffic cfg s1 else s1) := by
    split
    · unfold sendTraffic
      have a1 : CT cfg s ({ s1 with inTraffic := true } : State) :=
        h1.bind (fun h' => ct_same ok hfuel h' _ rfl rfl rfl rfl) (Or.inl (same _ rfl rfl rfl rfl))
      exact ((a1.nest (fun h' => ct_log ok hall hfuel h' 10) (logTop_nest cfg 10 _)).nest
        (fun h' => ct_foldl_fwd ok hall hfuel _ h') (foldl_fwd_nest cfg _ _)).bind
        (fun h' => ct_same ok hfuel h' _ rfl rfl rfl rfl) (Or.inl (same _ rfl rfl rfl rfl))
    · exact h1
  generalize (if s1.now - s1.tTraffic > cfg.pTraffic then sendTraffic cfg s1 else s1) = s2 at h2
  split
  · unfold sendActive
    exact (((h2.nest (fun h' => ct_log ok hall hfuel h' 10) (logTop_nest cfg 10 _)).nest
      (fun h' => ct_infoAll ok hall hfuel _ h') (infoAll_nest cfg _ _)).nest
      (fun h' => ct_fwd ok hall hfuel h' _) (fwdTop_nest cfg _ _)).bind
      (fun h' => ct_same ok hfuel h' _ rfl rfl rfl rfl) (Or.inl (same _ rfl rfl rfl rfl))
  · exact h2

omit hall in
theorem ct_upd {s : State} (h : Top cfg s) (u : Nat) (f : Module → Module) (hu : ∀ m, (f m).uid = m.uid)
    (hsb : ∀ m, (f m).subs = m.subs) (hc : ∀ m, (f m).closed = m.closed) : CT cfg s (s.upd u f) :=
  ct_top (top_upd ok hfuel h u f hu hsb hc) rfl

theorem ct_connect {s : State} (h : Top cfg s) (u : Nat) (hd : Hdr) : CT cfg s (connectModule cfg s u hd).1 := by
  unfold connectModule
  dsimp only
  have refuse : ∀ {s0 : State}, CT cfg s s0 → CT cfg s (removeModule cfg (fwdTop cfg) (logAt cfg (fwdTop cfg) 40 s0) u) :=
    fun t0 => (t0.nest (fun h' => ct_log ok hall hfuel h' 40) (logTop_nest cfg 40 _)).nest
      (fun h' => ct_remove ok hall hfuel h' u) (removeTop_nest cfg _ u)
  split
  · exact CT.refl h
  · split
    · exact refuse (ct_upd ok hfuel h u (setReq cfg s.buf hd) (fun m => (setReq_keeps cfg s.buf hd m).1)
        (fun m => (setReq_keeps cfg s.buf hd m).2) (fun m => (setReq_closed cfg s.buf hd m).2))
    · rename_i nm _
      have h1 : CT cfg s (s.upd u (setAll cfg s.buf hd nm)) :=
        ct_upd ok hfuel h u (setAll cfg s.buf hd nm) (fun m => (setAll_keeps cfg s.buf hd nm m).1)
          (fun m => (setAll_keeps cfg s.buf hd nm m).2) (fun m => by unfold setAll; exact (setReq_closed cfg s.buf hd m).2)
      split
      · split
        · exact refuse h1
        · have hl := h1.nest (fun h' => ct_clashLoop ok hall hfuel (setAll cfg s.buf hd nm (lookupMod s u))
            ((s.upd u (setAll cfg s.buf hd nm)).mods.filter (·.uid != u)) h') (clashLoop_nest cfg _ _ _)
          generalize clashLoop cfg (setAll cfg s.buf hd nm (lookupMod s u))
            ((s.upd u (setAll cfg s.buf hd nm)).mods.filter (·.uid != u)) (s.upd u (setAll cfg s.buf hd nm)) = r at hl
          obtain ⟨s2, cl⟩ := r
          dsimp only at hl ⊢
          split
          · exact refuse hl
          · exact (hl.bind (fun h' => ct_upd ok hfuel h' u (fun m => { m with connected := true })
              (fun _ => rfl) (fun _ => rfl) (fun _ => rfl))
              (Or.inl (backFO_upd s2 u _ (fun _ => rfl) (fun _ => ⟨rfl, rfl, rfl⟩)))).bind
              (fun h' => ct_same ok hfuel h' _ rfl rfl rfl rfl) (Or.inl (backFO_same rfl rfl rfl rfl))
      · split
        · exact refuse h1
        · rename_i id off _
          have h2 : CT cfg s ({ (s.upd u (setAll cfg s.buf hd nm)) with nextDyn := off } : State) :=
            h1.bind (fun h' => ct_same ok hfuel h' _ rfl rfl rfl rfl) (Or.inr (noClose_of_out rfl))
          exact (h2.bind (fun h' => ct_upd ok hfuel h' u (fun m => { m with modId := id, connected := true })
            (fun _ => rfl) (fun _ => rfl) (fun _ => rfl)) (Or.inr (noClose_of_out rfl))).bind
            (fun h' => ct_same ok hfuel h' _ rfl rfl rfl rfl) (Or.inr (noClose_of_out rfl))

theorem ct_addSub {s : State} (h : Top cfg s) (u : Nat) (t : Int) (m : Module) (hm : s.find u = some m) :
    CT cfg s (addSub cfg s u t) := by
  have hc : CT cfg s (addSubCore cfg s u t) :=
    ct_top (top_addSubCore ok hfuel h u t m hm) (addSubCore_misc cfg s u t).2.2.2.2.2
  unfold addSub; split
  · exact hc.bind (fun h' => ct_log ok hall hfuel h' 10) (Or.inr (noClose_of_out (addSubCore_misc cfg s u t).2.2.2.2.2))
  · exact hc

theorem ct_removeSub {s : State} (h : Top cfg s) (u : Nat) (t : Int) (m : Module) (hm : s.find u = some m) :
    CT cfg s (removeSub cfg s u t) := by
  have hc : CT cfg s (removeSubCore cfg s u t) :=
    ct_top (top_removeSubCore ok hfuel h u t m hm) (removeSubCore_misc cfg s u t).2.2.2.2.2
  unfold removeSub; split
  · exact hc.bind (fun h' => ct_log ok hall hfuel h' 10) (Or.inr (noClose_of_out (removeSubCore_misc cfg s u t).2.2.2.2.2))
  · exact hc

theorem ct_process {s : State} (h : Top cfg s) (u : Nat) (m : Module) (hm : s.find u = some m) (hd : Hdr) :
    CT cfg s (processMessage cfg s u hd) := by
  unfold processMessage
  dsimp only
  split
  · have hc := ct_connect ok hall hfuel h u hd
    generalize connectModule cfg s u hd = r at hc
    obtain ⟨s1, okb⟩ := r
    dsimp only at hc ⊢
    split
    · exact ((hc.nest (fun h' => ct_sendAck ok hall hfuel h' u) (sendAck_nest cfg _ u)).nest
        (fun h' => ct_infoOf ok hall hfuel h' _) (infoOf_nest cfg _ _)).nest
        (fun h' => ct_log ok hall hfuel h' 20) (logTop_nest cfg 20 _)
    · exact hc
  · split
    · exact (ct_remove ok hall hfuel h u).nest (fun h' => ct_log ok hall hfuel h' 20) (logTop_nest cfg 20 _)
    · split
      · exact (ct_addSub ok hall hfuel h u _ m hm).nest (fun h' => ct_sendAck ok hall hfuel h' u) (sendAck_nest cfg _ u)
      · split
        · exact (ct_removeSub ok hall hfuel h u _ m hm).nest (fun h' => ct_sendAck ok hall hfuel h' u) (sendAck_nest cfg _ u)
        · split
          · split
            · exact (ct_log ok hall hfuel h 40).nest (fun h' => ct_remove ok hall hfuel h' u) (removeTop_nest cfg _ u)
            · rename_i nm _
              exact ((ct_upd ok hfuel h u (fun m => { m with name := nm }) (fun _ => rfl) (fun _ => rfl) (fun _ => rfl)).nest
                (fun h' => ct_log ok hall hfuel h' 20) (logTop_nest cfg 20 _)).nest
                (fun h' => ct_infoOf ok hall hfuel h' _) (infoOf_nest cfg _ _)
          · split
            · exact (ct_upd ok hfuel h u (fun m => { m with pid := bufI32 s.buf 0 }) (fun _ => rfl) (fun _ => rfl)
                (fun _ => rfl)).nest (fun h' => ct_sendInfo ok hall hfuel h' u) (sendInfo_nest cfg _ u)
            · exact (ct_log ok hall hfuel h 10).nest (fun h' => ct_fwd ok hall hfuel h' _) (fwdTop_nest cfg _ _)

theorem ct_readOne {s : State} (h : Top cfg s) (r : Read) : CT cfg s (readOne cfg s r) := by
  unfold readOne
  split
  · exact CT.refl h
  · cases hm : s.find r.uid with
    | none => exact CT.refl h
    | some m =>
      dsimp only
      have he : CT cfg s (s.emit (.rd r.uid)) :=
        ⟨top_of h (good_emit h.good _), fun o d U _ => ⟨[.rd r.uid], rfl, fun _ _ => by simp [closeN]⟩⟩
      have hnc : ∀ ext, (s.emit (.rd r.uid)).out = s.out ++ ext → closeN ext = 0 := by
        intro ext hx
        have : s.out ++ ext = s.out ++ [.rd r.uid] := by rw [← hx]; rfl
        rw [List.append_cancel_left this]; rfl
      have hb : ∀ b, CT cfg s { (s.emit (.rd r.uid)) with buf := b } :=
        fun b => he.bind (fun h' => ct_same ok hfuel h' _ rfl rfl rfl rfl) (Or.inl (backFO_same rfl rfl rfl rfl))
      have hncb : ∀ b ext, ({ (s.emit (.rd r.uid)) with buf := b } : State).out = s.out ++ ext → closeN ext = 0 :=
        fun _ ext hx => hnc ext hx
      have rm : ∀ {s' : State}, CT cfg s s' → ∀ lvl,
          CT cfg s (logAt cfg (fwdTop cfg) lvl (removeModule cfg (fwdTop cfg) s' r.uid)) :=
        fun t' lvl => (t'.nest (fun h' => ct_remove ok hall hfuel h' r.uid) (removeTop_nest cfg _ _)).nest
          (fun h' => ct_log ok hall hfuel h' lvl) (logTop_nest cfg lvl _)
      split
      · exact rm he 40
      · split
        · exact rm he 30
        · split
          · exact rm he 30
          · split
            · split
              · exact rm he 40
              · split
                · exact rm (hb _) 30
                · exact (hb _).bind (fun h' => ct_process ok hall hfuel h' _ m hm _) (Or.inr (hncb _))
            · exact he.bind (fun h' => ct_process ok hall hfuel h' _ m hm _) (Or.inr hnc)

end top


end Pyrtma.Mgr
