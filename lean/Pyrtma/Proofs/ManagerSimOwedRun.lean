import Pyrtma.Proofs.ManagerSimOwedSeg
import Pyrtma.Proofs.ManagerSimOrigin
/-!
# C14 through the reading loop of a round

`Spec.roundBody.go` — the Spec's loop over the frames of a round and the segments of the model's events — adds no C14
entry: per frame the two clauses evaluated before `segment` return their argument (`checkNoticeOrigin`:
`ManagerSimOrigin.lean`; `checkLoggerWaited`: `loggerWaited_ok`) and `segment` adds none (`segment_c14`).
Not covered: the stretch before the first read of a round (`out/defect_2.md`: the C14 clause of `checkDepartures` is
too strict there when a round accepts and reads nothing), hence no statement about a whole round.
-/
namespace Pyrtma.Mgr
open Spec

section loop
variable {cfg : Cfg} (ok : CfgOK cfg) (hfuel : cfg.fuel = 0) (hperm : OrdPerm cfg) (hmt : cfg.mtClosed ≠ cfg.allTypes)
include ok hfuel hperm

/-- the two C14 clauses evaluated before `segment` return their argument -/
theorem preSeg_id {a : A} {s : State} (inv : Inv cfg a s) (rd : Read) (hu0 : rd.uid ≠ 0) (m : Module)
    (hm : s.find rd.uid = some m) (s2 : State) (q : QuietTo cfg (readOne cfg s rd) s2)
    (hq : s2 = readOne cfg s rd ∨ s2 = ticks cfg (readOne cfg s rd))
    (evs : List Ev) (he : s2.out = s.out ++ Ev.rd rd.uid :: evs) : Spec.preSeg cfg a rd evs = a := by
  unfold Spec.preSeg
  have h1 : Spec.checkNoticeOrigin cfg a (some rd) evs = a := by
    rcases hq with e | e
    · exact noticeOrigin_frame ok inv.sim rd hu0 false evs (by rw [← e]; exact he) a rfl
    · exact noticeOrigin_frame ok inv.sim rd hu0 true evs (by rw [← e]; exact he) a rfl
  rw [h1]
  exact loggerWaited_ok ok hfuel hperm inv rd hu0 m hm s2 q evs he a rfl rfl

include hmt

theorem readAll_go_c14 : ∀ (reads : List Read) (a : A) (s sQ : State) (E : List Ev) (fuel : Nat),
    Inv cfg a s → (∀ rd ∈ reads, rd.uid ≠ 0) → reads.length ≤ fuel →
    QuietTo cfg (readAll cfg reads s) sQ →
    (sQ = readAll cfg reads s ∨ sQ = ticks cfg (readAll cfg reads s)) → sQ.out = s.out ++ E →
    NoErr "C14" a → NoErr "C14" (Spec.roundBody.go cfg a reads (Spec.splitRd E).2 fuel)
  | [], a, s, sQ, E, fuel, _, _, _, q, _, he, hn => by
    obtain ⟨E', hE', hno, _⟩ := q.nest.ext
    have : E' = E := List.append_cancel_left (hE'.symm.trans he)
    subst this
    rw [splitRd_none E' hno, go_nil]; exact hn
  | rd :: rest, a, s, sQ, E, 0, _, _, hlen, _, _, _, _ => by simp at hlen
  | rd :: rest, a, s, sQ, E, fuel + 1, inv, hwf, hlen, q, hQ, he, hn => by
    have hu0 : rd.uid ≠ 0 := hwf rd (by simp)
    have hwf' : ∀ x ∈ rest, x.uid ≠ 0 := fun x hx => hwf x (by simp [hx])
    have hlen' : rest.length ≤ fuel := by simp at hlen; omega
    rw [readAll_cons] at q hQ
    cases hm : s.find rd.uid with
    | none =>
      rw [readOne_skip cfg s rd hm] at q hQ
      have hdead : a.live rd.uid = none := by
        cases hl : a.live rd.uid with
        | none => rfl
        | some x =>
          have := (inv.sim.live rd.uid hu0).mp (by simp [hl])
          rw [hm] at this; cases this
      rw [go_skip cfg a rd rest _ fuel hdead]
      exact readAll_go_c14 rest a s sQ E fuel inv hwf' hlen' q hQ he hn
    | some m =>
      obtain ⟨am, ham⟩ := Option.isSome_iff_exists.mp ((inv.sim.live rd.uid hu0).mpr (by simp [hm]))
      have t1 : Top cfg (readOne cfg s rd) := top_readOne ok hfuel inv.top rd
      have j1 : J (readOne cfg s rd) := readOne_J cfg inv.j rd
      obtain ⟨E1, hE1, hno1⟩ := readOne_evt cfg s rd inv.top.good.ok m hm
      obtain ⟨E2a, hE2a⟩ := readAll_out ok hfuel rest (readOne cfg s rd) t1
      obtain ⟨E2b, hE2b, _, _⟩ := q.nest.ext
      have hE2 : sQ.out = (readOne cfg s rd).out ++ (E2a ++ E2b) := by rw [hE2b, hE2a, List.append_assoc]
      have hE : E = Ev.rd rd.uid :: E1 ++ (E2a ++ E2b) := by
        have : s.out ++ E = s.out ++ (Ev.rd rd.uid :: E1 ++ (E2a ++ E2b)) := by
          rw [← he, hE2, hE1]; simp
        exact List.append_cancel_left this
      have tt1 : T (readOne cfg s rd) :=
        T_of_A inv.t (ta_readOne ok hmt (ordOK_of_perm hperm) hfuel inv.top rd).2
      have q1 := quietTo_refl t1 j1 tt1
      have hp1 := preSeg_id ok hfuel hperm inv rd hu0 m hm (readOne cfg s rd) q1 (Or.inl rfl) E1 hE1
      have hx := segment_ok ok hfuel hperm inv rd hu0 m hm (readOne cfg s rd) q1 E1 hE1
      have hn1 := segment_c14 ok hfuel hperm inv rd hu0 m hm (readOne cfg s rd) q1 (Or.inl rfl) E1 hE1 hn
      rcases readAll_go ok hfuel hperm hmt rest (Spec.segment cfg a rd E1) (readOne cfg s rd) sQ
          (E2a ++ E2b) fuel ⟨hx.1.sim, hx.1.top, hx.1.j, hx.1.t⟩ hwf' hlen' q hE2 with ⟨h1, h2, _⟩ | ⟨h1, _, _, _⟩
      · -- the last frame handled in this round: the continuation's events belong to its segment
        rw [h2] at q hQ
        have hsplit : Spec.splitRd E = ([], [(rd.uid, E1 ++ (E2a ++ E2b))]) := by
          rw [hE, List.cons_append, splitRd_cons, splitRd_none (E1 ++ (E2a ++ E2b))]
          intro u hu
          rcases List.mem_append.mp hu with h | h
          · exact hno1 u h
          · exact h1 u h
        have heT : sQ.out = s.out ++ Ev.rd rd.uid :: (E1 ++ (E2a ++ E2b)) := by rw [he, hE]; simp
        have hpT := preSeg_id ok hfuel hperm inv rd hu0 m hm sQ q hQ (E1 ++ (E2a ++ E2b)) heT
        have hnT := segment_c14 ok hfuel hperm inv rd hu0 m hm sQ q hQ (E1 ++ (E2a ++ E2b)) heT hn
        rw [hsplit, go_take cfg a rd rest _ [] fuel am ham, hpT]
        exact (go_nil_ext cfg rest _ fuel).noErr (by simp) hnT
      · have hsplit : Spec.splitRd E = ([], (rd.uid, E1) :: (Spec.splitRd (E2a ++ E2b)).2) := by
          rw [hE, List.cons_append, splitRd_cons, splitRd_append E1 _ hno1, h1]; simp
        rw [hsplit, go_take cfg a rd rest E1 _ fuel am ham, hp1]
        exact readAll_go_c14 rest (Spec.segment cfg a rd E1) (readOne cfg s rd) sQ (E2a ++ E2b) fuel
          ⟨hx.1.sim, hx.1.top, hx.1.j, hx.1.t⟩ hwf' hlen' q hQ hE2 hn1

end loop

/-! ## a whole round, for configurations that do not forward INFO log lines

With `20 < cfg.logLevel` (the default is 100) the accept branch writes nothing: the stretch before the first read of a
round is empty, or — when no frame is read — the periodic section alone, which runs after the poll (`out/defect_2.md`
is about the accept log line). -/

theorem preS_quiet {cfg : Cfg} (hlog : 20 < cfg.logLevel) (s : State) (r : Round) : (preS cfg s r).out = s.out := by
  have hacc : (acceptStep cfg (envStep s r)).out = s.out := by
    unfold acceptStep logAt
    have : ¬ (20 ≥ cfg.logLevel) := by omega
    simp only [this, if_false]
    rfl
  unfold preS
  dsimp only
  split
  · show (if r.accept then acceptStep cfg (envStep s r) else envStep s r).out = s.out
    split
    · exact hacc
    · rfl
  · rfl

theorem goStart_nil_c14 (cfg : Cfg) (aP : A) (wNew : List Nat) (hn : NoErr "C14" aP) :
    NoErr "C14" (goStart cfg aP wNew []) := by
  unfold goStart
  have h1 : ErrExt ["C07"] aP (aP.chk ((closes ([] : List Ev)).isEmpty || !(wfails ([] : List Ev)).isEmpty) "C07"
      "a connection was closed before any frame was read in this round") := errExt_chk _ _ _ _ _ (by simp)
  generalize aP.chk ((closes ([] : List Ev)).isEmpty || !(wfails ([] : List Ev)).isEmpty) "C07"
      "a connection was closed before any frame was read in this round" = X at h1
  have h2 : checkNoticeOrigin cfg X none [] = X := rfl
  rw [h2]
  have h3 := checkDepartures_c14 cfg X none [] (fun o _ m _ => by simp [closes])
  show NoErr "C14" (applyDepartures (checkDepartures cfg X none []) [])
  exact noErr_applyDepartures [] (h3.noErr (by simp) (h1.noErr (by simp) hn))

theorem roundEnd_c14 (cfg : Cfg) (a : A) (pre : List Ev) (segs : List (Nat × List Ev)) (hn : NoErr "C14" a) :
    NoErr "C14" (roundEnd cfg a pre segs) := by
  unfold roundEnd
  extract_lets b lastEvs
  have hb : CoreExt ["C18"] a b := by
    simp only [b]; split
    · exact CoreExt.refl _ _
    · exact (coreExt_foldl [] _ (fun x y => noteMgrFrames_ext cfg x y) _ _).mono (by simp)
  exact (hb.trans (tail_ext cfg b lastEvs)).noErr (by simp) hn

section round
variable {cfg : Cfg} (ok : CfgOK cfg) (hfuel : cfg.fuel = 0) (hperm : OrdPerm cfg) (hmt : cfg.mtClosed ≠ cfg.allTypes)
  (hlog : 20 < cfg.logLevel)
include ok hfuel hperm hmt hlog

/-- **One round adds no C14 entry** (log level above INFO) -/
theorem round_c14 {a : A} {s : State} (inv : Inv cfg a s) (r : Round) (hwf : RoundWF r) (evs : List Ev)
    (he : (step cfg s r).out = s.out ++ evs) (hn : NoErr "C14" a) : NoErr "C14" (Spec.round cfg a r evs) := by
  have hord : OrdOK cfg := ordOK_of_perm hperm
  have hall : OrdAll cfg := OrdAll_of_perm hperm
  have tStep : T (step cfg s r) := step_T ok hmt hord hfuel inv.top inv.t r
  have tPre : T (preS cfg s r) := pre_T ok hmt hord hfuel inv.top inv.t r
  rw [round_eq]
  rw [step_eq cfg s r inv.top.good.ok] at he tStep
  obtain ⟨eAcc, hPout, hnoAcc, hsP, tP, jP, hreads, herrs⟩ := pre_ok ok hfuel inv r hwf
  have hq0 := preS_quiet hlog s r
  have heAcc : eAcc = [] := by
    have : s.out ++ eAcc = s.out ++ [] := by rw [← hPout, hq0]; simp
    exact List.append_cancel_left this
  subst heAcc
  rw [hreads]
  have hwf' : ∀ rd ∈ readsS s r, rd.uid ≠ 0 := fun rd hrd => hwf rd (List.mem_filter.mp hrd).1
  rw [preA_eq] at hsP herrs
  have herrs' : (preAcc a r).errs = a.errs := herrs
  have hnAcc : NoErr "C14" (preAcc a r) := by unfold NoErr; rw [herrs']; exact hn
  have hreadsDef : readsS s r = r.reads.filter (fun rd => ((envStep s r).find rd.uid).isSome) := rfl
  generalize hrs : readsS s r = reads at *
  have hsPdef : preS cfg s r = preS cfg s r := rfl
  generalize hsPe : preS cfg s r = sP at hPout hsP tP jP tPre he tStep hq0
  have hdP : (sP.mods.map (·.uid)).Nodup := hsP.minv.distinct
  have tR := top_readAll ok hfuel reads tP
  have jR : J (readAll cfg reads sP) := readAll_J cfg reads jP
  have dtK := dt_ticks ok hall hfuel tR
  have q : QuietTo cfg (readAll cfg reads sP) (ticks cfg (readAll cfg reads sP)) :=
    ⟨ticks_nest cfg _, top_ticks ok hfuel tR, ticks_J cfg jR, qa_ticks cfg _,
      fun k => quiet_of_QE (ticks_QE cfg (tag_cp cfg k) (ctl_cp k) _),
      ticks_info cfg _ ((readAll_usub cfg reads sP).nodup hdP), dtK.dep, tStep⟩
  obtain ⟨E1, hE1⟩ := readAll_out ok hfuel reads sP tP
  obtain ⟨E2, hE2, _, _⟩ := q.nest.ext
  have hE : (ticks cfg (readAll cfg reads sP)).out = sP.out ++ (E1 ++ E2) := by rw [hE2, hE1, List.append_assoc]
  have hevs : evs = E1 ++ E2 := by
    have : s.out ++ evs = s.out ++ (E1 ++ E2) := by rw [← he, hE, hq0]
    exact List.append_cancel_left this
  obtain ⟨X0, hX0, hgs0⟩ := goStart_ext cfg (preAcc a r) (preW a r) []
  have inv0 : Inv cfg (goStart cfg (preAcc a r) (preW a r) []) sP := by
    rw [hgs0]; exact ⟨sim_coreExt hsP (Spec.applyDepartures_coreExt hX0 []), tP, jP, tPre⟩
  have hn0 := goStart_nil_c14 cfg (preAcc a r) (preW a r) hnAcc
  unfold roundRest
  apply roundEnd_c14
  rcases readAll_go ok hfuel hperm hmt reads (goStart cfg (preAcc a r) (preW a r) []) sP (ticks cfg (readAll cfg reads sP))
      (E1 ++ E2) (reads.length + (Spec.splitRd (E1 ++ E2)).2.length + 1) inv0 hwf' (by omega) q hE with
      ⟨hnoE, hid, hskip⟩ | ⟨hp1, hp2, _, _⟩
  · -- no frame was read in this round: the whole round is the periodic section
    have hs2 : Spec.splitRd (E1 ++ E2) = (E1 ++ E2, []) := splitRd_none _ hnoE
    rw [hevs, hs2]
    simp only [List.length_nil, Nat.add_zero]
    rw [preSt_nil]
    refine (go_nil_ext cfg reads _ _).noErr (by simp) ?_
    -- the frames of the round are pending on connections that are in the table: there is none
    have hreads0 : reads = [] := by
      cases hr0 : reads with
      | nil => rfl
      | cons rd rest =>
        exfalso
        have hmem : rd ∈ reads := by rw [hr0]; simp
        have h1 := hskip rd hmem
        rw [hreadsDef] at hmem
        have h2 := (List.mem_filter.mp hmem).2
        obtain ⟨m0, hm0⟩ := Option.isSome_iff_exists.mp h2
        have : sP.find rd.uid = some m0 := by
          rw [← hsPe]
          unfold preS
          dsimp only
          have hacc : (acceptStep cfg (envStep s r)).find rd.uid = some m0 := by
            unfold acceptStep logAt
            have : ¬ (20 ≥ cfg.logLevel) := by omega
            simp only [this, if_false]
            unfold State.find
            rw [List.find?_append]
            unfold State.find at hm0
            rw [hm0]; rfl
          split
          · show (if r.accept then acceptStep cfg (envStep s r) else envStep s r).find rd.uid = some m0
            split
            · exact hacc
            · exact hm0
          · exact hm0
        rw [this] at h1; cases h1
    -- hence the writable set of the clause is the one the periodic section ran with
    have hwP : (preAcc a r).w.filter ((preW a r).contains ·) = preW a r := by
      have hpr : preReads a r = [] := by rw [hreads, hreads0]
      unfold preW
      dsimp only
      have hpr' : r.reads.filter (fun rd => (((envA a r).mods.filter (·.alive)).map (·.uid)).contains rd.uid) = [] := hpr
      rw [hpr']
      simp only [List.isEmpty_nil, Bool.not_true, Bool.or_false, if_true]
      cases hacc : r.accept with
      | true => simp
      | false =>
        simp only [Bool.false_eq_true, if_false]
        have : preAcc a r = envA a r := by unfold preAcc; simp [hacc]
        rw [this]
        exact List.filter_eq_self.mpr (fun x hx => List.contains_iff_mem.mpr hx)
    rw [hwP]
    have heT : (ticks cfg sP).out = s.out ++ (E1 ++ E2) := by rw [← hid, hE, hq0]
    have hsimA : SimM cfg (Spec.applyDepartures ({ preAcc a r with w := preW a r } : A) (E1 ++ E2)) (ticks cfg sP) := by
      have hn' : Nest sP (ticks cfg sP) := ticks_nest cfg sP
      exact sim_quiet hsP tP.aopen (top_ticks ok hfuel tP).aopen hn' (ticks_J cfg jP) (E1 ++ E2) (by rw [heT, hq0])
    have ctT : CT cfg s (ticks cfg sP) :=
      (ct_top tP hq0).bind (fun h' => ct_ticks ok hall hfuel h') (Or.inr (noClose_of_out hq0))
    unfold goStartU preU
    simp only [List.isEmpty_nil, if_true]
    generalize hXc : ({ preAcc a r with w := preW a r } : A).chk
      ((closes (E1 ++ E2)).isEmpty || !(wfails (E1 ++ E2)).isEmpty) "C07"
      "a connection was closed before any frame was read in this round" = Xc
    have hXe : ErrExt ["C07"] ({ preAcc a r with w := preW a r } : A) Xc := by
      rw [← hXc]; exact errExt_chk _ _ _ _ _ (by simp)
    have hno : checkNoticeOrigin cfg Xc none (E1 ++ E2) = Xc := by
      refine noticeOrigin_pre ok inv.sim r true (E1 ++ E2) ?_ Xc hXe.mods
      show (ticks cfg (preS cfg s r)).out = _
      rw [hsPe]; exact heT
    rw [hno]
    have hdep : ErrExt ["C07"] Xc (checkDeparturesAny cfg Xc (some ((preAcc a r).w ++ preW a r)) none (E1 ++ E2)) := by
      refine errExt_any (checkDepartures_c14 cfg _ none (E1 ++ E2)
        (dep_c14_end hsimA ctT.top.aopen (E1 ++ E2) ?_ ?_ ?_ (fun o d U hU => ?_)))
      · rw [applyDepartures_map, applyDepartures_map]
        show List.map _ Xc.mods = List.map _ (preAcc a r).mods
        rw [hXe.mods]
      · rw [(applyDepartures_core _ (E1 ++ E2)).2.2.1, hXe.w]
      · rw [(applyDepartures_core _ (E1 ++ E2)).2.1, hXe.fail]
      · obtain ⟨ext, oe, p⟩ := ctT.cnt o d U hU
        have : ext = E1 ++ E2 := List.append_cancel_left (oe.symm.trans heT)
        rw [← this]; exact p
    show NoErr "C14" (applyDepartures (checkDeparturesAny cfg Xc (some ((preAcc a r).w ++ preW a r)) none (E1 ++ E2)) (E1 ++ E2))
    exact noErr_applyDepartures _ (hdep.noErr (by simp) (hXe.noErr (by simp) hnAcc))
  · -- at least one frame was read
    have := readAll_go_c14 ok hfuel hperm hmt reads (goStart cfg (preAcc a r) (preW a r) []) sP
      (ticks cfg (readAll cfg reads sP)) (E1 ++ E2) (reads.length + (Spec.splitRd (E1 ++ E2)).2.length + 1)
      inv0 hwf' (by omega) q (Or.inr rfl) hE hn0
    rw [hevs, preSt_ne a r hp2, preU_ne a r hp2, goStartU_none]
    have hpre : (Spec.splitRd (E1 ++ E2)).1 = [] := hp1
    rw [hpre]
    exact this

end round

section hist
variable {cfg : Cfg} (ok : CfgOK cfg) (hfuel : cfg.fuel = 0) (hperm : OrdPerm cfg) (hmt : cfg.mtClosed ≠ cfg.allTypes)
  (hlog : 20 < cfg.logLevel)
include ok hfuel hperm hmt hlog

/-- the rounds of a history, one after the other -/
theorem rounds_c14 : ∀ (rs : List Round) (a : A) (s : State), Inv cfg a s → RoundsWF rs → NoErr "C14" a →
    NoErr "C14" ((List.zip rs (modelRounds cfg s rs)).foldl (fun a p => Spec.round cfg a p.1 p.2) a)
  | [], _, _, _, _, hn => hn
  | r :: rs, a, s, inv, hwf, hn => by
    have hr : RoundWF r := hwf r (by simp)
    obtain ⟨evs, hevs⟩ := step_out ok hfuel inv r hr
    have hre : roundEvents cfg s r = evs := by
      unfold roundEvents; rw [hevs, List.drop_left]
    obtain ⟨inv1, _⟩ := round_ok ok hfuel hperm hmt inv r hr evs hevs
    have h1 := round_c14 ok hfuel hperm hmt hlog inv r hr evs hevs hn
    simp only [modelRounds, List.zip_cons_cons, List.foldl_cons, hre]
    exact rounds_c14 rs (Spec.round cfg a r evs) (step cfg s r) inv1 (fun x hx => hwf x (by simp [hx])) h1

end hist

end Pyrtma.Mgr
