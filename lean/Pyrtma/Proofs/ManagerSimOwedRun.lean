import Pyrtma.Proofs.ManagerSimOwedSeg
import Pyrtma.Proofs.ManagerSimOrigin
/-!
# C14 through the reading loop of a round

`Spec.roundBody.go` — the Spec's loop over the frames of a round and the segments of the model's events — adds no C14
entry: per frame the two clauses evaluated before `segment` return their argument (`checkNoticeOrigin`:
`ManagerSimOrigin.lean`; `checkLoggerWaited`: `loggerWaited_ok`) and `segment` adds none (`segment_c14`).
The stretch before the first read of a round, a whole round and a whole run: `ManagerSimOwedPre.lean`.
-/
namespace Pyrtma.Mgr
open Spec

section loop
variable {cfg : Cfg} (ok : CfgOK cfg) (hfuel : cfg.fuel = 0) (hperm : OrdPerm cfg) (hmt : cfg.mtClosed ≠ cfg.allTypes)
include ok hfuel hperm

/-- the two C14 clauses evaluated before `segment` return their argument -/
theorem preSeg_id {a : A} {s : State} (inv : Inv cfg a s) (rd : Read) (hu0 : rd.uid ≠ 0) (m : Module)
    (hm : s.find rd.uid = some m) (s2 : State) (q : QuietTo cfg (readOne cfg s rd) s2)
    (hq : s2 = readOne cfg s rd ∨ s2 = ticks cfg (readOne cfg s rd))
    (evs : List Ev) (he : s2.out = s.out ++ Ev.rd rd.uid :: evs) : Spec.preSeg cfg a rd evs = a := by
  unfold Spec.preSeg
  have h1 : Spec.checkNoticeOrigin cfg a (some rd) evs = a := by
    rcases hq with e | e
    · exact noticeOrigin_frame ok inv.sim rd hu0 false evs (by rw [← e]; exact he) a rfl
    · exact noticeOrigin_frame ok inv.sim rd hu0 true evs (by rw [← e]; exact he) a rfl
  rw [h1]
  exact loggerWaited_ok ok hfuel hperm inv rd hu0 m hm s2 q evs he a rfl rfl

include hmt

theorem readAll_go_c14 : ∀ (reads : List Read) (a : A) (s sQ : State) (E : List Ev) (fuel : Nat),
    Inv cfg a s → (∀ rd ∈ reads, rd.uid ≠ 0) → reads.length ≤ fuel →
    QuietTo cfg (readAll cfg reads s) sQ →
    (sQ = readAll cfg reads s ∨ sQ = ticks cfg (readAll cfg reads s)) → sQ.out = s.out ++ E →
    NoErr "C14" a → NoErr "C14" (Spec.roundBody.go cfg a reads (Spec.splitRd E).2 fuel)
  | [], a, s, sQ, E, fuel, _, _, _, q, _, he, hn => by
    obtain ⟨E', hE', hno, _⟩ := q.nest.ext
    have : E' = E := List.append_cancel_left (hE'.symm.trans he)
    subst this
    rw [splitRd_none E' hno, go_nil]; exact hn
  | rd :: rest, a, s, sQ, E, 0, _, _, hlen, _, _, _, _ => by simp at hlen
  | rd :: rest, a, s, sQ, E, fuel + 1, inv, hwf, hlen, q, hQ, he, hn => by
    have hu0 : rd.uid ≠ 0 := hwf rd (by simp)
    have hwf' : ∀ x ∈ rest, x.uid ≠ 0 := fun x hx => hwf x (by simp [hx])
    have hlen' : rest.length ≤ fuel := by simp at hlen; omega
    rw [readAll_cons] at q hQ
    cases hm : s.find rd.uid with
    | none =>
      rw [readOne_skip cfg s rd hm] at q hQ
      have hdead : a.live rd.uid = none := by
        cases hl : a.live rd.uid with
        | none => rfl
        | some x =>
          have := (inv.sim.live rd.uid hu0).mp (by simp [hl])
          rw [hm] at this; cases this
      rw [go_skip cfg a rd rest _ fuel hdead]
      exact readAll_go_c14 rest a s sQ E fuel inv hwf' hlen' q hQ he hn
    | some m =>
      obtain ⟨am, ham⟩ := Option.isSome_iff_exists.mp ((inv.sim.live rd.uid hu0).mpr (by simp [hm]))
      have t1 : Top cfg (readOne cfg s rd) := top_readOne ok hfuel inv.top rd
      have j1 : J (readOne cfg s rd) := readOne_J cfg inv.j rd
      obtain ⟨E1, hE1, hno1⟩ := readOne_evt cfg s rd inv.top.good.ok m hm
      obtain ⟨E2a, hE2a⟩ := readAll_out ok hfuel rest (readOne cfg s rd) t1
      obtain ⟨E2b, hE2b, _, _⟩ := q.nest.ext
      have hE2 : sQ.out = (readOne cfg s rd).out ++ (E2a ++ E2b) := by rw [hE2b, hE2a, List.append_assoc]
      have hE : E = Ev.rd rd.uid :: E1 ++ (E2a ++ E2b) := by
        have : s.out ++ E = s.out ++ (Ev.rd rd.uid :: E1 ++ (E2a ++ E2b)) := by
          rw [← he, hE2, hE1]; simp
        exact List.append_cancel_left this
      have tt1 : T (readOne cfg s rd) :=
        T_of_A inv.t (ta_readOne ok hmt (ordOK_of_perm hperm) hfuel inv.top rd).2
      have q1 := quietTo_refl t1 j1 tt1
      have hp1 := preSeg_id ok hfuel hperm inv rd hu0 m hm (readOne cfg s rd) q1 (Or.inl rfl) E1 hE1
      have hx := segment_ok ok hfuel hperm inv rd hu0 m hm (readOne cfg s rd) q1 E1 hE1
      have hn1 := segment_c14 ok hfuel hperm inv rd hu0 m hm (readOne cfg s rd) q1 (Or.inl rfl) E1 hE1 hn
      rcases readAll_go ok hfuel hperm hmt rest (Spec.segment cfg a rd E1) (readOne cfg s rd) sQ
          (E2a ++ E2b) fuel ⟨hx.1.sim, hx.1.top, hx.1.j, hx.1.t⟩ hwf' hlen' q hE2 with ⟨h1, h2, _⟩ | ⟨h1, _, _, _⟩
      · -- the last frame handled in this round: the continuation's events belong to its segment
        rw [h2] at q hQ
        have hsplit : Spec.splitRd E = ([], [(rd.uid, E1 ++ (E2a ++ E2b))]) := by
          rw [hE, List.cons_append, splitRd_cons, splitRd_none (E1 ++ (E2a ++ E2b))]
          intro u hu
          rcases List.mem_append.mp hu with h | h
          · exact hno1 u h
          · exact h1 u h
        have heT : sQ.out = s.out ++ Ev.rd rd.uid :: (E1 ++ (E2a ++ E2b)) := by rw [he, hE]; simp
        have hpT := preSeg_id ok hfuel hperm inv rd hu0 m hm sQ q hQ (E1 ++ (E2a ++ E2b)) heT
        have hnT := segment_c14 ok hfuel hperm inv rd hu0 m hm sQ q hQ (E1 ++ (E2a ++ E2b)) heT hn
        rw [hsplit, go_take cfg a rd rest _ [] fuel am ham, hpT]
        exact (go_nil_ext cfg rest _ fuel).noErr (by simp) hnT
      · have hsplit : Spec.splitRd E = ([], (rd.uid, E1) :: (Spec.splitRd (E2a ++ E2b)).2) := by
          rw [hE, List.cons_append, splitRd_cons, splitRd_append E1 _ hno1, h1]; simp
        rw [hsplit, go_take cfg a rd rest E1 _ fuel am ham, hp1]
        exact readAll_go_c14 rest (Spec.segment cfg a rd E1) (readOne cfg s rd) sQ (E2a ++ E2b) fuel
          ⟨hx.1.sim, hx.1.top, hx.1.j, hx.1.t⟩ hwf' hlen' q hQ hE2 hn1

end loop

/-! ## the end of a round -/

theorem roundEnd_c14 (cfg : Cfg) (a : A) (pre : List Ev) (segs : List (Nat × List Ev)) (hn : NoErr "C14" a) :
    NoErr "C14" (roundEnd cfg a pre segs) := by
  unfold roundEnd
  extract_lets b lastEvs
  have hb : CoreExt ["C18"] a b := by
    simp only [b]; split
    · exact CoreExt.refl _ _
    · exact (coreExt_foldl [] _ (fun x y => noteMgrFrames_ext cfg x y) _ _).mono (by simp)
  exact (hb.trans (tail_ext cfg b lastEvs)).noErr (by simp) hn

end Pyrtma.Mgr
