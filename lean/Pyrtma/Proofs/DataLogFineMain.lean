import Pyrtma.Proofs.DataLogFineR
import Pyrtma.Proofs.DataLogFineW
/-!
# The fine-granularity invariant along every schedule, and what it says at the end of a session
-/
set_option linter.unusedSimpArgs false
set_option linter.unusedVariables false

namespace Pyrtma.DataLog.Fine

variable {c : Cfg} {all : List RecOp}

theorem not_over {s : State} (h : s.over = false) :
    s.rpc ≠ .done ∧ s.rpc ≠ .raisedT ∧ s.rpc ≠ .raisedIO ∧ rcls s.rpc ≠ .raised := by
  unfold State.over at h
  cases hr : s.rpc <;> simp_all [rcls]

theorem step_inv (s : State) (t : Tid) (h : Inv c all s) : Inv c all (step c s t) := by
  unfold step
  cases ho : s.over
  · simp only [Bool.false_eq_true, if_false]
    cases t
    · exact stepR_inv h
    · exact stepW_inv h (not_over ho).2.2.2
  · simpa using h

theorem foldl_inv (sched : List Tid) : ∀ s, Inv c all s → Inv c all (sched.foldl (step c) s) := by
  induction sched with
  | nil => intro s h; exact h
  | cons t ts ih => intro s h; exact ih _ (step_inv s t h)

theorem run_inv (c : Cfg) (ops : List RecOp) (sched : List Tid) : Inv c ops (run c ops sched) :=
  foldl_inv sched _ (inv_init c ops)

/-- what the invariant says once `stop()` has returned -/
theorem Inv.at_done {s : State} (h : Inv c all s) (hd : s.rpc = .done) (i : Nat) (hi : i < c.n) :
    (s.ds i).written = accepted (c.sel i) false all := by
  have hc := h.compat
  unfold Fine.compat at hc
  have hwd : s.wpc ≠ .dead := by
    intro hw; simp [hw, hd, rcls, wcls, compatC, RC.safe?] at hc
  have h1 := h.data hwd (by simp [hd]) (by simp [hd]) i hi
  have h2 := h.opsNil (by simp [hd, inStop])
  have h3 := h.rbufNil i hi (by simp [hd, rcls, stagedByStop])
  unfold dataEq at h1
  simpa [pend, hd, h3, curPart, notYet, h2, accepted] using h1

/-- a dead writer keeps `stop()` from ever returning normally -/
theorem Inv.done_not_dead {s : State} (h : Inv c all s) (hd : s.rpc = .done) : s.wpc ≠ .dead := by
  have hc := h.compat
  unfold Fine.compat at hc
  intro hw; simp [hw, hd, rcls, wcls, compatC, RC.safe?] at hc


/-! ### a failed file-system operation is never silent -/

/-- some file-system operation performed so far was made to fail -/
def fired (c : Cfg) (s : State) : Prop := ∃ k, k < s.ioc ∧ c.fault k = true

/-- … then the thread that performed it has been stopped by the exception -/
def Told (c : Cfg) (s : State) : Prop := fired c s → s.wpc = .dead ∨ s.rpc = .raisedIO

theorem callStep_fail (k : Kind) (d : Ds) (cl : Call) (h : cl.isIo = true) : callStep k true d cl = .exc := by
  unfold callStep
  cases hp : cl.pc <;> simp_all [Call.isIo]
  · split <;> simp
  · split <;> simp

theorem fired_succ {s : State} {n : Nat} (h : ∃ k, k < n + 1 ∧ c.fault k = true) (hn : c.fault n = false) :
    ∃ k, k < n ∧ c.fault k = true := by
  obtain ⟨k, hk, hf⟩ := h
  refine ⟨k, ?_, hf⟩
  rcases Nat.lt_succ_iff_lt_or_eq.1 hk with h1 | h1
  · exact h1
  · subst h1; rw [hn] at hf; cases hf

theorem told_stepR (s : State) (h : Told c s) : Told c (stepR c s) := by
  unfold Told fired at h ⊢
  cases hr : s.rpc with
  | sCall i =>
    simp only [stepR, hr]
    cases hio : s.rcall.isIo
    · simp only [Bool.false_eq_true, if_false]
      split <;> intro hf <;> rcases h hf with h1 | h1 <;> simp_all
    · simp only [if_true]
      cases hfl : c.fault s.ioc
      · split <;> intro hf <;> rcases h (fired_succ (s := s) hf hfl) with h1 | h1 <;> simp_all
      · rw [callStep_fail _ _ _ hio]; intro _; simp
  | sClose i =>
    simp only [stepR, hr]
    cases hfl : c.fault s.ioc
    · simp only [Bool.false_eq_true, if_false]
      intro hf; rcases h (fired_succ (s := s) hf hfl) with h1 | h1 <;> simp_all
    · simp only [if_true]; intro _; simp
  | uAlive =>
    simp only [stepR, hr]
    split <;> intro hf <;> rcases h hf with h1 | h1 <;> simp_all
  | uAppend i =>
    simp only [stepR, hr]
    split <;> intro hf <;> rcases h hf with h1 | h1 <;> simp_all
  | idle =>
    simp only [stepR, hr]
    split
    · intro hf; rcases h hf with h1 | h1 <;> simp_all
    · rename_i op rest ho
      cases op <;> simp only <;> (try split) <;> intro hf <;> rcases h hf with h1 | h1 <;> simp_all
  | uIsSet =>
    simp only [stepR, hr]
    split <;> intro hf <;> rcases h hf with h1 | h1 <;> simp_all
  | _ =>
    simp only [stepR, hr]
    intro hf; rcases h hf with h1 | h1 <;> simp_all


theorem told_stepW (s : State) (h : Told c s) : Told c (stepW c s) := by
  unfold Told fired at h ⊢
  cases hw : s.wpc with
  | call i =>
    simp only [stepW, hw]
    cases hio : s.wcall.isIo
    · simp only [Bool.false_eq_true, if_false]
      split <;> intro hf <;> rcases h hf with h1 | h1 <;> simp_all
    · simp only [if_true]
      cases hfl : c.fault s.ioc
      · split <;> intro hf <;> rcases h (fired_succ (s := s) hf hfl) with h1 | h1 <;> simp_all
      · rw [callStep_fail _ _ _ hio]; intro _; simp
  | dCall i =>
    simp only [stepW, hw]
    cases hio : s.wcall.isIo
    · simp only [Bool.false_eq_true, if_false]
      split <;> intro hf <;> rcases h hf with h1 | h1 <;> simp_all
    · simp only [if_true]
      cases hfl : c.fault s.ioc
      · split <;> intro hf <;> rcases h (fired_succ (s := s) hf hfl) with h1 | h1 <;> simp_all
      · rw [callStep_fail _ _ _ hio]; intro _; simp
  | dClose i =>
    simp only [stepW, hw]
    cases hfl : c.fault s.ioc
    · simp only [Bool.false_eq_true, if_false]
      intro hf; rcases h (fired_succ (s := s) hf hfl) with h1 | h1 <;> simp_all
    · simp only [if_true]; intro _; simp
  | dOpen i =>
    simp only [stepW, hw]
    cases hfl : c.fault s.ioc
    · simp only [Bool.false_eq_true, if_false]
      intro hf; rcases h (fired_succ (s := s) hf hfl) with h1 | h1 <;> simp_all
    · simp only [if_true]; intro _; simp
  | dCtor i k =>
    simp only [stepW, hw]
    split
    · intro _; simp
    · cases hfl : c.fault s.ioc
      · simp only [Bool.or_false]
        split <;> intro hf <;> rcases h (fired_succ (s := s) hf hfl) with h1 | h1 <;> simp_all
      · simp only [Bool.or_true, if_true]; intro _; simp
  | wait =>
    simp only [stepW, hw]
    split <;> intro hf <;> rcases h hf with h1 | h1 <;> simp_all
  | dead => simp only [stepW, hw]; intro _; simp
  | _ =>
    simp only [stepW, hw]
    intro hf; rcases h hf with h1 | h1 <;> simp_all

theorem told_step (s : State) (t : Tid) (h : Told c s) : Told c (step c s t) := by
  unfold step
  split
  · exact h
  · cases t
    · exact told_stepR s h
    · exact told_stepW s h

theorem run_told (c : Cfg) (ops : List RecOp) (sched : List Tid) : Told c (run c ops sched) := by
  unfold run
  have : ∀ (l : List Tid) s, Told c s → Told c (l.foldl (step c) s) := by
    intro l
    induction l with
    | nil => intro s h; exact h
    | cons t ts ih => intro s h; exact ih _ (told_step s t h)
  apply this
  intro ⟨k, hk, _⟩
  simp [init] at hk


/-! ### without file-system failures nothing raises -/

def NoExc (s : State) : Prop := s.wpc ≠ .dead ∧ s.rpc ≠ .raisedT ∧ s.rpc ≠ .raisedIO

theorem ioOk_open (fo : FileObj) (op : IoOp) (h1 : fo.closed = false) (h2 : fo.tclosed = false) :
    ioOk fo op = true := by
  cases op <;> simp [ioOk, h1, h2]

theorem callStep_noexc (k : Kind) (d : Ds) (cl : Call) (hok : callOk k cl = true)
    (h1 : (d.files cl.f).closed = false) (h2 : (d.files cl.f).tclosed = false) :
    callStep k false d cl ≠ .exc := by
  intro he
  have := callStep_spec k false d cl hok
  rw [he] at this
  rcases this with h | ⟨op, _, h⟩
  · cases h
  · rw [ioOk_open _ _ h1 h2] at h; cases h

theorem stepW_noexc {s : State} (hnf : ∀ k, c.fault k = false) (h : Inv c all s) (hno : rcls s.rpc ≠ .raised)
    (hn : NoExc s) : NoExc (stepW c s) := by
  obtain ⟨h1, h2, h3⟩ := hn
  refine ⟨?_, by cases hw : s.wpc <;> simp [stepW, hw] <;> (repeat' split) <;> simp_all,
    by cases hw : s.wpc <;> simp [stepW, hw] <;> (repeat' split) <;> simp_all⟩
  cases hw : s.wpc with
  | call i =>
    have hcl : wcls s.wpc = .ds i false := by rw [hw]; rfl
    have hf := fileOk_of h hno hcl
    have hl := h.wloc
    simp only [WLoc, hw] at hl
    simp only [hw, subPh, FileOk] at hf
    have := callStep_noexc (c.kind i) (s.ds i) s.wcall hl.2.2.1 (by rw [hl.1]; exact hf.2.2.1)
      (by rw [hl.1]; exact hf.2.2.2 trivial)
    simp only [stepW, hw, hnf]
    split <;> simp_all
  | dCall i =>
    have hcl : wcls s.wpc = .ds i true := by rw [hw]; rfl
    have hf := fileOk_of h hno hcl
    have hl := h.wloc
    simp only [WLoc, hw] at hl
    simp only [hw, subPh, FileOk] at hf
    have := callStep_noexc (c.kind i) (s.ds i) s.wcall hl.2.2 (by rw [hl.1]; exact hf.2.2.1)
      (by rw [hl.1]; exact hf.2.2.2 trivial)
    simp only [stepW, hw, hnf]
    split <;> simp_all
  | dCtor i k =>
    have hcl : wcls s.wpc = .ds i true := by rw [hw]; rfl
    have hf := fileOk_of h hno hcl
    have hl := h.wloc
    simp only [WLoc, hw] at hl
    simp only [hw, subPh, FileOk, if_true] at hf
    have hok : ioOk ((s.ds i).files s.wfd) (ctorOps (c.kind i))[k] = true := by
      rw [hl.1]; exact ioOk_open _ _ hf.2.2.1 hf.2.2.2
    simp only [stepW, hw, hnf]
    rw [List.getElem?_eq_getElem hl.2]
    simp only [Bool.or_false, hok]
    simp
    split <;> simp
  | dClose i => simp [stepW, hw, hnf]
  | dOpen i => simp [stepW, hw, hnf]
  | wait =>
    simp only [stepW, hw]
    split
    · simp only [firstW]; split <;> simp
    · exact h1
  | stopGet i => simp only [stepW, hw]; split <;> simp [nextW] <;> split <;> simp
  | flagGet i => simp only [stepW, hw]; split <;> simp [nextW] <;> split <;> simp
  | dFmtSet i => simp only [stepW, hw, nextW]; split <;> simp
  | dFdGet3 i => simp only [stepW, hw]; split <;> simp
  | dead => exact absurd hw h1
  | _ => simp [stepW, hw]


theorem scan_not_raised (s1 : State) (i : Nat) (b : Bool) :
    scanFrom c s1 i b ≠ .raisedT ∧ scanFrom c s1 i b ≠ .raisedIO := by
  have := (scanFrom_spec c s1 i b).safe
  constructor <;> intro h <;> rw [h] at this <;> simp [rcls] at this

theorem stepR_noexc {s : State} (hnf : ∀ k, c.fault k = false) (h : Inv c all s) (hn : NoExc s) :
    NoExc (stepR c s) := by
  obtain ⟨h1, h2, h3⟩ := hn
  refine ⟨by cases hr : s.rpc <;> simp [stepR, hr] <;> (repeat' split) <;> simp_all, ?_⟩
  cases hr : s.rpc with
  | sCall j =>
    have hj : j < c.n := h.ridx j (by simp [hr, rIdx])
    have hpl := plain_of_unsafe h (by simp [hr, rcls, RC.safe?]) (by simp [hr, rcls]) (by simp [hr, rcls])
    have hw' : s.wpc = .wait ∨ s.wpc = .clrTD := by rcases hpl with e | e <;> simp [e.1]
    have hfo := fileOk_own h j hj hw' (by simp [hr, rcls, closedByStop])
    simp only [FileOk, hr, rFin] at hfo
    have hl := h.rloc
    simp only [RLoc, hr] at hl
    have := callStep_noexc (c.kind j) (s.ds j) s.rcall hl.2.2 (by rw [hl.1]; exact hfo.2.2.1)
      (by rw [hl.1]; exact hfo.2.2.2 (by simp))
    simp only [stepR, hr, hnf]
    split <;> simp_all
  | sClose j => simp only [stepR, hr, hnf]; simp [nextS]; split <;> simp
  | uAlive =>
    simp only [stepR, hr, h1, if_false]
    exact scan_not_raised _ 0 false
  | uAppend j =>
    simp only [stepR, hr]
    split
    · exact scan_not_raised _ j true
    · simp [hr]
  | uFlag j => simp only [stepR, hr]; exact scan_not_raised _ (j + 1) false
  | sAlive => simp [stepR, hr, h1]
  | idle =>
    simp only [stepR, hr]
    split
    · simp
    · rename_i op rest ho
      cases op <;> simp only <;> (try split) <;> simp_all
  | uIsSet => simp only [stepR, hr, firstUStage]; split <;> (try split) <;> simp
  | uStage j => simp only [stepR, hr, nextUStage]; split <;> simp
  | sIsSet => simp only [stepR, hr]; split <;> simp
  | sWait => simp only [stepR, hr]; split <;> (try split) <;> simp
  | sClrFin => simp only [stepR, hr, firstS]; split <;> simp
  | raisedT => exact absurd hr h2
  | raisedIO => exact absurd hr h3
  | _ => simp [stepR, hr]

theorem step_noexc {s : State} (t : Tid) (hnf : ∀ k, c.fault k = false) (h : Inv c all s) (hn : NoExc s) :
    NoExc (step c s t) := by
  unfold step
  cases ho : s.over
  · simp only [Bool.false_eq_true, if_false]
    cases t
    · exact stepR_noexc hnf h hn
    · exact stepW_noexc hnf h (not_over ho).2.2.2 hn
  · simpa using hn

theorem run_noexc (c : Cfg) (ops : List RecOp) (sched : List Tid) (hnf : ∀ k, c.fault k = false) :
    NoExc (run c ops sched) := by
  unfold run
  have : ∀ (l : List Tid) s, Inv c ops s → NoExc s → NoExc (l.foldl (step c) s) := by
    intro l
    induction l with
    | nil => intro s _ h; exact h
    | cons t ts ih => intro s hi h; exact ih _ (step_inv s t hi) (step_noexc t hnf hi h)
  exact this sched _ (inv_init c ops) (by simp [NoExc, init])


theorem firedB_iff (c : Cfg) (s : State) : firedB c s = true ↔ fired c s := by
  simp [firedB, fired, List.any_eq_true]

/-- mutual exclusion: while the writer is anywhere inside `ds[k].write()`, the recorder is at a place where
it touches neither `wbuf` nor the file objects of any data set, and the events say "write in progress" -/
theorem Inv.excl {s : State} (h : Inv c all s) (ho : s.over = false) (k : Nat) (hk : wIdx s.wpc = some k) :
    rcls s.rpc = .safe ∧ s.td = true ∧ s.fin = false ∧ k < c.n := by
  have hcl : ∃ b, wcls s.wpc = .ds k b := by
    cases hw : s.wpc <;> simp_all [wIdx, wcls]
  obtain ⟨b, hcl⟩ := hcl
  obtain ⟨h1, h2, h3⟩ := safe_of_wds h.compat (not_over ho).2.2.2 hcl
  exact ⟨h1, h2, h3, h.widx k hk⟩

/-- … and conversely: while `stop()` finishes the data sets (or `trigger_write` swaps the buffers) the writer is
parked at `write_to_disk.wait()` or at its final `write_to_disk.clear()` -/
theorem Inv.excl' {s : State} (h : Inv c all s) (ho : s.over = false) (hu : (rcls s.rpc).safe? = false) :
    s.wpc = .wait ∨ s.wpc = .clrTD := by
  have hn := not_over ho
  have := plain_of_unsafe h hu hn.2.2.2 (by intro hd; cases hr : s.rpc <;> simp_all [rcls])
  rcases this with e | e
  · exact Or.inl e.1
  · exact Or.inr e.1

/-- `stop()` can only be kept waiting by a writer that is busy — or dead -/
theorem Inv.wait_reason {s : State} (h : Inv c all s) (hr : waiting s.rpc = true) :
    s.fin = true ∨ (s.td = true ∧ s.wpc ≠ .clrTD ∧ s.wpc ≠ .wait ∨ s.td = true ∧ s.wpc = .wait ∧ s.fin = false) := by
  have hc := h.compat
  unfold Fine.compat at hc
  rw [waiting_safe _ hr, hr] at hc
  cases hw : s.wpc <;> simp_all [compatC, wcls, RC.safe?] <;> cases htd : s.td <;> simp_all


/-! ### the batch a formatter method works on is stable -/

/-- steps of the recorder in a safe place leave alone everything of a data set but the list `rbuf` refers to and the
sub-division bookkeeping -/
theorem stepR_safe_dsSame {s : State} (h : Inv c all s) (hcl : rcls s.rpc = .safe) (i : Nat) (hi : i < c.n) :
    DsSame (s.ds i) ((stepR c s).ds i) := by
  have hrw := h.rbwb i hi
  cases hr : s.rpc <;> simp [hr, rcls] at hcl
  · -- idle
    simp only [stepR, hr]
    split
    · exact DsSame.refl _
    · rename_i op rest ho
      cases op <;> simp only <;> (try split) <;> exact DsSame.refl _
  · simp only [stepR, hr]; split <;> exact DsSame.refl _
  · -- uAppend
    rename_i j
    simp only [stepR, hr]
    split
    · by_cases hij : i = j
      · subst hij
        simp only [setDs_same]
        exact ⟨rfl, rfl, rfl, rfl, rfl, rfl, upd_other _ _ (by omega)⟩
      · simp only [setDs_other _ _ hij]; exact DsSame.refl _
    · exact DsSame.refl _
  · -- uFlag
    rename_i j
    simp only [stepR, hr]
    by_cases hij : i = j
    · subst hij; simp only [setDs_same]; exact ⟨rfl, rfl, rfl, rfl, rfl, rfl, rfl⟩
    · simp only [setDs_other _ _ hij]; exact DsSame.refl _
  · simp only [stepR, hr]; split <;> exact DsSame.refl _
  · simp only [stepR, hr]; exact DsSame.refl _
  · simp only [stepR, hr]; exact DsSame.refl _
  · simp only [stepR, hr]; exact DsSame.refl _

/-- **The batch the writer's formatter method iterates is not touched by the recorder**: while the writer is inside
`formatter.write(wbuf)` or `formatter.finalize(wbuf)` for data set `i`, a step of the recording thread leaves the list
object the method was called with (and the attribute `wbuf`) as they are — so both passes of the quicklogger
formatter, and the `wbuf.clear()` that follows, see one and the same list. -/
theorem Inv.batch_stable_W {s : State} (h : Inv c all s) (ho : s.over = false) (i : Nat)
    (hw : s.wpc = .call i ∨ s.wpc = .dCall i) :
    ((stepR c s).ds i).lists s.wcall.l = (s.ds i).lists s.wcall.l ∧ ((stepR c s).ds i).wb = (s.ds i).wb ∧
      s.wcall.l = (s.ds i).wb := by
  have hk : wIdx s.wpc = some i := by rcases hw with e | e <;> simp [e, wIdx]
  obtain ⟨hsafe, _, _, hi⟩ := h.excl ho i hk
  have hl : s.wcall.l = (s.ds i).wb := by
    have := h.wloc
    rcases hw with e | e <;> simp only [WLoc, e] at this <;> exact this.2.1
  have := stepR_safe_dsSame h hsafe i hi
  exact ⟨by rw [hl]; exact this.lwb, this.wb, hl⟩

/-- … and conversely the writer does not touch the batch `stop()`'s `finalize` iterates -/
theorem Inv.batch_stable_R {s : State} (h : Inv c all s) (ho : s.over = false) (j : Nat) (hr : s.rpc = .sCall j) :
    (stepW c s).ds = s.ds ∧ s.rcall.l = (s.ds j).wb := by
  have hl : s.rcall.l = (s.ds j).wb := by
    have := h.rloc
    simp only [RLoc, hr] at this; exact this.2.1
  have := h.excl' ho (by simp [hr, rcls, RC.safe?])
  rcases this with e | e
  · refine ⟨?_, hl⟩
    simp only [stepW, e]; split <;> rfl
  · exact ⟨by simp [stepW, e], hl⟩

/-! ### the hang (C17-F3) -/

theorem hung_step (s : State) (t : Tid) (h : s.hung c = true) : (step c s t).hung c = true := by
  simp only [State.hung, Bool.and_eq_true, beq_iff_eq, Bool.not_eq_true'] at h
  obtain ⟨⟨⟨h1, h2⟩, h3⟩, h4⟩ := h
  have ho : s.over = false := by simp [State.over, h1]
  unfold step
  simp only [ho, Bool.false_eq_true, if_false]
  cases t
  · simp [stepR, h1, h2, h4, State.hung, h3]
  · simp [stepW, h3, State.hung, h1, h2, h4]

/-- once `stop()` waits for a dead writer (and does not look at the thread) it waits for ever -/
theorem hung_forever (s : State) (l : List Tid) (h : s.hung c = true) : (l.foldl (step c) s).hung c = true := by
  induction l generalizing s with
  | nil => exact h
  | cons t ts ih => exact ih _ (hung_step s t h)

theorem hung_not_over (s : State) (h : s.hung c = true) : s.over = false := by
  simp only [State.hung, Bool.and_eq_true, beq_iff_eq, Bool.not_eq_true'] at h
  simp [State.over, h.1.1.1]

end Pyrtma.DataLog.Fine
