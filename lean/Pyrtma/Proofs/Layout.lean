import Pyrtma.Spec.Layout
/-! Helper lemmas for C11 / C04 (`no_hidden_padding`).  Core Lean only. -/
namespace Pyrtma.Layout

def Al (a : Nat) : Prop := a = 1 ∨ a = 2 ∨ a = 4 ∨ a = 8

theorem wf_al {f : Fld} (h : f.wf = true) : Al f.align ∧ f.esize % f.align = 0 ∧ f.isPad = false := by
  unfold Fld.wf at h
  simp only [Bool.and_eq_true, Bool.or_eq_true, beq_iff_eq, Bool.not_eq_true'] at h
  exact ⟨by unfold Al; omega, h.1.2, h.2⟩

theorem size_mod {f : Fld} (h : f.wf = true) : f.size % f.align = 0 := by
  have ⟨_, h2, _⟩ := wf_al h
  unfold Fld.size
  exact Nat.mod_eq_zero_of_dvd (Nat.dvd_mul_right_of_dvd (Nat.dvd_of_mod_eq_zero h2) _)

/-- what the leading loop guarantees about its output, for any start `p` -/
structure LeadOK (fs : List Fld) (p : Nat) (r : List (Fld × Nat)) (e : Nat) : Prop where
  aligned : allAligned r = true
  packed  : packed r p = true
  endp    : e = p + sumSizes r
  user    : userFields r = fs
  pads    : padsAreChar r = true
  als     : ∀ q ∈ r, Al q.1.align

theorem padFld_size {n : Nat} (h : 0 < n) : (padFld n).size = n := by
  simp [padFld, Fld.size, Fld.count]; omega

theorem sumSizes_cons (q : Fld × Nat) (r) : sumSizes (q :: r) = q.1.size + sumSizes r := by
  simp [sumSizes]

theorem lead_ok (ap : Bool) : ∀ (fs : List Fld) (p : Nat) r e, wfInput fs = true →
    lead ap fs p = .ok (r, e) → LeadOK fs p r e
  | [], p, r, e, _, h => by
    simp [lead] at h
    obtain ⟨rfl, rfl⟩ := h
    exact ⟨rfl, rfl, by simp [sumSizes], rfl, rfl, by simp⟩
  | f :: fs, p, r, e, hw, h => by
    have hwf : f.wf = true ∧ wfInput fs = true := by simpa [wfInput] using hw
    have ⟨hal, _, hnp⟩ := wf_al hwf.1
    unfold lead at h
    split at h
    · rename_i hp
      split at h
      · rename_i r' e' hr
        have ih := lead_ok ap fs _ r' e' hwf.2 hr
        simp at h; obtain ⟨rfl, rfl⟩ := h
        refine ⟨?_, ?_, ?_, ?_, ?_, ?_⟩
        · simp [allAligned, hp]; simpa [allAligned] using ih.aligned
        · simp [packed]; exact ih.packed
        · rw [ih.endp, sumSizes_cons]; simp only []; omega
        · simp [userFields, hnp]; simpa [userFields] using ih.user
        · simp [padsAreChar, hnp]; simpa [padsAreChar] using ih.pads
        · intro q hq; simp at hq; rcases hq with rfl | hq; exact hal; exact ih.als q hq
      · simp at h
    · split at h
      · simp at h
      · dsimp only at h
        split at h
        · rename_i hp _ r' e' hr
          have ih := lead_ok ap fs _ r' e' hwf.2 hr
          simp at h; obtain ⟨rfl, rfl⟩ := h
          have hpos : 0 < f.align := by unfold Al at hal; omega
          have hlt := Nat.mod_lt p hpos
          have hpadpos : 0 < f.align - p % f.align := by omega
          have hpad : (p + (f.align - p % f.align)) % f.align = 0 := by
            rcases hal with h | h | h | h <;> simp only [h] at * <;> omega
          have hps : (padFld (f.align - p % f.align)).size = f.align - p % f.align := padFld_size hpadpos
          refine ⟨?_, ?_, ?_, ?_, ?_, ?_⟩
          · have := ih.aligned
            simp only [allAligned, List.all_cons, Bool.and_eq_true, beq_iff_eq] at this ⊢
            exact ⟨by simp [padFld]; omega, hpad, this⟩
          · simp only [packed, beq_self_eq_true, Bool.true_and, hps]; exact ih.packed
          · rw [ih.endp, sumSizes_cons, sumSizes_cons]; simp only [hps]; omega
          · simp [userFields, padFld, hnp]; simpa [userFields] using ih.user
          · simp [padsAreChar, padFld, hnp]; simpa [padsAreChar] using ih.pads
          · intro q hq; simp at hq
            rcases hq with rfl | rfl | hq
            · simp [padFld, Al]
            · exact hal
            · exact ih.als q hq
        · simp at h

theorem lead_total : ∀ (fs : List Fld) (p : Nat), ∃ r e, lead true fs p = .ok (r, e)
  | [], p => ⟨[], p, rfl⟩
  | f :: fs, p => by
    unfold lead
    split
    · obtain ⟨r, e, h⟩ := lead_total fs (p + f.size); exact ⟨_, _, by rw [h]⟩
    · obtain ⟨r, e, h⟩ := lead_total fs (p + (f.align - p % f.align) + f.size)
      exact ⟨(padFld (f.align - p % f.align), p) :: (f, p + (f.align - p % f.align)) :: r, e, by simp [h]⟩

/-- without auto-padding the loop succeeds exactly when the auto-padding loop inserts nothing -/
theorem lead_false_iff : ∀ (fs : List Fld) (p : Nat) r e, wfInput fs = true →
    (lead false fs p = .ok (r, e) ↔ (lead true fs p = .ok (r, e) ∧ r.map (·.1) = fs))
  | [], p, r, e, _ => by
    simp [lead]; intro h _; subst h; rfl
  | f :: fs, p, r, e, hw => by
    have hwf : f.wf = true ∧ wfInput fs = true := by simpa [wfInput] using hw
    have ⟨_, _, hnp⟩ := wf_al hwf.1
    unfold lead
    by_cases hp : p % f.align = 0
    · simp only [hp, if_true]
      cases h1 : lead false fs (p + f.size) with
      | error x =>
        cases h2 : lead true fs (p + f.size) with
        | error y => simp
        | ok v =>
          obtain ⟨r', e'⟩ := v
          have hn : ¬ (lead true fs (p + f.size) = .ok (r', e') ∧ r'.map (·.1) = fs) := fun hc => by
            have := (lead_false_iff fs (p + f.size) r' e' hwf.2).mpr hc; simp [h1] at this
          simp; intro hr he hm; subst hr he
          simp at hm; exact hn ⟨h2, hm⟩
      | ok v =>
        obtain ⟨r', e'⟩ := v
        have ⟨h2, hm⟩ := (lead_false_iff fs (p + f.size) r' e' hwf.2).mp h1
        simp [h2]; intro hr _; subst hr; simp [hm]
    · simp only [hp, if_false]
      simp
      intro h
      cases h2 : lead true fs (p + (f.align - p % f.align) + f.size) with
      | error y => simp [h2] at h
      | ok v =>
        simp [h2] at h
        obtain ⟨rfl, _⟩ := h
        simp
        intro hc; rw [← hc] at hnp; simp [padFld] at hnp

theorem strictest_fold (r : List (Fld × Nat)) (m : Nat) :
    r.foldl (fun m p => max m p.1.align) m = max m (strictest r) := by
  induction r generalizing m with
  | nil => simp [strictest]
  | cons q r ih => simp only [strictest, List.foldl_cons]; rw [ih, ih (max 0 q.1.align)]; omega

theorem strictest_cons (q : Fld × Nat) (r) : strictest (q :: r) = max q.1.align (strictest r) := by
  simp only [strictest, List.foldl_cons]; rw [strictest_fold]; simp [strictest]

theorem strictest_append (r s : List (Fld × Nat)) : strictest (r ++ s) = max (strictest r) (strictest s) := by
  induction r with
  | nil => simp [strictest]
  | cons q r ih => simp only [List.cons_append, strictest_cons, ih]; omega

/-- `S r`: the strictest alignment, at least 1 -/
def S (r : List (Fld × Nat)) : Nat := max 1 (strictest r)

theorem S_al (r : List (Fld × Nat)) (h : ∀ q ∈ r, Al q.1.align) : Al (S r) := by
  induction r with
  | nil => simp [S, strictest, Al]
  | cons q r ih =>
    have h1 := h q (by simp)
    have h2 := ih (fun q hq => h q (by simp [hq]))
    unfold S at *; rw [strictest_cons]
    unfold Al at *; omega

theorem misaligned_iff (r : List (Fld × Nat)) (x : Nat)
    (hal : ∀ q ∈ r, Al q.1.align) (hof : allAligned r = true) :
    misaligned r x = false ↔ x % S r = 0 := by
  induction r with
  | nil => simp [misaligned, S, strictest]; omega
  | cons q r ih =>
    have h1 := hal q (by simp)
    have hal' : ∀ q ∈ r, Al q.1.align := fun q hq => hal q (by simp [hq])
    have hS := S_al r hal'
    simp only [allAligned, List.all_cons, Bool.and_eq_true, beq_iff_eq] at hof
    have ih := ih hal' (by simpa [allAligned] using hof.2)
    have ho := hof.1
    have hSc : S (q :: r) = max q.1.align (S r) := by unfold S; rw [strictest_cons]; omega
    simp only [misaligned, List.any_cons, Bool.or_eq_false_iff] at ih ⊢
    rw [ih, hSc]
    simp only [bne_eq_false_iff_eq]
    generalize S r = s at *
    generalize q.1.align = a at *
    generalize q.2 = o at *
    unfold Al at h1 hS
    rcases h1 with rfl | rfl | rfl | rfl <;> rcases hS with rfl | rfl | rfl | rfl <;> simp <;> omega

/-- distance from `x` up to the next multiple of `s` -/
def gap (x s : Nat) : Nat := (s - x % s) % s

theorem trailSearch_eq (r : List (Fld × Nat)) (ptr : Nat)
    (hal : ∀ q ∈ r, Al q.1.align) (hof : allAligned r = true) :
    ∀ fuel pad, gap (pad + ptr) (S r) < fuel →
      trailSearch r ptr fuel pad = some (pad + gap (pad + ptr) (S r))
  | 0, pad, h => by omega
  | fuel + 1, pad, h => by
    have hS := S_al r hal
    unfold trailSearch
    cases hm : misaligned r (pad + ptr) with
    | false =>
      have := (misaligned_iff r (pad + ptr) hal hof).mp hm
      simp [gap, this]
    | true =>
      have hne : (pad + ptr) % S r ≠ 0 := by
        intro h0; have := (misaligned_iff r (pad + ptr) hal hof).mpr h0; simp [hm] at this
      simp only [if_true]
      have key : gap (pad + 1 + ptr) (S r) + 1 = gap (pad + ptr) (S r) := by
        unfold gap; unfold Al at hS
        rcases hS with g | g | g | g <;> simp only [g] at * <;> omega
      rw [trailSearch_eq r ptr hal hof fuel (pad + 1) (by omega)]
      congr 1; omega

theorem gap_lt (x : Nat) {s : Nat} (h : Al s) : gap x s < 8 := by
  unfold gap; unfold Al at h; rcases h with g | g | g | g <;> simp only [g] <;> omega

theorem gap_mod (x : Nat) {s : Nat} (h : Al s) : (x + gap x s) % s = 0 := by
  unfold gap; unfold Al at h; rcases h with g | g | g | g <;> simp only [g] <;> omega

theorem roundUp_of_mod {x a : Nat} (ha : 0 < a) (h : x % a = 0) : roundUp x a = x := by
  unfold roundUp
  obtain ⟨k, rfl⟩ := Nat.dvd_of_mod_eq_zero h
  have : (a * k + a - 1) / a = k := by
    rw [show a * k + a - 1 = a * k + (a - 1) by omega, Nat.mul_add_div ha]
    rw [Nat.div_eq_of_lt (by omega)]; rfl
  rw [this, Nat.mul_comm]

theorem al_pos {a : Nat} (h : Al a) : 0 < a := by unfold Al at h; omega

/-- a packed, aligned member list is laid out by a C compiler exactly as recorded -/
theorem cOffsets_packed : ∀ (r : List (Fld × Nat)) (p : Nat),
    (∀ q ∈ r, Al q.1.align) → allAligned r = true → packed r p = true →
    cOffsets (r.map (·.1)) p = (r.map (·.2), p + sumSizes r)
  | [], p, _, _, _ => by simp [cOffsets, sumSizes]
  | (f, o) :: r, p, hal, hof, hpk => by
    simp only [packed, Bool.and_eq_true, beq_iff_eq] at hpk
    simp only [allAligned, List.all_cons, Bool.and_eq_true, beq_iff_eq] at hof
    obtain ⟨rfl, hpk⟩ := hpk
    have hr : roundUp o f.align = o := roundUp_of_mod (al_pos (hal (f, o) (by simp))) hof.1
    have ih := cOffsets_packed r (o + f.size) (fun q hq => hal q (by simp [hq]))
      (by simpa [allAligned] using hof.2) hpk
    simp only [List.map_cons, cOffsets, hr, ih, sumSizes_cons]
    congr 1; omega

theorem cAlignof_eq (r : List (Fld × Nat)) : cAlignof (r.map (·.1)) = S r := by
  unfold cAlignof S
  have : ∀ (l : List (Fld × Nat)) m, (l.map (·.1)).foldl (fun m f => max m f.align) m
      = l.foldl (fun m p => max m p.1.align) m := by
    intro l; induction l with
    | nil => simp
    | cons q l ih => intro m; simp [ih]
  rw [this, strictest_fold]

theorem packed_append : ∀ (r s : List (Fld × Nat)) (p : Nat),
    packed (r ++ s) p = (packed r p && packed s (p + sumSizes r))
  | [], s, p => by simp [packed, sumSizes]
  | (f, o) :: r, s, p => by
    simp only [List.cons_append, packed, packed_append r s, sumSizes_cons, Bool.and_assoc]
    congr 3; omega

theorem sumSizes_append (r s : List (Fld × Nat)) : sumSizes (r ++ s) = sumSizes r + sumSizes s := by
  simp [sumSizes]

theorem trailPad_size {n : Nat} (h : 0 < n) : (trailPad n).size = n := by
  unfold trailPad Fld.size Fld.count
  by_cases h1 : n = 1
  · simp [h1]
  · simp [h1]; omega

theorem ptrAlign_ge {x s : Nat} (hs : Al s) (h : x % s = 0) : min (ptrAlign x) s = s := by
  unfold ptrAlign; unfold Al at hs
  rcases hs with rfl | rfl | rfl | rfl <;> (repeat' split) <;> omega

/-- Everything `finish` needs: a packed, aligned list from 0 whose end is a multiple of `S`. -/
theorem finish_ok (r : List (Fld × Nat)) (ptr : Nat) (hne : r ≠ [])
    (hal : ∀ q ∈ r, Al q.1.align) (hof : allAligned r = true) (hpk : packed r 0 = true)
    (hend : ptr = sumSizes r) (hmod : ptr % S r = 0) :
    finish r ptr = .ok { fields := r, align := strictest r, size := sumSizes r } := by
  have hS := S_al r hal
  have hst : S r = strictest r := by
    cases r with
    | nil => exact absurd rfl hne
    | cons q r =>
      have := al_pos (hal q (by simp)); unfold S; rw [strictest_cons]; omega
  unfold finish
  have hc : cSizeof (r.map (·.1)) = sumSizes r := by
    unfold cSizeof
    rw [cOffsets_packed r 0 hal hof hpk, cAlignof_eq]
    simp only [Nat.zero_add]
    exact roundUp_of_mod (al_pos hS) (hend ▸ hmod)
  simp only [hc, if_true]
  rw [← hst, ptrAlign_ge hS hmod]

theorem allAligned_append (r s : List (Fld × Nat)) : allAligned (r ++ s) = (allAligned r && allAligned s) := by
  simp [allAligned]

theorem S_append_pad (r : List (Fld × Nat)) (g ptr : Nat) : S (r ++ [(trailPad g, ptr)]) = S r := by
  unfold S; rw [strictest_append]; simp [strictest, trailPad]; omega

/-- the result of `check_alignment`, in closed form, from the result of its leading loop -/
def closed (ap : Bool) (lf : List (Fld × Nat)) (ptr : Nat) : Except Err Out :=
  let g := gap ptr (S lf)
  if g = 0 then .ok { fields := lf, align := strictest lf, size := sumSizes lf }
  else if !ap then .error .alignment
  else
    let r := lf ++ [(trailPad g, ptr)]
    .ok { fields := r, align := strictest r, size := sumSizes r }

theorem check_closed (ap : Bool) (fs : List Fld) (hw : wfInput fs = true) (hne : fs ≠ [])
    {lf : List (Fld × Nat)} {ptr : Nat} (hl : lead ap fs 0 = .ok (lf, ptr)) :
    checkAlignment ap fs = closed ap lf ptr := by
  have L := lead_ok ap fs 0 lf ptr hw hl
  have hlne : lf ≠ [] := by
    intro h; have := L.user; rw [h] at this; simp [userFields] at this; exact hne this
  have hS := S_al lf L.als
  have hg := gap_lt ptr hS
  have hts := trailSearch_eq lf ptr L.als L.aligned trailFuel 0 (by simp [trailFuel]; omega)
  simp only [Nat.zero_add] at hts
  have hend : ptr = sumSizes lf := by have := L.endp; omega
  unfold checkAlignment closed
  simp only [hl, hts]
  cases hgz : gap ptr (S lf) with
  | zero =>
    simp only [if_true]
    refine finish_ok lf ptr hlne L.als L.aligned L.packed hend ?_
    have := gap_mod ptr hS; rw [hgz] at this; simpa using this
  | succ k =>
    simp only [Nat.succ_ne_zero, if_false]
    cases ap with
    | false => simp
    | true =>
      simp only [Bool.not_true, Bool.false_eq_true, if_false]
      have hpos : 0 < k + 1 := by omega
      refine finish_ok _ _ (by simp) ?_ ?_ ?_ ?_ ?_
      · intro q hq; simp at hq; rcases hq with hq | rfl
        · exact L.als q hq
        · simp [trailPad, Al]
      · rw [allAligned_append, L.aligned]; simp [allAligned, trailPad]; omega
      · rw [packed_append, L.packed]; simp [packed, hend]
      · rw [sumSizes_append, sumSizes_cons]; simp only [trailPad_size hpos]
        have : sumSizes ([] : List (Fld × Nat)) = 0 := rfl
        omega
      · rw [S_append_pad]; have := gap_mod ptr hS; rw [hgz] at this; exact this

/-! ### the accepted size is the natural C size of the user's member list -/

theorem roundUp_gap {s : Nat} (h : Al s) (x : Nat) : roundUp x s = x + gap x s := by
  unfold roundUp gap; unfold Al at h
  rcases h with g | g | g | g <;> simp only [g] <;> omega

theorem S_cons (q : Fld × Nat) (r : List (Fld × Nat)) : S (q :: r) = max q.1.align (S r) := by
  unfold S; rw [strictest_cons]; omega

theorem cAlignof_cons (f : Fld) (fs : List Fld) : cAlignof (f :: fs) = max f.align (cAlignof fs) := by
  have h1 := cAlignof_eq ((f, 0) :: fs.map (fun x => (x, 0)))
  have h2 := cAlignof_eq (fs.map (fun x => (x, 0)))
  simp only [List.map_cons, List.map_map, Function.comp_def, List.map_id'] at h1 h2
  rw [h1, h2, S_cons]

/-- the leading loop ends where a C compiler's running offset ends, and the strictest alignment of its output (pads
have alignment 1) is the strictest alignment of the user's members -/
theorem lead_natural (ap : Bool) : ∀ (fs : List Fld) (p : Nat) r e, wfInput fs = true →
    lead ap fs p = .ok (r, e) → (cOffsets fs p).2 = e ∧ S r = cAlignof fs
  | [], p, r, e, _, h => by
    simp [lead] at h
    obtain ⟨rfl, rfl⟩ := h
    simp [cOffsets, S, strictest, cAlignof]
  | f :: fs, p, r, e, hw, h => by
    have hwf : f.wf = true ∧ wfInput fs = true := by simpa [wfInput] using hw
    have ⟨hal, _, _⟩ := wf_al hwf.1
    have hru := roundUp_gap hal p
    unfold lead at h
    split at h
    · rename_i hp
      have hg : gap p f.align = 0 := by
        unfold gap; unfold Al at hal; rcases hal with g | g | g | g <;> simp only [g] at hp ⊢ <;> omega
      split at h
      · rename_i r' e' hr
        have ih := lead_natural ap fs _ r' e' hwf.2 hr
        simp at h; obtain ⟨rfl, rfl⟩ := h
        refine ⟨?_, ?_⟩
        · simp only [cOffsets, hru, hg, Nat.add_zero]; exact ih.1
        · rw [S_cons, cAlignof_cons, ih.2]
      · simp at h
    · rename_i hp
      split at h
      · simp at h
      · dsimp only at h
        have hg : gap p f.align = f.align - p % f.align := by
          unfold gap; unfold Al at hal; rcases hal with g | g | g | g <;> simp only [g] at hp ⊢ <;> omega
        split at h
        · rename_i r' e' hr
          have ih := lead_natural ap fs _ r' e' hwf.2 hr
          simp at h; obtain ⟨rfl, rfl⟩ := h
          refine ⟨?_, ?_⟩
          · simp only [cOffsets, hru, hg]; exact ih.1
          · rw [S_cons, S_cons, cAlignof_cons, ih.2]; simp only [padFld]
            have := al_pos hal; omega
        · simp at h

/-- whatever `check_alignment` accepts has the size a C compiler gives the user's members -/
theorem checked_size_natural {ap : Bool} {fs : List Fld} {o : Out} (hw : wfInput fs = true) (hne : fs ≠ [])
    (h : checkAlignment ap fs = .ok o) : o.size = cSizeof fs := by
  cases hl : lead ap fs 0 with
  | error e => simp [checkAlignment, hl] at h
  | ok v =>
    obtain ⟨lf, ptr⟩ := v
    have L := lead_ok ap fs 0 lf ptr hw hl
    have N := lead_natural ap fs 0 lf ptr hw hl
    have hS := S_al lf L.als
    have hend : ptr = sumSizes lf := by have := L.endp; omega
    rw [check_closed ap fs hw hne hl] at h
    have hc : cSizeof fs = ptr + gap ptr (S lf) := by
      unfold cSizeof; rw [N.1, ← N.2]; exact roundUp_gap hS ptr
    unfold closed at h
    simp only at h
    split at h
    · rename_i hg
      simp at h; subst h; simp only [hc, hg]; omega
    · rename_i hg
      split at h; · simp at h
      simp at h; subst h
      have hpos : 0 < gap ptr (S lf) := by omega
      have hsz : (trailPad (gap ptr (S lf))).size = gap ptr (S lf) := trailPad_size hpos
      have h0 : sumSizes ([] : List (Fld × Nat)) = 0 := rfl
      simp only [sumSizes_append, sumSizes_cons, hsz, h0, hc]
      omega

end Pyrtma.Layout
