import Pyrtma.Spec.Registry
/-! Lemmas for C12 (`Props/C12.lean`): the state-threading import walk is a fold over the pure `flatten`. -/
namespace Pyrtma.Registry

/-! ### `run` -/

theorem run_append (cfg : Cfg) (a b : List Ev) (st : St) :
    run cfg (a ++ b) st = match run cfg a st with
      | .error e => .error e
      | .ok st' => run cfg b st' := by
  induction a generalizing st with
  | nil => simp [run]
  | cons ev a ih =>
    simp only [List.cons_append, run]
    cases step cfg ev st with
    | error e => rfl
    | ok st' => exact ih st'

theorem runItems_eq_run (cfg : Cfg) (core : Bool) (its : List Item) (st : St) :
    runItems cfg core its st = run cfg (its.map (.item core)) st := by
  induction its generalizing st with
  | nil => rfl
  | cons it its ih =>
    simp only [runItems, List.map_cons, run, step]
    cases handle cfg core it st with
    | error e => rfl
    | ok st' => exact ih st'

/-- pair the walk's final `included_files` with the registries -/
def lift (r : Except Err St) (inc : List Nat) : Except Err (List Nat × St) :=
  match r with
  | .error e => .error e
  | .ok st => .ok (inc, st)

theorem parseImports_eq (cfg : Cfg) (pf : Nat → List Nat × St → Except Err (List Nat × St))
    (wf : Nat → List Nat → List Ev × List Nat)
    (h : ∀ n inc st, pf n (inc, st) = lift (run cfg (wf n inc).1 st) (wf n inc).2) :
    ∀ imps inc st, parseImportsWith pf imps (inc, st) =
      lift (run cfg (walkImportsWith wf imps inc).1 st) (walkImportsWith wf imps inc).2 := by
  intro imps
  induction imps with
  | nil => intro inc st; simp [parseImportsWith, walkImportsWith, run, lift]
  | cons imp imps ih =>
    intro inc st
    cases imp with
    | dir => simp [parseImportsWith, walkImportsWith, run, step, lift]
    | badSuffix => simp [parseImportsWith, walkImportsWith, run, step, lift]
    | missing => simp [parseImportsWith, walkImportsWith, run, step, lift]
    | file n =>
      simp only [parseImportsWith, walkImportsWith, h, run_append]
      cases hr : run cfg (wf n inc).1 st with
      | error e => simp [lift]
      | ok st' => simp only [lift]; exact ih _ st'

theorem parseFile_eq (cfg : Cfg) (files : List File) : ∀ fuel fid inc st,
    parseFile cfg files fuel fid (inc, st) =
      lift (run cfg (walkFile files fuel fid inc).1 st) (walkFile files fuel fid inc).2 := by
  intro fuel
  induction fuel with
  | zero => intro fid inc st; simp [parseFile, walkFile, run, step, lift]
  | succ fuel ih =>
    intro fid inc st
    unfold parseFile walkFile
    cases hin : inc.contains fid with
    | true => simp [run, lift]
    | false =>
      simp only [Bool.false_eq_true, if_false]
      cases hf : files[fid]? with
      | none => simp [run, step, lift]
      | some f =>
        simp only
        by_cases hd : f.dupKeys = true
        · simp [hd, run, step, lift]
        · by_cases he : f.empty = true
          · simp [hd, he, run, step, lift]
          · simp only [hd, he, Bool.false_eq_true, if_false]
            simp only [run, step, run_append, runItems_eq_run]
            cases h1 : run cfg (List.map (Ev.item f.coreName) f.before) st with
            | error e => simp [lift]
            | ok st1 =>
              simp only
              rw [parseImports_eq cfg _ _ ih]
              cases h2 : run cfg (walkImportsWith (walkFile files fuel) f.imports (inc ++ [fid])).1 st1 with
              | error e => simp [lift]
              | ok st2 =>
                simp only [lift]
                cases h3 : run cfg (List.map (Ev.item f.coreName) f.after) st2 with
                | error e => rfl
                | ok st3 => rfl

/-! ### the pure walk: every file at most once, imports of an opened file are opened, the depth bound suffices -/

def Valid (files : List File) (inc : List Nat) : Prop := ∀ x ∈ inc, x < files.length

/-- every import of every opened (readable) file is itself opened, or does not exist -/
def ImportsDone (files : List File) (evs : List Ev) (inc : List Nat) : Prop :=
  ∀ fid f, Ev.enter fid ∈ evs → files[fid]? = some f → f.dupKeys = false → f.empty = false →
    ∀ n, Imp.file n ∈ f.imports → n ∈ inc ∨ files.length ≤ n

structure WalkOK (files : List File) (k : Nat) (inc : List Nat) (r : List Ev × List Nat) : Prop where
  nodup : r.2.Nodup
  valid : Valid files r.2
  ext : r.2 = inc ++ enteredOf r.1
  fuel : files.length < k + inc.length → Ev.fail .fuel ∉ r.1 ∧ ImportsDone files r.1 r.2

theorem valid_length_le {files : List File} {inc : List Nat} (hn : inc.Nodup) (hv : Valid files inc) :
    inc.length ≤ files.length := by
  have : inc ⊆ List.range files.length := by
    intro x hx; exact List.mem_range.mpr (hv x hx)
  simpa using List.Nodup.length_le_of_subset hn this

theorem enteredOf_append (a b : List Ev) : enteredOf (a ++ b) = enteredOf a ++ enteredOf b := by
  simp [enteredOf, List.filterMap_append]

theorem enteredOf_items (c : Bool) (its : List Item) : enteredOf (its.map (.item c)) = [] := by
  induction its with
  | nil => rfl
  | cons it its ih => simpa [enteredOf, List.filterMap_cons] using ih

theorem enteredOf_enter (n : Nat) (evs : List Ev) : enteredOf (.enter n :: evs) = n :: enteredOf evs := by
  simp [enteredOf, List.filterMap_cons]

theorem fail_not_mem_items (e : Err) (c : Bool) (its : List Item) : Ev.fail e ∉ its.map (.item c) := by
  simp

theorem enter_not_mem_items (n : Nat) (c : Bool) (its : List Item) : Ev.enter n ∉ its.map (.item c) := by
  simp

theorem mem_enteredOf {evs : List Ev} {n : Nat} : n ∈ enteredOf evs ↔ Ev.enter n ∈ evs := by
  induction evs with
  | nil => simp [enteredOf]
  | cons ev evs ih =>
    cases ev <;> simp_all [enteredOf, List.filterMap_cons]

theorem importsDone_mono {files : List File} {evs : List Ev} {inc inc' : List Nat}
    (h : ImportsDone files evs inc) (hs : ∀ x ∈ inc, x ∈ inc') : ImportsDone files evs inc' := by
  intro fid f he hf hd hem n hn
  rcases h fid f he hf hd hem n hn with h | h
  · exact Or.inl (hs _ h)
  · exact Or.inr h

theorem walkImports_ok (files : List File) (k : Nat) (wf : Nat → List Nat → List Ev × List Nat)
    (h : ∀ n inc, inc.Nodup → Valid files inc → WalkOK files k inc (wf n inc) ∧
      (files.length < k + inc.length → n ∈ (wf n inc).2 ∨ files.length ≤ n)) :
    ∀ imps inc, inc.Nodup → Valid files inc →
      WalkOK files k inc (walkImportsWith wf imps inc) ∧
      (files.length < k + inc.length →
        ∀ n, Imp.file n ∈ imps → n ∈ (walkImportsWith wf imps inc).2 ∨ files.length ≤ n) := by
  intro imps
  induction imps with
  | nil =>
    intro inc hn hv
    refine ⟨⟨hn, hv, by simp [walkImportsWith, enteredOf], fun _ => ⟨by simp [walkImportsWith], ?_⟩⟩, by simp⟩
    intro fid f he; simp [walkImportsWith] at he
  | cons imp imps ih =>
    intro inc hn hv
    have simple : ∀ e : Err, e ≠ .fuel →
        walkImportsWith wf (imp :: imps) inc =
          (Ev.fail e :: (walkImportsWith wf imps inc).1, (walkImportsWith wf imps inc).2) →
        (∀ n, Imp.file n ∈ imp :: imps → Imp.file n ∈ imps) →
        WalkOK files k inc (walkImportsWith wf (imp :: imps) inc) ∧
        (files.length < k + inc.length →
          ∀ n, Imp.file n ∈ imp :: imps → n ∈ (walkImportsWith wf (imp :: imps) inc).2 ∨ files.length ≤ n) := by
      intro e hne heq hmem
      obtain ⟨w, hr⟩ := ih inc hn hv
      rw [heq]
      refine ⟨⟨w.nodup, w.valid, ?_, fun hk => ⟨?_, ?_⟩⟩, fun hk n hn' => hr hk n (hmem n hn')⟩
      · simpa [enteredOf, List.filterMap_cons] using w.ext
      · intro hc; simp at hc
        rcases hc with hc | hc
        · exact hne hc.symm
        · exact (w.fuel hk).1 hc
      · intro fid f he; simp at he; exact (w.fuel hk).2 fid f he
    cases imp with
    | dir => exact simple .fileFormat (by decide) (by simp [walkImportsWith]) (by intro n hn'; simpa using hn')
    | badSuffix => exact simple .fileFormat (by decide) (by simp [walkImportsWith]) (by intro n hn'; simpa using hn')
    | missing => exact simple .fileNotFound (by decide) (by simp [walkImportsWith]) (by intro n hn'; simpa using hn')
    | file m =>
      obtain ⟨wa, ra⟩ := h m inc hn hv
      obtain ⟨wb, rb⟩ := ih (wf m inc).2 wa.nodup wa.valid
      have hlen : inc.length ≤ (wf m inc).2.length := by rw [wa.ext]; simp
      have hsub : ∀ x ∈ (wf m inc).2, x ∈ (walkImportsWith wf imps (wf m inc).2).2 := by
        intro x hx; rw [wb.ext]; exact List.mem_append_left _ hx
      simp only [walkImportsWith]
      refine ⟨⟨wb.nodup, wb.valid, ?_, fun hk => ?_⟩, fun hk n hn' => ?_⟩
      · rw [wb.ext, wa.ext, enteredOf_append]; simp
      · have hk' : files.length < k + (wf m inc).2.length := by omega
        refine ⟨?_, ?_⟩
        · intro hc; rcases List.mem_append.mp hc with hc | hc
          · exact (wa.fuel hk).1 hc
          · exact (wb.fuel hk').1 hc
        · intro fid f he
          rcases List.mem_append.mp he with he | he
          · exact importsDone_mono (wa.fuel hk).2 hsub fid f he
          · exact (wb.fuel hk').2 fid f he
      · have hk' : files.length < k + (wf m inc).2.length := by omega
        simp at hn'
        rcases hn' with rfl | hn'
        · rcases ra hk with h1 | h1
          · exact Or.inl (hsub _ h1)
          · exact Or.inr h1
        · exact rb hk' n hn'

theorem walkFile_ok (files : List File) : ∀ fuel fid inc, inc.Nodup → Valid files inc →
    WalkOK files fuel inc (walkFile files fuel fid inc) ∧
    (files.length < fuel + inc.length → fid ∈ (walkFile files fuel fid inc).2 ∨ files.length ≤ fid) := by
  intro fuel
  induction fuel with
  | zero =>
    intro fid inc hn hv
    have := valid_length_le hn hv
    refine ⟨⟨hn, hv, by simp [walkFile, enteredOf], fun hk => by omega⟩, fun hk => by omega⟩
  | succ fuel ih =>
    intro fid inc hn hv
    have hlen := valid_length_le hn hv
    unfold walkFile
    cases hin : inc.contains fid with
    | true =>
      simp only [if_true]
      refine ⟨⟨hn, hv, by simp [enteredOf], fun _ => ⟨by simp, ?_⟩⟩, fun _ => Or.inl (by simpa using hin)⟩
      intro fid' f he; simp at he
    | false =>
      have hnin : fid ∉ inc := by simpa using hin
      simp only [Bool.false_eq_true, if_false]
      cases hf : files[fid]? with
      | none =>
        simp only
        have hge : files.length ≤ fid := by
          rcases Nat.lt_or_ge fid files.length with h | h
          · simp [List.getElem?_eq_getElem h] at hf
          · exact h
        refine ⟨⟨hn, hv, by simp [enteredOf], fun _ => ⟨by simp, ?_⟩⟩, fun _ => Or.inr hge⟩
        intro fid' f he; simp at he
      | some f =>
        have hlt : fid < files.length := by
          rcases Nat.lt_or_ge fid files.length with h | h
          · exact h
          · simp [List.getElem?_eq_none h] at hf
        have hn' : (inc ++ [fid]).Nodup := by
          rw [List.nodup_append]; refine ⟨hn, by simp, ?_⟩
          intro a ha b hb; simp at hb; subst hb; intro hab; subst hab; exact hnin ha
        have hv' : Valid files (inc ++ [fid]) := by
          intro x hx; rcases List.mem_append.mp hx with hx | hx
          · exact hv x hx
          · simp at hx; subst hx; exact hlt
        simp only
        by_cases hd : f.dupKeys = true
        · simp only [hd, if_true]
          refine ⟨⟨hn', hv', by simp [enteredOf], fun _ => ⟨by simp, ?_⟩⟩, fun _ => Or.inl (by simp)⟩
          intro fid' f' he hf' hd' _
          simp at he; subst he; rw [hf] at hf'; cases hf'; simp [hd] at hd'
        · by_cases he : f.empty = true
          · simp only [hd, he, Bool.false_eq_true, if_false, if_true]
            refine ⟨⟨hn', hv', by simp [enteredOf], fun _ => ⟨by simp, ?_⟩⟩, fun _ => Or.inl (by simp)⟩
            intro fid' f' he' hf' _ hem'
            simp at he'; subst he'; rw [hf] at hf'; cases hf'; simp [he] at hem'
          · simp only [hd, he, Bool.false_eq_true, if_false]
            obtain ⟨w, r⟩ := walkImports_ok files fuel (walkFile files fuel) ih f.imports (inc ++ [fid]) hn' hv'
            have hfid : fid ∈ (walkImportsWith (walkFile files fuel) f.imports (inc ++ [fid])).2 := by
              rw [w.ext]; simp
            refine ⟨⟨w.nodup, w.valid, ?_, fun hk => ?_⟩, fun _ => Or.inl hfid⟩
            · rw [w.ext, enteredOf_enter, enteredOf_append, enteredOf_append, enteredOf_items, enteredOf_items]
              simp
            · have hk' : files.length < fuel + (inc ++ [fid]).length := by simp; omega
              obtain ⟨nf, idn⟩ := w.fuel hk'
              refine ⟨?_, ?_⟩
              · intro hc
                rcases List.mem_cons.mp hc with hc | hc
                · cases hc
                rcases List.mem_append.mp hc with hc | hc
                · rcases List.mem_append.mp hc with hc | hc
                  · exact fail_not_mem_items _ _ _ hc
                  · exact nf hc
                · exact fail_not_mem_items _ _ _ hc
              · intro fid' f' he' hf' hd' hem' n hn''
                rcases List.mem_cons.mp he' with he' | he'
                · cases he'; rw [hf] at hf'; cases hf'
                  exact r hk' n hn''
                rcases List.mem_append.mp he' with he' | he'
                · rcases List.mem_append.mp he' with he' | he'
                  · exact absurd he' (enter_not_mem_items _ _ _)
                  · exact idn fid' f' he' hf' hd' hem' n hn''
                · exact absurd he' (enter_not_mem_items _ _ _)

/-! ### the only file-level failures the walk reports -/

def walkFailKind (e : Err) : Prop :=
  e = .yamlDup ∨ e = .emptyFile ∨ e = .fileNotFound ∨ e = .fileFormat ∨ e = .fuel

theorem walkImports_fails (wf : Nat → List Nat → List Ev × List Nat)
    (h : ∀ n inc e, Ev.fail e ∈ (wf n inc).1 → walkFailKind e) :
    ∀ imps inc e, Ev.fail e ∈ (walkImportsWith wf imps inc).1 → walkFailKind e := by
  intro imps
  induction imps with
  | nil => intro inc e he; simp [walkImportsWith] at he
  | cons imp imps ih =>
    intro inc e he
    cases imp with
    | dir =>
      simp only [walkImportsWith] at he
      rcases List.mem_cons.mp he with he | he
      · cases he; simp [walkFailKind]
      · exact ih _ _ he
    | badSuffix =>
      simp only [walkImportsWith] at he
      rcases List.mem_cons.mp he with he | he
      · cases he; simp [walkFailKind]
      · exact ih _ _ he
    | missing =>
      simp only [walkImportsWith] at he
      rcases List.mem_cons.mp he with he | he
      · cases he; simp [walkFailKind]
      · exact ih _ _ he
    | file n =>
      simp only [walkImportsWith] at he
      rcases List.mem_append.mp he with he | he
      · exact h _ _ _ he
      · exact ih _ _ he

theorem walkFile_fails (files : List File) : ∀ fuel fid inc e,
    Ev.fail e ∈ (walkFile files fuel fid inc).1 → walkFailKind e := by
  intro fuel
  induction fuel with
  | zero => intro fid inc e he; simp [walkFile] at he; subst he; simp [walkFailKind]
  | succ fuel ih =>
    intro fid inc e he
    unfold walkFile at he
    split at he; · simp at he
    split at he
    · simp at he; subst he; simp [walkFailKind]
    · split at he
      · simp at he; subst he; simp [walkFailKind]
      · split at he
        · simp at he; subst he; simp [walkFailKind]
        · rcases List.mem_cons.mp he with he | he
          · cases he
          rcases List.mem_append.mp he with he | he
          · rcases List.mem_append.mp he with he | he
            · exact absurd he (fail_not_mem_items _ _ _)
            · exact walkImports_fails _ ih _ _ _ he
          · exact absurd he (fail_not_mem_items _ _ _)

end Pyrtma.Registry
