import Pyrtma.Spec.DataLogFmt
/-!
# File formats of the data logger: layout and round-trip lemmas (M10, second half)
-/
namespace Pyrtma.DataLog.Fmt

/-! ### little-endian counters -/

@[simp] theorem le32_length (n : Nat) : (le32 n).length = 4 := rfl

theorem unle32_le32 (n : Nat) (h : n < 4294967296) : unle32 (le32 n) = n := by
  simp [le32, unle32]; omega

/-! ### raw -/

theorem foldl_rawWrite (parts : List (List FMsg)) (fd : Bytes) :
    parts.foldl rawWrite fd = fd ++ (parts.flatten.map rawFrame).flatten := by
  induction parts generalizing fd with
  | nil => simp
  | cons p ps ih => simp [ih, rawWrite, List.append_assoc]

theorem rawFile_eq (parts : List (List FMsg)) (last : List FMsg) :
    rawFile parts last = ((parts.flatten ++ last).map rawFrame).flatten := by
  simp [rawFile, foldl_rawWrite, rawWrite]

theorem rawRead_frames (H off : Nat) (hH : 0 < H) (ms : List FMsg)
    (hwf : ∀ m ∈ ms, wfMsg H off m) : ∀ fuel, ms.length ≤ fuel →
    rawRead H off fuel (ms.map rawFrame).flatten = ms := by
  induction ms with
  | nil => intro fuel _; cases fuel <;> simp [rawRead]
  | cons m ms ih =>
    intro fuel hf
    cases fuel with
    | zero => simp at hf
    | succ fuel =>
      obtain ⟨h1, h2⟩ := hwf m (by simp)
      have hne : (rawFrame m ++ (ms.map rawFrame).flatten).isEmpty = false := by
        cases hh : m.hdr with
        | nil => simp [hh] at h1; omega
        | cons a t => simp [rawFrame, hh]
      have htake : (rawFrame m ++ (ms.map rawFrame).flatten).take H = m.hdr := by
        simp only [rawFrame, List.append_assoc]; exact List.take_left' h1
      have hdrop : (rawFrame m ++ (ms.map rawFrame).flatten).drop H = m.data ++ (ms.map rawFrame).flatten := by
        simp only [rawFrame, List.append_assoc]; exact List.drop_left' h1
      have hdrop2 : (rawFrame m ++ (ms.map rawFrame).flatten).drop (H + m.data.length) = (ms.map rawFrame).flatten := by
        rw [← List.drop_drop, hdrop]; exact List.drop_left' rfl
      simp only [List.map_cons, List.flatten_cons, rawRead, hne, Bool.false_eq_true, ↓reduceIte, htake, h2,
        hdrop, hdrop2]
      rw [List.take_left' rfl, ih (fun m hm => hwf m (by simp [hm])) fuel (by simpa using hf)]

/-! ### json lines -/

theorem foldl_jsonWrite (parts : List (List (List Char))) (fd : List Char) :
    parts.foldl jsonWrite fd = fd ++ (parts.flatten.map (· ++ ['\n'])).flatten := by
  induction parts generalizing fd with
  | nil => simp
  | cons p ps ih => simp [ih, jsonWrite, List.append_assoc]

theorem jsonFile_eq (parts : List (List (List Char))) (last : List (List Char)) :
    jsonFile parts last = ((parts.flatten ++ last).map (· ++ ['\n'])).flatten := by
  simp [jsonFile, foldl_jsonWrite, jsonWrite]

theorem splitLines_line (l : List Char) (hl : '\n' ∉ l) (acc rest : List Char) :
    splitLines acc (l ++ '\n' :: rest) = ((acc.reverse ++ l) :: (splitLines [] rest).1, (splitLines [] rest).2) := by
  induction l generalizing acc with
  | nil => simp [splitLines]
  | cons c cs ih =>
    have hc : c ≠ '\n' := by intro h; apply hl; simp [h]
    have hcs : '\n' ∉ cs := by intro h; apply hl; simp [h]
    simp [splitLines, hc, ih hcs]

theorem splitLines_lines (ls : List (List Char)) (h : ∀ l ∈ ls, '\n' ∉ l) :
    splitLines [] (ls.map (· ++ ['\n'])).flatten = (ls, []) := by
  induction ls with
  | nil => simp [splitLines]
  | cons l ls ih =>
    have := splitLines_line l (h l (by simp)) [] (ls.map (· ++ ['\n'])).flatten
    simp only [List.map_cons, List.flatten_cons, List.append_assoc, List.singleton_append]
    rw [this, ih (fun l hl => h l (by simp [hl]))]
    simp

/-! ### quicklogger: the file is the canonical layout whatever the partition into writes -/

def hdrsOf (ms : List FMsg) : Bytes := (ms.map (·.hdr)).flatten
def datasOf (ms : List FMsg) : Bytes := (ms.map (·.data)).flatten

@[simp] theorem QLHdr.bytes_length (h : QLHdr) : h.bytes.length = 24 := by simp [QLHdr.bytes]

theorem overwrite_same_length (new old rest : Bytes) (h : old.length = new.length) :
    overwrite new (old ++ rest) = new ++ rest := by
  simp [overwrite, ← h]

theorem offsetsFrom_append (o : Nat) (a b : List FMsg) :
    offsetsFrom o (a ++ b) = offsetsFrom o a ++ offsetsFrom (o + dataLen a) b := by
  induction a generalizing o with
  | nil => simp [offsetsFrom, dataLen]
  | cons m ms ih => simp [offsetsFrom, ih, dataLen, Nat.add_assoc]

@[simp] theorem dataLen_append (a b : List FMsg) : dataLen (a ++ b) = dataLen a + dataLen b := by
  simp [dataLen]
@[simp] theorem hdrLen_append (a b : List FMsg) : hdrLen (a ++ b) = hdrLen a + hdrLen b := by
  simp [hdrLen]

/-- bookkeeping state after the messages `ms` have gone through `format_message`; `hb` = the 24 bytes
currently at the start of the file (possibly a stale header) -/
structure Mid (H : Nat) (ms : List FMsg) (q : QL) (hb : Bytes) : Prop where
  hdr : q.hdr = qlCanonHdr H ms
  ofs : q.ofs = dataLen ms
  offsets : q.offsets = offsetsFrom 0 ms
  fd : q.fd = hb ++ hdrsOf ms
  hb : hb.length = 24

theorem Mid.formatMessage {H ms q hb} (h : Mid H ms q hb) (m : FMsg) :
    Mid H (ms ++ [m]) (qlFormatMessage q m) hb := by
  obtain ⟨h1, h2, h3, h4, h5⟩ := h
  refine ⟨?_, ?_, ?_, ?_, h5⟩
  · simp [qlFormatMessage, h1, qlCanonHdr, dataLen, hdrLen]; omega
  · simp [qlFormatMessage, h2, dataLen]
  · simp [qlFormatMessage, h3, h2, offsetsFrom_append, offsetsFrom]
  · simp [qlFormatMessage, h4, hdrsOf, List.append_assoc]

theorem qlFormatMessage_tmp (q : QL) (m : FMsg) :
    (qlFormatMessage q m).tmp = q.tmp ∧ (qlFormatMessage q m).numWrites = q.numWrites := ⟨rfl, rfl⟩

theorem Mid.baseWrite {H ms q hb} (h : Mid H ms q hb) (w : List FMsg) :
    Mid H (ms ++ w) (qlBaseWrite q w) hb ∧ (qlBaseWrite q w).tmp = q.tmp ∧
      (qlBaseWrite q w).numWrites = q.numWrites := by
  induction w generalizing ms q with
  | nil => simpa [qlBaseWrite] using h
  | cons m w ih =>
    have := ih (h.formatMessage m)
    simpa [qlBaseWrite, List.append_assoc, qlFormatMessage_tmp] using this

theorem Mid.updateHeader {H ms q hb} (h : Mid H ms q hb) :
    Mid H ms (qlUpdateFileHeader q) (qlCanonHdr H ms).bytes := by
  obtain ⟨h1, h2, h3, h4, h5⟩ := h
  refine ⟨h1, h2, h3, ?_, by simp⟩
  simp only [qlUpdateFileHeader, h4, h1]
  exact overwrite_same_length _ _ _ (by simp [h5])

/-- between two calls: header up to date, temp file holds the payloads -/
structure Good (H : Nat) (ms : List FMsg) (q : QL) : Prop where
  mid : Mid H ms q (qlCanonHdr H ms).bytes
  tmp : q.tmp = datasOf ms

theorem good_init (H : Nat) : Good H [] (qlInit H) ∧ (qlInit H).numWrites = 0 := by
  refine ⟨⟨⟨?_, rfl, rfl, ?_, by simp⟩, rfl⟩, rfl⟩
  · simp [qlInit, qlCanonHdr, dataLen, hdrLen]
  · simp [qlInit, qlCanonHdr, dataLen, hdrLen, hdrsOf]

theorem Good.write {H ms q} (h : Good H ms q) (w : List FMsg) :
    Good H (ms ++ w) (qlWrite q w) ∧ (qlWrite q w).numWrites = q.numWrites + 1 := by
  obtain ⟨hm, ht⟩ := h
  obtain ⟨h1, h2, h3⟩ := hm.baseWrite w
  have h4 := h1.updateHeader
  refine ⟨⟨?_, ?_⟩, ?_⟩
  · exact ⟨h4.hdr, h4.ofs, h4.offsets, h4.fd, h4.hb⟩
  · simp [qlWrite, qlUpdateFileHeader, h2, ht, datasOf]
  · simp [qlWrite, qlUpdateFileHeader, h3]

theorem good_foldl (H : Nat) (parts : List (List FMsg)) : ∀ ms q, Good H ms q →
    Good H (ms ++ parts.flatten) (parts.foldl qlWrite q) ∧
      (parts.foldl qlWrite q).numWrites = q.numWrites + parts.length := by
  induction parts with
  | nil => intro ms q h; simpa using h
  | cons p ps ih =>
    intro ms q h
    obtain ⟨h1, h2⟩ := h.write p
    obtain ⟨h3, h4⟩ := ih _ _ h1
    simp only [List.foldl_cons, List.flatten_cons, List.length_cons]
    rw [← List.append_assoc]
    exact ⟨h3, by omega⟩

theorem Good.finalize {H ms q} (h : Good H ms q) (h0 : q.numWrites = 0 → ms = []) (last : List FMsg) :
    (qlFinalize q last).fd = qlCanon H (ms ++ last) := by
  unfold qlFinalize
  split
  · obtain ⟨⟨hm, ht⟩, _⟩ := h.write last
    simp [qlWriteOffsets, hm.fd, hm.offsets, ht, qlCanon, hdrsOf, datasOf, List.append_assoc]
  · obtain ⟨hm, ht⟩ := h
    obtain ⟨h1, h2, _⟩ := hm.baseWrite last
    have h4 := h1.updateHeader
    have hms : ms = [] := h0 (by omega)
    subst hms
    simp [qlWriteOffsets, h4.fd, h4.offsets, qlCanon, hdrsOf, List.append_assoc]

theorem qlFile_eq (H : Nat) (parts : List (List FMsg)) (last : List FMsg) :
    qlFile H parts last = qlCanon H (parts.flatten ++ last) := by
  obtain ⟨h1, h2⟩ := good_foldl H parts [] (qlInit H) (good_init H).1
  have h3 : (parts.foldl qlWrite (qlInit H)).numWrites = 0 → [] ++ parts.flatten = [] := by
    intro h; rw [h2, (good_init H).2] at h
    have : parts = [] := List.eq_nil_of_length_eq_zero (by omega)
    simp [this]
  simpa [qlFile] using h1.finalize h3 last


/-! ### quicklogger: reading the canonical layout back -/

theorem hdrsOf_length (H : Nat) (ms : List FMsg) (h : ∀ m ∈ ms, m.hdr.length = H) :
    (hdrsOf ms).length = ms.length * H := by
  induction ms with
  | nil => simp [hdrsOf]
  | cons m ms ih =>
    have := ih (fun m hm => h m (by simp [hm]))
    simp only [hdrsOf, List.map_cons, List.flatten_cons, List.length_append, List.length_cons] at this ⊢
    rw [this, h m (by simp), Nat.succ_mul]; omega

theorem chunks_hdrs (H : Nat) (ms : List FMsg) (h : ∀ m ∈ ms, m.hdr.length = H) (rest : Bytes) :
    chunks H ms.length (hdrsOf ms ++ rest) = ms.map (·.hdr) := by
  induction ms with
  | nil => simp [chunks]
  | cons m ms ih =>
    have hm := h m (by simp)
    simp only [hdrsOf, List.map_cons, List.flatten_cons, List.length_cons, chunks, List.append_assoc]
    rw [List.take_left' hm, List.drop_left' hm]
    have := ih (fun m hm => h m (by simp [hm]))
    simp only [hdrsOf] at this
    rw [this]

theorem chunks_offsets (os : List Nat) (h : ∀ o ∈ os, o < 4294967296) :
    (chunks 4 os.length (os.map le32).flatten).map unle32 = os := by
  induction os with
  | nil => simp [chunks]
  | cons o os ih =>
    simp only [List.map_cons, List.flatten_cons, List.length_cons, chunks]
    rw [List.take_left' (le32_length o), List.drop_left' (le32_length o)]
    simp [unle32_le32 o (h o (by simp)), ih (fun o ho => h o (by simp [ho]))]

theorem offsets_bytes_length (os : List Nat) : (os.map le32).flatten.length = 4 * os.length := by
  induction os with
  | nil => simp
  | cons o os ih => simp [ih]; omega

theorem offsetsFrom_length (o : Nat) (ms : List FMsg) : (offsetsFrom o ms).length = ms.length := by
  induction ms generalizing o with
  | nil => simp [offsetsFrom]
  | cons m ms ih => simp [offsetsFrom, ih]

theorem offsetsFrom_lt (o : Nat) (ms : List FMsg) : ∀ x ∈ offsetsFrom o ms, x ≤ o + dataLen ms := by
  induction ms generalizing o with
  | nil => simp [offsetsFrom]
  | cons m ms ih =>
    intro x hx
    simp only [offsetsFrom, List.mem_cons] at hx
    rcases hx with hx | hx
    · omega
    · have := ih _ x hx; simp [dataLen] at this ⊢; omega

/-- slicing the data block at the recorded offsets gives back every payload -/
theorem zip_payloads (off : Nat) (ms : List FMsg) (h : ∀ m ∈ ms, ndb off m.hdr = m.data.length) :
    ∀ (pre suf : Bytes),
    List.zipWith (fun h o => (⟨h, ((pre ++ datasOf ms ++ suf).drop o).take (ndb off h)⟩ : FMsg))
      (ms.map (·.hdr)) (offsetsFrom pre.length ms) = ms := by
  induction ms with
  | nil => intro pre suf; simp [offsetsFrom]
  | cons m ms ih =>
    intro pre suf
    have hm := h m (by simp)
    have ih' := ih (fun m hm => h m (by simp [hm])) (pre ++ m.data) suf
    simp only [List.length_append] at ih'
    simp only [List.map_cons, offsetsFrom, List.zipWith_cons_cons, datasOf, List.flatten_cons, hm]
    congr 1
    · have : pre ++ (m.data ++ (ms.map (·.data)).flatten) ++ suf
          = pre ++ (m.data ++ ((ms.map (·.data)).flatten ++ suf)) := by simp [List.append_assoc]
      rw [this, List.drop_left' rfl, List.take_left' rfl]
    · have : pre ++ (m.data ++ (ms.map (·.data)).flatten) ++ suf
          = pre ++ m.data ++ datasOf ms ++ suf := by simp [datasOf, List.append_assoc]
      rw [this]; exact ih'

theorem qlRead_canon (H off : Nat) (ms : List FMsg) (hwf : ∀ m ∈ ms, wfMsg H off m)
    (hH : H < 4294967296) (hn : ms.length < 4294967296) (hd : dataLen ms < 4294967296) :
    qlRead off (qlCanon H ms) = ms := by
  have hh : ∀ m ∈ ms, m.hdr.length = H := fun m hm => (hwf m hm).1
  have hnd : ∀ m ∈ ms, ndb off m.hdr = m.data.length := fun m hm => (hwf m hm).2
  have e1 : unle32 (((qlCanon H ms).drop 8).take 4) = ms.length := by
    simp [qlCanon, QLHdr.bytes, qlCanonHdr, le32, unle32]; omega
  have e2 : unle32 (((qlCanon H ms).drop 12).take 4) = H := by
    simp [qlCanon, QLHdr.bytes, qlCanonHdr, le32, unle32]; omega
  have e3 : unle32 (((qlCanon H ms).drop 16).take 4) = 4 := by
    simp [qlCanon, QLHdr.bytes, qlCanonHdr, le32, unle32]
  have e4 : (qlCanon H ms).drop qlHdrSize =
      hdrsOf ms ++ (((offsetsFrom 0 ms).map le32).flatten ++ datasOf ms) := by
    simp only [qlCanon, List.append_assoc, hdrsOf, datasOf]
    exact List.drop_left' (by simp [qlHdrSize])
  have hol : ((offsetsFrom 0 ms).map le32).flatten.length = 4 * ms.length := by
    rw [offsets_bytes_length, offsetsFrom_length]
  unfold qlRead
  simp only [e1, e2, e3, e4]
  rw [chunks_hdrs H ms hh, List.drop_left' (hdrsOf_length H ms hh), List.take_left' hol, List.drop_left' hol]
  have := chunks_offsets (offsetsFrom 0 ms) (fun o ho => by have := offsetsFrom_lt 0 ms o ho; omega)
  rw [offsetsFrom_length] at this
  rw [this]
  have z := zip_payloads off ms hnd [] []
  simpa using z


end Pyrtma.DataLog.Fmt
