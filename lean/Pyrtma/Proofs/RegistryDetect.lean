import Pyrtma.Spec.Registry
/-! Lemmas for C12: one handler step against the declarative notions of `Spec/Registry.lean`. -/
namespace Pyrtma.Registry

/-! ### duplicates -/

theorem hasDupK_false_iff (l : List Key) : hasDupK l = false ↔ l.Nodup := by
  induction l with
  | nil => simp [hasDupK]
  | cons x xs ih => simp [hasDupK, List.nodup_cons, ih]

theorem hasDupK_true_iff (l : List Key) : hasDupK l = true ↔ ¬ l.Nodup := by
  rw [← hasDupK_false_iff]; cases hasDupK l <;> simp

theorem keysOf_append (a b : List Ev) : keysOf (a ++ b) = keysOf a ++ keysOf b := by
  simp [keysOf, List.flatMap_append]

theorem keysOf_cons (ev : Ev) (b : List Ev) : keysOf (ev :: b) = evKeys ev ++ keysOf b := by
  simp [keysOf, List.flatMap_cons]

theorem keysOf_snoc (a : List Ev) (ev : Ev) : keysOf (a ++ [ev]) = keysOf a ++ evKeys ev := by
  simp [keysOf_append, keysOf_cons, keysOf]

/-- a key claimed before and again by `ev` is a duplicate of its kind in any list that extends them -/
theorem dupOf_of_mem {p : Key → Bool} {pre rest : List Ev} {ev : Ev} {k : Key}
    (h1 : k ∈ keysOf pre) (h2 : k ∈ evKeys ev) (hp : p k = true) : dupOf p (pre ++ ev :: rest) = true := by
  unfold dupOf
  rw [hasDupK_true_iff, keysOf_append, keysOf_cons, List.filter_append, List.filter_append]
  intro hn
  rw [List.nodup_append] at hn
  exact hn.2.2 k (List.mem_filter.mpr ⟨h1, hp⟩) k
    (List.mem_append_left _ (List.mem_filter.mpr ⟨h2, hp⟩)) rfl

/-- `ev` alone claims one key twice -/
theorem dupOf_of_self {p : Key → Bool} {pre rest : List Ev} {ev : Ev}
    (h : ¬ ((evKeys ev).filter p).Nodup) : dupOf p (pre ++ ev :: rest) = true := by
  unfold dupOf
  rw [hasDupK_true_iff, keysOf_append, keysOf_cons, List.filter_append, List.filter_append]
  intro hn
  rw [List.nodup_append] at hn
  have := hn.2.1
  rw [List.nodup_append] at this
  exact h this.1

theorem any_of_mem {pre rest : List Ev} {ev : Ev} {p : Ev → Bool} (h : p ev = true) :
    (pre ++ ev :: rest).any p = true := by
  simp [List.any_append, h]

/-! ### names -/

theorem pad6_ne_empty (n : Nat) : pad6 n ≠ "" := by
  unfold pad6
  intro h
  have h2 := congrArg String.length h
  simp only [String.length_append, String.length_empty] at h2
  have h3 : (toString n).length = 0 := by omega
  exact Nat.repr_ne_empty (String.length_eq_zero_iff.mp h3)

theorem reservedKey_toList : reservedKey.toList = ['_', 'R', 'E', 'S', 'E', 'R', 'V', 'E', 'D', '_'] := by
  decide

/-- a name that passed `check_name` is never one of the generated placeholder names -/
theorem validName_ne_resName {n : String} (h : validName n = true) (v : Int) : n ≠ resName v := by
  intro heq
  have hl : n.toList = reservedKey.toList ++ (pad6 v.toNat).toList := by
    rw [heq, resName, String.toList_append]
  unfold validName at h
  rw [Bool.or_eq_true] at h
  rcases h with h | h
  · have : n = reservedKey := by simpa using h
    rw [this] at hl
    have h0 : (pad6 v.toNat).toList = [] := by
      have := congrArg List.length hl
      simp only [List.length_append] at this
      exact List.eq_nil_of_length_eq_zero (by omega)
    exact pad6_ne_empty _ (String.toList_inj.mp (by simpa using h0))
  · rw [hl, reservedKey_toList] at h
    simp [isAsciiLetter] at h

/-! ### the registries against the keys claimed so far -/

/-- what the handlers look up, phrased on keys -/
def reg (st : St) : Key → Prop
  | .shared n => inShared st n = true
  | .mdata n => n ∈ st.mdata
  | .hostN n => n ∈ st.hosts.map (·.1)
  | .hostI v => v ∈ st.hosts.map (·.2)
  | .modN n => n ∈ st.modules.map (·.1)
  | .modI v => v ∈ st.modules.map (·.2)
  | .msgI v => v ∈ st.msgs.map (·.2)

/-- keys whose lookup is exact: a shared name must have passed `check_name` (placeholders never have) -/
def keyOK : Key → Prop
  | .shared n => validName n = true
  | _ => True

theorem validName_reservedKey : validName reservedKey = true := by
  simp [validName]

theorem inShared_iff (st : St) (n : String) :
    inShared st n = true ↔ n ∈ st.consts ∨ n ∈ st.strs ∨ n ∈ st.aliases ∨ n ∈ st.structs ∨ n ∈ st.msgs.map (·.1) := by
  simp [inShared, or_assoc]

theorem not_mem_resNames {n : String} (h : validName n = true) (l : List Int) :
    n ∉ (l.map (fun v => (resName v, v))).map (·.1) := by
  intro hm
  simp at hm
  obtain ⟨v, _, hv⟩ := hm
  exact validName_ne_resName h v hv.symm

/-- registering an item adds exactly its keys to what later lookups find -/
theorem reg_itemTables (it : Item) (st : St) (k : Key) (hk : keyOK k) (hni : itemNotInt it = false) :
    reg (itemTables it st) k ↔ reg st k ∨ k ∈ itemKeys it := by
  cases it with
  | reserved ids =>
    cases k <;> simp only [itemTables, reg, itemKeys, inShared_iff, List.map_append, List.mem_append, List.mem_map,
      reduceCtorEq, and_false, exists_false, or_false, Key.msgI.injEq, exists_eq_right]
    · rename_i n
      have := not_mem_resNames hk (reservedIds ids)
      simp at this
      constructor
      · rintro (h | h | h | h | h | h)
        · exact Or.inl h
        · exact Or.inr (Or.inl h)
        · exact Or.inr (Or.inr (Or.inl h))
        · exact Or.inr (Or.inr (Or.inr (Or.inl h)))
        · exact Or.inr (Or.inr (Or.inr (Or.inr h)))
        · obtain ⟨a, ⟨v, hv, rfl⟩, rfl⟩ := h
          exact absurd rfl (this v hv)
      · rintro (h | h | h | h | h)
        · exact Or.inl h
        · exact Or.inr (Or.inl h)
        · exact Or.inr (Or.inr (Or.inl h))
        · exact Or.inr (Or.inr (Or.inr (Or.inl h)))
        · exact Or.inr (Or.inr (Or.inr (Or.inr (Or.inl h))))
    · simp
  | mdata n => cases k <;> simp [itemTables, reg, itemKeys, inShared_iff]
  | const n => cases k <;> simp [itemTables, reg, itemKeys, inShared_iff] <;> grind
  | str n => cases k <;> simp [itemTables, reg, itemKeys, inShared_iff] <;> grind
  | alias n => cases k <;> simp [itemTables, reg, itemKeys, inShared_iff] <;> grind
  | struct n => cases k <;> simp [itemTables, reg, itemKeys, inShared_iff] <;> grind
  | host n v =>
    cases v with
    | none => simp [itemNotInt] at hni
    | some v => cases k <;> simp [itemTables, reg, itemKeys, inShared_iff]
  | module n v =>
    cases v with
    | none => simp [itemNotInt] at hni
    | some v => cases k <;> simp [itemTables, reg, itemKeys, inShared_iff]
  | msg n v =>
    cases v with
    | none => simp [itemNotInt] at hni
    | some v => cases k <;> simp [itemTables, reg, itemKeys, inShared_iff] <;> grind

/-! ### `validate_msg_id` and the reserved loop -/

theorem regMsg_ok {cfg : Cfg} {name : String} {id : Int} {st st' : St} (h : regMsg cfg name id st = .ok st') :
    msgOutOfRange cfg id = false ∧ id ∉ st.msgs.map (·.2) ∧ st' = { st with msgs := st.msgs ++ [(name, id)] } := by
  unfold regMsg at h
  split at h; · cases h
  rename_i h1
  split at h; · cases h
  rename_i h2
  cases h
  refine ⟨by simpa [msgOutOfRange] using h1, by simpa using h2, rfl⟩

theorem regMsg_err {cfg : Cfg} {name : String} {id : Int} {st : St} {e : Err} (h : regMsg cfg name id st = .error e) :
    (e = .range ∧ msgOutOfRange cfg id = true) ∨ (e = .msgId ∧ id ∈ st.msgs.map (·.2)) := by
  unfold regMsg at h
  split at h
  · rename_i h1; cases h; exact Or.inl ⟨rfl, by simpa [msgOutOfRange] using h1⟩
  · split at h
    · rename_i h2; cases h; exact Or.inr ⟨rfl, by simpa using h2⟩
    · cases h

theorem regReserved_ok {cfg : Cfg} : ∀ {l : List Int} {st st' : St}, regReserved cfg l st = .ok st' →
    st' = { st with msgs := st.msgs ++ l.map (fun v => (resName v, v)) } ∧ l.Nodup ∧
    (∀ v ∈ l, msgOutOfRange cfg v = false ∧ v ∉ st.msgs.map (·.2))
  | [], st, st', h => by simp [regReserved] at h; subst h; simp
  | id :: ids, st, st', h => by
    simp only [regReserved] at h
    split at h; · cases h
    rename_i st1 h1
    obtain ⟨hr, hn, rfl⟩ := regMsg_ok h1
    obtain ⟨rfl, hnd, hall⟩ := regReserved_ok h
    refine ⟨by simp, ?_, ?_⟩
    · rw [List.nodup_cons]; refine ⟨?_, hnd⟩
      intro hm; have := (hall id hm).2; simp at this
    · intro v hv
      rcases List.mem_cons.mp hv with rfl | hv
      · exact ⟨hr, hn⟩
      · have := hall v hv
        refine ⟨this.1, ?_⟩
        intro hm; apply this.2; simp at hm ⊢; exact Or.inl hm

theorem regReserved_err {cfg : Cfg} {e : Err} : ∀ {l : List Int} {st : St}, regReserved cfg l st = .error e →
    (e = .range ∧ ∃ v ∈ l, msgOutOfRange cfg v = true) ∨
    (e = .msgId ∧ ((∃ v ∈ l, v ∈ st.msgs.map (·.2)) ∨ ¬ l.Nodup))
  | [], st, h => by simp [regReserved] at h
  | id :: ids, st, h => by
    simp only [regReserved] at h
    split at h
    · rename_i e' h1; cases h
      rcases regMsg_err h1 with ⟨rfl, hr⟩ | ⟨rfl, hm⟩
      · exact Or.inl ⟨rfl, id, by simp, hr⟩
      · exact Or.inr ⟨rfl, Or.inl ⟨id, by simp, hm⟩⟩
    · rename_i st1 h1
      obtain ⟨_, _, rfl⟩ := regMsg_ok h1
      rcases regReserved_err h with ⟨rfl, v, hv, hr⟩ | ⟨rfl, h2⟩
      · exact Or.inl ⟨rfl, v, List.mem_cons_of_mem _ hv, hr⟩
      · refine Or.inr ⟨rfl, ?_⟩
        rcases h2 with ⟨v, hv, hm⟩ | hnd
        · simp only [List.map_append, List.mem_append, List.map_cons, List.map_nil, List.mem_singleton] at hm
          rcases hm with hm | rfl
          · exact Or.inl ⟨v, List.mem_cons_of_mem _ hv, hm⟩
          · exact Or.inr (by rw [List.nodup_cons]; exact fun h => h.1 hv)
        · exact Or.inr (by rw [List.nodup_cons]; exact fun h => hnd h.2)

/-! ### one handler call -/

theorem handle_ok {cfg : Cfg} {c : Bool} {it : Item} {st st' : St} (h : handle cfg c it st = .ok st') :
    st' = itemTables it st ∧ evFlawless cfg (.item c it) = true ∧ (itemKeys it).Nodup ∧
    ∀ k ∈ itemKeys it, keyOK k ∧ ¬ reg st k := by
  cases it with
  | mdata n =>
    simp only [handle] at h
    split at h; · cases h
    rename_i hv
    split at h; · cases h
    rename_i hs; cases h
    simp_all [itemTables, evFlawless, itemOutOfRange, itemBadName, itemName, itemNotInt, itemResSyntax, itemResNotList,
      itemKeys, keyOK, reg]
  | const n =>
    simp only [handle] at h
    split at h; · cases h
    rename_i hv
    split at h; · cases h
    rename_i hs; cases h
    simp_all [itemTables, evFlawless, itemOutOfRange, itemBadName, itemName, itemNotInt, itemResSyntax, itemResNotList,
      itemKeys, keyOK, reg]
  | str n =>
    simp only [handle] at h
    split at h; · cases h
    rename_i hv
    split at h; · cases h
    rename_i hs; cases h
    simp_all [itemTables, evFlawless, itemOutOfRange, itemBadName, itemName, itemNotInt, itemResSyntax, itemResNotList,
      itemKeys, keyOK, reg]
  | alias n =>
    simp only [handle] at h
    split at h; · cases h
    rename_i hv
    split at h; · cases h
    rename_i hs; cases h
    simp_all [itemTables, evFlawless, itemOutOfRange, itemBadName, itemName, itemNotInt, itemResSyntax, itemResNotList,
      itemKeys, keyOK, reg]
  | struct n =>
    simp only [handle] at h
    split at h; · cases h
    rename_i hv
    split at h; · cases h
    rename_i hs; cases h
    simp_all [itemTables, evFlawless, itemOutOfRange, itemBadName, itemName, itemNotInt, itemResSyntax, itemResNotList,
      itemKeys, keyOK, reg]
  | host n v =>
    simp only [handle] at h
    split at h; · cases h
    rename_i hv
    split at h; · cases h
    rename_i hs
    cases v with
    | none => cases h
    | some v =>
      simp only at h
      split at h; · cases h
      rename_i hr
      split at h; · cases h
      rename_i hi; cases h
      simp_all [itemTables, evFlawless, itemOutOfRange, itemBadName, itemName, itemNotInt, itemResSyntax, itemResNotList,
        itemKeys, keyOK, reg]
      cases c <;> cases hco : cfg.coreOn <;> simp_all
  | module n v =>
    simp only [handle] at h
    split at h; · cases h
    rename_i hv
    split at h; · cases h
    rename_i hs
    cases v with
    | none => cases h
    | some v =>
      simp only at h
      split at h; · cases h
      rename_i hr
      split at h; · cases h
      rename_i hi; cases h
      simp_all [itemTables, evFlawless, itemOutOfRange, itemBadName, itemName, itemNotInt, itemResSyntax, itemResNotList,
        itemKeys, keyOK, reg]
      cases c <;> cases hco : cfg.coreOn <;> simp_all
  | msg n v =>
    simp only [handle] at h
    split at h; · cases h
    rename_i hv
    split at h; · cases h
    rename_i hs
    cases v with
    | none => cases h
    | some v =>
      simp only at h
      obtain ⟨hr, hn, rfl⟩ := regMsg_ok h
      simp_all [itemTables, evFlawless, itemOutOfRange, itemBadName, itemName, itemNotInt, itemResSyntax, itemResNotList,
        itemKeys, keyOK, reg]
  | reserved ids =>
    simp only [handle] at h
    split at h; · cases h
    rename_i hs
    cases ids with
    | none => cases h
    | some es =>
      simp only at h
      split at h; · cases h
      rename_i l hl
      obtain ⟨rfl, hnd, hall⟩ := regReserved_ok h
      have hids : reservedIds (some es) = l := by simp [reservedIds, hl]
      refine ⟨by simp [itemTables, hids], ?_, ?_, ?_⟩
      · simp only [evFlawless, itemOutOfRange, hids, itemBadName, itemName, itemNotInt, itemResSyntax, hl, itemResNotList]
        simp
        intro v hv; exact (hall v hv).1
      · simp only [itemKeys, hids]
        exact List.Pairwise.map Key.msgI (fun a b hab heq => hab (by cases heq; rfl)) hnd
      · intro k hk
        simp only [itemKeys, hids, List.mem_map] at hk
        obtain ⟨v, hv, rfl⟩ := hk
        exact ⟨trivial, (hall v hv).2⟩

/-- which keys an error class is about -/
def kindOf : Err → Key → Bool
  | .dupName => Key.isName
  | .msgId => Key.isMsgI
  | .moduleId => Key.isModI
  | .hostId => Key.isHostI
  | _ => fun _ => false

/-- flaws that sit in one event -/
def evHas (cfg : Cfg) : Err → Ev → Bool
  | .range => evOutOfRange cfg
  | .badName => onItem itemBadName
  | .notInt => onItem itemNotInt
  | .resSyntax => onItem itemResSyntax
  | .resNotList => onItem itemResNotList
  | .yamlDup => isFail .yamlDup
  | .fileNotFound => isFail .fileNotFound
  | .fileFormat => isFail .fileFormat
  | .emptyFile => isFail .emptyFile
  | _ => fun _ => false

/-- why a handler call may fail -/
def ItemFlaw (cfg : Cfg) (c : Bool) (it : Item) (st : St) (e : Err) : Prop :=
  evHas cfg e (.item c it) = true ∨
  (∃ k ∈ itemKeys it, kindOf e k = true ∧ keyOK k ∧ reg st k) ∨
  ¬ ((itemKeys it).filter (kindOf e)).Nodup ∨
  (e = .dupName ∧ (∃ ids, it = .reserved ids) ∧ reg st (.shared reservedKey))

theorem expandAll_err_resSyntax {es : List ResEntry} {e : Err} (h : expandAll es = .error e) : e = .resSyntax := by
  induction es with
  | nil => simp [expandAll] at h
  | cons x xs ih =>
    simp only [expandAll] at h
    split at h
    · rename_i e' h1; cases h
      cases x with
      | num n => simp [expandEntry] at h1
      | other => simp [expandEntry] at h1; exact h1.symm
      | text t =>
        simp only [expandEntry] at h1
        split at h1
        · cases h1; rfl
        · split at h1
          · cases h1; rfl
          · split at h1
            · cases h1; rfl
            · cases h1
    · split at h
      · rename_i e' h2; cases h; exact ih h2
      · cases h

theorem handle_err {cfg : Cfg} {c : Bool} {it : Item} {st : St} {e : Err} (h : handle cfg c it st = .error e) :
    ItemFlaw cfg c it st e := by
  cases it with
  | const n =>
    simp only [handle] at h
    split at h
    · rename_i hv; cases h
      exact Or.inl (by simp_all [evHas, onItem, itemBadName, itemName])
    · rename_i hv
      split at h
      · rename_i hs; cases h
        exact Or.inr (Or.inl ⟨Key.shared n, by simp [itemKeys], by simp [kindOf, Key.isName], by simpa [keyOK] using hv, hs⟩)
      · cases h
  | str n =>
    simp only [handle] at h
    split at h
    · rename_i hv; cases h
      exact Or.inl (by simp_all [evHas, onItem, itemBadName, itemName])
    · rename_i hv
      split at h
      · rename_i hs; cases h
        exact Or.inr (Or.inl ⟨Key.shared n, by simp [itemKeys], by simp [kindOf, Key.isName], by simpa [keyOK] using hv, hs⟩)
      · cases h
  | alias n =>
    simp only [handle] at h
    split at h
    · rename_i hv; cases h
      exact Or.inl (by simp_all [evHas, onItem, itemBadName, itemName])
    · rename_i hv
      split at h
      · rename_i hs; cases h
        exact Or.inr (Or.inl ⟨Key.shared n, by simp [itemKeys], by simp [kindOf, Key.isName], by simpa [keyOK] using hv, hs⟩)
      · cases h
  | struct n =>
    simp only [handle] at h
    split at h
    · rename_i hv; cases h
      exact Or.inl (by simp_all [evHas, onItem, itemBadName, itemName])
    · rename_i hv
      split at h
      · rename_i hs; cases h
        exact Or.inr (Or.inl ⟨Key.shared n, by simp [itemKeys], by simp [kindOf, Key.isName], by simpa [keyOK] using hv, hs⟩)
      · cases h
  | mdata n =>
    simp only [handle] at h
    split at h
    · rename_i hv; cases h
      exact Or.inl (by simp_all [evHas, onItem, itemBadName, itemName])
    · split at h
      · rename_i hs; cases h
        exact Or.inr (Or.inl ⟨Key.mdata n, by simp [itemKeys], by simp [kindOf, Key.isName], trivial, by simpa [reg] using hs⟩)
      · cases h
  | host n v =>
    simp only [handle] at h
    split at h
    · rename_i hv; cases h
      exact Or.inl (by simp_all [evHas, onItem, itemBadName, itemName])
    · split at h
      · rename_i hs; cases h
        exact Or.inr (Or.inl ⟨Key.hostN n, by simp [itemKeys], by simp [kindOf, Key.isName], trivial, by simpa [reg] using hs⟩)
      · cases v with
        | none => cases h; exact Or.inl (by simp [evHas, onItem, itemNotInt])
        | some v =>
          simp only at h
          split at h
          · rename_i hr; cases h
            exact Or.inl (by simpa [evHas, evOutOfRange, itemOutOfRange] using hr)
          · split at h
            · rename_i hi; cases h
              exact Or.inr (Or.inl ⟨Key.hostI v, by simp [itemKeys], by simp [kindOf, Key.isHostI], trivial, by simpa [reg] using hi⟩)
            · cases h
  | module n v =>
    simp only [handle] at h
    split at h
    · rename_i hv; cases h
      exact Or.inl (by simp_all [evHas, onItem, itemBadName, itemName])
    · split at h
      · rename_i hs; cases h
        exact Or.inr (Or.inl ⟨Key.modN n, by simp [itemKeys], by simp [kindOf, Key.isName], trivial, by simpa [reg] using hs⟩)
      · cases v with
        | none => cases h; exact Or.inl (by simp [evHas, onItem, itemNotInt])
        | some v =>
          simp only at h
          split at h
          · rename_i hr; cases h
            exact Or.inl (by simpa [evHas, evOutOfRange, itemOutOfRange] using hr)
          · split at h
            · rename_i hi; cases h
              exact Or.inr (Or.inl ⟨Key.modI v, by simp [itemKeys], by simp [kindOf, Key.isModI], trivial, by simpa [reg] using hi⟩)
            · cases h
  | msg n v =>
    simp only [handle] at h
    split at h
    · rename_i hv; cases h
      exact Or.inl (by simp_all [evHas, onItem, itemBadName, itemName])
    · rename_i hv
      split at h
      · rename_i hs; cases h
        exact Or.inr (Or.inl ⟨Key.shared n, by simp [itemKeys], by simp [kindOf, Key.isName], by simpa [keyOK] using hv, hs⟩)
      · cases v with
        | none => cases h; exact Or.inl (by simp [evHas, onItem, itemNotInt])
        | some v =>
          simp only at h
          rcases regMsg_err h with ⟨rfl, hr⟩ | ⟨rfl, hm⟩
          · exact Or.inl (by simpa [evHas, evOutOfRange, itemOutOfRange] using hr)
          · exact Or.inr (Or.inl ⟨Key.msgI v, by simp [itemKeys], by simp [kindOf, Key.isMsgI], trivial, hm⟩)
  | reserved ids =>
    simp only [handle] at h
    split at h
    · rename_i hs; cases h
      exact Or.inr (Or.inr (Or.inr ⟨rfl, ⟨ids, rfl⟩, hs⟩))
    · cases ids with
      | none => cases h; exact Or.inl (by simp [evHas, onItem, itemResNotList])
      | some es =>
        simp only at h
        split at h
        · rename_i e' he; cases h
          have := expandAll_err_resSyntax he; subst this
          exact Or.inl (by simp [evHas, onItem, itemResSyntax, he])
        · rename_i l hl
          have hids : reservedIds (some es) = l := by simp [reservedIds, hl]
          rcases regReserved_err h with ⟨rfl, v, hv, hr⟩ | ⟨rfl, ⟨v, hv, hm⟩ | hnd⟩
          · exact Or.inl (by simp only [evHas, evOutOfRange, itemOutOfRange, hids, List.any_eq_true]; exact ⟨v, hv, hr⟩)
          · exact Or.inr (Or.inl ⟨Key.msgI v, by simp [itemKeys, hids, hv], by simp [kindOf, Key.isMsgI], trivial, hm⟩)
          · refine Or.inr (Or.inr (Or.inl ?_))
            simp only [itemKeys, hids, kindOf]
            intro hn; apply hnd
            have hf : (l.map Key.msgI).filter Key.isMsgI = l.map Key.msgI := by
              apply List.filter_eq_self.mpr; intro k hk; simp at hk; obtain ⟨_, _, rfl⟩ := hk; rfl
            rw [hf] at hn
            exact (List.pairwise_map.mp hn).imp (fun hab heq => hab (by rw [heq]))

/-! ### whole runs -/

theorem reg_mono (it : Item) (st : St) (k : Key) (h : reg st k) : reg (itemTables it st) k := by
  cases it with
  | reserved ids =>
    cases k <;> simp_all [itemTables, reg, inShared_iff]
    rcases h with h | h | h | h | h
    · exact Or.inl h
    · exact Or.inr (Or.inl h)
    · exact Or.inr (Or.inr (Or.inl h))
    · exact Or.inr (Or.inr (Or.inr (Or.inl h)))
    · exact Or.inr (Or.inr (Or.inr (Or.inr (Or.inl h))))
  | mdata n => cases k <;> simp_all [itemTables, reg, inShared_iff]
  | const n => cases k <;> simp_all [itemTables, reg, inShared_iff] <;> grind
  | str n => cases k <;> simp_all [itemTables, reg, inShared_iff] <;> grind
  | alias n => cases k <;> simp_all [itemTables, reg, inShared_iff] <;> grind
  | struct n => cases k <;> simp_all [itemTables, reg, inShared_iff] <;> grind
  | host n v => cases v <;> cases k <;> simp_all [itemTables, reg, inShared_iff] <;> grind
  | module n v => cases v <;> cases k <;> simp_all [itemTables, reg, inShared_iff] <;> grind
  | msg n v => cases v <;> cases k <;> simp_all [itemTables, reg, inShared_iff] <;> grind

def foldTables (st : St) (evs : List Ev) : St := evs.foldl (fun s ev => evTables ev s) st

theorem flawless_notInt {cfg : Cfg} {c : Bool} {it : Item} (h : evFlawless cfg (.item c it) = true) :
    itemNotInt it = false := by
  simp [evFlawless] at h; exact h.1.1.2

theorem run_ok {cfg : Cfg} : ∀ {evs : List Ev} {st st' : St}, run cfg evs st = .ok st' →
    st' = foldTables st evs ∧ (∀ ev ∈ evs, evFlawless cfg ev = true) ∧ (keysOf evs).Nodup ∧
    (∀ k ∈ keysOf evs, ¬ reg st k)
  | [], st, st', h => by simp [run] at h; subst h; simp [foldTables, keysOf]
  | ev :: rest, st, st', h => by
    simp only [run] at h
    split at h; · cases h
    rename_i st1 h1
    obtain ⟨rfl, hfl, hnd, hfr⟩ := run_ok h
    cases ev with
    | enter n =>
      simp [step] at h1; subst h1
      refine ⟨by simp [foldTables, evTables], ?_, ?_, ?_⟩
      · intro ev hev; rcases List.mem_cons.mp hev with rfl | hev
        · rfl
        · exact hfl ev hev
      · simpa [keysOf_cons, evKeys] using hnd
      · simpa [keysOf_cons, evKeys] using hfr
    | fail e => simp [step] at h1
    | item c it =>
      simp only [step] at h1
      obtain ⟨rfl, hcl, hn, hfresh⟩ := handle_ok h1
      have hni := flawless_notInt hcl
      refine ⟨by simp [foldTables, evTables], ?_, ?_, ?_⟩
      · intro ev hev; rcases List.mem_cons.mp hev with rfl | hev
        · exact hcl
        · exact hfl ev hev
      · rw [keysOf_cons, List.nodup_append]
        refine ⟨hn, hnd, ?_⟩
        intro a ha b hb hab; subst hab
        exact hfr a hb ((reg_itemTables it st a (hfresh a ha).1 hni).mpr (Or.inr ha))
      · intro k hk
        rw [keysOf_cons] at hk
        rcases List.mem_append.mp hk with hk | hk
        · exact (hfresh k hk).2
        · intro hr; exact hfr k hk (reg_mono it st k hr)

/-- why a run may fail, relative to what is already registered -/
def RunFlaw (cfg : Cfg) (st : St) (evs : List Ev) (e : Err) : Prop :=
  (∃ ev ∈ evs, evHas cfg e ev = true ∨ ev = .fail e) ∨
  ¬ ((keysOf evs).filter (kindOf e)).Nodup ∨
  (∃ k ∈ keysOf evs, kindOf e k = true ∧ keyOK k ∧ reg st k) ∨
  (e = .dupName ∧ (reg st (.shared reservedKey) ∨ Key.shared reservedKey ∈ keysOf evs))

theorem run_err {cfg : Cfg} {e : Err} : ∀ {evs : List Ev} {st : St}, run cfg evs st = .error e → RunFlaw cfg st evs e
  | [], st, h => by simp [run] at h
  | ev :: rest, st, h => by
    simp only [run] at h
    split at h
    · rename_i e' h1; cases h
      cases ev with
      | enter n => simp [step] at h1
      | fail e' =>
        simp [step] at h1; subst h1
        exact Or.inl ⟨_, List.mem_cons_self, Or.inr rfl⟩
      | item c it =>
        simp only [step] at h1
        rcases handle_err h1 with h2 | ⟨k, hk, hkind, hok, hreg⟩ | h2 | ⟨rfl, _, hreg⟩
        · exact Or.inl ⟨_, List.mem_cons_self, Or.inl h2⟩
        · exact Or.inr (Or.inr (Or.inl ⟨k, by rw [keysOf_cons]; exact List.mem_append_left _ hk, hkind, hok, hreg⟩))
        · refine Or.inr (Or.inl ?_)
          rw [keysOf_cons, List.filter_append, List.nodup_append]
          exact fun hn => h2 hn.1
        · exact Or.inr (Or.inr (Or.inr ⟨rfl, Or.inl hreg⟩))
    · rename_i st1 h1
      have ih := run_err h
      cases ev with
      | fail e' => simp [step] at h1
      | enter n =>
        simp [step] at h1; subst h1
        rcases ih with ⟨ev, hev, h2⟩ | h2 | ⟨k, hk, h2⟩ | ⟨rfl, h2⟩
        · exact Or.inl ⟨ev, List.mem_cons_of_mem _ hev, h2⟩
        · exact Or.inr (Or.inl (by simpa [keysOf_cons, evKeys] using h2))
        · exact Or.inr (Or.inr (Or.inl ⟨k, by simpa [keysOf_cons, evKeys] using hk, h2⟩))
        · exact Or.inr (Or.inr (Or.inr ⟨rfl, by simpa [keysOf_cons, evKeys] using h2⟩))
      | item c it =>
        simp only [step] at h1
        obtain ⟨rfl, hcl, hn, hfresh⟩ := handle_ok h1
        have hni := flawless_notInt hcl
        rcases ih with ⟨ev, hev, h2⟩ | h2 | ⟨k, hk, hkind, hok, hreg⟩ | ⟨rfl, h2⟩
        · exact Or.inl ⟨ev, List.mem_cons_of_mem _ hev, h2⟩
        · refine Or.inr (Or.inl ?_)
          rw [keysOf_cons, List.filter_append, List.nodup_append]
          exact fun hn' => h2 hn'.2.1
        · rcases (reg_itemTables it st k hok hni).mp hreg with hreg | hmem
          · exact Or.inr (Or.inr (Or.inl ⟨k, by rw [keysOf_cons]; exact List.mem_append_right _ hk, hkind, hok, hreg⟩))
          · refine Or.inr (Or.inl ?_)
            rw [keysOf_cons, List.filter_append, List.nodup_append]
            intro hn'
            exact hn'.2.2 k (List.mem_filter.mpr ⟨hmem, hkind⟩) k (List.mem_filter.mpr ⟨hk, hkind⟩) rfl
        · refine Or.inr (Or.inr (Or.inr ⟨rfl, ?_⟩))
          rcases h2 with h2 | h2
          · rcases (reg_itemTables it st (.shared reservedKey) validName_reservedKey hni).mp h2 with h3 | h3
            · exact Or.inl h3
            · exact Or.inr (by rw [keysOf_cons]; exact List.mem_append_left _ h3)
          · exact Or.inr (by rw [keysOf_cons]; exact List.mem_append_right _ h2)

end Pyrtma.Registry
