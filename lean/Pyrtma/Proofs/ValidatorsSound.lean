import Pyrtma.Proofs.Validators
import Pyrtma.Spec.ValidatorsExt
/-!
# Lemmas for the soundness half of C09 (accepted ⇒ in the domain, stored, read back) — core Lean only

* byte-level: `writeAt` / `elemBytes` (a later element store does not disturb an earlier one)
* `sliceIndices_spec`: every slice shape `[start:stop:step]` (negative, out of range, extended) selects pairwise
  different element numbers inside the array
* `storeMany_spec`: after a complete element-wise store every selected element holds what its item was stored as and
  every other element is untouched
-/
namespace Pyrtma.Validators

/-! ## bytes -/


theorem writeAt_length (cur : Bytes) (i esz : Nat) (new : Bytes) (hn : new.length = esz)
    (hi : i * esz + esz ≤ cur.length) : (writeAt cur i esz new).length = cur.length := by
  simp [writeAt]; omega

theorem writeAt_getElem? (cur : Bytes) (i esz : Nat) (new : Bytes) (hn : new.length = esz)
    (hi : i * esz + esz ≤ cur.length) (p : Nat) :
    (writeAt cur i esz new)[p]? =
      if p < i * esz then cur[p]? else if p < i * esz + esz then new[p - i * esz]? else cur[p]? := by
  unfold writeAt
  generalize i * esz = a at *
  grind

theorem elemBytes_getElem? (bs : Bytes) (j esz q : Nat) :
    (elemBytes bs j esz)[q]? = if q < esz then bs[j * esz + q]? else none := by
  unfold elemBytes
  grind

theorem elemBytes_length (bs : Bytes) (j esz : Nat) (h : j * esz + esz ≤ bs.length) :
    (elemBytes bs j esz).length = esz := by
  simp [elemBytes]; omega

theorem elemBytes_writeAt_same (cur : Bytes) (i esz : Nat) (new : Bytes) (hn : new.length = esz)
    (hi : i * esz + esz ≤ cur.length) : elemBytes (writeAt cur i esz new) i esz = new := by
  apply List.ext_getElem?
  intro q
  rw [elemBytes_getElem?, writeAt_getElem? _ _ _ _ hn hi]
  generalize i * esz = a at *
  grind

theorem mul_esz_sep {i j esz : Nat} (h : i ≠ j) : j * esz + esz ≤ i * esz ∨ i * esz + esz ≤ j * esz := by
  rcases Nat.lt_or_gt_of_ne h with h | h
  · right
    have := Nat.mul_le_mul_right esz (Nat.succ_le_of_lt h)
    rw [Nat.succ_mul] at this; exact this
  · left
    have := Nat.mul_le_mul_right esz (Nat.succ_le_of_lt h)
    rw [Nat.succ_mul] at this; exact this

theorem elemBytes_writeAt_other (cur : Bytes) (i j esz : Nat) (new : Bytes) (hn : new.length = esz)
    (hi : i * esz + esz ≤ cur.length) (hij : i ≠ j) :
    elemBytes (writeAt cur i esz new) j esz = elemBytes cur j esz := by
  apply List.ext_getElem?
  intro q
  rw [elemBytes_getElem?, elemBytes_getElem?, writeAt_getElem? _ _ _ _ hn hi]
  have := mul_esz_sep (esz := esz) hij
  generalize i * esz = a at *
  generalize j * esz = b at *
  grind

theorem idx_in_range {i n esz : Nat} (h : i < n) : i * esz + esz ≤ esz * n := by
  have := Nat.mul_le_mul_right esz (Nat.succ_le_of_lt h)
  rw [Nat.succ_mul, Nat.mul_comm n esz] at this; exact this


/-! ## slices -/


theorem prog_spec (n : Nat) (A st : Int) (cnt : Nat) (hst : st ≠ 0)
    (hb : ∀ i : Nat, i < cnt → 0 ≤ A + i * st ∧ A + i * st < n) :
    (∀ j ∈ (List.range cnt).map (fun (i : Nat) => (A + (i : Int) * st).toNat), j < n) ∧
    ((List.range cnt).map (fun (i : Nat) => (A + (i : Int) * st).toNat)).Nodup := by
  constructor
  · intro j hj
    simp only [List.mem_map, List.mem_range] at hj
    obtain ⟨i, hi, rfl⟩ := hj
    have := hb i hi
    omega
  · unfold List.Nodup
    rw [List.pairwise_map]
    apply List.Pairwise.imp_of_mem (R := fun a b => a < b) ?_ List.pairwise_lt_range
    intro i j hi hj hij
    simp only [List.mem_range] at hi hj
    have h1 := hb i hi
    have h2 := hb j hj
    have hne : (i : Int) * st ≠ (j : Int) * st := by
      intro he
      have := Int.eq_of_mul_eq_mul_right hst he
      omega
    omega

theorem adjust_pos (l st x : Int) (hl : 0 ≤ l) (hs : 0 < st) : 0 ≤ adjust l st x ∧ adjust l st x ≤ l := by
  unfold adjust; split <;> (try split) <;> (try split) <;> omega

theorem adjust_neg (l st x : Int) (hl : 0 ≤ l) (hs : st < 0) : -1 ≤ adjust l st x ∧ adjust l st x ≤ l - 1 := by
  unfold adjust; split <;> (try split) <;> (try split) <;> omega

theorem prog_bounds_neg (n : Nat) (A B st : Int) (i : Nat) (hA : -1 ≤ A ∧ A ≤ n - 1) (hB : -1 ≤ B ∧ B ≤ n - 1)
    (hneg : st < 0) (hi : i < (if B < A then ((A - B - 1) / (-st) + 1).toNat else 0)) :
    0 ≤ A + i * st ∧ A + i * st < n := by
  split at hi
  · have hq : (i : Int) ≤ (A - B - 1) / (-st) := by omega
    have := (Int.le_ediv_iff_mul_le (by omega : 0 < -st)).mp hq
    have hm : (i : Int) * -st = -((i : Int) * st) := by rw [Int.mul_neg]
    have hnn : 0 ≤ (i : Int) * -st := Int.mul_nonneg (by omega) (by omega)
    omega
  · simp at hi

theorem prog_bounds_pos (n : Nat) (A B st : Int) (i : Nat) (hA : 0 ≤ A ∧ A ≤ n) (hB : 0 ≤ B ∧ B ≤ n)
    (hpos : 0 < st) (hi : i < (if A < B then ((B - A - 1) / st + 1).toNat else 0)) :
    0 ≤ A + i * st ∧ A + i * st < n := by
  split at hi
  · have hq : (i : Int) ≤ (B - A - 1) / st := by omega
    have := (Int.le_ediv_iff_mul_le hpos).mp hq
    have hnn : 0 ≤ (i : Int) * st := Int.mul_nonneg (by omega) (by omega)
    omega
  · simp at hi

theorem sliceIndices_spec (n : Nat) (a b c : Option Int) (idxs : List Nat)
    (h : sliceIndices n a b c = .ok idxs) : (∀ i ∈ idxs, i < n) ∧ idxs.Nodup := by
  unfold sliceIndices at h
  simp only at h
  split at h
  · cases h
  · rename_i hst0
    have hst : c.getD 1 ≠ 0 := by simpa using hst0
    generalize c.getD 1 = st at *
    simp only [Except.ok.injEq] at h
    subst h
    apply prog_spec n _ st _ hst
    intro i hi
    rcases Int.lt_or_gt_of_ne hst with hneg | hpos
    · simp only [hneg, if_true] at hi ⊢
      refine prog_bounds_neg n _ _ st i ?_ ?_ hneg hi
      · cases a with
        | none => simp; omega
        | some x => exact adjust_neg _ _ _ (by omega) hneg
      · cases b with
        | none => simp; omega
        | some x => exact adjust_neg _ _ _ (by omega) hneg
    · have hnn : ¬ st < 0 := by omega
      simp only [hnn, if_false] at hi ⊢
      refine prog_bounds_pos n _ _ st i ?_ ?_ hpos hi
      · cases a with
        | none => simp
        | some x => exact adjust_pos _ _ _ (by omega) hpos
      · cases b with
        | none => simp
        | some x => exact adjust_pos _ _ _ (by omega) hpos


/-! ## the element-wise store -/

theorem storeMany_spec (vk : VK) (n : Nat) :
    ∀ (idxs : List Nat) (xs : List Scalar) (cur post : Bytes),
      cur.length = vk.esize * n → (∀ i ∈ idxs, i < n) → idxs.Nodup → xs.length = idxs.length →
      (∀ x ∈ xs, ∀ b, elemStore vk x = .ok b → b.length = vk.esize) →
      storeMany vk cur idxs xs = (post, none) →
      post.length = cur.length ∧
      (∀ p ∈ idxs.zip xs, elemStore vk p.2 = .ok (elemBytes post p.1 vk.esize)) ∧
      (∀ j, j ∉ idxs → elemBytes post j vk.esize = elemBytes cur j vk.esize)
  | [], xs, cur, post, _, _, _, _, _, h => by
    simp only [storeMany, Prod.mk.injEq, and_true] at h
    subst h
    simp
  | i :: is, [], cur, post, _, _, _, hl, _, _ => by simp at hl
  | i :: is, x :: xs, cur, post, hc, hr, hnd, hl, hb, h => by
    simp only [storeMany] at h
    cases hs : elemStore vk x with
    | error e => simp [hs] at h
    | ok b =>
      simp only [hs] at h
      have hbl : b.length = vk.esize := hb x (by simp) b hs
      have hi : i * vk.esize + vk.esize ≤ cur.length := by
        rw [hc]; exact idx_in_range (hr i (by simp))
      have hnd' := List.nodup_cons.mp hnd
      obtain ⟨h1, h2, h3⟩ := storeMany_spec vk n is xs (writeAt cur i vk.esize b) post
        (by rw [writeAt_length _ _ _ _ hbl hi]; exact hc)
        (fun j hj => hr j (by simp [hj])) hnd'.2 (by simpa using hl)
        (fun y hy => hb y (by simp [hy])) h
      refine ⟨by rw [h1, writeAt_length _ _ _ _ hbl hi], ?_, ?_⟩
      · intro p hp
        simp only [List.zip_cons_cons, List.mem_cons] at hp
        rcases hp with rfl | hp
        · simp only
          rw [h3 i hnd'.1, elemBytes_writeAt_same _ _ _ _ hbl hi, hs]
        · exact h2 p hp
      · intro j hj
        simp only [List.mem_cons, not_or] at hj
        rw [h3 j hj.2, elemBytes_writeAt_other _ _ _ _ _ hbl hi (Ne.symm hj.1)]



/-! ## single elements -/

theorem encFlt_length (k : FK) (b : Nat) : (encFlt k b).length = k.size := by
  cases k <;> simp [encFlt, toLE_length, FK.size]

/-- whatever the ctypes setter stores for a well-formed scalar has the element's size -/
theorem elemStore_length (vk : VK) (x : Scalar) (b : Bytes) (hw : scalarWF vk x = true)
    (hs : elemStore vk x = .ok b) : b.length = vk.esize := by
  cases vk with
  | int k =>
    cases x with
    | int n => simp only [elemStore, Except.ok.injEq] at hs; subst hs; simp [encInt_length, VK.esize]
    | bool c => simp only [elemStore, Except.ok.injEq] at hs; subst hs; simp [encInt_length, VK.esize]
    | cdata t raw =>
      cases t with
      | int k' =>
        simp only [elemStore] at hs
        split at hs
        · rename_i hk; subst hk
          simp only [Except.ok.injEq] at hs; subst hs
          simp only [scalarWF, CT.size, Bool.and_eq_true, beq_iff_eq] at hw
          simpa [VK.esize] using hw.1
        · cases hs
      | _ => simp [elemStore] at hs
    | _ => simp [elemStore] at hs
  | byte =>
    cases x with
    | int n => simp only [elemStore, Except.ok.injEq] at hs; subst hs; simp [encInt_length, VK.esize, IK.size]
    | bool c => simp only [elemStore, Except.ok.injEq] at hs; subst hs; simp [encInt_length, VK.esize, IK.size]
    | cdata t raw =>
      cases t with
      | int k' =>
        cases k' <;> simp only [elemStore] at hs <;> try cases hs
        simp only [scalarWF, CT.size, Bool.and_eq_true, beq_iff_eq] at hw
        simpa [VK.esize, IK.size] using hw.1
      | _ => simp [elemStore] at hs
    | _ => simp [elemStore] at hs
  | flt k =>
    cases x with
    | cdata t raw =>
      cases t with
      | flt k' =>
        simp only [elemStore] at hs
        split at hs
        · rename_i hk; subst hk
          simp only [Except.ok.injEq] at hs; subst hs
          simp only [scalarWF, CT.size, Bool.and_eq_true, beq_iff_eq] at hw
          simpa [VK.esize] using hw.1
        · cases hs
      | _ => simp [elemStore] at hs
    | flt d =>
      simp only [elemStore, toDouble, Except.ok.injEq] at hs; subst hs; simp [encFlt_length, VK.esize]
    | int n =>
      simp only [elemStore] at hs
      split at hs
      · cases hs
      · simp only [Except.ok.injEq] at hs; subst hs; simp [encFlt_length, VK.esize]
    | bool c =>
      simp only [elemStore] at hs
      split at hs
      · cases hs
      · simp only [Except.ok.injEq] at hs; subst hs; simp [encFlt_length, VK.esize]
    | _ => simp [elemStore] at hs
  | strct tid sz =>
    cases x with
    | strct t raw =>
      simp only [elemStore] at hs
      split at hs
      · rename_i ht; subst ht
        simp only [Except.ok.injEq] at hs; subst hs
        simpa [scalarWF, VK.esize] using hw
      · cases hs
    | _ => simp [elemStore] at hs


/-- the Spec's `elemAt` is the model's `elemBytes` -/
theorem elemAt_eq (bs : Bytes) (i esz : Nat) : elemAt bs i esz = elemBytes bs i esz := rfl

/-- stored bytes represent the stored value (every kind but floats) -/
theorem holds1_int (k : IK) (x : Scalar) (b : Bytes) (hs : elemStore (.int k) x = .ok b) :
    holds1 (.int k) x b = true := by
  cases x with
  | int n => simp only [elemStore, Except.ok.injEq] at hs; subst hs; simp [holds1, intVal]
  | bool c => simp only [elemStore, Except.ok.injEq] at hs; subst hs; simp [holds1, intVal]
  | cdata t raw =>
    cases t with
    | int k' =>
      simp only [elemStore] at hs
      split at hs
      · simp only [Except.ok.injEq] at hs; subst hs; simp [holds1]
      · cases hs
    | _ => simp [elemStore] at hs
  | _ => simp [elemStore] at hs

theorem holds1_byte (x : Scalar) (b : Bytes) (hs : elemStore .byte x = .ok b) :
    holds1 .byte x b = true := by
  cases x with
  | int n => simp only [elemStore, Except.ok.injEq] at hs; subst hs; simp [holds1, intVal]
  | bool c => simp only [elemStore, Except.ok.injEq] at hs; subst hs; simp [holds1, intVal]
  | cdata t raw =>
    cases t with
    | int k' =>
      cases k' <;> simp only [elemStore] at hs <;> try cases hs
      simp [holds1]
    | _ => simp [elemStore] at hs
  | _ => simp [elemStore] at hs

theorem holds1_strct (tid sz : Nat) (x : Scalar) (b : Bytes) (hs : elemStore (.strct tid sz) x = .ok b) :
    holds1 (.strct tid sz) x b = true := by
  cases x with
  | strct t raw =>
    simp only [elemStore] at hs
    split at hs
    · simp only [Except.ok.injEq] at hs; subst hs; simp [holds1]
    · cases hs
  | _ => simp [elemStore] at hs

/-! ### validation ⇒ domain -/

theorem validateOne_dom_int (k : IK) (s : Scalar) (h : validateOne (.int k) s = .ok ()) :
    elemDomOne (.int k) s = true := by
  unfold validateOne at h
  cases s with
  | int n =>
    simp only at h
    split at h
    · rename_i hr; simp [elemDomOne, elemDomSeq, intDom, hr]
    · cases h
  | bool b => simp [elemDomOne, elemDomSeq, intDom]
  | cdata t raw =>
    cases t with
    | int k' =>
      simp only at h
      split at h
      · rename_i hk; simp [elemDomOne, elemDomSeq, intDom, hk]
      · cases h
    | _ => cases h
  | _ => cases h

theorem validateOne_dom_byte (s : Scalar) (h : validateOne .byte s = .ok ()) :
    elemDomOne .byte s = true := by
  unfold validateOne at h
  cases s with
  | int n =>
    simp only at h
    split at h
    · rename_i hr; simp [elemDomOne, elemDomSeq, intDom, hr]
    · cases h
  | bool b => simp [elemDomOne, elemDomSeq, intDom]
  | bytes bs =>
    simp only at h
    split at h
    · rename_i hl; simp [elemDomOne, elemDomSeq, intDom, hl]
    · cases h
  | cdata t raw =>
    cases t with
    | int k' => cases k' <;> first | (simp [elemDomOne, elemDomSeq, intDom]; done) | cases h
    | _ => cases h
  | _ => cases h

theorem validateOne_dom_strct (tid sz : Nat) (s : Scalar) (h : validateOne (.strct tid sz) s = .ok ()) :
    elemDomOne (.strct tid sz) s = true := by
  unfold validateOne at h
  cases s with
  | strct t raw =>
    simp only at h
    split at h
    · rename_i ht; simp [elemDomOne, elemDomSeq, ht]
    · cases h
  | _ => cases h

theorem strctMany_dom (tid sz : Nat) (xs : List Scalar) (h : strctMany tid xs = .ok ()) :
    ∀ x ∈ xs, elemDomSeq (.strct tid sz) x = true := by
  unfold strctMany at h
  split at h
  · cases h
  · rename_i hany
    intro x hx
    simp only [List.any_eq_true, not_exists, not_and] at hany
    have := hany x hx
    cases x with
    | strct t raw => simpa [elemDomSeq] using this
    | _ => exact absurd this (by simp)


/-! ## scalar fields -/

/-- the two faces of an accepted scalar store -/
theorem setScalar_ok (vk : VK) (s : Scalar) (post : Bytes) (h : setScalar true vk s = .ok post) :
    validateOne vk s = .ok () ∧
    ((∃ b, vk = .byte ∧ s = .bytes [b] ∧ post = encInt .u8 (b : Int)) ∨ elemStore vk s = .ok post) := by
  unfold setScalar at h
  simp only [if_true] at h
  split at h
  · cases h
  · rename_i u hval
    refine ⟨hval, ?_⟩
    split at h
    · rename_i b _
      left
      refine ⟨b, rfl, rfl, ?_⟩
      simpa [elemStore] using h.symm
    · right; exact h

theorem lift_ok (old post : Bytes) (r : Except PyErr Bytes) (h : lift old r = (post, none)) : r = .ok post := by
  cases r with
  | error e => simp [lift] at h
  | ok b => simp only [lift, Prod.mk.injEq, and_true] at h; rw [h]

theorem int_field_sound (k : IK) (old : Bytes) (key : Key) (v : PyVal) (post : Bytes)
    (hw : valWF (.int k) v = true) (h : setField true (.int k) old key v = (post, none)) :
    inDom (.int k) key v = true ∧ postOk (.int k) key v post (readField (.int k) key post) = true ∧
    post.length = (FTy.int k).size := by
  unfold setField at h
  simp only at h
  split at h
  · rename_i s
    obtain ⟨hval, hst⟩ := setScalar_ok _ _ _ (lift_ok _ _ _ h)
    rcases hst with ⟨b, hb, _, _⟩ | hst
    · cases hb
    · refine ⟨by simpa [inDom] using validateOne_dom_int k s hval, ?_, ?_⟩
      · simp [postOk, readField, readElem, holds1_int k s post hst]
      · simpa [VK.esize, FTy.size] using elemStore_length (.int k) s post (by simpa [valWF] using hw) hst
  · simp at h

theorem strct_field_sound (tid sz : Nat) (old : Bytes) (key : Key) (v : PyVal) (post : Bytes)
    (hw : valWF (.strct tid sz) v = true) (h : setField true (.strct tid sz) old key v = (post, none)) :
    inDom (.strct tid sz) key v = true ∧
    postOk (.strct tid sz) key v post (readField (.strct tid sz) key post) = true ∧
    post.length = (FTy.strct tid sz).size := by
  unfold setField at h
  simp only at h
  split at h
  · rename_i s
    obtain ⟨hval, hst⟩ := setScalar_ok _ _ _ (lift_ok _ _ _ h)
    rcases hst with ⟨b, hb, _, _⟩ | hst
    · cases hb
    · refine ⟨by simpa [inDom] using validateOne_dom_strct tid sz s hval, ?_, ?_⟩
      · simp [postOk, readField, readElem, holds1_strct tid sz s post hst]
      · simpa [VK.esize, FTy.size] using elemStore_length (.strct tid sz) s post (by simpa [valWF] using hw) hst
  · simp at h

theorem byte_field_sound (old : Bytes) (key : Key) (v : PyVal) (post : Bytes)
    (hw : valWF .byte v = true) (h : setField true .byte old key v = (post, none)) :
    inDom .byte key v = true ∧ postOk .byte key v post (readField .byte key post) = true ∧
    post.length = FTy.byte.size := by
  unfold setField at h
  simp only at h
  split at h
  · rename_i s
    obtain ⟨hval, hst⟩ := setScalar_ok _ _ _ (lift_ok _ _ _ h)
    refine ⟨by simpa [inDom] using validateOne_dom_byte s hval, ?_⟩
    rcases hst with ⟨b, _, hs, hp⟩ | hst
    · subst hs hp
      have hb : b < 256 := by simpa [valWF, scalarWF] using hw
      have e : encInt .u8 (b : Int) = [b] := by
        simp only [encInt, IK.size, toLE]
        have : ((b : Int) % (2 ^ (8 * 1) : Int)).toNat = b := by omega
        rw [this]; simp; omega
      simp [postOk, readField, readElem, holds1, e, FTy.size]
    · refine ⟨?_, ?_⟩
      · simp [postOk, readField, readElem, holds1_byte s post hst]
      · simpa [VK.esize, FTy.size] using elemStore_length .byte s post (by simpa [valWF] using hw) hst
  · simp at h

theorem flt_field_sound (hF : FltStoreSound) (k : FK) (old : Bytes) (key : Key) (v : PyVal) (post : Bytes)
    (hw : valWF (.flt k) v = true) (h : setField true (.flt k) old key v = (post, none)) :
    inDom (.flt k) key v = true ∧ postOk (.flt k) key v post (readField (.flt k) key post) = true ∧
    post.length = (FTy.flt k).size := by
  unfold setField at h
  simp only at h
  split at h
  · rename_i s
    obtain ⟨hval, hst⟩ := setScalar_ok _ _ _ (lift_ok _ _ _ h)
    have hws : scalarWF (.flt k) s = true := by simpa [valWF] using hw
    rcases hst with ⟨b, hb, _, _⟩ | hst
    · cases hb
    · have hlen := elemStore_length (.flt k) s post hws hst
      have key : elemDomOne (.flt k) s = true ∧ holds1 (.flt k) s post = true := by
        cases s with
        | cdata t raw =>
          cases t with
          | flt k' =>
            simp only [elemStore] at hst
            split at hst
            · rename_i hk; subst hk
              simp only [Except.ok.injEq] at hst; subst hst
              simp [elemDomOne, holds1]
            · cases hst
          | _ => simp [elemStore] at hst
        | flt d0 =>
          simp only [validateOne, toDouble] at hval
          split at hval
          · cases hval
          · rename_i hinf
            simp only [elemStore, toDouble, Except.ok.injEq] at hst; subst hst
            have := hF k (.flt d0) d0 hws rfl (by simpa using hinf)
            simp [elemDomOne, elemDomSeq, this.1, this.2]
        | int n =>
          simp only [validateOne] at hval
          cases hd : toDouble (.int n) with
          | error e => simp [hd] at hval
          | ok d =>
            simp only [hd] at hval
            split at hval
            · cases hval
            · rename_i hinf
              simp only [elemStore, hd, Except.ok.injEq] at hst; subst hst
              have := hF k (.int n) d hws hd (by simpa using hinf)
              simp [elemDomOne, elemDomSeq, this.1, this.2]
        | bool c =>
          simp only [validateOne] at hval
          cases hd : toDouble (.bool c) with
          | error e => simp [hd] at hval
          | ok d =>
            simp only [hd] at hval
            split at hval
            · cases hval
            · rename_i hinf
              simp only [elemStore, hd, Except.ok.injEq] at hst; subst hst
              have := hF k (.bool c) d hws hd (by simpa using hinf)
              simp [elemDomOne, elemDomSeq, this.1, this.2]
        | _ => simp [elemStore] at hst
      refine ⟨by simpa [inDom] using key.1, ?_, by simpa [VK.esize, FTy.size] using hlen⟩
      cases k <;> simp [postOk, readField, readElem, key.2, sameRead]
  · simp at h


/-! ## array stores -/

theorem storeIdx_ok (vk : VK) (n : Nat) (old : Bytes) (i : Int) (v : PyVal) (post : Bytes)
    (h : storeIdx vk n old i v = .ok post) :
    ∃ s b, v = .sc s ∧ 0 ≤ (if i < 0 then i + n else i) ∧ (if i < 0 then i + n else i) < n ∧
      elemStore vk s = .ok b ∧ post = writeAt old (if i < 0 then i + n else i).toNat vk.esize b := by
  unfold storeIdx at h
  simp only at h
  generalize (if i < 0 then i + (n : Int) else i) = j at h ⊢
  split at h
  · cases h
  · rename_i hr
    split at h
    · rename_i s
      split at h
      · cases h
      · rename_i b hb
        simp only [Except.ok.injEq] at h
        exact ⟨s, b, rfl, by omega, by omega, hb, h.symm⟩
    · cases h

theorem storeSlice_ok (vk : VK) (n : Nat) (old : Bytes) (a b c : Option Int) (v : PyVal) (post : Bytes)
    (h : storeSlice vk n old a b c v = (post, none)) :
    ∃ idxs xs, sliceIndices n a b c = .ok idxs ∧ sized v = true ∧ items v = .ok xs ∧ xs.length = idxs.length ∧
      storeMany vk old idxs xs = (post, none) := by
  unfold storeSlice at h
  split at h
  · simp at h
  · rename_i idxs xs hprep
    unfold slicePrep at hprep
    split at hprep
    · cases hprep
    · rename_i is hsl
      split at hprep
      · cases hprep
      · rename_i hsz
        split at hprep
        · cases hprep
        · rename_i ys hit
          split at hprep
          · cases hprep
          · rename_i hlen
            simp only [Except.ok.injEq, Prod.mk.injEq] at hprep
            obtain ⟨rfl, rfl⟩ := hprep
            exact ⟨is, ys, hsl, by simpa using hsz, hit, by simpa using hlen, h⟩

theorem sliceIndices_whole (n : Nat) : sliceIndices n none none none = .ok (List.range n) := by
  unfold sliceIndices
  simp only [Option.getD_none]
  have h10 : ((1 : Int) == 0) = false := by decide
  have h1n : ¬ ((1 : Int) < 0) := by decide
  simp only [h10, Bool.false_eq_true, if_false, h1n]
  have hc : (if (0 : Int) < (n : Int) then (((n : Int) - 0 - 1) / 1 + 1).toNat else 0) = n := by
    split
    · simp
    · omega
  rw [hc]
  congr 1
  apply List.ext_getElem
  · simp
  · intro i h1 h2
    simp


theorem chunks_eq (sz : Nat) : ∀ (n : Nat) (bs : Bytes),
    chunks sz n bs = (List.range n).map (fun i => elemBytes bs i sz)
  | 0, _ => by simp [chunks]
  | n + 1, bs => by
    rw [chunks, chunks_eq sz n (bs.drop sz), List.range_succ_eq_map]
    simp only [List.map_cons, List.map_map]
    congr 1
    · simp [elemBytes]
    · apply List.map_congr_left
      intro i _
      simp only [elemBytes, Function.comp, List.drop_drop]
      congr 2
      rw [Nat.succ_mul]; omega

theorem decodeItems_eq (vk : VK) (n : Nat) (raw : Bytes) :
    decodeItems vk n raw = (List.range n).map (fun i => decodeOne vk (elemBytes raw i vk.esize)) := by
  unfold decodeItems
  rw [chunks_eq, List.map_map]
  apply List.map_congr_left
  intro i _
  simp only [Function.comp]
  cases vk with
  | flt k => cases k <;> rfl
  | _ => rfl

theorem fromLE_lt : ∀ (c : Bytes), (∀ b ∈ c, b < 256) → fromLE c < 256 ^ c.length
  | [], _ => by simp [fromLE]
  | b :: bs, h => by
    have h1 := fromLE_lt bs (fun x hx => h x (by simp [hx]))
    have h2 : b < 256 := h b (by simp)
    simp only [fromLE, List.length_cons, Nat.pow_succ]
    omega

theorem toLE_fromLE : ∀ (c : Bytes), (∀ b ∈ c, b < 256) → toLE c.length (fromLE c) = c
  | [], _ => by simp [toLE]
  | b :: bs, h => by
    have h2 : b < 256 := h b (by simp)
    simp only [List.length_cons, toLE, fromLE]
    have e1 : (b + 256 * fromLE bs) % 256 = b := by omega
    have e2 : (b + 256 * fromLE bs) / 256 = fromLE bs := by omega
    rw [e1, e2, toLE_fromLE bs (fun x hx => h x (by simp [hx]))]

theorem pow256 (n : Nat) : 256 ^ n = 2 ^ (8 * n) := by
  rw [Nat.pow_mul]

/-- decoding and re-encoding an integer element gives the same bytes -/
theorem encInt_decInt (k : IK) (c : Bytes) (hl : c.length = k.size) (hb : ∀ b ∈ c, b < 256) :
    encInt k (decInt k c) = c := by
  have hlt := fromLE_lt c hb
  rw [hl, pow256] at hlt
  have hrt := toLE_fromLE c hb
  rw [hl] at hrt
  unfold encInt decInt
  have key : ((if (k.signed && decide (fromLE c ≥ 2 ^ (8 * k.size - 1))) = true then
      (fromLE c : Int) - 2 ^ (8 * k.size) else (fromLE c : Int)) % (2 ^ (8 * k.size) : Int)).toNat = fromLE c := by
    generalize fromLE c = u at *
    have hp : (2 : Int) ^ (8 * k.size) = ((2 ^ (8 * k.size) : Nat) : Int) := by simp
    rw [hp]
    generalize 2 ^ (8 * k.size) = P at *
    split
    · have : ((u : Int) - (P : Int)) % (P : Int) = (u : Int) := by
        rw [Int.sub_emod, Int.emod_self, Int.sub_zero, Int.emod_emod_of_dvd _ (Int.dvd_refl _)]
        exact Int.emod_eq_of_lt (by omega) (by omega)
      rw [this]; simp
    · have : (u : Int) % (P : Int) = (u : Int) := Int.emod_eq_of_lt (by omega) (by omega)
      rw [this]; simp
  simp only at key ⊢
  rw [key, hrt]

theorem holds1_decodeOne (vk : VK) (hF : FloatOK vk) (c : Bytes) (hl : c.length = vk.esize)
    (hb : ∀ b ∈ c, b < 256) : holds1 vk (decodeOne vk c) c = true := by
  cases vk with
  | int k =>
    simp only [decodeOne, holds1, intVal, beq_iff_eq]
    exact (encInt_decInt k c hl hb).symm
  | byte =>
    simp only [VK.esize] at hl
    match c, hl with
    | [b], _ => simp [decodeOne, holds1]
  | strct t sz => simp [decodeOne, holds1]
  | flt k => exact (hF k rfl).2.1 k c hl hb


end Pyrtma.Validators
