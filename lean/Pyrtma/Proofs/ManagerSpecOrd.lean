import Pyrtma.Proofs.ManagerSpecDep
/-!
# Refinement of the history-based Spec by the manager model M1 — the whole-history clauses of C05, Spec side

`checkC05_ok`: `Spec.checkC05` adds nothing when no malformed frame was written, nothing was written to a connection after
it failed, the counts on every connection are 1, 2, 3, …, the frames of one sender reach every receiver in order, and any
two receivers see their common frames in the same order.  `relorder_of_sorted`: the last clause for two non-decreasing
sequences in which every common element occurs equally often.
-/
namespace Pyrtma.Mgr.Spec
open Pyrtma.Mgr

/-- a non-decreasing list is determined by how often each number occurs in it -/
theorem sorted_ext : ∀ (l1 l2 : List Nat), l1.Pairwise (· ≤ ·) → l2.Pairwise (· ≤ ·) →
    (∀ k, l1.count k = l2.count k) → l1 = l2
  | [], l2, _, _, h => by
    cases l2 with
    | nil => rfl
    | cons b t => have := h b; simp at this
  | a :: t, [], _, _, h => by have := h a; simp at this
  | a :: t, b :: t2, s1, s2, h => by
    have h1 := List.pairwise_cons.mp s1
    have h2 := List.pairwise_cons.mp s2
    have hab : a = b := by
      have ha2 : a ∈ b :: t2 := by
        have := h a
        rw [List.count_cons_self] at this
        exact List.count_pos_iff.mp (by omega)
      have hb1 : b ∈ a :: t := by
        have := h b
        rw [List.count_cons_self (a := b) (l := t2)] at this
        exact List.count_pos_iff.mp (by omega)
      have hle1 : a ≤ b := by
        rcases List.mem_cons.mp hb1 with x | x
        · omega
        · exact h1.1 b x
      have hle2 : b ≤ a := by
        rcases List.mem_cons.mp ha2 with x | x
        · omega
        · exact h2.1 a x
      omega
    subst hab
    congr 1
    refine sorted_ext t t2 h1.2 h2.2 (fun k => ?_)
    have := h k
    simp only [List.count_cons] at this
    omega

theorem count_filter_contains (l m : List Nat) (k : Nat) :
    (l.filter (m.contains ·)).count k = if k ∈ m then l.count k else 0 := by
  by_cases hk : k ∈ m
  · rw [if_pos hk, List.count_filter (by simpa using hk)]
  · rw [if_neg hk]
    apply List.count_eq_zero.mpr
    intro hmem
    have := (List.mem_filter.mp hmem).2
    exact hk (by simpa using this)

/-- two receivers see their common frames in the same order: both sequences are non-decreasing and a common frame occurs
    equally often in both -/
theorem relorder_of_sorted (ku kv : List Nat) (su : ku.Pairwise (· ≤ ·)) (sv : kv.Pairwise (· ≤ ·))
    (hm : ∀ k, k ∈ ku → k ∈ kv → ku.count k = kv.count k) :
    ku.filter (kv.contains ·) = kv.filter (ku.contains ·) := by
  refine sorted_ext _ _ (su.filter _) (sv.filter _) (fun k => ?_)
  rw [count_filter_contains, count_filter_contains]
  by_cases h1 : k ∈ ku <;> by_cases h2 : k ∈ kv
  · simp [h1, h2, hm k h1 h2]
  · simp [h1, h2, List.count_eq_zero.mpr h2]
  · simp [h1, h2, List.count_eq_zero.mpr h1]
  · simp [h1, h2]

/-- **Every clause of `checkC05`.** -/
theorem checkC05_ok (a : A) (all : List Ev) (senderOf : Nat → Nat)
    (hb : (sends all).filter (fun p => brokenFrame p.2.2) = [])
    (hafter : ∀ u, (sends ((all.dropWhile (fun e => !(e == .wfail u || e == .close u))).drop 1)).any (·.1 == u) = false)
    (hiota : ∀ u, isIota (countsOf all u) = true)
    (hfifo : ∀ u s, (((dataKs all u).filter (fun k => senderOf k == s)).zip
      (((dataKs all u).filter (fun k => senderOf k == s)).drop 1)).all (fun p => decide (p.1 ≤ p.2)) = true)
    (hrel : ∀ u v, (dataKs all u).filter ((dataKs all v).contains ·) = (dataKs all v).filter ((dataKs all u).contains ·)) :
    checkC05 a all senderOf = a := by
  unfold checkC05
  extract_lets broken a1 a2 uids a3 a4
  have hbe : broken = [] := hb
  have e1 : a1 = a := by show a.chk _ _ _ = a; exact chk_of _ _ _ _ (by rw [hbe]; rfl)
  have e2 : a2 = a := by show a1.chk _ _ _ = a; rw [e1]; exact chk_of _ _ _ _ (by rw [hbe]; rfl)
  have e3 : a3 = a := by
    show List.foldl _ a2 uids = a
    rw [e2]
    refine foldl_fix _ _ _ (fun u _ => ?_)
    dsimp only
    rw [chk_of _ _ "C05" _ (hiota u), chk_of _ _ "C07" _ (by rw [hafter u]; rfl)]
  have e4 : a4 = a := by
    show List.foldl _ a3 uids = a
    rw [e3]
    refine foldl_fix _ _ _ (fun u _ => foldl_fix _ _ _ (fun s _ => ?_))
    exact chk_of _ _ _ _ (hfifo u s)
  show List.foldl _ a4 uids = a
  rw [e4]
  refine foldl_fix _ _ _ (fun u _ => foldl_fix _ _ _ (fun v _ => ?_))
  split
  · rfl
  · exact chk_of _ _ _ _ (by rw [hrel u v]; exact beq_self_eq_true _)

end Pyrtma.Mgr.Spec
