import Pyrtma.Model.Heap
/-! Lemmas for the storage model of C10 (`Model/Heap.lean`): allocation and write frames, `from_buffer_copy`.  Core Lean only. -/
namespace Pyrtma.Heap
open Pyrtma.Validators

theorem buf_append_old (s : St) (b : Bytes) (a : Nat) (h : a < s.heap.length) : (s.alloc b).1.buf a = s.buf a := by
  simp [St.alloc, St.buf, List.getD_eq_getElem?_getD, List.getElem?_append_left h]

theorem buf_append_new (s : St) (b : Bytes) : (s.alloc b).1.buf s.heap.length = b := by
  simp [St.alloc, St.buf, List.getD_eq_getElem?_getD]

/-- an allocation changes no live object -/
theorem alloc_frame (s : St) (b : Bytes) (r : Ref) (hr : s.valid r) : (s.alloc b).1.read r = s.read r := by
  simp only [St.read, buf_append_old s b r.addr hr.1]

theorem alloc_valid (s : St) (b : Bytes) (r : Ref) (hr : s.valid r) : (s.alloc b).1.valid r := by
  refine ⟨?_, ?_⟩
  · simp [St.alloc]; have := hr.1; omega
  · rw [buf_append_old s b r.addr hr.1]; exact hr.2

/-- a write through one buffer changes no object living in another buffer -/
theorem write_frame (s : St) (r1 r2 : Ref) (off : Nat) (data : Bytes) (h : r1.addr ≠ r2.addr) :
    (s.write r1 off data).read r2 = s.read r2 := by
  unfold St.write
  split
  · simp only [St.read, St.buf, List.getD_eq_getElem?_getD, List.getElem?_set_ne h]
  · rfl

theorem slice_length (b : Bytes) (off n : Nat) (h : off + n ≤ b.length) : (slice b off n).length = n := by
  simp [slice]; omega

theorem slice_zero_all (b : Bytes) : slice b 0 b.length = b := by simp [slice]

/-- what `from_buffer_copy` does, in one statement: the new object has the requested class, lives alone in a buffer no
live object is in, holds the first `size` bytes of the source; every live object is still valid and unchanged -/
theorem copyAs_spec (s : St) (cls size : Nat) (src : Ref) (hv : s.valid src) (hs : size ≤ src.size) :
    ∃ s' c, s.copyAs cls size src = some (s', c) ∧ c.cls = cls ∧
      c.ref = { addr := s.heap.length, off := 0, size := size } ∧
      s'.read c.ref = slice (s.read src) 0 size ∧ s'.valid c.ref ∧
      (∀ r, s.valid r → s'.valid r ∧ s'.read r = s.read r ∧ r.addr ≠ c.ref.addr) := by
  have hlen : (slice (s.buf src.addr) src.off size).length = size :=
    slice_length _ _ _ (by have := hv.2; omega)
  refine ⟨(s.alloc (slice (s.buf src.addr) src.off size)).1,
    { cls := cls, ref := { addr := s.heap.length, off := 0, size := size } }, ?_, rfl, rfl, ?_, ?_, ?_⟩
  · simp only [St.copyAs, hs, if_true, St.alloc]
  · simp only [St.read, buf_append_new]
    simp only [slice, List.drop_zero, List.take_take, Nat.min_self, Nat.min_eq_left hs]
  · refine ⟨by simp [St.alloc], ?_⟩
    simp only [buf_append_new, hlen]; omega
  · intro r hr
    exact ⟨alloc_valid s _ r hr, alloc_frame s _ r hr, by have := hr.1; simp; omega⟩

end Pyrtma.Heap
