import Pyrtma.Spec.Manager
/-!
# Refinement of the history-based Spec by the manager model M1 — part 2: the Spec side

Frame lemmas about the functions of `Spec/Manager.lean`, independent of the model:

* `ErrExt T a a'`: `a'` is `a` with error entries appended whose property tags are all in `T` — every checker
  (`checkDepartures`, `checkAcks`, `checkData`, `checkInfos`, `checkTiming`, `checkTraffic`, `checkC05`, …) is such an
  extension for the tags it can report, so a property `P` can only fail through the checkers that carry its tag;
* normal forms of the abstract-table updates (`A.upd`, `applyDepartures`) as seen through `A.get`;
* `splitRd` on a log of the shape `pre ++ rd u₁ :: seg₁ ++ rd u₂ :: seg₂ ++ …`.
-/
namespace Pyrtma.Mgr.Spec
open Pyrtma.Mgr

/-! ## error extensions -/

def ErrExt (T : List String) (a a' : A) : Prop :=
  ∃ new : List (String × String), a' = { a with errs := a.errs ++ new } ∧ ∀ e ∈ new, e.1 ∈ T

theorem ErrExt.refl (T : List String) (a : A) : ErrExt T a a := ⟨[], by simp, by simp⟩

theorem ErrExt.trans {T : List String} {a b c : A} (h1 : ErrExt T a b) (h2 : ErrExt T b c) : ErrExt T a c := by
  obtain ⟨n1, e1, t1⟩ := h1
  obtain ⟨n2, e2, t2⟩ := h2
  refine ⟨n1 ++ n2, by subst e1; subst e2; simp, fun e he => ?_⟩
  rcases List.mem_append.mp he with h | h
  · exact t1 e h
  · exact t2 e h

theorem ErrExt.mono {T T' : List String} {a b : A} (h : ErrExt T a b) (hs : ∀ p, p ∈ T → p ∈ T') : ErrExt T' a b := by
  obtain ⟨n, e, t⟩ := h
  exact ⟨n, e, fun x hx => hs _ (t x hx)⟩

theorem errExt_err (T : List String) (a : A) (p c : String) (hp : p ∈ T) : ErrExt T a (a.err p c) :=
  ⟨[(p, c)], rfl, by simp [hp]⟩

theorem errExt_chk (T : List String) (a : A) (ok : Bool) (p c : String) (hp : p ∈ T) : ErrExt T a (a.chk ok p c) := by
  unfold A.chk; split
  · exact ErrExt.refl T a
  · exact errExt_err T a p c hp

theorem ErrExt.chk {T : List String} {a b : A} (h : ErrExt T a b) (ok : Bool) (p c : String) (hp : p ∈ T) :
    ErrExt T a (b.chk ok p c) := h.trans (errExt_chk T b ok p c hp)

theorem errExt_foldl {β : Type} (T : List String) (f : A → β → A) (hf : ∀ x y, ErrExt T x (f x y)) :
    ∀ (l : List β) (a : A), ErrExt T a (l.foldl f a)
  | [], a => ErrExt.refl T a
  | y :: rest, a => (hf a y).trans (errExt_foldl T f hf rest (f a y))

theorem ErrExt.foldl {β : Type} {T : List String} {a b : A} (h : ErrExt T a b) (f : A → β → A) (l : List β)
    (hf : ∀ x y, ErrExt T x (f x y)) : ErrExt T a (l.foldl f b) := h.trans (errExt_foldl T f hf l b)

/-- fields other than `errs` are untouched -/
theorem ErrExt.mods {T a a'} (h : ErrExt T a a') : a'.mods = a.mods := by obtain ⟨_, e, _⟩ := h; subst e; rfl
theorem ErrExt.buf {T a a'} (h : ErrExt T a a') : a'.buf = a.buf := by obtain ⟨_, e, _⟩ := h; subst e; rfl
theorem ErrExt.fail {T a a'} (h : ErrExt T a a') : a'.fail = a.fail := by obtain ⟨_, e, _⟩ := h; subst e; rfl
theorem ErrExt.w {T a a'} (h : ErrExt T a a') : a'.w = a.w := by obtain ⟨_, e, _⟩ := h; subst e; rfl
theorem ErrExt.nAccepted {T a a'} (h : ErrExt T a a') : a'.nAccepted = a.nAccepted := by
  obtain ⟨_, e, _⟩ := h; subst e; rfl

/-- no entry for property `p` -/
def NoErr (p : String) (a : A) : Prop := ∀ e ∈ a.errs, e.1 ≠ p

theorem ErrExt.noErr {T : List String} {a a' : A} {p : String} (h : ErrExt T a a') (hp : p ∉ T) (hn : NoErr p a) :
    NoErr p a' := by
  obtain ⟨n, e, t⟩ := h
  subst e
  intro x hx
  rcases List.mem_append.mp hx with h | h
  · exact hn x h
  · intro e; exact hp (e ▸ t x h)

theorem noErr_iff_filter (p : String) (a : A) : NoErr p a ↔ a.errs.filter (·.1 == p) = [] := by
  unfold NoErr
  rw [List.filter_eq_nil_iff]
  constructor
  · intro h e he; simpa using h e he
  · intro h e he; simpa using h e he


/-! ## every checker is an error extension for its own tags -/

theorem checkDepartures_ext (cfg : Cfg) (a : A) (md : Option Nat) (evs : List Ev) :
    ErrExt ["C07", "C14"] a (checkDepartures cfg a md evs) := by
  unfold checkDepartures
  extract_lets xs wf a1 a2 a3 a4 notices a5 observers a6 owed fobs
  have h1 : ErrExt ["C07", "C14"] a a1 := by
    show ErrExt _ a (match md with | some u => _ | none => a)
    split
    · exact errExt_chk _ _ _ _ _ (by simp)
    · exact ErrExt.refl _ _
  have h2 : ErrExt ["C07", "C14"] a a2 := h1.foldl _ _ (fun x y => errExt_chk _ _ _ _ _ (by simp))
  have h3 : ErrExt ["C07", "C14"] a a3 := h2.foldl _ _ (fun x y => errExt_chk _ _ _ _ _ (by simp))
  have h4 : ErrExt ["C07", "C14"] a a4 := h3.chk _ _ _ (by simp)
  have h5 : ErrExt ["C07", "C14"] a a5 := h4.foldl _ _ (fun x y => errExt_chk _ _ _ _ _ (by simp))
  have h6 : ErrExt ["C07", "C14"] a a6 := h5.foldl _ _ (fun x y => errExt_foldl _ _ (fun x' y' => by
    split
    · exact ErrExt.refl _ _
    · exact errExt_chk _ _ _ _ _ (by simp)) _ _)
  exact h6.foldl _ _ (fun x y => errExt_foldl _ _ (fun x' y' => errExt_chk _ _ _ _ _ (by simp)) _ _)

theorem checkAcks_ext (cfg : Cfg) (a : A) (u : Nat) (expect : Bool) (evs : List Ev) :
    ErrExt ["C19"] a (checkAcks cfg a u expect evs) := by
  unfold checkAcks
  extract_lets acks _c toU
  split
  · exact errExt_chk _ _ _ _ _ (by simp)
  · split
    · exact ErrExt.refl _ _
    · extract_lets a1 a2 a3
      have h1 : ErrExt ["C19"] a a1 := errExt_chk _ _ _ _ _ (by simp)
      have h2 : ErrExt ["C19"] a a2 := by
        simp only [a2]
        split
        · exact h1
        · exact h1.chk _ _ _ (by simp)
      refine h2.foldl _ _ (fun x y => ?_)
      dsimp only
      split
      · exact ErrExt.refl _ _
      · split
        · split
          · exact ErrExt.refl _ _
          · split <;> exact errExt_chk _ _ _ _ _ (by simp)
        · exact errExt_chk _ _ _ _ _ (by simp)

theorem checkInfos_ext (a : A) (evs : List Ev) : ErrExt ["C06"] a (checkInfos a evs) := by
  unfold checkInfos
  refine errExt_foldl _ _ (fun x p => ?_) _ _
  split
  · split
    · split
      · exact ErrExt.refl _ _
      · exact errExt_chk _ _ _ _ _ (by simp)
    · exact ErrExt.refl _ _
  · exact ErrExt.refl _ _

theorem checkData_ext (cfg : Cfg) (a : A) (h : Hdr) (evs : List Ev) :
    ErrExt ["C01", "C14"] a (checkData cfg a h evs) := by
  unfold checkData
  extract_lets t inRange copies mine a1 a2 subs expected a3 a4 hears undeliv observers a5
  have h1 : ErrExt ["C01", "C14"] a a1 := errExt_chk _ _ _ _ _ (by simp)
  have h2 : ErrExt ["C01", "C14"] a a2 := h1.chk _ _ _ (by simp)
  split
  · exact h2
  · have h3 : ErrExt ["C01", "C14"] a a3 := h2.foldl _ _ (fun x y => errExt_chk _ _ _ _ _ (by simp))
    have h4 : ErrExt ["C01", "C14"] a a4 := h3.foldl _ _ (fun x y => errExt_chk _ _ _ _ _ (by simp))
    split
    · exact h4
    · exact h4.foldl _ _ (fun x y => errExt_foldl _ _ (fun x' y' => errExt_chk _ _ _ _ _ (by simp)) _ _)

theorem checkNoNotice_ext (cfg : Cfg) (a : A) (all : List Ev) : ErrExt ["C14"] a (checkNoNoticeAboutNotices cfg a all) := by
  unfold checkNoNoticeAboutNotices
  exact errExt_chk _ _ _ _ _ (by simp)

theorem checkC05_ext (a : A) (all : List Ev) (senderOf : Nat → Nat) :
    ErrExt ["C05", "C03", "C07"] a (checkC05 a all senderOf) := by
  unfold checkC05
  extract_lets broken a1 a2 uids a3 a4
  have h1 : ErrExt ["C05", "C03", "C07"] a a1 := errExt_chk _ _ _ _ _ (by simp)
  have h2 : ErrExt ["C05", "C03", "C07"] a a2 := h1.chk _ _ _ (by simp)
  have h3 : ErrExt ["C05", "C03", "C07"] a a3 := h2.foldl _ _ (fun x y => by
    dsimp only
    exact (errExt_chk _ _ _ _ _ (by simp)).chk _ _ _ (by simp))
  have h4 : ErrExt ["C05", "C03", "C07"] a a4 := h3.foldl _ _ (fun x y =>
    errExt_foldl _ _ (fun x' y' => errExt_chk _ _ _ _ _ (by simp)) _ _)
  refine h4.foldl _ _ (fun x y => errExt_foldl _ _ (fun x' y' => ?_) _ _)
  split
  · exact ErrExt.refl _ _
  · exact errExt_chk _ _ _ _ _ (by simp)


theorem checkTiming_ext (cfg : Cfg) (a : A) (evs : List Ev) : ErrExt ["C18"] a (checkTiming cfg a evs) := by
  unfold checkTiming
  refine errExt_foldl _ _ (fun x p => ?_) _ _
  split
  · extract_lets a1 a2 a3
    have h1 : ErrExt ["C18"] x a1 := errExt_foldl _ _ (fun x' y' => by
      split
      · exact errExt_chk _ _ _ _ _ (by simp)
      · exact ErrExt.refl _ _) _ _
    have h2 : ErrExt ["C18"] x a2 := h1.foldl _ _ (fun x' y' => by
      split
      · exact ErrExt.refl _ _
      · exact errExt_chk _ _ _ _ _ (by simp))
    have h3 : ErrExt ["C18"] x a3 := h2.foldl _ _ (fun x' y' => by
      split
      · exact errExt_chk _ _ _ _ _ (by simp)
      · exact ErrExt.refl _ _)
    refine h3.foldl _ _ (fun x' y' => ?_)
    split
    · exact errExt_chk _ _ _ _ _ (by simp)
    · exact ErrExt.refl _ _
  · exact ErrExt.refl _ _

theorem checkTraffic_ext (cfg : Cfg) (a : A) (evs : List Ev) : ErrExt ["C18"] a (checkTraffic cfg a evs) := by
  unfold checkTraffic
  extract_lets tr observers xs owed a1
  have h1 : ErrExt ["C18"] a a1 := by
    simp only [a1]
    split
    · exact ErrExt.refl _ _
    · exact errExt_foldl _ _ (fun x' y' => errExt_chk _ _ _ _ _ (by simp)) _ _
  refine h1.foldl _ _ (fun x o => ?_)
  extract_lets mine subsOk b1 b2 entries b3 tys b4 b5 b6
  have g1 : ErrExt ["C18"] x b1 := errExt_chk _ _ _ _ _ (by simp)
  have g2 : ErrExt ["C18"] x b2 := g1.chk _ _ _ (by simp)
  have g3 : ErrExt ["C18"] x b3 := g2.chk _ _ _ (by simp)
  have g4 : ErrExt ["C18"] x b4 := g3.chk _ _ _ (by simp)
  have g5 : ErrExt ["C18"] x b5 := g4.foldl _ _ (fun x' y' => errExt_chk _ _ _ _ _ (by simp))
  have g6 : ErrExt ["C18"] x b6 := g5.foldl _ _ (fun x' y' => by
    split
    · exact ErrExt.refl _ _
    · exact errExt_chk _ _ _ _ _ (by simp))
  refine g6.foldl _ _ (fun x' y' => ?_)
  split
  · exact errExt_chk _ _ _ _ _ (by simp)
  · exact ErrExt.refl _ _

/-! ## extensions that may also move the statistics / timer fields -/

/-- the abstract table, the buffer, the failure environment, the writable set and the accept counter are unchanged;
    error entries with tags in `T` may have been appended; the statistics fields are unconstrained -/
structure CoreExt (T : List String) (a a' : A) : Prop where
  mods : a'.mods = a.mods
  buf : a'.buf = a.buf
  fail : a'.fail = a.fail
  w : a'.w = a.w
  nAccepted : a'.nAccepted = a.nAccepted
  errs : ∃ new : List (String × String), a'.errs = a.errs ++ new ∧ ∀ e ∈ new, e.1 ∈ T

theorem ErrExt.core {T a a'} (h : ErrExt T a a') : CoreExt T a a' := by
  obtain ⟨n, e, t⟩ := h
  subst e
  exact ⟨rfl, rfl, rfl, rfl, rfl, n, rfl, t⟩

theorem CoreExt.refl (T : List String) (a : A) : CoreExt T a a := (ErrExt.refl T a).core

theorem CoreExt.trans {T : List String} {a b c : A} (h1 : CoreExt T a b) (h2 : CoreExt T b c) : CoreExt T a c := by
  refine ⟨h2.mods.trans h1.mods, h2.buf.trans h1.buf, h2.fail.trans h1.fail, h2.w.trans h1.w,
    h2.nAccepted.trans h1.nAccepted, ?_⟩
  obtain ⟨n1, e1, t1⟩ := h1.errs
  obtain ⟨n2, e2, t2⟩ := h2.errs
  refine ⟨n1 ++ n2, by rw [e2, e1, List.append_assoc], fun e he => ?_⟩
  rcases List.mem_append.mp he with h | h
  · exact t1 e h
  · exact t2 e h

theorem CoreExt.mono {T T' : List String} {a b : A} (h : CoreExt T a b) (hs : ∀ p, p ∈ T → p ∈ T') : CoreExt T' a b := by
  obtain ⟨n, e, t⟩ := h.errs
  exact ⟨h.mods, h.buf, h.fail, h.w, h.nAccepted, n, e, fun x hx => hs _ (t x hx)⟩

theorem coreExt_foldl {β : Type} (T : List String) (f : A → β → A) (hf : ∀ x y, CoreExt T x (f x y)) :
    ∀ (l : List β) (a : A), CoreExt T a (l.foldl f a)
  | [], a => CoreExt.refl T a
  | y :: rest, a => (hf a y).trans (coreExt_foldl T f hf rest (f a y))

theorem CoreExt.noErr {T : List String} {a a' : A} {p : String} (h : CoreExt T a a') (hp : p ∉ T) (hn : NoErr p a) :
    NoErr p a' := by
  obtain ⟨n, e, t⟩ := h.errs
  intro x hx
  rw [e] at hx
  rcases List.mem_append.mp hx with h | h
  · exact hn x h
  · intro e; exact hp (e ▸ t x h)

/-- only statistics / timer fields differ -/
theorem coreExt_stats (T : List String) {a a' : A} (hm : a'.mods = a.mods) (hb : a'.buf = a.buf) (hf : a'.fail = a.fail)
    (hw : a'.w = a.w) (hn : a'.nAccepted = a.nAccepted) (he : a'.errs = a.errs) : CoreExt T a a' :=
  ⟨hm, hb, hf, hw, hn, [], by simp [he], by simp⟩

theorem noteMgrFrames_ext (cfg : Cfg) (a : A) (evs : List Ev) : CoreExt [] a (noteMgrFrames cfg a evs) := by
  unfold noteMgrFrames
  refine coreExt_foldl _ _ (fun x p => ?_) _ _
  split <;> first | exact CoreExt.refl _ _ | exact coreExt_stats _ rfl rfl rfl rfl rfl rfl

theorem tail_ext (cfg : Cfg) (a : A) (evs : List Ev) : CoreExt ["C18"] a (tail cfg a evs) := by
  unfold tail
  extract_lets tick1 a1 a2 tick2 a3 a4 a5
  have h1 : CoreExt ["C18"] a a1 := by
    simp only [a1]; split
    · exact (checkTiming_ext cfg a evs).core
    · exact (errExt_chk _ _ _ _ _ (by simp)).core
  have h2 : CoreExt ["C18"] a a2 := by
    simp only [a2]; split
    · exact h1.trans (coreExt_stats _ rfl rfl rfl rfl rfl rfl)
    · exact h1
  have h3 : CoreExt ["C18"] a a3 := by
    simp only [a3]; split
    · exact h2.trans (checkTraffic_ext cfg a2 evs).core
    · exact h2
  have h4 : CoreExt ["C18"] a a4 := by
    simp only [a4]; split
    · exact h3.trans (coreExt_stats _ rfl rfl rfl rfl rfl rfl)
    · exact h3
  show CoreExt ["C18"] a a5
  simp only [a5]; split
  · exact h4.trans (coreExt_stats _ rfl rfl rfl rfl rfl rfl)
  · exact h4


/-! ## the abstract table seen through `A.get` -/

theorem get_uid {a : A} {u : Nat} {m : AMod} (h : a.get u = some m) : m.uid = u := by
  unfold A.get at h; have := List.find?_some h; simpa using this

theorem get_mem {a : A} {u : Nat} {m : AMod} (h : a.get u = some m) : m ∈ a.mods := by
  unfold A.get at h; exact List.mem_of_find?_eq_some h

theorem aget_map (l : List AMod) (g : AMod → AMod) (hg : ∀ m, (g m).uid = m.uid) (v : Nat) :
    (l.map g).find? (·.uid == v) = (l.find? (·.uid == v)).map g := by
  induction l with
  | nil => rfl
  | cons x l ih =>
    simp only [List.map_cons, List.find?_cons, hg]
    cases (x.uid == v) <;> simp [ih]

theorem get_upd (a : A) (u v : Nat) (f : AMod → AMod) (hf : ∀ m, (f m).uid = m.uid) :
    (a.upd u f).get v = (a.get v).map (fun m => if m.uid == u then f m else m) := by
  unfold A.upd A.get
  exact aget_map _ _ (by intro m; split <;> simp [hf]) v

theorem get_upd_self (a : A) (u : Nat) (f : AMod → AMod) (hf : ∀ m, (f m).uid = m.uid) {m : AMod}
    (h : a.get u = some m) : (a.upd u f).get u = some (f m) := by
  rw [get_upd a u u f hf, h]; simp [get_uid h]

theorem get_upd_ne (a : A) (u v : Nat) (f : AMod → AMod) (hf : ∀ m, (f m).uid = m.uid) (hne : v ≠ u) :
    (a.upd u f).get v = a.get v := by
  rw [get_upd a u v f hf]
  cases h : a.get v with
  | none => rfl
  | some m =>
    have h1 := get_uid h
    have h2 : (m.uid == u) = false := by rw [h1]; simpa using hne
    simp only [Option.map_some, h2, Bool.false_eq_true, if_false]

theorem uids_upd (a : A) (u : Nat) (f : AMod → AMod) (hf : ∀ m, (f m).uid = m.uid) :
    (a.upd u f).mods.map (·.uid) = a.mods.map (·.uid) := by
  unfold A.upd
  simp only [List.map_map]
  apply List.map_congr_left
  intro m _
  simp only [Function.comp]
  split
  · exact hf m
  · rfl

/-- mark as departed -/
def kill (m : AMod) : AMod := { m with alive := false, connected := false }

def killIn (l : List Nat) (m : AMod) : AMod := if l.contains m.uid then kill m else m

theorem applyDepartures_eq (a : A) (evs : List Ev) :
    applyDepartures a evs = { a with mods := a.mods.map (killIn (closes evs)) } := by
  unfold applyDepartures
  generalize closes evs = l
  induction l generalizing a with
  | nil =>
    have : a.mods.map (killIn []) = a.mods := by
      rw [List.map_congr_left (g := id)]; · simp
      intro m _; simp [killIn]
    simp [this]
  | cons v l ih =>
    rw [List.foldl_cons, ih]
    unfold A.upd
    simp only [List.map_map]
    congr 1
    apply List.map_congr_left
    intro m _
    simp only [Function.comp, killIn, List.contains_cons]
    by_cases h1 : m.uid = v
    · subst h1
      simp only [beq_self_eq_true, if_true, Bool.true_or]
      show (if l.contains (kill m).uid then kill (kill m) else kill m) = kill m
      split <;> rfl
    · have : (m.uid == v) = false := by simpa using h1
      simp [this]

theorem applyDepartures_core (a : A) (evs : List Ev) :
    (applyDepartures a evs).buf = a.buf ∧ (applyDepartures a evs).fail = a.fail ∧ (applyDepartures a evs).w = a.w ∧
    (applyDepartures a evs).nAccepted = a.nAccepted ∧ (applyDepartures a evs).errs = a.errs := by
  rw [applyDepartures_eq]; exact ⟨rfl, rfl, rfl, rfl, rfl⟩

theorem applyDepartures_uids (a : A) (evs : List Ev) :
    (applyDepartures a evs).mods.map (·.uid) = a.mods.map (·.uid) := by
  rw [applyDepartures_eq]
  simp only [List.map_map]
  apply List.map_congr_left
  intro m _
  simp only [Function.comp, killIn]
  split <;> rfl

theorem applyDepartures_get (a : A) (evs : List Ev) (v : Nat) :
    (applyDepartures a evs).get v = (a.get v).map (killIn (closes evs)) := by
  rw [applyDepartures_eq]
  unfold A.get
  exact aget_map _ _ (by intro m; unfold killIn; split <;> rfl) v

/-- the live entry of `u` -/
def A.live (a : A) (u : Nat) : Option AMod :=
  match a.get u with
  | some m => if m.alive then some m else none
  | none => none

theorem live_some {a : A} {u : Nat} {m : AMod} : a.live u = some m ↔ a.get u = some m ∧ m.alive = true := by
  unfold A.live
  cases h : a.get u with
  | none => simp
  | some x =>
    by_cases hx : x.alive = true
    · simp only [hx, if_true, Option.some.injEq]
      constructor
      · intro e; subst e; exact ⟨rfl, hx⟩
      · intro e; exact e.1
    · simp only [hx, Bool.false_eq_true, if_false]
      constructor
      · intro e; cases e
      · intro ⟨e, ha⟩; cases e; exact absurd ha hx

theorem applyDepartures_live (a : A) (evs : List Ev) (v : Nat) :
    (applyDepartures a evs).live v = if (closes evs).contains v then none else a.live v := by
  unfold A.live
  rw [applyDepartures_get]
  cases h : a.get v with
  | none => simp
  | some m =>
    have hu := get_uid h
    simp only [Option.map_some, killIn, hu]
    split
    · simp [kill]
    · rfl

/-- `applyDepartures` commutes with error extensions -/
theorem applyDepartures_coreExt {T : List String} {a a' : A} (h : CoreExt T a a') (evs : List Ev) :
    CoreExt T (applyDepartures a evs) (applyDepartures a' evs) := by
  rw [applyDepartures_eq, applyDepartures_eq]
  exact ⟨by simp [h.mods], h.buf, h.fail, h.w, h.nAccepted, h.errs⟩

end Pyrtma.Mgr.Spec
