import Pyrtma.Spec.Manager
/-!
# Refinement of the history-based Spec by the manager model M1 — part 2: the Spec side

Frame lemmas about the functions of `Spec/Manager.lean`, independent of the model:

* `ErrExt T a a'`: `a'` is `a` with error entries appended whose property tags are all in `T` — every checker
  (`checkDepartures`, `checkAcks`, `checkData`, `checkInfos`, `checkTiming`, `checkTraffic`, `checkC05`, …) is such an
  extension for the tags it can report, so a property `P` can only fail through the checkers that carry its tag;
* normal forms of the abstract-table updates (`A.upd`, `applyDepartures`) as seen through `A.get`;
* `splitRd` on a log of the shape `pre ++ rd u₁ :: seg₁ ++ rd u₂ :: seg₂ ++ …`.
-/
namespace Pyrtma.Mgr.Spec
open Pyrtma.Mgr

/-! ## error extensions -/

def ErrExt (T : List String) (a a' : A) : Prop :=
  ∃ new : List (String × String), a' = { a with errs := a.errs ++ new } ∧ ∀ e ∈ new, e.1 ∈ T

theorem ErrExt.refl (T : List String) (a : A) : ErrExt T a a := ⟨[], by simp, by simp⟩

theorem ErrExt.trans {T : List String} {a b c : A} (h1 : ErrExt T a b) (h2 : ErrExt T b c) : ErrExt T a c := by
  obtain ⟨n1, e1, t1⟩ := h1
  obtain ⟨n2, e2, t2⟩ := h2
  refine ⟨n1 ++ n2, by subst e1; subst e2; simp, fun e he => ?_⟩
  rcases List.mem_append.mp he with h | h
  · exact t1 e h
  · exact t2 e h

theorem ErrExt.mono {T T' : List String} {a b : A} (h : ErrExt T a b) (hs : ∀ p, p ∈ T → p ∈ T') : ErrExt T' a b := by
  obtain ⟨n, e, t⟩ := h
  exact ⟨n, e, fun x hx => hs _ (t x hx)⟩

theorem errExt_err (T : List String) (a : A) (p c : String) (hp : p ∈ T) : ErrExt T a (a.err p c) :=
  ⟨[(p, c)], rfl, by simp [hp]⟩

theorem errExt_chk (T : List String) (a : A) (ok : Bool) (p c : String) (hp : p ∈ T) : ErrExt T a (a.chk ok p c) := by
  unfold A.chk; split
  · exact ErrExt.refl T a
  · exact errExt_err T a p c hp

theorem ErrExt.chk {T : List String} {a b : A} (h : ErrExt T a b) (ok : Bool) (p c : String) (hp : p ∈ T) :
    ErrExt T a (b.chk ok p c) := h.trans (errExt_chk T b ok p c hp)

theorem errExt_foldl {β : Type} (T : List String) (f : A → β → A) (hf : ∀ x y, ErrExt T x (f x y)) :
    ∀ (l : List β) (a : A), ErrExt T a (l.foldl f a)
  | [], a => ErrExt.refl T a
  | y :: rest, a => (hf a y).trans (errExt_foldl T f hf rest (f a y))

theorem ErrExt.foldl {β : Type} {T : List String} {a b : A} (h : ErrExt T a b) (f : A → β → A) (l : List β)
    (hf : ∀ x y, ErrExt T x (f x y)) : ErrExt T a (l.foldl f b) := h.trans (errExt_foldl T f hf l b)

/-- fields other than `errs` are untouched -/
theorem ErrExt.mods {T a a'} (h : ErrExt T a a') : a'.mods = a.mods := by obtain ⟨_, e, _⟩ := h; subst e; rfl
theorem ErrExt.buf {T a a'} (h : ErrExt T a a') : a'.buf = a.buf := by obtain ⟨_, e, _⟩ := h; subst e; rfl
theorem ErrExt.fail {T a a'} (h : ErrExt T a a') : a'.fail = a.fail := by obtain ⟨_, e, _⟩ := h; subst e; rfl
theorem ErrExt.w {T a a'} (h : ErrExt T a a') : a'.w = a.w := by obtain ⟨_, e, _⟩ := h; subst e; rfl
theorem ErrExt.wAny {T a a'} (h : ErrExt T a a') : a'.wAny = a.wAny := by obtain ⟨_, e, _⟩ := h; subst e; rfl
theorem ErrExt.nAccepted {T a a'} (h : ErrExt T a a') : a'.nAccepted = a.nAccepted := by
  obtain ⟨_, e, _⟩ := h; subst e; rfl

/-- no entry for property `p` -/
def NoErr (p : String) (a : A) : Prop := ∀ e ∈ a.errs, e.1 ≠ p

theorem ErrExt.noErr {T : List String} {a a' : A} {p : String} (h : ErrExt T a a') (hp : p ∉ T) (hn : NoErr p a) :
    NoErr p a' := by
  obtain ⟨n, e, t⟩ := h
  subst e
  intro x hx
  rcases List.mem_append.mp hx with h | h
  · exact hn x h
  · intro e; exact hp (e ▸ t x h)

theorem noErr_iff_filter (p : String) (a : A) : NoErr p a ↔ a.errs.filter (·.1 == p) = [] := by
  unfold NoErr
  rw [List.filter_eq_nil_iff]
  constructor
  · intro h e he; simpa using h e he
  · intro h e he; simpa using h e he


/-! ## every checker is an error extension for its own tags -/

theorem checkDepartures_ext (cfg : Cfg) (a : A) (md : Option Nat) (evs : List Ev) :
    ErrExt ["C07", "C14"] a (checkDepartures cfg a md evs) := by
  unfold checkDepartures
  extract_lets xs wf a1 a2 a3 a4 notices a5 observers a6 owed fobs
  have h1 : ErrExt ["C07", "C14"] a a1 := by
    show ErrExt _ a (match md with | some u => _ | none => a)
    split
    · exact errExt_chk _ _ _ _ _ (by simp)
    · exact ErrExt.refl _ _
  have h2 : ErrExt ["C07", "C14"] a a2 := h1.foldl _ _ (fun x y => errExt_chk _ _ _ _ _ (by simp))
  have h3 : ErrExt ["C07", "C14"] a a3 := h2.foldl _ _ (fun x y => errExt_chk _ _ _ _ _ (by simp))
  have h4 : ErrExt ["C07", "C14"] a a4 := h3.chk _ _ _ (by simp)
  have h5 : ErrExt ["C07", "C14"] a a5 := h4.foldl _ _ (fun x y => errExt_chk _ _ _ _ _ (by simp))
  have h6 : ErrExt ["C07", "C14"] a a6 := h5.foldl _ _ (fun x y => errExt_foldl _ _ (fun x' y' => by
    split
    · exact ErrExt.refl _ _
    · exact errExt_chk _ _ _ _ _ (by simp)) _ _)
  exact h6.foldl _ _ (fun x y => errExt_foldl _ _ (fun x' y' => errExt_chk _ _ _ _ _ (by simp)) _ _)

/-- from the state with the second writable set installed back to the state itself -/
theorem errExt_any {T : List String} {a D : A} {v : List Nat} (h : ErrExt T ({ a with wAny := v } : A) D) :
    ErrExt T a ({ D with wAny := a.wAny } : A) := by
  obtain ⟨new, e, t⟩ := h
  exact ⟨new, by rw [e], t⟩

theorem checkDeparturesAny_ext (cfg : Cfg) (a : A) (o : Option (List Nat)) (md : Option Nat) (evs : List Ev) :
    ErrExt ["C07", "C14"] a (checkDeparturesAny cfg a o md evs) := by
  cases o with
  | none => exact checkDepartures_ext cfg a md evs
  | some v => exact errExt_any (checkDepartures_ext cfg _ md evs)

theorem checkAcks_ext (cfg : Cfg) (a : A) (u : Nat) (expect : Bool) (evs : List Ev) :
    ErrExt ["C19"] a (checkAcks cfg a u expect evs) := by
  unfold checkAcks
  extract_lets acks _c toU
  split
  · exact errExt_chk _ _ _ _ _ (by simp)
  · split
    · exact ErrExt.refl _ _
    · extract_lets a1 a2 a3
      have h1 : ErrExt ["C19"] a a1 := errExt_chk _ _ _ _ _ (by simp)
      have h2 : ErrExt ["C19"] a a2 := by
        simp only [a2]
        split
        · exact h1
        · exact h1.chk _ _ _ (by simp)
      refine h2.foldl _ _ (fun x y => ?_)
      dsimp only
      split
      · exact ErrExt.refl _ _
      · split
        · split
          · exact ErrExt.refl _ _
          · split <;> exact errExt_chk _ _ _ _ _ (by simp)
        · exact errExt_chk _ _ _ _ _ (by simp)

theorem checkInfos_ext (a : A) (evs : List Ev) : ErrExt ["C06"] a (checkInfos a evs) := by
  unfold checkInfos
  refine errExt_foldl _ _ (fun x p => ?_) _ _
  split
  · split
    · split
      · exact ErrExt.refl _ _
      · exact errExt_chk _ _ _ _ _ (by simp)
    · exact ErrExt.refl _ _
  · exact ErrExt.refl _ _

theorem checkData_ext (cfg : Cfg) (a : A) (h : Hdr) (evs : List Ev) :
    ErrExt ["C01", "C14"] a (checkData cfg a h evs) := by
  unfold checkData
  extract_lets t inRange copies mine a1 a2 subs expected a3 a4 hears undeliv observers a5
  have h1 : ErrExt ["C01", "C14"] a a1 := errExt_chk _ _ _ _ _ (by simp)
  have h2 : ErrExt ["C01", "C14"] a a2 := h1.chk _ _ _ (by simp)
  split
  · exact h2
  · have h3 : ErrExt ["C01", "C14"] a a3 := h2.foldl _ _ (fun x y => errExt_chk _ _ _ _ _ (by simp))
    have h4 : ErrExt ["C01", "C14"] a a4 := h3.foldl _ _ (fun x y => errExt_chk _ _ _ _ _ (by simp))
    split
    · exact h4
    · exact h4.foldl _ _ (fun x y => errExt_foldl _ _ (fun x' y' => errExt_chk _ _ _ _ _ (by simp)) _ _)

theorem checkNoticeOrigin_ext (cfg : Cfg) (a : A) (rd : Option Read) (evs : List Ev) :
    ErrExt ["C14"] a (checkNoticeOrigin cfg a rd evs) := by
  unfold checkNoticeOrigin
  split
  · exact ErrExt.refl _ _
  · split
    · exact errExt_err _ _ _ _ (by simp)
    · exact ErrExt.refl _ _


theorem checkLoggerWaited_ext (cfg : Cfg) (a : A) (rd : Read) (evs : List Ev) :
    ErrExt ["C14"] a (checkLoggerWaited cfg a rd evs) := by
  unfold checkLoggerWaited
  split
  · exact ErrExt.refl _ _
  · dsimp only
    split
    · exact ErrExt.refl _ _
    · exact errExt_foldl _ _ (fun x y => errExt_chk _ _ _ _ _ (by simp)) _ _

/-- what `roundBody.go` does to the abstract state before it hands it to `segment`: the two C14 checks on the events of
    the frame -/
def preSeg (cfg : Cfg) (a : A) (rd : Read) (evs : List Ev) : A :=
  checkLoggerWaited cfg (checkNoticeOrigin cfg a (some rd) evs) rd evs

theorem preSeg_ext (cfg : Cfg) (a : A) (rd : Read) (evs : List Ev) : ErrExt ["C14"] a (preSeg cfg a rd evs) :=
  (checkNoticeOrigin_ext cfg a (some rd) evs).trans (checkLoggerWaited_ext cfg _ rd evs)

theorem checkNoNotice_ext (cfg : Cfg) (a : A) (all : List Ev) : ErrExt ["C14"] a (checkNoNoticeAboutNotices cfg a all) := by
  unfold checkNoNoticeAboutNotices
  exact errExt_chk _ _ _ _ _ (by simp)

theorem checkC05_ext (a : A) (all : List Ev) (senderOf : Nat → Nat) :
    ErrExt ["C05", "C03", "C07"] a (checkC05 a all senderOf) := by
  unfold checkC05
  extract_lets broken a1 a2 uids a3 a4
  have h1 : ErrExt ["C05", "C03", "C07"] a a1 := errExt_chk _ _ _ _ _ (by simp)
  have h2 : ErrExt ["C05", "C03", "C07"] a a2 := h1.chk _ _ _ (by simp)
  have h3 : ErrExt ["C05", "C03", "C07"] a a3 := h2.foldl _ _ (fun x y => by
    dsimp only
    exact (errExt_chk _ _ _ _ _ (by simp)).chk _ _ _ (by simp))
  have h4 : ErrExt ["C05", "C03", "C07"] a a4 := h3.foldl _ _ (fun x y =>
    errExt_foldl _ _ (fun x' y' => errExt_chk _ _ _ _ _ (by simp)) _ _)
  refine h4.foldl _ _ (fun x y => errExt_foldl _ _ (fun x' y' => ?_) _ _)
  split
  · exact ErrExt.refl _ _
  · exact errExt_chk _ _ _ _ _ (by simp)


theorem checkTiming_ext (cfg : Cfg) (a : A) (evs : List Ev) : ErrExt ["C18"] a (checkTiming cfg a evs) := by
  unfold checkTiming
  refine errExt_foldl _ _ (fun x p => ?_) _ _
  split
  · extract_lets a1 a2 a3
    have h1 : ErrExt ["C18"] x a1 := errExt_foldl _ _ (fun x' y' => by
      split
      · exact errExt_chk _ _ _ _ _ (by simp)
      · exact ErrExt.refl _ _) _ _
    have h2 : ErrExt ["C18"] x a2 := h1.foldl _ _ (fun x' y' => by
      split
      · exact ErrExt.refl _ _
      · exact errExt_chk _ _ _ _ _ (by simp))
    have h3 : ErrExt ["C18"] x a3 := h2.foldl _ _ (fun x' y' => by
      split
      · exact errExt_chk _ _ _ _ _ (by simp)
      · exact ErrExt.refl _ _)
    refine h3.foldl _ _ (fun x' y' => ?_)
    split
    · exact errExt_chk _ _ _ _ _ (by simp)
    · exact ErrExt.refl _ _
  · exact ErrExt.refl _ _

theorem checkTraffic_ext (cfg : Cfg) (a : A) (evs : List Ev) : ErrExt ["C18"] a (checkTraffic cfg a evs) := by
  unfold checkTraffic
  extract_lets tr observers xs owed a1
  have h1 : ErrExt ["C18"] a a1 := by
    simp only [a1]
    split
    · exact ErrExt.refl _ _
    · exact errExt_foldl _ _ (fun x' y' => errExt_chk _ _ _ _ _ (by simp)) _ _
  refine h1.foldl _ _ (fun x o => ?_)
  extract_lets mine subsOk b1 b2 entries b3 tys b4 b5 b6
  have g1 : ErrExt ["C18"] x b1 := errExt_chk _ _ _ _ _ (by simp)
  have g2 : ErrExt ["C18"] x b2 := g1.chk _ _ _ (by simp)
  have g3 : ErrExt ["C18"] x b3 := g2.chk _ _ _ (by simp)
  have g4 : ErrExt ["C18"] x b4 := g3.chk _ _ _ (by simp)
  have g5 : ErrExt ["C18"] x b5 := g4.foldl _ _ (fun x' y' => errExt_chk _ _ _ _ _ (by simp))
  have g6 : ErrExt ["C18"] x b6 := g5.foldl _ _ (fun x' y' => by
    split
    · exact ErrExt.refl _ _
    · exact errExt_chk _ _ _ _ _ (by simp))
  refine g6.foldl _ _ (fun x' y' => ?_)
  split
  · exact errExt_chk _ _ _ _ _ (by simp)
  · exact ErrExt.refl _ _

/-! ## extensions that may also move the statistics / timer fields -/

/-- the abstract table, the buffer, the failure environment, the writable set and the accept counter are unchanged;
    error entries with tags in `T` may have been appended; the statistics fields are unconstrained -/
structure CoreExt (T : List String) (a a' : A) : Prop where
  mods : a'.mods = a.mods
  buf : a'.buf = a.buf
  fail : a'.fail = a.fail
  w : a'.w = a.w
  nAccepted : a'.nAccepted = a.nAccepted
  errs : ∃ new : List (String × String), a'.errs = a.errs ++ new ∧ ∀ e ∈ new, e.1 ∈ T

theorem ErrExt.core {T a a'} (h : ErrExt T a a') : CoreExt T a a' := by
  obtain ⟨n, e, t⟩ := h
  subst e
  exact ⟨rfl, rfl, rfl, rfl, rfl, n, rfl, t⟩

theorem CoreExt.refl (T : List String) (a : A) : CoreExt T a a := (ErrExt.refl T a).core

theorem CoreExt.trans {T : List String} {a b c : A} (h1 : CoreExt T a b) (h2 : CoreExt T b c) : CoreExt T a c := by
  refine ⟨h2.mods.trans h1.mods, h2.buf.trans h1.buf, h2.fail.trans h1.fail, h2.w.trans h1.w,
    h2.nAccepted.trans h1.nAccepted, ?_⟩
  obtain ⟨n1, e1, t1⟩ := h1.errs
  obtain ⟨n2, e2, t2⟩ := h2.errs
  refine ⟨n1 ++ n2, by rw [e2, e1, List.append_assoc], fun e he => ?_⟩
  rcases List.mem_append.mp he with h | h
  · exact t1 e h
  · exact t2 e h

theorem CoreExt.mono {T T' : List String} {a b : A} (h : CoreExt T a b) (hs : ∀ p, p ∈ T → p ∈ T') : CoreExt T' a b := by
  obtain ⟨n, e, t⟩ := h.errs
  exact ⟨h.mods, h.buf, h.fail, h.w, h.nAccepted, n, e, fun x hx => hs _ (t x hx)⟩

theorem coreExt_foldl {β : Type} (T : List String) (f : A → β → A) (hf : ∀ x y, CoreExt T x (f x y)) :
    ∀ (l : List β) (a : A), CoreExt T a (l.foldl f a)
  | [], a => CoreExt.refl T a
  | y :: rest, a => (hf a y).trans (coreExt_foldl T f hf rest (f a y))

theorem CoreExt.noErr {T : List String} {a a' : A} {p : String} (h : CoreExt T a a') (hp : p ∉ T) (hn : NoErr p a) :
    NoErr p a' := by
  obtain ⟨n, e, t⟩ := h.errs
  intro x hx
  rw [e] at hx
  rcases List.mem_append.mp hx with h | h
  · exact hn x h
  · intro e; exact hp (e ▸ t x h)

/-- only statistics / timer fields differ -/
theorem coreExt_stats (T : List String) {a a' : A} (hm : a'.mods = a.mods) (hb : a'.buf = a.buf) (hf : a'.fail = a.fail)
    (hw : a'.w = a.w) (hn : a'.nAccepted = a.nAccepted) (he : a'.errs = a.errs) : CoreExt T a a' :=
  ⟨hm, hb, hf, hw, hn, [], by simp [he], by simp⟩

theorem noteMgrFrames_ext (cfg : Cfg) (a : A) (evs : List Ev) : CoreExt [] a (noteMgrFrames cfg a evs) := by
  unfold noteMgrFrames
  refine coreExt_foldl _ _ (fun x p => ?_) _ _
  split <;> first | exact CoreExt.refl _ _ | exact coreExt_stats _ rfl rfl rfl rfl rfl rfl

theorem tail_ext (cfg : Cfg) (a : A) (evs : List Ev) : CoreExt ["C18"] a (tail cfg a evs) := by
  unfold tail
  extract_lets tick1 a1 a2 tick2 a3 a4 a5
  have h1 : CoreExt ["C18"] a a1 := by
    simp only [a1]; split
    · exact (checkTiming_ext cfg a evs).core
    · exact (errExt_chk _ _ _ _ _ (by simp)).core
  have h2 : CoreExt ["C18"] a a2 := by
    simp only [a2]; split
    · exact h1.trans (coreExt_stats _ rfl rfl rfl rfl rfl rfl)
    · exact h1
  have h3 : CoreExt ["C18"] a a3 := by
    simp only [a3]; split
    · exact h2.trans (checkTraffic_ext cfg a2 evs).core
    · exact h2
  have h4 : CoreExt ["C18"] a a4 := by
    simp only [a4]; split
    · exact h3.trans (coreExt_stats _ rfl rfl rfl rfl rfl rfl)
    · exact h3
  show CoreExt ["C18"] a a5
  simp only [a5]; split
  · exact h4.trans (coreExt_stats _ rfl rfl rfl rfl rfl rfl)
  · exact h4


/-! ## the abstract table seen through `A.get` -/

theorem get_uid {a : A} {u : Nat} {m : AMod} (h : a.get u = some m) : m.uid = u := by
  unfold A.get at h; have := List.find?_some h; simpa using this

theorem get_mem {a : A} {u : Nat} {m : AMod} (h : a.get u = some m) : m ∈ a.mods := by
  unfold A.get at h; exact List.mem_of_find?_eq_some h

theorem aget_map (l : List AMod) (g : AMod → AMod) (hg : ∀ m, (g m).uid = m.uid) (v : Nat) :
    (l.map g).find? (·.uid == v) = (l.find? (·.uid == v)).map g := by
  induction l with
  | nil => rfl
  | cons x l ih =>
    simp only [List.map_cons, List.find?_cons, hg]
    cases (x.uid == v) <;> simp [ih]

theorem get_upd (a : A) (u v : Nat) (f : AMod → AMod) (hf : ∀ m, (f m).uid = m.uid) :
    (a.upd u f).get v = (a.get v).map (fun m => if m.uid == u then f m else m) := by
  unfold A.upd A.get
  exact aget_map _ _ (by intro m; split <;> simp [hf]) v

theorem get_upd_self (a : A) (u : Nat) (f : AMod → AMod) (hf : ∀ m, (f m).uid = m.uid) {m : AMod}
    (h : a.get u = some m) : (a.upd u f).get u = some (f m) := by
  rw [get_upd a u u f hf, h]; simp [get_uid h]

theorem get_upd_ne (a : A) (u v : Nat) (f : AMod → AMod) (hf : ∀ m, (f m).uid = m.uid) (hne : v ≠ u) :
    (a.upd u f).get v = a.get v := by
  rw [get_upd a u v f hf]
  cases h : a.get v with
  | none => rfl
  | some m =>
    have h1 := get_uid h
    have h2 : (m.uid == u) = false := by rw [h1]; simpa using hne
    simp only [Option.map_some, h2, Bool.false_eq_true, if_false]

theorem uids_upd (a : A) (u : Nat) (f : AMod → AMod) (hf : ∀ m, (f m).uid = m.uid) :
    (a.upd u f).mods.map (·.uid) = a.mods.map (·.uid) := by
  unfold A.upd
  simp only [List.map_map]
  apply List.map_congr_left
  intro m _
  simp only [Function.comp]
  split
  · exact hf m
  · rfl

/-- mark as departed -/
def kill (m : AMod) : AMod := { m with alive := false, connected := false }

def killIn (l : List Nat) (m : AMod) : AMod := if l.contains m.uid then kill m else m

theorem applyDepartures_map (a : A) (evs : List Ev) :
    applyDepartures a evs = { a with mods := a.mods.map (killIn (closes evs)) } := by
  unfold applyDepartures
  generalize closes evs = l
  induction l generalizing a with
  | nil =>
    have : a.mods.map (killIn []) = a.mods := by
      rw [List.map_congr_left (g := id)]; · simp
      intro m _; simp [killIn]
    simp [this]
  | cons v l ih =>
    rw [List.foldl_cons, ih]
    unfold A.upd
    simp only [List.map_map]
    congr 1
    apply List.map_congr_left
    intro m _
    simp only [Function.comp, killIn, List.contains_cons]
    by_cases h1 : m.uid = v
    · subst h1
      simp only [beq_self_eq_true, if_true, Bool.true_or]
      show (if l.contains (kill m).uid then kill (kill m) else kill m) = kill m
      split <;> rfl
    · have : (m.uid == v) = false := by simpa using h1
      simp [this]

theorem applyDepartures_core (a : A) (evs : List Ev) :
    (applyDepartures a evs).buf = a.buf ∧ (applyDepartures a evs).fail = a.fail ∧ (applyDepartures a evs).w = a.w ∧
    (applyDepartures a evs).nAccepted = a.nAccepted ∧ (applyDepartures a evs).errs = a.errs := by
  rw [applyDepartures_map]; exact ⟨rfl, rfl, rfl, rfl, rfl⟩

theorem applyDepartures_uids (a : A) (evs : List Ev) :
    (applyDepartures a evs).mods.map (·.uid) = a.mods.map (·.uid) := by
  rw [applyDepartures_map]
  simp only [List.map_map]
  apply List.map_congr_left
  intro m _
  simp only [Function.comp, killIn]
  split <;> rfl

theorem applyDepartures_get (a : A) (evs : List Ev) (v : Nat) :
    (applyDepartures a evs).get v = (a.get v).map (killIn (closes evs)) := by
  rw [applyDepartures_map]
  unfold A.get
  exact aget_map _ _ (by intro m; unfold killIn; split <;> rfl) v

/-- the live entry of `u` -/
def A.live (a : A) (u : Nat) : Option AMod :=
  match a.get u with
  | some m => if m.alive then some m else none
  | none => none

theorem live_some {a : A} {u : Nat} {m : AMod} : a.live u = some m ↔ a.get u = some m ∧ m.alive = true := by
  unfold A.live
  cases h : a.get u with
  | none => simp
  | some x =>
    by_cases hx : x.alive = true
    · simp only [hx, if_true, Option.some.injEq]
      constructor
      · intro e; subst e; exact ⟨rfl, hx⟩
      · intro e; exact e.1
    · simp only [hx, Bool.false_eq_true, if_false]
      constructor
      · intro e; cases e
      · intro ⟨e, ha⟩; cases e; exact absurd ha hx

theorem applyDepartures_live (a : A) (evs : List Ev) (v : Nat) :
    (applyDepartures a evs).live v = if (closes evs).contains v then none else a.live v := by
  unfold A.live
  rw [applyDepartures_get]
  cases h : a.get v with
  | none => simp
  | some m =>
    have hu := get_uid h
    simp only [Option.map_some, killIn, hu]
    split
    · simp [kill]
    · rfl

/-- `applyDepartures` commutes with error extensions -/
theorem applyDepartures_coreExt {T : List String} {a a' : A} (h : CoreExt T a a') (evs : List Ev) :
    CoreExt T (applyDepartures a evs) (applyDepartures a' evs) := by
  rw [applyDepartures_map, applyDepartures_map]
  exact ⟨by simp [h.mods], h.buf, h.fail, h.w, h.nAccepted, h.errs⟩


/-! ## `checkAcks` passes when the acknowledgements are as the property says -/

theorem chk_true (a : A) (p c : String) : a.chk true p c = a := rfl

theorem chk_of (a : A) (b : Bool) (p c : String) (hb : b = true) : a.chk b p c = a := by subst hb; rfl

theorem foldl_fix {β : Type} (f : A → β → A) (a : A) : ∀ (l : List β), (∀ x ∈ l, f a x = a) → l.foldl f a = a
  | [], _ => rfl
  | y :: rest, h => by
    rw [List.foldl_cons, h y (by simp)]
    exact foldl_fix f a rest (fun x hx => h x (by simp [hx]))

/-- the ACKNOWLEDGE frames among the events -/
def ackSends (evs : List Ev) : List (Nat × Nat × Frame) := (sends evs).filter (fun p => p.2.2.body == .ack)

/-- number of ACKNOWLEDGE frames written to `v` -/
def ackTo (evs : List Ev) (v : Nat) : Nat := ((ackSends evs).filter (·.1 == v)).length

theorem checkAcks_false_ok (cfg : Cfg) (a : A) (u : Nat) (evs : List Ev) (h : ackSends evs = []) :
    checkAcks cfg a u false evs = a := by
  unfold checkAcks
  unfold ackSends at h
  simp [h, chk_true]

theorem checkAcks_none_ok (cfg : Cfg) (a : A) (u : Nat) (evs : List Ev) (h : a.get u = none) :
    checkAcks cfg a u true evs = a := by
  unfold checkAcks
  simp [h]

theorem checkAcks_true_ok (cfg : Cfg) (a : A) (u : Nat) (m : AMod) (evs : List Ev) (hget : a.get u = some m)
    (h1 : ∀ p ∈ ackSends evs, p.2.2.dest = m.modId ∧ p.2.2.src = 0)
    (h2 : a.failing u = false → ackTo evs u = 1 + (if m.isLogger then 1 else 0))
    (h3 : ∀ l ∈ a.mods, l.uid ≠ u → l.alive = true →
      if l.isLogger && l.connected then
        (a.failing l.uid = false → if a.failing u then ackTo evs l.uid ≤ 1 else ackTo evs l.uid = 1)
      else ackTo evs l.uid = 0) :
    checkAcks cfg a u true evs = a := by
  unfold checkAcks
  simp only [Bool.not_true, Bool.false_eq_true, if_false, hget]
  have e1 : (((sends evs).filter (fun p => p.2.2.body == .ack)).all
      (fun p => p.2.2.dest == m.modId && p.2.2.src == 0)) = true := by
    rw [List.all_eq_true]
    intro p hp
    have := h1 p hp
    simp [this.1, this.2]
  rw [e1, chk_true]
  have e2 : (if a.failing u = true then a
      else a.chk ((((sends evs).filter (fun p => p.2.2.body == .ack)).filter (·.1 == u)).length ==
        1 + if m.isLogger = true then 1 else 0) "C19"
        s!"sender {u} got {(((sends evs).filter (fun p => p.2.2.body == .ack)).filter (·.1 == u)).length} ACKNOWLEDGE frames for one control frame") = a := by
    split
    · rfl
    · rename_i hf
      have := h2 (by simpa using hf)
      unfold ackTo ackSends at this
      rw [this]; simp [chk_true]
  rw [e2]
  apply foldl_fix
  intro l hl
  by_cases hlu : l.uid = u
  · simp [hlu]
  · by_cases hal : l.alive = true
    · have h := h3 l hl hlu hal
      have hlu' : (l.uid == u) = false := by simpa using hlu
      simp only [hlu', hal, Bool.not_true, Bool.or_self, Bool.false_eq_true, if_false]
      unfold ackTo ackSends at h
      split
      · rename_i hlc
        rw [if_pos hlc] at h
        split
        · rfl
        · rename_i hfl
          have h' := h (by simpa using hfl)
          split
          · rename_i hfu
            rw [if_pos hfu] at h'
            exact chk_of _ _ _ _ (decide_eq_true h')
          · rename_i hfu
            rw [if_neg hfu] at h'
            exact chk_of _ _ _ _ (beq_iff_eq.mpr h')
      · rename_i hlc
        rw [if_neg hlc] at h
        exact chk_of _ _ _ _ (beq_iff_eq.mpr h)
    · have : l.alive = false := by simpa using hal
      simp [this]


/-! ## the shape of `segment`, case by case -/

/-- the frame does not arrive whole: EOF / reset at the header, short header, unreadable length, death inside the payload -/
def brokenRd (cfg : Cfg) (rd : Read) : Bool :=
  rd.hdrErr || !rd.hdrOk || rd.h.nbytes < 0 || rd.h.nbytes > cfg.bufMax ||
    (rd.h.nbytes > 0 && (rd.payErr || (rd.avail : Int) < rd.h.nbytes))

/-- what the payload read leaves in the receive buffer -/
def bufAfter (cfg : Cfg) (buf : List Nat) (rd : Read) : List Nat :=
  if rd.hdrErr || !rd.hdrOk || rd.h.nbytes ≤ 0 || rd.h.nbytes > cfg.bufMax || rd.payErr then buf
  else bufWrite buf rd.pay (min rd.avail rd.h.nbytes.toNat)

def afterBuf (cfg : Cfg) (a : A) (rd : Read) : A := { a with buf := bufAfter cfg a.buf rd }

theorem afterBuf_eq (cfg : Cfg) (a : A) (rd : Read) :
    (if rd.hdrErr || !rd.hdrOk || rd.h.nbytes ≤ 0 || rd.h.nbytes > cfg.bufMax || rd.payErr then a
     else { a with buf := bufWrite a.buf rd.pay (min rd.avail rd.h.nbytes.toNat) }) = afterBuf cfg a rd := by
  unfold afterBuf bufAfter; split <;> rfl

theorem segment_broken (cfg : Cfg) (a : A) (rd : Read) (evs : List Ev) (m : AMod) (hget : a.get rd.uid = some m)
    (hal : m.alive = true) (hb : brokenRd cfg rd = true) :
    ∃ Y, ErrExt ["C07"] (afterBuf cfg a rd) Y ∧
      segment cfg a rd evs =
        applyDepartures (checkDepartures cfg (checkAcks cfg Y rd.uid false evs) (some rd.uid) evs) evs := by
  refine ⟨?Y, ?h1, ?h2⟩
  case h2 =>
    unfold segment
    unfold brokenRd at hb
    simp only [hget, hal, Bool.not_true, Bool.false_eq_true, if_false, hb, if_true]
    rfl
  · rw [afterBuf_eq]; exact errExt_chk _ _ _ _ _ (by simp)

/-- the abstract meaning of SUBSCRIBE / RESUME (`add`) and UNSUBSCRIBE / PAUSE of type `ty` -/
def subUpdA (cfg : Cfg) (ty : Int) (add : Bool) (m : AMod) : AMod :=
  if ty == cfg.allTypes then (if add then { m with subAll := true, types := [] } else { m with subAll := false, types := [] })
  else if m.subAll then m
  else if add then { m with types := if m.types.contains ty then m.types else m.types ++ [ty] }
  else { m with types := m.types.filter (· != ty) }

section shapes
variable (cfg : Cfg) (a : A) (rd : Read) (evs : List Ev) (m : AMod) (hget : a.get rd.uid = some m)
  (hal : m.alive = true) (hb : brokenRd cfg rd = false)
include hget hal hb

theorem segment_reconnect
    (hc : (rd.h.mtype == cfg.mtConnect || rd.h.mtype == cfg.mtConnectV2) = true) (hcn : m.connected = true) :
    segment cfg a rd evs =
      applyDepartures (checkDepartures cfg (checkAcks cfg (afterBuf cfg a rd) rd.uid false evs) none evs) evs := by
  unfold segment
  unfold brokenRd at hb
  simp only [hget, hal, Bool.not_true, Bool.false_eq_true, if_false, hb, hc, if_true, hcn, afterBuf_eq]

theorem segment_connect
    (hc : (rd.h.mtype == cfg.mtConnect || rd.h.mtype == cfg.mtConnectV2) = true) (hcn : m.connected = false) :
    segment cfg a rd evs =
      match checkConnect cfg (afterBuf cfg a rd) rd.uid m rd.h evs with
      | (a, none) => applyDepartures (checkDepartures cfg a (some rd.uid) evs) evs
      | (a, some ok) =>
        applyDepartures (checkInfos (checkDepartures cfg (checkAcks cfg a rd.uid ok evs)
          (if ok then none else some rd.uid) evs) evs) evs := by
  unfold segment
  unfold brokenRd at hb
  simp only [hget, hal, Bool.not_true, Bool.false_eq_true, if_false, hb, hc, if_true, hcn, afterBuf_eq]
  rfl

theorem segment_disconnect
    (hc : (rd.h.mtype == cfg.mtConnect || rd.h.mtype == cfg.mtConnectV2) = false)
    (hd : (rd.h.mtype == cfg.mtDisconnect) = true) :
    ∃ Y, ErrExt ["C07"] (afterBuf cfg a rd) Y ∧
      segment cfg a rd evs =
        applyDepartures (checkDepartures cfg (checkAcks cfg Y rd.uid false evs) (some rd.uid) evs) evs := by
  refine ⟨?Y, ?h1, ?h2⟩
  case h2 =>
    unfold segment
    unfold brokenRd at hb
    simp only [hget, hal, Bool.not_true, Bool.false_eq_true, if_false, hb, hc, hd, if_true]
    rfl
  · rw [afterBuf_eq]; exact errExt_chk _ _ _ _ _ (by simp)

theorem segment_sub
    (hc : (rd.h.mtype == cfg.mtConnect || rd.h.mtype == cfg.mtConnectV2) = false)
    (hd : (rd.h.mtype == cfg.mtDisconnect) = false)
    (hs : (rd.h.mtype == cfg.mtSubscribe || rd.h.mtype == cfg.mtResume || rd.h.mtype == cfg.mtUnsubscribe ||
            rd.h.mtype == cfg.mtPause) = true) :
    segment cfg a rd evs =
      applyDepartures (checkDepartures cfg (checkAcks cfg
        ((afterBuf cfg a rd).upd rd.uid (subUpdA cfg (bufI32 (afterBuf cfg a rd).buf 0)
          (rd.h.mtype == cfg.mtSubscribe || rd.h.mtype == cfg.mtResume))) rd.uid true evs) none evs) evs := by
  unfold segment
  unfold brokenRd at hb
  simp only [hget, hal, Bool.not_true, Bool.false_eq_true, if_false, hb, hc, hd, hs, if_true, afterBuf_eq]
  rfl

theorem segment_setName_bad
    (hc : (rd.h.mtype == cfg.mtConnect || rd.h.mtype == cfg.mtConnectV2) = false)
    (hd : (rd.h.mtype == cfg.mtDisconnect) = false)
    (hs : (rd.h.mtype == cfg.mtSubscribe || rd.h.mtype == cfg.mtResume || rd.h.mtype == cfg.mtUnsubscribe ||
            rd.h.mtype == cfg.mtPause) = false)
    (hn : (rd.h.mtype == cfg.mtSetName) = true) (hnm : cstr (afterBuf cfg a rd).buf 0 32 = none) :
    segment cfg a rd evs =
      applyDepartures (checkDepartures cfg (checkAcks cfg (afterBuf cfg a rd) rd.uid false evs) (some rd.uid) evs) evs := by
  unfold segment
  unfold brokenRd at hb
  simp only [hget, hal, Bool.not_true, Bool.false_eq_true, if_false, hb, hc, hd, hs, hn, if_true, afterBuf_eq, hnm]

theorem segment_setName
    (hc : (rd.h.mtype == cfg.mtConnect || rd.h.mtype == cfg.mtConnectV2) = false)
    (hd : (rd.h.mtype == cfg.mtDisconnect) = false)
    (hs : (rd.h.mtype == cfg.mtSubscribe || rd.h.mtype == cfg.mtResume || rd.h.mtype == cfg.mtUnsubscribe ||
            rd.h.mtype == cfg.mtPause) = false)
    (hn : (rd.h.mtype == cfg.mtSetName) = true) (nm : List Nat) (hnm : cstr (afterBuf cfg a rd).buf 0 32 = some nm) :
    segment cfg a rd evs =
      applyDepartures (checkInfos (checkDepartures cfg (checkAcks cfg
        ((afterBuf cfg a rd).upd rd.uid (fun m => { m with name := nm })) rd.uid false evs) none evs) evs) evs := by
  unfold segment
  unfold brokenRd at hb
  simp only [hget, hal, Bool.not_true, Bool.false_eq_true, if_false, hb, hc, hd, hs, hn, if_true, afterBuf_eq, hnm]

theorem segment_ready
    (hc : (rd.h.mtype == cfg.mtConnect || rd.h.mtype == cfg.mtConnectV2) = false)
    (hd : (rd.h.mtype == cfg.mtDisconnect) = false)
    (hs : (rd.h.mtype == cfg.mtSubscribe || rd.h.mtype == cfg.mtResume || rd.h.mtype == cfg.mtUnsubscribe ||
            rd.h.mtype == cfg.mtPause) = false)
    (hn : (rd.h.mtype == cfg.mtSetName) = false) (hr : (rd.h.mtype == cfg.mtModuleReady) = true) :
    segment cfg a rd evs =
      applyDepartures (checkInfos (checkDepartures cfg (checkAcks cfg
        ((afterBuf cfg a rd).upd rd.uid (fun m => { m with pid := bufI32 (afterBuf cfg a rd).buf 0 })) rd.uid false evs)
        none evs) evs) evs := by
  unfold segment
  unfold brokenRd at hb
  simp only [hget, hal, Bool.not_true, Bool.false_eq_true, if_false, hb, hc, hd, hs, hn, hr, if_true, afterBuf_eq]

theorem segment_data
    (hc : (rd.h.mtype == cfg.mtConnect || rd.h.mtype == cfg.mtConnectV2) = false)
    (hd : (rd.h.mtype == cfg.mtDisconnect) = false)
    (hs : (rd.h.mtype == cfg.mtSubscribe || rd.h.mtype == cfg.mtResume || rd.h.mtype == cfg.mtUnsubscribe ||
            rd.h.mtype == cfg.mtPause) = false)
    (hn : (rd.h.mtype == cfg.mtSetName) = false) (hr : (rd.h.mtype == cfg.mtModuleReady) = false) :
    ∃ Z, CoreExt [] (checkData cfg (checkAcks cfg (afterBuf cfg a rd) rd.uid false evs) rd.h evs) Z ∧
      segment cfg a rd evs = applyDepartures (checkDepartures cfg Z none evs) evs := by
  refine ⟨?Z, ?h1, ?h2⟩
  case h2 =>
    unfold segment
    unfold brokenRd at hb
    simp only [hget, hal, Bool.not_true, Bool.false_eq_true, if_false, hb, hc, hd, hs, hn, hr, afterBuf_eq]
    rfl
  · split
    · exact CoreExt.refl _ _
    · exact coreExt_stats _ rfl rfl rfl rfl rfl rfl

end shapes


/-! ## the outcomes of `checkConnect` -/

/-- the abstract entry of a connection whose CONNECT was (observed to be) accepted with id `id` -/
def connUpd (r : Req) (nm : List Nat) (id : Int) (m : AMod) : AMod :=
  { m with connected := true, modId := id, unique := r.unique, isLogger := r.isLogger, isDaemon := r.isDaemon,
           pid := r.pid, name := nm }

/-- the id the Spec records: the requested one, or (dynamic) the one the first ACKNOWLEDGE is addressed to -/
def connId (r : Req) (evs : List Ev) : Int :=
  if r.modId != 0 then r.modId else match (ackSends evs).head? with | some p => p.2.2.dest | none => -1

theorem checkConnect_cases (cfg : Cfg) (a : A) (u : Nat) (m : AMod) (h : Hdr) (evs : List Ev) :
    ∃ Y, ErrExt ["C03", "C06", "C07"] a Y ∧
      ((checkConnect cfg a u m h evs = (Y, none) ∧ ackSends evs = [] ∧ a.failing u = true) ∨
       (checkConnect cfg a u m h evs = (Y, some false) ∧ (ackSends evs = [] ∨ (reqOf cfg m h a.buf).name = none)) ∨
       (∃ nm, (reqOf cfg m h a.buf).name = some nm ∧ ackSends evs ≠ [] ∧
          checkConnect cfg a u m h evs =
            (Y.upd u (connUpd (reqOf cfg m h a.buf) nm (connId (reqOf cfg m h a.buf) evs)), some true))) := by
  unfold checkConnect
  dsimp only
  generalize hr : reqOf cfg m h a.buf = r
  have hacks : List.filter (fun p => p.2.2.body == Body.ack) (sends evs) = ackSends evs := rfl
  rw [hacks]
  by_cases h0 : ((ackSends evs).isEmpty && a.failing u) = true
  · refine ⟨a, ErrExt.refl _ _, Or.inl ⟨by simp only [h0, if_true], ?_, ?_⟩⟩
    · exact List.isEmpty_iff.mp ((Bool.and_eq_true _ _ ▸ h0).1)
    · exact (Bool.and_eq_true _ _ ▸ h0).2
  · simp only [h0, Bool.false_eq_true, if_false]
    by_cases hemp : (ackSends evs).isEmpty = true
    · -- refused
      have hnil : ackSends evs = [] := List.isEmpty_iff.mp hemp
      cases hn : r.name with
      | none => exact ⟨_, errExt_chk _ _ _ _ _ (by simp), Or.inr (Or.inl ⟨rfl, Or.inl hnil⟩)⟩
      | some nm =>
        simp only [hemp, Bool.not_true, Bool.false_eq_true, if_false]
        by_cases hid : (r.modId != 0) = true
        · simp only [hid, if_true]
          exact ⟨_, ((errExt_chk ["C03", "C06", "C07"] _ _ "C06" _ (by simp)).chk _ "C06" _ (by simp)).chk _ "C07" _ (by simp),
            Or.inr (Or.inl ⟨rfl, Or.inl hnil⟩)⟩
        · simp only [hid, Bool.false_eq_true, if_false]
          exact ⟨_, (errExt_chk ["C03", "C06", "C07"] _ _ "C06" _ (by simp)).chk _ "C07" _ (by simp),
            Or.inr (Or.inl ⟨rfl, Or.inl hnil⟩)⟩
    · -- accepted
      have hne : ackSends evs ≠ [] := fun e => hemp (List.isEmpty_iff.mpr e)
      have hemp' : (ackSends evs).isEmpty = false := by simpa using hemp
      cases hn : r.name with
      | none =>
        -- an accepted request with an undecodable name: reported under C03; no table update
        exact ⟨_, errExt_chk _ _ _ _ _ (by simp), Or.inr (Or.inl ⟨rfl, Or.inr rfl⟩)⟩
      | some nm =>
        simp only [hemp', Bool.not_false, if_true]
        by_cases hid : (r.modId != 0) = true
        · simp only [hid, if_true]
          refine ⟨?Y, ?hE, Or.inr (Or.inr ⟨nm, rfl, hne, ?hEq⟩)⟩
          case hEq => unfold connId; simp only [hid, if_true]; rfl
          case hE =>
            exact ((errExt_chk ["C03", "C06", "C07"] _ _ "C06" _ (by simp)).chk _ "C06" _ (by simp)).chk _ "C07" _ (by simp)
        · simp only [hid, Bool.false_eq_true, if_false]
          refine ⟨?Y2, ?hE2, Or.inr (Or.inr ⟨nm, rfl, hne, ?hEq2⟩)⟩
          case hEq2 =>
            unfold connId; simp only [hid, Bool.false_eq_true, if_false]
            rfl
          case hE2 => exact (errExt_chk ["C03", "C06", "C07"] _ _ "C06" _ (by simp)).chk _ "C06" _ (by simp)


/-- the shape of `segment` for a CONNECT from a connection that is not connected yet: either no table update (refused,
    or not observable), or the update with the observed id followed by the acknowledgement check -/
theorem segment_connect_cases (cfg : Cfg) (a : A) (rd : Read) (evs : List Ev) (m : AMod) (hget : a.get rd.uid = some m)
    (hal : m.alive = true) (hb : brokenRd cfg rd = false)
    (hc : (rd.h.mtype == cfg.mtConnect || rd.h.mtype == cfg.mtConnectV2) = true) (hcn : m.connected = false) :
    ∃ Y, ErrExt ["C03", "C06", "C07"] (afterBuf cfg a rd) Y ∧
      (((ackSends evs = [] ∨ (reqOf cfg m rd.h (afterBuf cfg a rd).buf).name = none) ∧
        (ackSends evs = [] → ∃ W, CoreExt ["C06", "C07", "C14"] Y W ∧ segment cfg a rd evs = applyDepartures W evs)) ∨
       (∃ nm, (reqOf cfg m rd.h (afterBuf cfg a rd).buf).name = some nm ∧ ackSends evs ≠ [] ∧
          segment cfg a rd evs =
            applyDepartures (checkInfos (checkDepartures cfg (checkAcks cfg
              (Y.upd rd.uid (connUpd (reqOf cfg m rd.h (afterBuf cfg a rd).buf) nm
                (connId (reqOf cfg m rd.h (afterBuf cfg a rd).buf) evs))) rd.uid true evs) none evs) evs) evs)) := by
  have hseg := segment_connect cfg a rd evs m hget hal hb hc hcn
  obtain ⟨Y, hY, hcases⟩ := checkConnect_cases cfg (afterBuf cfg a rd) rd.uid m rd.h evs
  refine ⟨Y, hY, ?_⟩
  rcases hcases with ⟨he, hnil, _⟩ | ⟨he, hor⟩ | ⟨nm, hnm, hne, he⟩
  · refine Or.inl ⟨Or.inl hnil, fun _ => ⟨_, ((checkDepartures_ext cfg Y (some rd.uid) evs).mono (by simp)).core, ?_⟩⟩
    rw [hseg, he]
  · refine Or.inl ⟨hor, fun hnil => ⟨checkInfos (checkDepartures cfg Y (some rd.uid) evs) evs, ?_, ?_⟩⟩
    · exact (((checkDepartures_ext cfg Y (some rd.uid) evs).mono (by simp)).trans
        ((checkInfos_ext _ evs).mono (by simp))).core
    · rw [hseg, he]
      simp only [Bool.false_eq_true, if_false]
      rw [checkAcks_false_ok cfg Y rd.uid evs hnil]
  · refine Or.inr ⟨nm, hnm, hne, ?_⟩
    rw [hseg, he]
    rfl


/-! ## `checkData`: the C01 clauses pass when the copies are as the property says -/

/-- the data frames among the events -/
def dcopies (evs : List Ev) : List (Nat × Nat × Frame) :=
  (sends evs).filter (fun p => match p.2.2.body with | .data _ => true | _ => false)

/-- the copies of input frame `k` -/
def dmine (k : Nat) (evs : List Ev) : List (Nat × Nat × Frame) := (dcopies evs).filter (fun p => p.2.2.body == .data k)

def inRangeH (cfg : Cfg) (h : Hdr) : Bool :=
  !(h.dest < 0 || h.dest > cfg.maxModules || h.destHost < 0 || h.destHost > cfg.maxHosts)

/-- the subscribers the published frame has to reach -/
def dexpected (cfg : Cfg) (a : A) (h : Hdr) : List AMod :=
  if inRangeH cfg h then
    (a.mods.filter (fun m => m.alive && subscribed m h.mtype)).filter (fun m => ready a m && destOK h m && !a.failing m.uid)
  else []

theorem checkData_c01 (cfg : Cfg) (a : A) (h : Hdr) (evs : List Ev)
    (c1 : (dcopies evs).length = (dmine h.k evs).length)
    (c2 : ∀ p ∈ dmine h.k evs, p.2.2.mtype = h.mtype ∧ p.2.2.src = h.src ∧ p.2.2.dest = h.dest ∧
      p.2.2.destHost = h.destHost ∧ (p.2.2.nbytes : Int) = h.nbytes)
    (c3 : h.mtype ≠ cfg.allTypes → ∀ m ∈ dexpected cfg a h, ((dmine h.k evs).filter (·.1 == m.uid)).length = 1)
    (c4 : h.mtype ≠ cfg.allTypes → ∀ p ∈ dmine h.k evs, (dexpected cfg a h).any (·.uid == p.1) = true) :
    ErrExt ["C14"] a (checkData cfg a h evs) := by
  unfold checkData
  extract_lets t inRange copies mine a1 a2 subs expected a3 a4 hears undeliv observers a5
  have hcop : copies = dcopies evs := rfl
  have hmine : mine = dmine h.k evs := rfl
  have e1 : a1 = a := by
    show a.chk _ _ _ = a
    exact chk_of _ _ _ _ (by rw [hcop, hmine, c1]; exact beq_self_eq_true _)
  have e2 : a2 = a := by
    show a1.chk _ _ _ = a
    rw [e1]
    refine chk_of _ _ _ _ ?_
    rw [List.all_eq_true]
    intro p hp
    obtain ⟨q1, q2, q3, q4, q5⟩ := c2 p (by rw [← hmine]; exact hp)
    simp [t, q1, q2, q3, q4, q5]
  split
  · rw [e2]; exact ErrExt.refl _ _
  · rename_i hta
    have hta' : h.mtype ≠ cfg.allTypes := by simpa [t] using hta
    have hexp : expected = dexpected cfg a h := by
      show (if inRange = true then _ else []) = _
      unfold dexpected
      have : inRange = inRangeH cfg h := rfl
      rw [this]
      split
      · show List.filter _ (List.filter _ a2.mods) = _
        rw [e2]
      · rfl
    have e3 : a3 = a := by
      show List.foldl _ a2 expected = a
      rw [e2]
      apply foldl_fix
      intro m hm
      refine chk_of _ _ _ _ ?_
      have := c3 hta' m (by rw [← hexp]; exact hm)
      rw [hmine, this]; rfl
    have e4 : a4 = a := by
      show List.foldl _ a3 mine = a
      rw [e3]
      apply foldl_fix
      intro p hp
      refine chk_of _ _ _ _ ?_
      rw [hexp]
      exact c4 hta' p (by rw [← hmine]; exact hp)
    split
    · rw [e4]; exact ErrExt.refl _ _
    · show ErrExt _ a a5
      have : a5 = List.foldl _ a4 observers := rfl
      rw [this, e4]
      exact errExt_foldl _ _ (fun x y => errExt_foldl _ _ (fun x' y' => errExt_chk _ _ _ _ _ (by simp)) _ _) _ _

/-! ## `checkData`: all its clauses -/

/-- a module that subscribes to one of the manager's own notices (CLIENT_CLOSED, FAILED_MESSAGE, RTMA_LOG*) or to everything -/
def hearsNotices (cfg : Cfg) (m : AMod) : Bool := m.subAll || m.types.any (fun ty => ty == cfg.mtClosed || inGuard cfg ty)

/-- the subscribers the published frame cannot be handed to -/
def dundeliv (cfg : Cfg) (a : A) (h : Hdr) : List AMod :=
  (a.mods.filter (fun m => m.alive && subscribed m h.mtype)).filter (fun m => (h.dest == 0 || m.modId == h.dest) &&
      ((!m.isLogger && !a.w.contains m.uid) || (ready a m && a.failing m.uid && !hearsNotices cfg m)))

/-- who must hear about it -/
def dobservers (cfg : Cfg) (a : A) : List AMod :=
  a.mods.filter (fun m => m.alive && subscribed m cfg.mtFailed && ready a m && !a.failing m.uid)

theorem checkData_ok (cfg : Cfg) (a : A) (h : Hdr) (evs : List Ev)
    (c1 : (dcopies evs).length = (dmine h.k evs).length)
    (c2 : ∀ p ∈ dmine h.k evs, p.2.2.mtype = h.mtype ∧ p.2.2.src = h.src ∧ p.2.2.dest = h.dest ∧
      p.2.2.destHost = h.destHost ∧ (p.2.2.nbytes : Int) = h.nbytes)
    (c3 : h.mtype ≠ cfg.allTypes → ∀ m ∈ dexpected cfg a h, ((dmine h.k evs).filter (·.1 == m.uid)).length = 1)
    (c4 : h.mtype ≠ cfg.allTypes → ∀ p ∈ dmine h.k evs, (dexpected cfg a h).any (·.uid == p.1) = true)
    (c5 : h.mtype ≠ cfg.allTypes → inRangeH cfg h = true → inGuard cfg h.mtype = false →
      ∀ o ∈ dobservers cfg a, ∀ m ∈ dundeliv cfg a h,
        ((dundeliv cfg a h).filter (·.modId == m.modId)).length ≤
          ((sends evs).filter (fun p => p.1 == o.uid && p.2.2.body == .failed m.modId h.mtype h.src h.dest)).length) :
    checkData cfg a h evs = a := by
  unfold checkData
  extract_lets t inRange copies mine a1 a2 subs expected a3 a4 hears undeliv observers a5
  have hcop : copies = dcopies evs := rfl
  have hmine : mine = dmine h.k evs := rfl
  have e1 : a1 = a := by
    show a.chk _ _ _ = a
    exact chk_of _ _ _ _ (by rw [hcop, hmine, c1]; exact beq_self_eq_true _)
  have e2 : a2 = a := by
    show a1.chk _ _ _ = a
    rw [e1]
    refine chk_of _ _ _ _ ?_
    rw [List.all_eq_true]
    intro p hp
    obtain ⟨q1, q2, q3, q4, q5⟩ := c2 p (by rw [← hmine]; exact hp)
    simp [t, q1, q2, q3, q4, q5]
  split
  · exact e2
  · rename_i hta
    have hta' : h.mtype ≠ cfg.allTypes := by simpa [t] using hta
    have hexp : expected = dexpected cfg a h := by
      show (if inRange = true then _ else []) = _
      unfold dexpected
      have : inRange = inRangeH cfg h := rfl
      rw [this]
      split
      · show List.filter _ (List.filter _ a2.mods) = _
        rw [e2]
      · rfl
    have e3 : a3 = a := by
      show List.foldl _ a2 expected = a
      rw [e2]
      apply foldl_fix
      intro m hm
      refine chk_of _ _ _ _ ?_
      have := c3 hta' m (by rw [← hexp]; exact hm)
      rw [hmine, this]; rfl
    have e4 : a4 = a := by
      show List.foldl _ a3 mine = a
      rw [e3]
      apply foldl_fix
      intro p hp
      refine chk_of _ _ _ _ ?_
      rw [hexp]
      exact c4 hta' p (by rw [← hmine]; exact hp)
    split
    · exact e4
    · rename_i hgd
      have hgd' : inRangeH cfg h = true ∧ inGuard cfg h.mtype = false := by
        have : inRange = inRangeH cfg h := rfl
        rw [← this]
        simpa [t] using hgd
      have hund : undeliv = dundeliv cfg a h := by
        show List.filter _ (List.filter _ a2.mods) = _
        rw [e2, e4]; rfl
      have hobs : observers = dobservers cfg a := by
        show List.filter _ a4.mods = _
        rw [e4]; rfl
      show List.foldl _ a4 observers = a
      rw [e4]
      apply foldl_fix
      intro o ho
      apply foldl_fix
      intro m hm
      refine chk_of _ _ _ _ ?_
      rw [hund]
      exact decide_eq_true (c5 hta' hgd'.1 hgd'.2 o (by rw [← hobs]; exact ho) m (by rw [← hund]; exact hm))

/-! ## `checkConnect`: the C06 clauses pass when the decision is the one the property demands -/

/-- what C06 demands of the (observed) connect decision -/
def ConnOK (cfg : Cfg) (a : A) (u : Nat) (r : Req) (nm : List Nat) (evs : List Ev) : Prop :=
  if r.modId != 0 then
    (ackSends evs ≠ [] → mustRefuse cfg a u r nm = false) ∧ (ackSends evs = [] → mayRefuse cfg a u r nm = true)
  else
    (ackSends evs ≠ [] → (cfg.dynStart ≤ connId r evs ∧ connId r evs < cfg.maxModules) ∧
        a.mods.any (fun o => o.alive && o.uid != u && o.modId == connId r evs) = false) ∧
    (ackSends evs = [] → dynFull cfg a = true)

theorem checkConnect_cases_c06 (cfg : Cfg) (a : A) (u : Nat) (m : AMod) (h : Hdr) (evs : List Ev)
    (hok : ¬(ackSends evs = [] ∧ a.failing u = true) → ∀ nm, (reqOf cfg m h a.buf).name = some nm →
      ConnOK cfg a u (reqOf cfg m h a.buf) nm evs)
    (hname : (reqOf cfg m h a.buf).name = none → ackSends evs = []) :
    ∃ Y, ErrExt [] a Y ∧
      ((checkConnect cfg a u m h evs = (Y, none) ∧ ackSends evs = [] ∧ a.failing u = true) ∨
       (checkConnect cfg a u m h evs = (Y, some false) ∧ (ackSends evs = [] ∨ (reqOf cfg m h a.buf).name = none) ∧
          ¬(ackSends evs = [] ∧ a.failing u = true)) ∨
       (∃ nm, (reqOf cfg m h a.buf).name = some nm ∧ ackSends evs ≠ [] ∧
          checkConnect cfg a u m h evs =
            (Y.upd u (connUpd (reqOf cfg m h a.buf) nm (connId (reqOf cfg m h a.buf) evs)), some true))) := by
  unfold checkConnect
  dsimp only
  generalize hr : reqOf cfg m h a.buf = r at hok hname
  have hacks : List.filter (fun p => p.2.2.body == Body.ack) (sends evs) = ackSends evs := rfl
  rw [hacks]
  by_cases h0 : ((ackSends evs).isEmpty && a.failing u) = true
  · refine ⟨a, ErrExt.refl _ _, Or.inl ⟨by simp only [h0, if_true], ?_, ?_⟩⟩
    · exact List.isEmpty_iff.mp ((Bool.and_eq_true _ _ ▸ h0).1)
    · exact (Bool.and_eq_true _ _ ▸ h0).2
  · simp only [h0, Bool.false_eq_true, if_false]
    have hnf : ¬(ackSends evs = [] ∧ a.failing u = true) := fun hh => h0 (by simp [hh.1, hh.2])
    have hok' : ∀ nm, r.name = some nm → ConnOK cfg a u r nm evs := hok hnf
    by_cases hemp : (ackSends evs).isEmpty = true
    · -- refused
      have hnil : ackSends evs = [] := List.isEmpty_iff.mp hemp
      cases hn : r.name with
      | none =>
        refine ⟨a, ErrExt.refl _ _, Or.inr (Or.inl ⟨?_, Or.inl hnil, hnf⟩)⟩
        rw [chk_of a _ "C03" _ (by simp [hemp])]
      | some nm =>
        have hc := hok' nm hn
        unfold ConnOK at hc
        simp only [hemp, Bool.not_true, Bool.false_eq_true, if_false]
        by_cases hid : (r.modId != 0) = true
        · simp only [hid, if_true] at hc ⊢
          have hmay := hc.2 hnil
          refine ⟨a, ErrExt.refl _ _, Or.inr (Or.inl ⟨?hEq1, Or.inl hnil, hnf⟩)⟩
          case hEq1 =>
            rw [chk_of a _ "C06" _ (by simp), chk_of a _ "C06" _ (by simp [hmay]), chk_of a _ "C07" _ (by simp [hmay])]
        · simp only [hid, Bool.false_eq_true, if_false] at hc ⊢
          have hfull := hc.2 hnil
          refine ⟨a, ErrExt.refl _ _, Or.inr (Or.inl ⟨?hEq2, Or.inl hnil, hnf⟩)⟩
          case hEq2 => rw [chk_of a _ "C06" _ hfull, chk_of a _ "C07" _ (by simp [hfull])]
    · -- accepted
      have hne : ackSends evs ≠ [] := fun e => hemp (List.isEmpty_iff.mpr e)
      have hemp' : (ackSends evs).isEmpty = false := by simpa using hemp
      cases hn : r.name with
      | none => exact absurd (hname hn) hne
      | some nm =>
        have hc := hok' nm hn
        unfold ConnOK at hc
        simp only [hemp', Bool.not_false, if_true]
        by_cases hid : (r.modId != 0) = true
        · simp only [hid, if_true] at hc ⊢
          have hmust := hc.1 hne
          refine ⟨a, ErrExt.refl _ _, Or.inr (Or.inr ⟨nm, rfl, hne, ?hEq3⟩)⟩
          case hEq3 =>
            rw [chk_of a _ "C06" _ (by simp [hmust]), chk_of a _ "C06" _ (by simp), chk_of a _ "C07" _ (by simp)]
            unfold connId; simp only [hid, if_true]; rfl
        · simp only [hid, Bool.false_eq_true, if_false] at hc ⊢
          obtain ⟨hrange, hfree⟩ := hc.1 hne
          cases hh : (ackSends evs).head? with
          | none => exact absurd (List.head?_eq_none_iff.mp hh) hne
          | some p =>
            have hcid : connId r evs = p.2.2.dest := by
              unfold connId; simp only [hid, Bool.false_eq_true, if_false, hh]
            rw [hcid] at hrange hfree
            refine ⟨a, ErrExt.refl _ _, Or.inr (Or.inr ⟨nm, rfl, hne, ?hEq4⟩)⟩
            dsimp only
            rw [chk_of a _ "C06" _ (by simp [hrange.1, hrange.2]), chk_of a _ "C06" _ (by simp [hfree]), hcid]
            rfl

/-- `segment_connect_cases` when the connect decision is the one C06 demands: no C06 entry is added by `checkConnect`.
    Either no table update (refused, or not observable) — and then the CLIENT_INFO check is made only if the requester's
    own connection works — or the update with the observed id followed by the acknowledgement check. -/
theorem segment_connect_cases_c06 (cfg : Cfg) (a : A) (rd : Read) (evs : List Ev) (m : AMod) (hget : a.get rd.uid = some m)
    (hal : m.alive = true) (hb : brokenRd cfg rd = false)
    (hc : (rd.h.mtype == cfg.mtConnect || rd.h.mtype == cfg.mtConnectV2) = true) (hcn : m.connected = false)
    (hok : ¬(ackSends evs = [] ∧ (afterBuf cfg a rd).failing rd.uid = true) → ∀ nm,
      (reqOf cfg m rd.h (afterBuf cfg a rd).buf).name = some nm →
      ConnOK cfg (afterBuf cfg a rd) rd.uid (reqOf cfg m rd.h (afterBuf cfg a rd).buf) nm evs)
    (hname : (reqOf cfg m rd.h (afterBuf cfg a rd).buf).name = none → ackSends evs = []) :
    ∃ Y, ErrExt [] (afterBuf cfg a rd) Y ∧
      (((ackSends evs = [] ∨ (reqOf cfg m rd.h (afterBuf cfg a rd).buf).name = none) ∧
        (ackSends evs = [] → ∃ W, segment cfg a rd evs = applyDepartures W evs ∧
          (((afterBuf cfg a rd).failing rd.uid = true ∧ W = checkDepartures cfg Y (some rd.uid) evs) ∨
           ((afterBuf cfg a rd).failing rd.uid = false ∧ W = checkInfos (checkDepartures cfg Y (some rd.uid) evs) evs)))) ∨
       (∃ nm, (reqOf cfg m rd.h (afterBuf cfg a rd).buf).name = some nm ∧ ackSends evs ≠ [] ∧
          segment cfg a rd evs =
            applyDepartures (checkInfos (checkDepartures cfg (checkAcks cfg
              (Y.upd rd.uid (connUpd (reqOf cfg m rd.h (afterBuf cfg a rd).buf) nm
                (connId (reqOf cfg m rd.h (afterBuf cfg a rd).buf) evs))) rd.uid true evs) none evs) evs) evs)) := by
  have hseg := segment_connect cfg a rd evs m hget hal hb hc hcn
  obtain ⟨Y, hY, hcases⟩ := checkConnect_cases_c06 cfg (afterBuf cfg a rd) rd.uid m rd.h evs hok hname
  refine ⟨Y, hY, ?_⟩
  rcases hcases with ⟨he, hnil, hfl⟩ | ⟨he, hor, hnf⟩ | ⟨nm, hnm, hne, he⟩
  · refine Or.inl ⟨Or.inl hnil, fun _ => ⟨_, ?_, Or.inl ⟨hfl, rfl⟩⟩⟩
    rw [hseg, he]
  · refine Or.inl ⟨hor, fun hnil => ⟨checkInfos (checkDepartures cfg Y (some rd.uid) evs) evs, ?_, Or.inr ⟨?_, rfl⟩⟩⟩
    rotate_left
    · cases hf : (afterBuf cfg a rd).failing rd.uid with
      | false => rfl
      | true => exact absurd ⟨hnil, hf⟩ hnf
    rw [hseg, he]
    simp only [Bool.false_eq_true, if_false]
    rw [checkAcks_false_ok cfg Y rd.uid evs hnil]
  · refine Or.inr ⟨nm, hnm, hne, ?_⟩
    rw [hseg, he]
    rfl

/-! ## `checkInfos` passes when every CLIENT_INFO frame describes its module as the table has it -/

theorem checkInfos_ok (a : A) (evs : List Ev)
    (h : ∀ p ∈ sends evs, ∀ v pid mid lg uq nm, p.2.2.body = Body.info v pid mid lg uq nm → ∀ m, a.get v = some m →
      m.connected = true → mid = m.modId ∧ lg = m.isLogger ∧ uq = m.unique ∧ nm = m.name ∧ pid = m.pid) :
    checkInfos a evs = a := by
  unfold checkInfos
  apply foldl_fix
  intro p hp
  cases hb : p.2.2.body with
  | info v pid mid lg uq nm =>
    simp only
    cases hg : a.get v with
    | none => rfl
    | some m =>
      simp only
      by_cases hc : m.connected = true
      · obtain ⟨h1, h2, h3, h4, h5⟩ := h p hp v pid mid lg uq nm hb m hg hc
        simp only [hc, Bool.not_true, Bool.false_eq_true, if_false]
        exact chk_of _ _ _ _ (by simp [h1, h2, h3, h4, h5])
      · have : m.connected = false := by simpa using hc
        simp [this]
  | _ => rfl

/-- `checkC05` when no malformed frame is among the frames sent: nothing is reported under C03 -/
theorem checkC05_c03 (a : A) (all : List Ev) (senderOf : Nat → Nat)
    (hb : (sends all).filter (fun p => brokenFrame p.2.2) = []) : ErrExt ["C05", "C07"] a (checkC05 a all senderOf) := by
  unfold checkC05
  extract_lets broken a1 a2 uids a3 a4
  have hbe : broken = [] := hb
  have e1 : a1 = a := by show a.chk _ _ _ = a; exact chk_of _ _ _ _ (by rw [hbe]; rfl)
  have e2 : a2 = a := by show a1.chk _ _ _ = a; rw [e1]; exact chk_of _ _ _ _ (by rw [hbe]; rfl)
  have h3 : ErrExt ["C05", "C07"] a a3 := by
    show ErrExt _ a (List.foldl _ a2 uids)
    rw [e2]
    exact errExt_foldl _ _ (fun x y => by
      dsimp only
      exact (errExt_chk _ _ _ _ _ (by simp)).chk _ _ _ (by simp)) _ _
  have h4 : ErrExt ["C05", "C07"] a a4 := h3.foldl _ _ (fun x y =>
    errExt_foldl _ _ (fun x' y' => errExt_chk _ _ _ _ _ (by simp)) _ _)
  refine h4.foldl _ _ (fun x y => errExt_foldl _ _ (fun x' y' => ?_) _ _)
  split
  · exact ErrExt.refl _ _
  · exact errExt_chk _ _ _ _ _ (by simp)

end Pyrtma.Mgr.Spec
